(* Proofs/OneByOneProofs.v — property C04, continuation of Proofs/ModesProofs.v:
   part A   one contraction over two pairs = the contraction over the first pair
            followed by the fermionic einsum trace of the second pair (any modes);
   part B   associativity of a chain a - b - c with ANY mode on all four
            contractions. *)
From SV Require Import Base.Prelude Base.Sym Base.Tensor Gen.PhasePerm Gen.OpOrder Model.SymInst Model.Sectors
  Model.Array Model.Arith Model.Fermi Model.Fused Model.Graded Model.Oddpos Model.Wf
  Proofs.SymLaws Proofs.GroupFacts Proofs.GradedProofs Proofs.OddposProofs Proofs.Tdot Proofs.StructProofs
  Proofs.SectorsProofs Proofs.OrderProofs Proofs.WfProofs Proofs.WfProofs2 Proofs.FermiProofs Proofs.FuseTensor Proofs.FuseProofs
  Proofs.FusedProofs Proofs.FusedSem Proofs.FusedSemGen Proofs.FusedSemOuter Proofs.TraceEinsumProofs Proofs.RouteProofs Proofs.ModesProofs.
From Coq Require Import Permutation Sorted.
Local Open Scope nat_scope.

(* ================================================================ lists of axes *)
Lemma mem_single (j i : nat) : mem Nat.eqb j [i] = Nat.eqb j i.
Proof. cbn [mem]. now rewrite orb_false_r. Qed.

Section TwoAxes.
  (* one axis i2 removed from the axes that are left after removing i1 *)
  Context (n i1 i2 : nat) (H1 : i1 < n) (H2 : i2 < n) (Hne : i1 <> i2).
  Let L1 := rest_axes n [i1].
  Let L2 := rest_axes n [i1; i2].
  Let p := index_of i2 L1.

  Lemma ta_in_L1 : In i2 L1.
  Proof.
    unfold L1, rest_axes. apply filter_In. split; [apply in_seq; lia|].
    rewrite mem_single. apply negb_true_iff, Nat.eqb_neq. congruence.
  Qed.
  Lemma ta_L2_filter : L2 = filter (fun j => negb (mem Nat.eqb j [i2])) L1.
  Proof.
    unfold L2, L1, rest_axes. rewrite filter_filter. apply filter_ext. intros j.
    change [i1; i2] with ([i1] ++ [i2]). now rewrite mem_app_nat, negb_orb.
  Qed.
  Lemma ta_L2_in_L1 j : In j L2 -> In j L1.
  Proof. rewrite ta_L2_filter. intros H. apply filter_In in H. apply H. Qed.
  Lemma ta_SS1 : StronglySorted lt L1. Proof. apply SS_rest_axes. Qed.
  Lemma ta_SS2 : StronglySorted lt L2. Proof. apply SS_rest_axes. Qed.
  Lemma ta_nd12 : NoDup [i1; i2].
  Proof. constructor; [intros [H|[]]; congruence|]. constructor; [intros []|constructor]. Qed.
  Lemma ta_lt12 j : In j [i1; i2] -> j < n.
  Proof. intros [<-|[<-|[]]]; assumption. Qed.
  Lemma ta_nd1 : NoDup [i1]. Proof. constructor; [intros []|constructor]. Qed.
  Lemma ta_lt1 j : In j [i1] -> j < n. Proof. intros [<-|[]]; assumption. Qed.
  Lemma ta_len1 : length L1 = n - 1.
  Proof. unfold L1. rewrite (length_rest_axes n [i1] ta_nd1 ta_lt1). reflexivity. Qed.
  Lemma ta_len2 : length L2 = n - 2.
  Proof. unfold L2. rewrite (length_rest_axes n [i1; i2] ta_nd12 ta_lt12). reflexivity. Qed.
  Lemma ta_p_lt : p < length L1.
  Proof. apply (index_of_spec i2 L1 ta_in_L1). Qed.

  Lemma ta_perm_L1 : Permutation L1 (L2 ++ [i2]).
  Proof.
    rewrite ta_L2_filter. rewrite <- (filter_split_perm (fun j => mem Nat.eqb j [i2]) L1) at 1.
    apply Permutation_app_head. apply NoDup_Permutation.
    - apply NoDup_filter, NoDup_rest_axes.
    - constructor; [intros []|constructor].
    - intros j. rewrite filter_In, FermiProofs.memN_In. split; [tauto|].
      intros [<-|[]]. split; [apply ta_in_L1|now left].
  Qed.

  Lemma ta_rest_p : rest_axes (length L1) [p] = map (fun j => index_of j L1) L2.
  Proof.
    unfold rest_axes.
    pose proof (rest_embed L1 ta_SS1 0 [i2] ltac:(intros j [<-|[]]; apply ta_in_L1)) as H.
    cbn [Nat.add map] in H. fold p in H. rewrite H. now rewrite <- ta_L2_filter.
  Qed.

  Lemma ta_disjoint j : In j L2 -> j <> i1 /\ j <> i2.
  Proof.
    intros H. pose proof (rest_axes_disjoint n [i1; i2] j H) as Hn. split; intros ->; apply Hn; cbn; tauto.
  Qed.

  (* scattering the two values at once, or the second one first *)
  Lemma ta_scatter_two {A} (d : A) (cl : list A) (c1 c2 : A) : length cl = length L2 ->
    scatterA d n [i1] [c1] (scatterA d (length L1) [p] [c2] cl) = scatterA d n [i1; i2] [c1; c2] cl.
  Proof.
    intros Lc. symmetry.
    set (inner := scatterA d (length L1) [p] [c2] cl).
    assert (Li : length inner = length L1) by (unfold inner, scatterA; apply length_scatterA_go).
    set (s := scatterA d n [i1] [c1] inner).
    assert (Ls : length s = n) by (unfold s, scatterA; apply length_scatterA_go).
    assert (T1 : take_axes d s [i1] = [c1]) by (unfold s; apply take_scatterA_axes; [apply ta_nd1|apply ta_lt1|reflexivity]).
    assert (TL : take_axes d s L1 = inner) by (unfold s, L1; apply take_scatterA_rest; exact Li).
    assert (Tp : take_axes d inner [p] = [c2]).
    { unfold inner. apply take_scatterA_axes; [constructor; [intros []|constructor]| |reflexivity].
      intros a [<-|[]]. apply ta_p_lt. }
    assert (Tr : take_axes d inner (rest_axes (length L1) [p]) = cl).
    { unfold inner. apply take_scatterA_rest. now rewrite ta_rest_p, map_length. }
    apply (proj2 (scatterA_eq_iff d n [i1; i2] [c1; c2] cl s ta_nd12 ta_lt12 eq_refl Lc Ls)). split.
    - change [i1; i2] with ([i1] ++ [i2]). rewrite take_axes_app, T1. cbn [app]. f_equal.
      rewrite <- (take_via d s L1 [i2]) by (intros j [<-|[]]; apply ta_in_L1).
      rewrite TL. cbn [map]. fold p. now rewrite Tp.
    - fold L2. rewrite <- (take_via d s L1 L2 ta_L2_in_L1), TL, <- ta_rest_p. now rewrite Tr.
  Qed.
End TwoAxes.

(* the axes left in a concatenation when one axis is removed on each side *)
Lemma rest_two_split nl nr pa pb : pa < nl -> pb < nr ->
  rest_axes (nl + nr) [pa; nl + pb] = rest_axes nl [pa] ++ map (fun i => nl + i) (rest_axes nr [pb]).
Proof.
  intros Ha Hb. unfold rest_axes. rewrite seq_app, filter_app. cbn [Nat.add]. f_equal.
  - apply filter_ext_in. intros i Hi. apply in_seq in Hi. cbn [mem]. rewrite !orb_false_r.
    replace (Nat.eqb i (nl + pb)) with false by (symmetry; apply Nat.eqb_neq; lia). now rewrite orb_false_r.
  - rewrite (seq_add_map nr nl), filter_map_comm. f_equal. apply filter_ext_in. intros i Hi. apply in_seq in Hi.
    cbn [mem]. rewrite !orb_false_r.
    replace (Nat.eqb (nl + i) pa) with false by (symmetry; apply Nat.eqb_neq; lia). cbn [orb]. f_equal.
    destruct (Nat.eqb_spec i pb), (Nat.eqb_spec (nl + i) (nl + pb)); try reflexivity; lia.
Qed.

Lemma scatter_two_split {A} (d : A) nl nr pa pb (c c' : A) (cl cr : list A) :
  pa < nl -> pb < nr -> length cl = nl - 1 -> length cr = nr - 1 ->
  scatterA d (nl + nr) [pa; nl + pb] [c; c'] (cl ++ cr) = scatterA d nl [pa] [c] cl ++ scatterA d nr [pb] [c'] cr.
Proof.
  intros Ha Hb Lcl Lcr.
  assert (ND1 : forall x : nat, NoDup [x]) by (intros x; constructor; [intros []|constructor]).
  assert (Lr1 : length (rest_axes nl [pa]) = nl - 1)
    by (rewrite (length_rest_axes nl [pa] (ND1 pa)); [reflexivity|intros i [<-|[]]; exact Ha]).
  assert (Lr2 : length (rest_axes nr [pb]) = nr - 1)
    by (rewrite (length_rest_axes nr [pb] (ND1 pb)); [reflexivity|intros i [<-|[]]; exact Hb]).
  set (sl := scatterA d nl [pa] [c] cl). set (sr := scatterA d nr [pb] [c'] cr).
  assert (Lsl : length sl = nl) by (unfold sl, scatterA; apply length_scatterA_go).
  assert (Lsr : length sr = nr) by (unfold sr, scatterA; apply length_scatterA_go).
  assert (Tl : take_axes d sl [pa] = [c]).
  { unfold sl. apply take_scatterA_axes; [apply ND1| |reflexivity]. intros a [<-|[]]. exact Ha. }
  assert (Tr : take_axes d sr [pb] = [c']).
  { unfold sr. apply take_scatterA_axes; [apply ND1| |reflexivity]. intros a [<-|[]]. exact Hb. }
  refine (proj2 (scatterA_eq_iff d (nl + nr) [pa; nl + pb] [c; c'] (cl ++ cr) (sl ++ sr) _ _ _ _ _) _).
  - constructor; [intros [H|[]]; lia|apply ND1].
  - intros a [<-|[<-|[]]]; lia.
  - reflexivity.
  - rewrite rest_two_split, !app_length, map_length by assumption. lia.
  - rewrite app_length. lia.
  - split.
    + cbn [take_axes map]. rewrite app_nth1 by lia. rewrite app_nth2 by lia.
      replace (nl + pb - length sl) with pb by lia.
      cbn [take_axes map] in Tl, Tr. injection Tl as ->. injection Tr as ->. reflexivity.
    + rewrite rest_two_split, take_axes_app by assumption. f_equal.
      * rewrite take_prefix.
        -- unfold sl. symmetry. apply take_scatterA_rest. lia.
        -- intros i Hi. apply In_rest_axes in Hi. lia.
      * rewrite <- Lsl, take_shift. unfold sr. symmetry. apply take_scatterA_rest. lia.
Qed.

(* ================================================================ the einsum order of a one-pair trace *)
Definition ltb3 (x y : nat * nat * nat) : bool :=
  let '(a1, a2, a3) := x in
  let '(b1, b2, b3) := y in
  Nat.ltb a1 b1 || (Nat.eqb a1 b1 && (Nat.ltb a2 b2 || (Nat.eqb a2 b2 && Nat.ltb a3 b3))).

Lemma ltb3_spec a1 a2 a3 b1 b2 b3 :
  ltb3 (a1, a2, a3) (b1, b2, b3) = true <-> a1 < b1 \/ (a1 = b1 /\ (a2 < b2 \/ (a2 = b2 /\ a3 < b3))).
Proof. unfold ltb3. repeat first [rewrite orb_true_iff | rewrite andb_true_iff]. rewrite !Nat.ltb_lt, !Nat.eqb_eq. reflexivity. Qed.

Lemma ltb3_strict_total : strict_total ltb3.
Proof.
  constructor.
  - intros [[a1 a2] a3]. destruct (ltb3 (a1, a2, a3) (a1, a2, a3)) eqn:E; [|reflexivity]. apply ltb3_spec in E. lia.
  - intros [[a1 a2] a3] [[b1 b2] b3] [[c1 c2] c3]. rewrite !ltb3_spec. lia.
  - intros [[a1 a2] a3] [[b1 b2] b3] H1 H2.
    assert (N1 : ~ (a1 < b1 \/ (a1 = b1 /\ (a2 < b2 \/ (a2 = b2 /\ a3 < b3))))) by (intros H; apply ltb3_spec in H; congruence).
    assert (N2 : ~ (b1 < a1 \/ (b1 = a1 /\ (b2 < a2 \/ (b2 = a2 /\ b3 < a3))))) by (intros H; apply ltb3_spec in H; congruence).
    assert (a1 = b1 /\ a2 = b2 /\ a3 = b3) as (-> & -> & ->) by lia. reflexivity.
Qed.

Lemma SS_ltP_NoDup {K} (ltb : K -> K -> bool) l : strict_total ltb -> StronglySorted (ltP ltb) l -> NoDup l.
Proof.
  intros Hs HS. induction HS as [|x t HS IH HF]; constructor; [|exact IH]. intros Hin.
  rewrite Forall_forall in HF. specialize (HF x Hin). unfold ltP in HF. rewrite (st_irrefl _ Hs) in HF. discriminate.
Qed.

Lemma NoDup_map_inj_elt {A B} (f : A -> B) l x y : NoDup (map f l) -> In x l -> In y l -> f x = f y -> x = y.
Proof.
  induction l as [|a l IH]; intros ND Hx Hy E; [destruct Hx|]. cbn [map] in ND. inversion ND as [|? ? Hn ND']; subst.
  destruct Hx as [->|Hx], Hy as [->|Hy]; [reflexivity| | |now apply IH].
  - exfalso. apply Hn. rewrite E. now apply in_map.
  - exfalso. apply Hn. rewrite <- E. now apply in_map.
Qed.

Lemma map_eq_inj_on {A B} (f : A -> B) : forall l1 l2,
  (forall x y, In x l1 -> In y l2 -> f x = f y -> x = y) -> map f l1 = map f l2 -> l1 = l2.
Proof.
  induction l1 as [|x l1 IH]; intros [|y l2] Hinj E; cbn [map] in E; try discriminate E; [reflexivity|].
  injection E as E1 E2. f_equal.
  - apply Hinj; [now left|now left|exact E1].
  - apply IH; [|exact E2]. intros a b Ha Hb. apply Hinj; now right.
Qed.

Lemma SS_map_mono {K} (P : K -> K -> Prop) (f : nat -> K) l :
  (forall x y, In x l -> In y l -> x < y -> P (f x) (f y)) -> StronglySorted lt l -> StronglySorted P (map f l).
Proof.
  intros Hm HS. induction HS as [|x t HS IH HF]; cbn [map]; constructor.
  - apply IH. intros a b Ha Hb. apply Hm; now right.
  - apply Forall_forall. intros y Hy. apply in_map_iff in Hy. destruct Hy as [b [<- Hb]].
    rewrite Forall_forall in HF. apply Hm; [now left|now right|apply HF, Hb].
Qed.

(* the sorted permutation is the insertion sort *)
Lemma isort_unique {K} (key : nat -> K) (ltb : K -> K -> bool) (l T : list nat) :
  strict_total ltb -> Permutation T l -> StronglySorted (ltP ltb) (map key T) ->
  isort (fun a b => ltb (key a) (key b)) l = T.
Proof.
  intros Hs HP HS.
  assert (ND : NoDup (map key l)).
  { apply (Permutation_NoDup (Permutation_map key HP)). apply (SS_ltP_NoDup ltb _ Hs HS). }
  pose proof (isort_sorted key ltb l Hs ND) as HS'.
  set (I := isort (fun a b => ltb (key a) (key b)) l) in *.
  assert (PI : Permutation I l) by apply isort_perm.
  apply (map_eq_inj_on key).
  - intros x y Hx Hy. apply (NoDup_map_inj_elt key l x y ND).
    + apply (Permutation_in _ PI Hx).
    + apply (Permutation_in _ HP Hy).
  - apply (SS_perm_eq ltb _ _ Hs HS' HS). apply Permutation_map.
    apply (Permutation_trans PI (Permutation_sym HP)).
Qed.

Lemma index_of_seq0 m q : q < m -> index_of q (seq 0 m) = q.
Proof.
  intros H. assert (G : forall s, index_of (s + q) (seq s m) = q).
  { revert q H. induction m as [|m IH]; intros q H s; [lia|]. cbn [seq index_of].
    destruct q as [|q].
    - now rewrite Nat.add_0_r, Nat.eqb_refl.
    - replace (Nat.eqb s (s + S q)) with false by (symmetry; apply Nat.eqb_neq; lia).
      f_equal. replace (s + S q) with (S s + q) by lia. apply IH. lia. }
  exact (G 0).
Qed.

Lemma count_nat_seq0 m q : count_nat q (seq 0 m) = if Nat.ltb q m then 1 else 0.
Proof.
  unfold count_nat. induction m as [|m IH]; [reflexivity|].
  rewrite seq_S, filter_app, app_length, IH. cbn [Nat.add seq filter].
  destruct (Nat.eqb_spec q m) as [->|Hn]; cbn [length].
  - rewrite Nat.ltb_irrefl. replace (Nat.ltb m (S m)) with true by (symmetry; apply Nat.ltb_lt; lia). reflexivity.
  - destruct (Nat.ltb_spec q m), (Nat.ltb_spec q (S m)); lia.
Qed.

Section TraceOrder.
  Context (n pa pb : nat) (Hab : pa < pb) (Hbn : pb < n).
  Let lhs := trace_lhs n pa pb.
  Let rhs := trace_rhs n.
  Let Rst := rest_axes n [pa; pb].
  Definition tlbl (k : nat) : nat := k - (if Nat.ltb pa k then 1 else 0) - (if Nat.ltb pb k then 1 else 0).

  Lemma to_len_lhs : length lhs = n.
  Proof. unfold lhs, trace_lhs. now rewrite map_length, seq_length. Qed.
  Lemma to_nth_lhs k : k < n ->
    nth k lhs 0 = if Nat.eqb k pa || Nat.eqb k pb then n else tlbl k.
  Proof.
    intros Hk. unfold lhs, trace_lhs. rewrite (map_nth_lt _ _ 0) by (now rewrite seq_length).
    now rewrite seq_nth by exact Hk.
  Qed.
  Lemma to_nd : NoDup [pa; pb].
  Proof. constructor; [intros [H|[]]; lia|]. constructor; [intros []|constructor]. Qed.
  Lemma to_lt j : In j [pa; pb] -> j < n.
  Proof. intros [<-|[<-|[]]]; lia. Qed.
  Lemma to_Rst_spec k : In k Rst <-> k < n /\ k <> pa /\ k <> pb.
  Proof.
    unfold Rst, rest_axes. rewrite filter_In, in_seq. cbn [mem]. rewrite orb_false_r, negb_true_iff, orb_false_iff, !Nat.eqb_neq.
    split; intros H; repeat split; try lia; intros E; subst; lia.
  Qed.
  Lemma to_len_Rst : length Rst = n - 2.
  Proof. unfold Rst. rewrite (length_rest_axes n [pa; pb] to_nd to_lt). reflexivity. Qed.
  Lemma to_nth_Rst k : In k Rst -> nth k lhs 0 = tlbl k /\ tlbl k < n - 2.
  Proof.
    intros H. apply to_Rst_spec in H. destruct H as (Hk & H1 & H2). rewrite (to_nth_lhs k Hk).
    replace (Nat.eqb k pa) with false by (symmetry; now apply Nat.eqb_neq).
    replace (Nat.eqb k pb) with false by (symmetry; now apply Nat.eqb_neq). split; [reflexivity|].
    unfold tlbl. destruct (Nat.ltb_spec pa k), (Nat.ltb_spec pb k); lia.
  Qed.
  Lemma to_tlbl_mono x y : In x Rst -> In y Rst -> x < y -> tlbl x < tlbl y.
  Proof.
    intros Hx Hy Hxy. apply to_Rst_spec in Hx. apply to_Rst_spec in Hy. unfold tlbl.
    destruct (Nat.ltb_spec pa x), (Nat.ltb_spec pb x), (Nat.ltb_spec pa y), (Nat.ltb_spec pb y); lia.
  Qed.

  (* the labels of the un-traced positions, in order, are 0, 1, ... *)
  Lemma to_lhs_Rst : map (fun k => nth k lhs 0) Rst = seq 0 (n - 2).
  Proof.
    assert (E : map (fun k => nth k lhs 0) Rst = map tlbl Rst).
    { apply map_ext_in. intros k Hk. apply (to_nth_Rst k Hk). }
    rewrite E. clear E.
    (* a strictly increasing list of m naturals below m is seq 0 m *)
    assert (Gen : forall (l : list nat) m, StronglySorted lt l -> length l = m -> (forall x, In x l -> x < m) -> l = seq 0 m).
    { intros l m HS. revert m. induction l as [|x l IH] using rev_ind; intros m Hl Hlt.
      - cbn [length] in Hl. subst m. reflexivity.
      - rewrite app_length in Hl. cbn [length] in Hl. destruct m as [|m]; [lia|].
        assert (HSl : StronglySorted lt l /\ forall y, In y l -> y < x).
        { clear -HS. induction l as [|a l IHl]; cbn [app] in HS.
          - split; [constructor|intros y []].
          - apply StronglySorted_inv in HS. destruct HS as [HS HF]. destruct (IHl HS) as [H1 H2]. split.
            + constructor; [exact H1|]. rewrite Forall_forall in HF |- *. intros y Hy. apply HF, in_or_app. now left.
            + intros y [<-|Hy]; [|now apply H2]. rewrite Forall_forall in HF. apply HF, in_or_app. right. now left. }
        destruct HSl as [HSl Hmax].
        assert (Hx : x < S m) by (apply Hlt, in_or_app; right; now left).
        assert (El : l = seq 0 m).
        { apply IH; [exact HSl|lia|]. intros y Hy. specialize (Hmax y Hy). lia. }
        rewrite seq_S. cbn [Nat.add]. f_equal; [exact El|]. f_equal.
        destruct (Nat.eq_dec x m) as [->|Hn]; [reflexivity|]. exfalso.
        (* l = seq 0 m has m elements all below x < m: impossible *)
        assert (Hm : m > 0 -> In (m - 1) l) by (intros Hp; rewrite El; apply in_seq; lia).
        destruct m as [|m']; [lia|]. specialize (Hmax _ (Hm ltac:(lia))). lia. }
    apply Gen.
    - apply (SS_map_mono lt tlbl Rst); [apply to_tlbl_mono|apply SS_rest_axes].
    - now rewrite map_length, to_len_Rst.
    - intros x Hx. apply in_map_iff in Hx. destruct Hx as [k [<- Hk]]. apply (to_nth_Rst k Hk).
  Qed.

  Context (G : Symmetry) (ixs : list (index G)) (Lix : length ixs = n).
  Context (Hdual : idual G (nth pa ixs (dflt_index G)) = negb (idual G (nth pb ixs (dflt_index G)))).
  Let front := if idual G (nth pa ixs (dflt_index G)) then [pa; pb] else [pb; pa].
  Definition ekey3 (k : nat) : nat * nat * nat :=
    let c := nth k lhs 0 in
    (if mem Nat.eqb c rhs then S (index_of c rhs) else 0, c, if idual G (nth k ixs (dflt_index G)) then 0 else 1).

  Lemma to_key_traced k : k = pa \/ k = pb ->
    ekey3 k = (0, n, if idual G (nth k ixs (dflt_index G)) then 0 else 1).
  Proof.
    clear Hdual. intros Hk. unfold ekey3. cbv zeta. rewrite (to_nth_lhs k) by (destruct Hk; lia).
    replace (Nat.eqb k pa || Nat.eqb k pb) with true
      by (symmetry; apply orb_true_iff; destruct Hk as [->| ->]; [left|right]; apply Nat.eqb_refl).
    replace (mem Nat.eqb n rhs) with false; [reflexivity|].
    symmetry. apply FermiProofs.memN_false. unfold rhs, trace_rhs. rewrite in_seq. lia.
  Qed.
  Lemma to_key_rest k : In k Rst ->
    ekey3 k = (S (tlbl k), tlbl k, if idual G (nth k ixs (dflt_index G)) then 0 else 1).
  Proof.
    clear Hdual. intros Hk. destruct (to_nth_Rst k Hk) as [E Hl]. unfold ekey3. cbv zeta. rewrite E.
    replace (mem Nat.eqb (tlbl k) rhs) with true
      by (symmetry; apply FermiProofs.memN_In; unfold rhs, trace_rhs; apply in_seq; lia).
    unfold rhs, trace_rhs. now rewrite (index_of_seq0 _ _ Hl).
  Qed.

  Lemma to_perm_front : Permutation (front ++ Rst) (seq 0 n).
  Proof.
    clear Hdual. apply (Permutation_trans (l' := [pa; pb] ++ Rst)); [|apply (perm_axes_rest n [pa; pb] to_nd to_lt)].
    apply Permutation_app_tail. unfold front. destruct (idual G _); [apply Permutation_refl|apply perm_swap].
  Qed.

  Theorem einsum_order_trace :
    isort (ekey_ltb G lhs rhs ixs) (seq 0 n) = front ++ Rst.
  Proof.
    change (ekey_ltb G lhs rhs ixs) with (fun a b => ltb3 (ekey3 a) (ekey3 b)).
    apply (isort_unique ekey3 ltb3 _ _ ltb3_strict_total to_perm_front).
    rewrite map_app.
    assert (SR : StronglySorted (ltP ltb3) (map ekey3 Rst)).
    { apply (SS_map_mono (ltP ltb3) ekey3 Rst); [|apply SS_rest_axes].
      intros x y Hx Hy Hxy. rewrite (to_key_rest x Hx), (to_key_rest y Hy).
      pose proof (to_tlbl_mono x y Hx Hy Hxy). unfold ltP. apply ltb3_spec. lia. }
    assert (FR : forall k, k = pa \/ k = pb -> Forall (ltP ltb3 (ekey3 k)) (map ekey3 Rst)).
    { intros k Hk. apply Forall_forall. intros y Hy. apply in_map_iff in Hy. destruct Hy as [r [<- Hr]].
      rewrite (to_key_traced k Hk), (to_key_rest r Hr). unfold ltP. apply ltb3_spec. lia. }
    unfold front. destruct (idual G (nth pa ixs (dflt_index G))) eqn:Ea.
    - assert (Eb : idual G (nth pb ixs (dflt_index G)) = false) by (destruct (idual G (nth pb ixs (dflt_index G))); [discriminate Hdual|reflexivity]).
      cbn [map app]. constructor; [constructor; [exact SR|apply FR; now right]|].
      constructor; [|apply FR; now left].
      rewrite (to_key_traced pa (or_introl eq_refl)), (to_key_traced pb (or_intror eq_refl)), Ea, Eb. unfold ltP. apply ltb3_spec. lia.
    - assert (Eb : idual G (nth pb ixs (dflt_index G)) = true) by (destruct (idual G (nth pb ixs (dflt_index G))); [reflexivity|discriminate Hdual]).
      cbn [map app]. constructor; [constructor; [exact SR|apply FR; now left]|].
      constructor; [|apply FR; now right].
      rewrite (to_key_traced pa (or_introl eq_refl)), (to_key_traced pb (or_intror eq_refl)), Ea, Eb. unfold ltP. apply ltb3_spec. lia.
  Qed.

  (* the labels along the sorted order *)
  Lemma to_lhs_sorted : map (fun i => nth i lhs 0) (front ++ Rst) = [n; n] ++ seq 0 (n - 2).
  Proof.
    rewrite map_app, to_lhs_Rst. f_equal.
    assert (Ea : nth pa lhs 0 = n) by (rewrite to_nth_lhs by lia; now rewrite Nat.eqb_refl).
    assert (Eb : nth pb lhs 0 = n) by (rewrite to_nth_lhs by lia; now rewrite Nat.eqb_refl, orb_true_r).
    unfold front. destruct (idual G _); cbn [map]; now rewrite Ea, Eb.
  Qed.
End TraceOrder.

(* ================================================================ the value of the fermionic one-pair trace *)
Section EinsumTrace.
  Context (G : Symmetry) (GL : GroupLaws G) (OL : OrderProofs.OrderLaws G).
  Context (R : Ring) (NL : NegLaws R) (RL : SumLaws R).
  Notation sector := (list (C G)).
  Notation arr := (aarray G R).
  Notation farr := (farray G R).
  Notation ch_d := (ident G).
  Notation ix_d := (dflt_index G).
  Notation dcoord := (ident G, 0).
  Notation cspec := (ceqb_eq G GL).
  Notation rsg := (rsgn R).
  Notation V := (RouteProofs.V G R).

  (* the order in which the einsum lists the axes: traced pair first, bra before ket *)
  Definition trace_perm (ixs : list (index G)) (pa pb : nat) : list nat :=
    (if idual G (nth pa ixs ix_d) then [pa; pb] else [pb; pa]) ++ rest_axes (length ixs) [pa; pb].

  Lemma place_trace n (co : list (C G * nat)) (c : C G * nat) : length co = n - 2 ->
    place dcoord ([n; n] ++ seq 0 (n - 2)) (seq 0 (n - 2)) co [c] = c :: c :: co.
  Proof.
    intros Lc. unfold place. rewrite map_app. cbn [map app].
    assert (Hn : mem Nat.eqb n (seq 0 (n - 2)) = false) by (apply FermiProofs.memN_false; rewrite in_seq; lia).
    rewrite Hn.
    assert (Ht : traced_of ([n; n] ++ seq 0 (n - 2)) (seq 0 (n - 2)) = [n]).
    { unfold traced_of. rewrite filter_app. cbn [filter]. rewrite Hn. cbn [negb app].
      rewrite (filter_none (fun q => negb (mem Nat.eqb q (seq 0 (n - 2)))) (seq 0 (n - 2))).
      - cbn. now rewrite Nat.eqb_refl.
      - intros q Hq. apply FermiProofs.memN_In in Hq. now rewrite Hq. }
    cbn [app] in Ht. rewrite Ht. cbn [index_of]. rewrite Nat.eqb_refl. cbn [nth]. f_equal. f_equal.
    etransitivity; [|apply (FuseTensor.map_nth_seq0 co (n - 2) dcoord Lc)]. apply map_ext_in. intros q Hq.
    pose proof Hq as Hq'. apply in_seq in Hq'. apply FermiProofs.memN_In in Hq. rewrite Hq.
    now rewrite index_of_seq0 by lia.
  Qed.

  Theorem einsum_trace_element (x : farr) (pa pb : nat) :
    wf_array G R (fbase G R x) = true ->
    let ixs := indices G R (fbase G R x) in
    let n := ndim G R (fbase G R x) in
    pa < pb -> pb < n ->
    idual G (nth pa ixs ix_d) = negb (idual G (nth pb ixs ix_d)) ->
    chargemap G (nth pa ixs ix_d) = chargemap G (nth pb ixs ix_d) ->
    exists e, f_einsum G R x (trace_lhs n pa pb) (trace_rhs n) = Some e /\
      forall co, coords_ok G (without_axes ixs [pa; pb]) co = true ->
        sem G R e co
        = rsum R (map (fun c => rsg (wsg (odd_at G (map fst (merge G n [pa; pb] co [c; c]))) (trace_perm ixs pa pb))
                                    (V x (merge G n [pa; pb] co [c; c])))
                      (index_coords G (nth pa ixs ix_d))).
  Proof.
    intros W ixs n Hab Hbn Hdual Hcm.
    pose proof (wf_blocks_ok G R cspec _ W) as BO.
    assert (ND : NoDup (fsectors G R x)) by apply (bo_nodup _ _ _ BO).
    assert (SL : sectors_len G R x).
    { intros t Ht. apply in_map_iff in Ht. destruct Ht as [sb [<- Hsb]]. apply (bo_len _ _ _ BO sb Hsb). }
    set (lhs := trace_lhs n pa pb). set (rhs := trace_rhs n).
    destruct (einsum_value G R NL cspec x lhs rhs ND SL) as [HP E]. cbv zeta in HP, E.
    assert (Eperm : einsum_perm G R x lhs rhs = trace_perm ixs pa pb).
    { unfold einsum_perm. fold ixs n. unfold trace_perm. fold (ndim G R (fbase G R x)). fold n.
      apply (einsum_order_trace n pa pb Hab Hbn G ixs eq_refl Hdual). }
    rewrite Eperm in HP, E. set (perm := trace_perm ixs pa pb) in *.
    assert (EL : map (fun i => nth i lhs 0) perm = [n; n] ++ seq 0 (n - 2)).
    { unfold perm, trace_perm. fold (ndim G R (fbase G R x)). fold n. apply (to_lhs_sorted n pa pb Hab Hbn G ixs eq_refl Hdual). }
    rewrite EL in E. set (L := [n; n] ++ seq 0 (n - 2)) in *.
    set (sg := fun s : sector => inv_parity (par_of G s) (map Z.of_nat perm)) in *.
    set (X := signed_transpose G R (f_value G R x) perm sg) in *.
    assert (NX : ndim G R X = n).
    { unfold ndim, X, signed_transpose. cbn [indices]. rewrite permuted_length.
      rewrite (Permutation_length HP), seq_length. reflexivity. }
    assert (Hn_mem : mem Nat.eqb n rhs = false).
    { apply FermiProofs.memN_false. unfold rhs, trace_rhs. rewrite in_seq. lia. }
    destruct (a_einsum G R X L rhs) as [e|] eqn:Ee.
    2:{ exfalso. apply (einsum_none G R X L rhs) in Ee. destruct Ee as [Ee|(q & Hq & Hnq & Hc)].
        - apply Ee. unfold L. rewrite NX, app_length, seq_length. cbn [length]. lia.
        - unfold L in Hq. cbn [app] in Hq. assert (q = n) as ->.
          { destruct Hq as [Hq|[Hq|Hq]]; [now symmetry|now symmetry|]. exfalso. apply Hnq. exact Hq. }
          apply Hc. unfold L. cbn [app]. unfold count_nat. cbn [filter]. rewrite Nat.eqb_refl. cbn [length].
          fold (count_nat n (seq 0 (n - 2))). rewrite count_nat_seq0.
          replace (Nat.ltb n (n - 2)) with false by (symmetry; apply Nat.ltb_ge; lia). reflexivity. }
    exists e. split; [exact E|]. intros co Hco.
    pose proof (Tdot.coords_ok_length G _ _ Hco) as Lco.
    rewrite (without_axes_take ix_d), (length_take_axes ix_d) in Lco. change (length ixs) with n in Lco.
    rewrite (to_len_Rst n pa pb Hab Hbn) in Lco.
    (* the hypotheses of the one-pair einsum theorem *)
    assert (WX : wf_array G R X = true).
    { apply (wf_signed_transpose G GL R NL); [apply (wf_f_value G R), W|exact HP]. }
    assert (Hlab : labels_ok L rhs = true).
    { unfold labels_ok. apply andb_true_iff. split.
      - apply (OrderProofs.nodupb_NoDup Nat.eqb Nat.eqb_eq). apply seq_NoDup.
      - apply forallb_forall. intros q Hq. unfold rhs, trace_rhs in Hq. apply in_seq in Hq. apply Nat.eqb_eq.
        unfold L. cbn [app]. unfold count_nat. cbn [filter].
        replace (Nat.eqb q n) with false by (symmetry; apply Nat.eqb_neq; lia). fold (count_nat q (seq 0 (n - 2))).
        rewrite count_nat_seq0. replace (Nat.ltb q (n - 2)) with true by (symmetry; apply Nat.ltb_lt; lia). reflexivity. }
    assert (Htr : traced_of L rhs = [n]).
    { unfold traced_of, L. rewrite filter_app. cbn [filter]. rewrite Hn_mem. cbn [negb app].
      rewrite (filter_none (fun q => negb (mem Nat.eqb q rhs)) (seq 0 (n - 2))).
      - cbn. now rewrite Nat.eqb_refl.
      - intros q Hq. apply FermiProofs.memN_In in Hq. unfold rhs, trace_rhs. now rewrite Hq. }
    assert (Hi0 : index_of n L = 0) by (unfold L; cbn [app index_of]; now rewrite Nat.eqb_refl).
    set (front := if idual G (nth pa ixs ix_d) then [pa; pb] else [pb; pa]).
    assert (Eperm' : perm = front ++ rest_axes n [pa; pb]) by reflexivity.
    assert (Hix0 : chargemap G (nth 0 (indices G R X) ix_d) = chargemap G (nth pa ixs ix_d)).
    { unfold X, signed_transpose. cbn [indices]. change (indices G R (f_value G R x)) with ixs.
      unfold permuted. rewrite Eperm'. unfold front. destruct (idual G (nth pa ixs ix_d)); cbn [app map nth]; [reflexivity|now symmetry]. }
    assert (NDa : NoDup (icharges G (nth pa ixs ix_d))).
    { pose proof (wf_ix_nodup G GL OL R _ [pa] W) as H. cbn [take_axes map] in H. apply (Forall_inv H). }
    assert (Hcn : charges_nodup G [nth (index_of n L) (indices G R X) ix_d] = true).
    { rewrite Hi0. unfold charges_nodup. cbn [forallb]. rewrite andb_true_r.
      apply (OrderProofs.nodupb_NoDup (ceqb G) cspec). unfold icharges. rewrite Hix0. exact NDa. }
    assert (Hie : indices G R e = without_axes ixs [pa; pb]).
    { destruct (einsum_indices G R X L rhs e Ee) as [Hi _]. rewrite Hi.
      assert (Ep : eperm L rhs = seq 2 (n - 2)).
      { unfold eperm, rhs, trace_rhs. rewrite (seq_add_map (n - 2) 2). apply map_ext_in. intros q Hq. apply in_seq in Hq.
        unfold L. cbn [app index_of]. replace (Nat.eqb n q) with false by (symmetry; apply Nat.eqb_neq; lia).
        now rewrite index_of_seq0 by lia. }
      rewrite Ep. unfold X, signed_transpose. cbn [indices]. change (indices G R (f_value G R x)) with ixs.
      rewrite Eperm'.
      assert (Lf : length front = 2) by (unfold front; destruct (idual G _); reflexivity).
      rewrite permuted_app. rewrite <- Lf.
      replace (n - length front) with (length (permuted ix_d ixs (rest_axes n [pa; pb])))
        by (rewrite permuted_length, (to_len_Rst n pa pb Hab Hbn); lia).
      rewrite <- (permuted_length ix_d ixs front) at 1.
      rewrite (take_app_r ix_d). rewrite (without_axes_take ix_d). reflexivity. }
    rewrite (einsum_one_pair_sem G R RL cspec X L rhs n e co Ee WX Hlab Htr Hcn) by (rewrite Hie; exact Hco).
    rewrite Hi0.
    assert (EIC : index_coords G (nth 0 (indices G R X) ix_d) = index_coords G (nth pa ixs ix_d))
      by (unfold index_coords; now rewrite Hix0).
    rewrite EIC. apply (Tdot.rsum_ext R). intros c Hc. cbv beta.
    unfold L, rhs, trace_rhs. rewrite (place_trace n co c Lco).
    set (cs := merge G n [pa; pb] co [c; c]).
    assert (Lcs : length cs = n) by apply (merge_length G).
    assert (Tf : take_axes dcoord cs [pa; pb] = [c; c]).
    { unfold cs, merge. apply take_scatterA_axes; [apply (to_nd n pa pb Hab Hbn)|apply (to_lt n pa pb Hab Hbn)|reflexivity]. }
    assert (Tr : take_axes dcoord cs (rest_axes n [pa; pb]) = co).
    { unfold cs, merge. apply take_scatterA_rest. now rewrite (to_len_Rst n pa pb Hab Hbn). }
    assert (Ecs : c :: c :: co = permuted dcoord cs perm).
    { rewrite Eperm', permuted_app. change (permuted dcoord cs (rest_axes n [pa; pb])) with (take_axes dcoord cs (rest_axes n [pa; pb])).
      rewrite Tr. cbn [take_axes map] in Tf. injection Tf as Ta Tb.
      unfold front. destruct (idual G (nth pa ixs ix_d)); cbn [permuted map app]; now rewrite Ta, Tb. }
    rewrite Ecs.
    assert (Hcs : coords_ok G ixs cs = true).
    { unfold cs, n, ndim. apply (coords_ok_merge G ixs [pa; pb] co [c; c]).
      - apply (to_nd n pa pb Hab Hbn).
      - apply (to_lt n pa pb Hab Hbn).
      - pose proof (In_index_coords G cspec _ c NDa Hc) as Hlt.
        unfold coords_ok. cbn [take_axes map length List.combine forallb fst snd Nat.eqb andb]. rewrite andb_true_r.
        apply andb_true_iff. split; apply Nat.ltb_lt; [exact Hlt|]. unfold size_of in *. now rewrite <- Hcm.
      - exact Hco. }
    unfold X. rewrite (sem_signed_transpose G R NL cspec (f_value G R x) perm sg cs
                        (blocks_ok_f_value G R x BO) HP Hcs).
    f_equal. unfold sg. apply (inv_parity_wsg G). intros i Hi. rewrite map_length, (merge_length G).
    apply (Permutation_in _ HP), in_seq in Hi. fold n in Hi. lia.
  Qed.
End EinsumTrace.

(* ================================================================ the sign identity on words of axes *)
Lemma wcr_embed (S P : nat -> bool) (emb : nat -> nat) u v :
  (forall x, In x u -> S (emb x) = P x) -> (forall x, In x v -> S (emb x) = P x) ->
  (forall x y, In x u -> In y v -> Nat.ltb (emb y) (emb x) = Nat.ltb y x) ->
  wcr S (map emb u) (map emb v) = wcr P u v.
Proof.
  intros Hu Hv Hm. unfold wcr. rewrite cross_map.
  rewrite (cross_canon_ext _ (fun x => emb x) (fun i : nat => i) u v Hm).
  apply cross_ext_in; assumption.
Qed.
Lemma wpar_embed (S P : nat -> bool) (emb : nat -> nat) u :
  (forall x, In x u -> S (emb x) = P x) -> wpar S (map emb u) = wpar P u.
Proof. intros H. unfold wpar, bpar. rewrite map_map. apply xorb_list_map_ext_in, H. Qed.
Lemma wpar_single (P : nat -> bool) x : wpar P [x] = P x.
Proof. unfold wpar, bpar. cbn. apply xorb_false_r. Qed.
Lemma wsg_single (P : nat -> bool) x : wsg P [x] = false.
Proof. reflexivity. Qed.
Lemma wsg_two (P : nat -> bool) x y : wsg P [x; y] = P x && P y && Nat.ltb y x.
Proof. rewrite wsg_cons, wsg_single, xorb_false_r. apply wcr_single. Qed.

Section WordSigns.
  Context (na i1 i2 : nat) (Hi1 : i1 < na) (Hi2 : i2 < na) (Hi : i1 <> i2).
  Context (nb j1 j2 : nat) (Hj1 : j1 < nb) (Hj2 : j2 < nb) (Hj : j1 <> j2).
  Context (P Q : nat -> bool) (E1 : P i1 = Q j1) (E2 : P i2 = Q j2).
  Let L1 := rest_axes na [i1].
  Let L2 := rest_axes na [i1; i2].
  Let R1 := rest_axes nb [j1].
  Let R2 := rest_axes nb [j1; j2].
  Let nl := length L1.
  Let nr := length R1.
  Let pa := index_of i2 L1.
  Let pb := nl + index_of j2 R1.

  Lemma ws_a : xorb (wsg P (L2 ++ [i1; i2])) (wsg P (L1 ++ [i1])) = xorb (wcr P L2 [i2]) (P i1 && P i2).
  Proof.
    clear E1 E2 Hj1 Hj2 Hj. rewrite !wsg_app, wsg_two, wsg_single.
    rewrite (wsg_sorted P L2 (SS_rest_axes na _)), (wsg_sorted P L1 (SS_rest_axes na _)).
    change [i1; i2] with ([i1] ++ [i2]). rewrite wcr_app_r.
    rewrite (wcr_perm_l P L1 (L2 ++ [i2]) [i1] (ta_perm_L1 na i1 i2 Hi1 Hi2 Hi)), wcr_app_l, wcr_single.
    generalize (wcr P L2 [i1]) (wcr P L2 [i2]). intros b1 b2.
    destruct (Nat.ltb_spec i2 i1), (Nat.ltb_spec i1 i2); try lia; destruct (P i1), (P i2), b1, b2; reflexivity.
  Qed.

  Lemma ws_b : xorb (wsg Q ([j2; j1] ++ R2)) (wsg Q ([j1] ++ R1)) = xorb (wcr Q [j2] R2) (Q j1 && Q j2).
  Proof.
    clear E1 E2 Hi1 Hi2 Hi. rewrite !wsg_app, wsg_two, wsg_single.
    rewrite (wsg_sorted Q R2 (SS_rest_axes nb _)), (wsg_sorted Q R1 (SS_rest_axes nb _)).
    change [j2; j1] with ([j2] ++ [j1]). rewrite wcr_app_l.
    rewrite (wcr_perm_r Q [j1] R1 (R2 ++ [j2]) (ta_perm_L1 nb j1 j2 Hj1 Hj2 Hj)), wcr_app_r, wcr_single.
    generalize (wcr Q [j1] R2) (wcr Q [j2] R2). intros b1 b2.
    destruct (Nat.ltb_spec j1 j2), (Nat.ltb_spec j2 j1); try lia; destruct (Q j1), (Q j2), b1, b2; reflexivity.
  Qed.

  (* the parities along the intermediate result: a's free legs, then b's *)
  Context (S : nat -> bool).
  Context (Sa : forall j, In j L1 -> S (index_of j L1) = P j).
  Context (Sb : forall j, In j R1 -> S (nl + index_of j R1) = Q j).

  Lemma ws_pa_lt : pa < nl. Proof. apply (ta_p_lt na i1 i2 Hi1 Hi2 Hi). Qed.
  Lemma ws_pb'_lt : index_of j2 R1 < nr. Proof. apply (ta_p_lt nb j1 j2 Hj1 Hj2 Hj). Qed.

  Lemma ws_rest : rest_axes (nl + nr) [pa; pb]
    = map (fun j => index_of j L1) L2 ++ map (fun j => nl + index_of j R1) R2.
  Proof.
    unfold pb. rewrite (rest_two_split nl nr pa _ ws_pa_lt ws_pb'_lt).
    unfold nl, pa, L1. rewrite (ta_rest_p na i1 i2 Hi1 Hi2 Hi). f_equal.
    unfold nr, R1. rewrite (ta_rest_p nb j1 j2 Hj1 Hj2 Hj). now rewrite map_map.
  Qed.

  Lemma ws_e (ket : bool) :
    wsg S ((if ket then [pb; pa] else [pa; pb]) ++ rest_axes (nl + nr) [pa; pb])
    = xorb (ket && P i2) (xorb (wcr P L2 [i2]) (wcr Q [j2] R2)).
  Proof.
    assert (In2 : In i2 L1) by apply (ta_in_L1 na i1 i2 Hi1 Hi2 Hi).
    assert (Jn2 : In j2 R1) by apply (ta_in_L1 nb j1 j2 Hj1 Hj2 Hj).
    assert (IL : forall j, In j L2 -> In j L1) by apply (ta_L2_in_L1 na i1 i2).
    assert (JR : forall j, In j R2 -> In j R1) by apply (ta_L2_in_L1 nb j1 j2).
    assert (Spa : S pa = P i2) by (apply Sa, In2).
    assert (Spb : S pb = Q j2) by (apply Sb, Jn2).
    assert (Ltl : forall j, In j L1 -> index_of j L1 < nl) by (intros j Hj0; apply (index_of_spec j L1 Hj0)).
    assert (Ltr : forall j, In j R1 -> index_of j R1 < nr) by (intros j Hj0; apply (index_of_spec j R1 Hj0)).
    set (U := map (fun j => index_of j L1) L2). set (W := map (fun j => nl + index_of j R1) R2).
    assert (ER : rest_axes (nl + nr) [pa; pb] = U ++ W) by apply ws_rest.
    rewrite wsg_app. rewrite (wsg_sorted S (rest_axes (nl + nr) [pa; pb]) (SS_rest_axes _ _)).
    rewrite xorb_false_r.
    assert (Cf : wcr S (if ket then [pb; pa] else [pa; pb]) (rest_axes (nl + nr) [pa; pb])
                 = xorb (wcr S [pa] (U ++ W)) (wcr S [pb] (U ++ W))).
    { rewrite ER. destruct ket.
      - change [pb; pa] with ([pb] ++ [pa]). rewrite wcr_app_l. apply xorb_comm.
      - change [pa; pb] with ([pa] ++ [pb]). now rewrite wcr_app_l. }
    rewrite Cf. rewrite !wcr_app_r.
    (* a's leg against a's free legs *)
    assert (C1 : wcr S [pa] U = wcr P [i2] L2).
    { change [pa] with (map (fun j => index_of j L1) [i2]). unfold U. apply wcr_embed.
      - intros x [<-|[]]. exact Spa.
      - intros x Hx. apply Sa, IL, Hx.
      - intros x y [<-|[]] Hy. apply (index_of_mono L1 (SS_rest_axes na _) i2 y In2 (IL y Hy)). }
    (* a's leg sits before all of b's legs *)
    assert (C2 : wcr S [pa] W = false).
    { apply wcr_before. intros x y [<-|[]] Hy. unfold W in Hy. apply in_map_iff in Hy. destruct Hy as [j [<- _]].
      pose proof ws_pa_lt. lia. }
    (* b's leg sits after all of a's legs *)
    assert (C3 : wcr S [pb] U = wpar P L2 && Q j2).
    { rewrite wcr_comm.
      - rewrite (wcr_before S U [pb]).
        + rewrite wpar_single, Spb, xorb_false_l. unfold U. rewrite (wpar_embed S P); [apply andb_comm|].
          intros x Hx. apply Sa, IL, Hx.
        + intros x y Hx [<-|[]]. unfold U in Hx. apply in_map_iff in Hx. destruct Hx as [j [<- Hj0]].
          pose proof (Ltl j (IL j Hj0)). unfold pb. lia.
      - intros x y [<-|[]] Hy E. subst y. unfold U in Hy. apply in_map_iff in Hy. destruct Hy as [j [Ej Hj0]].
        pose proof (Ltl j (IL j Hj0)). unfold pb in Ej. lia. }
    assert (C4 : wcr S [pb] W = wcr Q [j2] R2).
    { change [pb] with (map (fun j => nl + index_of j R1) [j2]). unfold W. apply wcr_embed.
      - intros x [<-|[]]. exact Spb.
      - intros x Hx. apply Sb, JR, Hx.
      - intros x y [<-|[]] Hy. rewrite <- (index_of_mono R1 (SS_rest_axes nb _) j2 y Jn2 (JR y Hy)).
        destruct (Nat.ltb_spec (index_of y R1) (index_of j2 R1)), (Nat.ltb_spec (nl + index_of y R1) (nl + index_of j2 R1)); try reflexivity; lia. }
    rewrite C1, C2, C3, C4.
    assert (C5 : wcr P L2 [i2] = xorb (wcr P [i2] L2) (wpar P L2 && P i2)).
    { rewrite wcr_comm; [now rewrite wpar_single|]. intros x y Hx [<-|[]] E. subst x.
      destruct (ta_disjoint na i1 i2 _ Hx) as [_ H]. now apply H. }
    rewrite C5.
    assert (Wf : wsg S (if ket then [pb; pa] else [pa; pb]) = ket && P i2).
    { destruct ket; rewrite wsg_two, Spa, Spb, <- E2.
      - replace (Nat.ltb pa pb) with true by (symmetry; apply Nat.ltb_lt; pose proof ws_pa_lt; unfold pb; lia).
        now destruct (P i2).
      - replace (Nat.ltb pb pa) with false by (symmetry; apply Nat.ltb_ge; pose proof ws_pa_lt; unfold pb; lia).
        now rewrite andb_false_r. }
    rewrite Wf, <- E2.
    generalize (wcr P [i2] L2) (wcr Q [j2] R2) (wpar P L2). intros b1 b2 b3.
    destruct ket, (P i2), b1, b2, b3; reflexivity.
  Qed.
End WordSigns.

(* ================================================================ index tables of intermediate results *)
Section Unprune.
  Context (G : Symmetry) (GL : GroupLaws G) (R : Ring).
  Notation sector := (list (C G)).
  Notation ix_d := (dflt_index G).

  (* a valid array over pruned tables is valid over the full tables *)
  Lemma unprune_WF (ixs : list (index G)) (secs : list sector) q (bl : list (sector * tensor R)) :
    IxsOK G ixs -> WF G R (prune_indices G ixs secs) q bl -> WF G R ixs q bl.
  Proof.
    intros HI [H1 H2 H3 H4]. constructor; [exact HI|exact H2|exact H3|].
    intros s t Hin. destruct (H4 s t Hin) as ((Hl & Hm & Hc) & Hsh & Hlen).
    rewrite (length_prune_indices G) in Hl, Hm. rewrite (duals_prune G) in Hc.
    assert (Hpres : forall i, i < length ixs ->
              mem (ceqb G) (nth i s (ident G)) (map (fun s0 : sector => nth i s0 (ident G)) secs) = true
              /\ In (nth i s (ident G)) (icharges G (nth i ixs ix_d))).
    { intros i Hi. specialize (Hm i Hi). rewrite (nth_prune G) in Hm by exact Hi. split.
      - apply (prune1_present G GL _ _ _ Hm).
      - unfold prune1, icharges in Hm. rewrite (Tdot.chargemap_drop G) in Hm.
        apply in_map_iff in Hm. destruct Hm as (p & <- & Hp). apply filter_In in Hp. apply in_map, Hp. }
    split; [|split; [|exact Hlen]].
    - split; [exact Hl|]. split; [|exact Hc]. intros i Hi. apply (Hpres i Hi).
    - rewrite Hsh. rewrite (block_shape_seq G ixs s Hl).
      rewrite (block_shape_seq G (prune_indices G ixs secs) s) by (rewrite (length_prune_indices G); exact Hl).
      rewrite (length_prune_indices G). apply map_ext_in. intros i Hi. apply in_seq in Hi.
      rewrite (nth_prune G) by lia. apply (size_of_prune1 G GL). apply (Hpres i). lia.
  Qed.

  Lemma unprune_wf (x : aarray G R) (ixs : list (index G)) (secs : list sector) :
    IxsOK G ixs -> indices G R x = prune_indices G ixs secs -> wf_array G R x = true ->
    wf_array G R (mkA G R ixs (charge G R x) (blocks G R x)) = true.
  Proof.
    intros HI E W. apply (wf_mk G GL). apply (wf_array_iff G GL) in W. rewrite E in W.
    apply (unprune_WF ixs secs _ _ HI W).
  Qed.
End Unprune.

Section EinsumSameVal.
  Context (G : Symmetry) (R : Ring).
  Notation farr := (farray G R).

  Lemma a_einsum_blocks (X Y : aarray G R) lhs rhs :
    blocks G R X = blocks G R Y -> ndim G R X = ndim G R Y ->
    option_map (blocks G R) (a_einsum G R X lhs rhs) = option_map (blocks G R) (a_einsum G R Y lhs rhs).
  Proof.
    intros Eb En. unfold a_einsum. cbv zeta. rewrite En.
    destruct (negb (Nat.eqb (length lhs) (ndim G R Y))); [reflexivity|].
    destruct (negb (forallb _ _)); [reflexivity|]. cbn [option_map blocks]. now rewrite Eb.
  Qed.

  (* the einsum of the same blocks over other index tables: same blocks *)
  Lemma einsum_same_val (x y : farr) lhs rhs : same_val G R x y ->
    option_map (blocks G R) (f_einsum G R x lhs rhs) = option_map (blocks G R) (f_einsum G R y lhs rhs).
  Proof.
    intros SV. unfold f_einsum. cbv zeta. rewrite (same_val_ndim G R x y SV).
    assert (Ek : forall i j, ekey_ltb G lhs rhs (indices G R (fbase G R x)) i j
                             = ekey_ltb G lhs rhs (indices G R (fbase G R y)) i j).
    { intros i j. unfold ekey_ltb. now rewrite (same_val_idual G R x y i SV), (same_val_idual G R x y j SV). }
    assert (Ep : isort (ekey_ltb G lhs rhs (indices G R (fbase G R x))) (seq 0 (ndim G R (fbase G R y)))
                 = isort (ekey_ltb G lhs rhs (indices G R (fbase G R y))) (seq 0 (ndim G R (fbase G R y)))).
    { generalize (seq 0 (ndim G R (fbase G R y))). intros l. induction l as [|k l IH]; [reflexivity|].
      cbn [isort fold_right]. fold (isort (ekey_ltb G lhs rhs (indices G R (fbase G R x))) l).
      fold (isort (ekey_ltb G lhs rhs (indices G R (fbase G R y))) l). rewrite IH.
      generalize (isort (ekey_ltb G lhs rhs (indices G R (fbase G R y))) l). intros l'.
      induction l' as [|z l' IH']; [reflexivity|]. cbn [insert_sorted]. now rewrite Ek, IH'. }
    rewrite Ep. set (p := isort _ _).
    pose proof (same_val_transpose G R x y p SV) as ST.
    apply a_einsum_blocks.
    - unfold f_phase_sync. cbn [fbase with_blocks blocks]. now rewrite (sv_blocks _ _ _ _ ST), (sv_phases _ _ _ _ ST).
    - unfold ndim, f_phase_sync. cbn [fbase with_blocks indices]. fold (ndim G R (fbase G R (f_transpose G R x p true))).
      fold (ndim G R (fbase G R (f_transpose G R y p true))). apply (same_val_ndim G R _ _ ST).
  Qed.

  Lemma sem_blocks (e e' : aarray G R) cs : blocks G R e = blocks G R e' -> sem G R e cs = sem G R e' cs.
  Proof. intros H. unfold sem. now rewrite H. Qed.
End EinsumSameVal.

Section ResultIndices.
  Context (G : Symmetry) (GL : GroupLaws G) (OL : OrderProofs.OrderLaws G).
  Context (R : Ring) (NL : NegLaws R) (RL : SumLaws R).
  Notation farr := (farray G R).
  Notation ix_d := (dflt_index G).
  Notation cspec := (ceqb_eq G GL).

  (* the tables of a blockwise contraction are the free legs' tables, pruned *)
  Lemma result_indices (a b : farr) aa ab y :
    wf_fermi G R a = true -> wf_fermi G R b = true -> pair_ok G R a b aa ab ->
    f_tensordot G R a b (naxes aa ab) MBlockwise = Some y ->
    exists secs, indices G R (fbase G R y) = prune_indices G (free_ixs G R a b aa ab) secs.
  Proof.
    intros Wa Wb P Hy. pose proof (parse_naxes G R a b aa ab P) as Hp. destruct P as [NDaa Haa NDab Hab Hlen Hd Htab].
    pose proof (tensordot_blockwise_value G R NL cspec a b (naxes aa ab) aa ab Hp (wff_nodup G GL R a Wa) (wff_len G GL R a Wa)
                  (wff_nodup G GL R b Wb) (wff_len G GL R b Wb) NDaa Haa NDab Hab Hd) as Hv.
    cbv zeta in Hv. rewrite Hy in Hv. unfold fermi_finish in Hv.
    destruct (resolve_oddpos (fparity G R a) (foddpos G R a) (foddpos G R b)) as [[minus odd]|]; [|discriminate Hv].
    injection Hv as Hv.
    set (na := ndim G R (fbase G R a)) in *. set (nb := ndim G R (fbase G R b)) in *.
    set (la := rest_axes na aa) in *. set (rb := rest_axes nb ab) in *. set (ncon := length aa) in *.
    set (A' := tdot_opA G R true a la aa) in *. set (B' := tdot_opB G R false b ab rb) in *.
    pose proof (length_rest_axes na aa NDaa Haa) as Lla. fold la ncon in Lla.
    pose proof (length_rest_axes nb ab NDab Hab) as Lrb. fold rb in Lrb. rewrite <- Hlen in Lrb. fold ncon in Lrb.
    assert (Hna : ncon <= na).
    { pose proof (Permutation_length (perm_rest_axes na aa NDaa Haa)) as H. rewrite app_length, seq_length in H. unfold ncon. lia. }
    assert (Hnb : ncon <= nb).
    { pose proof (Permutation_length (perm_axes_rest nb ab NDab Hab)) as H. rewrite app_length, seq_length in H. unfold ncon. lia. }
    assert (WA : without_axes (indices G R A') (seq (na - ncon) ncon) = without_axes (indices G R (fbase G R a)) aa).
    { unfold A'. rewrite (indices_opA G R). replace (na - ncon) with (length la) by lia. unfold ncon.
      rewrite without_permuted_tail. rewrite (without_axes_take ix_d). reflexivity. }
    assert (WB : without_axes (indices G R B') (seq 0 ncon) = without_axes (indices G R (fbase G R b)) ab).
    { unfold B'. rewrite (indices_opB G R). rewrite Hlen.
      rewrite without_permuted_head. rewrite (without_axes_take ix_d). reflexivity. }
    match type of Hv with context [tdot_blockwise G R A' B' ?l1 ?l2 ?l3 ?l4] =>
      destruct (Tdot.blockwise_indices G R cspec A' B' l1 l2 l3 l4) as [EI _]; set (Cc := tdot_blockwise G R A' B' l1 l2 l3 l4) in * end.
    exists (sectors G R Cc).
    assert (E : indices G R (fbase G R y) = indices G R Cc) by (subst y; destruct minus; reflexivity).
    rewrite E, EI, WA, WB. reflexivity.
  Qed.
End ResultIndices.

(* ================================================================ coordinates and sums *)
Section TwoAxesCoords.
  Context (G : Symmetry) (GL : GroupLaws G).
  Notation ix_d := (dflt_index G).
  Notation dcoord := (ident G, 0).
  Context (ixs : list (index G)) (i1 i2 : nat) (H1 : i1 < length ixs) (H2 : i2 < length ixs) (Hne : i1 <> i2).
  Let n := length ixs.
  Let L1 := rest_axes n [i1].
  Let L2 := rest_axes n [i1; i2].
  Let p := index_of i2 L1.

  Lemma tc_inner_ok (cl : list (coord G)) (c : coord G) :
    coords_ok G (without_axes ixs [i1; i2]) cl = true -> snd c < size_of G (nth i2 ixs ix_d) (fst c) ->
    coords_ok G (without_axes ixs [i1]) (merge G (length L1) [p] cl [c]) = true.
  Proof.
    intros Hcl Hc. rewrite (without_axes_take ix_d). fold n L1.
    set (X := take_axes ix_d ixs L1).
    assert (LX : length X = length L1) by apply (length_take_axes ix_d).
    rewrite <- LX. apply (coords_ok_merge G X [p] cl [c]).
    - constructor; [intros []|constructor].
    - intros i [<-|[]]. rewrite LX. apply (ta_p_lt n i1 i2 H1 H2 Hne).
    - cbn [take_axes map]. unfold X, p, take_axes.
      rewrite (StructProofs.nth_index_of_map (fun i => nth i ixs ix_d) i2 L1 ix_d (ta_in_L1 n i1 i2 H1 H2 Hne)).
      unfold coords_ok. cbn [length List.combine forallb fst snd Nat.eqb andb]. rewrite andb_true_r. now apply Nat.ltb_lt.
    - rewrite (without_axes_take ix_d), LX. unfold p, L1. rewrite (ta_rest_p n i1 i2 H1 H2 Hne). fold L1 L2.
      unfold X. rewrite (take_via ix_d ixs L1 L2 (ta_L2_in_L1 n i1 i2)).
      rewrite (without_axes_take ix_d) in Hcl. exact Hcl.
  Qed.
End TwoAxesCoords.

Section CoordSums.
  Context (G : Symmetry) (R : Ring) (RL : SumLaws R).
  Lemma rsum_all_coords1 (F : list (coord G) -> RT R) (ix : index G) :
    rsum R (map F (all_coords G [ix])) = rsum R (map (fun c => F [c]) (index_coords G ix)).
  Proof.
    unfold all_coords. cbn [map product]. rewrite (Tdot.rsum_flat_map R RL). apply (Tdot.rsum_ext R). intros c _.
    cbn [map]. apply (Tdot.rsum_single R RL).
  Qed.
  Lemma rsum_all_coords2 (F : list (coord G) -> RT R) (ix1 ix2 : index G) :
    rsum R (map F (all_coords G [ix1; ix2]))
    = rsum R (map (fun c1 => rsum R (map (fun c2 => F [c1; c2]) (index_coords G ix2))) (index_coords G ix1)).
  Proof.
    unfold all_coords. cbn [map product]. rewrite (Tdot.rsum_flat_map R RL). apply (Tdot.rsum_ext R). intros c1 _.
    rewrite map_map. rewrite (Tdot.rsum_flat_map R RL). apply (Tdot.rsum_ext R). intros c2 _.
    cbn [map]. apply (Tdot.rsum_single R RL).
  Qed.
End CoordSums.

(* ================================================================ part A: one pair after the other *)
Section OneByOneMain.
  Context (G : Symmetry) (GL : GroupLaws G) (OL : OrderProofs.OrderLaws G).
  Context (R : Ring) (NL : NegLaws R) (RL : SumLaws R) (CL : CommLaws R).
  Notation sector := (list (C G)).
  Notation farr := (farray G R).
  Notation ch_d := (ident G).
  Notation ix_d := (dflt_index G).
  Notation dcoord := (ident G, 0).
  Notation cspec := (ceqb_eq G GL).
  Notation rsg := (rsgn R).
  Notation Vv := (RouteProofs.V G R).

  Context (a b : farr) (i1 i2 j1 j2 : nat).
  Context (Wa : wf_fermi G R a = true) (Wb : wf_fermi G R b = true).
  Context (P : pair_ok G R a b [i1; i2] [j1; j2]).
  Context (D : distinct (foddpos G R a ++ foddpos G R b)).

  Let na := ndim G R (fbase G R a).
  Let nb := ndim G R (fbase G R b).
  Let ixa := indices G R (fbase G R a).
  Let ixb := indices G R (fbase G R b).
  Let L1 := rest_axes na [i1].
  Let L2 := rest_axes na [i1; i2].
  Let R1 := rest_axes nb [j1].
  Let R2 := rest_axes nb [j1; j2].
  Let nl := length L1.
  Let nr := length R1.
  Let pa := index_of i2 L1.
  Let pb := nl + index_of j2 R1.
  Let n1 := nl + nr.
  Let free1 := free_ixs G R a b [i1] [j1].

  Lemma ob_i1 : i1 < na. Proof. apply (po_lta _ _ _ _ _ _ P). now left. Qed.
  Lemma ob_i2 : i2 < na. Proof. apply (po_lta _ _ _ _ _ _ P). right. now left. Qed.
  Lemma ob_j1 : j1 < nb. Proof. apply (po_ltb _ _ _ _ _ _ P). now left. Qed.
  Lemma ob_j2 : j2 < nb. Proof. apply (po_ltb _ _ _ _ _ _ P). right. now left. Qed.
  Lemma ob_ine : i1 <> i2.
  Proof. pose proof (po_nda _ _ _ _ _ _ P) as H. inversion H as [|? ? Hn _]; subst. intros E. apply Hn. now left. Qed.
  Lemma ob_jne : j1 <> j2.
  Proof. pose proof (po_ndb _ _ _ _ _ _ P) as H. inversion H as [|? ? Hn _]; subst. intros E. apply Hn. now left. Qed.
  Lemma ob_dirs1 : idual G (nth i1 ixa ix_d) = negb (idual G (nth j1 ixb ix_d)).
  Proof. pose proof (po_dirs _ _ _ _ _ _ P) as H. unfold opposite_dirs in H. inversion H; subst. assumption. Qed.
  Lemma ob_dirs2 : idual G (nth i2 ixa ix_d) = negb (idual G (nth j2 ixb ix_d)).
  Proof.
    pose proof (po_dirs _ _ _ _ _ _ P) as H. unfold opposite_dirs in H. inversion H as [|? ? ? ? _ H']; subst.
    inversion H'; subst. assumption.
  Qed.
  Lemma ob_tab1 : chargemap G (nth i1 ixa ix_d) = chargemap G (nth j1 ixb ix_d).
  Proof. pose proof (po_tabs _ _ _ _ _ _ P) as H. cbn [take_axes map] in H. now injection H. Qed.
  Lemma ob_tab2 : chargemap G (nth i2 ixa ix_d) = chargemap G (nth j2 ixb ix_d).
  Proof. pose proof (po_tabs _ _ _ _ _ _ P) as H. cbn [take_axes map] in H. now injection H. Qed.

  Lemma ob_P1 : pair_ok G R a b [i1] [j1].
  Proof.
    constructor.
    - constructor; [intros []|constructor].
    - intros i [<-|[]]. apply ob_i1.
    - constructor; [intros []|constructor].
    - intros i [<-|[]]. apply ob_j1.
    - reflexivity.
    - unfold opposite_dirs. constructor; [apply ob_dirs1|constructor].
    - cbn [take_axes map]. f_equal. apply ob_tab1.
  Qed.

  Lemma ob_in_L1 : In i2 L1. Proof. apply (ta_in_L1 na i1 i2 ob_i1 ob_i2 ob_ine). Qed.
  Lemma ob_in_R1 : In j2 R1. Proof. apply (ta_in_L1 nb j1 j2 ob_j1 ob_j2 ob_jne). Qed.
  Lemma ob_pa_lt : pa < nl. Proof. apply (ta_p_lt na i1 i2 ob_i1 ob_i2 ob_ine). Qed.
  Lemma ob_pb_lt : index_of j2 R1 < nr. Proof. apply (ta_p_lt nb j1 j2 ob_j1 ob_j2 ob_jne). Qed.

  Lemma ob_free1 : free1 = take_axes ix_d ixa L1 ++ take_axes ix_d ixb R1.
  Proof. unfold free1, free_ixs. now rewrite !(without_axes_take ix_d). Qed.
  Lemma ob_len_free : length free1 = n1.
  Proof. rewrite ob_free1, app_length, !(length_take_axes ix_d). reflexivity. Qed.
  Lemma ob_nth_pa : nth pa free1 ix_d = nth i2 ixa ix_d.
  Proof.
    rewrite ob_free1, app_nth1 by (rewrite (length_take_axes ix_d); apply ob_pa_lt).
    unfold take_axes. apply (StructProofs.nth_index_of_map (fun i => nth i ixa ix_d) i2 L1 ix_d ob_in_L1).
  Qed.
  Lemma ob_nth_pb : nth pb free1 ix_d = nth j2 ixb ix_d.
  Proof.
    rewrite ob_free1, app_nth2 by (rewrite (length_take_axes ix_d); unfold pb; fold nl; lia).
    rewrite (length_take_axes ix_d). unfold pb. fold nl. replace (nl + index_of j2 R1 - nl) with (index_of j2 R1) by lia.
    unfold take_axes. apply (StructProofs.nth_index_of_map (fun i => nth i ixb ix_d) j2 R1 ix_d ob_in_R1).
  Qed.

  Lemma ob_rest1 : rest_axes n1 [pa; pb]
    = map (fun j => index_of j L1) L2 ++ map (fun j => nl + index_of j R1) R2.
  Proof. apply (ws_rest na i1 i2 ob_i1 ob_i2 ob_ine nb j1 j2 ob_j1 ob_j2 ob_jne). Qed.

  Lemma ob_take_free {A} (d : A) (X Y : list A) :
    take_axes d (take_axes d X L1 ++ take_axes d Y R1) (rest_axes n1 [pa; pb]) = take_axes d X L2 ++ take_axes d Y R2.
  Proof.
    rewrite ob_rest1, take_axes_app. f_equal.
    - rewrite take_prefix.
      + apply take_via. apply (ta_L2_in_L1 na i1 i2).
      + intros i Hi. apply in_map_iff in Hi. destruct Hi as [j [<- Hj]]. rewrite (length_take_axes d).
        apply (index_of_spec j L1). apply (ta_L2_in_L1 na i1 i2 j Hj).
    - rewrite <- (map_map (fun j => index_of j R1) (fun i => nl + i)).
      replace nl with (length (take_axes d X L1)) by apply (length_take_axes d).
      rewrite take_shift. apply take_via. apply (ta_L2_in_L1 nb j1 j2).
  Qed.

  Lemma ob_wo : without_axes free1 [pa; pb] = without_axes ixa [i1; i2] ++ without_axes ixb [j1; j2].
  Proof.
    rewrite (without_axes_take ix_d), ob_len_free, ob_free1, ob_take_free. now rewrite !(without_axes_take ix_d).
  Qed.

  (* ---- the sign of one term ---- *)
  Lemma ob_ketbra (s : sector) :
    xorb (ketbra_a G R a [i1; i2] s) (ketbra_a G R a [i1] s) = negb (idual G (nth i2 ixa ix_d)) && odd_at G s i2.
  Proof.
    unfold ketbra_a. change [i1; i2] with ([i1] ++ [i2]). rewrite filter_app, count_odd_app.
    fold ixa. set (k1 := count_odd G s (filter _ [i1])). cbn [filter].
    destruct (idual G (nth i2 ixa ix_d)); cbn [negb andb].
    - unfold count_odd. cbn. now destruct k1.
    - rewrite (count_odd_single G). now destruct k1, (odd_at G s i2).
  Qed.

  Lemma ob_sign (sa sb : sector) : length sa = na -> length sb = nb ->
    nth i1 sa ch_d = nth j1 sb ch_d -> nth i2 sa ch_d = nth j2 sb ch_d ->
    xorb (wsg (odd_at G (take_axes ch_d sa L1 ++ take_axes ch_d sb R1)) (trace_perm G free1 pa pb))
         (xorb (sigma_a G R a [i1] sa) (sigma_b G R b [j1] sb))
    = xorb (sigma_a G R a [i1; i2] sa) (sigma_b G R b [j1; j2] sb).
  Proof.
    intros La Lb A1 A2.
    set (s1 := take_axes ch_d sa L1 ++ take_axes ch_d sb R1).
    set (Pp := odd_at G sa). set (Qq := odd_at G sb). set (Ss := odd_at G s1).
    assert (E1 : Pp i1 = Qq j1) by (unfold Pp, Qq, odd_at; now rewrite A1).
    assert (E2 : Pp i2 = Qq j2) by (unfold Pp, Qq, odd_at; now rewrite A2).
    assert (Sa : forall j, In j L1 -> Ss (index_of j L1) = Pp j).
    { intros j Hj. unfold Ss, Pp, odd_at, s1. f_equal.
      rewrite app_nth1 by (rewrite (length_take_axes ch_d); apply (index_of_spec j L1 Hj)).
      unfold take_axes. apply (StructProofs.nth_index_of_map (fun i => nth i sa ch_d) j L1 ch_d Hj). }
    assert (Sb : forall j, In j R1 -> Ss (nl + index_of j R1) = Qq j).
    { intros j Hj. unfold Ss, Qq, odd_at, s1. f_equal.
      rewrite app_nth2 by (rewrite (length_take_axes ch_d); fold nl; lia).
      rewrite (length_take_axes ch_d). fold nl. replace (nl + index_of j R1 - nl) with (index_of j R1) by lia.
      unfold take_axes. apply (StructProofs.nth_index_of_map (fun i => nth i sb ch_d) j R1 ch_d Hj). }
    pose proof (ws_a na i1 i2 ob_i1 ob_i2 ob_ine nb j1 j2 Pp Qq) as WA.
    pose proof (ws_b na i1 i2 nb j1 j2 ob_j1 ob_j2 ob_jne Pp Qq) as WB.
    pose proof (ws_e na i1 i2 ob_i1 ob_i2 ob_ine nb j1 j2 ob_j1 ob_j2 ob_jne Pp Qq E2 Ss Sa Sb
                  (negb (idual G (nth i2 ixa ix_d)))) as WE.
    fold L1 L2 R1 R2 nl nr pa pb in WA, WB, WE.
    assert (ET : trace_perm G free1 pa pb
                 = (if negb (idual G (nth i2 ixa ix_d)) then [pb; pa] else [pa; pb]) ++ rest_axes (nl + nr) [pa; pb]).
    { unfold trace_perm. rewrite ob_len_free, ob_nth_pa. fold n1. unfold n1.
      destruct (idual G (nth i2 ixa ix_d)); reflexivity. }
    rewrite ET, WE.
    pose proof (ob_ketbra sa) as KB. fold Pp in KB.
    unfold sigma_a, sigma_b. fold na nb L1 L2 R1 R2.
    pose proof (perm_rest_axes na [i1; i2] (ta_nd12 i1 i2 ob_ine) (ta_lt12 na i1 i2 ob_i1 ob_i2)) as PA2. fold L2 in PA2.
    pose proof (perm_rest_axes na [i1] (ta_nd1 i1) (ta_lt1 na i1 ob_i1)) as PA1. fold L1 in PA1.
    pose proof (perm_axes_rest nb [j1; j2] (ta_nd12 j1 j2 ob_jne) (ta_lt12 nb j1 j2 ob_j1 ob_j2)) as PB2. fold R2 in PB2.
    pose proof (perm_axes_rest nb [j1] (ta_nd1 j1) (ta_lt1 nb j1 ob_j1)) as PB1. fold R1 in PB1.
    rewrite (inv_parity_wsg G sa (L2 ++ [i1; i2])) by (intros i Hi; rewrite La; apply (perm_lt _ _ PA2 i Hi)).
    rewrite (inv_parity_wsg G sa (L1 ++ [i1])) by (intros i Hi; rewrite La; apply (perm_lt _ _ PA1 i Hi)).
    change (rev [j1; j2]) with [j2; j1]. change (rev [j1]) with [j1].
    rewrite (inv_parity_wsg G sb ([j2; j1] ++ R2)).
    2:{ intros i Hi. rewrite Lb. apply (perm_lt _ _ PB2 i). cbn [app In] in Hi |- *. tauto. }
    rewrite (inv_parity_wsg G sb ([j1] ++ R1)) by (intros i Hi; rewrite Lb; apply (perm_lt _ _ PB1 i Hi)).
    fold Pp Qq. revert WA WB KB.
    generalize (wsg Pp (L2 ++ [i1; i2])) (wsg Pp (L1 ++ [i1])) (wsg Qq ([j2; j1] ++ R2)) (wsg Qq ([j1] ++ R1))
               (ketbra_a G R a [i1; i2] sa) (ketbra_a G R a [i1] sa) (wcr Pp L2 [i2]) (wcr Qq [j2] R2).
    intros b1 b2 b3 b4 b5 b6 b7 b8 WA WB KB. rewrite <- E1, <- E2 in WB.
    destruct (idual G (nth i2 ixa ix_d)), (Pp i1), (Pp i2), b1, b2, b3, b4, b5, b6, b7, b8; cbn in *; congruence.
  Qed.

  Lemma ob_len_cl (cl : list (coord G)) : coords_ok G (without_axes ixa [i1; i2]) cl = true -> length cl = nl - 1.
  Proof.
    intros H. rewrite (Tdot.coords_ok_length G _ _ H), (without_axes_take ix_d), (length_take_axes ix_d).
    change (length ixa) with na. rewrite (ta_len2 na i1 i2 ob_i1 ob_i2 ob_ine).
    unfold nl, L1. rewrite (ta_len1 na i1 ob_i1). lia.
  Qed.
  Lemma ob_len_cr (cr : list (coord G)) : coords_ok G (without_axes ixb [j1; j2]) cr = true -> length cr = nr - 1.
  Proof.
    intros H. rewrite (Tdot.coords_ok_length G _ _ H), (without_axes_take ix_d), (length_take_axes ix_d).
    change (length ixb) with nb. rewrite (ta_len2 nb j1 j2 ob_j1 ob_j2 ob_jne).
    unfold nr, R1. rewrite (ta_len1 nb j1 ob_j1). lia.
  Qed.

  Theorem one_by_one_main (m m1 : tmode) :
    exists y y1 e,
      f_tensordot2 G R a b (naxes [i1; i2] [j1; j2]) m = Some y
      /\ f_tensordot2 G R a b (naxes [i1] [j1]) m1 = Some y1
      /\ f_einsum G R y1 (trace_lhs n1 pa pb) (trace_rhs n1) = Some e
      /\ foddpos G R y1 = foddpos G R y
      /\ forall cl cr,
           coords_ok G (without_axes ixa [i1; i2]) cl = true ->
           coords_ok G (without_axes ixb [j1; j2]) cr = true ->
           sem G R e (cl ++ cr) = Vv y (cl ++ cr).
  Proof.
    destruct (tdot_main G GL OL R NL RL a b [i1; i2] [j1; j2] Wa Wb P D) as [y0 [mn (E0 & R0 & _ & _ & _ & _ & S0)]].
    destruct (lift_mode G GL OL R NL RL a b _ _ m y0 Wa Wb P E0) as (y & Ey & Oy).
    destruct (tdot_main G GL OL R NL RL a b [i1] [j1] Wa Wb ob_P1 D) as [y10 [mn1 (E10 & R10 & _ & W10 & D10 & _ & S10)]].
    destruct (lift_mode G GL OL R NL RL a b _ _ m1 y10 Wa Wb ob_P1 E10) as (y1 & Ey1 & Oy1).
    rewrite R0 in R10. injection R10 as Emn Eodd. subst mn1.
    (* the intermediate result over the un-pruned tables *)
    destruct (result_indices G GL R NL a b [i1] [j1] y10 Wa Wb ob_P1 E10) as [secs Esecs].
    assert (I1 : indices G R (fbase G R y1) = prune_indices G free1 secs).
    { rewrite (sr_indices _ _ _ _ (oe_res _ _ _ _ Oy1)). exact Esecs. }
    assert (IOK : IxsOK G free1).
    { pose proof (WFF_base_wf G GL R _ W10) as H. apply (wf_array_iff G GL) in H. apply (wf_ix _ _ _ _ _ H). }
    set (y1r := reindex G R y1 free1).
    assert (Wr : wf_array G R (fbase G R y1r) = true).
    { unfold y1r, reindex. cbn [fbase]. apply (unprune_wf G GL R (fbase G R y1) free1 secs IOK I1 (oe_wf' _ _ _ _ Oy1)). }
    assert (Dr : map (idual G) free1 = map (idual G) (indices G R (fbase G R y1))).
    { rewrite (sr_indices _ _ _ _ (oe_res _ _ _ _ Oy1)). exact D10. }
    pose proof (same_val_reindex G R y1 free1 Dr) as SV. fold y1r in SV.
    assert (Nr : ndim G R (fbase G R y1r) = n1) by (unfold ndim, y1r, reindex; cbn [fbase indices]; apply ob_len_free).
    pose proof ob_pa_lt as Hpa. pose proof ob_pb_lt as Hpb.
    (* its fermionic trace *)
    pose proof (einsum_trace_element G GL OL R NL RL y1r pa pb Wr) as HE. cbv zeta in HE.
    change (indices G R (fbase G R y1r)) with free1 in HE. rewrite Nr in HE.
    specialize (HE ltac:(unfold pb; lia) ltac:(unfold pb, n1; lia)
                   ltac:(rewrite ob_nth_pa, ob_nth_pb; apply ob_dirs2) ltac:(rewrite ob_nth_pa, ob_nth_pb; apply ob_tab2)).
    destruct HE as (e' & Ee' & Se').
    pose proof (einsum_same_val G R y1r y1 (trace_lhs n1 pa pb) (trace_rhs n1) SV) as ES. rewrite Ee' in ES. cbn [option_map] in ES.
    destruct (f_einsum G R y1 (trace_lhs n1 pa pb) (trace_rhs n1)) as [e|] eqn:Ee; [|discriminate ES].
    cbn [option_map] in ES. injection ES as ES.
    exists y, y1, e. split; [exact Ey|]. split; [exact Ey1|]. split; [exact Ee|]. split.
    { rewrite (sr_odd _ _ _ _ (oe_res _ _ _ _ Oy1)), (sr_odd _ _ _ _ (oe_res _ _ _ _ Oy)). now symmetry. }
    intros cl cr Hcl Hcr.
    pose proof (ob_len_cl cl Hcl) as Lcl. pose proof (ob_len_cr cr Hcr) as Lcr.
    rewrite (sem_blocks G R e e' _ (eq_sym ES)).
    rewrite (Se' (cl ++ cr)) by (rewrite ob_wo; apply (FermiProofs.coords_ok_app G); assumption).
    rewrite (sr_val _ _ _ _ (oe_res _ _ _ _ Oy)), (S0 cl cr Hcl Hcr). fold na nb ixa ixb.
    rewrite ob_nth_pa.
    cbn [take_axes map]. rewrite (rsum_all_coords2 G R RL). rewrite (Tdot.rsum_swap R RL).
    rewrite (rsgn_rsum R NL). apply (Tdot.rsum_ext R). intros c2 Hc2.
    (* the coordinates of the intermediate result *)
    pose proof (wff_ix_nodup G GL OL R a [i1; i2] Wa) as NDt. fold ixa in NDt. cbn [take_axes map] in NDt.
    assert (ND1 : NoDup (icharges G (nth i1 ixa ix_d))) by (apply (Forall_inv NDt)).
    assert (ND2 : NoDup (icharges G (nth i2 ixa ix_d))) by (apply (Forall_inv (Forall_inv_tail NDt))).
    pose proof (In_index_coords G cspec _ c2 ND2 Hc2) as Hlt2.
    assert (Hlt2b : snd c2 < size_of G (nth j2 ixb ix_d) (fst c2)) by (unfold size_of in *; now rewrite <- ob_tab2).
    set (cl1 := merge G nl [pa] cl [c2]). set (cr1 := merge G nr [index_of j2 R1] cr [c2]).
    assert (Hcl1 : coords_ok G (without_axes ixa [i1]) cl1 = true)
      by (apply (tc_inner_ok G ixa i1 i2 ob_i1 ob_i2 ob_ine cl c2 Hcl Hlt2)).
    assert (Hcr1 : coords_ok G (without_axes ixb [j1]) cr1 = true)
      by (apply (tc_inner_ok G ixb j1 j2 ob_j1 ob_j2 ob_jne cr c2 Hcr Hlt2b)).
    assert (EM : merge G n1 [pa; pb] (cl ++ cr) [c2; c2] = cl1 ++ cr1).
    { unfold merge, cl1, cr1, merge, n1, pb. apply (scatter_two_split dcoord nl nr pa (index_of j2 R1) c2 c2 cl cr Hpa Hpb Lcl Lcr). }
    rewrite EM. rewrite (same_val_V G R y1r y1 SV), (sr_val _ _ _ _ (oe_res _ _ _ _ Oy1)).
    rewrite (S10 cl1 cr1 Hcl1 Hcr1). fold na nb ixa ixb. cbn [take_axes map].
    rewrite (rsum_all_coords1 G R RL).
    rewrite (rsgn_rsgn R NL), !(rsgn_rsum R NL). apply (Tdot.rsum_ext R). intros c1 Hc1.
    assert (EA : merge G na [i1] cl1 [c1] = merge G na [i1; i2] cl [c1; c2]).
    { unfold merge, cl1, merge, nl, pa, L1. apply (ta_scatter_two na i1 i2 ob_i1 ob_i2 ob_ine dcoord cl c1 c2).
      transitivity (nl - 1); [exact Lcl|]. unfold nl, L1. rewrite (ta_len1 na i1 ob_i1), (ta_len2 na i1 i2 ob_i1 ob_i2 ob_ine). lia. }
    assert (EB : merge G nb [j1] cr1 [c1] = merge G nb [j1; j2] cr [c1; c2]).
    { unfold merge, cr1, merge, nr, R1. apply (ta_scatter_two nb j1 j2 ob_j1 ob_j2 ob_jne dcoord cr c1 c2).
      transitivity (nr - 1); [exact Lcr|]. unfold nr, R1. rewrite (ta_len1 nb j1 ob_j1), (ta_len2 nb j1 j2 ob_j1 ob_j2 ob_jne). lia. }
    rewrite EA, EB.
    set (A := merge G na [i1; i2] cl [c1; c2]) in *. set (B := merge G nb [j1; j2] cr [c1; c2]) in *.
    rewrite !(rmul_rsgn R NL), !(rsgn_rsgn R NL). f_equal.
    (* the sign *)
    assert (LA : length (map fst A) = na) by (rewrite map_length; apply (merge_length G)).
    assert (LB : length (map fst B) = nb) by (rewrite map_length; apply (merge_length G)).
    assert (TA : take_axes ch_d (map fst A) [i1; i2] = map fst [c1; c2]).
    { unfold A. apply (merge_take_axes G); [apply (ta_nd12 i1 i2 ob_ine)|apply (ta_lt12 na i1 i2 ob_i1 ob_i2)|reflexivity]. }
    assert (TB : take_axes ch_d (map fst B) [j1; j2] = map fst [c1; c2]).
    { unfold B. apply (merge_take_axes G); [apply (ta_nd12 j1 j2 ob_jne)|apply (ta_lt12 nb j1 j2 ob_j1 ob_j2)|reflexivity]. }
    cbn [take_axes map] in TA, TB. injection TA as TA1 TA2. injection TB as TB1 TB2.
    pose proof (ob_sign (map fst A) (map fst B) LA LB ltac:(now rewrite TA1, TB1) ltac:(now rewrite TA2, TB2)) as HS.
    assert (ES1 : take_axes ch_d (map fst A) L1 ++ take_axes ch_d (map fst B) R1 = map fst (cl1 ++ cr1)).
    { rewrite map_app. f_equal.
      - rewrite <- EA. unfold L1. apply (merge_take_rest G). fold L1. unfold cl1. apply (merge_length G).
      - rewrite <- EB. unfold R1. apply (merge_take_rest G). fold R1. unfold cr1. apply (merge_length G). }
    rewrite ES1 in HS. revert HS.
    generalize (wsg (odd_at G (map fst (cl1 ++ cr1))) (trace_perm G free1 pa pb))
               (sigma_a G R a [i1] (map fst A)) (sigma_b G R b [j1] (map fst B))
               (sigma_a G R a [i1; i2] (map fst A)) (sigma_b G R b [j1; j2] (map fst B)).
    intros b1 b2 b3 b4 b5 HS. clear - HS. destruct mn, b1, b2, b3, b4, b5; cbn in *; congruence.
  Qed.
End OneByOneMain.

(* the statement of Props/C04c.v (Definition C04_one_by_one_full), every pair of modes *)
Theorem one_by_one_all :
  forall (G : Symmetry) (R : Ring) (m m1 : tmode),
  GroupLaws G -> OrderProofs.OrderLaws G -> NegLaws R -> SumLaws R -> CommLaws R ->
  forall (a b : farray G R) (i1 i2 j1 j2 : nat),
  wf_fermi G R a = true -> wf_fermi G R b = true -> pair_ok G R a b [i1; i2] [j1; j2] ->
  distinct (foddpos G R a ++ foddpos G R b) ->
  let '(n1, pa, pb) := second_pair G R a b i1 i2 j1 j2 in
  exists y y1 e,
    f_tensordot2 G R a b (naxes [i1; i2] [j1; j2]) m = Some y
    /\ f_tensordot2 G R a b (naxes [i1] [j1]) m1 = Some y1
    /\ f_einsum G R y1 (trace_lhs n1 pa pb) (trace_rhs n1) = Some e
    /\ foddpos G R y1 = foddpos G R y
    /\ forall cl cr,
         coords_ok G (without_axes (indices G R (fbase G R a)) [i1; i2]) cl = true ->
         coords_ok G (without_axes (indices G R (fbase G R b)) [j1; j2]) cr = true ->
         sem G R e (cl ++ cr) = RouteProofs.V G R y (cl ++ cr).
Proof.
  intros G R m m1 GL OL NL RL CL a b i1 i2 j1 j2 Wa Wb P D. unfold second_pair. cbv zeta.
  exact (one_by_one_main G GL OL R NL RL a b i1 i2 j1 j2 Wa Wb P D m m1).
Qed.

(* ================================================================ part B *)
(* (i) the fused strategy only needs COMPATIBLE tables on the contracted legs *)
Section Compat.
  Context (G : Symmetry) (GL : GroupLaws G) (OL : OrderProofs.OrderLaws G) (R : Ring) (RL : SumLaws R).
  Notation sector := (list (C G)).
  Notation arr := (aarray G R).
  Notation ix_d := (dflt_index G).
  Notation ch_d := (ident G).
  Notation cspec := (ceqb_eq G GL).

  (* the contracted legs point in opposite directions, and their tables give the
     same size to every charge both of them list (one table may be the other one
     with unused charges dropped) *)
  Definition legs_compat (a b : arr) (aa ab : list nat) : Prop :=
    length aa = length ab /\
    Forall (fun ax => ax < ndim G R a) aa /\ Forall (fun ax => ax < ndim G R b) ab /\
    forall k, k < length aa ->
      idual G (leg G (indices G R a) aa k) = negb (idual G (leg G (indices G R b) ab k)) /\
      forall c, In c (icharges G (leg G (indices G R a) aa k)) -> In c (icharges G (leg G (indices G R b) ab k)) ->
                size_of G (leg G (indices G R a) aa k) c = size_of G (leg G (indices G R b) ab k) c.

  Lemma legs_match_compat a b aa ab : legs_match G R a b aa ab -> legs_compat a b aa ab.
  Proof.
    intros (H1 & H2 & H3 & H4). split; [exact H1|]. split; [exact H2|]. split; [exact H3|].
    intros k Hk. destruct (H4 k Hk) as [Hd Hc]. split; [exact Hd|]. intros c _ _. unfold size_of. now rewrite Hc.
  Qed.

  Lemma chargemap_prune1 (ix : index G) P :
    chargemap G (prune1 G ix P) = filter (fun p => mem (ceqb G) (fst p) P) (chargemap G ix).
  Proof.
    unfold prune1. rewrite (Tdot.chargemap_drop G). apply filter_ext_in. intros p Hp.
    rewrite (mem_filter (ceqb G) cspec).
    assert (Hm : mem (ceqb G) (fst p) (icharges G ix) = true).
    { apply (OrderProofs.mem_In (ceqb G) (OrderProofs.ceqb_spec G GL)). unfold icharges. now apply in_map. }
    rewrite Hm. destruct (mem (ceqb G) (fst p) P); reflexivity.
  Qed.

  Lemma wf_index_SS (ix : index G) : wf_index G ix = true -> StronglySorted (ltP (cltb G)) (map fst (chargemap G ix)).
  Proof.
    intros H. apply (SS_of_sorted_by (cltb G) _ OL).
    pose proof (FuseProofs.wf_index_cm_ok G ix H) as Hc. unfold cm_ok in Hc. apply andb_true_iff in Hc. apply Hc.
  Qed.

  (* two sorted tables filtered to a set of charges both list, with equal sizes there *)
  Lemma sorted_tables_agree (cm1 cm2 : list (C G * nat)) (P1 P2 : C G -> bool) :
    StronglySorted (ltP (cltb G)) (map fst cm1) -> StronglySorted (ltP (cltb G)) (map fst cm2) ->
    (forall c, P1 c = P2 c) ->
    (forall c, P1 c = true -> In c (map fst cm1) /\ In c (map fst cm2)) ->
    (forall c d1 d2, In (c, d1) cm1 -> In (c, d2) cm2 -> d1 = d2) ->
    filter (fun p => P1 (fst p)) cm1 = filter (fun p => P2 (fst p)) cm2.
  Proof.
    intros S1 S2 HP Hin Hval.
    apply (map_eq_inj_on fst).
    - intros [c d1] [c' d2] H1 H2 E. cbn [fst] in E. subst c'. apply filter_In in H1. apply filter_In in H2.
      f_equal. apply (Hval c d1 d2); [apply H1|apply H2].
    - apply (SS_perm_eq (cltb G) _ _ OL).
      + apply SS_map_filter, S1.
      + apply SS_map_filter, S2.
      + apply NoDup_Permutation.
        * apply (SS_NoDup (cltb G) _ OL). apply SS_map_filter, S1.
        * apply (SS_NoDup (cltb G) _ OL). apply SS_map_filter, S2.
        * intros c. split; intros Hc; apply in_map_iff in Hc; destruct Hc as ([c0 d] & <- & Hc); apply filter_In in Hc;
            destruct Hc as [Hc Hp]; cbn [fst] in *.
          -- destruct (Hin c0 Hp) as [_ H2]. apply in_map_iff in H2. destruct H2 as ([c1 d2] & E & H2). cbn [fst] in E. subst c1.
             apply in_map_iff. exists (c0, d2). split; [reflexivity|]. apply filter_In. split; [exact H2|]. cbn [fst]. now rewrite <- HP.
          -- rewrite <- HP in Hp. destruct (Hin c0 Hp) as [H1 _]. apply in_map_iff in H1. destruct H1 as ([c1 d1] & E & H1). cbn [fst] in E. subst c1.
             apply in_map_iff. exists (c0, d1). split; [reflexivity|]. apply filter_In. split; [exact H1|exact Hp].
  Qed.

  Lemma sector_charge_in_table (x : arr) s i : wf_array G R x = true -> In s (sectors G R x) -> i < ndim G R x ->
    In (nth i s ch_d) (icharges G (nth i (indices G R x) ix_d)).
  Proof.
    intros W Hs Hi. apply (wf_array_iff G GL) in W. apply in_map_iff in Hs. destruct Hs as ([s0 t] & <- & Hin).
    destruct (wf_bl _ _ _ _ _ W s0 t Hin) as ((_ & Hm & _) & _). apply Hm, Hi.
  Qed.

  Lemma sectors_al_a_sub a b aa ab s : In s (sectors G R (al_a G R a b aa ab)) -> In s (sectors G R a).
  Proof.
    unfold sectors. rewrite (blocks_al_a G R). intros H. apply in_map_iff in H. destruct H as (p & <- & Hp).
    apply filter_In in Hp. apply in_map, Hp.
  Qed.
  Lemma sectors_al_b_sub a b aa ab s : In s (sectors G R (al_b G R a b aa ab)) -> In s (sectors G R b).
  Proof.
    unfold sectors. rewrite (blocks_al_b G R). intros H. apply in_map_iff in H. destruct H as (p & <- & Hp).
    apply filter_In in Hp. apply in_map, Hp.
  Qed.

  Theorem aligned_legs_match (a b : arr) aa ab :
    wf_array G R a = true -> wf_array G R b = true -> legs_compat a b aa ab ->
    legs_match G R (al_a G R a b aa ab) (al_b G R a b aa ab) aa ab.
  Proof.
    intros Wa Wb (Hlen & Haa & Hab & Hlegs).
    split; [exact Hlen|]. split; [now rewrite (ndim_al_a G R)|]. split; [now rewrite (ndim_al_b G R)|].
    intros k Hk. destruct (Hlegs k Hk) as [Hd Hsz].
    rewrite Forall_forall in Haa, Hab.
    assert (Hka : nth k aa 0 < ndim G R a) by (apply Haa, nth_In, Hk).
    assert (Hkb : nth k ab 0 < ndim G R b) by (apply Hab, nth_In; now rewrite <- Hlen).
    rewrite (leg_al_a G R a b aa ab k Hka), (leg_al_b G R a b aa ab k Hkb). split.
    - now rewrite !(idual_prune1 G).
    - rewrite !chargemap_prune1.
      set (a1 := al_a G R a b aa ab). set (b1 := al_b G R a b aa ab).
      set (Pa := map (fun s : sector => nth (nth k aa 0) s ch_d) (sectors G R a1)).
      set (Pb := map (fun s : sector => nth (nth k ab 0) s ch_d) (sectors G R b1)).
      assert (HPa : forall c, In c Pa <-> exists ss, In ss (con_subs G R a1 aa) /\ nth k ss ch_d = c).
      { intros c. unfold Pa, con_subs. split.
        - intros H. apply in_map_iff in H. destruct H as (s & <- & Hs). exists (take_axes ch_d s aa).
          split; [apply (in_map (fun s0 : sector => take_axes ch_d s0 aa)), Hs|]. apply (nth_sub G s aa k Hk).
        - intros (ss & Hss & <-). apply in_map_iff in Hss. destruct Hss as (s & <- & Hs).
          rewrite (nth_sub G s aa k Hk). apply (in_map (fun s0 : sector => nth (nth k aa 0) s0 ch_d)), Hs. }
      assert (HPb : forall c, In c Pb <-> exists ss, In ss (con_subs G R b1 ab) /\ nth k ss ch_d = c).
      { assert (Hk' : k < length ab) by (now rewrite <- Hlen).
        intros c. unfold Pb, con_subs. split.
        - intros H. apply in_map_iff in H. destruct H as (s & <- & Hs). exists (take_axes ch_d s ab).
          split; [apply (in_map (fun s0 : sector => take_axes ch_d s0 ab)), Hs|]. apply (nth_sub G s ab k Hk').
        - intros (ss & Hss & <-). apply in_map_iff in Hss. destruct Hss as (s & <- & Hs).
          rewrite (nth_sub G s ab k Hk'). apply (in_map (fun s0 : sector => nth (nth k ab 0) s0 ch_d)), Hs. }
      assert (Hab' : forall c, In c Pa <-> In c Pb).
      { intros c. rewrite HPa, HPb. split; intros (ss & Hss & E); exists ss; (split; [|exact E]);
          apply (aligned_same_subsectors G R GL a b aa ab ss); exact Hss. }
      assert (Wia : wf_index G (leg G (indices G R a) aa k) = true).
      { apply (wf_array_iff G GL) in Wa. pose proof (wf_ix _ _ _ _ _ Wa) as H. unfold IxsOK in H. rewrite Forall_forall in H.
        apply H. unfold leg. apply nth_In. exact Hka. }
      assert (Wib : wf_index G (leg G (indices G R b) ab k) = true).
      { apply (wf_array_iff G GL) in Wb. pose proof (wf_ix _ _ _ _ _ Wb) as H. unfold IxsOK in H. rewrite Forall_forall in H.
        apply H. unfold leg. apply nth_In. exact Hkb. }
      apply (sorted_tables_agree _ _ (fun c => mem (ceqb G) c Pa) (fun c => mem (ceqb G) c Pb)).
      + apply wf_index_SS, Wia.
      + apply wf_index_SS, Wib.
      + intros c. destruct (mem (ceqb G) c Pa) eqn:E1, (mem (ceqb G) c Pb) eqn:E2; try reflexivity.
        * apply (OrderProofs.mem_In (ceqb G) (OrderProofs.ceqb_spec G GL)) in E1. apply Hab' in E1.
          apply (OrderProofs.mem_In (ceqb G) (OrderProofs.ceqb_spec G GL)) in E1. congruence.
        * apply (OrderProofs.mem_In (ceqb G) (OrderProofs.ceqb_spec G GL)) in E2. apply Hab' in E2.
          apply (OrderProofs.mem_In (ceqb G) (OrderProofs.ceqb_spec G GL)) in E2. congruence.
      + intros c Hc. apply (OrderProofs.mem_In (ceqb G) (OrderProofs.ceqb_spec G GL)) in Hc. split.
        * unfold Pa in Hc. apply in_map_iff in Hc. destruct Hc as (s & <- & Hs).
          apply (sector_charge_in_table a s _ Wa (sectors_al_a_sub a b aa ab s Hs) Hka).
        * apply Hab' in Hc. unfold Pb in Hc. apply in_map_iff in Hc. destruct Hc as (s & <- & Hs).
          apply (sector_charge_in_table b s _ Wb (sectors_al_b_sub a b aa ab s Hs) Hkb).
      + intros c d1 d2 H1 H2.
        pose proof (Tdot.wf_index_nodup G (OrderProofs.st_irrefl _ OL) (OrderProofs.st_trans _ OL) _ Wia) as N1.
        pose proof (Tdot.wf_index_nodup G (OrderProofs.st_irrefl _ OL) (OrderProofs.st_trans _ OL) _ Wib) as N2.
        pose proof (Tdot.lookup_nodup_In (ceqb G) cspec c d1 _ N1 H1) as L1.
        pose proof (Tdot.lookup_nodup_In (ceqb G) cspec c d2 _ N2 H2) as L2.
        assert (E : size_of G (leg G (indices G R a) aa k) c = size_of G (leg G (indices G R b) ab k) c).
        { apply Hsz; unfold icharges; [apply (in_map fst _ _ H1)|apply (in_map fst _ _ H2)]. }
        unfold size_of in E. rewrite L1, L2 in E. exact E.
  Qed.

  Theorem fused_eq_blockwise_compat (a b : arr) (la aa ab rb : list nat) :
    wf_array G R a = true -> wf_array G R b = true ->
    axes_ok (ndim G R a) aa = true -> axes_ok (ndim G R b) ab = true ->
    legs_compat a b aa ab ->
    la = rest_axes (ndim G R a) aa -> rb = rest_axes (ndim G R b) ab ->
    let f := tdot_fused2 G R a b la aa ab rb in
    let w := tdot_blockwise G R a b la aa ab rb in
    charge G R f = charge G R w /\ indices G R f = indices G R w /\ forall cs, sem G R f cs = sem G R w cs.
  Proof.
    intros Wa Wb Haa Hab HC Hla Hrb. cbv zeta.
    destruct (strategies_factor_through_aligned G R GL a b la aa ab rb Hla Hrb) as [EF EB]. rewrite EF, EB.
    destruct (alignment_preserves_wf G R GL OL a b aa ab Wa Wb) as [W1 W2].
    apply (fused_eq_blockwise_full_stmt G R GL OL RL); try assumption.
    - now rewrite (ndim_al_a G R).
    - now rewrite (ndim_al_b G R).
    - now apply aligned_legs_match.
    - now rewrite (ndim_al_a G R).
    - now rewrite (ndim_al_b G R).
  Qed.

  Theorem all_modes_agree_compat (a b : arr) (axes : nat + (list Z * list Z)) (aa ab : list nat) (m1 m2 : tmode) :
    parse_axes (ndim G R a) (ndim G R b) axes = Some (aa, ab) ->
    wf_array G R a = true -> wf_array G R b = true ->
    axes_ok (ndim G R a) aa = true -> axes_ok (ndim G R b) ab = true ->
    legs_compat a b aa ab ->
    exists r1 r2, a_tensordot2 G R a b axes m1 = Some r1 /\ a_tensordot2 G R a b axes m2 = Some r2 /\
      charge G R r1 = charge G R r2 /\ indices G R r1 = indices G R r2 /\
      forall cs, sem G R r1 cs = sem G R r2 cs.
  Proof.
    intros Hp Hwa Hwb Haa Hab Hlm.
    destruct (tensordot2_modes G R a b axes aa ab Hp) as (Hb & Hf & Ha).
    destruct (fused_eq_blockwise_compat a b _ aa ab _ Hwa Hwb Haa Hab Hlm eq_refl eq_refl) as (Hq & Hi & Hs).
    destruct (is_nil aa) eqn:En.
    - rewrite Hb in Ha.
      destruct m1, m2; eexists; eexists;
        (split; [first [exact Ha|exact Hf|exact Hb]|split; [first [exact Ha|exact Hf|exact Hb]|]]);
        (split; [first [reflexivity|exact Hq|symmetry; exact Hq]
                |split; [first [reflexivity|exact Hi|symmetry; exact Hi]
                        |intros cs; first [reflexivity|exact (Hs cs)|symmetry; exact (Hs cs)]]]).
    - rewrite Hf in Ha.
      destruct m1, m2; eexists; eexists;
        (split; [first [exact Ha|exact Hf|exact Hb]|split; [first [exact Ha|exact Hf|exact Hb]|]]);
        (split; [first [reflexivity|exact Hq|symmetry; exact Hq]
                |split; [first [reflexivity|exact Hi|symmetry; exact Hi]
                        |intros cs; first [reflexivity|exact (Hs cs)|symmetry; exact (Hs cs)]]]).
  Qed.
End Compat.

(* every mode of the fermionic front end agrees with the blockwise one when the
   contracted legs carry compatible tables *)
Section ModesCompat.
  Context (G : Symmetry) (GL : GroupLaws G) (OL : OrderProofs.OrderLaws G).
  Context (R : Ring) (NL : NegLaws R) (RL : SumLaws R).
  Notation sector := (list (C G)).
  Notation arr := (aarray G R).
  Notation farr := (farray G R).
  Notation ix_d := (dflt_index G).
  Notation cspec := (ceqb_eq G GL).
  Notation Vv := (RouteProofs.V G R).

  Definition tabs_compat (a b : farr) (aa ab : list nat) : Prop :=
    forall k, k < length aa -> forall c,
      In c (icharges G (nth (nth k aa 0) (indices G R (fbase G R a)) ix_d)) ->
      In c (icharges G (nth (nth k ab 0) (indices G R (fbase G R b)) ix_d)) ->
      size_of G (nth (nth k aa 0) (indices G R (fbase G R a)) ix_d) c
      = size_of G (nth (nth k ab 0) (indices G R (fbase G R b)) ix_d) c.

  Lemma tabs_compat_of_eq (a b : farr) aa ab : length aa = length ab ->
    map (chargemap G) (take_axes ix_d (indices G R (fbase G R a)) aa)
    = map (chargemap G) (take_axes ix_d (indices G R (fbase G R b)) ab) -> tabs_compat a b aa ab.
  Proof.
    intros Hlen Htab k Hk c _ _.
    apply (f_equal (fun l => nth k l [])) in Htab. unfold take_axes in Htab. rewrite !map_map in Htab.
    rewrite (nth_map_lt (fun x => chargemap G (nth x (indices G R (fbase G R a)) ix_d)) aa k 0 []) in Htab by exact Hk.
    rewrite (nth_map_lt (fun x => chargemap G (nth x (indices G R (fbase G R b)) ix_d)) ab k 0 []) in Htab
      by (rewrite <- Hlen; exact Hk).
    unfold size_of. now rewrite Htab.
  Qed.

  Theorem modes_agree_compat (a b : farr) axes aa ab (m : tmode) :
    wf_array G R (fbase G R a) = true -> wf_array G R (fbase G R b) = true ->
    parse_axes (ndim G R (fbase G R a)) (ndim G R (fbase G R b)) axes = Some (aa, ab) ->
    NoDup aa -> (forall i, In i aa -> i < ndim G R (fbase G R a)) ->
    NoDup ab -> (forall i, In i ab -> i < ndim G R (fbase G R b)) ->
    opposite_dirs G R a b aa ab -> tabs_compat a b aa ab ->
    forall y, f_tensordot G R a b axes MBlockwise = Some y ->
    exists y', f_tensordot2 G R a b axes m = Some y' /\ same_result G R y' y /\ wf_array G R (fbase G R y') = true
               /\ (wf_fermi G R y = true -> wf_fermi G R y' = true).
  Proof.
    intros Wa Wb Hp NDaa Haa NDab Hab Hd Hc y Hy.
    pose proof (parse_axes_length _ _ _ _ _ Hp) as Hlen.
    pose proof (wf_blocks_ok G R cspec _ Wa) as BOa. pose proof (wf_blocks_ok G R cspec _ Wb) as BOb.
    assert (NDa : NoDup (fsectors G R a)) by apply (bo_nodup _ _ _ BOa).
    assert (NDb : NoDup (fsectors G R b)) by apply (bo_nodup _ _ _ BOb).
    assert (La : sectors_len G R a).
    { intros t Ht. apply in_map_iff in Ht. destruct Ht as [sb [<- Hsb]]. apply (bo_len _ _ _ BOa sb Hsb). }
    assert (Lb : sectors_len G R b).
    { intros t Ht. apply in_map_iff in Ht. destruct Ht as [sb [<- Hsb]]. apply (bo_len _ _ _ BOb sb Hsb). }
    rewrite (tensordot_sign_formula G R NL cspec a b axes MBlockwise aa ab) in Hy by assumption.
    rewrite (tensordot2_sign_formula G GL R NL a b axes m aa ab) by assumption.
    unfold tdot_spec in Hy. unfold tdot_spec2. cbv zeta in Hy |- *.
    set (fl := tdot_flip_a G R a b aa ab) in *.
    set (A := tdot_opA G R fl a _ aa) in *. set (B := tdot_opB G R (negb fl) b ab _) in *.
    set (nax := inr (map Z.of_nat (seq (ndim G R (fbase G R a) - length aa) (length aa)), map Z.of_nat (seq 0 (length aa)))) in *.
    pose proof (wf_opA G GL R NL fl a aa Wa NDaa Haa) as WA. fold A in WA.
    pose proof (wf_opB G GL R NL (negb fl) b ab Wb NDab Hab) as WB. fold B in WB.
    pose proof (op_parse G R a b aa ab NDaa Haa NDab Hab Hlen fl (negb fl)) as HP. fold A B nax in HP.
    pose proof (op_contract_ok G R a b aa ab NDaa Haa NDab Hab Hlen Hd fl (negb fl)) as HC. fold A B in HC.
    destruct (op_axes_ok G R a b aa ab NDaa Haa NDab Hab Hlen fl (negb fl)) as [OKa OKb]. fold A B in OKa, OKb.
    assert (LC : legs_compat G R A B (seq (ndim G R (fbase G R a) - length aa) (length aa)) (seq 0 (length aa))).
    { destruct (op_lens G R a b aa ab NDaa Haa NDab Hab Hlen) as [L1 L2].
      split; [now rewrite !seq_length|].
      split; [apply Forall_forall; intros i Hi; apply in_seq in Hi; unfold A; rewrite (ndim_opA G R a b aa ab NDaa Haa NDab Hab Hlen); lia|].
      split; [apply Forall_forall; intros i Hi; apply in_seq in Hi; unfold B; rewrite (ndim_opB G R a b aa ab NDaa Haa NDab Hab Hlen); lia|].
      intros k Hk. split; [apply (op_duals G R a b aa ab NDaa Haa NDab Hab Hlen Hd); exact Hk|]. rewrite seq_length in Hk.
      unfold leg, A, B. rewrite (leg_opA G R a b aa ab NDaa Haa NDab Hab Hlen), (leg_opB G R a b aa ab NDaa Haa NDab Hab Hlen) by exact Hk.
      apply (Hc k Hk). }
    destruct (all_modes_agree_compat G GL OL R RL A B nax _ _ m MBlockwise HP WA WB OKa OKb LC)
      as (r1 & r2 & E1 & E2 & Ech & Eix & Esem).
    assert (E2' : a_tensordot G R A B nax MBlockwise = Some r2) by exact E2.
    rewrite E2' in Hy. rewrite E1. unfold fermi_finish in Hy |- *.
    destruct (resolve_oddpos (fparity G R a) (foddpos G R a) (foddpos G R b)) as [[minus odd]|]; [|discriminate Hy].
    injection Hy as Hy. eexists. split; [reflexivity|].
    pose proof (tensordot2_wf G GL OL R A B r1 nax m _ _ WA WB HP HC E1) as W1.
    pose proof (tensordot2_wf G GL OL R A B r2 nax MBlockwise _ _ WA WB HP HC E2) as W2.
    split; [|split; [destruct minus; exact W1|]].
    - subst y. constructor.
      + destruct minus; reflexivity.
      + destruct minus; exact Ech.
      + destruct minus; exact Eix.
      + intros cs. unfold RouteProofs.V.
        rewrite !(sem_finish G R NL cspec) by (apply (wf_sectors_nodup G GL); assumption). now rewrite Esem.
    - intros Wy. subst y.
      assert (Hpar : Nat.odd (length odd) = parity G (charge G R r2)).
      { apply (wf_fermi_iff G GL R) in Wy. pose proof (ff_par _ _ _ Wy) as H. destruct minus; exact H. }
      assert (W0 : wf_fermi G R (mkF G R r1 [] odd) = true).
      { unfold wf_fermi, fparity. cbn [fbase fphases foddpos nodupb forallb andb]. rewrite W1, Ech, Hpar. cbn [andb].
        apply eqb_reflx. }
      destruct minus; [apply (f_phase_global_wf G GL), W0|exact W0].
  Qed.
End ModesCompat.

(* (ii) contracting operands that are observationally equal to given ones
   (same tables, same values; pruned tables, additional all-zero blocks) *)
Section ContractObs.
  Context (G : Symmetry) (GL : GroupLaws G) (OL : OrderProofs.OrderLaws G).
  Context (R : Ring) (NL : NegLaws R) (RL : SumLaws R).
  Notation sector := (list (C G)).
  Notation arr := (aarray G R).
  Notation farr := (farray G R).
  Notation ix_d := (dflt_index G).
  Notation ch_d := (ident G).
  Notation cspec := (ceqb_eq G GL).
  Notation Vv := (RouteProofs.V G R).

  (* x' stands for x: same labels, charge, tables and values; both are valid over
     the tables fx, of which the tables of x' are sub-tables *)
  Record lifted (x' x : farr) (fx : list (index G)) : Prop := {
    lf_wf' : wf_array G R (fbase G R x') = true;
    lf_wfr' : wf_array G R (fbase G R (reindex G R x' fx)) = true;
    lf_wfr : wf_array G R (fbase G R (reindex G R x fx)) = true;
    lf_odd : foddpos G R x' = foddpos G R x;
    lf_charge : charge G R (fbase G R x') = charge G R (fbase G R x);
    lf_ix : indices G R (fbase G R x') = indices G R (fbase G R x);
    lf_val : forall cs, Vv x' cs = Vv x cs;
    lf_duals : map (idual G) fx = map (idual G) (indices G R (fbase G R x));
    lf_sub : forall i, i < length fx -> forall ch,
               In ch (icharges G (nth i (indices G R (fbase G R x')) ix_d)) ->
               size_of G (nth i (indices G R (fbase G R x')) ix_d) ch = size_of G (nth i fx ix_d) ch }.

  Lemma lifted_self (c : farr) : wf_fermi G R c = true -> lifted c c (indices G R (fbase G R c)).
  Proof.
    intros W. pose proof (WFF_base_wf G GL R c W) as Wb.
    constructor; try reflexivity; try exact Wb.
  Qed.

  Lemma lifted_mode (a b : farr) aa ab (m : tmode) y :
    wf_fermi G R a = true -> wf_fermi G R b = true -> pair_ok G R a b aa ab ->
    distinct (foddpos G R a ++ foddpos G R b) ->
    f_tensordot G R a b (naxes aa ab) MBlockwise = Some y ->
    exists y', f_tensordot2 G R a b (naxes aa ab) m = Some y' /\ lifted y' y (free_ixs G R a b aa ab).
  Proof.
    intros Wa Wb P D Hy.
    destruct (tdot_main G GL OL R NL RL a b aa ab Wa Wb P D) as [y0 [mn (E0 & _ & _ & W0 & D0 & _ & _)]].
    rewrite Hy in E0. injection E0 as <-.
    destruct (lift_mode G GL OL R NL RL a b aa ab m y Wa Wb P Hy) as (y' & Ey' & Oy).
    destruct (result_indices G GL R NL a b aa ab y Wa Wb P Hy) as [secs Esecs].
    set (free := free_ixs G R a b aa ab) in *.
    assert (I1 : indices G R (fbase G R y') = prune_indices G free secs).
    { rewrite (sr_indices _ _ _ _ (oe_res _ _ _ _ Oy)). exact Esecs. }
    assert (IOK : IxsOK G free).
    { pose proof (WFF_base_wf G GL R _ W0) as H. apply (wf_array_iff G GL) in H. apply (wf_ix _ _ _ _ _ H). }
    exists y'. split; [exact Ey'|]. constructor.
    - apply (oe_wf' _ _ _ _ Oy).
    - unfold reindex. cbn [fbase]. apply (unprune_wf G GL R (fbase G R y') free secs IOK I1 (oe_wf' _ _ _ _ Oy)).
    - apply (WFF_base_wf G GL R _ W0).
    - apply (sr_odd _ _ _ _ (oe_res _ _ _ _ Oy)).
    - apply (sr_charge _ _ _ _ (oe_res _ _ _ _ Oy)).
    - apply (sr_indices _ _ _ _ (oe_res _ _ _ _ Oy)).
    - apply (sr_val _ _ _ _ (oe_res _ _ _ _ Oy)).
    - exact D0.
    - intros i Hi ch Hch. rewrite I1 in Hch |- *. rewrite (nth_prune G) in Hch |- * by exact Hi.
      apply (size_of_prune1 G GL). apply (prune1_present G GL _ _ _ Hch).
  Qed.

  Lemma lifted_ndim x' x fx : lifted x' x fx -> ndim G R (fbase G R x') = length fx /\ ndim G R (fbase G R x) = length fx.
  Proof.
    intros L. unfold ndim. rewrite (lf_ix _ _ _ L). rewrite <- (map_length (idual G) fx), (lf_duals _ _ _ L), map_length. auto.
  Qed.
  Lemma lifted_sv' x' x fx : lifted x' x fx -> same_val G R (reindex G R x' fx) x'.
  Proof. intros L. apply same_val_reindex. rewrite (lf_ix _ _ _ L). apply (lf_duals _ _ _ L). Qed.
  Lemma lifted_sv x' x fx : lifted x' x fx -> same_val G R (reindex G R x fx) x.
  Proof. intros L. apply same_val_reindex. apply (lf_duals _ _ _ L). Qed.

  Lemma wf_facts (x : farr) : wf_array G R (fbase G R x) = true -> NoDup (fsectors G R x) /\ sectors_len G R x.
  Proof.
    intros W. pose proof (wf_blocks_ok G R cspec _ W) as BO. split; [apply (bo_nodup _ _ _ BO)|].
    intros t Ht. apply in_map_iff in Ht. destruct Ht as [sb [<- Hsb]]. apply (bo_len _ _ _ BO sb Hsb).
  Qed.

  Theorem contract_obs (x x' z z' : farr) (fx fz : list (index G)) (xx zz : list nat) (m : tmode) :
    lifted x' x fx -> lifted z' z fz ->
    pair_ok G R (reindex G R x fx) (reindex G R z fz) xx zz ->
    forall y, f_tensordot G R x z (naxes xx zz) MBlockwise = Some y ->
    exists y', f_tensordot2 G R x' z' (naxes xx zz) m = Some y'
      /\ foddpos G R y' = foddpos G R y
      /\ forall cl cr, coords_ok G (without_axes fx xx) cl = true -> coords_ok G (without_axes fz zz) cr = true ->
           Vv y' (cl ++ cr) = Vv y (cl ++ cr).
  Proof.
    intros Lx Lz P y Hy.
    set (xr := reindex G R x fx) in *. set (zr := reindex G R z fz) in *.
    set (xr' := reindex G R x' fx). set (zr' := reindex G R z' fz).
    pose proof (lifted_sv x' x fx Lx) as SVx. pose proof (lifted_sv' x' x fx Lx) as SVx'.
    pose proof (lifted_sv z' z fz Lz) as SVz. pose proof (lifted_sv' z' z fz Lz) as SVz'.
    fold xr in SVx. fold xr' in SVx'. fold zr in SVz. fold zr' in SVz'.
    destruct (lifted_ndim _ _ _ Lx) as [Nx' Nx]. destruct (lifted_ndim _ _ _ Lz) as [Nz' Nz].
    destruct P as [NDxx Hxx NDzz Hzz Hlen Hd Htab].
    change (ndim G R (fbase G R xr)) with (length fx) in Hxx. change (ndim G R (fbase G R zr)) with (length fz) in Hzz.
    change (indices G R (fbase G R xr)) with fx in Htab. change (indices G R (fbase G R zr)) with fz in Htab.
    assert (Hpr : parse_axes (length fx) (length fz) (naxes xx zz) = Some (xx, zz)).
    { unfold naxes, parse_axes. rewrite !map_length, Hlen, Nat.eqb_refl.
      now rewrite (norm_axes_of_nat _ xx Hxx), (norm_axes_of_nat _ zz Hzz). }
    destruct (wf_facts xr (lf_wfr _ _ _ Lx)) as [NDxr SLxr]. destruct (wf_facts zr (lf_wfr _ _ _ Lz)) as [NDzr SLzr].
    destruct (wf_facts xr' (lf_wfr' _ _ _ Lx)) as [NDxr' SLxr']. destruct (wf_facts zr' (lf_wfr' _ _ _ Lz)) as [NDzr' SLzr'].
    (* the blockwise contraction of x and z, read through the un-pruned copies *)
    destruct (same_val_tdot G GL R NL x xr z zr (naxes xx zz) xx zz y (same_val_sym G R _ _ SVx) (same_val_sym G R _ _ SVz)
                ltac:(rewrite Nx, Nz; exact Hpr)
                ltac:(rewrite <- (same_val_fsectors G R xr x SVx); exact NDxr) (same_val_sectors_len G R xr x SVx SLxr)
                ltac:(rewrite <- (same_val_fsectors G R zr z SVz); exact NDzr) (same_val_sectors_len G R zr z SVz SLzr)
                NDxx ltac:(rewrite Nx; exact Hxx) NDzz ltac:(rewrite Nz; exact Hzz)
                (same_val_opposite G R xr x zr z xx zz SVx SVz Hd) Hy) as (yr & Eyr & Oyr & _ & Vyr).
    (* the label resolution *)
    assert (Hres : exists minus odd, resolve_oddpos (fparity G R xr) (foddpos G R xr) (foddpos G R zr) = Some (minus, odd)).
    { rewrite (tensordot_sign_formula G R NL cspec xr zr (naxes xx zz) MBlockwise xx zz Hpr NDxr SLxr NDzr SLzr NDxx Hxx NDzz Hzz) in Eyr.
      unfold tdot_spec, fermi_finish in Eyr. cbv zeta in Eyr.
      destruct (a_tensordot G R _ _ _ MBlockwise); [|discriminate Eyr].
      destruct (resolve_oddpos (fparity G R xr) (foddpos G R xr) (foddpos G R zr)) as [[minus odd]|]; [|discriminate Eyr].
      now exists minus, odd. }
    destruct Hres as (minus & odd & Hres).
    assert (Hres' : resolve_oddpos (fparity G R xr') (foddpos G R xr') (foddpos G R zr') = Some (minus, odd)).
    { unfold fparity, xr', zr', reindex. cbn [fbase charge foddpos]. rewrite (lf_charge _ _ _ Lx), (lf_odd _ _ _ Lx), (lf_odd _ _ _ Lz). exact Hres. }
    assert (NDt : Forall (fun ix => NoDup (icharges G ix)) (take_axes ix_d fx xx)).
    { apply (wf_ix_nodup G GL OL R (fbase G R xr) xx (lf_wfr _ _ _ Lx)). }
    destruct (tensordot_blockwise_element G R NL cspec RL xr zr (naxes xx zz) xx zz minus odd Hpr
                (wf_blocks_ok G R cspec _ (lf_wfr _ _ _ Lx)) (wf_blocks_ok G R cspec _ (lf_wfr _ _ _ Lz))
                NDxx Hxx NDzz Hzz Hd NDt Htab Hres) as (yr0 & Eyr0 & Oyr0 & Fr).
    rewrite Eyr in Eyr0. injection Eyr0 as <-.
    destruct (tensordot_blockwise_element G R NL cspec RL xr' zr' (naxes xx zz) xx zz minus odd Hpr
                (wf_blocks_ok G R cspec _ (lf_wfr' _ _ _ Lx)) (wf_blocks_ok G R cspec _ (lf_wfr' _ _ _ Lz))
                NDxx Hxx NDzz Hzz Hd NDt Htab Hres') as (yr' & Eyr' & Oyr' & Fr').
    (* back to x' and z' *)
    destruct (same_val_tdot G GL R NL xr' x' zr' z' (naxes xx zz) xx zz yr' SVx' SVz' Hpr NDxr' SLxr' NDzr' SLzr'
                NDxx Hxx NDzz Hzz Hd Eyr') as (y'' & Ey'' & Oy'' & _ & Vy'').
    (* any mode *)
    assert (TC : tabs_compat G R x' z' xx zz).
    { intros k Hk ch H1 H2.
      assert (Hk1 : nth k xx 0 < length fx) by (apply Hxx, nth_In, Hk).
      assert (Hk2 : nth k zz 0 < length fz) by (apply Hzz, nth_In; now rewrite <- Hlen).
      rewrite (lf_sub _ _ _ Lx _ Hk1 ch H1), (lf_sub _ _ _ Lz _ Hk2 ch H2).
      apply (f_equal (fun l => nth k l [])) in Htab. unfold take_axes in Htab. rewrite !map_map in Htab.
      rewrite (nth_map_lt (fun i => chargemap G (nth i fx ix_d)) xx k 0 []) in Htab by exact Hk.
      rewrite (nth_map_lt (fun i => chargemap G (nth i fz ix_d)) zz k 0 []) in Htab by (rewrite <- Hlen; exact Hk).
      unfold size_of. now rewrite Htab. }
    destruct (modes_agree_compat G GL OL R NL RL x' z' (naxes xx zz) xx zz m (lf_wf' _ _ _ Lx) (lf_wf' _ _ _ Lz)
                ltac:(rewrite Nx', Nz'; exact Hpr) NDxx ltac:(rewrite Nx'; exact Hxx) NDzz ltac:(rewrite Nz'; exact Hzz)
                (same_val_opposite G R xr' x' zr' z' xx zz SVx' SVz' Hd) TC y'' Ey'') as (y' & Ey' & SR & _ & _).
    exists y'. split; [exact Ey'|]. split.
    - rewrite (sr_odd _ _ _ _ SR), Oy'', Oyr', <- Oyr. symmetry. exact Oyr0.
    - intros cl cr Hcl Hcr. rewrite (sr_val _ _ _ _ SR), Vy'', <- Vyr.
      unfold RouteProofs.V. rewrite (Fr' cl cr Hcl Hcr), (Fr cl cr Hcl Hcr). f_equal.
      apply (Tdot.rsum_ext R). intros kc _.
      change (sem G R (f_value G R xr') ?c) with (Vv xr' c). change (sem G R (f_value G R zr') ?c) with (Vv zr' c).
      rewrite (same_val_V G R xr' x' SVx'), (same_val_V G R zr' z' SVz'), (lf_val _ _ _ Lx), (lf_val _ _ _ Lz).
      rewrite <- (same_val_V G R xr x SVx), <- (same_val_V G R zr z SVz). reflexivity.
  Qed.
End ContractObs.

(* associativity of a chain a - b - c: every one of the four contractions in its own mode *)
Section AssocAll.
  Context (G : Symmetry) (GL : GroupLaws G) (OL : OrderProofs.OrderLaws G).
  Context (R : Ring) (NL : NegLaws R) (RL : SumLaws R) (CL : CommLaws R).
  Notation farr := (farray G R).
  Notation ix_d := (dflt_index G).
  Notation Vv := (RouteProofs.V G R).

  Lemma pair_ok_reindex (x z : farr) fx fz xx zz :
    pair_ok G R (reindex G R x fx) z xx zz -> fz = indices G R (fbase G R z) ->
    pair_ok G R (reindex G R x fx) (reindex G R z fz) xx zz.
  Proof. intros [H1 H2 H3 H4 H5 H6 H7] ->. constructor; assumption. Qed.
  Lemma pair_ok_reindex_l (x z : farr) fx fz xx zz :
    pair_ok G R x (reindex G R z fz) xx zz -> fx = indices G R (fbase G R x) ->
    pair_ok G R (reindex G R x fx) (reindex G R z fz) xx zz.
  Proof. intros [H1 H2 H3 H4 H5 H6 H7] ->. constructor; assumption. Qed.

  Theorem assoc_chain_all_modes (m1 m12 m2 m21 : tmode) (a b c : farr) (aa ab bb cb : list nat) :
    wf_fermi G R a = true -> wf_fermi G R b = true -> wf_fermi G R c = true ->
    pair_ok G R a b aa ab -> pair_ok G R b c bb cb ->
    (forall j, In j ab -> ~ In j bb) ->
    distinct (foddpos G R a ++ foddpos G R b ++ foddpos G R c) ->
    let nl := length (rest_axes (ndim G R (fbase G R a)) aa) in
    let bb1 := map (fun j => nl + index_of j (rest_axes (ndim G R (fbase G R b)) ab)) bb in
    let ab2 := map (fun j => index_of j (rest_axes (ndim G R (fbase G R b)) bb)) ab in
    exists y1 y12 y2 y21,
      f_tensordot2 G R a b (naxes aa ab) m1 = Some y1
      /\ f_tensordot2 G R y1 c (naxes bb1 cb) m12 = Some y12
      /\ f_tensordot2 G R b c (naxes bb cb) m2 = Some y2
      /\ f_tensordot2 G R a y2 (naxes aa ab2) m21 = Some y21
      /\ foddpos G R y12 = foddpos G R y21
      /\ forall cl cm cr,
           coords_ok G (without_axes (indices G R (fbase G R a)) aa) cl = true ->
           coords_ok G (without_axes (indices G R (fbase G R b)) (ab ++ bb)) cm = true ->
           coords_ok G (without_axes (indices G R (fbase G R c)) cb) cr = true ->
           Vv y12 (cl ++ cm ++ cr) = Vv y21 (cl ++ cm ++ cr).
  Proof.
    intros Wa Wb Wc Pab Pbc Hdisj D. cbv zeta.
    destruct (assoc_chain G GL OL R NL RL CL a b c aa ab bb cb Wa Wb Wc Pab Pbc Hdisj D)
      as (y1b & y12b & y2b & y21b & E1 & E12 & E2 & E21 & Ho & Hv).
    set (bb1 := map (fun j => length (rest_axes (ndim G R (fbase G R a)) aa) + index_of j (rest_axes (ndim G R (fbase G R b)) ab)) bb) in *.
    set (ab2 := map (fun j => index_of j (rest_axes (ndim G R (fbase G R b)) bb)) ab) in *.
    set (y1ix := free_ixs G R a b aa ab). set (y2ix := free_ixs G R b c bb cb).
    pose proof (as_D_ab G R a b c D) as Dab. pose proof (as_D_bc G R a b c D) as Dbc.
    destruct (lifted_mode G GL OL R NL RL a b aa ab m1 y1b Wa Wb Pab Dab E1) as (y1 & Ey1 & L1).
    destruct (lifted_mode G GL OL R NL RL b c bb cb m2 y2b Wb Wc Pbc Dbc E2) as (y2 & Ey2 & L2).
    fold y1ix in L1. fold y2ix in L2.
    pose proof (as_pair1 G R a b c aa ab bb cb Pbc Hdisj (reindex G R y1b y1ix) eq_refl) as P1. fold bb1 in P1.
    pose proof (pair_ok_reindex y1b c y1ix _ bb1 cb P1 eq_refl) as P1'.
    destruct (contract_obs G GL OL R NL RL y1b y1 c c y1ix _ bb1 cb m12 L1 (lifted_self G GL R c Wc) P1' y12b E12)
      as (y12 & Ey12 & O12 & V12).
    pose proof (as_pair2 G R a b c aa ab bb cb Pab Hdisj (reindex G R y2b y2ix) eq_refl) as P2. fold ab2 in P2.
    pose proof (pair_ok_reindex_l a y2b _ y2ix aa ab2 P2 eq_refl) as P2'.
    destruct (contract_obs G GL OL R NL RL a a y2b y2 _ y2ix aa ab2 m21 (lifted_self G GL R a Wa) L2 P2' y21b E21)
      as (y21 & Ey21 & O21 & V21).
    exists y1, y12, y2, y21. split; [exact Ey1|]. split; [exact Ey12|]. split; [exact Ey2|]. split; [exact Ey21|]. split.
    - rewrite O12, O21. exact Ho.
    - intros cl cm cr Hcl Hcm Hcr.
      assert (Hcm' : coords_ok G (take_axes ix_d (indices G R (fbase G R b)) (rest_axes (ndim G R (fbase G R b)) (ab ++ bb))) cm = true)
        by (rewrite (without_axes_take ix_d) in Hcm; exact Hcm).
      assert (Hc1 : coords_ok G (without_axes y1ix bb1) (cl ++ cm) = true).
      { rewrite (without_axes_take ix_d). unfold y1ix at 2. rewrite (as_len_y1ix G R a b aa ab). unfold bb1.
        rewrite (as_rest1 G R a b c aa ab bb cb Pbc Hdisj), take_axes_app. apply (FermiProofs.coords_ok_app G).
        - unfold y1ix, free_ixs. rewrite <- (as_len_la G R a aa), (take_app_l ix_d). exact Hcl.
        - unfold y1ix. rewrite (as_take_y1 G R a b c aa ab bb cb Hdisj _ (as_mb_in_rb G R b ab bb)). exact Hcm'. }
      assert (Hc2 : coords_ok G (without_axes y2ix ab2) (cm ++ cr) = true).
      { rewrite (without_axes_take ix_d). unfold y2ix at 2. rewrite (as_len_y2ix G R b c bb cb). unfold ab2.
        rewrite (as_rest2 G R a b c aa ab bb cb Pab Hdisj), take_axes_app. apply (FermiProofs.coords_ok_app G).
        - unfold y2ix. rewrite (as_take_y2 G R b c bb cb _ (as_mb_in_lb G R b ab bb)). exact Hcm'.
        - unfold y2ix, free_ixs.
          assert (Ll : length (without_axes (indices G R (fbase G R b)) bb) = length (rest_axes (ndim G R (fbase G R b)) bb))
            by (rewrite (without_axes_take ix_d); apply (length_take_axes ix_d)).
          assert (Lr : length (without_axes (indices G R (fbase G R c)) cb) = length (rest_axes (ndim G R (fbase G R c)) cb))
            by (rewrite (without_axes_take ix_d); apply (length_take_axes ix_d)).
          rewrite <- Ll, <- Lr, (take_app_r ix_d). exact Hcr. }
      rewrite app_assoc, (V12 (cl ++ cm) cr Hc1 Hcr), <- app_assoc.
      rewrite (V21 cl (cm ++ cr) Hcl Hc2). now apply Hv.
  Qed.
End AssocAll.

(* ================================================================ examples *)
(* The hypotheses of one_by_one_all / assoc_chain_all_modes on concrete instances,
   and both statements computed:  Z2 (the operands of Proofs/RouteProofs.v: odd
   total charges, mixed directions, missing sectors, pending signs) and U1
   (three charges per contracted leg, missing sectors, pending signs, odd and even
   legs between the traced pair). *)
Module OneByOneEx.
  Import Ex RouteEx.
  Local Open Scope Z_scope.

  (* ---- U1 operands ---- *)
  Definition T1 : list (Z * nat) := [(0, 1%nat); (1, 2%nat)].
  Definition T2 : list (Z * nat) := [(-1, 1%nat); (0, 2%nat); (1, 1%nat)].
  Definition T3 : list (Z * nat) := [(0, 1%nat); (1, 1%nat)].
  Definition uix (t : list (Z * nat)) (d : bool) : index U1 := Index U1 t d None.
  (* all valid sectors except every `drop`-th one *)
  Definition umk (ixs : list (index U1)) (q : Z) (drop : nat) (seed : Z) : aarray U1 ZRing :=
    let secs := filter (sector_ok U1 ixs q) (product (map (icharges U1) ixs)) in
    let kept := map snd (filter (fun p => negb (Nat.eqb (Nat.modulo (fst p) drop) 1)) (enumerate secs)) in
    mkA U1 ZRing ixs q
      (map (fun p => (snd p, fill (block_shape U1 ixs (snd p)) (seed + 10 * Z.of_nat (fst p)))) (enumerate kept)).
  Definition ixUa := [uix T1 false; uix T2 true; uix T3 false; uix T2 false].
  Definition ixUb := [uix T2 false; uix T3 true; uix T2 true; uix T1 false].
  Definition ixUc := [uix T1 true; uix T2 false; uix T3 true; uix T3 false].
  Definition uA : farray U1 ZRing := mkF U1 ZRing (umk ixUa 1 4 3) [[1; 0; 0; 0]; [0; -1; 0; 0]] [([7], false)].
  Definition uB : farray U1 ZRing := mkF U1 ZRing (umk ixUb 1 5 100) [[1; 0; 0; 0]] [([5], false)].
  Definition uC : farray U1 ZRing := mkF U1 ZRing (umk ixUc 1 4 40) [[0; 1; 0; 0]] [([9], false)].

  Lemma pair_ok_u : pair_ok U1 ZRing uA uB [1%nat; 3%nat] [0%nat; 2%nat].
  Proof.
    constructor.
    - apply nodup_nats. reflexivity.
    - apply all_lt. vm_compute. reflexivity.
    - apply nodup_nats. reflexivity.
    - apply all_lt. vm_compute. reflexivity.
    - reflexivity.
    - unfold opposite_dirs. repeat constructor.
    - vm_compute. reflexivity.
  Qed.
  Lemma pair_ok_u_bc : pair_ok U1 ZRing uB uC [3%nat] [0%nat].
  Proof.
    constructor.
    - apply nodup_nats. reflexivity.
    - apply all_lt. vm_compute. reflexivity.
    - apply nodup_nats. reflexivity.
    - apply all_lt. vm_compute. reflexivity.
    - reflexivity.
    - unfold opposite_dirs. repeat constructor.
    - vm_compute. reflexivity.
  Qed.

  Example u1_hyps :
    GroupLaws U1 /\ OrderProofs.OrderLaws U1 /\ NegLaws ZRing /\ SumLaws ZRing /\ CommLaws ZRing
    /\ wf_fermi U1 ZRing uA = true /\ wf_fermi U1 ZRing uB = true /\ wf_fermi U1 ZRing uC = true
    /\ pair_ok U1 ZRing uA uB [1%nat; 3%nat] [0%nat; 2%nat] /\ pair_ok U1 ZRing uB uC [3%nat] [0%nat]
    /\ (forall j, In j [0%nat; 2%nat] -> ~ In j [3%nat])
    /\ distinct (foddpos U1 ZRing uA ++ foddpos U1 ZRing uB ++ foddpos U1 ZRing uC)
    /\ distinct (foddpos U1 ZRing uA ++ foddpos U1 ZRing uB)
    /\ (length (blocks U1 ZRing (fbase U1 ZRing uA)), length (blocks U1 ZRing (fbase U1 ZRing uB)),
        length (blocks U1 ZRing (fbase U1 ZRing uC))) = (7%nat, 6%nat, 3%nat).
  Proof.
    split; [exact U1_laws|]. split; [exact OrderProofs.U1_order|]. split; [exact ZRing_neg_laws|].
    split; [exact ZRing_sum_laws|]. split; [exact ZRing_comm_laws|].
    split; [vm_compute; reflexivity|]. split; [vm_compute; reflexivity|]. split; [vm_compute; reflexivity|].
    split; [exact pair_ok_u|]. split; [exact pair_ok_u_bc|]. split.
    - cbn. intros j [<-|[<-|[]]] [H|[]]; discriminate.
    - split; [unfold distinct, labels; cbn; repeat constructor; cbn; intuition discriminate|].
      split; [unfold distinct, labels; cbn; repeat constructor; cbn; intuition discriminate|].
      vm_compute. reflexivity.
  Qed.

  (* ---- part A computed: values compared at EVERY coordinate of the free legs ---- *)
  Definition obo_check (G : Symmetry) (a b : farray G ZRing) (i1 i2 j1 j2 : nat) (m m1 : tmode) : bool :=
    let '(n1, pa, pb) := second_pair G ZRing a b i1 i2 j1 j2 in
    match f_tensordot2 G ZRing a b (naxes [i1; i2] [j1; j2]) m, f_tensordot2 G ZRing a b (naxes [i1] [j1]) m1 with
    | Some y, Some y1 =>
        match f_einsum G ZRing y1 (trace_lhs n1 pa pb) (trace_rhs n1) with
        | Some e =>
            list_eqb fop_eqb (foddpos G ZRing y1) (foddpos G ZRing y)
            && forallb (fun cs => Z.eqb (sem G ZRing e cs) (RouteProofs.V G ZRing y cs))
                 (all_coords G (without_axes (indices G ZRing (fbase G ZRing a)) [i1; i2]
                                ++ without_axes (indices G ZRing (fbase G ZRing b)) [j1; j2]))
            && negb (forallb (fun cs => Z.eqb (RouteProofs.V G ZRing y cs) 0)
                 (all_coords G (without_axes (indices G ZRing (fbase G ZRing a)) [i1; i2]
                                ++ without_axes (indices G ZRing (fbase G ZRing b)) [j1; j2])))
        | None => false
        end
    | _, _ => false
    end.

  Example one_by_one_computed :
    obo_check U1 uA uB 1 3 0 2 MBlockwise MBlockwise = true /\ obo_check U1 uA uB 1 3 0 2 MFused MFused = true
    /\ obo_check U1 uA uB 3 1 2 0 MAuto MFused = true /\ obo_check U1 uA uB 3 1 2 0 MFused MBlockwise = true
    /\ obo_check Z2 xD xB 2 1 0 2 MFused MAuto = true /\ obo_check Z2 xD xB 1 2 2 0 MBlockwise MFused = true.
  Proof. vm_compute. repeat split; reflexivity. Qed.

  (* ---- part B computed: all four contractions in non-blockwise modes ---- *)
  Definition assoc_check (G : Symmetry) (a b c : farray G ZRing) (aa ab bb cb : list nat) (m1 m12 m2 m21 : tmode) : bool :=
    let nl := length (rest_axes (ndim G ZRing (fbase G ZRing a)) aa) in
    let bb1 := map (fun j => (nl + index_of j (rest_axes (ndim G ZRing (fbase G ZRing b)) ab))%nat) bb in
    let ab2 := map (fun j => index_of j (rest_axes (ndim G ZRing (fbase G ZRing b)) bb)) ab in
    match f_tensordot2 G ZRing a b (naxes aa ab) m1, f_tensordot2 G ZRing b c (naxes bb cb) m2 with
    | Some y1, Some y2 =>
        match f_tensordot2 G ZRing y1 c (naxes bb1 cb) m12, f_tensordot2 G ZRing a y2 (naxes aa ab2) m21 with
        | Some y12, Some y21 =>
            let cs_all := all_coords G (without_axes (indices G ZRing (fbase G ZRing a)) aa
                                        ++ without_axes (indices G ZRing (fbase G ZRing b)) (ab ++ bb)
                                        ++ without_axes (indices G ZRing (fbase G ZRing c)) cb) in
            list_eqb fop_eqb (foddpos G ZRing y12) (foddpos G ZRing y21)
            && forallb (fun cs => Z.eqb (RouteProofs.V G ZRing y12 cs) (RouteProofs.V G ZRing y21 cs)) cs_all
            && negb (forallb (fun cs => Z.eqb (RouteProofs.V G ZRing y12 cs) 0) cs_all)
        | _, _ => false
        end
    | _, _ => false
    end.

  Example assoc_all_modes_computed :
    assoc_check U1 uA uB uC [1; 3]%nat [0; 2]%nat [3]%nat [0]%nat MFused MFused MFused MFused = true
    /\ assoc_check U1 uA uB uC [1; 3]%nat [0; 2]%nat [3]%nat [0]%nat MFused MBlockwise MAuto MFused = true
    /\ assoc_check Z2 xD xB xC [2; 1]%nat [0; 2]%nat [1]%nat [0]%nat MFused MFused MFused MFused = true
    /\ assoc_check Z2 xD xB xC [2; 1]%nat [0; 2]%nat [1]%nat [0]%nat MAuto MFused MBlockwise MAuto = true.
  Proof. vm_compute. repeat split; reflexivity. Qed.

  (* the intermediate a.b of the U1 chain really loses charges of its legs (the
     case the partial theorem of Props/C04c.v excluded), and the fused first stage
     stores blocks the blockwise one does not *)
  Example u1_intermediate_pruned :
    match f_tensordot2 U1 ZRing uA uB (naxes [1; 3]%nat [0; 2]%nat) MBlockwise, f_tensordot2 U1 ZRing uA uB (naxes [1; 3]%nat [0; 2]%nat) MFused with
    | Some y1, Some y1f =>
        list_eqb (index_eqb U1) (indices U1 ZRing (fbase U1 ZRing y1)) (free_ixs U1 ZRing uA uB [1; 3]%nat [0; 2]%nat) = false
        /\ (length (blocks U1 ZRing (fbase U1 ZRing y1)) <= length (blocks U1 ZRing (fbase U1 ZRing y1f)))%nat
    | _, _ => False
    end.
  Proof. vm_compute. split; [reflexivity|]. repeat constructor. Qed.

  (* compatible-but-different tables on a contracted pair: hypotheses of
     fused_eq_blockwise_compat on the second stage of the U1 chain *)
  Example compat_hyps :
    match f_tensordot2 U1 ZRing uA uB (naxes [1; 3]%nat [0; 2]%nat) MFused with
    | Some y1 =>
        wf_array U1 ZRing (fbase U1 ZRing y1) = true
        /\ tabs_compat U1 ZRing y1 uC [3]%nat [0]%nat
    | None => False
    end.
  Proof.
    vm_compute. split; [reflexivity|]. intros k Hk c H1 H2. destruct k as [|k]; [|exfalso; lia].
    repeat (destruct H1 as [<-|H1]; [reflexivity|]). destruct H1.
  Qed.

  (* the hypotheses of einsum_trace_element on the intermediate result of the Z2
     instance read over the un-pruned tables (rank 5, traced positions 1 and 4) *)
  Example trace_hyps :
    match f_tensordot2 Z2 ZRing xD xB (naxes [2]%nat [0]%nat) MFused with
    | Some y1 =>
        let x := reindex Z2 ZRing y1 (free_ixs Z2 ZRing xD xB [2]%nat [0]%nat) in
        let ixs := indices Z2 ZRing (fbase Z2 ZRing x) in
        wf_array Z2 ZRing (fbase Z2 ZRing x) = true /\ ndim Z2 ZRing (fbase Z2 ZRing x) = 5%nat
        /\ idual Z2 (nth 1 ixs (dflt_index Z2)) = negb (idual Z2 (nth 4 ixs (dflt_index Z2)))
        /\ chargemap Z2 (nth 1 ixs (dflt_index Z2)) = chargemap Z2 (nth 4 ixs (dflt_index Z2))
        /\ trace_perm Z2 ixs 1 4 = [1; 4; 0; 2; 3]%nat
    | None => False
    end.
  Proof. vm_compute. repeat split; reflexivity. Qed.
End OneByOneEx.
