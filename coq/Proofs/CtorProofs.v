(* Proofs/CtorProofs.v -- property C16: proofs of the constructor statements of
   Proofs/CtorSpec.v over the frozen model Model/Ctor.v.

   Proved here (all closed under the global context):
     fill_sectors_partial     : (forall a b, ceqb G a b = true <-> a = b) -> fill_sectors_stmt G R
     fill_sectors_laws        : GroupLaws G -> fill_sectors_stmt G R
     fill_sectors_needs_ceqb  : ~ fill_sectors_stmt Gdegenerate ZRing
                                (the statement as written, WITHOUT any law on ceqb, is false)
     init_infers_charge       : init_infers_charge_stmt G R
     init_ex_dual             : closed U1 example with a dual index (signed inference, fix 28a1fb2)
     from_blocks_eq           : from_blocks_eq_stmt G R
   Stdlib only. *)
From SV Require Import Base.Prelude Base.Sym Base.Tensor Model.Sectors Model.Array Model.Arith
  Model.Wf Model.Fermi Model.Ctor Model.SymInst Proofs.SymLaws Proofs.OrderProofs Proofs.GroupFacts
  Proofs.SectorsProofs Proofs.StructProofs Proofs.CtorSpec.
From Coq Require Import Permutation Sorting Lia.
Local Open Scope nat_scope.

(* ------------------------------------------------------------------ *)
(* generic list / dict facts                                           *)

Section FoldDset.
  Context {K V : Type} (keqb : K -> K -> bool) (Hk : eqb_spec_on keqb) (f : K -> V).

  (* filling a dict with fresh, pairwise distinct keys appends them in order *)
  Lemma fold_dset_fresh (ks : list K) : forall acc : list (K * V),
    NoDup ks -> (forall k, In k ks -> ~ In k (map fst acc)) ->
    fold_left (fun a s => dset keqb s (f s) a) ks acc = acc ++ map (fun s => (s, f s)) ks.
  Proof.
    induction ks as [|k ks IH]; intros acc Hnd Hfresh; cbn [fold_left map].
    - rewrite app_nil_r. reflexivity.
    - inversion Hnd as [|k0 ks0 Hnk Hnd']; subst.
      rewrite (keys_dset_notin keqb Hk k (f k) acc) by (apply Hfresh; left; reflexivity).
      rewrite IH.
      + rewrite <- app_assoc. reflexivity.
      + exact Hnd'.
      + intros k' Hk' Hin. rewrite map_app in Hin. cbn [map fst] in Hin.
        apply in_app_or in Hin. destruct Hin as [Hin|[Hin|[]]].
        * apply (Hfresh k'); [right; exact Hk' | exact Hin].
        * subst k'. exact (Hnk Hk').
  Qed.

  Lemma lookup_map_self (ks : list K) (k : K) :
    In k ks -> lookup keqb k (map (fun s => (s, f s)) ks) = Some (f k).
  Proof.
    induction ks as [|k0 ks IH]; intros Hin; [destruct Hin|].
    cbn [map lookup]. destruct (keqb k k0) eqn:E.
    - apply Hk in E. subst k0. reflexivity.
    - destruct Hin as [Hin|Hin]; [|apply IH; exact Hin].
      subst k0. rewrite (keqb_refl keqb Hk) in E. discriminate E.
  Qed.
End FoldDset.

Lemma map_fst_combine {A B} (l1 : list A) : forall l2 : list B,
  length l1 = length l2 -> map fst (List.combine l1 l2) = l1.
Proof.
  induction l1 as [|a l1 IH]; intros [|b l2] Hl; cbn [List.combine map fst length] in *;
    try reflexivity; try discriminate Hl.
  f_equal. apply IH. lia.
Qed.

Lemma map_snd_combine {A B} (l1 : list A) : forall l2 : list B,
  length l1 = length l2 -> map snd (List.combine l1 l2) = l2.
Proof.
  induction l1 as [|a l1 IH]; intros [|b l2] Hl; cbn [List.combine map snd length] in *;
    try reflexivity; try discriminate Hl.
  f_equal. apply IH. lia.
Qed.

(* ------------------------------------------------------------------ *)
(* 1. from_fill_fn                                                     *)

Section FillSectors.
  Context (G : Symmetry) (R : Ring).
  Notation keq := (list_eqb (ceqb G)).

  Lemma from_fill_fn_blocks (Hc : eqb_spec_on (ceqb G)) (fill : list nat -> tensor R)
        (ixs : list (index G)) (q : option (C G)) :
    tables_nodup G ixs ->
    blocks G R (from_fill_fn G R fill ixs q)
    = map (fun s => (s, fill (block_shape G ixs s)))
          (gen_valid_sectors G (map (icharges G) ixs) (map (idual G) ixs) (charge_or_ident G q)).
  Proof.
    intros Hnd. unfold from_fill_fn. cbn [blocks].
    rewrite (fold_dset_fresh keq (list_eqb_spec (ceqb G) Hc)
               (fun s => fill (block_shape G ixs s))).
    - reflexivity.
    - apply gen_valid_sectors_nodup. unfold tables_nodup in Hnd.
      apply Forall_forall. intros t Ht. apply in_map_iff in Ht. destruct Ht as [ix [<- Hix]].
      rewrite Forall_forall in Hnd. apply Hnd. exact Hix.
    - intros k _ Hin. exact Hin.
  Qed.
End FillSectors.

(* The statement of CtorSpec.v, under the only law it needs: ceqb decides equality. *)
Theorem fill_sectors_partial (G : Symmetry) (R : Ring) :
  (forall a b, ceqb G a b = true <-> a = b) -> fill_sectors_stmt G R.
Proof.
  intros Hc fill ixs q Hnd x.
  pose proof (from_fill_fn_blocks G R Hc fill ixs q Hnd) as Hb. fold x in Hb.
  assert (Hs : sectors G R x
               = gen_valid_sectors G (map (icharges G) ixs) (map (idual G) ixs) (charge_or_ident G q)).
  { unfold sectors. rewrite Hb. rewrite map_map. cbn [fst]. apply map_id. }
  assert (Hnds : Forall (@NoDup (C G)) (map (icharges G) ixs)).
  { apply Forall_forall. intros t Ht. apply in_map_iff in Ht. destruct Ht as [ix [<- Hix]].
    unfold tables_nodup in Hnd. rewrite Forall_forall in Hnd. apply Hnd. exact Hix. }
  split; [exact Hs|].
  split; [reflexivity|].
  split; [reflexivity|].
  split; [rewrite Hs; apply gen_valid_sectors_nodup; exact Hnds|].
  split.
  - intros s Hin. rewrite Hb. rewrite Hs in Hin.
    apply (lookup_map_self (list_eqb (ceqb G)) (list_eqb_spec (ceqb G) Hc)
             (fun s0 => fill (block_shape G ixs s0))).
    exact Hin.
  - intros HG Hval Hq s. rewrite Hs.
    apply (gen_valid_sectors_exact G HG).
    + unfold tables_valid_ix in Hval.
      apply Forall_forall. intros t Ht. apply in_map_iff in Ht. destruct Ht as [ix [<- Hix]].
      rewrite Forall_forall in Hval. apply Hval. exact Hix.
    + rewrite !map_length. reflexivity.
    + exact Hq.
Qed.

Theorem fill_sectors_laws (G : Symmetry) (R : Ring) : GroupLaws G -> fill_sectors_stmt G R.
Proof. intros HG. apply fill_sectors_partial. exact (ceqb_eq G HG). Qed.

(* Without a law on ceqb the first clause of fill_sectors_stmt is FALSE: with a ceqb that
   answers `true` on distinct charges the dict assignment overwrites, while
   gen_valid_sectors still lists both sectors. *)
Definition Gdegenerate : Symmetry :=
  {| C := bool; ceqb := fun _ _ => true; cltb := fun _ _ => false; valid_all := fun _ => true;
     combine := fun _ => true; sign := fun c _ => c; parityZ := fun _ => 0%Z |}.

Definition degenerate_ixs : list (index Gdegenerate) :=
  [Index Gdegenerate [(true, 1); (false, 1)] false None; Index Gdegenerate [(true, 1)] false None].

Example degenerate_sectors :
  sectors Gdegenerate ZRing (from_fill_fn Gdegenerate ZRing demo_fill degenerate_ixs None) = [[true; true]]
  /\ gen_valid_sectors Gdegenerate (map (icharges Gdegenerate) degenerate_ixs)
       (map (idual Gdegenerate) degenerate_ixs) (charge_or_ident Gdegenerate None)
     = [[true; true]; [false; true]].
Proof. split; vm_compute; reflexivity. Qed.

Theorem fill_sectors_needs_ceqb : ~ fill_sectors_stmt Gdegenerate ZRing.
Proof.
  intros H.
  assert (Hnd : tables_nodup Gdegenerate degenerate_ixs).
  { unfold tables_nodup, degenerate_ixs. repeat constructor; cbn; intuition discriminate. }
  destruct (H demo_fill degenerate_ixs None Hnd) as [H1 _].
  destruct degenerate_sectors as [E1 E2]. rewrite E1, E2 in H1. discriminate H1.
Qed.

(* the hypotheses of fill_sectors are satisfiable on a non-trivial instance: U1, rank 3,
   one dual index, total charge 1 *)
Definition fill_ex_ixs : list (index U1) :=
  [Index U1 [((-1)%Z, 1); (0%Z, 2); (1%Z, 1)] false None;
   Index U1 [(0%Z, 1); (1%Z, 2)] true None;
   Index U1 [(0%Z, 2); (1%Z, 1); (2%Z, 3)] false None].

Example fill_ex_sectors :
  sectors U1 ZRing (from_fill_fn U1 ZRing demo_fill fill_ex_ixs (Some 1%Z))
  = [[-1; 0; 2]; [0; 0; 1]; [0; 1; 2]; [1; 0; 0]; [1; 1; 1]]%Z.
Proof. vm_compute. reflexivity. Qed.

Example fill_ex_nodup : tables_nodup U1 fill_ex_ixs.
Proof.
  unfold tables_nodup, fill_ex_ixs. repeat constructor; cbn; intuition discriminate.
Qed.

Example fill_ex_wf : wf_array U1 ZRing (from_fill_fn U1 ZRing demo_fill fill_ex_ixs (Some 1%Z)) = true.
Proof. vm_compute. reflexivity. Qed.

(* ------------------------------------------------------------------ *)
(* 0. __init__                                                         *)

Theorem init_infers_charge (G : Symmetry) (R : Ring) : init_infers_charge_stmt G R.
Proof.
  intros ixs blks.
  split; [reflexivity|].
  split; [reflexivity|].
  split; [intros ->; reflexivity|].
  split; [|intros c; reflexivity].
  intros s b rest ->. split; [reflexivity|]. split.
  - intros HG. unfold init_array, init_charge. cbn [charge fst].
    unfold is_valid_sector. apply (ceqb_refl G HG).
  - intros HG q Hall.
    assert (Hq : charge G R (init_array G R ixs None ((s, b) :: rest)) = q).
    { unfold init_array, init_charge. cbn [charge fst].
      pose proof (Forall_inv Hall) as H0. cbn [fst] in H0. unfold is_valid_sector in H0.
      apply (ceqb_eq G HG) in H0. exact H0. }
    split; [exact Hq|]. rewrite Hq. exact Hall.
Qed.

(* the hypotheses are satisfiable and the conclusion non-trivial: a dual index, U1, two stored
   sectors of total charge 0 whose plain (unsigned) sums are 2 and 4 *)
Example init_ex_dual :
  let ixs := [Index U1 [(1%Z, 1); (2%Z, 1)] false None; Index U1 [(1%Z, 1); (2%Z, 1)] true None] in
  let blks := [([1; 1]%Z, @mkT ZRing [1; 1] [7%Z]); ([2; 2]%Z, @mkT ZRing [1; 1] [5%Z])] in
  Forall (fun sb => is_valid_sector U1 (map (idual U1) ixs) 0%Z (fst sb) = true) blks
  /\ charge U1 ZRing (init_array U1 ZRing ixs None blks) = 0%Z
  /\ wf_array U1 ZRing (init_array U1 ZRing ixs None blks) = true.
Proof. split; [repeat constructor | split; vm_compute; reflexivity]. Qed.

(* ------------------------------------------------------------------ *)
(* 2. from_blocks                                                      *)

Lemma all_some_map {A B} (g : A -> option B) (h : A -> B) (l : list A) :
  (forall a, In a l -> g a = Some (h a)) -> all_some (map g l) = Some (map h l).
Proof.
  induction l as [|a l IH]; intros Hg; cbn [map all_some]; [reflexivity|].
  rewrite (Hg a) by (left; reflexivity).
  rewrite IH by (intros a' Ha'; apply Hg; right; exact Ha').
  reflexivity.
Qed.

Lemma map_enumerate_gen {A B} (F : nat * A -> B) (d : A) (l : list A) : forall a,
  map F (List.combine (seq a (length l)) l) = map (fun i => F (i, nth (i - a) l d)) (seq a (length l)).
Proof.
  induction l as [|x l IH]; intros a; cbn [length seq List.combine map]; [reflexivity|].
  f_equal.
  - rewrite Nat.sub_diag. reflexivity.
  - rewrite IH. apply map_ext_in. intros i Hi. apply in_seq in Hi.
    replace (i - a) with (S (i - S a)) by lia. reflexivity.
Qed.

Lemma map_enumerate {A B} (F : nat * A -> B) (d : A) (l : list A) :
  map F (enumerate l) = map (fun i => F (i, nth i l d)) (seq 0 (length l)).
Proof.
  unfold enumerate. rewrite (map_enumerate_gen F d l 0).
  apply map_ext. intros i. rewrite Nat.sub_0_r. reflexivity.
Qed.

Lemma self_map_fst {A B} (g : A -> A * B) (L : list (A * B)) :
  (forall p, In p L -> p = g (fst p)) -> L = map g (map fst L).
Proof.
  induction L as [|p L IH]; intros H; cbn [map]; [reflexivity|].
  f_equal; [apply H; left; reflexivity | apply IH; intros p' Hp'; apply H; right; exact Hp'].
Qed.

Lemma filter_all {A} (f : A -> bool) (l : list A) :
  (forall a, In a l -> f a = true) -> filter f l = l.
Proof.
  induction l as [|a l IH]; intros H; cbn [filter]; [reflexivity|].
  rewrite (H a) by (left; reflexivity). f_equal. apply IH. intros a' Ha'. apply H. right. exact Ha'.
Qed.

Section FromBlocks.
  Context (G : Symmetry) (HG : GroupLaws G) (HO : OrderLaws G) (R : Ring).
  Notation Ch := (C G).
  Notation keq := (list_eqb (ceqb G)).
  Notation arr := (aarray G R).
  Notation dflt := (dflt_index G).

  (* first-seen de-duplication: the key order of `charge_size_maps[i]` *)
  Fixpoint dedup_acc (ks cs : list Ch) : list Ch :=
    match cs with
    | [] => ks
    | c :: cs' => dedup_acc (if mem (ceqb G) c ks then ks else ks ++ [c]) cs'
    end.

  Lemma dedup_acc_In cs : forall ks c, In c (dedup_acc ks cs) <-> In c ks \/ In c cs.
  Proof.
    induction cs as [|c0 cs IH]; intros ks c; cbn [dedup_acc In].
    - tauto.
    - rewrite IH. destruct (mem (ceqb G) c0 ks) eqn:E.
      + apply (mem_ceqb_In G HG) in E. split.
        * intros [H|H]; [left; exact H | right; right; exact H].
        * intros [H|[H|H]]; [left; exact H | subst c0; left; exact E | right; exact H].
      + rewrite in_app_iff. cbn [In]. tauto.
  Qed.

  Lemma dedup_acc_NoDup cs : forall ks, NoDup ks -> NoDup (dedup_acc ks cs).
  Proof.
    induction cs as [|c0 cs IH]; intros ks Hnd; cbn [dedup_acc]; [exact Hnd|].
    apply IH. destruct (mem (ceqb G) c0 ks) eqn:E; [exact Hnd|].
    apply (mem_ceqb_false G HG) in E.
    eapply Permutation_NoDup; [apply Permutation_cons_append|].
    constructor; assumption.
  Qed.

  Lemma lookup_map_fn (f : Ch -> nat) (ks : list Ch) (c : Ch) :
    lookup (ceqb G) c (map (fun k => (k, f k)) ks) = if mem (ceqb G) c ks then Some (f c) else None.
  Proof.
    induction ks as [|k ks IH]; cbn [map lookup mem]; [reflexivity|].
    destruct (ceqb G c k) eqn:E; cbn [orb].
    - apply (ceqb_eq G HG) in E. subst k. reflexivity.
    - exact IH.
  Qed.

  (* collecting pairs whose extent is a function of the charge never fails *)
  Lemma collect_fn (f : Ch -> nat) (cs : list Ch) : forall ks,
    fold_left (cm_collect G) (map (fun k => (k, f k)) cs) (Some (map (fun k => (k, f k)) ks))
    = Some (map (fun k => (k, f k)) (dedup_acc ks cs)).
  Proof.
    induction cs as [|c cs IH]; intros ks; cbn [map fold_left dedup_acc]; [reflexivity|].
    unfold cm_collect at 2. cbn [fst snd].
    rewrite lookup_map_fn. destruct (mem (ceqb G) c ks) eqn:E.
    - rewrite Nat.eqb_refl. apply IH.
    - rewrite <- (IH (ks ++ [c])). rewrite map_app. reflexivity.
  Qed.

  (* what axis i receives from blocks of the prescribed shapes *)
  Lemma nth_error_sector_shape (ixs : list (index G)) (s : list Ch) i :
    length s = length ixs -> i < length ixs ->
    nth_error (List.combine s (block_shape G ixs s)) i
    = Some (nth i s (ident G), size_of G (nth i ixs dflt) (nth i s (ident G))).
  Proof.
    intros Hl Hi.
    assert (Hbl : length (block_shape G ixs s) = length ixs).
    { unfold block_shape. rewrite map_length, combine_length. lia. }
    rewrite (nth_error_nth' _ (ident G, 0)) by (rewrite combine_length; lia).
    rewrite combine_nth by lia.
    rewrite (nth_block_shape G ixs s i Hl Hi). reflexivity.
  Qed.

  Lemma axis_pairs_shapes (ixs : list (index G)) i (blks : list (list Ch * tensor R)) :
    i < length ixs ->
    (forall s b, In (s, b) blks -> length s = length ixs /\ tshape b = block_shape G ixs s) ->
    axis_pairs G R i blks
    = map (fun k => (k, size_of G (nth i ixs dflt) k)) (map (fun s => nth i s (ident G)) (map fst blks)).
  Proof.
    intros Hi. induction blks as [|[s b] blks IH]; intros Hsh; [reflexivity|].
    unfold axis_pairs. cbn [flat_map map fst snd].
    destruct (Hsh s b (or_introl eq_refl)) as [Hl Ht].
    rewrite Ht. rewrite (nth_error_sector_shape ixs s i Hl Hi). cbn [app]. f_equal.
    apply IH. intros s' b' Hin. apply Hsh. right. exact Hin.
  Qed.

  (* the table from_blocks builds for axis i, before sorting *)
  Definition present_at (x : arr) (i : nat) : list Ch := map (fun s => nth i s (ident G)) (sectors G R x).
  Definition raw_table (x : arr) (i : nat) : list (Ch * nat) :=
    map (fun k => (k, size_of G (nth i (indices G R x) dflt) k)) (dedup_acc [] (present_at x i)).

  Lemma axis_table_wf (x : arr) i : wf_array G R x = true -> i < ndim G R x ->
    axis_table G R i (blocks G R x) = Some (raw_table x i).
  Proof.
    intros Hwf Hi. unfold axis_table.
    rewrite (axis_pairs_shapes (indices G R x) i (blocks G R x) Hi (wf_shapes G R x Hwf)).
    apply (collect_fn (size_of G (nth i (indices G R x) dflt)) _ []).
  Qed.

  Definition fb_indices (x : arr) : list (index G) :=
    map (fun p => mk_index G (fst p) (snd p) None)
        (List.combine (map (raw_table x) (seq 0 (ndim G R x))) (duals G R x)).

  Lemma from_blocks_wf (x : arr) (q : option Ch) : wf_array G R x = true -> blocks G R x <> [] ->
    from_blocks G R (blocks G R x) (duals G R x) q
    = Some (init_array G R (fb_indices x) (Some (charge_or_ident G q)) (blocks G R x)).
  Proof.
    intros Hwf Hne. pose proof (wf_shapes G R x Hwf) as Hsh.
    unfold from_blocks. destruct (blocks G R x) as [|sb0 rest] eqn:Eb; [exfalso; apply Hne; reflexivity|].
    assert (Hn : length (fst sb0) = ndim G R x).
    { destruct sb0 as [s0 b0]. apply (Hsh s0 b0). rewrite Eb. left. reflexivity. }
    cbv zeta. rewrite Hn. rewrite <- Eb.
    assert (Hguard : existsb (fun sb : list Ch * tensor R =>
                        Nat.ltb (ndim G R x) (Nat.min (length (fst sb)) (length (tshape (snd sb)))))
                       (blocks G R x) = false).
    { destruct (existsb _ (blocks G R x)) eqn:E; [|reflexivity].
      apply existsb_exists in E. destruct E as [[s b] [Hin Hlt]]. cbn [fst snd] in Hlt.
      apply Nat.ltb_lt in Hlt. destruct (Hsh s b Hin) as [Hl _]. lia. }
    rewrite Hguard.
    rewrite (all_some_map (fun i => axis_table G R i (blocks G R x)) (raw_table x)).
    - unfold duals at 1. rewrite map_length. fold (ndim G R x). rewrite Nat.eqb_refl. reflexivity.
    - intros i Hin. apply in_seq in Hin. apply axis_table_wf; [exact Hwf | lia].
  Qed.

  (* a sorted table restricted to a key set = the sorted table built from that key set *)
  Lemma table_eq (ix : index G) (ks : list Ch) (keep : Ch -> bool) :
    cm_ok G (chargemap G ix) = true -> NoDup ks ->
    (forall c, In c (icharges G ix) -> (keep c = true <-> In c ks)) ->
    (forall c, In c ks -> In c (icharges G ix)) ->
    sort_cm G (map (fun k => (k, size_of G ix k)) ks) = filter (fun p => keep (fst p)) (chargemap G ix).
  Proof.
    intros Hcm Hnd Hkeep Hsub.
    set (g := fun k : Ch => (k, size_of G ix k)).
    set (L1 := sort_cm G (map g ks)).
    set (L2 := filter (fun p : Ch * nat => keep (fst p)) (chargemap G ix)).
    assert (Hss : StronglySorted (ltP (cltb G)) (map fst (chargemap G ix))).
    { unfold cm_ok in Hcm. apply andb_true_iff in Hcm. destruct Hcm as [Hcm _].
      apply SS_of_sorted_by; [exact HO | exact Hcm]. }
    pose proof (SS_NoDup (cltb G) _ HO Hss) as Hndcm.
    assert (Hperm1 : Permutation L1 (map g ks)) by (apply isort_perm).
    assert (Hfst : map fst (map g ks) = ks).
    { rewrite map_map. unfold g. cbn [fst]. apply map_id. }
    assert (H1 : forall p, In p L1 -> p = g (fst p)).
    { intros p Hp. apply (Permutation_in _ Hperm1) in Hp. apply in_map_iff in Hp.
      destruct Hp as [k [<- _]]. reflexivity. }
    assert (H2 : forall p, In p L2 -> p = g (fst p)).
    { intros [k d] Hp. unfold L2 in Hp. apply filter_In in Hp. destruct Hp as [Hp _].
      unfold g, size_of. cbn [fst].
      rewrite (In_lookup (ceqb G) (ceqb_eq G HG) k d (chargemap G ix) Hndcm Hp). reflexivity. }
    assert (S1 : StronglySorted (ltP (cltb G)) (map fst L1)).
    { unfold L1, sort_cm. apply (isort_sorted fst (cltb G) (map g ks) HO). rewrite Hfst. exact Hnd. }
    assert (S2 : StronglySorted (ltP (cltb G)) (map fst L2)).
    { unfold L2. apply SS_map_filter. exact Hss. }
    assert (Hkeys : map fst L1 = map fst L2).
    { apply (SS_perm_eq (cltb G) _ _ HO S1 S2).
      apply NoDup_Permutation; [exact (SS_NoDup _ _ HO S1) | exact (SS_NoDup _ _ HO S2) |].
      intros c. split.
      - intros Hc.
        assert (Hck : In c ks).
        { rewrite <- Hfst. eapply Permutation_in; [apply Permutation_map; exact Hperm1 | exact Hc]. }
        pose proof (Hsub c Hck) as Hci. unfold icharges in Hci. apply in_map_iff in Hci.
        destruct Hci as [p [Ep Hp]]. apply in_map_iff. exists p. split; [exact Ep|].
        unfold L2. apply filter_In. split; [exact Hp|]. rewrite Ep.
        apply Hkeep; [apply Hsub; exact Hck | exact Hck].
      - intros Hc. apply in_map_iff in Hc. destruct Hc as [p [Ep Hp]].
        unfold L2 in Hp. apply filter_In in Hp. destruct Hp as [Hp Hk]. rewrite Ep in Hk.
        assert (Hci : In c (icharges G ix)).
        { unfold icharges. apply in_map_iff. exists p. split; assumption. }
        apply (Hkeep c Hci) in Hk.
        eapply Permutation_in; [apply Permutation_sym; apply Permutation_map; exact Hperm1|].
        rewrite Hfst. exact Hk. }
    rewrite (self_map_fst g L1 H1), (self_map_fst g L2 H2), Hkeys. reflexivity.
  Qed.

  Lemma wf_cm_ok (x : arr) i : wf_array G R x = true -> i < ndim G R x ->
    cm_ok G (chargemap G (nth i (indices G R x) dflt)) = true.
  Proof.
    intros Hwf Hi. unfold wf_array in Hwf.
    repeat (apply andb_true_iff in Hwf; destruct Hwf as [Hwf ?]).
    rewrite forallb_forall in Hwf.
    specialize (Hwf (nth i (indices G R x) dflt) (nth_In _ _ Hi)).
    destruct (nth i (indices G R x) dflt) as [cm d sub]. cbn [wf_index] in Hwf.
    apply andb_true_iff in Hwf. destruct Hwf as [Hwf _]. exact Hwf.
  Qed.

  Lemma present_in_table (x : arr) i c : wf_array G R x = true -> i < ndim G R x ->
    In c (present_at x i) -> In c (icharges G (nth i (indices G R x) dflt)).
  Proof.
    intros Hwf Hi Hc. unfold present_at, sectors in Hc. rewrite map_map in Hc.
    apply in_map_iff in Hc. destruct Hc as [[s b] [<- Hin]]. cbn [fst].
    apply (mem_ceqb_In G HG). exact (wf_tables G R x Hwf s b Hin i Hi).
  Qed.

  Definition pruned_cm (x : arr) (i : nat) : list (Ch * nat) :=
    chargemap G (drop_charges G (nth i (indices G R x) dflt)
                   (filter (fun c => negb (mem (ceqb G) c (present_at x i)))
                           (icharges G (nth i (indices G R x) dflt)))).

  Lemma chargemap_drop (ix : index G) cs :
    chargemap G (drop_charges G ix cs) = filter (fun p => negb (mem (ceqb G) (fst p) cs)) (chargemap G ix).
  Proof. destruct ix as [cm d sub]. reflexivity. Qed.

  Lemma axis_eq (x : arr) i : wf_array G R x = true -> i < ndim G R x ->
    sort_cm G (raw_table x i) = pruned_cm x i.
  Proof.
    intros Hwf Hi. unfold raw_table, pruned_cm. rewrite chargemap_drop.
    set (ix := nth i (indices G R x) dflt).
    apply (table_eq ix (dedup_acc [] (present_at x i))
             (fun c => negb (mem (ceqb G) c
                (filter (fun c0 => negb (mem (ceqb G) c0 (present_at x i))) (icharges G ix))))).
    - apply wf_cm_ok; assumption.
    - apply dedup_acc_NoDup. constructor.
    - intros c Hc. rewrite dedup_acc_In. cbn [In]. rewrite negb_true_iff.
      rewrite (mem_ceqb_false G HG). rewrite filter_In. rewrite negb_true_iff.
      rewrite (mem_ceqb_false G HG). split.
      + intros Hn. right.
        destruct (mem (ceqb G) c (present_at x i)) eqn:E; [apply (mem_ceqb_In G HG); exact E|].
        exfalso. apply Hn. split; [exact Hc|]. apply (mem_ceqb_false G HG). exact E.
      + intros [[]|Hp] [_ Hn]. exact (Hn Hp).
    - intros c Hc. apply dedup_acc_In in Hc. destruct Hc as [[]|Hc].
      apply present_in_table; assumption.
  Qed.

  Lemma fb_chargemaps (x : arr) :
    map (chargemap G) (fb_indices x) = map (fun i => sort_cm G (raw_table x i)) (seq 0 (ndim G R x)).
  Proof.
    unfold fb_indices. rewrite map_map. cbn [mk_index chargemap].
    rewrite <- (map_map fst (sort_cm G)).
    rewrite map_fst_combine by (unfold duals, ndim; rewrite !map_length, seq_length; reflexivity).
    rewrite map_map. reflexivity.
  Qed.

  Lemma prune_chargemaps (x : arr) :
    map (chargemap G) (prune_indices G (indices G R x) (sectors G R x))
    = map (pruned_cm x) (seq 0 (ndim G R x)).
  Proof.
    unfold prune_indices. rewrite map_map.
    rewrite (map_enumerate _ dflt). reflexivity.
  Qed.

  Lemma pruned_all_stored (x : arr) i : i < ndim G R x -> every_charge_stored G R x ->
    pruned_cm x i = chargemap G (nth i (indices G R x) dflt).
  Proof.
    intros Hi Hst. unfold pruned_cm. rewrite chargemap_drop. apply filter_all.
    intros p Hp. apply negb_true_iff. apply (mem_ceqb_false G HG). intros Hin.
    apply filter_In in Hin. destruct Hin as [Hic Hn]. apply negb_true_iff in Hn.
    apply (mem_ceqb_false G HG) in Hn. apply Hn.
    destruct (Hst i (nth i (indices G R x) dflt) (fst p) (nth_error_nth' _ dflt Hi) Hic) as [s [Hs Hnth]].
    unfold present_at. apply in_map_iff. exists s. split; [|exact Hs].
    apply nth_error_nth. exact Hnth.
  Qed.

  Theorem from_blocks_eq_sec : from_blocks_eq_stmt G R.
  Proof.
    intros _ _ x q Hwf Hne.
    exists (init_array G R (fb_indices x) (Some (charge_or_ident G q)) (blocks G R x)).
    split; [apply from_blocks_wf; assumption|].
    split; [reflexivity|].
    split; [reflexivity|].
    split; [intros cs; reflexivity|].
    assert (Hprune : map (chargemap G) (fb_indices x)
                     = map (chargemap G) (prune_indices G (indices G R x) (sectors G R x))).
    { rewrite fb_chargemaps, prune_chargemaps. apply map_ext_in. intros i Hin. apply in_seq in Hin.
      apply axis_eq; [exact Hwf | lia]. }
    split.
    { unfold init_array, duals. cbn [indices]. unfold fb_indices. rewrite map_map.
      cbn [mk_index idual]. apply map_snd_combine.
      rewrite !map_length, seq_length. reflexivity. }
    split.
    { unfold init_array. cbn [indices]. unfold fb_indices. apply Forall_forall. intros ix Hix.
      apply in_map_iff in Hix. destruct Hix as [p [<- _]]. reflexivity. }
    split; [exact Hprune|].
    intros Hst. unfold init_array. cbn [indices]. unfold init_array in Hprune. cbn [indices] in Hprune.
    rewrite Hprune, prune_chargemaps.
    transitivity (map (chargemap G) (map (fun j => nth j (indices G R x) dflt) (seq 0 (length (indices G R x))))).
    - rewrite map_map. apply map_ext_in. intros i Hin. apply in_seq in Hin.
      apply pruned_all_stored; [unfold ndim in *; lia | exact Hst].
    - rewrite map_nth_seq. reflexivity.
  Qed.
End FromBlocks.

Theorem from_blocks_eq (G : Symmetry) (R : Ring) : from_blocks_eq_stmt G R.
Proof. intros HG HO. exact (from_blocks_eq_sec G HG HO R HG HO). Qed.

(* the hypotheses of from_blocks_eq on a non-trivial instance: U1, rank 2, second index dual,
   charge 0, the valid sector [1;1] is NOT stored and the blocks are not in sorted order *)
Definition fb_ex_ixs : list (index U1) :=
  [Index U1 [(0%Z, 1); (1%Z, 2); (2%Z, 1)] false None; Index U1 [(0%Z, 1); (1%Z, 2); (2%Z, 3)] true None].
Definition fb_ex_x : aarray U1 ZRing :=
  mkA U1 ZRing fb_ex_ixs 0%Z
      [([2; 2]%Z, @mkT ZRing [1; 3] [5; 6; 7]%Z); ([0; 0]%Z, @mkT ZRing [1; 1] [9%Z])].

Example fb_ex_wf : wf_array U1 ZRing fb_ex_x = true /\ blocks U1 ZRing fb_ex_x <> [].
Proof. split; [vm_compute; reflexivity | discriminate]. Qed.

(* the charge 1 is pruned from both tables; tables come out sorted *)
Example fb_ex_value :
  from_blocks U1 ZRing (blocks U1 ZRing fb_ex_x) (duals U1 ZRing fb_ex_x) None
  = Some (mkA U1 ZRing
            [Index U1 [(0%Z, 1); (2%Z, 1)] false None; Index U1 [(0%Z, 1); (2%Z, 3)] true None]
            0%Z (blocks U1 ZRing fb_ex_x)).
Proof. vm_compute. reflexivity. Qed.

(* with the block [1;1] stored as well every table charge occurs: the tables of x come back *)
Definition fb_ex_y : aarray U1 ZRing :=
  mkA U1 ZRing fb_ex_ixs 0%Z
      [([2; 2]%Z, @mkT ZRing [1; 3] [5; 6; 7]%Z); ([0; 0]%Z, @mkT ZRing [1; 1] [9%Z]);
       ([1; 1]%Z, @mkT ZRing [2; 2] [1; 2; 3; 4]%Z)].

Example fb_ex_y_wf : wf_array U1 ZRing fb_ex_y = true.
Proof. vm_compute. reflexivity. Qed.

Example fb_ex_y_stored : every_charge_stored U1 ZRing fb_ex_y.
Proof.
  intros i ix c Hi Hc.
  destruct i as [|[|i]]; cbn [nth_error indices fb_ex_y fb_ex_ixs] in Hi;
    [ | | destruct i; discriminate Hi];
    inversion Hi; subst ix; cbn [icharges chargemap map fst In] in Hc;
    destruct Hc as [<-|[<-|[<-|[]]]];
    [ exists [0; 0]%Z | exists [1; 1]%Z | exists [2; 2]%Z
    | exists [0; 0]%Z | exists [1; 1]%Z | exists [2; 2]%Z ];
    (split; [cbn [sectors blocks fb_ex_y map fst In]; tauto | reflexivity]).
Qed.

Example fb_ex_y_value :
  from_blocks U1 ZRing (blocks U1 ZRing fb_ex_y) (duals U1 ZRing fb_ex_y) (Some 0%Z)
  = Some fb_ex_y.
Proof. vm_compute. reflexivity. Qed.

(* ------------------------------------------------------------------ *)
(* 3. direct construction with the charge omitted vs from_blocks       *)

Lemma wf_sector_valid (G : Symmetry) (R : Ring) (x : aarray G R) :
  wf_array G R x = true ->
  forall sb, In sb (blocks G R x) ->
    is_valid_sector G (duals G R x) (charge G R x) (fst sb) = true.
Proof.
  intros Hwf sb Hin. unfold wf_array in Hwf.
  apply andb_true_iff in Hwf. destruct Hwf as [_ Hblk].
  rewrite forallb_forall in Hblk. specialize (Hblk sb Hin).
  apply andb_true_iff in Hblk. destruct Hblk as [Hblk _].
  apply andb_true_iff in Hblk. destruct Hblk as [Hso _].
  unfold sector_ok in Hso. apply andb_true_iff in Hso. destruct Hso as [_ Hv]. exact Hv.
Qed.

Theorem direct_vs_from_blocks (G : Symmetry) (R : Ring) : direct_vs_from_blocks_stmt G R.
Proof.
  intros HG HO x Hwf Hne.
  assert (Hdirect : init_array G R (indices G R x) None (blocks G R x) = x).
  { pose proof (wf_sector_valid G R x Hwf) as Hv.
    destruct x as [ixs q blks]. cbn [indices blocks charge duals] in *.
    destruct blks as [|sb rest]; [contradiction Hne; reflexivity|].
    unfold init_array, init_charge. f_equal.
    specialize (Hv sb (or_introl eq_refl)). unfold is_valid_sector in Hv.
    apply (ceqb_eq G HG) in Hv. exact Hv. }
  split; [exact Hdirect|]. split.
  - rewrite Hdirect.
    destruct (from_blocks_eq G R HG HO x (Some (charge G R x)) Hwf Hne)
      as [y [Hy [Hc [Hb [_ [Hd _]]]]]].
    exists y. split; [exact Hy|]. split; [exact Hc|]. split; [exact Hb | exact Hd].
  - destruct (from_blocks_eq G R HG HO x None Hwf Hne) as [y [Hy [Hc [Hb [_ [Hd _]]]]]].
    cbn [charge_or_ident] in Hc.
    exists y. split; [exact Hy|]. split; [exact Hc|]. split; [exact Hb|]. split.
    + rewrite Hc. split; intros H; symmetry; exact H.
    + intros Hnz s Hs. rewrite Hd, Hc.
      unfold sectors in Hs. rewrite Hb in Hs. apply in_map_iff in Hs.
      destruct Hs as [sb [<- Hin]].
      pose proof (wf_sector_valid G R x Hwf sb Hin) as Hv.
      destruct (is_valid_sector G (duals G R x) (ident G) (fst sb)) eqn:E; [|reflexivity].
      exfalso. apply Hnz. unfold is_valid_sector in Hv, E.
      apply (ceqb_eq G HG) in Hv. apply (ceqb_eq G HG) in E. rewrite <- Hv. exact E.
Qed.

(* a non-trivial instance: U1, a dual index, total charge 1 (not the identity): direct
   construction without a charge gives it back; from_blocks without a charge has charge 0 and
   its only sector does not conserve it *)
Definition dv_ex_x : aarray U1 ZRing :=
  mkA U1 ZRing [Index U1 [(1%Z, 1); (2%Z, 2)] false None; Index U1 [(0%Z, 1); (1%Z, 1)] true None] 1%Z
      [([2; 1]%Z, @mkT ZRing [2; 1] [3; 4]%Z); ([1; 0]%Z, @mkT ZRing [1; 1] [9%Z])].
Example dv_ex :
  wf_array U1 ZRing dv_ex_x = true
  /\ init_array U1 ZRing (indices U1 ZRing dv_ex_x) None (blocks U1 ZRing dv_ex_x) = dv_ex_x
  /\ match from_blocks U1 ZRing (blocks U1 ZRing dv_ex_x) (duals U1 ZRing dv_ex_x) None with
     | Some y0 => charge U1 ZRing y0 = 0%Z /\ wf_array U1 ZRing y0 = false
     | None => False
     end.
Proof. split; [vm_compute; reflexivity | split; [vm_compute; reflexivity | vm_compute; split; reflexivity]]. Qed.
