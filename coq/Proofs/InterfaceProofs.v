(* Proofs/InterfaceProofs.v — the module-level functions of symmray/interface.py are
   plain forwarders.  Gen/Interface.v is pure data regenerated from the current source
   (one `ientry` per public top-level def, classified by the exact syntactic shape of
   its body).  Everything here is decided by computation on that finite list and then
   lifted to `forall e, In e interface -> ...` with forallb_forall, so the theorems are
   re-checked against the source on every run. *)
From Coq Require Import List String Bool.
From SV Require Import Gen.Interface.
Import ListNotations.
Local Open Scope string_scope.
Local Open Scope list_scope.

(* ---------- allow-lists: the only public functions that are not plain forwarders ---------- *)
Definition dispatch_names : list string := ["tensordot"].
Definition try_forward_names : list string := ["abs"; "sqrt"; "log"; "log2"; "log10"].
(* forwarders whose receiver is the LAST parameter instead of the first: einsum(eq, x) *)
Definition receiver_not_first : list string := ["einsum"].

(* ---------- boolean predicates ---------- *)
Definition smem (s : string) (l : list string) : bool := existsb (String.eqb s) l.

(* AOther is equal to nothing, not even itself: unclassified text never passes. *)
Definition iarg_eqb (a b : iarg) : bool :=
  match a, b with
  | APos p, APos r => String.eqb p r
  | AStar p, AStar r => String.eqb p r
  | AKwargs p, AKwargs r => String.eqb p r
  | _, _ => false
  end.

Fixpoint iargs_eqb (l m : list iarg) : bool :=
  match l, m with
  | [], [] => true
  | a :: l', b :: m' => iarg_eqb a b && iargs_eqb l' m'
  | _, _ => false
  end.

Definition known_arg (a : iarg) : bool :=
  match a with AOther _ => false | _ => true end.

Fixpoint split_last (l : list iarg) : option (list iarg * iarg) :=
  match l with
  | [] => None
  | x :: t =>
      match t with
      | [] => Some ([], x)
      | _ :: _ => match split_last t with
                  | Some (i, y) => Some (x :: i, y)
                  | None => None
                  end
      end
  end.

(* receiver r and forwarded args are exactly the def's parameters, in order *)
Definition first_shape (e : ientry) (r : string) (args : list iarg) : bool :=
  match iparams e with
  | APos p :: rest => String.eqb r p && iargs_eqb args rest
  | _ => false
  end.

Definition last_shape (e : ientry) (r : string) (args : list iarg) : bool :=
  match split_last (iparams e) with
  | Some (init, APos p) => String.eqb r p && iargs_eqb args init
  | _ => false
  end.

Definition plain_forwarder (e : ientry) : bool :=
  match ikind_of e with
  | IForward m r args =>
      String.eqb m (iname e) &&
      (if smem (iname e) receiver_not_first then last_shape e r args else first_shape e r args)
  | _ => false
  end.

Definition try_forwarder (e : ientry) : bool :=
  match ikind_of e with
  | ITryForward m r args fb =>
      String.eqb m (iname e) && String.eqb fb (iname e) && first_shape e r args
  | _ => false
  end.

Definition is_dispatch (e : ientry) : bool :=
  match ikind_of e with IDispatch _ => true | _ => false end.

Definition entry_ok (e : ientry) : bool :=
  implb (smem (iname e) dispatch_names) (is_dispatch e) &&
  implb (smem (iname e) try_forward_names) (try_forwarder e) &&
  implb (negb (smem (iname e) dispatch_names || smem (iname e) try_forward_names))
        (plain_forwarder e).

(* ---------- reflection lemmas ---------- *)
Lemma smem_In : forall s l, smem s l = true <-> In s l.
Proof.
  intros s l. unfold smem. rewrite existsb_exists. split.
  - intros [x [Hin Heq]]. apply String.eqb_eq in Heq. subst x. exact Hin.
  - intros Hin. exists s. split; [exact Hin | apply String.eqb_refl].
Qed.

Lemma smem_not_In : forall s l, ~ In s l -> smem s l = false.
Proof.
  intros s l Hn. destruct (smem s l) eqn:E; [|reflexivity].
  apply smem_In in E. contradiction.
Qed.

Lemma iarg_eqb_eq : forall a b, iarg_eqb a b = true -> a = b /\ known_arg a = true.
Proof.
  intros [p|p|p|p] [r|r|r|r] H; cbn in H; try discriminate;
    apply String.eqb_eq in H; subst; split; reflexivity.
Qed.

Lemma iargs_eqb_eq : forall l m, iargs_eqb l m = true -> l = m /\ forallb known_arg l = true.
Proof.
  induction l as [|a l IH]; intros [|b m] H; cbn in H; try discriminate.
  - split; reflexivity.
  - apply andb_true_iff in H. destruct H as [Hab Hlm].
    apply iarg_eqb_eq in Hab. destruct Hab as [Hab Hk].
    apply IH in Hlm. destruct Hlm as [Hlm Hf].
    subst. split; [reflexivity|]. cbn. rewrite Hk, Hf. reflexivity.
Qed.

Lemma split_last_app : forall l i x, split_last l = Some (i, x) -> l = i ++ [x].
Proof.
  induction l as [|a t IH]; intros i x H.
  - discriminate.
  - destruct t as [|b t'].
    + cbn in H. inversion H. reflexivity.
    + change (split_last (a :: b :: t'))
        with (match split_last (b :: t') with
              | Some (i0, y) => Some (a :: i0, y) | None => None end) in H.
      destruct (split_last (b :: t')) as [[i' y]|] eqn:E; [|discriminate].
      inversion H. subst. rewrite (IH i' x eq_refl). reflexivity.
Qed.

Lemma first_shape_spec : forall e r args, first_shape e r args = true ->
  iparams e = APos r :: args /\ forallb known_arg args = true.
Proof.
  intros e r args H. unfold first_shape in H.
  destruct (iparams e) as [|[p|p|p|p] rest]; try discriminate.
  apply andb_true_iff in H. destruct H as [Hr Ha].
  apply String.eqb_eq in Hr. apply iargs_eqb_eq in Ha. destruct Ha as [Ha Hk].
  subst. split; [reflexivity | exact Hk].
Qed.

Lemma last_shape_spec : forall e r args, last_shape e r args = true ->
  iparams e = args ++ [APos r] /\ forallb known_arg args = true.
Proof.
  intros e r args H. unfold last_shape in H.
  destruct (split_last (iparams e)) as [[init [p|p|p|p]]|] eqn:E; try discriminate.
  apply andb_true_iff in H. destruct H as [Hr Ha].
  apply String.eqb_eq in Hr. apply iargs_eqb_eq in Ha. destruct Ha as [Ha Hk].
  subst. split; [apply split_last_app; exact E | exact Hk].
Qed.

(* ---------- the decided facts ---------- *)
Theorem forwarders_ok : forallb entry_ok interface = true.
Proof. vm_compute. reflexivity. Qed.

Lemma entry_ok_In : forall e, In e interface -> entry_ok e = true.
Proof. intros e He. exact (proj1 (forallb_forall entry_ok interface) forwarders_ok e He). Qed.

(* Every public function outside the two allow-lists has the body
   `return r.<own name>(args)` where r is the first parameter and args are exactly the
   remaining parameters in order, each forwarded in its own style (p, *p, **p); for the
   names in receiver_not_first, r is the last parameter and args are the others. *)
Theorem forwarders : forall e, In e interface ->
  ~ In (iname e) dispatch_names -> ~ In (iname e) try_forward_names ->
  exists r args,
    ikind_of e = IForward (iname e) r args /\
    forallb known_arg args = true /\
    (~ In (iname e) receiver_not_first -> iparams e = APos r :: args) /\
    (In (iname e) receiver_not_first -> iparams e = args ++ [APos r]).
Proof.
  intros e He Hd Ht. pose proof (entry_ok_In e He) as Hok. unfold entry_ok in Hok.
  rewrite (smem_not_In _ _ Hd), (smem_not_In _ _ Ht) in Hok. cbn in Hok.
  unfold plain_forwarder in Hok.
  destruct (ikind_of e) as [m r args|m r args fb|b|t]; try discriminate.
  apply andb_true_iff in Hok. destruct Hok as [Hm Hs].
  apply String.eqb_eq in Hm. subst m. exists r, args. split; [reflexivity|].
  destruct (smem (iname e) receiver_not_first) eqn:E.
  - apply last_shape_spec in Hs. destruct Hs as [Hp Hk]. split; [exact Hk|]. split.
    + intros Hn. apply smem_In in E. contradiction.
    + intros _. exact Hp.
  - apply first_shape_spec in Hs. destruct Hs as [Hp Hk]. split; [exact Hk|]. split.
    + intros _. exact Hp.
    + intros Hin. apply smem_In in Hin. rewrite Hin in E. discriminate.
Qed.

Theorem try_forwarders : forall e, In e interface -> In (iname e) try_forward_names ->
  exists r args,
    ikind_of e = ITryForward (iname e) r args (iname e) /\
    forallb known_arg args = true /\
    iparams e = APos r :: args.
Proof.
  intros e He Ht. pose proof (entry_ok_In e He) as Hok. unfold entry_ok in Hok.
  apply smem_In in Ht. rewrite Ht in Hok.
  apply andb_true_iff in Hok. destruct Hok as [Hok _].
  apply andb_true_iff in Hok. destruct Hok as [_ Hok]. cbn in Hok.
  unfold try_forwarder in Hok.
  destruct (ikind_of e) as [m r args|m r args fb|b|t]; try discriminate.
  apply andb_true_iff in Hok. destruct Hok as [Hok Hs].
  apply andb_true_iff in Hok. destruct Hok as [Hm Hfb].
  apply String.eqb_eq in Hm. apply String.eqb_eq in Hfb. subst m fb.
  apply first_shape_spec in Hs. destruct Hs as [Hp Hk].
  exists r, args. split; [reflexivity|]. split; [exact Hk | exact Hp].
Qed.

Theorem dispatchers : forall e, In e interface -> In (iname e) dispatch_names ->
  exists body, ikind_of e = IDispatch body.
Proof.
  intros e He Hd. pose proof (entry_ok_In e He) as Hok. unfold entry_ok in Hok.
  apply smem_In in Hd. rewrite Hd in Hok.
  apply andb_true_iff in Hok. destruct Hok as [Hok _].
  apply andb_true_iff in Hok. destruct Hok as [Hok _]. cbn in Hok.
  unfold is_dispatch in Hok.
  destruct (ikind_of e) as [m r args|m r args fb|b|t]; try discriminate.
  exists b. reflexivity.
Qed.

(* ---------- the name list, registrations, allow-lists ---------- *)
Theorem expected_names : map iname interface =
  ["conj"; "max"; "min"; "sum"; "all"; "any"; "isfinite";
   "abs"; "sqrt"; "log"; "log2"; "log10";
   "clip"; "squeeze"; "expand_dims"; "reshape"; "tensordot"; "einsum"; "transpose"; "trace";
   "multiply_diagonal"; "align_axes"; "fuse"].
Proof. vm_compute. reflexivity. Qed.

Theorem names_nodup : NoDup (map iname interface).
Proof.
  assert (H : nodup string_dec (map iname interface) = map iname interface)
    by (vm_compute; reflexivity).
  rewrite <- H. apply NoDup_nodup.
Qed.

(* the parameters that have a default value, per function *)
Theorem expected_defaults :
  filter (fun p => negb (Nat.eqb (List.length (snd p)) 0))
         (map (fun e => (iname e, idefaults e)) interface) =
  [("squeeze", [("axis", "None")]); ("tensordot", [("axes", "2")]);
   ("transpose", [("axes", "None")])].
Proof. vm_compute. reflexivity. Qed.

Definition registration_ok (r : string * string * string) : bool :=
  let '(lib, n, f) := r in
  String.eqb lib "symmray" && String.eqb n f && smem n (map iname interface).

Theorem registrations_ok_b :
  forallb registration_ok registrations = true /\ other_toplevel = [].
Proof. split; vm_compute; reflexivity. Qed.

Theorem registrations_ok :
  (forall lib n f, In (lib, n, f) registrations ->
     lib = "symmray" /\ f = n /\ In n (map iname interface)) /\
  map (fun r => snd (fst r)) registrations = ["multiply_diagonal"; "align_axes"; "fuse"] /\
  other_toplevel = [].
Proof.
  split; [|split; [vm_compute; reflexivity | exact (proj2 registrations_ok_b)]].
  intros lib n f Hin.
  pose proof (proj1 (forallb_forall registration_ok registrations)
                (proj1 registrations_ok_b) (lib, n, f) Hin) as H.
  unfold registration_ok in H.
  apply andb_true_iff in H. destruct H as [H Hmem].
  apply andb_true_iff in H. destruct H as [Hlib Hnf].
  apply String.eqb_eq in Hlib. apply String.eqb_eq in Hnf. apply smem_In in Hmem.
  subst. repeat split; assumption.
Qed.

Theorem allow_lists_present :
  forall n, In n (dispatch_names ++ try_forward_names ++ receiver_not_first) ->
  In n (map iname interface).
Proof.
  assert (H : forallb (fun n => smem n (map iname interface))
                (dispatch_names ++ try_forward_names ++ receiver_not_first) = true)
    by (vm_compute; reflexivity).
  intros n Hn. apply smem_In.
  exact (proj1 (forallb_forall _ _) H n Hn).
Qed.

(* ---------- the predicates are not vacuous ---------- *)
(* squeeze that drops its axis argument *)
Example squeeze_dropping_axis_rejected :
  plain_forwarder {| iname := "squeeze"; iparams := [APos "x"; APos "axis"];
                     idefaults := [("axis", "None")];
                     ikind_of := IForward "squeeze" "x" [] |} = false.
Proof. reflexivity. Qed.

(* transpose implemented as a.T *)
Example transpose_as_T_rejected :
  plain_forwarder {| iname := "transpose"; iparams := [APos "a"; APos "axes"; AKwargs "kwargs"];
                     idefaults := [("axes", "None")];
                     ikind_of := IOther "return a.T" |} = false.
Proof. reflexivity. Qed.

(* forwarding to a different method *)
Example flip_as_conj_rejected :
  plain_forwarder {| iname := "flip"; iparams := [APos "x"]; idefaults := [];
                     ikind_of := IForward "conj" "x" [] |} = false.
Proof. reflexivity. Qed.

(* *args forwarded as a single tuple *)
Example fuse_unstarred_rejected :
  plain_forwarder {| iname := "fuse"; iparams := [APos "x"; AStar "axes_groups"]; idefaults := [];
                     ikind_of := IForward "fuse" "x" [APos "axes_groups"] |} = false.
Proof. reflexivity. Qed.

(* swapped arguments *)
Example clip_swapped_rejected :
  plain_forwarder {| iname := "clip"; iparams := [APos "x"; APos "a_min"; APos "a_max"];
                     idefaults := [];
                     ikind_of := IForward "clip" "x" [APos "a_max"; APos "a_min"] |} = false.
Proof. reflexivity. Qed.

(* the real shapes are accepted *)
Example squeeze_accepted :
  plain_forwarder {| iname := "squeeze"; iparams := [APos "x"; APos "axis"];
                     idefaults := [("axis", "None")];
                     ikind_of := IForward "squeeze" "x" [APos "axis"] |} = true.
Proof. reflexivity. Qed.

Example einsum_accepted :
  plain_forwarder {| iname := "einsum"; iparams := [APos "eq"; APos "x"]; idefaults := [];
                     ikind_of := IForward "einsum" "x" [APos "eq"] |} = true.
Proof. reflexivity. Qed.

(* try-forwarder whose fallback names a different autoray function *)
Example sqrt_wrong_fallback_rejected :
  try_forwarder {| iname := "sqrt"; iparams := [APos "x"]; idefaults := [];
                   ikind_of := ITryForward "sqrt" "x" [] "abs" |} = false.
Proof. reflexivity. Qed.
