(* Proofs/HeapOpsProofs.v — C14: every operation script passes the ownership
   analysis; consequences for single calls and programs. *)
From SV Require Import Base.Prelude Model.Heap Model.HeapOps Proofs.HeapProofs.
From Coq Require Import Arith PeanoNat Lia.
Open Scope nat_scope.

Section OpsOk.
  Context {K : Type} (keqb : K -> K -> bool) (k0 : K).
  Notation params := (@params K). Notation st := (@st K).

  (* the analysis accepts every script, in every flag combination, with the
     declared receivers; returned locals are owned objects *)
  Lemma safe_op_ok (P : params) (o : op) :
    match safe (script P o) (init_aenv (nargs o) (recv o)) with
    | Some a => forallb (fun v => o_isw (go a v)) (rets o) && forallb (fun v => Nat.ltb v (nargs o)) (recv o)
    | None => false
    end = true.
  Proof.
    destruct o; repeat match goal with b : bool |- _ => destruct b end;
      try match goal with m : missing |- _ => destruct m end; vm_compute; reflexivity.
  Qed.

  Lemma safe_op_some (P : params) (o : op) :
    exists a, safe (script P o) (init_aenv (nargs o) (recv o)) = Some a.
  Proof.
    pose proof (safe_op_ok P o) as H.
    destruct (safe (script P o) (init_aenv (nargs o) (recv o))) as [a|]; [eauto|discriminate].
  Qed.

  Theorem all_ops_ok (P : params) (o : op) (args dsts : list nat) :
    length args = nargs o -> instr_ok (instr_of P o args dsts) = true.
  Proof.
    intros Hl. unfold instr_ok, instr_of. cbn [iscript iargs irecv irets]. rewrite Hl.
    pose proof (safe_op_ok P o) as H.
    destruct (safe (script P o) (init_aenv (nargs o) (recv o))) as [a|]; [|discriminate].
    apply andb_true_iff in H as [H1 H2]. apply andb_true_iff. split; auto.
    rewrite forallb_forall in *. intros [v r] Hin. apply in_map_iff in Hin as (j & [= <- <-] & Hj).
    apply in_seq in Hj. cbn [fst]. apply H1. apply nth_In. lia.
  Qed.

  (* op_frame for every operation called without an in-place flag *)
  Theorem op_frame_all (P : params) (o : op) (s : st) :
    recv o = [] -> Own (sh s) ->
    let h := sh s in let h' := sh (exec keqb (script P o) s) in
    Own h' /\
    (forall d, d < length (hd h) -> dict_at h' d = dict_at h d) /\
    (forall b, b < length (hb h) -> buf_at h' b = buf_at h b) /\
    (forall x, x < length (ho h) -> obj_at h' x = obj_at h x /\ shape h' x = shape h x /\
                                    (bufs_valid h x -> obs h' x = obs h x)).
  Proof.
    intros Hr Hown. destruct (safe_op_some P o) as [a Ha]. rewrite Hr in Ha.
    exact (op_frame keqb (script P o) s (nargs o) a Ha Hown).
  Qed.

  (* in-place calls and documented in-place methods: only the receivers change *)
  Theorem inplace_frame_all (P : params) (o : op) (s : st) :
    Own (sh s) -> (forall v, In v (recv o) -> ov s v < length (ho (sh s))) ->
    let h := sh s in let h' := sh (exec keqb (script P o) s) in
    Own h' /\
    (forall b, b < length (hb h) -> buf_at h' b = buf_at h b) /\
    (forall x, x < length (ho h) -> ~ In x (map (ov s) (recv o)) ->
        obj_at h' x = obj_at h x /\ shape h' x = shape h x /\ (bufs_valid h x -> obs h' x = obs h x)).
  Proof.
    intros Hown Hv. destruct (safe_op_some P o) as [a Ha].
    exact (inplace_frame keqb (script P o) s (nargs o) (recv o) a Ha Hown Hv).
  Qed.

  (* programs over the public operations *)
  Definition call := (params * op * list nat * list nat)%type.
  Definition instr_of_call (c : call) : @instr K :=
    match c with (P, o, args, dsts) => instr_of P o args dsts end.
  Definition call_wf (c : call) : Prop :=
    match c with (_, o, args, _) => length args = nargs o end.

  Theorem programs_frame_ops (prog : list call) (p : @pstate K) (x : nat) :
    Forall call_wf prog -> Own (ph p) -> regs_ok p -> x < length (ho (ph p)) ->
    untouched keqb k0 x (map instr_of_call prog) p ->
    let p' := run keqb k0 (map instr_of_call prog) p in
    Own (ph p') /\
    obj_at (ph p') x = obj_at (ph p) x /\
    shape (ph p') x = shape (ph p) x /\
    (forall b, b < length (hb (ph p)) -> buf_at (ph p') b = buf_at (ph p) b) /\
    (bufs_valid (ph p) x -> obs (ph p') x = obs (ph p) x).
  Proof.
    intros Hwf. apply programs_frame.
    induction Hwf as [|[[[P o] args] dsts] l Hc Hl IH]; cbn [map forallb]; auto.
    rewrite IH. rewrite andb_true_r. apply all_ops_ok. exact Hc.
  Qed.

  (* ------------------------------------------------------------ in place = out of place *)
  (* copy() gives a new object with new dicts and the same observable state *)
  Lemma copy_obs (s : st) (dst src : nat) :
    oblocks (obj_at (sh s) (ov s src)) < length (hd (sh s)) ->
    ophases (obj_at (sh s) (ov s src)) < length (hd (sh s)) ->
    let s' := exec keqb (B_copy dst src) s in
    ov s' dst = length (ho (sh s)) /\
    obj_at (sh s') (ov s' dst) = mkO (length (hd (sh s))) (S (length (hd (sh s)))) /\
    obs (sh s') (ov s' dst) = obs (sh s) (ov s src).
  Proof.
    destruct s as [[hd0 hb0 ho0] dv0 ov0 bv0 kv0]. cbn [sh hd ov]. intros Hb Hp.
    cbn -[nth]. unfold upd; cbn -[nth]. rewrite Nat.eqb_refl.
    unfold obs, push_dict, obj_at, dict_at, buf_at in *; cbn [hd hb ho] in *.
    set (ob := nth (ov0 src) ho0 obj0) in *.
    assert (El : forall x, length (hd0 ++ [x]) = S (length hd0)) by (intros; rewrite app_length; cbn; lia).
    rewrite El. rewrite nth_app_last. cbn [oblocks ophases].
    split; [reflexivity|]. split; [reflexivity|].
    rewrite (nth_app_l (length hd0)) by (rewrite El; lia). rewrite nth_app_last.
    rewrite <- (El (nth (oblocks ob) hd0 [])) at 1. rewrite nth_app_last.
    rewrite (nth_app_l (ophases ob)) by auto. reflexivity.
  Qed.

  (* every operation offering the flag, except the three that rebind instead
     of copying, is literally `new = self if inplace else self.copy()` followed
     by one body that works on `new` only *)
  Definition copy_shaped (o : op) : bool :=
    match o with
    | OFuse _ false true _ | OUnfuse _ false | ODropMisaligned _ => false
    | _ => match with_flag o true with Some _ => true | None => false end
    end.

  Theorem inplace_shape (P : params) (o : op) :
    copy_shaped o = true ->
    exists body, forall ip o', with_flag o ip = Some o' -> script P o' = Seq (B_new ip) body.
  Proof.
    destruct o; cbn [copy_shaped with_flag]; try discriminate;
      repeat match goal with b : bool |- _ => destruct b end; try discriminate;
      intros _; eexists; intros ip o' [= <-]; cbn [script]; unfold nw; reflexivity.
  Qed.
End OpsOk.

(* ------------------------------------------------------------------ examples *)
(* A store with a fermionic array (object 0: two blocks, one pending sign) and
   a view of it (object 1 shares buffer 0 with object 0).  The hypotheses of
   the theorems hold for it, and a three-call program (out-of-place transpose,
   in-place phase_sync of the result, in-place `+=` of the view) leaves object
   0 exactly as it was although the results share its buffers. *)
Module Example.
  Definition Pex : @params nat :=
    mkPar (fun k => k + 10) (fun k => k) (fun k => k) (fun k => [k]) (fun k => [k]) [] [] []
        (Nat.eqb 2) (fun _ => true) (fun _ => true).
  Definition h_ex : heap nat :=
    mkH [ [(1, 0); (2, 1)]; [(1, 1)]; [(1, 0)]; [] ] [7; 8] [mkO 0 1; mkO 2 3].
  Definition p_ex : @pstate nat := mkP h_ex [0; 1; 0].

  Example own_ex : Own h_ex.
  Proof.
    split.
    - intros o1 f1 o2 f2 L1 L2. cbn in L1, L2.
      destruct o1 as [|[|o1]]; destruct o2 as [|[|o2]]; try lia; destruct f1, f2; cbn; intros E; try discriminate; auto.
    - intros o f L. cbn in L. destruct o as [|[|o]]; try lia; destruct f; cbn; lia.
  Qed.

  Example regs_ex : regs_ok p_ex.
  Proof. unfold regs_ok; cbn. repeat constructor. Qed.

  Example bufs_ex : bufs_valid h_ex 0.
  Proof. intros k b; cbn. intros [[= _ <-]|[[= _ <-]|[]]]; lia. Qed.

  Definition prog_ex : list (@call nat) :=
    [ (Pex, OFTranspose false true, [0], [2]);        (* r2 = r0.transpose()           *)
      (Pex, OPhaseSync true, [2], [2]);               (* r2.phase_sync(inplace=True)   *)
      (Pex, OBinary true MOuter false false, [1; 2], [1]) ].  (* r1 += r2                  *)

  Example wf_ex : Forall call_wf prog_ex.
  Proof. repeat constructor. Qed.

  Example untouched_ex : untouched Nat.eqb 0 0 (map instr_of_call prog_ex) p_ex.
  Proof. vm_compute. repeat split; intros H; repeat (destruct H as [H|H]; [discriminate H|]); exact H. Qed.

  (* the transposed result is a view: it holds buffer 0 and 1 of object 0 *)
  Example result_shares_buffers :
    let p1 := step Nat.eqb 0 (instr_of_call (Pex, OFTranspose false true, [0], [2])) p_ex in
    shape (ph p1) (nth 2 (regs p1) 0) = ([(11, 0); (12, 1)], [(12, 1)]).
  Proof. vm_compute. reflexivity. Qed.

  Example operand_unchanged :
    obs (ph (run Nat.eqb 0 (map instr_of_call prog_ex) p_ex)) 0 = obs h_ex 0.
  Proof.
    apply (programs_frame_ops Nat.eqb 0 prog_ex p_ex 0 wf_ex own_ex regs_ex).
    - cbn; lia.
    - exact untouched_ex.
    - exact bufs_ex.
  Qed.

  (* ... while the in-place receivers did change *)
  Example receiver_changed :
    obs (ph (run Nat.eqb 0 (map instr_of_call prog_ex) p_ex)) 1 <> obs h_ex 1.
  Proof. vm_compute. discriminate. Qed.
End Example.
