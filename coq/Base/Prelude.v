(* Base/Prelude.v — list / Python-dict utilities shared by the generated and the
   hand-written model.  Definitions only + the small lemmas every file needs. *)
From Coq Require Export List ZArith Bool Lia.
Export ListNotations.
Open Scope Z_scope.

Definition pair_eqb {A B} (ea : A -> A -> bool) (eb : B -> B -> bool) (x y : A * B) : bool :=
  ea (fst x) (fst y) && eb (snd x) (snd y).

Fixpoint list_eqb {A} (e : A -> A -> bool) (l1 l2 : list A) : bool :=
  match l1, l2 with
  | [], [] => true
  | x :: l1', y :: l2' => e x y && list_eqb e l1' l2'
  | _, _ => false
  end.

Fixpoint mem {A} (e : A -> A -> bool) (x : A) (l : list A) : bool :=
  match l with
  | [] => false
  | y :: l' => e x y || mem e x l'
  end.

Definition zsum (l : list Z) : Z := fold_right Z.add 0 l.

Definition is_nil {A} (l : list A) : bool := match l with [] => true | _ => false end.
Definition is_none {A} (o : option A) : bool := match o with None => true | _ => false end.

(* Python `l[i]` for 0 <= i < len l (the translated code never indexes outside). *)
Definition nthZ (l : list Z) (i : Z) : Z := nth (Z.to_nat i) l 0.

(* Python `range(n)` *)
Definition zrange (n : Z) : list Z := map Z.of_nat (seq 0 (Z.to_nat n)).

(* indices (first 50) of the `false` entries: used by the cases.v correspondence *)
Fixpoint bad_from (i : Z) (l : list bool) : list Z :=
  match l with
  | [] => []
  | b :: l' => if b then bad_from (i + 1) l' else i :: bad_from (i + 1) l'
  end.
Definition bad_indices (l : list bool) : list Z := firstn 50 (bad_from 0 l).

Definition xorb_list (l : list bool) : bool := fold_right xorb false l.

(* ------------------------------------------------------------------ *)
(* Python dict = insertion-ordered association list without duplicate keys *)
Section Dict.
  Context {K V : Type} (keqb : K -> K -> bool).

  Fixpoint lookup (k : K) (d : list (K * V)) : option V :=
    match d with
    | [] => None
    | (k', v) :: d' => if keqb k k' then Some v else lookup k d'
    end.

  (* d[k] = v : replace in place if present, else append at the end *)
  Fixpoint dset (k : K) (v : V) (d : list (K * V)) : list (K * V) :=
    match d with
    | [] => [(k, v)]
    | (k', v') :: d' => if keqb k k' then (k', v) :: d' else (k', v') :: dset k v d'
    end.

  Fixpoint dpop (k : K) (d : list (K * V)) : list (K * V) :=
    match d with
    | [] => []
    | (k', v') :: d' => if keqb k k' then d' else (k', v') :: dpop k d'
    end.

  Definition dhas (k : K) (d : list (K * V)) : bool :=
    match lookup k d with Some _ => true | None => false end.

  Definition keys (d : list (K * V)) : list K := map fst d.
End Dict.

(* insertion sort by a strict "less-than" (stable); Python `sorted` on distinct keys *)
Section Sort.
  Context {A : Type} (ltb : A -> A -> bool).
  Fixpoint insert_sorted (x : A) (l : list A) : list A :=
    match l with
    | [] => [x]
    | y :: l' => if ltb y x then y :: insert_sorted x l' else x :: l
    end.
  Definition isort (l : list A) : list A := fold_right insert_sorted [] l.
End Sort.

Lemma zsum_app l1 l2 : zsum (l1 ++ l2) = zsum l1 + zsum l2.
Proof. induction l1 as [|x l1 IH]; cbn [zsum app fold_right] in *; [reflexivity | fold (zsum (l1 ++ l2)); fold (zsum l1); lia]. Qed.

Lemma zsum_cons x l : zsum (x :: l) = x + zsum l.
Proof. reflexivity. Qed.
