(* Base/PyList.v — Python list / dict / builtin semantics used by the generated
   definitions of tr/gen_helpers.py (Gen/Helpers.v).  Definitions only.
   Every function is total; where Python would raise (index out of range,
   KeyError, min of an empty sequence) the stated default is returned — the
   equivalence theorems are stated on inputs where Python does not raise. *)
From SV Require Import Base.Prelude.
Local Open Scope Z_scope.

(* l[i], negative i counts from the end (IndexError -> d) *)
Definition py_nth {A} (d : A) (l : list A) (i : Z) : A :=
  if i <? 0
  then (if Z.of_nat (length l) + i <? 0 then d else nth (Z.to_nat (Z.of_nat (length l) + i)) l d)
  else nth (Z.to_nat i) l d.

(* slice bound normalisation of CPython (step 1): negative counts from the end, then clamp *)
Definition py_clamp (len i : Z) : Z :=
  if i <? 0 then Z.max 0 (len + i) else Z.min i len.

(* l[lo:hi] with absent bounds as None *)
Definition py_slice {A} (l : list A) (lo hi : option Z) : list A :=
  let len := Z.of_nat (length l) in
  let a := match lo with Some i => py_clamp len i | None => 0 end in
  let b := match hi with Some i => py_clamp len i | None => len end in
  firstn (Z.to_nat (b - a)) (skipn (Z.to_nat a) l).

(* enumerate(l) *)
Fixpoint py_enum_from {A} (k : Z) (l : list A) : list (Z * A) :=
  match l with
  | [] => []
  | x :: r => (k, x) :: py_enum_from (k + 1) r
  end.
Definition py_enumerate {A} (l : list A) : list (Z * A) := py_enum_from 0 l.

(* range(a, b) *)
Definition zrange2 (a b : Z) : list Z := map (fun i => a + i) (zrange (b - a)).

(* min(l)  (ValueError on [] -> 0) *)
Definition py_min (l : list Z) : Z :=
  match l with [] => 0 | x :: r => fold_left Z.min r x end.
Definition py_max (l : list Z) : Z :=
  match l with [] => 0 | x :: r => fold_left Z.max r x end.

Section PyDict.
  Context {K V : Type} (keqb : K -> K -> bool).
  (* d[k]  (KeyError -> dv) *)
  Definition dget (dv : V) (d : list (K * V)) (k : K) : V :=
    match lookup keqb k d with Some v => v | None => dv end.
  (* d.setdefault(k, v) as a statement *)
  Definition dsetdefault (k : K) (v : V) (d : list (K * V)) : list (K * V) :=
    if dhas keqb k d then d else dset keqb k v d.
End PyDict.
