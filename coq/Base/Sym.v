(* Base/Sym.v — abstract abelian symmetry with parity, and its laws. *)
From SV Require Import Base.Prelude.
From Coq Require Import Permutation.
Local Open Scope Z_scope.

Record Symmetry := {
  C : Type;
  ceqb : C -> C -> bool;
  cltb : C -> C -> bool;                 (* Python's `<` on charge labels (ints / tuples) *)
  valid_all : list C -> bool;            (* Python: valid( *charges ) *)
  combine : list C -> C;                 (* Python: combine( *charges ) *)
  sign : C -> bool -> C;                 (* Python: sign(charge, dual) *)
  parityZ : C -> Z                       (* Python: parity(charge) in {0,1} *)
}.

Definition valid (G : Symmetry) (c : C G) : bool := valid_all G [c].
Definition parity (G : Symmetry) (c : C G) : bool := negb (Z.eqb (parityZ G c) 0).
Definition ident (G : Symmetry) : C G := combine G [].

(* The group laws in the n-ary form the code uses. *)
Record GroupLaws (G : Symmetry) : Prop := {
  ceqb_eq : forall a b, ceqb G a b = true <-> a = b;
  valid_all_forall : forall l, valid_all G l = true <-> Forall (fun c => valid G c = true) l;
  combine_valid : forall l, valid_all G l = true -> valid G (combine G l) = true;
  (* associativity, n-ary: flattening nested combinations *)
  combine_app : forall l1 l2, valid_all G l1 = true -> valid_all G l2 = true ->
      combine G (l1 ++ l2) = combine G [combine G l1; combine G l2];
  (* commutativity: any reordering *)
  combine_perm : forall l1 l2, Permutation l1 l2 -> combine G l1 = combine G l2;
  (* the empty combination is the identity *)
  combine_ident : forall c, valid G c = true -> combine G [c; ident G] = c;
  combine_single : forall c, valid G c = true -> combine G [c] = c;
  sign_false : forall c, sign G c false = c;
  sign_valid : forall c d, valid G c = true -> valid G (sign G c d) = true;
  sign_inverse : forall c, valid G c = true -> combine G [c; sign G c true] = ident G;
  parity_01 : forall c, valid G c = true -> parityZ G c = 0 \/ parityZ G c = 1;
  (* parity maps combination to addition modulo two *)
  parity_combine : forall l, valid_all G l = true ->
      parity G (combine G l) = xorb_list (map (parity G) l)
}.

(* lexicographic order on pairs of ints = Python tuple comparison *)
Definition pair_ltb (x y : Z * Z) : bool :=
  Z.ltb (fst x) (fst y) || (Z.eqb (fst x) (fst y) && Z.ltb (snd x) (snd y)).
