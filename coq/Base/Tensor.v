(* Base/Tensor.v — dense tensors {shape; row-major data} over an arbitrary ring
   with conjugation, and the numpy primitives symmray delegates to.  These
   definitions ARE the assumed semantics of the numpy kernels (validated
   primitive by primitive against numpy in the correspondence runs). *)
From SV Require Import Base.Prelude.
Local Open Scope nat_scope.

Record Ring := {
  RT : Type;
  r0 : RT; r1 : RT;
  radd : RT -> RT -> RT;
  rmul : RT -> RT -> RT;
  rneg : RT -> RT;
  rconj : RT -> RT;
  reqb : RT -> RT -> bool
}.

(* the two exact instances used by the correspondence: Z and Gaussian integers *)
Definition ZRing : Ring := {| RT := Z; r0 := 0%Z; r1 := 1%Z; radd := Z.add; rmul := Z.mul;
  rneg := Z.opp; rconj := fun x => x; reqb := Z.eqb |}.
Definition GRing : Ring := {| RT := Z * Z; r0 := (0, 0)%Z; r1 := (1, 0)%Z;
  radd := fun a b => (fst a + fst b, snd a + snd b)%Z;
  rmul := fun a b => (fst a * fst b - snd a * snd b, fst a * snd b + snd a * fst b)%Z;
  rneg := fun a => (- fst a, - snd a)%Z;
  rconj := fun a => (fst a, - snd a)%Z;
  reqb := pair_eqb Z.eqb Z.eqb |}.

Definition shape_size (sh : list nat) : nat := fold_right Nat.mul 1 sh.

(* row-major (C order) linear offset of a multi-index *)
Fixpoint offset (sh idx : list nat) : nat :=
  match sh, idx with
  | _ :: sh', i :: idx' => i * shape_size sh' + offset sh' idx'
  | _, _ => 0
  end.

Fixpoint inb (sh idx : list nat) : bool :=
  match sh, idx with
  | [], [] => true
  | d :: sh', i :: idx' => Nat.ltb i d && inb sh' idx'
  | _, _ => false
  end.

(* all multi-indices of a shape, in row-major order *)
Fixpoint all_idx (sh : list nat) : list (list nat) :=
  match sh with
  | [] => [[]]
  | d :: sh' => flat_map (fun i => map (cons i) (all_idx sh')) (seq 0 d)
  end.

Section Tensor.
  Context (R : Ring).
  Notation T := (RT R).

  Record tensor := mkT { tshape : list nat; tdata : list T }.

  Definition get (t : tensor) (idx : list nat) : T := nth (offset (tshape t) idx) (tdata t) (r0 R).
  Definition build (sh : list nat) (f : list nat -> T) : tensor := mkT sh (map f (all_idx sh)).

  Definition rsum (l : list T) : T := fold_right (radd R) (r0 R) l.

  Definition tensor_eqb (a b : tensor) : bool :=
    list_eqb Nat.eqb (tshape a) (tshape b) && list_eqb (reqb R) (tdata a) (tdata b).

  (* ---- numpy primitives ---- *)
  Definition tzeros (sh : list nat) : tensor := build sh (fun _ => r0 R).
  Definition tmap (f : T -> T) (t : tensor) : tensor := mkT (tshape t) (map f (tdata t)).
  Definition tconj := tmap (rconj R).
  Definition tneg := tmap (rneg R).
  Definition tscale (s : T) := tmap (fun x => rmul R x s).
  Definition tadd (a b : tensor) : tensor := build (tshape a) (fun idx => radd R (get a idx) (get b idx)).
  Definition tmul (a b : tensor) : tensor := build (tshape a) (fun idx => rmul R (get a idx) (get b idx)).

  (* numpy.reshape of a C-contiguous array: same data, new shape *)
  Definition treshape (t : tensor) (sh : list nat) : tensor := mkT sh (tdata t).

  Definition permuted {A} (d : A) (l : list A) (perm : list nat) : list A := map (fun p => nth p l d) perm.

  (* position of axis j in perm *)
  Fixpoint index_of (j : nat) (perm : list nat) : nat :=
    match perm with
    | [] => 0
    | p :: perm' => if Nat.eqb p j then 0 else S (index_of j perm')
    end.

  (* numpy.transpose(t, perm): out[i_0..i_{n-1}] = t[j] with j[perm[k]] = i_k *)
  Definition unpermute (perm idx' : list nat) : list nat :=
    map (fun j => nth (index_of j perm) idx' 0) (seq 0 (length perm)).
  Definition ttranspose (t : tensor) (perm : list nat) : tensor :=
    build (permuted 0 (tshape t) perm) (fun idx' => get t (unpermute perm idx')).

  (* elements of l at positions `axes` / not at positions `axes` *)
  Definition take_axes {A} (d : A) (l : list A) (axes : list nat) : list A := map (fun a => nth a l d) axes.
  Definition without_axes {A} (l : list A) (axes : list nat) : list A :=
    map snd (filter (fun p => negb (mem Nat.eqb (fst p) axes)) (List.combine (seq 0 (length l)) l)).

  (* scatter: build a full multi-index of rank n from values at positions `axes` and
     the remaining values (in order) elsewhere *)
  Fixpoint scatter_go (n pos : nat) (axes : list nat) (at_axes rest : list nat) : list nat :=
    match n with
    | O => []
    | S n' =>
        if mem Nat.eqb pos axes
        then nth (index_of pos axes) at_axes 0 :: scatter_go n' (S pos) axes at_axes rest
        else match rest with
             | r :: rest' => r :: scatter_go n' (S pos) axes at_axes rest'
             | [] => 0 :: scatter_go n' (S pos) axes at_axes []
             end
    end.
  Definition scatter (n : nat) (axes at_axes rest : list nat) : list nat := scatter_go n 0 axes at_axes rest.

  (* numpy.tensordot(a, b, axes=(axes_a, axes_b)) *)
  Definition ttensordot (a b : tensor) (axes_a axes_b : list nat) : tensor :=
    let sha := tshape a in let shb := tshape b in
    let left := without_axes sha axes_a in
    let right := without_axes shb axes_b in
    let con := take_axes 0 sha axes_a in
    let na := length sha in let nb := length shb in
    let nl := length left in
    build (left ++ right) (fun idx =>
      let il := firstn nl idx in let ir := skipn nl idx in
      rsum (map (fun k => rmul R (get a (scatter na axes_a k il)) (get b (scatter nb axes_b k ir)))
                (all_idx con))).

  (* numpy.concatenate(ts, axis) *)
  Fixpoint locate (sizes : list nat) (i : nat) : nat * nat :=   (* which part, offset inside *)
    match sizes with
    | [] => (0, i)
    | s :: sizes' => if Nat.ltb i s then (0, i) else let '(k, o) := locate sizes' (i - s) in (S k, o)
    end.
  Definition set_nth {A} (l : list A) (n : nat) (x : A) : list A := firstn n l ++ x :: skipn (S n) l.
  Definition tconcat (ts : list tensor) (axis : nat) : tensor :=
    match ts with
    | [] => mkT [] []
    | t0 :: _ =>
        let sizes := map (fun t => nth axis (tshape t) 0) ts in
        let sh := set_nth (tshape t0) axis (fold_right Nat.add 0 sizes) in
        build sh (fun idx =>
          let '(k, o) := locate sizes (nth axis idx 0) in
          get (nth k ts t0) (set_nth idx axis o))
    end.

  (* t[..., start:start+len, ...] along `axis` *)
  Definition tslice (t : tensor) (axis start len : nat) : tensor :=
    build (set_nth (tshape t) axis len) (fun idx => get t (set_nth idx axis (nth axis idx 0 + start))).

  (* t[sel] = src, sel = one (start, len) range per axis, src of shape lens *)
  Definition in_range (sel : list (nat * nat)) (idx : list nat) : bool :=
    forallb (fun p => Nat.leb (fst (fst p)) (snd p) && Nat.ltb (snd p) (fst (fst p) + snd (fst p)))
            (List.combine sel idx).
  Definition tassign (t : tensor) (sel : list (nat * nat)) (src : tensor) : tensor :=
    build (tshape t) (fun idx =>
      if in_range sel idx then get src (map (fun p => snd p - fst (fst p)) (List.combine sel idx))
      else get t idx).

  (* t[..., 0, ...] : drop a size-one axis; t[..., None, ...] : insert one *)
  Definition remove_nth {A} (l : list A) (n : nat) : list A := firstn n l ++ skipn (S n) l.
  Definition insert_nth {A} (l : list A) (n : nat) (x : A) : list A := firstn n l ++ x :: skipn n l.

  Definition ttrace (t : tensor) : T :=
    rsum (map (fun i => get t [i; i]) (seq 0 (Nat.min (nth 0 (tshape t) 0) (nth 1 (tshape t) 0)))).
  Definition tsum (t : tensor) : T := rsum (tdata t).
  Definition tnorm2 (t : tensor) : T := rsum (map (fun x => rmul R x (rconj R x)) (tdata t)).
End Tensor.

Arguments mkT {R}. Arguments tshape {R}. Arguments tdata {R}.
Arguments permuted {A}. Arguments take_axes {A}. Arguments without_axes {A}.
Arguments set_nth {A}. Arguments remove_nth {A}. Arguments insert_nth {A}.
