(* Model/Trunc.v — C13: the selection logic of symmray.linalg.svd_truncated and
   calc_sub_max_bonds over exact values.  Definitions only.

   Singular values are non-negative integers (the harness makes Python see
   exactly these values, possibly scaled by a power of two, so every float
   comparison / cumulative sum of the implementation is exact).  A cutoff is
   the rational p/q (q > 0); `x >= cutoff` is `q*x >= p`, and
   `cum >= cutoff*cum[-1]` is `q*cum >= p*total`.  A threshold is carried as
   its numerator `a` over the same q:  "s >= abs_cutoff"  is  `a <=? q*s`.

   A matrix is seen through its sectors  (c1, s_c1)  in the insertion order of
   `s.blocks` (= order of `U.sectors`): c1 the bond charge (coded as Z, order
   preserving), s_c1 the singular values of that block as LAPACK returns them. *)
From SV Require Import Base.Prelude.

Inductive cmode := MAbs | MRel | MSum2 | MRSum2 | MSum1 | MRSum1.

(* cutoff_mode 1..6 ; anything else: `{3:2,4:2,5:1,6:1}[cutoff_mode]` raises *)
Definition cmode_of_Z (m : Z) : option cmode :=
  if m =? 1 then Some MAbs else if m =? 2 then Some MRel else
  if m =? 3 then Some MSum2 else if m =? 4 then Some MRSum2 else
  if m =? 5 then Some MSum1 else if m =? 6 then Some MRSum1 else None.

Definition cumulative (m : cmode) : bool :=
  match m with MAbs | MRel => false | _ => true end.
Definition relative (m : cmode) : bool :=
  match m with MRel | MRSum2 | MRSum1 => true | _ => false end.
(* `sall**power` *)
Definition spow (m : cmode) (x : Z) : Z :=
  match m with MSum2 | MRSum2 => x * x | _ => x end.

(* ar.do("sort", sall): ascending *)
Fixpoint insert_asc (x : Z) (l : list Z) : list Z :=
  match l with
  | [] => [x]
  | y :: t => if x <=? y then x :: l else y :: insert_asc x t
  end.
Definition sort_asc (l : list Z) : list Z := fold_right insert_asc [] l.

(* Python `l[-n]` for 0 <= n <= len l.  NOTE `l[-0]` is `l[0]` (the code guards n = 0). *)
Definition py_neg_index (l : list Z) (n : nat) : Z :=
  match n with
  | O => nth 0 l 0
  | _ => nth (length l - n) l 0
  end.

(* cumsum *)
Fixpoint cumsum_from (acc : Z) (l : list Z) : list Z :=
  match l with
  | [] => []
  | x :: t => (acc + x) :: cumsum_from (acc + x) t
  end.

Definition count_true {A} (f : A -> bool) (l : list A) : nat := length (filter f l).

(* right-hand side of `cum_spow >= ...`, numerator over q *)
Definition cut_rhs (m : cmode) (p : Z) (cum : list Z) : Z :=
  if relative m then p * last cum 0 else p.

(* n_chi_all = count_nonzero(cond) *)
Definition n_chi_all (m : cmode) (p q : Z) (sall : list Z) : nat :=
  let cum := cumsum_from 0 (map (spow m) sall) in
  let rhs := cut_rhs m p cum in
  count_true (fun c => rhs <=? q * c) cum.

(* abs_cutoff (numerator over q) exactly as the code computes it.  When no
   cumulative sum reaches the cutoff (n_chi_all = 0: the cutoff exceeds the
   total weight) the code sets `abs_cutoff = float("inf")`; +inf is represented
   by the numerator q*(max+1), which is above q*s for every value s: it is left
   unchanged by the bond fold and passed by no value, exactly like +inf
   (TruncProofs.fold_bond_top, keep_count_top; any larger stand-in gives the
   same counts).  Before the fix d8706ac the code used `sall[-n_chi_all]`
   unguarded, i.e. `sall[-0] = sall[0]`, and kept everything (see notes/C13.md). *)
Definition thr_cut (m : cmode) (p q : Z) (sall : list Z) : Z :=
  match m with
  | MAbs => p
  | MRel => last sall 0 * p
  | _ => match n_chi_all m p q sall with
         | O => q * (last sall 0 + 1)
         | n => q * py_neg_index sall n
         end
  end.

(* `if 0 < max_bond < size(sall): mbc = sall[-max_bond]; if mbc > abs_cutoff: abs_cutoff = mbc` *)
Definition fold_bond (q mb : Z) (sall : list Z) (a : Z) : Z :=
  if (0 <? mb) && (mb <? Z.of_nat (length sall)) then
    let mbc := py_neg_index sall (Z.to_nat mb) in
    if a <? q * mbc then q * mbc else a
  else a.

(* count_nonzero(ss >= abs_cutoff) *)
Definition keep_count (q a : Z) (ss : list Z) : nat :=
  count_true (fun s => a <=? q * s) ss.

Definition sector := (Z * list Z)%type.
Definition all_values (secs : list sector) : list Z := concat (map snd secs).

Definition final_threshold (thr : cmode -> Z -> Z -> list Z -> Z)
           (m : cmode) (p q mb : Z) (secs : list sector) : Z :=
  let sall := sort_asc (all_values secs) in
  fold_bond q mb sall (thr m p q sall).

Definition sub_counts_cut thr (m : cmode) (p q mb : Z) (secs : list sector) : list nat :=
  let a := final_threshold thr m p q mb secs in
  map (fun cs => keep_count q a (snd cs)) secs.

(* ---------------------------------------------------------------- no cutoff *)
(* argsort(seq) = sorted(range(len(seq)), key=seq.__getitem__)  (stable) *)
Fixpoint insert_key (x : Z * nat) (l : list (Z * nat)) : list (Z * nat) :=
  match l with
  | [] => [x]
  | y :: t => if fst x <=? fst y then x :: l else y :: insert_key x t
  end.
Definition argsort (l : list Z) : list nat :=
  map snd (fold_right insert_key [] (combine l (seq 0 (length l)))).

Fixpoint incr_nth (l : list Z) (i : nat) : list Z :=
  match l, i with
  | [], _ => []
  | x :: t, O => (x + 1) :: t
  | x :: t, S j => x :: incr_nth t j
  end.

(* rem = max_bond - sum(sub); for i in argsort(sub)[:rem]: sub[i] += 1 *)
Definition distribute (base : list Z) (mb : Z) : list Z :=
  let rem := mb - zsum base in
  fold_left incr_nth (firstn (Z.to_nat rem) (argsort base)) base.

(* int(frac * sz) over exact rationals: floor(max_bond*sz/total) *)
Definition floor_base (sizes : list Z) (mb : Z) : list Z :=
  let T := zsum sizes in map (fun sz => mb * sz / T) sizes.

(* None = ZeroDivisionError (no sector / all sectors empty, with max_bond >= 0) *)
Definition calc_sub_max_bonds (sizes : list Z) (mb : Z) : option (list Z) :=
  if mb <? 0 then Some sizes else
  let T := zsum sizes in
  if T =? 0 then None else
  if T <=? mb then Some sizes else
  Some (distribute (floor_base sizes mb) mb).

Definition sector_sizes (secs : list sector) : list Z :=
  map (fun cs => Z.of_nat (length (snd cs))) secs.

(* ---------------------------------------------------------------- whole selection *)
(* sub_max_bonds of svd_truncated.  None = the call raises (no stored block:
   `concatenate` of nothing / division by zero). *)
Definition sub_max_bonds thr (m : cmode) (p q mb : Z) (secs : list sector) : option (list nat) :=
  if 0 <? p then
    match secs with
    | [] => None
    | _ => Some (sub_counts_cut thr m p q mb secs)
    end
  else
    option_map (map Z.to_nat) (calc_sub_max_bonds (sector_sizes secs) mb).

(* sectors with n_chi = 0 are removed; dict(sorted(new_inner_chargemap.items())) *)
Definition new_chargemap (secs : list sector) (counts : list nat) : list (Z * nat) :=
  isort (fun a b => fst a <? fst b)
        (filter (fun cn => negb (Nat.eqb (snd cn) 0)) (combine (map fst secs) counts)).

Definition kept_of (secs : list sector) (counts : list nat) : list (list Z) :=
  map (fun cn => firstn (snd cn) (snd (fst cn))) (combine secs counts).
Definition disc_of (secs : list sector) (counts : list nat) : list (list Z) :=
  map (fun cn => skipn (snd cn) (snd (fst cn))) (combine secs counts).

(* what the harness compares: the bond chargemap of U / VH after truncation *)
Definition trunc_chargemap thr (mz p q mb : Z) (secs : list sector) : option (list (Z * nat)) :=
  match cmode_of_Z mz with
  | None => if 0 <? p then None   (* KeyError on the power table *)
            else option_map (new_chargemap secs) (sub_max_bonds thr MAbs p q mb secs)
  | Some m => option_map (new_chargemap secs) (sub_max_bonds thr m p q mb secs)
  end.

(* the model of svd_truncated that is tied to the code *)
Definition trunc := trunc_chargemap thr_cut.

(* boolean comparison helpers for the correspondence *)
Definition cm_eqb (a b : list (Z * nat)) : bool :=
  list_eqb (pair_eqb Z.eqb Nat.eqb) a b.
Definition ocm_eqb (a b : option (list (Z * nat))) : bool :=
  match a, b with
  | None, None => true
  | Some x, Some y => cm_eqb x y
  | _, _ => false
  end.
Definition ozl_eqb (a b : option (list Z)) : bool :=
  match a, b with
  | None, None => true
  | Some x, Some y => list_eqb Z.eqb x y
  | _, _ => false
  end.

(* decidable shape predicates used in Examples and by the harness *)
Fixpoint descb (l : list Z) : bool :=
  match l with
  | [] => true
  | x :: t => forallb (fun y => y <=? x) t && descb t
  end.
