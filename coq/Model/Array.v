(* Model/Array.v — hand model of symmray.abelian_core: BlockIndex, AbelianArray and
   the public operations on them.  Definitions only (all computable); tied to
   the implementation by the cases.v correspondence. *)
From SV Require Import Base.Prelude Base.Sym Base.Tensor Model.Sectors.
Local Open Scope nat_scope.

Fixpoint list_ltb {A} (ltb eqb : A -> A -> bool) (l1 l2 : list A) : bool :=   (* Python tuple `<` *)
  match l1, l2 with
  | [], [] => false
  | [], _ :: _ => true
  | _ :: _, [] => false
  | x :: l1', y :: l2' => ltb x y || (eqb x y && list_ltb ltb eqb l1' l2')
  end.

Definition enumerate {A} (l : list A) : list (nat * A) := List.combine (seq 0 (length l)) l.
Definition nsum (l : list nat) : nat := fold_right Nat.add 0 l.
Definition nprod (l : list nat) : nat := fold_right Nat.mul 1 l.
Definition list_min (l : list nat) : nat := match l with [] => 0 | x :: l' => fold_left Nat.min l' x end.

(* accum_for_split: start offsets of consecutive extents *)
Fixpoint starts_from (s : nat) (sizes : list nat) : list nat :=
  match sizes with [] => [] | d :: r => s :: starts_from (s + d) r end.

Section Arr.
  Context (G : Symmetry) (R : Ring).
  Notation Ch := (C G).
  Notation sector := (list (C G)).
  Notation keq := (list_eqb (ceqb G)).
  Notation sec_ltb := (list_ltb (cltb G) (ceqb G)).

  (* BlockIndex; `sub` = SubIndexInfo (indices, extents) *)
  Inductive index : Type :=
    Index (cm : list (Ch * nat)) (dual : bool)
          (sub : option (list index * list (Ch * list (sector * nat)))).

  Definition chargemap (ix : index) := let 'Index cm _ _ := ix in cm.
  Definition idual (ix : index) := let 'Index _ d _ := ix in d.
  Definition isub (ix : index) := let 'Index _ _ s := ix in s.
  Definition icharges (ix : index) : list Ch := map fst (chargemap ix).
  Definition size_of (ix : index) (c : Ch) : nat :=
    match lookup (ceqb G) c (chargemap ix) with Some d => d | None => 0 end.
  Definition size_total (ix : index) : nat := nsum (map snd (chargemap ix)).
  Definition dflt_index : index := Index [] false None.

  (* BlockIndex.__init__ sorts the chargemap *)
  Definition sort_cm (cm : list (Ch * nat)) : list (Ch * nat) :=
    isort (fun a b => cltb G (fst a) (fst b)) cm.
  Definition mk_index (cm : list (Ch * nat)) (dual : bool) sub : index := Index (sort_cm cm) dual sub.

  Fixpoint iconj (ix : index) : index :=
    match ix with
    | Index cm d sub =>
        Index cm (negb d) (match sub with
                           | None => None
                           | Some (subs, ext) => Some (map iconj subs, ext)
                           end)
    end.

  Definition drop_charges (ix : index) (cs : list Ch) : index :=
    match ix with
    | Index cm d sub =>
        Index (filter (fun p => negb (mem (ceqb G) (fst p) cs)) cm) d
              (match sub with
               | None => None
               | Some (subs, ext) => Some (subs, filter (fun p => negb (mem (ceqb G) (fst p) cs)) ext)
               end)
    end.

  Definition ext_eqb (e1 e2 : list (Ch * list (sector * nat))) : bool :=
    list_eqb (pair_eqb (ceqb G) (list_eqb (pair_eqb keq Nat.eqb))) e1 e2.

  Fixpoint index_eqb (a b : index) : bool :=
    match a, b with
    | Index cm1 d1 s1, Index cm2 d2 s2 =>
        list_eqb (pair_eqb (ceqb G) Nat.eqb) cm1 cm2 && Bool.eqb d1 d2 &&
        match s1, s2 with
        | None, None => true
        | Some (l1, e1), Some (l2, e2) =>
            (fix leq (l1 l2 : list index) : bool :=
               match l1, l2 with
               | [], [] => true
               | x :: l1', y :: l2' => index_eqb x y && leq l1' l2'
               | _, _ => false
               end) l1 l2 && ext_eqb e1 e2
        | _, _ => false
        end
    end.

  Record aarray := mkA { indices : list index; charge : Ch; blocks : list (sector * tensor R) }.

  Definition ndim (x : aarray) := length (indices x).
  Definition duals (x : aarray) := map idual (indices x).
  Definition sectors (x : aarray) := map fst (blocks x).
  Definition block_shape (ixs : list index) (s : sector) : list nat :=
    map (fun p => size_of (fst p) (snd p)) (List.combine ixs s).

  (* observable equality: same indices, charge and the same dict of blocks
     (strict = also same insertion order) *)
  Definition blocks_eqb_strict (b1 b2 : list (sector * tensor R)) : bool :=
    list_eqb (pair_eqb keq (tensor_eqb R)) b1 b2.
  Definition blocks_sub (b1 b2 : list (sector * tensor R)) : bool :=
    forallb (fun p => match lookup keq (fst p) b2 with Some t => tensor_eqb R (snd p) t | None => false end) b1.
  Definition blocks_eqb (b1 b2 : list (sector * tensor R)) : bool :=
    Nat.eqb (length b1) (length b2) && blocks_sub b1 b2 && blocks_sub b2 b1.
  Definition aarray_eqb (x y : aarray) : bool :=
    list_eqb index_eqb (indices x) (indices y) && ceqb G (charge x) (charge y) && blocks_eqb (blocks x) (blocks y).

  (* ------------------------------------------------------------------ *)
  (* structural operations *)
  Definition a_transpose (x : aarray) (axes : list nat) : aarray :=
    mkA (permuted dflt_index (indices x) axes) (charge x)
        (map (fun sb => (permuted (ident G) (fst sb) axes, ttranspose R (snd sb) axes)) (blocks x)).

  Definition rev_axes (n : nat) : list nat := rev (seq 0 n).

  Definition a_conj (x : aarray) : aarray :=
    mkA (map iconj (indices x)) (sign G (charge x) true)
        (map (fun sb => (fst sb, tconj R (snd sb))) (blocks x)).

  Definition a_dagger (x : aarray) : aarray := a_transpose (a_conj x) (rev_axes (ndim x)).

  (* keep only the charges that occur in some sector at position i *)
  Definition prune_indices (ixs : list index) (secs : list sector) : list index :=
    map (fun p =>
           let present := map (fun s => nth (fst p) s (ident G)) secs in
           drop_charges (snd p) (filter (fun c => negb (mem (ceqb G) c present)) (icharges (snd p))))
        (enumerate ixs).

  Definition a_sync_charges (x : aarray) : aarray :=
    mkA (prune_indices (indices x) (sectors x)) (charge x) (blocks x).

  (* ------------------------------------------------------------------ *)
  (* dict accumulation: d[k] = d[k] + v, or insert at the end *)
  Definition acc_add (acc : list (sector * tensor R)) (p : sector * tensor R) :=
    match lookup keq (fst p) acc with
    | Some t => dset keq (fst p) (tadd R t (snd p)) acc
    | None => acc ++ [p]
    end.

  (* _tensordot_blockwise *)
  Definition tdot_pairs (a b : aarray) (la aa ab rb : list nat) : list (sector * tensor R) :=
    flat_map (fun sa =>
      flat_map (fun sb =>
        if keq (take_axes (ident G) (fst sa) aa) (take_axes (ident G) (fst sb) ab)
        then [(take_axes (ident G) (fst sa) la ++ take_axes (ident G) (fst sb) rb,
               ttensordot R (snd sa) (snd sb) aa ab)]
        else []) (blocks b)) (blocks a).

  Definition tdot_blockwise (a b : aarray) (la aa ab rb : list nat) : aarray :=
    let nb := fold_left acc_add (tdot_pairs a b la aa ab rb) [] in
    let ixs := without_axes (indices a) aa ++ without_axes (indices b) ab in
    mkA (prune_indices ixs (map fst nb)) (combine G [charge a; charge b]) nb.

  (* drop_misaligned_sectors *)
  Definition drop_misaligned (a b : aarray) (aa ab : list nat) : aarray * aarray :=
    let sa := map (fun s => take_axes (ident G) s aa) (sectors a) in
    let sb := map (fun s => take_axes (ident G) s ab) (sectors b) in
    let allowed s := mem keq s sa && mem keq s sb in
    let ba := filter (fun p => allowed (take_axes (ident G) (fst p) aa)) (blocks a) in
    let bb := filter (fun p => allowed (take_axes (ident G) (fst p) ab)) (blocks b) in
    (mkA (prune_indices (indices a) (map fst ba)) (charge a) ba,
     mkA (prune_indices (indices b) (map fst bb)) (charge b) bb).

  (* ------------------------------------------------------------------ *)
  (* fusing: calc_fuse_group_info / calc_fuse_block_info / _fuse_blocks_via_insert *)
  Definition group_of (groups : list (list nat)) (ax : nat) : option nat :=
    (fix go (g : nat) (gs : list (list nat)) : option nat :=
       match gs with
       | [] => None
       | ga :: gs' => if mem Nat.eqb ax ga then Some g else go (S g) gs'
       end) 0 groups.

  Definition fuse_position (groups : list (list nat)) : nat := list_min (concat groups).
  Definition axes_before (n : nat) (groups : list (list nat)) : list nat :=
    filter (fun ax => is_none (group_of groups ax)) (seq 0 (fuse_position groups)).
  Definition axes_after (n : nat) (groups : list (list nat)) : list nat :=
    filter (fun ax => is_none (group_of groups ax)) (seq (fuse_position groups) (n - fuse_position groups)).
  Definition fuse_perm (n : nat) (groups : list (list nat)) : list nat :=
    axes_before n groups ++ concat groups ++ axes_after n groups.

  Definition is_singlet (g : list nat) : bool := Nat.eqb (length g) 1.

  (* the fused charge / size / subsector of one group for one sector *)
  Definition group_subsector (s : sector) (g : list nat) : sector := take_axes (ident G) s g.
  Definition group_dual (ixs : list index) (g : list nat) : bool := idual (nth (hd 0 g) ixs dflt_index).
  Definition group_charge (ixs : list index) (s : sector) (g : list nat) : Ch :=
    if is_singlet g then nth (hd 0 g) s (ident G)
    else combine G (map (fun ax =>
           sign G (nth ax s (ident G)) (negb (Bool.eqb (group_dual ixs g) (idual (nth ax ixs dflt_index))))) g).
  Definition group_size (ixs : list index) (s : sector) (g : list nat) : nat :=
    nprod (map (fun ax => size_of (nth ax ixs dflt_index) (nth ax s (ident G))) g).

  Definition fused_sector (ixs : list index) (groups : list (list nat)) (s : sector) : sector :=
    let n := length ixs in
    take_axes (ident G) s (axes_before n groups)
    ++ map (group_charge ixs s) groups
    ++ take_axes (ident G) s (axes_after n groups).
  Definition fused_block_shape (ixs : list index) (groups : list (list nat)) (s : sector) : list nat :=
    let n := length ixs in
    map (fun ax => size_of (nth ax ixs dflt_index) (nth ax s (ident G))) (axes_before n groups)
    ++ map (group_size ixs s) groups
    ++ map (fun ax => size_of (nth ax ixs dflt_index) (nth ax s (ident G))) (axes_after n groups).

  (* subinfos[g] : dict subsector -> (charge, size), then sorted by subsector *)
  Definition group_subinfos (ixs : list index) (secs : list sector) (g : list nat)
    : list (sector * (Ch * nat)) :=
    isort (fun a b => sec_ltb (fst a) (fst b))
      (fold_left (fun acc s => dset keq (group_subsector s g) (group_charge ixs s g, group_size ixs s g) acc) secs []).

  Definition cm_add (cm : list (Ch * nat)) (c : Ch) (d : nat) : list (Ch * nat) :=
    match lookup (ceqb G) c cm with Some d0 => dset (ceqb G) c (d0 + d) cm | None => cm ++ [(c, d)] end.
  Definition ext_add (ext : list (Ch * list (sector * nat))) (c : Ch) (ss : sector) (d : nat) :=
    match lookup (ceqb G) c ext with
    | Some e => dset (ceqb G) c (dset keq ss d e) ext
    | None => ext ++ [(c, [(ss, d)])]
    end.

  Definition fused_index (ixs : list index) (secs : list sector) (g : list nat) : index :=
    if is_singlet g then nth (hd 0 g) ixs dflt_index
    else
      let si := group_subinfos ixs secs g in
      let cm := fold_left (fun cm p => cm_add cm (fst (snd p)) (snd (snd p))) si [] in
      let ext := fold_left (fun e p => ext_add e (fst (snd p)) (fst p) (snd (snd p))) si [] in
      mk_index cm (group_dual ixs g) (Some (map (fun ax => nth ax ixs dflt_index) g, ext)).

  Definition fused_indices (ixs : list index) (secs : list sector) (groups : list (list nat)) : list index :=
    let n := length ixs in
    map (fun ax => nth ax ixs dflt_index) (axes_before n groups)
    ++ map (fused_index ixs secs) groups
    ++ map (fun ax => nth ax ixs dflt_index) (axes_after n groups).

  (* where a subsector sits inside its fused charge: (start, length) *)
  Definition sub_range (ix : index) (c : Ch) (ss : sector) : nat * nat :=
    match isub ix with
    | Some (_, ext) =>
        match lookup (ceqb G) c ext with
        | Some e =>
            let st := starts_from 0 (map snd e) in
            match lookup keq ss (List.combine (map fst e) (List.combine st (map snd e))) with
            | Some r => r
            | None => (0, 0)
            end
        | None => (0, 0)
        end
    | None => (0, size_of ix c)
    end.

  Definition fuse_selector (ixs : list index) (nixs : list index) (groups : list (list nat)) (s : sector)
    : list (nat * nat) :=
    let n := length ixs in
    let ns := fused_sector ixs groups s in
    let nb := length (axes_before n groups) in
    map (fun p =>
           let '(k, (ix, c)) := p in
           if Nat.leb nb k && Nat.ltb k (nb + length groups) then
             let g := nth (k - nb) groups [] in
             if is_singlet g then (0, size_of ix c) else sub_range ix c (group_subsector s g)
           else (0, size_of ix c))
        (enumerate (List.combine nixs ns)).

  Definition fuse_core (x : aarray) (groups : list (list nat)) : aarray :=
    let ixs := indices x in
    let n := length ixs in
    let perm := fuse_perm n groups in
    let nixs := fused_indices ixs (sectors x) groups in
    let nb :=
      fold_left (fun acc sb =>
        let s := fst sb in
        let ns := fused_sector ixs groups s in
        let arr := treshape R (ttranspose R (snd sb) perm) (fused_block_shape ixs groups s) in
        let tgt := match lookup keq ns acc with Some t => t | None => tzeros R (block_shape nixs ns) end in
        dset keq ns (tassign R tgt (fuse_selector ixs nixs groups s) arr) acc) (blocks x) [] in
    mkA nixs (charge x) nb.

  (* expand_dims with zero charge, dual inherited from the left (or right) *)
  Definition a_expand_dims (x : aarray) (axis : nat) : aarray :=
    let n := ndim x in
    let d := if Nat.ltb 0 axis then idual (nth (axis - 1) (indices x) dflt_index)
             else if Nat.ltb axis n then idual (nth axis (indices x) dflt_index) else false in
    mkA (insert_nth (indices x) axis (Index [(ident G, 1)] d None)) (charge x)
        (map (fun sb => (insert_nth (fst sb) axis (ident G),
                         treshape R (snd sb) (insert_nth (tshape (snd sb)) axis 1))) (blocks x)).

  (* fuse( *axes_groups ) with empty groups expanded (expand_empty=True) *)
  Definition a_fuse (x : aarray) (groups : list (list nat)) : aarray :=
    let ne := filter (fun g => negb (is_nil g)) groups in
    let xf := match ne with [] => x | _ => fuse_core x ne end in
    let g0 := list_min (concat ne) in
    fold_left (fun acc p => if is_nil (snd p) then a_expand_dims acc (g0 + fst p) else acc) (enumerate groups) xf.

  (* unfuse *)
  Definition replace_with_seq {A} (l : list A) (i : nat) (s : list A) : list A := firstn i l ++ s ++ skipn (S i) l.

  Definition a_unfuse (x : aarray) (axis : nat) : option aarray :=
    match isub (nth axis (indices x) dflt_index) with
    | None => None
    | Some (subs, ext) =>
        let nb :=
          fold_left (fun acc sb =>
            let s := fst sb in
            let c := nth axis s (ident G) in
            match lookup (ceqb G) c ext with
            | None => acc
            | Some e =>
                let st := starts_from 0 (map snd e) in
                fold_left (fun acc2 q =>
                  let '(ss, (start, len)) := q in
                  let piece := tslice R (snd sb) axis start len in
                  let subshape := map (fun p => size_of (fst p) (snd p)) (List.combine subs ss) in
                  dset keq (replace_with_seq s axis ss)
                       (treshape R piece (replace_with_seq (tshape (snd sb)) axis subshape)) acc2)
                  (List.combine (map fst e) (List.combine st (map snd e))) acc
            end) (blocks x) [] in
        Some (mkA (replace_with_seq (indices x) axis subs) (charge x) nb)
    end.

  Fixpoint unfuse_all_go (axes : list nat) (x : aarray) : aarray :=
    match axes with
    | [] => x
    | ax :: r =>
        match isub (nth ax (indices x) dflt_index) with
        | Some _ => match a_unfuse x ax with Some y => unfuse_all_go r y | None => unfuse_all_go r x end
        | None => unfuse_all_go r x
        end
    end.
  Definition a_unfuse_all (x : aarray) : aarray := unfuse_all_go (rev (seq 0 (ndim x))) x.

  Definition a_fuse_noexpand (x : aarray) (groups : list (list nat)) : aarray :=
    match filter (fun g => negb (is_nil g)) groups with
    | [] => x
    | ne => fuse_core x ne
    end.

  (* _tensordot_via_fused *)
  Definition tdot_fused (a b : aarray) (la aa ab rb : list nat) : aarray :=
    let '(a1, b1) := drop_misaligned a b aa ab in
    if is_nil (blocks a1) || is_nil (blocks b1) then
      mkA (without_axes (indices a1) aa ++ without_axes (indices b1) ab) (combine G [charge a; charge b]) []
    else
      let af := a_fuse_noexpand a1 [la; aa] in
      let bf := a_fuse_noexpand b1 [ab; rb] in
      let la' := if is_nil la then [] else [0] in
      let aa' := if is_nil aa then [] else if is_nil la then [0] else [1] in
      let ab' := if is_nil ab then [] else [0] in
      let rb' := if is_nil rb then [] else if is_nil ab then [0] else [1] in
      a_unfuse_all (tdot_blockwise af bf la' aa' ab' rb').

  (* ------------------------------------------------------------------ *)
  (* tensordot front end: axes parsing, mode selection *)
  Definition norm_axes (n : nat) (axes : list Z) : list nat :=
    map (fun x => Z.to_nat (Z.modulo x (Z.of_nat n))) axes.
  Definition rest_axes (n : nat) (axes : list nat) : list nat :=
    filter (fun i => negb (mem Nat.eqb i axes)) (seq 0 n).

  Inductive tmode := MAuto | MFused | MBlockwise.

  Definition parse_axes (na nb : nat) (axes : nat + (list Z * list Z)) : option (list nat * list nat) :=
    match axes with
    | inl k => Some (seq (na - k) k, seq 0 k)
    | inr (xa, xb) => if Nat.eqb (length xa) (length xb) then Some (norm_axes na xa, norm_axes nb xb) else None
    end.

  Definition a_tensordot (a b : aarray) (axes : nat + (list Z * list Z)) (mode : tmode) : option aarray :=
    match parse_axes (ndim a) (ndim b) axes with
    | None => None
    | Some (aa, ab) =>
        let la := rest_axes (ndim a) aa in
        let rb := rest_axes (ndim b) ab in
        let m := match mode with MAuto => if is_nil aa then MBlockwise else MFused | m => m end in
        Some (match m with
              | MFused => tdot_fused a b la aa ab rb
              | _ => tdot_blockwise a b la aa ab rb
              end)
    end.

  (* a rank-0 result returned as a scalar: the () block, or 0.0 *)
  Definition a_scalar (x : aarray) : RT R :=
    match lookup keq [] (blocks x) with Some t => get R t [] | None => r0 R end.

  Definition a_matmul (a b : aarray) : option aarray :=
    match ndim a, ndim b with
    | 1, 1 => Some (tdot_blockwise a b [] [0] [0] [])
    | 1, 2 => Some (tdot_blockwise a b [] [0] [0] [1])
    | 2, 1 => Some (tdot_blockwise a b [0] [1] [0] [])
    | 2, 2 => Some (tdot_blockwise a b [0] [1] [0] [1])
    | _, _ => None
    end.

  Definition a_trace (x : aarray) : option (RT R) :=
    if Nat.eqb (ndim x) 2 then
      Some (fold_left (fun acc sb =>
              if ceqb G (nth 0 (fst sb) (ident G)) (nth 1 (fst sb) (ident G))
              then radd R acc (ttrace R (snd sb)) else acc) (blocks x) (r0 R))
    else None.

  (* single-array einsum "lhs->rhs" (labels as numbers): traces + permutation *)
  Definition nodup_nat (l : list nat) : list nat :=
    fold_left (fun acc x => if mem Nat.eqb x acc then acc else acc ++ [x]) l [].
  Definition count_nat (x : nat) (l : list nat) : nat := length (filter (Nat.eqb x) l).
  Definition positions (q : nat) (l : list nat) : list nat :=
    map fst (filter (fun p => Nat.eqb (snd p) q) (enumerate l)).

  Definition teinsum (t : tensor R) (lhs rhs : list nat) : tensor R :=
    let traced := nodup_nat (filter (fun q => negb (mem Nat.eqb q rhs)) lhs) in
    let dim_of q := nth (index_of q lhs) (tshape t) 0 in
    build R (map dim_of rhs) (fun o =>
      rsum R (map (fun k =>
        get R t (map (fun q => if mem Nat.eqb q rhs then nth (index_of q rhs) o 0
                               else nth (index_of q traced) k 0) lhs))
        (all_idx (map dim_of traced)))).

  Definition a_einsum (x : aarray) (lhs rhs : list nat) : option aarray :=
    let traced := nodup_nat (filter (fun q => negb (mem Nat.eqb q rhs)) lhs) in
    if negb (Nat.eqb (length lhs) (ndim x)) then None
    else if negb (forallb (fun q => Nat.eqb (count_nat q lhs) 2) traced) then None
    else
      let perm := map (fun q => index_of q lhs) rhs in
      let diag (s : sector) :=
        forallb (fun q => match positions q lhs with
                          | [ja; jb] => ceqb G (nth ja s (ident G)) (nth jb s (ident G))
                          | _ => false end) traced in
      let nb := fold_left (fun acc sb =>
                  if diag (fst sb)
                  then acc_add acc (take_axes (ident G) (fst sb) perm, teinsum (snd sb) lhs rhs)
                  else acc) (blocks x) [] in
      Some (mkA (map (fun q => nth (index_of q lhs) (indices x) dflt_index) rhs) (charge x) nb).
End Arr.
