(* Model/ReshapeArgs.v — hand model of symmray/abelian_core.py::calc_reshape_args
   (the axis-matching state machine behind AbelianArray.reshape) and an abstract
   executor of the plans it returns on lists of "index trees".
   Definitions only.  Python positions (i, j, k, axes) are [nat]; sizes are [Z].

   The Python function walks `shape` with i and `newshape` with j.  The model
   carries the suffixes shape[i:], subsizes[i:], newshape[j:] instead of i and j
   (i and j are only ever used to read those suffixes); k, term, unfuse_sizes,
   fuse_sizes, axs_expand, any_singleton, any_fused are carried as they are.
   fuse_sizes / unfuse_sizes are dicts keyed "g0","g1",.. / "u0","u1",.. in
   creation order: modelled as the list of their values. *)
From SV Require Import Base.Prelude.
Local Open Scope nat_scope.

(* ------------------------------------------------------------------ results *)
(* what the Python call does: returns, raises ValueError / IndexError /
   UnboundLocalError (variable `g` read before assignment), or the model ran
   out of fuel (never happens: see Proofs) *)
Inductive res (A : Type) : Type :=
| Ok (a : A)
| ErrValue
| ErrIndex
| ErrUnbound
| OutOfFuel.
Arguments Ok {A} a.
Arguments ErrValue {A}.
Arguments ErrIndex {A}.
Arguments ErrUnbound {A}.
Arguments OutOfFuel {A}.

Definition is_ok {A} (r : res A) : bool := match r with Ok _ => true | _ => false end.

(* term labels: "o", "s", "u<n>", "g<n>" *)
Inductive label : Type := Lo | Ls | Lu (n : nat) | Lg (n : nat).

Definition label_eqb (a b : label) : bool :=
  match a, b with
  | Lo, Lo => true
  | Ls, Ls => true
  | Lu n, Lu m => Nat.eqb n m
  | Lg n, Lg m => Nat.eqb n m
  | _, _ => false
  end.

(* (axs_unfuse, axs_fuse groupings, axs_expand) *)
Definition plan : Type := (list nat * list (list (list nat)) * list nat)%type.

(* ------------------------------------------------------------------ helpers *)
(* subsizes[i] == newshape[j : j + len(subsizes[i])] *)
Fixpoint prefix_eqb (ss nw : list Z) : bool :=
  match ss, nw with
  | [], _ => true
  | s :: ss', d :: nw' => Z.eqb s d && prefix_eqb ss' nw'
  | _ :: _, [] => false
  end.

(* l[n] = x (unchanged when out of range; the code never assigns out of range) *)
Fixpoint set_nth {A} (n : nat) (x : A) (l : list A) : list A :=
  match l, n with
  | [], _ => []
  | _ :: l', O => x :: l'
  | y :: l', S n' => y :: set_nth n' x l'
  end.

(* l[n] += r *)
Fixpoint add_nth (n r : nat) (l : list nat) : list nat :=
  match l, n with
  | [], _ => []
  | y :: l', O => (y + r) :: l'
  | y :: l', S n' => y :: add_nth n' r l'
  end.

(* term.index(lab) *)
Fixpoint index_of (lab : label) (t : list label) : option nat :=
  match t with
  | [] => None
  | x :: t' => if label_eqb lab x then Some 0
               else match index_of lab t' with Some n => Some (S n) | None => None end
  end.

(* number of leading "s" labels *)
Fixpoint count_lead_s (t : list label) : nat :=
  match t with
  | Ls :: t' => S (count_lead_s t')
  | _ => 0
  end.

Definition nat_sum (l : list nat) : nat := fold_right Nat.add 0 l.

(* ------------------------------------------------------------------ phase 1: the matching loop *)
Record mstate : Type := MState {
  m_k : nat;                 (* position in the post-fuse / pre-expand shape *)
  m_term : list label;
  m_unf : list nat;          (* unfuse_sizes: value of "u0", "u1", ... *)
  m_fus : list nat;          (* fuse_sizes:   value of "g0", "g1", ... *)
  m_exp : list nat;          (* axs_expand, in append order *)
  m_sing : bool;             (* any_singleton *)
  m_fused : bool             (* any_fused *)
}.

(* the inner `while di < dj: di *= shape[i]; term.append(label); i += 1; s += 1`
   followed by `if di != dj: raise ValueError`; returns (shape[i:], s) *)
Fixpoint fuse_scan (dj di : Z) (sh : list Z) (s : nat) : res (list Z * nat) :=
  if (di <? dj)%Z then
    match sh with
    | [] => ErrIndex                                   (* shape[i] with i == ndim_old *)
    | d :: sh' => fuse_scan dj (di * d)%Z sh' (S s)
    end
  else if (di =? dj)%Z then Ok (sh, s) else ErrValue.

Fixpoint match_loop (fuel : nat) (sh : list Z) (subs : list (option (list Z))) (nw : list Z)
         (st : mstate) : res mstate :=
  match fuel with
  | O => OutOfFuel
  | S fuel' =>
    match sh, nw with
    | di :: sh', dj :: nw' =>
      match subs with
      | [] => ErrIndex                                 (* subsizes[i] out of range *)
      | sub :: subs' =>
        match (match sub with
               | Some ss => if prefix_eqb ss nw then Some (length ss) else None
               | None => None
               end) with
        | Some s =>
          (* unfuse: j += s, k += s, i += 1 *)
          match_loop fuel' sh' subs' (skipn s nw)
            (MState (m_k st + s) (m_term st ++ [Lu (length (m_unf st))]) (m_unf st ++ [s])
                    (m_fus st) (m_exp st) (m_sing st) (m_fused st))
        | None =>
          if (di =? dj)%Z then
            match_loop fuel' sh' subs' nw'
              (MState (S (m_k st)) (m_term st ++ [Lo]) (m_unf st) (m_fus st) (m_exp st)
                      (m_sing st) (m_fused st))
          else if (di =? 1)%Z then
            match_loop fuel' sh' subs' nw
              (MState (m_k st) (m_term st ++ [Ls]) (m_unf st) (m_fus st) (m_exp st)
                      true (m_fused st))
          else if (dj =? 1)%Z then
            match_loop fuel' sh subs nw'
              (MState (m_k st) (m_term st) (m_unf st) (m_fus st) (m_exp st ++ [m_k st])
                      (m_sing st) (m_fused st))
          else if (di <? dj)%Z then
            match fuse_scan dj di sh' 1 with
            | Ok (sh2, s) =>
              match_loop fuel' sh2 (skipn s subs) nw'
                (MState (S (m_k st)) (m_term st ++ repeat (Lg (length (m_fus st))) s) (m_unf st)
                        (m_fus st ++ [s]) (m_exp st) (m_sing st) true)
            | ErrValue => ErrValue
            | ErrIndex => ErrIndex
            | ErrUnbound => ErrUnbound
            | OutOfFuel => OutOfFuel
            end
          else ErrValue                                (* "Shape mismatch." *)
        end
      end
    | _, _ =>
      (* trailing dimensions: every remaining old axis is labelled "s" (its size
         is NOT checked by the code), every remaining new axis is an expansion at k *)
      Ok (MState (m_k st) (m_term st ++ repeat Ls (length sh)) (m_unf st) (m_fus st)
                 (m_exp st ++ repeat (m_k st) (length nw))
                 (m_sing st || negb (is_nil sh)) (m_fused st))
    end
  end.

Definition mstate0 : mstate := MState 0 [] [] [] [] false false.

(* ------------------------------------------------------------------ phase 2: unfusings *)
(* for label, s in unfuse_sizes.items(): ax = term.index(label); axs_unfuse.append(ax);
   term = term[:ax] + ["o"] * s + term[ax + 1:] *)
Fixpoint unfuse_rewrite (n : nat) (unf : list nat) (term : list label) (acc : list nat)
  : res (list nat * list label) :=
  match unf with
  | [] => Ok (acc, term)
  | s :: unf' =>
    match index_of (Lu n) term with
    | None => ErrValue                                 (* list.index raises ValueError *)
    | Some ax => unfuse_rewrite (S n) unf' (firstn ax term ++ repeat Lo s ++ skipn (S ax) term)
                                (acc ++ [ax])
    end
  end.

(* ------------------------------------------------------------------ phase 3: squeezes become fuse groups *)
(* `if lab[0] == "g": g = lab  elif lab == "o": g = f"g{len(fuse_sizes)}"; term[pos] = g;
   fuse_sizes[g] = 1` — otherwise the Python variable g keeps its previous value
   (possibly unbound: None) *)
Definition pick_group (lab : label) (pos : nat) (term : list label) (fus : list nat)
           (gprev : option nat) : option nat * list label * list nat :=
  match lab with
  | Lg n => (Some n, term, fus)
  | Lo => (Some (length fus), set_nth pos (Lg (length fus)) term, fus ++ [1])
  | _ => (gprev, term, fus)
  end.

(* squeezed axes on the left are grouped into the first non-squeezed axis on
   their right; returns (i, term, fuse_sizes, g) *)
Definition squeeze_left (term : list label) (fus : list nat)
  : res (nat * list label * list nat * option nat) :=
  match term with
  | [] => ErrIndex                                     (* term[0] *)
  | Ls :: _ =>
    let i := count_lead_s term in
    match nth_error term i with
    | None => ErrIndex                                 (* the scan `while label == "s"` runs off the end *)
    | Some lab =>
      match pick_group lab i term fus None with
      | (None, _, _) => ErrUnbound
      | (Some gn, term1, fus1) =>
        Ok (i, repeat (Lg gn) i ++ skipn i term1, add_nth gn i fus1, Some gn)
      end
    end
  | _ => Ok (0, term, fus, None)
  end.

(* the rest of the term, grouping squeezed axes into the axis on their left *)
Fixpoint squeeze_rest (fuel i : nat) (term : list label) (fus : list nat) (g : option nat)
  : res (list label * list nat) :=
  match fuel with
  | O => OutOfFuel
  | S fuel' =>
    match nth_error term i with
    | None => Ok (term, fus)
    | Some Ls =>
      match nth_error term (i - 1) with
      | None => ErrIndex
      | Some lft =>
        match pick_group lft (i - 1) term fus g with
        | (None, _, _) => ErrUnbound
        | (Some gn, term1, fus1) =>
          (* the inner `while label == "s"` converts the whole run of r squeezed axes *)
          let r := count_lead_s (skipn i term1) in
          squeeze_rest fuel' (i + r + 1)
                       (firstn i term1 ++ repeat (Lg gn) r ++ skipn (i + r) term1)
                       (add_nth gn r fus1) (Some gn)
        end
      end
    | Some _ => squeeze_rest fuel' (S i) term fus g
    end
  end.

Definition squeeze_phase (term : list label) (fus : list nat) : res (list label * list nat) :=
  match squeeze_left term fus with
  | Ok (i, term1, fus1, g) => squeeze_rest (S (length term1)) (S i) term1 fus1 g
  | ErrValue => ErrValue
  | ErrIndex => ErrIndex
  | ErrUnbound => ErrUnbound
  | OutOfFuel => OutOfFuel
  end.

(* ------------------------------------------------------------------ phase 4: fuse calls *)
(* adjacent groups are collected into one fuse call; positions refer to the
   array after the previous fuse calls *)
Fixpoint fuse_loop (fuel i : nat) (term : list label) (fus : list nat)
         (cur : list (list nat)) (acc : list (list (list nat))) : res (list (list (list nat))) :=
  match fuel with
  | O => OutOfFuel
  | S fuel' =>
    match nth_error term i with
    | None => Ok (if is_nil cur then acc else acc ++ [cur])
    | Some lab =>
      match (match lab with Lg n => nth_error fus n | _ => None end) with
      | None =>                                        (* label not in fuse_sizes *)
        match cur with
        | [] => fuse_loop fuel' (S i) term fus [] acc
        | _ :: _ =>
          let i0 := i - nat_sum (map (@length nat) cur) in
          let ng := length cur in
          fuse_loop fuel' (i0 + ng) (firstn i0 term ++ repeat Lo ng ++ skipn i term) fus []
                    (acc ++ [cur])
        end
      | Some s => fuse_loop fuel' (i + s) term fus (cur ++ [seq i s]) acc
      end
    end
  end.

(* ------------------------------------------------------------------ the whole routine *)
Definition bind {A B} (r : res A) (f : A -> res B) : res B :=
  match r with
  | Ok a => f a
  | ErrValue => ErrValue
  | ErrIndex => ErrIndex
  | ErrUnbound => ErrUnbound
  | OutOfFuel => OutOfFuel
  end.

Definition main_fuel (shape newshape : list Z) : nat := S (length shape + length newshape).

Definition calc_reshape_args (shape newshape : list Z) (subs : list (option (list Z))) : res plan :=
  bind (match_loop (main_fuel shape newshape) shape subs newshape mstate0) (fun st =>
  bind (unfuse_rewrite 0 (m_unf st) (m_term st) []) (fun '(axs_unfuse, term1) =>
  bind (if m_sing st then squeeze_phase term1 (m_fus st) else Ok (term1, m_fus st)) (fun '(term2, fus2) =>
  bind (if m_fused st || m_sing st
        then fuse_loop (2 * length term2 + 2) 0 term2 fus2 [] []
        else Ok []) (fun axs_fuse =>
  Ok (axs_unfuse, axs_fuse, rev (m_exp st)))))).

(* ------------------------------------------------------------------ index trees and the plan executor *)
(* An axis of an array as far as reshape is concerned: an original axis
   (identified by `id`, of size d), an axis made by fusing the listed axes
   (it carries them as sub-index information), or a fresh size-one axis
   inserted by expand_dims.  The size of a fused axis is the product of its
   children here; for a real sparse array it can be smaller — the matching
   routine only sees sizes and recorded sub-sizes. *)
Inductive tree : Type :=
| Leaf (id : nat) (d : Z)
| Fused (cs : list tree)
| New.

Fixpoint tsize (t : tree) : Z :=
  match t with
  | Leaf _ d => d
  | New => 1%Z
  | Fused cs => (fix prod (l : list tree) : Z :=
                   match l with [] => 1%Z | c :: l' => (tsize c * prod l')%Z end) cs
  end.

Fixpoint tree_eqb (a b : tree) : bool :=
  match a, b with
  | Leaf i d, Leaf j e => Nat.eqb i j && Z.eqb d e
  | New, New => true
  | Fused cs, Fused ds =>
    (fix go (l : list tree) (m : list tree) : bool :=
       match l, m with
       | [], [] => true
       | x :: l', y :: m' => tree_eqb x y && go l' m'
       | _, _ => false
       end) cs ds
  | _, _ => false
  end.

(* the original axes below a tree, left to right (fresh axes excluded) *)
Fixpoint leaves (t : tree) : list (nat * Z) :=
  match t with
  | Leaf i d => [(i, d)]
  | New => []
  | Fused cs => (fix go (l : list tree) : list (nat * Z) :=
                   match l with [] => [] | c :: l' => leaves c ++ go l' end) cs
  end.

Definition shape_of (ts : list tree) : list Z := map tsize ts.

(* what AbelianArray.reshape passes as `subsizes` *)
Definition subsize_of (t : tree) : option (list Z) :=
  match t with
  | Fused cs => Some (map tsize cs)
  | _ => None
  end.
Definition subsizes_of (ts : list tree) : list (option (list Z)) := map subsize_of ts.

(* x.unfuse(ax): only an axis carrying sub-index information can be unfused *)
Definition exec_unfuse (ax : nat) (ts : list tree) : option (list tree) :=
  match nth_error ts ax with
  | Some (Fused cs) => Some (firstn ax ts ++ cs ++ skipn (S ax) ts)
  | _ => None
  end.

Fixpoint nth_all {A} (l : list A) (axes : list nat) : option (list A) :=
  match axes with
  | [] => Some []
  | a :: axes' =>
    match nth_error l a, nth_all l axes' with
    | Some x, Some xs => Some (x :: xs)
    | _, _ => None
    end
  end.

Fixpoint all_some {A} (l : list (option A)) : option (list A) :=
  match l with
  | [] => Some []
  | Some x :: l' => match all_some l' with Some xs => Some (x :: xs) | None => None end
  | None :: _ => None
  end.

Fixpoint nodupb (l : list nat) : bool :=
  match l with
  | [] => true
  | x :: l' => negb (mem Nat.eqb x l') && nodupb l'
  end.

(* min(l), 0 for the empty list *)
Definition list_min (l : list nat) : nat :=
  match l with
  | [] => 0
  | x :: l' => fold_left Nat.min l' x
  end.

(* the axes of l (with their positions, starting at `from`) not listed in `axes` *)
Fixpoint drop_axes {A} (from : nat) (l : list A) (axes : list nat) : list A :=
  match l with
  | [] => []
  | x :: l' => if mem Nat.eqb from axes then drop_axes (S from) l' axes
               else x :: drop_axes (S from) l' axes
  end.

(* x.fuse( *groups ): the fused axes (one per group, in group order) are inserted
   at the smallest fused position, every other axis keeps its relative order
   (calc_fuse_group_info: perm = axes_before, groups, axes_after) *)
Definition exec_fuse (groups : list (list nat)) (ts : list tree) : option (list tree) :=
  let all := concat groups in
  if is_nil all then Some ts
  else if negb (nodupb all) then None
  else
    match all_some (map (nth_all ts) groups) with
    | None => None
    | Some gs =>
      let position := list_min all in
      (* the ungrouped axes in order; those below `position` are the first
         `position` of them (no grouped axis is below the minimum) *)
      let rest := drop_axes 0 ts all in
      Some (firstn position rest ++ map Fused gs ++ skipn position rest)
    end.

(* x.expand_dims(ax) *)
Definition exec_expand (ax : nat) (ts : list tree) : option (list tree) :=
  if Nat.leb ax (length ts) then Some (firstn ax ts ++ New :: skipn ax ts) else None.

Fixpoint exec_seq {A} (f : A -> list tree -> option (list tree)) (l : list A) (ts : list tree)
  : option (list tree) :=
  match l with
  | [] => Some ts
  | a :: l' => match f a ts with Some ts' => exec_seq f l' ts' | None => None end
  end.

(* AbelianArray.reshape: unfuse each, fuse each grouping, expand each *)
Definition exec_plan (p : plan) (ts : list tree) : option (list tree) :=
  let '(us, fs, es) := p in
  match exec_seq exec_unfuse us ts with
  | None => None
  | Some t1 =>
    match exec_seq exec_fuse fs t1 with
    | None => None
    | Some t2 => exec_seq exec_expand es t2
    end
  end.

(* reshape on trees: None = the routine raises or the plan is not executable *)
Definition reshape_trees (ts : list tree) (newshape : list Z) : option (list tree) :=
  match calc_reshape_args (shape_of ts) newshape (subsizes_of ts) with
  | Ok p => exec_plan p ts
  | _ => None
  end.

(* ------------------------------------------------------------------ the finite domain of the property *)
(* all lists of length n over `xs` *)
Fixpoint lists_over {A} (xs : list A) (n : nat) : list (list A) :=
  match n with
  | O => [[]]
  | S n' => flat_map (fun l => map (fun x => x :: l) xs) (lists_over xs n')
  end.

Definition sizes_C07 : list Z := [1; 2; 3; 4; 6]%Z.

(* all ways to cut a list into adjacent non-empty blocks *)
Fixpoint compositions {A} (l : list A) : list (list (list A)) :=
  match l with
  | [] => [[]]
  | x :: l' =>
    match l' with
    | [] => [[[x]]]
    | _ :: _ =>
      flat_map (fun c => match c with
                         | [] => []
                         | b :: c' => [[x] :: b :: c'; (x :: b) :: c']
                         end) (compositions l')
    end
  end.

(* all sub-lists obtained by deleting some elements satisfying p *)
Fixpoint drops {A} (p : A -> bool) (l : list A) : list (list A) :=
  match l with
  | [] => [[]]
  | x :: l' =>
    let r := drops p l' in
    if p x then map (cons x) r ++ r else map (cons x) r
  end.

Fixpoint number_from (n : nat) (ds : list Z) : list tree :=
  match ds with
  | [] => []
  | d :: ds' => Leaf n d :: number_from (S n) ds'
  end.

Definition merge_block (b : list tree) : tree :=
  match b with
  | [t] => t
  | _ => Fused b
  end.

(* every array whose axes are obtained from the original axes `ds` by merging
   adjacent ones (merged axes carry the merged axes as sub-index information) *)
Definition arrays_of (ds : list Z) : list (list tree) :=
  map (map merge_block) (compositions (number_from 0 ds)).

Definition zprod (l : list Z) : Z := fold_right Z.mul 1%Z l.

(* every target shape obtained from the current shape by dropping some
   size-one axes and merging adjacent axes *)
Definition targets_of (shape : list Z) : list (list Z) :=
  flat_map (fun kept => map (map zprod) (compositions kept)) (drops (Z.eqb 1) shape).

Definition list_eqbZ : list Z -> list Z -> bool := list_eqb Z.eqb.
Definition trees_eqb : list tree -> list tree -> bool := list_eqb tree_eqb.

(* forward: the routine returns a plan, the plan runs, the result has exactly
   the requested shape; back: the same from the result to the original shape
   restores the original list of trees *)
Definition forward_ok (ts : list tree) (nw : list Z) : bool :=
  match reshape_trees ts nw with
  | Some ts' => list_eqbZ (shape_of ts') nw
  | None => false
  end.

Definition roundtrip_ok (ts : list tree) (nw : list Z) : bool :=
  match reshape_trees ts nw with
  | Some ts' =>
    list_eqbZ (shape_of ts') nw &&
    match reshape_trees ts' (shape_of ts) with
    | Some ts'' => trees_eqb ts'' ts
    | None => false
    end
  | None => false
  end.

(* ------------------------------------------------------------------ the two input families on which the pinned code breaks the property *)
(* family A (DESIGN F11): a non-empty array all of whose axes have size one is
   reshaped to the scalar shape () — the left-squeeze scan runs off the end *)
Definition scalar_of_ones (ts : list tree) (nw : list Z) : bool :=
  is_nil nw && negb (is_nil ts).

Definition last_is_one (cs : list tree) : bool :=
  match rev cs with c :: _ => Z.eqb (tsize c) 1 | [] => false end.

Fixpoint tails {A} (l : list A) : list (list A) :=
  match l with [] => [[]] | _ :: l' => l :: tails l' end.

(* family B: a fused axis whose last component has size one is directly
   followed by a size-one axis, and the shape `nw` spells out that fused axis's
   sub-sizes somewhere — the unfuse branch then fires although the trailing 1
   of `nw` is meant for the following axis *)
Fixpoint clash_with (ts : list tree) (nw : list Z) : bool :=
  match ts with
  | Fused cs :: ((t :: _) as r) =>
    (last_is_one cs && Z.eqb (tsize t) 1 && existsb (prefix_eqb (map tsize cs)) (tails nw))
    || clash_with r nw
  | _ :: r => clash_with r nw
  | [] => false
  end.

(* a round trip consists of two reshapes: the clash can happen on the way
   there (current array against the target) or on the way back (the reshaped
   array against the original shape) *)
Definition spelled_clash (ts : list tree) (nw : list Z) : bool :=
  clash_with ts nw ||
  match reshape_trees ts nw with
  | Some ts' => clash_with ts' (shape_of ts)
  | None => false
  end.

Definition is_err_index {A} (r : res A) : bool := match r with ErrIndex => true | _ => false end.

(* what is decided for each case of the finite domain *)
Definition case_ok (ts : list tree) (nw : list Z) : bool :=
  if scalar_of_ones ts nw
  then is_err_index (calc_reshape_args (shape_of ts) nw (subsizes_of ts))
  else if spelled_clash ts nw then forward_ok ts nw
  else roundtrip_ok ts nw.

(* P holds of every (array, target) built from n original axes *)
Definition domb (P : list tree -> list Z -> bool) (n : nat) : bool :=
  forallb (fun ds =>
    forallb (fun ts => forallb (P ts) (targets_of (shape_of ts))) (arrays_of ds))
    (lists_over sizes_C07 n).

(* ------------------------------------------------------------------ comparisons used by the correspondence run *)
Definition plan_eqb (p q : plan) : bool :=
  let '(u, f, e) := p in
  let '(u', f', e') := q in
  list_eqb Nat.eqb u u' && list_eqb (list_eqb (list_eqb Nat.eqb)) f f' && list_eqb Nat.eqb e e'.

Definition res_plan_eqb (r s : res plan) : bool :=
  match r, s with
  | Ok p, Ok q => plan_eqb p q
  | ErrValue, ErrValue => true
  | ErrIndex, ErrIndex => true
  | ErrUnbound, ErrUnbound => true
  | _, _ => false
  end.

(* same nesting and same leaf sizes; identities are ignored and a fresh axis is
   a size-one leaf (a real array cannot tell them apart) *)
Fixpoint skel_eqb (a b : tree) : bool :=
  match a, b with
  | Fused cs, Fused ds =>
    (fix go (l m : list tree) : bool :=
       match l, m with
       | [], [] => true
       | x :: l', y :: m' => skel_eqb x y && go l' m'
       | _, _ => false
       end) cs ds
  | Fused _, _ => false
  | _, Fused _ => false
  | _, _ => Z.eqb (tsize a) (tsize b)
  end.

Definition skels_eqb (o : option (list tree)) (l : list tree) : bool :=
  match o with Some m => list_eqb skel_eqb m l | None => false end.
