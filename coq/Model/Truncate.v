(* Model/Truncate.v — hand model of the part of symmray.linalg.svd_truncated that comes
   AFTER the selection logic of Model/Trunc.v: given the per-sector numbers of kept
   singular values (`counts`, aligned with `U.sectors`), slice the factor blocks
   (`U[:, :n]`, `s[:n]`, `VH[:n, :]`), remove the sectors with n = 0, rebuild the bond
   tables of U and VH from the counts (sorted) and absorb the singular values
   (left / both / right).  Definitions only, on top of Model/Linalg.v's `a_svd`.
   `sqrt_blk` (elementwise square root of a 1-d block) is a Section parameter like the
   LAPACK routines; nothing is assumed about it here. *)
From SV Require Import Base.Prelude Base.Sym Base.Tensor Gen.PhasePerm Model.Sectors Model.Array Model.Arith Model.Fermi Model.Linalg.
Local Open Scope nat_scope.

Inductive absorb_mode := AbsLeft | AbsBoth | AbsRight.     (* absorb = -1 | 0 | 1 *)

Section Truncate.
  Context (G : Symmetry) (R : Ring).
  Context (svd_blk : tensor R -> tensor R * tensor R * tensor R)
          (sqrt_blk : tensor R -> tensor R).
  Notation Ch := (C G).
  Notation sector := (list (C G)).
  Notation keq := (list_eqb (ceqb G)).
  Notation arr := (aarray G R).

  (* for k, n in zip(keys, counts):
         if n == 0: d.pop(k)   else: d[k] = f(d[k], n)
     None = KeyError (`pop` without default and `d[k]` both raise on a missing key).
     `d[k] = ...` on an existing key keeps its position (Prelude.dset). *)
  Fixpoint dict_trunc {K : Type} (ke : K -> K -> bool) (f : tensor R -> nat -> tensor R)
           (kns : list (K * nat)) (d : list (K * tensor R)) : option (list (K * tensor R)) :=
    match kns with
    | [] => Some d
    | (k, n) :: r =>
        match lookup ke k d with
        | None => None
        | Some t => dict_trunc ke f r (if Nat.eqb n 0 then dpop ke k d else dset ke k (f t n) d)
        end
    end.

  (* for k in ks: d[k] = g(k, d[k]);  None = KeyError (on d, or inside g on the vector) *)
  Fixpoint dict_update {K : Type} (ke : K -> K -> bool) (g : K -> tensor R -> option (tensor R))
           (ks : list K) (d : list (K * tensor R)) : option (list (K * tensor R)) :=
    match ks with
    | [] => Some d
    | k :: r =>
        match lookup ke k d with
        | None => None
        | Some t => match g k t with
                    | None => None
                    | Some t' => dict_update ke g r (dset ke k t' d)
                    end
        end
    end.

  Definition slice_cols (t : tensor R) (n : nat) : tensor R := tslice R t 1 0 n.   (* t[:, :n] *)
  Definition slice_rows (t : tensor R) (n : nat) : tensor R := tslice R t 0 0 n.   (* t[:n, :] and s[:n] *)

  (* new_inner_chargemap[c1] = n_chi for the sectors that survive *)
  Definition kept_cm (secs : list sector) (counts : list nat) : list (Ch * nat) :=
    fold_left (fun cm sn => if Nat.eqb (snd sn) 0 then cm else dset (ceqb G) (col_charge G (fst sn)) (snd sn) cm)
              (List.combine secs counts) [].

  (* index.copy_with(chargemap=dict(sorted(new_inner_chargemap.items()))) *)
  Definition rebond (ix : index G) (cm : list (Ch * nat)) : index G := Index G (sort_cm G cm) (idual G ix) (isub G ix).

  (* the loop `for (c0, c1), n_chi in zip(U.sectors, sub_max_bonds)` and the two `modify` calls.
     The three dicts are independent, so the interleaved loop is three loops. *)
  Definition truncate_factors (u : arr) (s : bvec G R) (vh : arr) (counts : list nat) : option (arr * bvec G R * arr) :=
    let secs := sectors G R u in
    let kn := List.combine secs counts in
    match dict_trunc keq slice_cols kn (blocks G R u),
          dict_trunc (ceqb G) slice_rows (map (fun sn => (col_charge G (fst sn), snd sn)) kn) s,
          dict_trunc keq slice_rows (map (fun sn => ([col_charge G (fst sn); col_charge G (fst sn)], snd sn)) kn) (blocks G R vh) with
    | Some ub, Some sb, Some vb =>
        let cm := kept_cm secs counts in
        Some (mkA G R [ix0 G R u; rebond (ix1 G R u) cm] (charge G R u) ub, sb,
              mkA G R [rebond (ix0 G R vh) cm; ix1 G R vh] (charge G R vh) vb)
    | _, _, _ => None
    end.

  (* `for c0, c1 in U.sectors:` absorb the singular values block by block:
       left : U[(c0,c1)]  *= s[c1].reshape((1,-1))
       right: VH[(c1,c1)] *= s[c1].reshape((-1,1))
       both : the same on both sides with sqrt(s[c1]) *)
  Definition absorb (mode : absorb_mode) (u : arr) (s : bvec G R) (vh : arr) : option (arr * arr) :=
    let secs := sectors G R u in
    let sfac (c : Ch) : option (tensor R) :=
      match mode with AbsBoth => option_map sqrt_blk (lookup (ceqb G) c s) | _ => lookup (ceqb G) c s end in
    let gu (k : sector) (t : tensor R) := option_map (fun sv => tmul_diag R t sv 1) (sfac (col_charge G k)) in
    let gv (k : sector) (t : tensor R) := option_map (fun sv => tmul_diag R t sv 0) (sfac (row_charge G k)) in
    let ub := match mode with AbsRight => Some (blocks G R u) | _ => dict_update keq gu secs (blocks G R u) end in
    let vb := match mode with
              | AbsLeft => Some (blocks G R vh)
              | _ => dict_update keq gv (map (fun k => [col_charge G k; col_charge G k]) secs) (blocks G R vh)
              end in
    match ub, vb with
    | Some ub, Some vb => Some (with_blocks G R u ub, with_blocks G R vh vb)
    | _, _ => None
    end.

  (* svd_truncated with the selection already made: `counts` = sub_max_bonds (Model/Trunc.v);
     mode None = `absorb=None` (the singular values are returned) *)
  Definition a_svd_truncated (x : arr) (counts : list nat) (mode : option absorb_mode)
    : option (arr * option (bvec G R) * arr) :=
    match a_svd G R svd_blk x with
    | None => None
    | Some (u, s, vh) =>
        match truncate_factors u s vh counts with
        | None => None
        | Some (u1, s1, vh1) =>
            match mode with
            | None => Some (u1, Some s1, vh1)
            | Some m => match absorb m u1 s1 vh1 with
                        | Some (u2, vh2) => Some (u2, None, vh2)
                        | None => None
                        end
            end
        end
    end.
End Truncate.

(* exact stand-in for the square root on integer blocks of perfect squares *)
Definition sqrt_stub (t : tensor ZRing) : tensor ZRing := tmap ZRing Z.sqrt t.
