(* Model/HamBase.v — data types shared by the GENERATED Gen/Ham.v and the hand
   model Model/Ham.v (property C19).  Definitions only.

   Coefficients are exact rationals (Q).  A Python call that raises (KeyError
   of a coefficient dict, missing coordination) is `None`. *)
From Coq Require Export QArith.
From SV Require Import Base.Prelude.
Open Scope Z_scope.

Definition obind {A B} (o : option A) (f : A -> option B) : option B :=
  match o with Some a => f a | None => None end.

(* Python `d.setdefault(k, v0)`: returns (the value now stored under k, the dict) *)
Section Dict2.
  Context {K V : Type} (keqb : K -> K -> bool).
  Definition setdefault (k : K) (v0 : V) (d : list (K * V)) : V * list (K * V) :=
    match lookup keqb k d with
    | Some v => (v, d)
    | None => (v0, dset keqb k v0 d)
    end.
End Dict2.

(* ---- coefficient arguments of the `ham_*_from_edges` builders ------------- *)
Inductive edge_coef (S : Type) : Type :=
| EDict (d : list ((S * S) * Q))      (* isinstance(t, dict)  *)
| EFun (f : S -> S -> Q)              (* callable(t)          *)
| EScalar (c : Q).                    (* anything else        *)
Arguments EDict {S} d.
Arguments EFun {S} f.
Arguments EScalar {S} c.

Inductive node_coef (S : Type) : Type :=
| NDict (d : list (S * Q))
| NFun (f : S -> Q)
| NScalar (c : Q).
Arguments NDict {S} d.
Arguments NFun {S} f.
Arguments NScalar {S} c.

(* ---- what one edge passes to the local builder (keyword arguments) -------- *)
Record hubbard_call : Type := { hc_t : Q; hc_U : Q * Q; hc_mu : Q * Q; hc_coord : Z * Z }.
Record spinless_call : Type := { sc_t : Q; sc_V : Q; sc_mu : Q * Q; sc_coord : Z * Z }.
Record tfim_call : Type := { tc_jx : Q; tc_hz : Q * Q; tc_coord : Z * Z }.

(* ---- symbolic term lists of the local builders ----------------------------- *)
Inductive spin : Type := SpinNone | SpinUp | SpinDn.
(* local fermionic operator: (site 0 = "a" / 1 = "b", spin, true = creation) *)
Definition lop : Type := (nat * spin * bool)%type.

Inductive pauli : Type := PI | PX | PY | PZ.
Definition lpauli : Type := (nat * pauli)%type.

(* symbols a coefficient expression may mention *)
Inductive csym : Type :=
| SyT | SyV | SyU0 | SyU1 | SyMu0 | SyMu1 | SyC0 | SyC1 | SyJx | SyHz0 | SyHz1.

Inductive cexpr : Type :=
| CConst (z : Z)
| CSym (s : csym)
| CNeg (e : cexpr)
| CAdd (a b : cexpr)
| CSub (a b : cexpr)
| CMul (a b : cexpr)
| CDiv (a b : cexpr).

(* ---- skeleton of the bond loop of parse_edges_to_site_info ----------------- *)
Inductive si_end : Type := EndA | EndB.           (* infoa / infob *)
Inductive si_field : Type := FInds | FDuals | FShape.
Inductive si_val : Type := VInd | VConst (z : Z) | VBondDim | VPhysInd | VPhysDim.
Definition si_stmt : Type := (si_end * si_field * si_val)%type.
Inductive si_swap : Type := SwapNever | SwapIfGt | SwapIfLt.
