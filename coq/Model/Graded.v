(* Model/Graded.v — the Z2-graded (Koszul) sign algebra.  Definitions only.

   Part 1: odd-odd inversion parity of a permutation of axes 0..n-1 over a
           parity list (what `calc_phase_permutation` must compute).
   Part 2: words of legs over any type with decidable equality: positions,
           `before`, Koszul sign `K` between two arrangements of the same legs
           (xor over unordered odd pairs of order disagreement), block parity.
   Part 3: monomials = (sign, leg list), `cross`, the twisted product `star`. *)
From SV Require Import Base.Prelude.
Open Scope Z_scope.

(* ------------------------------------------------------------------ part 1 *)
Definition countb {A} (f : A -> bool) (l : list A) : nat := length (filter f l).

(* Python truthiness of `parities[i]` *)
Definition oddZ (par : list Z) (i : Z) : bool := negb (Z.eqb (nthZ par i) 0).

(* number of pairs of positions p < q of `perm` with perm[p] > perm[q] and both
   axes odd: the odd-odd inversions of the permutation *)
Fixpoint inv_count (par perm : list Z) : nat :=
  match perm with
  | [] => 0%nat
  | x :: t => ((if oddZ par x then countb (fun y => Z.ltb y x && oddZ par y) t else 0%nat)
               + inv_count par t)%nat
  end.

Definition inv_parity (par perm : list Z) : bool := Nat.odd (inv_count par perm).

(* -1 / +1 as the Python code returns them *)
Definition phase_of (b : bool) : Z := if b then -1 else 1.

(* number of odd entries of a parity list *)
Definition n_odd (par : list Z) : nat := countb (fun p => negb (Z.eqb p 0)) par.

(* ------------------------------------------------------------------ part 2 *)
Section Words.
  Context {L : Type} (leqb : L -> L -> bool).

  (* index of the first occurrence (length w if absent) *)
  Fixpoint pos (w : list L) (x : L) : nat :=
    match w with
    | [] => 0%nat
    | y :: w' => if leqb x y then 0%nat else S (pos w' x)
    end.

  Definition before (w : list L) (x y : L) : bool := Nat.ltb (pos w x) (pos w y).

  Definition cmp_eqb (c d : comparison) : bool :=
    match c, d with Eq, Eq | Lt, Lt | Gt, Gt => true | _, _ => false end.

  (* the two words order x and y differently *)
  Definition disagree (w w' : list L) (x y : L) : bool :=
    negb (cmp_eqb (Nat.compare (pos w x) (pos w y)) (Nat.compare (pos w' x) (pos w' y))).

  (* xor of g over the unordered pairs of a word (each pair once, as (earlier, later)) *)
  Fixpoint pairxor (g : L -> L -> bool) (w : list L) : bool :=
    match w with
    | [] => false
    | x :: t => xorb (xorb_list (map (g x) t)) (pairxor g t)
    end.

  (* Koszul sign between two arrangements w, w' of the same legs *)
  Definition K (par : L -> bool) (w w' : list L) : bool :=
    pairxor (fun x y => par x && par y && disagree w w' x y) w.

  (* parity of a block of legs *)
  Definition bpar (par : L -> bool) (b : list L) : bool := xorb_list (map par b).

  (* number of odd legs *)
  Definition nodd (par : L -> bool) (b : list L) : nat := countb par b.
End Words.

(* ------------------------------------------------------------------ part 3 *)
Section Monomials.
  Context {L : Type} (par : L -> bool) (canon : L -> nat).

  (* parity of the number of odd pairs (x in m1, y in m2) with y before x in canon *)
  Definition cross1 (x : L) (m2 : list L) : bool :=
    xorb_list (map (fun y => par x && par y && Nat.ltb (canon y) (canon x)) m2).
  Definition cross (m1 m2 : list L) : bool := xorb_list (map (fun x => cross1 x m2) m1).

  (* inversion parity of a word against canon: K w (sorted by canon) *)
  Fixpoint winv (w : list L) : bool :=
    match w with
    | [] => false
    | x :: t => xorb (cross1 x t) (winv t)
    end.

  Definition mono := (bool * list L)%type.     (* (sign: true = -1, legs) *)
  Definition star (a b : mono) : mono :=
    (xorb (xorb (fst a) (fst b)) (cross (snd a) (snd b)), snd a ++ snd b).
  (* equality of monomials: same sign, same set of legs *)
  Definition mono_sign (a : mono) : bool := fst a.
  Definition mono_legs (a : mono) : list L := snd a.
End Monomials.
