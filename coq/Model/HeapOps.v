(* Model/HeapOps.v — C14: the mutation skeleton of every public symmray
   operation as a script of the heap language of Model/Heap.v.  Each script
   follows the Python method statement by statement as far as dict objects,
   object fields and numpy buffers are concerned; index tables, charges and
   odd-position labels are immutable values and do not appear.
   Conventions: object locals 0,1 = arguments (self/a, other/b/v), 2,3,4 =
   results, 5,6,7 = internal temporaries.  Definitions only. *)
From SV Require Import Base.Prelude Model.Heap.
Open Scope nat_scope.

Section Ops.
  Context {K : Type}.
  Notation cmd := (@cmd K).
  Notation "a ;; b" := (Seq a b) (at level 100, right associativity).

  (* the data dependent ingredients of a call: sector maps (permuted(sector),
     blockmap[sector], ...), sector lists (sub-sectors, valid sectors, loop
     counts) and tests on sectors (parity odd, block aligned, all zero ...) *)
  Record params := mkPar {
    f1 : K -> K; f2 : K -> K; f3 : K -> K;
    g1 : K -> list K; g2 : K -> list K;
    l1 : list K; l2 : list K; l3 : list K;
    p1 : K -> bool; p2 : K -> bool; p3 : K -> bool }.
  Context (P : params).

  Definition kc (l : list K) : K -> list K := fun _ => l.
  Definition k_0 := @KV K 0.

  (* ---- building blocks ------------------------------------------------ *)
  (* dst = src.copy()   (abelian_core.py:1103, fermionic_core.py:180, block_core.py:21) *)
  Definition B_copy (dst src : nat) : cmd :=
    GetField 10 src false ;; CopyDict 11 10 ;; GetField 12 src true ;; CopyDict 13 12 ;; NewObj dst 11 13.
  (* dst = src.copy_with(blocks=<dict local d>)  : shares d, copies the sign table *)
  Definition B_copy_with (dst src d : nat) : cmd :=
    GetField 12 src true ;; CopyDict 13 12 ;; NewObj dst d 13.
  (* dst = cls(blocks=<dict local d>)  : __init__ does dict(blocks), phases = dict(()) *)
  Definition B_new_with (dst d : nat) : cmd :=
    CopyDict 11 d ;; NewDict 13 ;; NewObj dst 11 13.
  (* o.apply_to_arrays(fn)   (block_core.py:93) *)
  Definition B_apply (o : nat) : cmd :=
    GetField 0 o false ;; ForEach 0 0 0 (NewBuf 1 ;; SetItem 0 k_0 1).
  (* o._map_blocks(fn_block, fn_sector)   (block_core.py:36, fermionic_core.py:255) *)
  Definition B_map (o : nat) (f : K -> K) (view ferm : bool) : cmd :=
    GetField 0 o false ;; NewDict 1 ;;
    ForEach 0 0 0 ((if view then Alias 1 0 else NewBuf 1) ;; SetItem 1 (KF f k_0) 1) ;;
    Rebind o false 1 ;;
    (if ferm then GetField 2 o true ;; NewDict 3 ;; ForEach 2 0 0 (SetItem 3 (KF f k_0) 0) ;; Rebind o true 3
     else Skip).
  (* AbelianArray.transpose(o, axes, inplace=True) *)
  Definition B_transpose (o : nat) (f : K -> K) : cmd := B_map o f true false.
  (* phases.pop(k) if the new phase is +1 else phases[k] = -1 *)
  Definition B_toggle (d : nat) (k : kexp) : cmd := IfHas d k (DelItem d k) (SetTok d k 1).
  (* o.phase_sync(inplace=True)   (fermionic_core.py:437-451) *)
  Definition B_sync (o : nat) : cmd :=
    GetField 2 o true ;; GetField 0 o false ;;
    ForEach 2 0 0 (PopItem 2 1 2 ;; IfHas 0 (KV 1) (NewBuf 1 ;; SetItem 0 (KV 1) 1) Skip).
  (* o.phase_flip( *axs, inplace=True)   (fermionic_core.py:334-347) *)
  Definition B_pflip (o : nat) (odd : K -> bool) : cmd :=
    GetField 2 o true ;; CopyDict 3 2 ;; GetField 0 o false ;;
    ForEach 0 0 0 (IfKey odd k_0 (B_toggle 3 k_0) Skip) ;; Rebind o true 3.
  (* o.phase_transpose(axes, inplace=True) *)
  Definition B_ptrans (o : nat) (odd : K -> bool) : cmd :=
    GetField 2 o true ;; GetField 0 o false ;; ForEach 0 0 0 (IfKey odd k_0 (B_toggle 2 k_0) Skip).
  (* o.phase_global(inplace=True) *)
  Definition B_pglobal (o : nat) : cmd :=
    GetField 2 o true ;; GetField 0 o false ;;
    ForEach 0 0 0 (IfHas 2 k_0 (DelItem 2 k_0) (DelItem 2 k_0 ;; SetTok 2 k_0 1)).
  (* FermionicArray.transpose(o, axes, phase, inplace=True) *)
  Definition B_ftranspose (o : nat) (f : K -> K) (phase : bool) (odd : K -> bool) : cmd :=
    GetField 2 o true ;; NewDict 3 ;;
    (if phase then GetField 0 o false ;; ForEach 0 0 0 (IfKey odd k_0 (SetTok 3 (KF f k_0) 1) Skip)
     else ForEach 2 0 0 (SetItem 3 (KF f k_0) 0)) ;;
    Rebind o true 3 ;; B_transpose o f.
  (* o._fuse_core( *groups, mode, inplace) -> res   (abelian_core.py:1852-1930, 889-1039) *)
  Definition B_fuse_core (o res : nat) (inplace : bool) (f : K -> K) (insert : bool) : cmd :=
    GetField 0 o false ;; NewDict 1 ;;
    ForEach 0 0 0 (Alias 1 0 ;;
      if insert
      then IfHas 1 (KF f k_0) (GetItem 2 1 (KF f k_0)) (NewBuf 2 ;; SetItem 1 (KF f k_0) 2) ;; WriteBuf 2
      else IfHas 1 (KF f k_0) Skip (SetItem 1 (KF f k_0) 1)) ;;
    (if inplace then Rebind o false 1 else B_copy_with res o 1).
  (* AbelianArray.unfuse(o, axis, inplace) -> res   (abelian_core.py:1997-2057) *)
  Definition B_unfuse (o res : nat) (inplace : bool) (g : K -> list K) : cmd :=
    GetField 0 o false ;; NewDict 1 ;;
    ForEach 0 0 0 (ForKeys g k_0 2 (Alias 1 0 ;; SetItem 1 (KV 2) 1)) ;;
    (if inplace then Rebind o false 1 else B_copy_with res o 1).
  (* `new = self if inplace else self.copy()` : the local that plays `new` *)
  Definition nw (inplace : bool) : nat := 2.
  Definition B_new (inplace : bool) : cmd := if inplace then OAssign 2 0 else B_copy 2 0.
  (* FermionicArray.fuse / AbelianArray.fuse on local x, in place *)
  Definition B_fuse_ip (x : nat) (ferm insert : bool) : cmd :=
    (if ferm then B_ftranspose x (f1 P) true (p1 P) ;; B_pflip x (p2 P) ;; B_ptrans x (p3 P) ;; B_sync x else Skip) ;;
    B_fuse_core x x true (f2 P) insert ;;
    ForKeys (kc (l1 P)) k_0 3 (B_map x (f3 P) true ferm).
  Definition B_unfuse_ip (x : nat) (ferm : bool) : cmd :=
    (if ferm then B_sync x else Skip) ;; B_unfuse x x true (g1 P) ;;
    (if ferm then B_pflip x (p2 P) ;; B_ptrans x (p3 P) else Skip).
  (* _tensordot_blockwise(a, b) -> res   (abelian_core.py:2372-2447) *)
  Definition B_tdot_blockwise (a b res : nat) : cmd :=
    GetField 4 b false ;; GetField 0 a false ;; NewDict 1 ;;
    ForEach 0 0 0 (ForKeys (g2 P) k_0 2 (IfHas 1 (KV 2) Skip (NewBuf 1 ;; SetItem 1 (KV 2) 1))) ;;
    ForEach 1 0 0 (NewBuf 1 ;; SetItem 1 k_0 1) ;;
    B_copy_with res a 1.
  (* drop_misaligned_sectors(a, b, inplace) -> ra, rb   (abelian_core.py:2450-2522) *)
  Definition B_drop_misaligned (a b ra rb : nat) (inplace : bool) : cmd :=
    GetField 0 a false ;; NewDict 1 ;; ForEach 0 0 0 (IfKey (p1 P) k_0 (SetItem 1 k_0 0) Skip) ;;
    GetField 4 b false ;; NewDict 5 ;; ForEach 4 0 0 (IfKey (p2 P) k_0 (SetItem 5 k_0 0) Skip) ;;
    (if inplace then Rebind a false 1 ;; Rebind b false 5
     else B_copy_with ra a 1 ;; B_copy_with rb b 5).
  (* tensordot_abelian(a, b, mode) -> res *)
  Definition B_tdot (a b res : nat) (fused empty insert : bool) : cmd :=
    if fused then
      B_drop_misaligned a b 5 6 false ;;
      (if empty then NewDict 1 ;; B_copy_with res 5 1
       else B_fuse_core 5 7 false (f2 P) insert ;; B_fuse_core 6 5 false (f3 P) insert ;;
            B_tdot_blockwise 7 5 res ;;
            ForKeys (kc (l2 P)) k_0 3 (B_unfuse res res true (g1 P)))
    else B_tdot_blockwise a b res.
  (* AbelianArray.einsum(x) -> res *)
  Definition B_einsum (x res : nat) : cmd :=
    GetField 0 x false ;; NewDict 1 ;;
    ForEach 0 0 0 (IfKey (p1 P) k_0
       (IfHas 1 (KF (f2 P) k_0) (NewBuf 1 ;; SetItem 1 (KF (f2 P) k_0) 1) (Alias 1 0 ;; SetItem 1 (KF (f2 P) k_0) 1)) Skip) ;;
    B_copy_with res x 1.

  (* ---- the operations -------------------------------------------------- *)
  Inductive missing := MNone | MOuter | MInner.

  Inductive op :=
  | OCopy | OReadOnly | OFReadCopy (flip : bool)
  | OApply | OSetParams | OFillMissing | ODropMissing            (* documented in-place methods *)
  | OSyncCharges (ip : bool)
  | OConj (ip : bool) | OTranspose (ip : bool) | ODagger (ip : bool)
  | OSqueeze (ip ferm : bool) | OExpandDims (ip ferm : bool)
  | OFuse (ip ferm groups insert : bool) | OUnfuse (ip ferm : bool) | OUnfuseAll (ip ferm : bool)
  | OReshape (ip ferm insert : bool)
  | OMulDiag (ip : bool)
  | OBinary (ip : bool) (m : missing) (ferm other_phases : bool)
  | OScalar (ip ferm : bool)
  | OPhaseFlip (ip noaxs : bool) | OPhaseTranspose (ip : bool) | OPhaseGlobal (ip : bool)
  | OPhaseSector (ip : bool) | OPhaseSync (ip : bool)
  | OFConj (ip glob : bool) | OFDagger (ip glob pdual : bool) | OFTranspose (ip phase : bool)
  | OTdot (fused empty insert : bool)
  | OFTdot (flip_a fused empty insert glob : bool)
  | OMatmul (ferm flip glob : bool)
  | OEinsum (ferm : bool)
  | ODropMisaligned (ip : bool)
  | OQr (flip : bool) | OSvd (flip : bool) | OEigh (ferm : bool) | OSolve (flip : bool)
  | OSvdTrunc (flip absorb : bool).

  Definition binary_body (xy other : nat) (m : missing) : cmd :=
    GetField 0 xy false ;; GetField 4 other false ;; CopyDict 5 4 ;;
    match m with
    | MNone => ForEach 0 0 0 (GetItem 2 5 k_0 ;; DelItem 5 k_0 ;; NewBuf 1 ;; SetItem 0 k_0 1)
    | MOuter => ForEach 0 0 0 (IfHas 5 k_0 (GetItem 2 5 k_0 ;; DelItem 5 k_0 ;; NewBuf 1 ;; SetItem 0 k_0 1)
                                           (SetItem 0 k_0 0)) ;; Update 0 5
    | MInner => ForEach 0 0 0 (IfHas 5 k_0 (GetItem 2 5 k_0 ;; DelItem 5 k_0 ;; NewBuf 1 ;; SetItem 0 k_0 1) (DelItem 0 k_0))
    end.

  (* u, s, v = svd(x) / q, r = qr(x): factors into locals 2, 3, 4 *)
  Definition svd_body (three flip : bool) : cmd :=
    GetField 0 0 false ;; NewDict 1 ;; NewDict 5 ;; NewDict 6 ;;
    ForEach 0 0 0 (NewBuf 1 ;; SetItem 1 k_0 1 ;; NewBuf 1 ;; SetItem 5 (KF (f1 P) k_0) 1 ;;
                   NewBuf 1 ;; SetItem 6 (KF (f2 P) k_0) 1) ;;
    B_copy_with 2 0 1 ;;
    (if three then B_new_with 3 5 else Skip) ;;
    B_new_with 4 6 ;;
    (if flip then B_pflip 4 (p1 P) else Skip).

  Definition script (o : op) : cmd :=
    match o with
    | OCopy => B_copy 2 0
    | OReadOnly => Skip
    | OFReadCopy flip => B_copy 5 0 ;; (if flip then B_pflip 5 (p1 P) else Skip) ;; B_copy 6 5 ;; B_sync 6
    | OApply => B_apply 0
    | OSetParams => GetField 0 0 false ;; GetField 4 1 false ;; Update 0 4
    | OFillMissing => GetField 0 0 false ;; ForKeys (kc (l1 P)) k_0 2 (IfHas 0 (KV 2) Skip (NewBuf 1 ;; SetItem 0 (KV 2) 1))
    | ODropMissing => GetField 0 0 false ;; ForEach 0 0 0 (IfKey (p1 P) k_0 (DelItem 0 k_0) Skip)
    | OSyncCharges ip => B_new ip ;; Skip
    | OConj ip => B_new ip ;; B_apply (nw ip)
    | OTranspose ip => B_new ip ;; B_transpose (nw ip) (f1 P)
    | ODagger ip => B_new ip ;; B_apply (nw ip) ;; B_transpose (nw ip) (f1 P)
    | OSqueeze ip ferm | OExpandDims ip ferm => B_new ip ;; B_map (nw ip) (f1 P) true ferm
    | OFuse ip ferm groups insert =>
        if ferm then
          B_new ip ;; (if groups then B_fuse_ip (nw ip) true insert
                       else ForKeys (kc (l1 P)) k_0 3 (B_map (nw ip) (f3 P) true true))
        else
          (if groups then B_fuse_core 0 2 ip (f2 P) insert ;; (if ip then OAssign 2 0 else Skip) else B_new ip) ;;
          ForKeys (kc (l1 P)) k_0 3 (B_map (nw ip) (f3 P) true false)
    | OUnfuse ip ferm =>
        if ferm then B_new ip ;; B_unfuse_ip (nw ip) true
        else B_unfuse 0 2 ip (g1 P) ;; (if ip then OAssign 2 0 else Skip)
    | OUnfuseAll ip ferm => B_new ip ;; ForKeys (kc (l1 P)) k_0 3 (B_unfuse_ip (nw ip) ferm)
    | OReshape ip ferm insert =>
        B_new ip ;;
        ForKeys (kc (l1 P)) k_0 3 (B_unfuse_ip (nw ip) ferm) ;;
        ForKeys (kc (l2 P)) k_0 3 (B_fuse_ip (nw ip) ferm insert) ;;
        ForKeys (kc (l3 P)) k_0 3 (B_map (nw ip) (f3 P) true ferm)
    | OMulDiag ip =>
        B_new ip ;; GetField 0 (nw ip) false ;;
        ForEach 0 0 0 (IfKey (p1 P) k_0 (NewBuf 1 ;; SetItem 0 k_0 1) (DelItem 0 k_0))
    | OBinary ip m ferm other_phases =>
        B_new ip ;;
        if ferm then
          B_sync (nw ip) ;;
          (if other_phases then B_copy 5 1 ;; B_sync 5 ;; binary_body (nw ip) 5 m
           else binary_body (nw ip) 1 m)
        else binary_body (nw ip) 1 m
    | OScalar ip ferm => B_new ip ;; (if ferm then B_sync (nw ip) else Skip) ;; B_apply (nw ip)
    | OPhaseFlip ip noaxs => B_new ip ;; (if noaxs then Skip else B_pflip (nw ip) (p1 P))
    | OPhaseTranspose ip => B_new ip ;; B_ptrans (nw ip) (p1 P)
    | OPhaseGlobal ip => B_new ip ;; B_pglobal (nw ip)
    | OPhaseSector ip => B_new ip ;; GetField 2 (nw ip) true ;; B_toggle 2 (KF (f1 P) k_0)
    | OPhaseSync ip => B_new ip ;; B_sync (nw ip)
    | OFConj ip glob =>
        B_new ip ;; GetField 0 (nw ip) false ;; GetField 2 (nw ip) true ;;
        ForEach 0 0 0 (NewBuf 1 ;; SetItem 0 k_0 1 ;; IfKey (p1 P) k_0 (B_toggle 2 k_0) Skip) ;;
        (if glob then B_pglobal (nw ip) else Skip)
    | OFDagger ip glob pdual =>
        B_new ip ;; GetField 0 (nw ip) false ;; GetField 2 (nw ip) true ;; NewDict 1 ;; NewDict 3 ;;
        ForEach 0 0 0 (IfHas 2 k_0 (DelItem 2 k_0 ;; SetTok 3 (KF (f1 P) k_0) 1) Skip ;;
                       NewBuf 1 ;; SetItem 1 (KF (f1 P) k_0) 1) ;;
        Rebind (nw ip) false 1 ;; Rebind (nw ip) true 3 ;;
        (if glob then B_pglobal (nw ip) else Skip) ;;
        (if pdual then B_pflip (nw ip) (p2 P) else Skip)
    | OFTranspose ip phase => B_new ip ;; B_ftranspose (nw ip) (f1 P) phase (p1 P)
    | OTdot fused empty insert => B_tdot 0 1 2 fused empty insert
    | OFTdot flip_a fused empty insert glob =>
        (* a = a.transpose(...); b = b.transpose(...): copies 3 and 4, then in place on them *)
        B_copy 3 0 ;; B_ftranspose 3 (f1 P) true (p1 P) ;;
        B_copy 4 1 ;; B_ftranspose 4 (f1 P) true (p1 P) ;;
        B_ptrans 4 (p2 P) ;;
        (if flip_a then B_pflip 3 (p3 P) else B_pflip 4 (p3 P)) ;;
        B_sync 3 ;; B_sync 4 ;;
        B_tdot 3 4 2 fused empty insert ;;
        (if glob then B_pglobal 2 else Skip) ;; B_sync 2
    | OMatmul ferm flip glob =>
        if ferm then
          (if flip then B_copy 7 1 ;; B_pflip 7 (p1 P) else B_copy 7 1) ;;
          B_copy 3 0 ;; B_sync 3 ;; B_copy 4 7 ;; B_sync 4 ;;
          B_tdot_blockwise 3 4 2 ;; (if glob then B_pglobal 2 else Skip) ;; B_sync 2
        else B_tdot_blockwise 0 1 2
    | OEinsum ferm =>
        if ferm then B_copy 5 0 ;; B_ftranspose 5 (f1 P) true (p2 P) ;; B_sync 5 ;; B_einsum 5 2
        else B_einsum 0 2
    | ODropMisaligned ip => B_drop_misaligned 0 1 2 3 ip
    | OQr flip => svd_body false flip
    | OSvd flip => svd_body true flip
    | OEigh ferm =>
        (* eigh_fermionic works on a = a.phase_sync() (a copy) *)
        (if ferm then B_copy 5 0 ;; B_sync 5 else OAssign 5 0) ;;
        GetField 0 5 false ;; NewDict 1 ;; NewDict 5 ;;
        ForEach 0 0 0 (NewBuf 1 ;; SetItem 5 (KF (f1 P) k_0) 1 ;; NewBuf 1 ;; SetItem 1 k_0 1) ;;
        B_new_with 2 5 ;; B_copy_with 3 5 1 ;;
        (if ferm then GetField 0 2 false ;; ForEach 0 0 0 (IfKey (p1 P) k_0 (NewBuf 1 ;; SetItem 0 k_0 1) Skip) else Skip)
    | OSolve flip =>
        GetField 0 0 false ;; GetField 4 1 false ;; NewDict 1 ;;
        ForEach 0 0 0 (IfHas 4 (KF (f1 P) k_0) (NewBuf 1 ;; SetItem 1 (KF (f2 P) k_0) 1) Skip) ;;
        B_copy_with 2 1 1 ;; (if flip then B_pflip 2 (p1 P) else Skip)
    | OSvdTrunc flip absorb =>
        svd_body true flip ;;
        GetField 0 2 false ;; GetField 5 3 false ;; GetField 6 4 false ;;
        ForEach 0 0 0 (IfKey (p2 P) k_0
            (DelItem 0 k_0 ;; DelItem 5 (KF (f1 P) k_0) ;; DelItem 6 (KF (f2 P) k_0))
            (GetItem 1 0 k_0 ;; SetItem 0 k_0 1 ;;
             GetItem 1 5 (KF (f1 P) k_0) ;; SetItem 5 (KF (f1 P) k_0) 1 ;;
             GetItem 1 6 (KF (f2 P) k_0) ;; SetItem 6 (KF (f2 P) k_0) 1)) ;;
        (if absorb then ForEach 0 0 0 (NewBuf 1 ;; SetItem 0 k_0 1 ;; NewBuf 1 ;; SetItem 6 (KF (f2 P) k_0) 1) else Skip)
    end.

  Definition nargs (o : op) : nat :=
    match o with
    | OSetParams | OMulDiag _ | OBinary _ _ _ _ | OTdot _ _ _ | OFTdot _ _ _ _ _ | OMatmul _ _ _
    | ODropMisaligned _ | OSolve _ => 2
    | _ => 1
    end.

  (* the object locals a call is entitled to write through: the receiver(s) of
     an in-place call / of a documented in-place method *)
  Definition recv (o : op) : list nat :=
    match o with
    | OApply | OSetParams | OFillMissing | ODropMissing => [0]
    | OSyncCharges ip | OConj ip | OTranspose ip | ODagger ip | OSqueeze ip _ | OExpandDims ip _
    | OFuse ip _ _ _ | OUnfuse ip _ | OUnfuseAll ip _ | OReshape ip _ _ | OMulDiag ip | OBinary ip _ _ _
    | OScalar ip _ | OPhaseFlip ip _ | OPhaseTranspose ip | OPhaseGlobal ip | OPhaseSector ip | OPhaseSync ip
    | OFConj ip _ | OFDagger ip _ _ | OFTranspose ip _ => if ip then [0] else []
    | ODropMisaligned ip => if ip then [0; 1] else []
    | _ => []
    end.

  (* object locals holding the returned arrays *)
  Definition rets (o : op) : list nat :=
    match o with
    | OReadOnly | OFReadCopy _ => []
    | OApply | OSetParams | OFillMissing | ODropMissing => [0]
    | OCopy | OTdot _ _ _ | OFTdot _ _ _ _ _ | OMatmul _ _ _ | OEinsum _ | OSolve _ => [2]
    | ODropMisaligned ip => if ip then [0; 1] else [2; 3]
    | OQr _ => [2; 4]
    | OSvd _ | OSvdTrunc _ _ => [2; 3; 4]
    | OEigh _ => [2; 3]
    | OSyncCharges ip | OConj ip | OTranspose ip | ODagger ip | OSqueeze ip _ | OExpandDims ip _
    | OFuse ip _ _ _ | OUnfuse ip _ | OUnfuseAll ip _ | OReshape ip _ _ | OMulDiag ip | OBinary ip _ _ _
    | OScalar ip _ | OPhaseFlip ip _ | OPhaseTranspose ip | OPhaseGlobal ip | OPhaseSector ip | OPhaseSync ip
    | OFConj ip _ | OFDagger ip _ _ | OFTranspose ip _ => [nw ip]
    end.

  (* the call `dsts = o(args)` on a register file *)
  Definition instr_of (o : op) (args dsts : list nat) : @instr K :=
    mkI (script o) args (recv o)
        (map (fun j => (nth j (rets o) 0, nth j dsts 0)) (seq 0 (length (rets o)))).

  (* does the operation offer an `inplace` flag, and the same op with the flag set *)
  Definition with_flag (o : op) (b : bool) : option op :=
    match o with
    | OSyncCharges _ => Some (OSyncCharges b) | OConj _ => Some (OConj b)
    | OTranspose _ => Some (OTranspose b) | ODagger _ => Some (ODagger b)
    | OSqueeze _ f => Some (OSqueeze b f) | OExpandDims _ f => Some (OExpandDims b f)
    | OFuse _ f g i => Some (OFuse b f g i) | OUnfuse _ f => Some (OUnfuse b f)
    | OUnfuseAll _ f => Some (OUnfuseAll b f) | OReshape _ f i => Some (OReshape b f i)
    | OMulDiag _ => Some (OMulDiag b) | OBinary _ m f p => Some (OBinary b m f p)
    | OScalar _ f => Some (OScalar b f) | OPhaseFlip _ n => Some (OPhaseFlip b n)
    | OPhaseTranspose _ => Some (OPhaseTranspose b) | OPhaseGlobal _ => Some (OPhaseGlobal b)
    | OPhaseSector _ => Some (OPhaseSector b) | OPhaseSync _ => Some (OPhaseSync b)
    | OFConj _ g => Some (OFConj b g) | OFDagger _ g p => Some (OFDagger b g p)
    | OFTranspose _ p => Some (OFTranspose b p)
    | ODropMisaligned _ => Some (ODropMisaligned b)
    | _ => None
    end.
End Ops.
