(* Model/Heap.v — property C14: a store of Python dict objects, numpy buffers
   and array objects, a small heap language whose scripts mirror the mutation
   skeleton of every public symmray operation statement by statement, and a
   static "writes only what this call owns" analysis.  Definitions only. *)
From SV Require Import Base.Prelude.
From Coq Require Import Arith PeanoNat.
Open Scope nat_scope.

(* ------------------------------------------------------------------ store *)
(* A dict object: insertion ordered association list key -> value.  For a
   block dict the value is the identity of the memory a numpy array lives in
   (a view has the identity of its base); for a sign dict it is a token.     *)
Definition dict (K : Type) := list (K * nat).

(* An array object (AbelianArray / FermionicArray / BlockVector): references
   to its two dict objects.  Index tables, charge, symmetry, odd-position
   labels are immutable values (tuples / frozen objects) and are not part of
   the mutable store.  Objects without a sign table own a private empty one.  *)
Record obj := mkO { oblocks : nat; ophases : nat }.
Definition ofields (o : obj) : list nat := [oblocks o; ophases o].
Definition oget (o : obj) (f : bool) : nat := if f then ophases o else oblocks o.
Definition oset (o : obj) (f : bool) (r : nat) : obj :=
  if f then mkO (oblocks o) r else mkO r (ophases o).
Definition obj0 : obj := mkO 0 0.

Record heap (K : Type) := mkH { hd : list (dict K); hb : list nat; ho : list obj }.
Arguments mkH {K}. Arguments hd {K}. Arguments hb {K}. Arguments ho {K}.

Definition allrefs (os : list obj) : list nat := concat (map ofields os).

(* replace position i (no-op when out of range) *)
Fixpoint upd_nth {A} (i : nat) (x : A) (l : list A) : list A :=
  match l, i with
  | [], _ => []
  | _ :: l', O => x :: l'
  | y :: l', S i' => y :: upd_nth i' x l'
  end.

Definition upd {A} (f : nat -> A) (i : nat) (x : A) : nat -> A :=
  fun j => if Nat.eqb j i then x else f j.

(* Python dict primitives on association lists (keys compared by keqb) *)
Section DictOps.
  Context {K : Type} (keqb : K -> K -> bool).
  Definition d_set (k : K) (v : nat) (d : dict K) : dict K := dset keqb k v d.
  Definition d_del (k : K) (d : dict K) : dict K := dpop keqb k d.
  Definition d_get (k : K) (d : dict K) : option nat := lookup keqb k d.
  Definition d_update (d w : dict K) : dict K := fold_left (fun acc kv => d_set (fst kv) (snd kv) acc) w d.
End DictOps.

(* ---------------------------------------------------------------- language *)
Section Lang.
  Context {K : Type} (keqb : K -> K -> bool) (k0 : K).

  Inductive kexp :=
  | KV (x : nat)                       (* a key held in a local *)
  | KF (f : K -> K) (e : kexp).        (* fn_sector(k), permuted(sector, axes), ... *)

  (* Locals: d* hold dict references, o* object references, b* buffer
     identities, k* keys. *)
  Inductive cmd :=
  | Skip
  | Seq (c1 c2 : cmd)
  | NewDict (v : nat)                              (* v = {} *)
  | CopyDict (v w : nat)                           (* v = w.copy()  /  dict(w) *)
  | GetField (v o : nat) (f : bool)                (* v = o._blocks (f=false) / o._phases (f=true) *)
  | SetItem (d : nat) (k : kexp) (b : nat)         (* d[k] = b *)
  | SetTok (d : nat) (k : kexp) (t : nat)          (* d[k] = -1 *)
  | DelItem (d : nat) (k : kexp)                   (* del d[k] / d.pop(k, None) *)
  | GetItem (b d : nat) (k : kexp)                 (* b = d[k] *)
  | PopItem (d kx bx : nat)                        (* kx, bx = d.popitem() *)
  | Update (d w : nat)                             (* d.update(w) *)
  | Rebind (o : nat) (f : bool) (d : nat)          (* o._blocks = d  (modify) *)
  | NewObj (o d p : nat)                           (* o = cls.__new__; o._blocks = d; o._phases = p *)
  | OAssign (o o' : nat)                           (* o = o'   (`new = self`) *)
  | NewBuf (b : nat)                               (* b = fn(...)  : a new numpy array *)
  | WriteBuf (b : nat)                             (* b[sel] = ... : in-place numpy write *)
  | Alias (b b' : nat)                             (* b = view of b' (transpose, reshape, slice) *)
  | ForEach (d kx bx : nat) (body : cmd)           (* for kx, bx in list(d.items()): body *)
  | ForKeys (g : K -> list K) (k : kexp) (ky : nat) (body : cmd)   (* for ky in g(k): body *)
  | IfHas (d : nat) (k : kexp) (c1 c2 : cmd)       (* if k in d: c1 else: c2 *)
  | IfKey (p : K -> bool) (k : kexp) (c1 c2 : cmd).  (* data dependent test *)

  Record st := mkS { sh : heap K; dv : nat -> nat; ov : nat -> nat; bv : nat -> nat; kv : nat -> K }.

  Fixpoint keval (s : st) (e : kexp) : K :=
    match e with KV x => kv s x | KF f e' => f (keval s e') end.

  Definition dict_at (h : heap K) (r : nat) : dict K := nth r (hd h) [].
  Definition obj_at (h : heap K) (o : nat) : obj := nth o (ho h) obj0.
  Definition buf_at (h : heap K) (b : nat) : nat := nth b (hb h) 0.

  Definition set_dict (h : heap K) (r : nat) (d : dict K) : heap K := mkH (upd_nth r d (hd h)) (hb h) (ho h).
  Definition push_dict (h : heap K) (d : dict K) : heap K := mkH (hd h ++ [d]) (hb h) (ho h).

  Definition with_h (s : st) (h : heap K) : st := mkS h (dv s) (ov s) (bv s) (kv s).
  Definition with_d (s : st) (v r : nat) : st := mkS (sh s) (upd (dv s) v r) (ov s) (bv s) (kv s).
  Definition with_o (s : st) (v r : nat) : st := mkS (sh s) (dv s) (upd (ov s) v r) (bv s) (kv s).
  Definition with_b (s : st) (v r : nat) : st := mkS (sh s) (dv s) (ov s) (upd (bv s) v r) (kv s).
  Definition with_k (s : st) (v : nat) (k : K) : st := mkS (sh s) (dv s) (ov s) (bv s) (upd (kv s) v k).

  Definition last_item (d : dict K) : option (K * nat) :=
    match rev d with [] => None | x :: _ => Some x end.

  Fixpoint exec (c : cmd) (s : st) : st :=
    let h := sh s in
    match c with
    | Skip => s
    | Seq c1 c2 => exec c2 (exec c1 s)
    | NewDict v => with_d (with_h s (push_dict h [])) v (length (hd h))
    | CopyDict v w => with_d (with_h s (push_dict h (dict_at h (dv s w)))) v (length (hd h))
    | GetField v o f => with_d s v (oget (obj_at h (ov s o)) f)
    | SetItem d k b => with_h s (set_dict h (dv s d) (d_set keqb (keval s k) (bv s b) (dict_at h (dv s d))))
    | SetTok d k t => with_h s (set_dict h (dv s d) (d_set keqb (keval s k) t (dict_at h (dv s d))))
    | DelItem d k => with_h s (set_dict h (dv s d) (d_del keqb (keval s k) (dict_at h (dv s d))))
    | GetItem b d k =>
        match d_get keqb (keval s k) (dict_at h (dv s d)) with
        | Some r => with_b s b r
        | None => with_b s b (length (hb h))          (* KeyError: no buffer *)
        end
    | PopItem d kx bx =>
        match last_item (dict_at h (dv s d)) with
        | Some (k, r) => with_b (with_k (with_h s (set_dict h (dv s d) (removelast (dict_at h (dv s d))))) kx k) bx r
        | None => with_b s bx (length (hb h))     (* KeyError: no buffer *)
        end
    | Update d w => with_h s (set_dict h (dv s d) (d_update keqb (dict_at h (dv s d)) (dict_at h (dv s w))))
    | Rebind o f d => with_h s (mkH (hd h) (hb h) (upd_nth (ov s o) (oset (obj_at h (ov s o)) f (dv s d)) (ho h)))
    | NewObj o d p => with_o (with_h s (mkH (hd h) (hb h) (ho h ++ [mkO (dv s d) (dv s p)]))) o (length (ho h))
    | OAssign o o' => with_o s o (ov s o')
    | NewBuf b => with_b (with_h s (mkH (hd h) (hb h ++ [0]) (ho h))) b (length (hb h))
    | WriteBuf b => with_h s (mkH (hd h) (upd_nth (bv s b) (S (buf_at h (bv s b))) (hb h)) (ho h))
    | Alias b b' => with_b s b (bv s b')
    | ForEach d kx bx body =>
        fold_left (fun s' (it : K * nat) => exec body (with_b (with_k s' kx (fst it)) bx (snd it)))
                  (dict_at h (dv s d)) s
    | ForKeys g k ky body =>
        fold_left (fun s' (x : K) => exec body (with_k s' ky x)) (g (keval s k)) s
    | IfHas d k c1 c2 =>
        match d_get keqb (keval s k) (dict_at h (dv s d)) with Some _ => exec c1 s | None => exec c2 s end
    | IfKey p k c1 c2 => if p (keval s k) then exec c1 s else exec c2 s
    end.

  (* ------------------------------------------------------ static analysis *)
  (* What the current call may write: dicts it allocated itself or dicts that
     belonged to the receiver of an in-place call.                           *)
  Inductive dstat := DOther | DHeld | DFree (allfresh : bool).
  Inductive ostat := OArg | OW.
  Inductive bstat := BOther | BFresh.

  Record aenv := mkA { ad : list dstat; ao : list ostat; ab : list bstat }.

  Fixpoint setl {A} (dflt : A) (i : nat) (x : A) (l : list A) : list A :=
    match i, l with
    | O, [] => [x]
    | O, _ :: l' => x :: l'
    | S i', [] => dflt :: setl dflt i' x []
    | S i', y :: l' => y :: setl dflt i' x l'
    end.

  Definition gd (a : aenv) v := nth v (ad a) DOther.
  Definition go (a : aenv) v := nth v (ao a) OArg.
  Definition gb (a : aenv) v := nth v (ab a) BOther.
  Definition sd (a : aenv) v x := mkA (setl DOther v x (ad a)) (ao a) (ab a).
  Definition so (a : aenv) v x := mkA (ad a) (setl OArg v x (ao a)) (ab a).
  Definition sb (a : aenv) v x := mkA (ad a) (ao a) (setl BOther v x (ab a)).

  Definition d_writable (x : dstat) : bool := match x with DOther => false | _ => true end.
  Definition d_isfree (x : dstat) : bool := match x with DFree _ => true | _ => false end.
  Definition d_allfresh (x : dstat) : bool := match x with DFree true => true | _ => false end.
  Definition b_isfresh (x : bstat) : bool := match x with BFresh => true | _ => false end.
  Definition o_isw (x : ostat) : bool := match x with OW => true | _ => false end.
  Definition d_and (x : dstat) (c : bool) : dstat := match x with DFree af => DFree (af && c) | y => y end.

  (* information order: DOther / OArg / BOther know nothing *)
  Definition d_leb (x y : dstat) : bool :=
    match x, y with
    | DOther, _ => true
    | DHeld, (DHeld | DFree _) => true
    | DFree false, DFree _ => true
    | DFree true, DFree true => true
    | _, _ => false
    end.
  Definition o_leb (x y : ostat) : bool := match x, y with OArg, _ => true | OW, OW => true | _, _ => false end.
  Definition b_leb (x y : bstat) : bool := match x, y with BOther, _ => true | BFresh, BFresh => true | _, _ => false end.
  Definition d_meet (x y : dstat) : dstat :=
    match x, y with
    | DOther, _ | _, DOther => DOther
    | DFree a, DFree b => DFree (a && b)
    | _, _ => DHeld
    end.
  Definition o_meet (x y : ostat) : ostat := match x, y with OW, OW => OW | _, _ => OArg end.
  Definition b_meet (x y : bstat) : bstat := match x, y with BFresh, BFresh => BFresh | _, _ => BOther end.

  Definition a_leb (a1 a2 : aenv) : bool :=
    forallb (fun i => d_leb (gd a1 i) (gd a2 i)) (seq 0 (length (ad a1))) &&
    forallb (fun i => o_leb (go a1 i) (go a2 i)) (seq 0 (length (ao a1))) &&
    forallb (fun i => b_leb (gb a1 i) (gb a2 i)) (seq 0 (length (ab a1))).

  Definition a_meet (a1 a2 : aenv) : aenv :=
    mkA (map (fun i => d_meet (gd a1 i) (gd a2 i)) (seq 0 (length (ad a1))))
        (map (fun i => o_meet (go a1 i) (go a2 i)) (seq 0 (length (ao a1))))
        (map (fun i => b_meet (gb a1 i) (gb a2 i)) (seq 0 (length (ab a1)))).

  Definition guard (c : bool) (a : aenv) : option aenv := if c then Some a else None.

  (* loop invariant by widening: weaken the entry knowledge until the body
     re-establishes it (at most `fuel` rounds) *)
  Fixpoint loop_fix (f : aenv -> option aenv) (fuel : nat) (a : aenv) : option aenv :=
    match f a with
    | None => None
    | Some a2 =>
        if a_leb a a2 then Some a
        else match fuel with O => None | S n => loop_fix f n (a_meet a a2) end
    end.

  (* safe a c = Some a' : starting from knowledge a, every store performed by
     c goes into something the call owns, and a' holds afterwards. *)
  Fixpoint safe (c : cmd) (a : aenv) : option aenv :=
    match c with
    | Skip => Some a
    | Seq c1 c2 => match safe c1 a with Some a1 => safe c2 a1 | None => None end
    | NewDict v => Some (sd a v (DFree true))
    | CopyDict v w => Some (sd a v (DFree (d_allfresh (gd a w))))
    | GetField v o f => Some (sd a v (if o_isw (go a o) then DHeld else DOther))
    | SetItem d k b => guard (d_writable (gd a d)) (sd a d (d_and (gd a d) (b_isfresh (gb a b))))
    | SetTok d k t => guard (d_writable (gd a d)) (sd a d (d_and (gd a d) false))
    | DelItem d k => guard (d_writable (gd a d)) (sd a d (d_and (gd a d) true))
    | GetItem b d k => Some (sb a b (if d_allfresh (gd a d) then BFresh else BOther))
    | PopItem d kx bx => guard (d_writable (gd a d))
                           (sb (sd a d (d_and (gd a d) true)) bx (if d_allfresh (gd a d) then BFresh else BOther))
    | Update d w => guard (d_writable (gd a d)) (sd a d (d_and (gd a d) (d_allfresh (gd a w))))
    | Rebind o f d => guard (o_isw (go a o) && d_isfree (gd a d)) (sd a d DHeld)
    | NewObj o d p =>
        guard (negb (Nat.eqb d p) && d_isfree (gd a d) && d_isfree (gd a p))
              (so (sd (sd a d DHeld) p DHeld) o OW)
    | OAssign o o' => Some (so a o (go a o'))
    | NewBuf b => Some (sb a b BFresh)
    | WriteBuf b => guard (b_isfresh (gb a b)) a
    | Alias b b' => Some (sb a b (gb a b'))
    | ForEach d kx bx body =>
        loop_fix (fun x => safe body (sb x bx BOther)) 4 (sb a bx BOther)
    | ForKeys g k ky body => loop_fix (safe body) 4 a
    | IfHas _ _ c1 c2 | IfKey _ _ c1 c2 =>
        match safe c1 a, safe c2 a with
        | Some a1, Some a2 => Some (a_meet a1 a2)
        | _, _ => None
        end
    end.

  (* knowledge at the start of a call: the object locals listed in recv are
     the receivers of an in-place call; nothing else is owned. *)
  Definition init_aenv (nobj : nat) (recv : list nat) : aenv :=
    mkA [] (map (fun i => if mem Nat.eqb i recv then OW else OArg) (seq 0 nobj)) [].

  (* ------------------------------------------------------------ observation *)
  (* What a user can see of an array object: the blocks with their contents in
     dict order, and the sign table in dict order. *)
  Definition shape (h : heap K) (o : nat) : dict K * dict K :=
    (dict_at h (oblocks (obj_at h o)), dict_at h (ophases (obj_at h o))).
  Definition bufs_valid (h : heap K) (o : nat) : Prop :=
    forall k b, In (k, b) (fst (shape h o)) -> b < length (hb h).
  Definition obs (h : heap K) (o : nat) : list (K * nat) * dict K :=
    (map (fun kb => (fst kb, buf_at h (snd kb))) (dict_at h (oblocks (obj_at h o))),
     dict_at h (ophases (obj_at h o))).

  (* each dict object is referenced by at most one field of one object, and
     every reference held by an object exists *)
  Definition Own (h : heap K) : Prop :=
    (forall o1 f1 o2 f2, o1 < length (ho h) -> o2 < length (ho h) ->
        oget (obj_at h o1) f1 = oget (obj_at h o2) f2 -> o1 = o2 /\ f1 = f2) /\
    (forall o f, o < length (ho h) -> oget (obj_at h o) f < length (hd h)).

  Fixpoint nodupb (l : list nat) : bool :=
    match l with [] => true | x :: l' => negb (mem Nat.eqb x l') && nodupb l' end.
  Definition ownb (h : heap K) : bool :=
    nodupb (allrefs (ho h)) && forallb (fun r => Nat.ltb r (length (hd h))) (allrefs (ho h)).

  (* ---------------------------------------------------------------- programs *)
  (* One call of a public operation: its script, the registers its object
     locals 0..n-1 are loaded from, which of them are in-place receivers, and
     which object locals are stored to which registers afterwards. *)
  Record instr := mkI { iscript : cmd; iargs : list nat; irecv : list nat; irets : list (nat * nat) }.

  Record pstate := mkP { ph : heap K; regs : list nat }.

  Definition load_env (rs : list nat) (args : list nat) : nat -> nat :=
    fun i => nth (nth i args 0) rs 0.

  Definition init_st (h : heap K) (rs args : list nat) : st :=
    mkS h (fun _ => 0) (load_env rs args) (fun _ => 0) (fun _ => k0).

  Definition store_rets (s : st) (rets : list (nat * nat)) (rs : list nat) : list nat :=
    fold_left (fun acc vr => upd_nth (snd vr) (ov s (fst vr)) acc) rets rs.

  (* a call whose argument registers do not exist raises: nothing happens *)
  Definition step (i : instr) (p : pstate) : pstate :=
    if forallb (fun r => Nat.ltb r (length (regs p))) (iargs i) then
      let s := exec (iscript i) (init_st (ph p) (regs p) (iargs i)) in
      mkP (sh s) (store_rets s (irets i) (regs p))
    else p.

  (* the script passes the analysis, every returned local is an object the
     call owns (a new object or the in-place receiver), receivers are arguments *)
  Definition instr_ok (i : instr) : bool :=
    match safe (iscript i) (init_aenv (length (iargs i)) (irecv i)) with
    | Some a => forallb (fun vr => o_isw (go a (fst vr))) (irets i) &&
                forallb (fun v => Nat.ltb v (length (iargs i))) (irecv i)
    | None => false
    end.

  Definition run (prog : list instr) (p : pstate) : pstate := fold_left (fun q i => step i q) prog p.

  (* objects that instruction i writes through when started in state p *)
  Definition receivers (i : instr) (p : pstate) : list nat :=
    map (fun v => load_env (regs p) (iargs i) v) (irecv i).

  Fixpoint untouched (o : nat) (prog : list instr) (p : pstate) : Prop :=
    match prog with
    | [] => True
    | i :: rest => ~ In o (receivers i p) /\ untouched o rest (step i p)
    end.
End Lang.
