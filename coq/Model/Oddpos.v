(* Model/Oddpos.v — model of `resolve_combined_oddpos(left, right, new)` of
   symmray/fermionic_core.py: the phased sort / annihilation loop over the
   concatenated odd-position labels.  Definitions only.

   The comparison `b < a` is the GENERATED `op_lt` (Gen/OpOrder.v); labels are
   `list Z` (see tr/gen_oporder.py).  Sign: true = the code calls
   `new.phase_global()` (phase == -1).

   Two models of the same loop are given:
   * `resolve_loop`  — zipper form: `pre` is oddpos[0..i) reversed, `suf` is
     oddpos[i..]; `i = max(0, i-1)` moves one element back from `pre`.
   * `resolve_idx`   — literal form with the index `i`, `list.pop(i)` twice and
     the two item assignments.  Proofs/OddposProofs.v shows they agree. *)
From SV Require Import Base.Prelude Gen.OpOrder Model.Graded.

Definition label_eqb (a b : label) : bool := list_eqb Z.eqb a b.

Inductive result :=
| OutOfFuel                              (* only the model can say this *)
| Raise                                  (* ValueError: non-conjugate duplicate *)
| Done (sign : bool) (oddpos : list op).

Fixpoint resolve_loop (fuel : nat) (sign : bool) (pre suf : list op) {struct fuel} : result :=
  match suf with
  | a :: b :: rest =>                                  (* while i < len(oddpos) - 1 *)
    match fuel with
    | O => OutOfFuel
    | S fuel' =>
      if label_eqb (fst a) (fst b) then
        if negb (Bool.eqb (snd a) (snd b)) then        (* a.dual != b.dual *)
          let sign' := if snd b then negb sign else sign in
          match pre with                               (* pop, pop, i = max(0, i-1) *)
          | [] => resolve_loop fuel' sign' [] rest
          | p :: pre' => resolve_loop fuel' sign' pre' (p :: rest)
          end
        else Raise
      else if op_lt b a then                           (* phased swap, i = max(0, i-1) *)
        match pre with
        | [] => resolve_loop fuel' (negb sign) [] (b :: a :: rest)
        | p :: pre' => resolve_loop fuel' (negb sign) pre' (p :: b :: a :: rest)
        end
      else resolve_loop fuel' sign (a :: pre) (b :: rest)   (* i += 1 *)
    end
  | _ => Done sign (rev pre ++ suf)
  end.

(* literal index form *)
Fixpoint resolve_idx (fuel : nat) (sign : bool) (i : nat) (l : list op) {struct fuel} : result :=
  if Nat.ltb (i + 1) (length l) then
    match fuel with
    | O => OutOfFuel
    | S fuel' =>
      match nth_error l i, nth_error l (i + 1) with
      | Some a, Some b =>
        if label_eqb (fst a) (fst b) then
          if negb (Bool.eqb (snd a) (snd b)) then
            resolve_idx fuel' (if snd b then negb sign else sign) (Nat.pred i)
                        (firstn i l ++ skipn (i + 2) l)
          else Raise
        else if op_lt b a then
          resolve_idx fuel' (negb sign) (Nat.pred i) (firstn i l ++ b :: a :: skipn (i + 2) l)
        else resolve_idx fuel' sign (S i) l
      | _, _ => Raise      (* unreachable: i + 1 < length l *)
      end
    end
  else Done sign l.

Definition fuel_bound (n : nat) : nat := n * n + 1.

(* resolve_combined_oddpos: the operands enter only through their label
   lists and the parity of the left one *)
Definition resolve_raw (l r : list op) (left_parity : bool) : result :=
  if is_nil l && is_nil r then Done false []
  else resolve_loop (fuel_bound (length (l ++ r))) (left_parity && Nat.odd (length r)) [] (l ++ r).

Definition resolve (l r : list op) (left_parity : bool) : option (bool * list op) :=
  match resolve_raw l r left_parity with
  | Done s w => Some (s, w)
  | _ => None
  end.

Definition resolve_raw_idx (l r : list op) (left_parity : bool) : result :=
  if is_nil l && is_nil r then Done false []
  else resolve_idx (fuel_bound (length (l ++ r))) (left_parity && Nat.odd (length r)) 0 (l ++ r).

(* ---- vocabulary of the specification ---- *)
(* number of inversions of a word with respect to the translated order *)
Fixpoint op_inv (w : list op) : nat :=
  match w with
  | [] => 0
  | x :: t => countb (fun y => op_lt y x) t + op_inv t
  end.

(* number of pairs (u in x, v in y) with v < u *)
Fixpoint op_cross (x y : list op) : nat :=
  match x with
  | [] => 0
  | u :: x' => countb (fun v => op_lt v u) y + op_cross x' y
  end.

Definition labels (w : list op) : list label := map fst w.

Definition lt_op (a b : op) : Prop := op_lt a b = true.

(* the congruence of DESIGN 2.3: graded swap of two different labels, and
   removal of an adjacent conjugate pair (sign iff it stands as x- x+) *)
Inductive rw : bool * list op -> bool * list op -> Prop :=
| rw_swap s p a b q : label_eqb (fst a) (fst b) = false ->
    rw (s, p ++ a :: b :: q) (negb s, p ++ b :: a :: q)
| rw_kill s p a b q : label_eqb (fst a) (fst b) = true -> snd a <> snd b ->
    rw (s, p ++ a :: b :: q) (xorb s (snd b), p ++ q).

Inductive rws : bool * list op -> bool * list op -> Prop :=
| rws_refl x : rws x x
| rws_step x y z : rw x y -> rws y z -> rws x z.
