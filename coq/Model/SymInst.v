(* Model/SymInst.v — the five built-in symmetries as instances of Base.Sym,
   assembled from the GENERATED definitions in Gen/Symmetries.v. *)
From SV Require Import Base.Prelude Base.Sym Gen.Symmetries.
Local Open Scope Z_scope.

Definition Z2 : Symmetry := {| C := Z; ceqb := Z.eqb; cltb := Z.ltb; valid_all := Z2_valid;
  combine := Z2_combine; sign := Z2_sign; parityZ := Z2_parity |}.
Definition Z4 : Symmetry := {| C := Z; ceqb := Z.eqb; cltb := Z.ltb; valid_all := Z4_valid;
  combine := Z4_combine; sign := Z4_sign; parityZ := Z4_parity |}.
Definition U1 : Symmetry := {| C := Z; ceqb := Z.eqb; cltb := Z.ltb; valid_all := U1_valid;
  combine := U1_combine; sign := U1_sign; parityZ := U1_parity |}.
Definition Z2Z2 : Symmetry := {| C := Z * Z; ceqb := pair_eqb Z.eqb Z.eqb; cltb := pair_ltb;
  valid_all := Z2Z2_valid; combine := Z2Z2_combine; sign := Z2Z2_sign; parityZ := Z2Z2_parity |}.
Definition U1U1 : Symmetry := {| C := Z * Z; ceqb := pair_eqb Z.eqb Z.eqb; cltb := pair_ltb;
  valid_all := U1U1_valid; combine := U1U1_combine; sign := U1U1_sign; parityZ := U1U1_parity |}.
