(* Model/HeapCheck.v — C14 correspondence: boolean comparison of the run of an
   operation script with the alias graph observed on the implementation
   (evaluated by vm_compute in the generated cases files).  Definitions only. *)
From SV Require Import Base.Prelude Model.Heap Model.HeapOps.
Open Scope nat_scope.

Definition tabf (t : list (nat * nat)) : nat -> nat :=
  fun k => match lookup Nat.eqb k t with Some v => v | None => k end.
Definition tabg (t : list (nat * list nat)) : nat -> list nat :=
  fun k => match lookup Nat.eqb k t with Some v => v | None => [] end.
Definition predl (l : list nat) : nat -> bool := fun k => mem Nat.eqb k l.

Definition run_case (P : @params nat) (o : op) (h : heap nat) (args : list nat) : @st nat :=
  exec Nat.eqb (script P o) (mkS h (fun _ => 0) (fun i => nth i args 0) (fun _ => 0) (fun _ => 0)).

Definition pair_nat_eqb (x y : nat * nat) : bool := Nat.eqb (fst x) (fst y) && Nat.eqb (snd x) (snd y).

(* object x has the same fields, the same dicts (contents and order) and the
   same buffer contents in h' as in h *)
Definition same_objb (h h' : heap nat) (x : nat) : bool :=
  let o := obj_at h x in let o' := obj_at h' x in
  Nat.eqb (oblocks o) (oblocks o') && Nat.eqb (ophases o) (ophases o') &&
  list_eqb pair_nat_eqb (dict_at h (oblocks o)) (dict_at h' (oblocks o')) &&
  list_eqb pair_nat_eqb (dict_at h (ophases o)) (dict_at h' (ophases o')) &&
  forallb (fun kb => Nat.eqb (buf_at h (snd kb)) (buf_at h' (snd kb))) (dict_at h (oblocks o)).

(* upper bound on sharing: if the implementation's block shares memory with the
   operand buffer class c, the script must have put that very buffer there *)
Definition share_ok (m : nat) (a : option nat) : bool :=
  match a with Some c => Nat.eqb m c | None => true end.

Fixpoint blocks_exact (model : dict nat) (actual : list (nat * option nat)) : bool :=
  match model, actual with
  | [], [] => true
  | (k, b) :: m', (k', a) :: a' => Nat.eqb k k' && share_ok b a && blocks_exact m' a'
  | _, _ => false
  end.

Definition blocks_coarse (model : dict nat) (actual : list (nat * option nat)) : bool :=
  forallb (fun ka => match snd ka with
                     | Some c => existsb (fun kb => Nat.eqb (snd kb) c) model
                     | None => true end) actual.

Definition keys_eqb (l1 l2 : list nat) : bool :=
  list_eqb Nat.eqb (isort Nat.ltb l1) (isort Nat.ltb l2).

Record expect := mkE { e_var : nat; e_blocks : list (nat * option nat); e_phases : list nat }.

Definition ret_ok (exact cmpph : bool) (s : @st nat) (prot : list nat) (e : expect) : bool :=
  let o := obj_at (sh s) (ov s (e_var e)) in
  negb (mem Nat.eqb (oblocks o) prot) && negb (mem Nat.eqb (ophases o) prot) &&
  (if exact then blocks_exact (dict_at (sh s) (oblocks o)) (e_blocks e)
   else blocks_coarse (dict_at (sh s) (oblocks o)) (e_blocks e)) &&
  (if cmpph then keys_eqb (map fst (dict_at (sh s) (ophases o))) (e_phases e) else true).

Definition check_case (exact cmpph : bool) (P : @params nat) (o : op) (h : heap nat) (args : list nat)
           (prot unch : list nat) (rets : list expect) : bool :=
  let s := run_case P o h args in
  ownb h && ownb (sh s) &&
  forallb (same_objb h (sh s)) unch &&
  forallb (ret_ok exact cmpph s prot) rets.
