(* Model/LocalOps.v — property C18.
   (1) A hand model of symmray/fermionic_local_operators.py:
       FermionicOperator, _dagger_basis, build_local_fermionic_elements
       (phased bubble sort by label, per-label vacuum pattern test,
       accumulation over terms, dict of entries in insertion order).
   (2) The REFERENCE semantics the property speaks about: Fock space over the
       ordered modes 0,1,2,..., Jordan-Wigner action of a_m / a_m^+ on
       occupation lists, and the vacuum expectation value of an operator string.
   Definitions only.  Labels are `nat`: the library uses labels only through
   `>` (sort) and dict-key equality (grouping), so the harness replaces every
   Python label by its rank among the labels of the case (order isomorphism);
   the rank is also the Jordan-Wigner position of the mode. *)
From SV Require Import Base.Prelude.
From Coq Require Import Sorting.Sorted.
Open Scope Z_scope.

(* ---------------------------------------------------------------- operators *)
Record op : Type := mkop { label : nat; dag : bool }.   (* dag = `dual`: true = creation a^+ *)

Definition op_eqb (a b : op) : bool := Nat.eqb (label a) (label b) && Bool.eqb (dag a) (dag b).

(* FermionicOperator.dag *)
Definition op_dag (o : op) : op := mkop (label o) (negb (dag o)).

(* _dagger_basis, one state:  tuple(op.dag for op in reversed(x)) *)
Definition dagger_state (x : list op) : list op := map op_dag (rev x).

(* ---------------------------------------------------------------- phased sort *)
(* One `for k in range(len(element) - 1)` pass, carrying the current element
   element[k] = x; `l` is element[k+1:].  Result: (phase flipped an odd number
   of times, any_moves, the list after the pass).  The comparison is
   `opl.label > opr.label`: equal labels are never swapped. *)
Fixpoint bubble (x : op) (l : list op) : bool * bool * list op :=
  match l with
  | [] => (false, false, [x])
  | y :: t =>
      if (label y <? label x)%nat
      then let '(f, _, r) := bubble x t in (negb f, true, y :: r)
      else let '(f, m, r) := bubble y t in (f, m, x :: r)
  end.

Definition pass (l : list op) : bool * bool * list op :=
  match l with
  | [] => (false, false, [])
  | x :: t => bubble x t
  end.

(* `while any_moves:` with explicit fuel (number of passes allowed). *)
Fixpoint sort_loop (fuel : nat) (sg : bool) (l : list op) : option (bool * list op) :=
  match fuel with
  | O => None
  | S f =>
      let '(fl, moved, r) := pass l in
      if moved then sort_loop f (xorb sg fl) r else Some (xorb sg fl, r)
  end.

Definition phased_sort (fuel : nat) (l : list op) : option (bool * list op) := sort_loop fuel false l.

(* enough fuel for every list of that length (proved: fuel_sufficient) *)
Definition enough_fuel (l : list op) : nat := S (length l * length l).

(* ---------------------------------------------------------------- pattern test *)
(* group[::2] *)
Fixpoint evens {A} (l : list A) : list A :=
  match l with
  | [] => []
  | x :: t => x :: match t with [] => [] | _ :: t' => evens t' end
  end.
(* group[1::2] *)
Definition odds {A} (l : list A) : list A := evens (tl l).

(* groups.setdefault(x.label, []).append(x): the group of label m *)
Definition group (m : nat) (ops : list op) : list op := filter (fun o => Nat.eqb (label o) m) ops.

(* <0|(- + - + ... - +)|0> *)
Definition pattern (g : list op) : bool :=
  Nat.even (length g) && forallb (fun o => negb (dag o)) (evens g) && forallb dag (odds g).

(* all(... for group in groups.values()): one test per key (repeating a key is harmless) *)
Definition nonvanishing (ops : list op) : bool :=
  forallb (fun m => pattern (group m ops)) (map label ops).

(* ---------------------------------------------------------------- elements *)
Definition term : Type := (Z * list op)%type.
Definition site_basis : Type := list (list op).

Definition ket_ops (bases : list site_basis) (idx : list nat) : list op :=
  concat (map (fun bi => nth (snd bi) (fst bi) []) (combine bases idx)).

(* <i'|<j'|<k'| : per-site dagger, sites NOT reversed *)
Definition bra_ops (bases : list site_basis) (idx : list nat) : list op :=
  concat (map (fun bi => dagger_state (nth (snd bi) (fst bi) [])) (combine bases idx)).

Definition phase_z (sg : bool) : Z := if sg then -1 else 1.

(* One `for coeff, term in terms` iteration:
   None = out of fuel;  Some None = nothing added (coeff == 0 or vanishing);
   Some (Some v) = `entries[index] = entries.get(index, 0) + v`. *)
Definition term_contrib (fuel : nat) (bra ket : list op) (t : term) : option (option Z) :=
  if fst t =? 0 then Some None else
  match phased_sort fuel (bra ++ snd t ++ ket) with
  | None => None
  | Some (sg, sorted) => Some (if nonvanishing sorted then Some (phase_z sg * fst t) else None)
  end.

Definition add_entry (acc : option Z) (v : option Z) : option Z :=
  match v with
  | None => acc
  | Some x => Some (match acc with None => 0 | Some a => a end + x)
  end.

Fixpoint accumulate (fuel : nat) (bra ket : list op) (terms : list term) (acc : option Z) : option (option Z) :=
  match terms with
  | [] => Some acc
  | t :: ts =>
      match term_contrib fuel bra ket t with
      | None => None
      | Some v => accumulate fuel bra ket ts (add_entry acc v)
      end
  end.

(* entries.get(left_indices + right_indices):  Some None = key absent *)
Definition entry (fuel : nat) (terms : list term) (bases : list site_basis) (il ir : list nat) : option (option Z) :=
  accumulate fuel (bra_ops bases il) (ket_ops bases ir) terms None.

(* the dense element (absent key = 0), as build_local_fermionic_dense fills it *)
Definition element (fuel : nat) (terms : list term) (bases : list site_basis) (il ir : list nat) : option Z :=
  match entry fuel terms bases il ir with
  | None => None
  | Some None => Some 0
  | Some (Some v) => Some v
  end.

(* itertools.product(range(d0), range(d1), ...) *)
Fixpoint cart (dims : list nat) : list (list nat) :=
  match dims with
  | [] => [[]]
  | d :: ds => flat_map (fun i => map (cons i) (cart ds)) (seq 0 d)
  end.

Fixpoint collect (fuel : nat) (terms : list term) (bases : list site_basis) (locs : list (list nat * list nat))
  : option (list (list nat * Z)) :=
  match locs with
  | [] => Some []
  | (il, ir) :: rest =>
      match entry fuel terms bases il ir, collect fuel terms bases rest with
      | Some e, Some tl_ => Some (match e with None => tl_ | Some v => (il ++ ir, v) :: tl_ end)
      | _, _ => None
      end
  end.

(* list(build_local_fermionic_elements(terms, bases).items()) *)
Definition elements (fuel : nat) (terms : list term) (bases : list site_basis) : option (list (list nat * Z)) :=
  let dims := map (@length _) bases in
  collect fuel terms bases (list_prod (cart dims) (cart dims)).

(* ================================================================ reference *)
(* Fock space.  A basis state is an occupation list; modes beyond its length are
   empty (so no bound on the number of modes is needed). *)
Definition state : Type := list bool.
Definition vac : state := [].
Definition occ (s : state) (m : nat) : bool := nth m s false.
Definition is_vac (s : state) : bool := forallb negb s.

(* signed results: None = the zero vector, Some (sg, s) = (-1)^sg |s> *)
Definition scale_res (f : bool) (r : option (bool * state)) : option (bool * state) :=
  match r with None => None | Some (sg, s) => Some (xorb f sg, s) end.

(* Jordan-Wigner: a_m / a_m^+ (d = true) on |s>: zero if the mode is already in
   the target occupation, else sign = parity of the occupied modes below m. *)
Fixpoint apply_at (m : nat) (d : bool) (s : state) : option (bool * state) :=
  match m with
  | O => if Bool.eqb (hd false s) d then None else Some (false, d :: tl s)
  | S m' =>
      match apply_at m' d (tl s) with
      | None => None
      | Some (sg, t') => Some (xorb (hd false s) sg, hd false s :: t')
      end
  end.

Definition apply_op (o : op) (s : state) : option (bool * state) := apply_at (label o) (dag o) s.

Definition bind_res (r : option (bool * state)) (f : state -> option (bool * state)) : option (bool * state) :=
  match r with None => None | Some (sg, s) => scale_res sg (f s) end.

(* the operator string acts right-to-left: the LAST operator of the list first *)
Fixpoint apply_ops (ops : list op) (s : state) : option (bool * state) :=
  match ops with
  | [] => Some (false, s)
  | o :: rest => bind_res (apply_ops rest s) (apply_op o)
  end.

(* <vac| ops |vac> *)
Definition vev (ops : list op) : Z :=
  match apply_ops ops vac with
  | None => 0
  | Some (sg, s) => if is_vac s then phase_z sg else 0
  end.

(* the second-quantised matrix element the property names *)
Definition ref_element (terms : list term) (bases : list site_basis) (il ir : list nat) : Z :=
  zsum (map (fun t : term => fst t * vev (bra_ops bases il ++ snd t ++ ket_ops bases ir)) terms).

(* per-mode evolution of one occupation number under the dagger flags of a
   group (read right-to-left), used to state the factorisation *)
Fixpoint run_mode (ds : list bool) (b : bool) : option bool :=
  match ds with
  | [] => Some b
  | d :: rest =>
      match run_mode rest b with
      | None => None
      | Some b' => if Bool.eqb b' d then None else Some d
      end
  end.

Definition zprod (l : list Z) : Z := fold_right Z.mul 1 l.

Definition label_sorted (ops : list op) : Prop := Sorted (fun a b => (label a <= label b)%nat) ops.

Definition distinct_labels (ops : list op) : list nat := nodup Nat.eq_dec (map label ops).

(* number of inversions of the labels: the termination measure of the sort *)
Definition count_lt (x : op) (l : list op) : nat := length (filter (fun y => (label y <? label x)%nat) l).
Fixpoint inversions (l : list op) : nat :=
  match l with
  | [] => O
  | x :: t => (count_lt x t + inversions t)%nat
  end.

Definition entry_value (e : option Z) : Z := match e with None => 0 | Some v => v end.

(* ================================================================ product of operators
   (used only to STATE the array-level half of C18; see Props/C18.v) *)
Definition term_product (t1 t2 : list term) : list term :=
  map (fun p : term * term => (fst (fst p) * fst (snd p), snd (fst p) ++ snd (snd p))) (list_prod t1 t2).

(* parity of the number of operators of the basis state idx_i of site i *)
Definition site_parities (bases : list site_basis) (idx : list nat) : list bool :=
  map (fun bi => Nat.odd (length (nth (snd bi) (fst bi) []))) (combine bases idx).

(* (-1)^(sum_{i<j} p_i p_j): per-site dagger versus the full (site-reversed) dagger *)
Fixpoint cross_parity (ps : list bool) : bool :=
  match ps with
  | [] => false
  | p :: rest => xorb (p && xorb_list rest) (cross_parity rest)
  end.

Definition site_modes (b : site_basis) : list nat := nodup Nat.eq_dec (concat (map (map label) b)).

Fixpoint insert_nat (x : nat) (l : list nat) : list nat :=
  match l with [] => [x] | y :: t => if (y <? x)%nat then y :: insert_nat x t else x :: l end.
Definition sort_nat (l : list nat) : list nat := fold_right insert_nat [] l.

Fixpoint nodupb (l : list (list nat)) : bool :=
  match l with [] => true | x :: t => negb (mem (list_eqb Nat.eqb) x t) && nodupb t end.

(* every occupation state of the site's modes exactly once, as creation operators in any order *)
Definition complete_site (b : site_basis) : bool :=
  forallb (fun x => forallb dag x && nodupb (map (fun o => [label o]) x)) b &&
  nodupb (map (fun x => sort_nat (map label x)) b) &&
  Nat.eqb (length b) (Nat.pow 2 (length (site_modes b))).

Fixpoint disjoint_sites (ms : list (list nat)) : bool :=
  match ms with
  | [] => true
  | m :: rest => forallb (fun k => negb (mem Nat.eqb k (concat rest))) m && disjoint_sites rest
  end.

Definition complete_bases (bases : list site_basis) : bool :=
  forallb complete_site bases && disjoint_sites (map site_modes bases).

Definition terms_within (terms : list term) (bases : list site_basis) : bool :=
  forallb (fun t : term => forallb (fun o => mem Nat.eqb (label o) (concat (map site_modes bases))) (snd t)) terms.

(* ================================================================ builder data (Gen/LocalOpsData.v)
   a term with a rational coefficient num/den (den is a coordination number or a literal) *)
Definition qterm : Type := (Z * Z * list op)%type.
Definition qnum (t : qterm) : Z := fst (fst t).
Definition qden (t : qterm) : Z := snd (fst t).
Definition qops (t : qterm) : list op := snd t.

(* formal Hermitian conjugate of a term with a real coefficient *)
Definition dagger_qterm (t : qterm) : qterm := (qnum t, qden t, dagger_state (qops t)).

(* two operator strings are the same operator on Fock space *)
Definition op_equiv (a b : list op) : Prop := forall s : state, apply_ops a s = apply_ops b s.

(* Hermitian as an operator polynomial: the dagger-reverse of every term is (as an
   operator; e.g. n_up n_down = n_down n_up) a term of the list with the same real,
   hence self-conjugate, coefficient *)
Definition hermitian_terms (T : list qterm) : Prop :=
  forall t, In t T ->
  exists t', In t' T /\ qnum t' = qnum t /\ qden t' = qden t /\ op_equiv (dagger_state (qops t)) (qops t').

Definition qterm_eqb (a b : qterm) : bool :=
  (qnum a * qden b =? qnum b * qden a) && list_eqb op_eqb (qops a) (qops b).

(* a charge is a list of integers (one component, or two for Z2Z2 / U1U1); all five
   symmetries have parity = sum of the components mod 2 *)
Definition charge_parity (c : list Z) : Z := (zsum c) mod 2.

Fixpoint parity_okb (im : list (list Z)) (basis : site_basis) : bool :=
  match im, basis with
  | [], [] => true
  | c :: im', x :: basis' => (charge_parity c =? Z.of_nat (length x) mod 2) && parity_okb im' basis'
  | _, _ => false
  end.
