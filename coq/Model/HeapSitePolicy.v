(* Model/HeapSitePolicy.v — C14: which of the mutation sites found by
   tr/gen_heap.py in the Python source are acceptable.  Hand-written; the site
   list itself is generated (Gen/HeapSites.v).  Definitions only. *)
From Coq Require Import String List Bool.
From SV Require Import Gen.HeapSites.
Import ListNotations.
Open Scope string_scope.

Fixpoint smem (x : string) (l : list string) : bool :=
  match l with [] => false | y :: l' => String.eqb x y || smem x l' end.

(* methods whose documented purpose is to change `self` (constructors, the
   internal `modify` / `_map_blocks`, the documented in-place methods, the
   augmented-assignment operators, lazy attribute initialisers, hash caches) *)
Definition documented_self : list string := [
  "block_core.BlockBase.__init__"; "block_core.BlockBase._map_blocks";
  "block_core.BlockBase.set_params"; "block_core.BlockBase.apply_to_arrays";
  "block_core.BlockBase.__iadd__"; "block_core.BlockBase.__isub__";
  "block_core.BlockBase.__imul__"; "block_core.BlockBase.__itruediv__";
  "block_core.BlockVector.__iadd__"; "block_core.BlockVector.__isub__";
  "block_core.BlockVector.__itruediv__"; "block_core.BlockVector.__ipow__";
  "abelian_core.BlockIndex.__init__"; "abelian_core.BlockIndex.hashkey";
  "abelian_core.SubIndexInfo.__init__"; "abelian_core.SubIndexInfo.hashkey";
  "abelian_core.AbelianArray.__init__"; "abelian_core.AbelianArray.modify";
  "abelian_core.AbelianArray.fill_missing_blocks"; "abelian_core.AbelianArray.drop_missing_blocks";
  "fermionic_core.FermionicArray.__init__"; "fermionic_core.FermionicArray.modify";
  "fermionic_core.FermionicArray._map_blocks";
  "fermionic_core.FermionicArray.phases"; "fermionic_core.FermionicArray.oddpos" ].

(* `axis += ndim + 1` on an integer parameter *)
Definition scalar_augassign : list string := [
  "abelian_core.AbelianArray.expand_dims"; "abelian_core.calc_reshape_args" ].

(* module level caches (property C15) *)
Definition cache_functions : list string := [ "abelian_core.cached_fuse_block_info" ].

(* functions that install a caller supplied dict (internal API) *)
Definition takes_ownership : list string := [
  "abelian_core.AbelianArray.copy_with"; "abelian_core.AbelianArray.modify";
  "fermionic_core.FermionicArray.copy_with"; "fermionic_core.FermionicArray.modify" ].

Definition site_ok (s : site) : bool :=
  match s_owner s with
  | Fresh | Guarded => true
  | Self => s_guarded s || smem (s_fn s) documented_self
  | Operand => s_guarded s || (String.eqb (s_what s) "augassign" && smem (s_fn s) scalar_augassign)
  | Global => smem (s_fn s) cache_functions
  end.

Definition bind_ok (b : bind) : bool :=
  match b_src b with
  | SNew | SLocal => true
  | SParam => smem (b_fn b) takes_ownership
  | SCall | SShared => false
  end.

(* every function with an `inplace` parameter has a script with that flag in
   Model/HeapOps.v (the constructor named on the right) *)
Definition modelled_flag_functions : list string := [
  "abelian_core.AbelianArray._fuse_core";        (* OFuse *)
  "abelian_core.AbelianArray.conj";              (* OConj *)
  "abelian_core.AbelianArray.dagger";            (* ODagger *)
  "abelian_core.AbelianArray.expand_dims";       (* OExpandDims *)
  "abelian_core.AbelianArray.fuse";              (* OFuse *)
  "abelian_core.AbelianArray.multiply_diagonal"; (* OMulDiag *)
  "abelian_core.AbelianArray.reshape";           (* OReshape *)
  "abelian_core.AbelianArray.squeeze";           (* OSqueeze *)
  "abelian_core.AbelianArray.sync_charges";      (* OSyncCharges *)
  "abelian_core.AbelianArray.transpose";         (* OTranspose *)
  "abelian_core.AbelianArray.unfuse";            (* OUnfuse *)
  "abelian_core.AbelianArray.unfuse_all";        (* OUnfuseAll *)
  "abelian_core.drop_misaligned_sectors";        (* ODropMisaligned *)
  "block_core.BlockBase._binary_blockwise_op";   (* OBinary *)
  "block_core.BlockBase._do_unary_op";           (* OScalar *)
  "fermionic_core.FermionicArray._binary_blockwise_op";  (* OBinary ferm *)
  "fermionic_core.FermionicArray._do_unary_op";  (* OScalar ferm *)
  "fermionic_core.FermionicArray.conj";          (* OFConj *)
  "fermionic_core.FermionicArray.dagger";        (* OFDagger *)
  "fermionic_core.FermionicArray.fuse";          (* OFuse ferm *)
  "fermionic_core.FermionicArray.phase_flip";    (* OPhaseFlip *)
  "fermionic_core.FermionicArray.phase_global";  (* OPhaseGlobal *)
  "fermionic_core.FermionicArray.phase_sector";  (* OPhaseSector *)
  "fermionic_core.FermionicArray.phase_sync";    (* OPhaseSync *)
  "fermionic_core.FermionicArray.phase_transpose"; (* OPhaseTranspose *)
  "fermionic_core.FermionicArray.transpose";     (* OFTranspose *)
  "fermionic_core.FermionicArray.unfuse" ].      (* OUnfuse ferm *)

Definition bad_sites : list site := filter (fun s => negb (site_ok s)) sites.
Definition bad_binds : list bind := filter (fun b => negb (bind_ok b)) binds.
Definition unmodelled_flags : list string := filter (fun f => negb (smem f modelled_flag_functions)) flag_functions.
