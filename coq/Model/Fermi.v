(* Model/Fermi.v — hand model of symmray.fermionic_core: FermionicArray = abelian
   array + lazily tracked sector signs + odd-position labels.  The Koszul-sign
   routine is the GENERATED Gen.PhasePerm.calc_phase_permutation.
   Definitions only. *)
From SV Require Import Base.Prelude Base.Sym Base.Tensor Gen.PhasePerm Model.Sectors Model.Array Model.Arith.
Local Open Scope nat_scope.

(* odd-position labels: ints, tuples of ints and strings are all serialised to
   lists of integers compared lexicographically (Python's order on each type) *)
Definition flabel := list Z.
Definition fop := (flabel * bool)%type.                 (* (label, dual) *)
Definition lab_eqb (a b : flabel) : bool := list_eqb Z.eqb a b.
Definition lab_ltb (a b : flabel) : bool := list_ltb Z.ltb Z.eqb a b.
Definition fop_eqb (a b : fop) : bool := lab_eqb (fst a) (fst b) && Bool.eqb (snd a) (snd b).
(* FermionicOperator.__lt__ *)
Definition fop_ltb (a b : fop) : bool :=
  if snd a then (if snd b then lab_ltb (fst b) (fst a) else true)
  else (if snd b then false else lab_ltb (fst a) (fst b)).
Definition fop_dag (a : fop) : fop := (fst a, negb (snd a)).
Definition oddpos_dag (l : list fop) : list fop := map fop_dag (rev l).

(* resolve_combined_oddpos: phased gnome sort with annihilation of conjugate
   pairs.  Result: None = ValueError (non-conjugate duplicate) or out of fuel. *)
Fixpoint resolve_go (fuel : nat) (i : nat) (phase : bool) (l : list fop) : option (bool * list fop) :=
  match fuel with
  | O => None
  | S fuel' =>
      if Nat.ltb (S i) (length l) then
        let a := nth i l ([], false) in
        let b := nth (S i) l ([], false) in
        if lab_eqb (fst a) (fst b) then
          if negb (Bool.eqb (snd a) (snd b)) then
            resolve_go fuel' (Nat.pred i) (if snd b then negb phase else phase) (firstn i l ++ skipn (S (S i)) l)
          else None
        else if fop_ltb b a then
          resolve_go fuel' (Nat.pred i) (negb phase) (firstn i l ++ b :: a :: skipn (S (S i)) l)
        else resolve_go fuel' (S i) phase l
      else Some (phase, l)
  end.
Definition resolve_oddpos (lpar : bool) (lo ro : list fop) : option (bool * list fop) :=
  match lo, ro with
  | [], [] => Some (false, [])
  | _, _ =>
      let l := lo ++ ro in
      let n := length l in
      resolve_go (n * n + 2 * n + 4) 0 (lpar && Nat.odd (length ro)) l
  end.

Section Fermi.
  Context (G : Symmetry) (R : Ring).
  Notation Ch := (C G).
  Notation sector := (list (C G)).
  Notation keq := (list_eqb (ceqb G)).
  Notation arr := (aarray G R).

  (* fphases = the sectors that carry a pending factor -1 *)
  Record farray := mkF { fbase : arr; fphases : list sector; foddpos : list fop }.

  Definition ph_has (s : sector) (ph : list sector) : bool := mem keq s ph.
  Definition ph_del (s : sector) (ph : list sector) : list sector := filter (fun t => negb (keq s t)) ph.
  Definition ph_toggle (ph : list sector) (s : sector) : list sector :=
    if ph_has s ph then ph_del s ph else ph ++ [s].

  Definition fparity (x : farray) : bool := parity G (charge G R (fbase x)).
  Definition fsectors (x : farray) := sectors G R (fbase x).
  Definition par_of (s : sector) : list Z := map (parityZ G) s.
  Definition odd_at (s : sector) (ax : nat) : bool := parity G (nth ax s (ident G)).
  Definition perm_minus (s : sector) (perm : option (list nat)) : bool :=
    Z.eqb (calc_phase_permutation (par_of s)
             (match perm with Some p => Some (map Z.of_nat p) | None => None end)) (-1)%Z.
  Definition count_odd (s : sector) (axs : list nat) : bool :=
    Nat.odd (length (filter (fun ax => odd_at s ax) axs)).

  Definition with_base (x : farray) (b : arr) : farray := mkF b (fphases x) (foddpos x).
  Definition with_phases (x : farray) (ph : list sector) : farray := mkF (fbase x) ph (foddpos x).

  (* ---- the phase operations ---- *)
  Definition f_phase_flip (x : farray) (axs : list nat) : farray :=
    if is_nil axs then x
    else with_phases x (fold_left (fun ph s => if count_odd s axs then ph_toggle ph s else ph) (fsectors x) (fphases x)).
  Definition f_phase_transpose (x : farray) (perm : option (list nat)) : farray :=
    with_phases x (fold_left (fun ph s => if perm_minus s perm then ph_toggle ph s else ph) (fsectors x) (fphases x)).
  Definition f_phase_sector (x : farray) (s : sector) : farray := with_phases x (ph_toggle (fphases x) s).
  Definition f_phase_global (x : farray) : farray :=
    with_phases x (fold_left ph_toggle (fsectors x) (fphases x)).
  Definition f_phase_sync (x : farray) : farray :=
    mkF (with_blocks G R (fbase x)
           (map (fun sb => if ph_has (fst sb) (fphases x) then (fst sb, tneg R (snd sb)) else sb) (blocks G R (fbase x))))
        [] (foddpos x).

  Definition f_transpose (x : farray) (axes : list nat) (phase : bool) : farray :=
    let ph :=
      if phase then
        flat_map (fun s => if xorb (ph_has s (fphases x)) (perm_minus s (Some axes))
                           then [permuted (ident G) s axes] else []) (fsectors x)
      else map (fun s => permuted (ident G) s axes) (fphases x) in
    mkF (a_transpose G R (fbase x) axes) ph (foddpos x).

  Definition f_conj (x : farray) (pp pd : bool) : farray :=
    let b := fbase x in
    let axs_conj := map fst (filter (fun p => idual G (snd p)) (enumerate (indices G R b))) in
    let ph := fold_left (fun ph s =>
                if xorb (pp && perm_minus s None) (pd && count_odd s axs_conj) then ph_toggle ph s else ph)
                (fsectors x) (fphases x) in
    let y := mkF (a_conj G R b) ph (oddpos_dag (foddpos x)) in
    if pp && fparity y && Nat.odd (length (foddpos y)) then f_phase_global y else y.

  Definition f_dagger (x : farray) (pd : bool) : farray :=
    let b := fbase x in
    let n := ndim G R b in
    let ph := flat_map (fun s => if ph_has s (fphases x) then [rev s] else []) (fsectors x) in
    let y := mkF (a_dagger G R b) ph (oddpos_dag (foddpos x)) in
    let y := if fparity y && Nat.odd (length (foddpos y)) then f_phase_global y else y in
    if pd then
      f_phase_flip y (map fst (filter (fun p => negb (idual G (snd p))) (enumerate (indices G R (fbase y)))))
    else y.

  (* value-level view: blocks with the pending signs multiplied in *)
  Definition f_value (x : farray) : arr := fbase (f_phase_sync x).

  (* ---- fuse / unfuse ---- *)
  Definition f_fuse (x : farray) (groups : list (list nat)) : farray :=
    let n := ndim G R (fbase x) in
    let perm := fuse_perm n groups in
    let x1 := f_transpose x perm true in
    let groups' := map (map (fun ax => index_of ax perm)) groups in
    let ixs := indices G R (fbase x1) in
    let dualg := filter (fun g => idual G (nth (hd 0 g) ixs (dflt_index G))) groups' in
    let axes_flip := flat_map (fun g => filter (fun ax => negb (idual G (nth ax ixs (dflt_index G)))) g) dualg in
    let vperm := fold_left (fun vp g =>
                   fold_left (fun vp2 p => set_nth vp2 (fst p) (snd p)) (List.combine g (rev g)) vp) dualg (seq 0 n) in
    let x2 := f_phase_flip x1 axes_flip in
    let x3 := if is_nil dualg then x2 else f_phase_transpose x2 (Some vperm) in
    let x4 := f_phase_sync x3 in
    with_base x4 (fuse_core G R (fbase x4) groups').

  Definition f_unfuse (x : farray) (axis : nat) : option farray :=
    let ix := nth axis (indices G R (fbase x)) (dflt_index G) in
    match isub G ix with
    | None => None
    | Some (subs, _) =>
        let nnew := length subs in
        let n := ndim G R (fbase x) in
        let x1 := f_phase_sync x in
        match a_unfuse G R (fbase x1) axis with
        | None => None
        | Some b =>
            let y := with_base x1 b in
            if idual G ix then
              let axes_flip := map (fun p => axis + fst p) (filter (fun p => negb (idual G (snd p))) (enumerate subs)) in
              let vperm := map (fun k => if Nat.leb axis k && Nat.ltb k (axis + nnew) then axis + nnew - (k - axis) - 1 else k)
                               (seq 0 (n + nnew - 1)) in
              Some (f_phase_transpose (f_phase_flip y axes_flip) (Some vperm))
            else Some y
        end
    end.

  (* ---- contraction ---- *)
  Definition arr_size (b : arr) : nat := nprod (map (size_total G) (indices G R b)).

  Definition finish_contraction (a' b' : farray) (c : arr) : option farray :=
    match resolve_oddpos (fparity a') (foddpos a') (foddpos b') with
    | None => None
    | Some (minus, odd) =>
        let y := mkF c [] odd in
        Some (if minus then f_phase_global y else y)
    end.

  Definition f_tensordot (a b : farray) (axes : nat + (list Z * list Z)) (mode : tmode) : option farray :=
    let na := ndim G R (fbase a) in
    let nb := ndim G R (fbase b) in
    match parse_axes na nb axes with
    | None => None
    | Some (aa, ab) =>
        let la := rest_axes na aa in
        let rb := rest_axes nb ab in
        let ncon := length aa in
        let a1 := f_transpose a (la ++ aa) true in
        let b1 := f_transpose b (ab ++ rb) true in
        let b2 := f_phase_transpose b1 (Some (rev (seq 0 ncon) ++ seq ncon (nb - ncon))) in
        let naa := seq (na - ncon) ncon in
        let nab := seq 0 ncon in
        let ixa := indices G R (fbase a1) in
        let ixb := indices G R (fbase b2) in
        let '(a2, b3) :=
          if Nat.leb (arr_size (fbase a1)) (arr_size (fbase b2))
          then (f_phase_flip a1 (filter (fun ax => negb (idual G (nth ax ixa (dflt_index G)))) naa), b2)
          else (a1, f_phase_flip b2 (filter (fun ax => idual G (nth ax ixb (dflt_index G))) nab)) in
        let a3 := f_phase_sync a2 in
        let b4 := f_phase_sync b3 in
        match a_tensordot G R (fbase a3) (fbase b4) (inr (map Z.of_nat naa, map Z.of_nat nab)) mode with
        | None => None
        | Some c => finish_contraction a3 b4 c
        end
    end.

  Definition f_matmul (a b : farray) : option farray :=
    let b1 := if idual G (nth 0 (indices G R (fbase b)) (dflt_index G)) then f_phase_flip b [0] else b in
    let a2 := f_phase_sync a in
    let b2 := f_phase_sync b1 in
    match a_matmul G R (fbase a2) (fbase b2) with
    | None => None
    | Some c => finish_contraction a2 b2 c
    end.

  Definition f_trace (x : farray) : option (RT R) :=
    match indices G R (fbase x) with
    | [il; ir] =>
        if idual G il && negb (idual G ir) then a_trace G R (f_value x)
        else if negb (idual G il) && idual G ir then a_trace G R (f_value (f_phase_flip x [0]))
        else None
    | _ => None
    end.

  (* einsum: sort axes by (position of the label in rhs | -1, label, not dual), transpose fermionically, sync, abelian einsum *)
  Definition ekey_ltb (lhs rhs : list nat) (ixs : list (index G)) (i j : nat) : bool :=
    let key k := let c := nth k lhs 0 in
                 (if mem Nat.eqb c rhs then S (index_of c rhs) else 0, c, if idual G (nth k ixs (dflt_index G)) then 0 else 1) in
    let '(a1, a2, a3) := key i in
    let '(b1, b2, b3) := key j in
    Nat.ltb a1 b1 || (Nat.eqb a1 b1 && (Nat.ltb a2 b2 || (Nat.eqb a2 b2 && Nat.ltb a3 b3))).
  Definition f_einsum (x : farray) (lhs rhs : list nat) : option arr :=
    let n := ndim G R (fbase x) in
    let perm := isort (ekey_ltb lhs rhs (indices G R (fbase x))) (seq 0 n) in
    let y := f_phase_sync (f_transpose x perm true) in
    a_einsum G R (fbase y) (map (fun i => nth i lhs 0) perm) rhs.

  (* observable equality: structure, labels and VALUES (pending signs applied) *)
  Definition farray_eqb (x y : farray) : bool :=
    aarray_eqb G R (f_value x) (f_value y) && list_eqb fop_eqb (foddpos x) (foddpos y).
  (* strict: also the same pending-sign table and raw blocks *)
  Definition farray_eqb_strict (x y : farray) : bool :=
    aarray_eqb G R (fbase x) (fbase y) && list_eqb fop_eqb (foddpos x) (foddpos y) &&
    forallb (fun s => ph_has s (fphases y)) (fphases x) && forallb (fun s => ph_has s (fphases x)) (fphases y).
End Fermi.
