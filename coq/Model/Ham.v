(* Model/Ham.v — semantic layer of property C19 on top of the GENERATED
   definitions of Gen/Ham.v.  Definitions only.

   * formal operator polynomials = lists of (coefficient in Q, word); two
     polynomials are equal (`poly_equiv`) when they give the same value against
     every test function on words — in particular the same coefficient for
     every word (`coeff`);
   * evaluation of the symbolic coefficient expressions of the local builders
     in the environment an edge passes (`ceval`), substitution of the local
     sites 0/1 by the edge's sites (`edge_poly`), the lattice polynomial the
     implementation produces (`*_lattice_poly`);
   * the specification: the lattice Hamiltonians `H_hubbard`, `H_spinless`,
     `H_tfim`; degrees; simple graphs;
   * an executable model of `parse_edges_to_site_info` that interprets the
     generated loop skeleton. *)
From SV Require Import Base.Prelude Model.HamBase Gen.Ham.
Open Scope Z_scope.

Definition qsum (l : list Q) : Q := fold_right Qplus 0%Q l.
Definition oget (o : option Q) : Q := match o with Some q => q | None => 0%Q end.
Definition b2z (b : bool) : Z := if b then 1 else 0.

Fixpoint omap {A B} (f : A -> option B) (l : list A) : option (list B) :=
  match l with
  | [] => Some []
  | x :: l' => obind (f x) (fun y => obind (omap f l') (fun ys => Some (y :: ys)))
  end.

(* ------------------------------------------------------------------ *)
Section Poly.
  Context {W : Type}.
  Definition poly : Type := list (Q * W).
  Definition pairing (f : W -> Q) (p : poly) : Q :=
    qsum (map (fun cw => (fst cw * f (snd cw))%Q) p).
  Definition poly_equiv (p q : poly) : Prop :=
    forall f : W -> Q, (pairing f p == pairing f q)%Q.
  Definition indicator (weqb : W -> W -> bool) (w w' : W) : Q := if weqb w' w then 1%Q else 0%Q.
  (* the coefficient of the word w in p (terms with the same word are added) *)
  Definition coeff (weqb : W -> W -> bool) (p : poly) (w : W) : Q := pairing (indicator weqb w) p.
End Poly.
Arguments poly W : clear implicits.

(* ------------------------------------------------------------------ *)
(* coefficient expressions *)
Record cenv : Type := { ev_t : Q; ev_V : Q; ev_U : Q * Q; ev_mu : Q * Q; ev_c : Z * Z; ev_jx : Q; ev_hz : Q * Q }.

Definition sym_val (e : cenv) (s : csym) : Q :=
  match s with
  | SyT => ev_t e | SyV => ev_V e
  | SyU0 => fst (ev_U e) | SyU1 => snd (ev_U e)
  | SyMu0 => fst (ev_mu e) | SyMu1 => snd (ev_mu e)
  | SyC0 => inject_Z (fst (ev_c e)) | SyC1 => inject_Z (snd (ev_c e))
  | SyJx => ev_jx e
  | SyHz0 => fst (ev_hz e) | SyHz1 => snd (ev_hz e)
  end.

Fixpoint ceval (e : cenv) (x : cexpr) : Q :=
  match x with
  | CConst z => inject_Z z
  | CSym s => sym_val e s
  | CNeg a => Qopp (ceval e a)
  | CAdd a b => Qplus (ceval e a) (ceval e b)
  | CSub a b => Qminus (ceval e a) (ceval e b)
  | CMul a b => Qmult (ceval e a) (ceval e b)
  | CDiv a b => Qdiv (ceval e a) (ceval e b)
  end.

Definition env_hubbard (c : hubbard_call) : cenv :=
  {| ev_t := hc_t c; ev_V := 0%Q; ev_U := hc_U c; ev_mu := hc_mu c; ev_c := hc_coord c; ev_jx := 0%Q; ev_hz := (0%Q, 0%Q) |}.
Definition env_spinless (c : spinless_call) : cenv :=
  {| ev_t := sc_t c; ev_V := sc_V c; ev_U := (0%Q, 0%Q); ev_mu := sc_mu c; ev_c := sc_coord c; ev_jx := 0%Q; ev_hz := (0%Q, 0%Q) |}.
Definition env_tfim (c : tfim_call) : cenv :=
  {| ev_t := 0%Q; ev_V := 0%Q; ev_U := (0%Q, 0%Q); ev_mu := (0%Q, 0%Q); ev_c := tc_coord c; ev_jx := tc_jx c; ev_hz := tc_hz c |}.

(* ------------------------------------------------------------------ *)
Section Lattice.
  Context {S : Type} (seqb : S -> S -> bool).

  (* lattice operators and words *)
  Definition sop : Type := (S * spin * bool)%type.
  Definition spauli : Type := (S * pauli)%type.
  Definition subst_site (a b : S) (i : nat) : S := match i with O => a | _ => b end.
  Definition subst_op (a b : S) (o : lop) : sop := (subst_site a b (fst (fst o)), snd (fst o), snd o).
  (* identity factors of a Pauli word are dropped *)
  Definition subst_pauli (a b : S) (w : list lpauli) : list spauli :=
    flat_map (fun o => match snd o with PI => [] | p => [(subst_site a b (fst o), p)] end) w.

  Definition edge_poly (terms : list (cexpr * list lop)) (env : cenv) (a b : S) : poly (list sop) :=
    map (fun cw => (ceval env (fst cw), map (subst_op a b) (snd cw))) terms.
  Definition edge_poly_pauli (terms : list (cexpr * list lpauli)) (env : cenv) (a b : S) : poly (list spauli) :=
    map (fun cw => (ceval env (fst cw), subst_pauli a b (snd cw))) terms.

  (* what the implementation builds: one local term list per dict entry *)
  Definition hubbard_lattice_poly (d : list ((S * S) * hubbard_call)) : poly (list sop) :=
    flat_map (fun ec => edge_poly fermi_hubbard_terms (env_hubbard (snd ec)) (fst (fst ec)) (snd (fst ec))) d.
  Definition spinless_lattice_poly (d : list ((S * S) * spinless_call)) : poly (list sop) :=
    flat_map (fun ec => edge_poly fermi_hubbard_spinless_terms (env_spinless (snd ec)) (fst (fst ec)) (snd (fst ec))) d.
  Definition tfim_lattice_poly (d : list ((S * S) * tfim_call)) : poly (list spauli) :=
    flat_map (fun ec => edge_poly_pauli tfim_terms (env_tfim (snd ec)) (fst (fst ec)) (snd (fst ec))) d.

  (* graph notions *)
  Definition endpoints (edges : list (S * S)) : list S := flat_map (fun e => [fst e; snd e]) edges.
  Definition countZ (v : S) (l : list S) : Z := zsum (map (fun x => b2z (seqb x v)) l).
  (* number of edge ends at v (a self loop counts twice; for a simple graph the degree) *)
  Definition deg (v : S) (edges : list (S * S)) : Z := countZ v (endpoints edges).
  Fixpoint dedup (l : list S) : list S :=
    match l with
    | [] => []
    | x :: l' => if mem seqb x l' then dedup l' else x :: dedup l'
    end.
  Definition sites_of (edges : list (S * S)) : list S := dedup (endpoints edges).
  Definition incident (v : S) (e : S * S) : bool := seqb (fst e) v || seqb (snd e) v.
  Definition simple_graph (edges : list (S * S)) : Prop :=
    NoDup edges /\ forall a b, In (a, b) edges -> a <> b /\ ~ In (b, a) edges.

  (* the coefficient the factories give to a bond / site (0 when the call raises) *)
  Definition edge_val (t : edge_coef S) (a b : S) : Q := oget (make_edge_factory seqb t a b).
  Definition node_val (u : node_coef S) (v : S) : Q := oget (make_node_factory seqb u v).
  (* the reference counting loop and the coordination the code uses for v *)
  Definition incr (k : S) (d : list (S * Z)) : list (S * Z) :=
    let '(v, d1) := setdefault seqb k 0 d in dset seqb k (v + 1) d1.
  Definition coord_loop (edges : list (S * S)) : list (S * Z) :=
    fold_left (fun d x => incr x d) (endpoints edges) [].

  (* ---- the lattice Hamiltonians (specification) ---- *)
  Definition cre (v : S) (s : spin) : sop := (v, s, true).
  Definition ann (v : S) (s : spin) : sop := (v, s, false).
  Definition hop (a b : S) (s : spin) : list sop := [cre a s; ann b s].
  Definition num (v : S) (s : spin) : list sop := [cre v s; ann v s].

  (*  H = sum_<ab> sum_s -t_ab (a+_s b_s + b+_s a_s)  +  sum_v U_v n_v^ n_vv - mu_v (n_v^ + n_vv)  *)
  Definition hop_hubbard (t : S -> S -> Q) (e : S * S) : poly (list sop) :=
    [((- t (fst e) (snd e))%Q, hop (fst e) (snd e) SpinUp); ((- t (fst e) (snd e))%Q, hop (snd e) (fst e) SpinUp);
     ((- t (fst e) (snd e))%Q, hop (fst e) (snd e) SpinDn); ((- t (fst e) (snd e))%Q, hop (snd e) (fst e) SpinDn)].
  Definition onsite_hubbard (U mu : S -> Q) (v : S) : poly (list sop) :=
    [(U v, num v SpinUp ++ num v SpinDn); ((- mu v)%Q, num v SpinUp); ((- mu v)%Q, num v SpinDn)].
  Definition H_hubbard (edges : list (S * S)) (sites : list S) (t : S -> S -> Q) (U mu : S -> Q) : poly (list sop) :=
    flat_map (hop_hubbard t) edges ++ flat_map (onsite_hubbard U mu) sites.

  (*  H = sum_<ab> -t_ab (a+ b + b+ a) + V_ab n_a n_b  -  sum_v mu_v n_v  *)
  Definition bond_spinless (t V : S -> S -> Q) (e : S * S) : poly (list sop) :=
    [((- t (fst e) (snd e))%Q, hop (fst e) (snd e) SpinNone); ((- t (fst e) (snd e))%Q, hop (snd e) (fst e) SpinNone);
     (V (fst e) (snd e), num (fst e) SpinNone ++ num (snd e) SpinNone)].
  Definition onsite_spinless (mu : S -> Q) (v : S) : poly (list sop) := [((- mu v)%Q, num v SpinNone)].
  Definition H_spinless (edges : list (S * S)) (sites : list S) (t V : S -> S -> Q) (mu : S -> Q) : poly (list sop) :=
    flat_map (bond_spinless t V) edges ++ flat_map (onsite_spinless mu) sites.

  (*  H = sum_<ab> jx_ab X_a X_b + sum_v hz_v Z_v  *)
  Definition bond_tfim (jx : S -> S -> Q) (e : S * S) : poly (list spauli) :=
    [(jx (fst e) (snd e), [(fst e, PX); (snd e, PX)])].
  Definition onsite_tfim (hz : S -> Q) (v : S) : poly (list spauli) := [(hz v, [(v, PZ)])].
  Definition H_tfim (edges : list (S * S)) (sites : list S) (jx : S -> S -> Q) (hz : S -> Q) : poly (list spauli) :=
    flat_map (bond_tfim jx) edges ++ flat_map (onsite_tfim hz) sites.

  (* decidable equality of words, for `coeff` *)
  Definition spin_eqb (a b : spin) : bool :=
    match a, b with SpinNone, SpinNone | SpinUp, SpinUp | SpinDn, SpinDn => true | _, _ => false end.
  Definition sop_eqb (x y : sop) : bool :=
    seqb (fst (fst x)) (fst (fst y)) && spin_eqb (snd (fst x)) (snd (fst y)) && Bool.eqb (snd x) (snd y).
  Definition word_eqb : list sop -> list sop -> bool := list_eqb sop_eqb.
End Lattice.

(* ------------------------------------------------------------------ *)
(* parse_edges_to_site_info: interpreter of the generated loop skeleton *)
Section SiteInfo.
  Context {S Nm : Type} (seqb sltb : S -> S -> bool) (bond_name : S -> S -> Nm) (phys_name : S -> Nm).

  Record sinfo : Type := { si_inds : list Nm; si_duals : list Z; si_shape : list Z; si_coord : option Z }.
  Definition empty_info : sinfo := {| si_inds := []; si_duals := []; si_shape := []; si_coord := None |}.

  (* Python tuple order on edges *)
  Definition edge_ltb (e1 e2 : S * S) : bool :=
    sltb (fst e1) (fst e2) || (seqb (fst e1) (fst e2) && sltb (snd e1) (snd e2)).

  Definition orient (e : S * S) : S * S :=
    match site_info_swap with
    | SwapNever => e
    | SwapIfGt => if sltb (snd e) (fst e) then (snd e, fst e) else e
    | SwapIfLt => if sltb (fst e) (snd e) then (snd e, fst e) else e
    end.

  Definition create (k : S) (sites : list (S * sinfo)) : list (S * sinfo) :=
    if dhas seqb k sites then sites else sites ++ [(k, empty_info)].
  Definition upd (k : S) (g : sinfo -> sinfo) (sites : list (S * sinfo)) : list (S * sinfo) :=
    map (fun ki => if seqb k (fst ki) then (fst ki, g (snd ki)) else ki) sites.

  Definition app_field (f : si_field) (v : si_val) (nm pnm : Nm) (bd pd : Z) (i : sinfo) : sinfo :=
    let zval := match v with VConst z => Some z | VBondDim => Some bd | VPhysDim => Some pd | _ => None end in
    let nval := match v with VInd => Some nm | VPhysInd => Some pnm | _ => None end in
    match f with
    | FInds => match nval with
               | Some n => {| si_inds := si_inds i ++ [n]; si_duals := si_duals i; si_shape := si_shape i; si_coord := si_coord i |}
               | None => i end
    | FDuals => match zval with
                | Some z => {| si_inds := si_inds i; si_duals := si_duals i ++ [z]; si_shape := si_shape i; si_coord := si_coord i |}
                | None => i end
    | FShape => match zval with
                | Some z => {| si_inds := si_inds i; si_duals := si_duals i; si_shape := si_shape i ++ [z]; si_coord := si_coord i |}
                | None => i end
    end.

  Definition end_site (a b : S) (e : si_end) : S := match e with EndA => a | EndB => b end.

  Definition bond_step (bd : Z) (sites : list (S * sinfo)) (e : S * S) : list (S * sinfo) :=
    let a := fst (orient e) in
    let b := snd (orient e) in
    let nm := if site_info_name_ab then bond_name a b else bond_name b a in
    let sites := fold_left (fun s en => create (end_site a b en) s) site_info_create sites in
    fold_left (fun s (st : si_stmt) =>
                 upd (end_site a b (fst (fst st))) (app_field (snd (fst st)) (snd st) nm nm bd bd) s)
              site_info_body sites.

  Definition set_coord (i : sinfo) : sinfo :=
    {| si_inds := si_inds i; si_duals := si_duals i; si_shape := si_shape i;
       si_coord := Some (Z.of_nat (length (si_inds i))) |}.

  Definition finish_site (pd : option Z) (ki : S * sinfo) : S * sinfo :=
    let i := snd ki in
    let i1 := if site_info_coordination_before_phys then set_coord i else i in
    let i2 := match pd with
              | Some p => fold_left (fun j fv => app_field (fst fv) (snd fv) (phys_name (fst ki)) (phys_name (fst ki)) p p j)
                                    site_info_phys i1
              | None => i1 end in
    (fst ki, if site_info_coordination_before_phys then i2 else set_coord i2).

  Definition bonds_of (bd : Z) (edges : list (S * S)) : list (S * sinfo) :=
    fold_left (bond_step bd) (if site_info_sorted then isort edge_ltb edges else edges) [].

  Definition site_info (edges : list (S * S)) (bd : Z) (pd : option Z) : list (S * sinfo) :=
    map (finish_site pd) (bonds_of bd edges).
End SiteInfo.

(* ------------------------------------------------------------------ *)
(* boolean comparisons used by the cases.v correspondence (harness/c19.py);
   site labels there are lists of integers (ints, tuples, strings by code point) *)
Definition lbl : Type := list Z.
Definition lbl_eqb : lbl -> lbl -> bool := list_eqb Z.eqb.
Fixpoint lbl_ltb (x y : lbl) : bool :=
  match x, y with
  | [], [] => false
  | [], _ :: _ => true
  | _ :: _, [] => false
  | a :: x', b :: y' => Z.ltb a b || (Z.eqb a b && lbl_ltb x' y')
  end.

Definition q2_eqb (x y : Q * Q) : bool := Qeq_bool (fst x) (fst y) && Qeq_bool (snd x) (snd y).
Definition z2_eqb (x y : Z * Z) : bool := Z.eqb (fst x) (fst y) && Z.eqb (snd x) (snd y).
Definition hubbard_call_eqb (x y : hubbard_call) : bool :=
  Qeq_bool (hc_t x) (hc_t y) && q2_eqb (hc_U x) (hc_U y) && q2_eqb (hc_mu x) (hc_mu y) && z2_eqb (hc_coord x) (hc_coord y).
Definition spinless_call_eqb (x y : spinless_call) : bool :=
  Qeq_bool (sc_t x) (sc_t y) && Qeq_bool (sc_V x) (sc_V y) && q2_eqb (sc_mu x) (sc_mu y) && z2_eqb (sc_coord x) (sc_coord y).
Definition calls_eqb {C} (ceqb : C -> C -> bool) (x y : option (list ((lbl * lbl) * C))) : bool :=
  match x, y with
  | None, None => true
  | Some a, Some b =>
      list_eqb (fun p q => pair_eqb lbl_eqb lbl_eqb (fst p) (fst q) && ceqb (snd p) (snd q)) a b
  | _, _ => false
  end.
(* a Python callable / dict-backed coefficient: table lookup, 0 outside the table *)
Definition efun_of (tab : list ((lbl * lbl) * Q)) : edge_coef lbl :=
  EFun (fun a b => oget (lookup (pair_eqb lbl_eqb lbl_eqb) (a, b) tab)).
Definition nfun_of (tab : list (lbl * Q)) : node_coef lbl :=
  NFun (fun v => oget (lookup lbl_eqb v tab)).

Definition lop_eqb (x y : lop) : bool :=
  Nat.eqb (fst (fst x)) (fst (fst y)) && spin_eqb (snd (fst x)) (snd (fst y)) && Bool.eqb (snd x) (snd y).
Definition terms_eqb (x y : list (Q * list lop)) : bool :=
  list_eqb (fun p q => Qeq_bool (fst p) (fst q) && list_eqb lop_eqb (snd p) (snd q)) x y.
Definition eval_terms (env : cenv) (terms : list (cexpr * list lop)) : list (Q * list lop) :=
  map (fun cw => (ceval env (fst cw), snd cw)) terms.

(* site info with names = list of labels: bond (a,b) -> [a; b], physical index of v -> [v] *)
Definition sinfo_eqb (x y : @sinfo (list lbl)) : bool :=
  list_eqb (list_eqb lbl_eqb) (si_inds x) (si_inds y) && list_eqb Z.eqb (si_duals x) (si_duals y)
  && list_eqb Z.eqb (si_shape x) (si_shape y)
  && match si_coord x, si_coord y with Some a, Some b => Z.eqb a b | None, None => true | _, _ => false end.
Definition site_info_lbl (edges : list (lbl * lbl)) (bd : Z) (pd : option Z) : list (lbl * @sinfo (list lbl)) :=
  site_info lbl_eqb lbl_ltb (fun a b => [a; b]) (fun v => [v]) edges bd pd.
Definition site_info_eqb (x y : list (lbl * @sinfo (list lbl))) : bool :=
  list_eqb (fun p q => lbl_eqb (fst p) (fst q) && sinfo_eqb (snd p) (snd q)) x y.
