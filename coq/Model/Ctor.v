(* Model/Ctor.v — hand model of the constructors of symmray.abelian_core.AbelianArray
   (__init__, from_fill_fn, from_blocks, from_dense) and of to_dense
   (abelian and fermionic), on the tree with fix 28a1fb2 (signed charge inference).  Definitions only, all computable; tied to the
   implementation by the cases.v correspondence of harness/c16.py.
   `None` = the Python code raises. *)
From SV Require Import Base.Prelude Base.Sym Base.Tensor Model.Sectors Model.Array Model.Arith
  Model.Wf Model.Fermi.
Local Open Scope nat_scope.

Fixpoint all_some {A} (l : list (option A)) : option (list A) :=
  match l with
  | [] => Some []
  | None :: _ => None
  | Some x :: l' => match all_some l' with Some r => Some (x :: r) | None => None end
  end.

Section Ctor.
  Context (G : Symmetry) (R : Ring).
  Notation Ch := (C G).
  Notation sector := (list (C G)).
  Notation keq := (list_eqb (ceqb G)).
  Notation arr := (aarray G R).
  Notation idx := (index G).

  (* `charge=None` -> symmetry.combine()  (from_fill_fn / from_blocks / from_dense) *)
  Definition charge_or_ident (q : option Ch) : Ch := match q with Some c => c | None => ident G end.

  (* AbelianArray.__init__: with `charge` omitted the charge is inferred from the FIRST stored
     sector as the SIGNED combination combine( *(sign(c, ix.dual) for c, ix in zip(sector, indices)))
     (fix 28a1fb2; before it the plain combine( *sector) ignored the index directions), or is the
     identity when nothing is stored *)
  Definition init_charge (ixs : list idx) (q : option Ch) (blks : list (sector * tensor R)) : Ch :=
    match q with
    | Some c => c
    | None => match blks with
              | [] => ident G
              | sb :: _ => combine G (signed_sector G false (fst sb) (map (idual G) ixs))
              end
    end.
  Definition init_array (ixs : list idx) (q : option Ch) (blks : list (sector * tensor R)) : arr :=
    mkA G R ixs (init_charge ixs q blks) blks.

  (* from_fill_fn: new = cls(indices, charge); for sector in new.gen_valid_sectors():
       new.blocks[sector] = fill_fn(new.get_block_shape(sector)) *)
  Definition from_fill_fn (fill : list nat -> tensor R) (ixs : list idx) (q : option Ch) : arr :=
    let c := charge_or_ident q in
    let secs := gen_valid_sectors G (map (icharges G) ixs) (map (idual G) ixs) c in
    mkA G R ixs c (fold_left (fun acc s => dset keq s (fill (block_shape G ixs s)) acc) secs []).

  (* ---------------------------------------------------------------- from_blocks *)
  (* one step of `charge_size_maps[i]`: new charge -> appended; known charge with the same
     size -> unchanged; known charge with another size -> ValueError *)
  Definition cm_collect (acc : option (list (Ch * nat))) (p : Ch * nat) : option (list (Ch * nat)) :=
    match acc with
    | None => None
    | Some cm =>
        match lookup (ceqb G) (fst p) cm with
        | None => Some (cm ++ [p])
        | Some d => if Nat.eqb d (snd p) then Some cm else None
        end
    end.
  (* the (charge, extent) pairs axis i receives, in block order: zip(sector, shape)[i] *)
  Definition axis_pairs (i : nat) (blks : list (sector * tensor R)) : list (Ch * nat) :=
    flat_map (fun sb => match nth_error (List.combine (fst sb) (tshape (snd sb))) i with
                        | Some p => [p] | None => [] end) blks.
  Definition axis_table (i : nat) (blks : list (sector * tensor R)) : option (list (Ch * nat)) :=
    fold_left cm_collect (axis_pairs i blks) (Some []).

  Definition from_blocks (blks : list (sector * tensor R)) (dls : list bool) (q : option Ch) : option arr :=
    match blks with
    | [] => None                                     (* next(iter(blocks.keys())) raises *)
    | sb0 :: _ =>
        let n := length (fst sb0) in
        (* a later sector longer than the first: charge_size_maps[i] IndexError *)
        if existsb (fun sb => Nat.ltb n (Nat.min (length (fst sb)) (length (tshape (snd sb))))) blks then None
        else match all_some (map (fun i => axis_table i blks) (seq 0 n)) with
             | None => None                          (* inconsistent block sizes *)
             | Some tabs =>
                 if Nat.eqb (length dls) n
                 then Some (init_array (map (fun p => mk_index G (fst p) (snd p) None) (List.combine tabs dls))
                                       (Some (charge_or_ident q)) blks)
                 else None                           (* wrong number of duals *)
             end
    end.

  (* ---------------------------------------------------------------- from_dense *)
  (* which_charge.setdefault(index_map[i], []).append(i): positions grouped by label,
     labels in first-seen order *)
  Definition group_add (acc : list (Ch * list nat)) (p : nat * Ch) : list (Ch * list nat) :=
    match lookup (ceqb G) (snd p) acc with
    | Some l => dset (ceqb G) (snd p) (l ++ [fst p]) acc
    | None => acc ++ [(snd p, [fst p])]
    end.
  Definition group_positions (labels : list Ch) : list (Ch * list nat) :=
    fold_left group_add (enumerate labels) [].
  Definition positions_of (g : list (Ch * list nat)) (c : Ch) : list nat :=
    match lookup (ceqb G) c g with Some l => l | None => [] end.

  (* numpy fancy indexing, one axis after the other = selection of a sub-grid *)
  Definition tselect (t : tensor R) (pos : list (list nat)) : tensor R :=
    build R (map (@length nat) pos)
          (fun i => get R t (map (fun p => nth (snd p) (fst p) 0) (List.combine pos i))).

  Definition from_dense (d : tensor R) (maps : list (list Ch)) (dls : list bool) (q : option Ch) : option arr :=
    let n := length (tshape d) in
    if Nat.eqb (length maps) n && Nat.eqb (length dls) n &&
       list_eqb Nat.eqb (map (@length Ch) maps) (tshape d) then
      let c := charge_or_ident q in
      let groups := map group_positions maps in
      (* _recurse: nested loops over the groups, axis 0 outermost; only valid sectors kept *)
      let secs := filter (is_valid_sector G dls c) (product (map (fun g => map fst g) groups)) in
      let blks := map (fun s => (s, tselect d (map (fun p => positions_of (fst p) (snd p)) (List.combine groups s)))) secs in
      let ixs := map (fun p => mk_index G (map (fun e => (fst e, length (snd e))) (fst p)) (snd p) None)
                     (List.combine groups dls) in
      Some (init_array ixs (Some c) blks)
    else None.

  (* ---------------------------------------------------------------- to_dense *)
  (* _recurse_all_charges: concatenate over sorted(index.charges), zero fill *)
  Fixpoint dense_go (ixs_all : list idx) (blks : list (sector * tensor R))
           (rest : list idx) (axis : nat) (partial : sector) : tensor R :=
    match rest with
    | [] => match lookup keq partial blks with
            | Some b => b
            | None => tzeros R (block_shape G ixs_all partial)
            end
    | ix :: rest' =>
        tconcat R (map (fun c => dense_go ixs_all blks rest' (S axis) (partial ++ [c]))
                       (isort (cltb G) (icharges G ix))) axis
    end.

  Definition to_dense (x : arr) : option (tensor R) :=
    (* (no stored block: zeros are made `like=0.0`, still a dense array of zeros) *)
    if existsb (fun ix => is_nil (chargemap G ix)) (indices G R x) then None   (* concatenate(()) raises *)
    else Some (dense_go (indices G R x) (blocks G R x) (indices G R x) 0 []).

  (* FermionicArray.to_dense = AbelianArray.to_dense(self.phase_sync()) *)
  Definition f_to_dense (x : farray G R) : option (tensor R) := to_dense (f_value G R x).

  (* ---------------------------------------------------------------- dense coordinates *)
  (* position along one axis -> (charge, offset) of the (sorted) table, and back *)
  Definition coord_at (ix : idx) (p : nat) : coord G := nth p (index_coords G ix) (ident G, 0).
  Definition coords_of (ixs : list idx) (pos : list nat) : list (coord G) :=
    map (fun q => coord_at (fst q) (snd q)) (List.combine ixs pos).
  Fixpoint base_of (cm : list (Ch * nat)) (c : Ch) : nat :=
    match cm with
    | [] => 0
    | (c', d) :: cm' => if ceqb G c c' then 0 else d + base_of cm' c
    end.
  Definition pos_of (ixs : list idx) (cs : list (coord G)) : list nat :=
    map (fun q => base_of (chargemap G (fst q)) (fst (snd q)) + snd (snd q)) (List.combine ixs cs).
  (* the per-axis charge labels of the dense form of an array with these indices *)
  Definition labels_of (ixs : list idx) : list (list Ch) := map (fun ix => map fst (index_coords G ix)) ixs.
End Ctor.

(* a deterministic fill function for the correspondence: arange(size).reshape(shape) + ndim + 1 *)
Definition demo_fill (sh : list nat) : tensor ZRing :=
  build ZRing sh (fun i => (Z.of_nat (offset sh i) + Z.of_nat (length sh) + 1)%Z).
