(* Model/Wf.v — the validity predicate of property C01 (executable) and the
   coordinate semantics `sem` used by the "equals dense" theorems. *)
From SV Require Import Base.Prelude Base.Sym Base.Tensor Model.Sectors Model.Array.
Local Open Scope nat_scope.

Fixpoint sorted_by {A} (ltb : A -> A -> bool) (l : list A) : bool :=   (* strictly increasing *)
  match l with
  | [] => true
  | x :: l' => match l' with [] => true | y :: _ => ltb x y && sorted_by ltb l' end
  end.

Fixpoint nodupb {A} (eqb : A -> A -> bool) (l : list A) : bool :=
  match l with [] => true | x :: l' => negb (mem eqb x l') && nodupb eqb l' end.

Section Wf.
  Context (G : Symmetry) (R : Ring).
  Notation Ch := (C G).
  Notation sector := (list (C G)).
  Notation keq := (list_eqb (ceqb G)).
  Notation sec_ltb := (list_ltb (cltb G) (ceqb G)).

  Definition cm_ok (cm : list (Ch * nat)) : bool :=
    sorted_by (cltb G) (map fst cm) && forallb (fun p => valid G (fst p) && Nat.ltb 0 (snd p)) cm.

  (* one fused charge's extent: sub-sectors partition the fused size *)
  Definition extent_ok (wf_sub : index G -> bool) (fdual : bool) (subs : list (index G)) (c : Ch) (d : nat)
             (e : list (sector * nat)) : bool :=
    Nat.eqb (nsum (map snd e)) d &&
    sorted_by sec_ltb (map fst e) &&
    forallb (fun p =>
      let ss := fst p in
      Nat.eqb (length ss) (length subs) &&
      forallb (fun q => mem (ceqb G) (snd q) (icharges G (fst q))) (List.combine subs ss) &&
      Nat.eqb (snd p) (nprod (map (fun q => size_of G (fst q) (snd q)) (List.combine subs ss))) &&
      ceqb G (combine G (map (fun q => sign G (snd q) (negb (Bool.eqb fdual (idual G (fst q))))) (List.combine subs ss))) c) e.

  Fixpoint wf_index (ix : index G) : bool :=
    match ix with
    | Index _ cm d sub =>
        cm_ok cm &&
        match sub with
        | None => true
        | Some (subs, ext) =>
            negb (is_nil subs) &&
            Bool.eqb d (match subs with s0 :: _ => idual G s0 | [] => d end) &&
            (fix all (l : list (index G)) : bool := match l with [] => true | s :: l' => wf_index s && all l' end) subs &&
            nodupb (ceqb G) (map fst ext) &&
            Nat.eqb (length ext) (length cm) &&
            forallb (fun p => match lookup (ceqb G) (fst p) ext with
                              | Some e => extent_ok (fun _ => true) d subs (fst p) (snd p) e
                              | None => false end) cm
        end
    end.

  Definition sector_ok (ixs : list (index G)) (q : Ch) (s : sector) : bool :=
    Nat.eqb (length s) (length ixs) &&
    forallb (fun p => mem (ceqb G) (snd p) (icharges G (fst p))) (List.combine ixs s) &&
    is_valid_sector G (map (idual G) ixs) q s.

  Definition wf_array (x : aarray G R) : bool :=
    forallb wf_index (indices G R x) &&
    valid G (charge G R x) &&
    nodupb keq (sectors G R x) &&
    forallb (fun sb => sector_ok (indices G R x) (charge G R x) (fst sb) &&
                       list_eqb Nat.eqb (tshape (snd sb)) (block_shape G (indices G R x) (fst sb)) &&
                       Nat.eqb (length (tdata (snd sb))) (shape_size (tshape (snd sb)))) (blocks G R x).

  (* ---- coordinate semantics: one (charge, offset) pair per axis ---- *)
  Definition coord := (Ch * nat)%type.
  Definition sem (x : aarray G R) (cs : list coord) : RT R :=
    match lookup keq (map fst cs) (blocks G R x) with
    | Some b => get R b (map snd cs)
    | None => r0 R
    end.
  (* the coordinate is inside the index tables *)
  Definition coords_ok (ixs : list (index G)) (cs : list coord) : bool :=
    Nat.eqb (length cs) (length ixs) &&
    forallb (fun p => Nat.ltb (snd (snd p)) (size_of G (fst p) (fst (snd p)))) (List.combine ixs cs).
  (* all coordinates of one index / of a list of indices, in dense (sorted-charge) order *)
  Definition index_coords (ix : index G) : list coord :=
    flat_map (fun p => map (fun o => (fst p, o)) (seq 0 (snd p))) (chargemap G ix).
  Definition all_coords (ixs : list (index G)) : list (list coord) := product (map index_coords ixs).
End Wf.
