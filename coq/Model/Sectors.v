(* Model/Sectors.v — charge conservation of a sector and the enumeration of all
   valid sectors (AbelianArray.is_valid_sector / gen_valid_sectors). *)
From SV Require Import Base.Prelude Base.Sym.
Local Open Scope Z_scope.

Fixpoint product {A} (ls : list (list A)) : list (list A) :=   (* itertools.product *)
  match ls with
  | [] => [[]]
  | l :: ls' => flat_map (fun x => map (cons x) (product ls')) l
  end.

Fixpoint split_last {A} (l : list A) : option (list A * A) :=
  match l with
  | [] => None
  | [x] => Some ([], x)
  | x :: l' => match split_last l' with Some (f, y) => Some (x :: f, y) | None => None end
  end.

Section Sectors.
  Context (G : Symmetry).

  Definition signed_sector (flip : bool) (sector : list (C G)) (duals : list bool) : list (C G) :=
    map (fun cd => sign G (fst cd) (xorb flip (snd cd))) (List.combine sector duals).

  (* is_valid_sector: signed charges combine to the total charge *)
  Definition is_valid_sector (duals : list bool) (charge : C G) (sector : list (C G)) : bool :=
    ceqb G (combine G (signed_sector false sector duals)) charge.

  Definition gen_valid_sectors (charges : list (list (C G))) (duals : list bool) (charge : C G)
    : list (list (C G)) :=
    match split_last charges, split_last duals with
    | None, _ => if ceqb G charge (ident G) then [[]] else []
    | Some (first_charges, last_charges), Some (first_duals, last_dual) =>
        flat_map (fun partial =>
          let sp := combine G (signed_sector true partial first_duals) in
          let req := sign G (combine G [charge; sp]) last_dual in
          if mem (ceqb G) req last_charges then [partial ++ [req]] else [])
          (product first_charges)
    | Some _, None => []
    end.
End Sectors.
