(* Model/Arith.v — elementwise / arithmetic operations of BlockBase, AbelianArray
   and BlockVector (block_core.py, abelian_core.py).  Definitions only. *)
From SV Require Import Base.Prelude Base.Sym Base.Tensor Model.Sectors Model.Array.
Local Open Scope nat_scope.

Section Arith.
  Context (G : Symmetry) (R : Ring).
  Notation Ch := (C G).
  Notation sector := (list (C G)).
  Notation keq := (list_eqb (ceqb G)).
  Notation arr := (aarray G R).

  Section Dicts.
    Context {K : Type} (ke : K -> K -> bool).
    Notation dict := (list (K * tensor R)).
    (* _binary_blockwise_op, missing="outer": left order, then right-only blocks in right order *)
    Definition bin_outer (f : tensor R -> tensor R -> tensor R) (bx bo : dict) : dict :=
      map (fun p => match lookup ke (fst p) bo with Some t => (fst p, f (snd p) t) | None => p end) bx
      ++ filter (fun q => negb (dhas ke (fst q) bx)) bo.
    (* missing=None: the key sets must coincide, else ValueError *)
    Definition bin_strict (f : tensor R -> tensor R -> tensor R) (bx bo : dict) : option dict :=
      if forallb (fun p => dhas ke (fst p) bo) bx && forallb (fun q => dhas ke (fst q) bx) bo
      then Some (map (fun p => match lookup ke (fst p) bo with Some t => (fst p, f (snd p) t) | None => p end) bx)
      else None.
    (* missing="inner": only shared keys survive *)
    Definition bin_inner (f : tensor R -> tensor R -> tensor R) (bx bo : dict) : dict :=
      flat_map (fun p => match lookup ke (fst p) bo with Some t => [(fst p, f (snd p) t)] | None => [] end) bx.
    Definition dict_map (f : tensor R -> tensor R) (d : dict) : dict := map (fun p => (fst p, f (snd p))) d.
    Definition dict_sum (d : dict) : RT R := fold_left (fun acc p => radd R acc (tsum R (snd p))) d (r0 R).
    Definition dict_norm2 (d : dict) : RT R := fold_left (fun acc p => radd R acc (tnorm2 R (snd p))) d (r0 R).
  End Dicts.

  Definition with_blocks (x : arr) b : arr := mkA G R (indices G R x) (charge G R x) b.
  Definition a_scale (x : arr) (s : RT R) : arr := with_blocks x (dict_map (tscale R s) (blocks G R x)).
  Definition a_neg (x : arr) : arr := with_blocks x (dict_map (tneg R) (blocks G R x)).
  Definition a_add (x y : arr) : arr := with_blocks x (bin_outer keq (tadd R) (blocks G R x) (blocks G R y)).
  Definition tsub (a b : tensor R) : tensor R := tadd R a (tneg R b).
  Definition a_sub (x y : arr) : option arr :=
    match bin_strict keq tsub (blocks G R x) (blocks G R y) with Some b => Some (with_blocks x b) | None => None end.
  Definition a_mul (x y : arr) : arr := with_blocks x (bin_inner keq (tmul R) (blocks G R x) (blocks G R y)).
  Definition a_sum (x : arr) : RT R := dict_sum (blocks G R x).
  Definition a_norm2 (x : arr) : RT R := dict_norm2 (blocks G R x).

  (* block vectors: dict charge -> 1-d tensor *)
  Definition bvec := list (Ch * tensor R).
  Definition v_add (x y : bvec) : bvec := bin_outer (ceqb G) (tadd R) x y.
  Definition v_sub (x y : bvec) : option bvec := bin_strict (ceqb G) tsub x y.
  Definition v_mul (x y : bvec) : bvec := bin_inner (ceqb G) (tmul R) x y.
  Definition v_scale (x : bvec) (s : RT R) : bvec := dict_map (tscale R s) x.
  Definition v_neg (x : bvec) : bvec := dict_map (tneg R) x.

  (* multiply_diagonal: "ab...X...c,X->ab...X...c"; sectors whose axis charge the vector lacks vanish *)
  Definition tmul_diag (t v : tensor R) (axis : nat) : tensor R :=
    build R (tshape t) (fun idx => rmul R (get R t idx) (get R v [nth axis idx 0])).
  Definition a_multiply_diagonal (x : arr) (v : bvec) (axis : nat) : arr :=
    with_blocks x (flat_map (fun sb =>
      match lookup (ceqb G) (nth axis (fst sb) (ident G)) v with
      | Some vb => [(fst sb, tmul_diag (snd sb) vb axis)]
      | None => []
      end) (blocks G R x)).

  (* squeeze(axis=None | axes): only zero-charge size-one axes can be removed *)
  Definition a_squeeze (x : arr) (axes : option (list nat)) : option arr :=
    let n := ndim G R x in
    let removes := map (fun p => match axes with
                                 | None => Nat.eqb (size_total G (snd p)) 1
                                 | Some l => mem Nat.eqb (fst p) l end) (enumerate (indices G R x)) in
    let okay := forallb (fun p : bool * index G =>
                  if fst p then
                    Nat.leb (size_total G (snd p)) 1 &&
                    match chargemap G (snd p) with [(c, _)] => ceqb G c (ident G) | _ => false end
                  else true) (List.combine removes (indices G R x)) in
    if negb okay then None
    else
      let keep := map fst (filter (fun p => negb (snd p)) (List.combine (seq 0 n) removes)) in
      Some (mkA G R (take_axes (dflt_index G) (indices G R x) keep) (charge G R x)
              (map (fun sb => (take_axes (ident G) (fst sb) keep,
                               treshape R (snd sb) (take_axes 0 (tshape (snd sb)) keep))) (blocks G R x))).
End Arith.
