(* Model/Cache.v — property C15: memoisation, the default-mode context manager
   and GIL-granularity threads.  Definitions only (total, computable).

   1. Memo      : the ordered-dict memo machine of `cached_fuse_block_info`
   2. Threads   : n threads running the memo script, one atomic dict step at a time
   3. Stmt      : a small statement language with exceptions for the
                  `default_tensordot_mode` context manager (terms come from Gen/ModeCtx.v)
   4. Key       : what the cache key hashes (component lists come from Gen/CacheKey.v)
   5. Sites     : attribute-assignment sites / lru_cache helpers (lists from Gen/CacheKey.v) *)
From Coq Require Import String.
From SV Require Import Base.Prelude.
Open Scope Z_scope.

(* ------------------------------------------------------------------ *)
(* 1. The memo machine.  The eviction policy is read off the source by
   tr/gen_cache.py; the value theorems hold for every policy. *)
Record policy := { move_on_hit : bool;     (* `_fuseinfos.move_to_end(key)` present on a hit *)
                   pop_oldest : bool }.    (* `popitem(last=False)` (true) or `popitem(last=True)` *)
Definition LRU : policy := {| move_on_hit := true; pop_oldest := true |}.

Inductive event := EvBypass | EvHit | EvMiss.
Definition event_eqb (a b : event) : bool :=
  match a, b with EvBypass, EvBypass | EvHit, EvHit | EvMiss, EvMiss => true | _, _ => false end.

Section Memo.
  Context {A K V : Type} (keqb : K -> K -> bool).
  Definition cache := list (K * V).        (* OrderedDict: oldest first *)

  Definition move_to_end (k : K) (d : cache) : cache :=
    match lookup keqb k d with
    | Some v => dpop keqb k d ++ [(k, v)]
    | None => d
    end.

  Definition too_long (maxsize : Z) (d : cache) : bool := Z.of_nat (length d) >? maxsize.

  Definition popitem (p : policy) (d : cache) : cache :=
    if pop_oldest p then tl d else removelast d.

  Definition evict (p : policy) (maxsize : Z) (d : cache) : cache :=
    if too_long maxsize d then popitem p d else d.

  Section Machine.
    Context (p : policy) (f : A -> V) (bypass : A -> bool) (maxsize : Z).

    (* one call with the key already computed *)
    Definition stepk (d : cache) (k : K) (a : A) : cache * V :=
      if (maxsize =? 0) || bypass a then (d, f a)
      else match lookup keqb k d with
           | Some v => ((if move_on_hit p then move_to_end k d else d), v)
           | None => let v := f a in (evict p maxsize (dset keqb k v d), v)
           end.

    Definition eventk (d : cache) (k : K) (a : A) : event :=
      if (maxsize =? 0) || bypass a then EvBypass
      else match lookup keqb k d with Some _ => EvHit | None => EvMiss end.

    Fixpoint runk (d : cache) (h : list (K * A)) : cache * list V :=
      match h with
      | [] => (d, [])
      | (k, a) :: h' => let '(d1, v) := stepk d k a in
                        let '(d2, vs) := runk d1 h' in (d2, v :: vs)
      end.

    Fixpoint tracek (d : cache) (h : list (K * A)) : list event :=
      match h with
      | [] => []
      | (k, a) :: h' => eventk d k a :: tracek (fst (stepk d k a)) h'
      end.
  End Machine.

  (* the functional-key presentation *)
  Definition step (key : A -> K) (f : A -> V) (p : policy) (bypass : A -> bool) (maxsize : Z)
             (d : cache) (a : A) : cache * V := stepk p f bypass maxsize d (key a) a.
  Definition run (key : A -> K) (f : A -> V) (p : policy) (bypass : A -> bool) (maxsize : Z)
             (d : cache) (h : list A) : cache * list V :=
    runk p f bypass maxsize d (map (fun a => (key a, a)) h).

  (* ---------------------------------------------------------------- *)
  (* 2. Threads.  Program counter of one call; every constructor is the state
     before one atomic operation on the shared OrderedDict. *)
  Inductive pc :=
  | PLookup              (* res = _fuseinfos[key]            (KeyError -> PInsert) *)
  | PMove (v : V)        (* _fuseinfos.move_to_end(key)      (KeyError -> PInsert: it is inside the try) *)
  | PInsert              (* res = _fuseinfos[key] = calc(...) *)
  | PLen (v : V)         (* len(_fuseinfos) > maxsize *)
  | PPop (v : V).        (* _fuseinfos.popitem(...)          (empty dict: KeyError escapes) *)

  Record thread := { todo : list (K * A);                  (* calls still to make *)
                     at_pc : pc;                           (* position inside the first of them *)
                     results : list (K * A * option V) }.  (* finished calls; None = raised *)

  Definition finish (t : thread) (r : option V) : thread :=
    match todo t with
    | [] => t
    | (k, a) :: rest => {| todo := rest; at_pc := PLookup; results := results t ++ [(k, a, r)] |}
    end.
  Definition goto (t : thread) (q : pc) : thread :=
    {| todo := todo t; at_pc := q; results := results t |}.

  Section Threads.
    Context (tolerant : bool)     (* the eviction tolerates an already empty cache (the repair of F9) *)
            (p : policy) (f : A -> V) (bypass : A -> bool) (maxsize : Z).

    Definition thread_step (d : cache) (t : thread) : cache * thread :=
      match todo t with
      | [] => (d, t)
      | (k, a) :: _ =>
        match at_pc t with
        | PLookup =>
            if (maxsize =? 0) || bypass a then (d, finish t (Some (f a)))
            else match lookup keqb k d with
                 | Some v => if move_on_hit p then (d, goto t (PMove v)) else (d, finish t (Some v))
                 | None => (d, goto t PInsert)
                 end
        | PMove v =>
            if dhas keqb k d then (move_to_end k d, finish t (Some v)) else (d, goto t PInsert)
        | PInsert => (dset keqb k (f a) d, goto t (PLen (f a)))
        | PLen v => if too_long maxsize d then (d, goto t (PPop v)) else (d, finish t (Some v))
        | PPop v =>
            match d with
            | [] => (d, finish t (if tolerant then Some v else None))
            | _ :: _ => (popitem p d, finish t (Some v))
            end
        end
      end.

    Fixpoint step_nth (i : nat) (d : cache) (ts : list thread) {struct ts} : cache * list thread :=
      match ts with
      | [] => (d, [])
      | t :: ts' =>
        match i with
        | O => let '(d', t') := thread_step d t in (d', t' :: ts')
        | S j => let '(d', ts'') := step_nth j d ts' in (d', t :: ts'')
        end
      end.

    (* a schedule names, per atomic step, the thread that holds the GIL *)
    Fixpoint run_sched (d : cache) (ts : list thread) (sched : list nat) : cache * list thread :=
      match sched with
      | [] => (d, ts)
      | i :: sched' => let '(d', ts') := step_nth i d ts in run_sched d' ts' sched'
      end.

    (* upper bound on the atomic steps a thread still needs *)
    Definition pc_rank (q : pc) : nat :=
      match q with PLookup => 5 | PMove _ => 4 | PInsert => 3 | PLen _ => 2 | PPop _ => 1 end.
    Definition steps_left (t : thread) : nat :=
      match todo t with [] => 0 | _ :: rest => 5 * length rest + pc_rank (at_pc t) end%nat.
  End Threads.

  Definition spawn (calls : list (K * A)) : thread := {| todo := calls; at_pc := PLookup; results := [] |}.
  Definition raised (t : thread) : bool := existsb (fun r => is_none (snd r)) (results t).
  Definition all_done (ts : list thread) : bool := forallb (fun t => is_nil (todo t)) ts.
End Memo.

(* ------------------------------------------------------------------ *)
(* 3. Statement language of the context manager. *)
Inductive val := VNone | VMode (m : Z).
Definition val_eqb (a b : val) : bool :=
  match a, b with VNone, VNone => true | VMode x, VMode y => Z.eqb x y | _, _ => false end.

Inductive expr :=
| EName (x : string)
| ENone
| EIsNot (a b : expr)
| EIs (a b : expr).

Inductive stmt :=
| Assign (x : string) (e : expr)
| Global (x : string)
| Yield
| TryFinally (body fin : stmt)
| If (c : expr) (t e : stmt)
| Seq (a b : stmt)
| Pass
| Return (e : expr).

Definition env := list (string * val).
Inductive outcome := Normal | Raises | Returned (v : val).

(* Python scoping: `global x` anywhere in the body makes x global in the whole body *)
Fixpoint globals_of (s : stmt) : list string :=
  match s with
  | Global x => [x]
  | TryFinally a b | Seq a b | If _ a b => globals_of a ++ globals_of b
  | _ => []
  end.
Fixpoint assigned_of (s : stmt) : list string :=
  match s with
  | Assign x _ => [x]
  | TryFinally a b | Seq a b | If _ a b => assigned_of a ++ assigned_of b
  | _ => []
  end.

Record frame := { glob : env; loc : env }.

Section Exec.
  Context (gl : list string)          (* names declared global in this function *)
          (lc : list string)          (* names that are local: parameters and assigned, not declared global *)
          (body : env -> env * bool). (* the with-block: acts on the module globals; true = it raises *)

  Definition is_local (x : string) : bool := mem String.eqb x lc && negb (mem String.eqb x gl).

  (* None = NameError / UnboundLocalError *)
  Fixpoint eval (e : expr) (fr : frame) : option val :=
    match e with
    | EName x => if is_local x then lookup String.eqb x (loc fr) else lookup String.eqb x (glob fr)
    | ENone => Some VNone
    | EIsNot a b => match eval a fr, eval b fr with
                    | Some x, Some y => Some (if val_eqb x y then VMode 0 else VMode 1)
                    | _, _ => None end
    | EIs a b => match eval a fr, eval b fr with
                 | Some x, Some y => Some (if val_eqb x y then VMode 1 else VMode 0)
                 | _, _ => None end
    end.
  (* truthiness of the comparison results above: VMode 0 = False, VMode 1 = True *)
  Definition truthy (v : val) : bool := match v with VNone => false | VMode m => negb (m =? 0) end.

  Fixpoint exec (s : stmt) (fr : frame) : frame * outcome :=
    match s with
    | Pass | Global _ => (fr, Normal)
    | Assign x e =>
        match eval e fr with
        | None => (fr, Raises)
        | Some v => if is_local x
                    then ({| glob := glob fr; loc := dset String.eqb x v (loc fr) |}, Normal)
                    else ({| glob := dset String.eqb x v (glob fr); loc := loc fr |}, Normal)
        end
    | Return e => match eval e fr with None => (fr, Raises) | Some v => (fr, Returned v) end
    | Yield => let '(g', r) := body (glob fr) in
               ({| glob := g'; loc := loc fr |}, if r then Raises else Normal)
    | Seq a b => let '(fr1, o1) := exec a fr in
                 match o1 with Normal => exec b fr1 | _ => (fr1, o1) end
    | If c t e => match eval c fr with
                  | None => (fr, Raises)
                  | Some v => if truthy v then exec t fr else exec e fr
                  end
    | TryFinally b fin => let '(fr1, o1) := exec b fr in
                          let '(fr2, o2) := exec fin fr1 in
                          match o2 with Normal => (fr2, o1) | _ => (fr2, o2) end
    end.
End Exec.

(* a function definition: parameter names + body *)
Record fundef := { params : list string; fbody : stmt }.

Definition call_with (fd : fundef) (args : list val) (body : env -> env * bool) (g : env) : env * outcome :=
  let gl := globals_of (fbody fd) in
  let lc := params fd ++ assigned_of (fbody fd) in
  let '(fr, o) := exec gl lc body (fbody fd) {| glob := g; loc := combine (params fd) args |} in
  (glob fr, o).

(* `with cm(m): body` — the with-statement re-raises what the body raised once the
   generator has finished its `finally`; true = the with-statement raises *)
Definition with_block (fd : fundef) (m : val) (body : env -> env * bool) (g : env) : env * bool :=
  let '(g', o) := call_with fd [m] body g in
  (g', match o with Raises => true | _ => false end).

(* n nested `with cm(m_i):` around an innermost body *)
Fixpoint nested (fd : fundef) (ms : list val) (body : env -> env * bool) : env -> env * bool :=
  match ms with
  | [] => body
  | m :: ms' => with_block fd m (nested fd ms' body)
  end.

Definition no_body : env -> env * bool := fun g => (g, false).

(* ------------------------------------------------------------------ *)
(* 4. What the keys hash.  `ser` = the pickled value; `H` (sha1 of the pickle)
   is a Section oracle in the proofs. *)
Inductive fuse_comp := KIndexHashkeys | KSectors | KSymmetry | KAxesGroups.
Inductive index_comp := KChargemapItems | KDual | KSubinfoHashkey.
Inductive subinfo_comp :=
| KSubIndexBoundMethods   (* `tuple(ix.hashkey for ix in self._indices)`: bound methods, pickled
                             as (getattr, (ix, "hashkey")) i.e. the whole state of every sub-index
                             INCLUDING its `_hashkey` memo slot *)
| KSubIndexHashkeys       (* `tuple(ix.hashkey() for ix in ...)`, should the source ever call it *)
| KExtentsItems.

Definition fuse_comp_eqb (a b : fuse_comp) : bool :=
  match a, b with KIndexHashkeys, KIndexHashkeys | KSectors, KSectors | KSymmetry, KSymmetry
                | KAxesGroups, KAxesGroups => true | _, _ => false end.
Definition index_comp_eqb (a b : index_comp) : bool :=
  match a, b with KChargemapItems, KChargemapItems | KDual, KDual | KSubinfoHashkey, KSubinfoHashkey => true
                | _, _ => false end.
Definition subinfo_comp_eqb (a b : subinfo_comp) : bool :=
  match a, b with KSubIndexBoundMethods, KSubIndexBoundMethods | KSubIndexHashkeys, KSubIndexHashkeys
                | KExtentsItems, KExtentsItems => true | _, _ => false end.

(* every component `calc_fuse_block_info` reads must be hashed *)
Definition fuse_comps_complete (l : list fuse_comp) : bool :=
  mem fuse_comp_eqb KIndexHashkeys l && mem fuse_comp_eqb KSectors l &&
  mem fuse_comp_eqb KSymmetry l && mem fuse_comp_eqb KAxesGroups l.
Definition index_comps_complete (l : list index_comp) : bool :=
  mem index_comp_eqb KChargemapItems l && mem index_comp_eqb KDual l && mem index_comp_eqb KSubinfoHashkey l.
Definition subinfo_comps_complete (l : list subinfo_comp) : bool :=
  (mem subinfo_comp_eqb KSubIndexBoundMethods l || mem subinfo_comp_eqb KSubIndexHashkeys l) &&
  mem subinfo_comp_eqb KExtentsItems l.

Section Key.
  Context {C hash : Type}.

  Inductive ser :=
  | SInt (z : Z) | SBool (b : bool) | SNone | SHash (h : hash) | SCharge (c : C)
  | STuple (l : list ser)
  | SObj (l : list ser).      (* an object pickled by class + slot state *)

  (* BlockIndex; a fused index carries its SubIndexInfo inline.  `memo`/`smemo` are
     the lazily filled `_hashkey` slots of the BlockIndex / SubIndexInfo. *)
  Inductive index :=
  | Leaf (cm : list (C * nat)) (dual : bool) (memo : option hash)
  | Fused (cm : list (C * nat)) (dual : bool)
          (subs : list index) (ext : list (C * list (list C * nat))) (smemo : option hash)
          (memo : option hash).

  Definition ser_cm (cm : list (C * nat)) : ser :=
    STuple (map (fun cn => STuple [SCharge (fst cn); SInt (Z.of_nat (snd cn))]) cm).
  Definition ser_sector (s : list C) : ser := STuple (map SCharge s).
  Definition ser_extent (e : list (list C * nat)) : ser :=
    STuple (map (fun sn => STuple [ser_sector (fst sn); SInt (Z.of_nat (snd sn))]) e).
  Definition ser_ext (ext : list (C * list (list C * nat))) : ser :=
    STuple (map (fun ce => STuple [SCharge (fst ce); ser_extent (snd ce)]) ext).
  Definition ser_sectors (ss : list (list C)) : ser := STuple (map ser_sector ss).
  Definition ser_groups (gs : list (list Z)) : ser := STuple (map (fun g => STuple (map SInt g)) gs).
  Definition ser_memo (m : option hash) : ser := match m with None => SNone | Some h => SHash h end.

  (* full object state, as pickle sees it through a bound method *)
  Fixpoint pickle (ix : index) : ser :=
    match ix with
    | Leaf cm d m => SObj [ser_cm cm; SBool d; SNone; ser_memo m]
    | Fused cm d subs ext sm m =>
        SObj [ser_cm cm; SBool d; SObj [STuple (map pickle subs); ser_ext ext; ser_memo sm]; ser_memo m]
    end.

  (* the content of an index: everything except the memo slots *)
  Fixpoint erase (ix : index) : index :=
    match ix with
    | Leaf cm d _ => Leaf cm d None
    | Fused cm d subs ext _ _ => Fused cm d (map erase subs) ext None None
    end.

  Section Keys.
    Context (H : ser -> hash)
            (ci : list index_comp) (cs : list subinfo_comp) (cf : list fuse_comp).

    Definition icomp (cm : list (C * nat)) (d : bool) (sub : ser) (c : index_comp) : ser :=
      match c with KChargemapItems => ser_cm cm | KDual => SBool d | KSubinfoHashkey => sub end.
    Definition scomp (methods hashkeys : ser) (ext : ser) (c : subinfo_comp) : ser :=
      match c with KSubIndexBoundMethods => methods | KSubIndexHashkeys => hashkeys | KExtentsItems => ext end.

    Definition index_hash (cm : list (C * nat)) (d : bool) (sub : ser) : hash :=
      H (STuple (map (icomp cm d sub) ci)).
    Definition subinfo_hash (methods hashkeys ext : ser) : hash :=
      H (STuple (map (scomp methods hashkeys ext) cs)).

    (* what `ix.hashkey()` returns in the current memo state *)
    Fixpoint hashkey (ix : index) : hash :=
      match ix with
      | Leaf _ _ (Some h) => h
      | Leaf cm d None => index_hash cm d SNone
      | Fused _ _ _ _ _ (Some h) => h
      | Fused cm d subs ext (Some hs) None => index_hash cm d (SHash hs)
      | Fused cm d subs ext None None =>
          index_hash cm d (SHash (subinfo_hash (STuple (map pickle subs))
                                               (STuple (map (fun s => SHash (hashkey s)) subs)) (ser_ext ext)))
      end.

    (* "h is a hash key some object with the content of ix may legitimately carry" *)
    Fixpoint legit (ix : index) (h : hash) {struct ix} : Prop :=
      match ix with
      | Leaf cm d _ => h = index_hash cm d SNone
      | Fused cm d subs ext _ _ =>
          exists hs, h = index_hash cm d (SHash hs) /\
          exists (subs' : list index) (hks : list hash),
            map erase subs' = map erase subs /\
            (fix all2 (l : list index) (hl : list hash) {struct l} : Prop :=
               match l, hl with
               | [], [] => True
               | x :: l', k :: hl' => legit x k /\ all2 l' hl'
               | _, _ => False
               end) subs hks /\
            hs = subinfo_hash (STuple (map pickle subs')) (STuple (map SHash hks)) (ser_ext ext)
      end.

    Definition legit_sub (subs : list index) (ext : list (C * list (list C * nat))) (hs : hash) : Prop :=
      exists (subs' : list index) (hks : list hash),
        map erase subs' = map erase subs /\ Forall2 legit subs hks /\
        hs = subinfo_hash (STuple (map pickle subs')) (STuple (map SHash hks)) (ser_ext ext).

    (* every filled memo slot holds a legitimate key ("hashkey_fresh" as a state invariant) *)
    Fixpoint well_memoed (ix : index) : Prop :=
      match ix with
      | Leaf cm d m => match m with None => True | Some h => legit ix h end
      | Fused cm d subs ext sm m =>
          (fix all (l : list index) : Prop := match l with [] => True | x :: l' => well_memoed x /\ all l' end) subs /\
          match sm with None => True | Some hs => legit_sub subs ext hs end /\
          match m with None => True | Some h => legit ix h end
      end.

    (* the argument of calc_fuse_block_info / cached_fuse_block_info *)
    Record fuse_arg := { fa_indices : list index; fa_sectors : list (list C);
                         fa_symmetry : Z;           (* the symmetry class, pickled by reference *)
                         fa_groups : list (list Z) }.
    Definition erase_arg (x : fuse_arg) : fuse_arg :=
      {| fa_indices := map erase (fa_indices x); fa_sectors := fa_sectors x;
         fa_symmetry := fa_symmetry x; fa_groups := fa_groups x |}.

    Definition fcomp (hks : list hash) (x : fuse_arg) (c : fuse_comp) : ser :=
      match c with
      | KIndexHashkeys => STuple (map SHash hks)
      | KSectors => ser_sectors (fa_sectors x)
      | KSymmetry => SInt (fa_symmetry x)
      | KAxesGroups => ser_groups (fa_groups x)
      end.
    Definition fuse_hash (hks : list hash) (x : fuse_arg) : hash := H (STuple (map (fcomp hks x) cf)).

    (* the key the code computes in the current memo state *)
    Definition fuse_key (x : fuse_arg) : hash := fuse_hash (map hashkey (fa_indices x)) x.
    (* ... and, relationally, any key it may compute in some memo state *)
    Definition fuse_keyrel (x : fuse_arg) (k : hash) : Prop :=
      exists hks, Forall2 legit (fa_indices x) hks /\ k = fuse_hash hks x.
  End Keys.
End Key.
Arguments ser : clear implicits.
Arguments index : clear implicits.
Arguments fuse_arg : clear implicits.

(* ------------------------------------------------------------------ *)
(* 5. Generated facts about the source text. *)
Inductive attr := A_chargemap | A_dual | A_subinfo | A_hashkey | A_indices | A_extents.
Definition attr_eqb (a b : attr) : bool :=
  match a, b with A_chargemap, A_chargemap | A_dual, A_dual | A_subinfo, A_subinfo | A_hashkey, A_hashkey
                | A_indices, A_indices | A_extents, A_extents => true | _, _ => false end.
Inductive rhs_kind :=
| RNone        (* `obj._hashkey = None` *)
| RMemoFill    (* `self._hashkey = hasher(...)` inside `hashkey`, under `if ... is None` *)
| ROther.      (* anything else *)
Definition rhs_eqb (a b : rhs_kind) : bool :=
  match a, b with RNone, RNone | RMemoFill, RMemoFill | ROther, ROther => true | _, _ => false end.

Record site := { s_func : string;    (* qualified name of the enclosing function *)
                 s_obj : string;     (* the variable whose attribute is assigned *)
                 s_attr : attr; s_rhs : rhs_kind }.

Definition same_object (a b : site) : bool :=
  String.eqb (s_func a) (s_func b) && String.eqb (s_obj a) (s_obj b).
Definition is_reset (s : site) : bool := attr_eqb (s_attr s) A_hashkey && rhs_eqb (s_rhs s) RNone.

(* a content attribute is only ever set together with a reset of the memo;
   the memo itself is only reset or filled by `hashkey` *)
Definition site_ok (all : list site) (s : site) : bool :=
  if attr_eqb (s_attr s) A_hashkey
  then negb (rhs_eqb (s_rhs s) ROther)
  else existsb (fun s' => same_object s s' && is_reset s') all.
Definition sites_fresh (all : list site) : bool := forallb (site_ok all) all.

Record helper := { h_name : string; h_params : list string;
                   h_global_writes : list string;    (* names written through `global` / `nonlocal` *)
                   h_arg_mutations : list string }.  (* parameters stored into / mutated by method call *)
Definition helper_pure (h : helper) : bool := is_nil (h_global_writes h) && is_nil (h_arg_mutations h).
