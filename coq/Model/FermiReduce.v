(* Model/FermiReduce.v — hand model of the reductions, scalar conversions and
   elementwise functions of a FermionicArray that READ BLOCKS
   (symmray/block_core.py: item, _do_reduction -> sum/max/min, _do_unary_op ->
   abs/sqrt/isfinite, clip, norm;  symmray/fermionic_core.py: the overrides
   item (fix 5ee262a), _do_reduction, _do_unary_op, clip (fix 539bade), all of
   which call phase_sync() first; norm is NOT overridden and reads the raw blocks).
   `None` = the Python code raises.  Definitions only, all computable.

   Each f_* comes with the variant f_*_raw = the code BEFORE the repairs (the
   inherited BlockBase method on the raw blocks, pending-sign table ignored /
   carried along); the raw variants are used only to document, by concrete
   witnesses, that they observe the pending signs. *)
From SV Require Import Base.Prelude Base.Sym Base.Tensor Model.Sectors Model.Array Model.Arith
  Model.Fermi Model.Ctor.
Local Open Scope nat_scope.

Section Reduce.
  Context (G : Symmetry) (R : Ring).
  Notation T := (RT R).
  Notation arr := (aarray G R).
  Notation farr := (farray G R).

  (* ---------------------------------------------------------------- abelian level *)
  (* BlockBase.item:  (array,) = self.blocks.values(); return array.item()
     exactly one stored block (else the unpacking raises), holding exactly one
     element (else numpy's .item() raises) — whatever the rank. *)
  Definition a_item (x : arr) : option T :=
    match blocks G R x with
    | [(_, t)] => match tdata t with [v] => Some v | _ => None end
    | _ => None
    end.

  (* numpy max / min of one flat buffer: ValueError on a zero-size buffer *)
  Definition pick_max (leb : T -> T -> bool) (m v : T) : T := if leb m v then v else m.
  Definition pick_min (leb : T -> T -> bool) (m v : T) : T := if leb v m then v else m.
  Definition lbest (pick : T -> T -> T) (l : list T) : option T :=
    match l with [] => None | a :: l' => Some (fold_left pick l' a) end.

  (* BlockBase._do_reduction(fn):  fn(stack(tuple(map(fn, self.blocks.values()))))
     stack(()) raises ValueError when no block is stored *)
  Definition a_reduce (fn : list T -> option T) (x : arr) : option T :=
    match blocks G R x with
    | [] => None
    | bs => match all_some (map (fun sb => fn (tdata (snd sb))) bs) with
            | Some rs => fn rs
            | None => None
            end
    end.
  Definition a_max (leb : T -> T -> bool) (x : arr) : option T := a_reduce (lbest (pick_max leb)) x.
  Definition a_min (leb : T -> T -> bool) (x : arr) : option T := a_reduce (lbest (pick_min leb)) x.
  (* sum: the per-block sums added up (Arith.a_sum), raising without blocks *)
  Definition a_sum_opt (x : arr) : option T :=
    match blocks G R x with [] => None | _ => Some (a_sum G R x) end.
  (* BlockBase.norm squared: reduce(add, (sum(abs(b)**2) for b in blocks.values()));
     reduce() of an empty iterable raises TypeError *)
  Definition a_norm2_opt (x : arr) : option T :=
    match blocks G R x with [] => None | _ => Some (a_norm2 G R x) end.
  (* BlockBase._do_unary_op(fn) / clip: fn applied to every element of every block *)
  Definition a_unary (fn : T -> T) (x : arr) : arr :=
    with_blocks G R x (dict_map R (tmap R fn) (blocks G R x)).

  (* ---------------------------------------------------------------- fermionic level *)
  (* FermionicArray.item = AbelianArray.item(self.phase_sync())            (5ee262a) *)
  Definition f_item (x : farr) : option T := a_item (f_value G R x).
  (* FermionicArray._do_reduction(fn) = AbelianArray._do_reduction(self.phase_sync(), fn)   (539bade) *)
  Definition f_sum (x : farr) : option T := a_sum_opt (f_value G R x).
  Definition f_max (leb : T -> T -> bool) (x : farr) : option T := a_max leb (f_value G R x).
  Definition f_min (leb : T -> T -> bool) (x : farr) : option T := a_min leb (f_value G R x).
  (* FermionicArray._do_unary_op(fn): new = self.phase_sync(); new.apply_to_arrays(fn)     (539bade)
     (clip likewise); the result has an empty sign table and the labels of x *)
  Definition f_unary (fn : T -> T) (x : farr) : farr :=
    let y := f_phase_sync G R x in with_base G R y (a_unary fn (fbase G R y)).
  (* norm is inherited from BlockBase: it reads the RAW blocks, the table is ignored *)
  Definition f_norm2 (x : farr) : option T := a_norm2_opt (fbase G R x).

  (* ---- the code before the repairs: the inherited methods on the raw blocks ---- *)
  Definition f_item_raw (x : farr) : option T := a_item (fbase G R x).
  Definition f_sum_raw (x : farr) : option T := a_sum_opt (fbase G R x).
  Definition f_max_raw (leb : T -> T -> bool) (x : farr) : option T := a_max leb (fbase G R x).
  Definition f_min_raw (leb : T -> T -> bool) (x : farr) : option T := a_min leb (fbase G R x).
  (* copy(), apply_to_arrays(fn): the pending-sign table is carried along *)
  Definition f_unary_raw (fn : T -> T) (x : farr) : farr := with_base G R x (a_unary fn (fbase G R x)).
End Reduce.

(* ---------------------------------------------------------------- the two exact rings *)
(* numpy orders integers as usual and complex numbers lexicographically (real part, then imaginary part) *)
Definition z_leb : RT ZRing -> RT ZRing -> bool := Z.leb.
Definition g_leb (a b : RT GRing) : bool :=
  Z.ltb (fst a) (fst b) || (Z.eqb (fst a) (fst b) && Z.leb (snd a) (snd b)).

(* abs / clip on integer data (on complex data abs leaves the Gaussian integers) *)
Definition z_abs : RT ZRing -> RT ZRing := Z.abs.
(* numpy.clip(a, lo, hi) = minimum(hi, maximum(a, lo)) *)
Definition z_clip (lo hi : Z) : RT ZRing -> RT ZRing := fun v => Z.min hi (Z.max v lo).
Definition f_abs (G : Symmetry) (x : farray G ZRing) : farray G ZRing := f_unary G ZRing z_abs x.
Definition f_clip (G : Symmetry) (lo hi : Z) (x : farray G ZRing) : farray G ZRing := f_unary G ZRing (z_clip lo hi) x.
Definition f_abs_raw (G : Symmetry) (x : farray G ZRing) : farray G ZRing := f_unary_raw G ZRing z_abs x.
