(* Model/Fused.v — _tensordot_via_fused as it is after the repair "only the legs
   fused here are unfused afterwards" (a free leg that was fused beforehand
   stays fused), and the front ends built on it. *)
From SV Require Import Base.Prelude Base.Sym Base.Tensor Gen.PhasePerm Model.Sectors Model.Array Model.Arith Model.Fermi.
Local Open Scope nat_scope.

Section Fused.
  Context (G : Symmetry) (R : Ring).
  Notation arr := (aarray G R).

  Definition unfuse_or_keep (x : arr) (ax : nat) : arr :=
    match a_unfuse G R x ax with Some y => y | None => x end.

  Definition tdot_fused2 (a b : arr) (la aa ab rb : list nat) : arr :=
    let '(a1, b1) := drop_misaligned G R a b aa ab in
    if is_nil (blocks G R a1) || is_nil (blocks G R b1) then
      mkA G R (without_axes (indices G R a1) aa ++ without_axes (indices G R b1) ab) (combine G [charge G R a; charge G R b]) []
    else
      let af := a_fuse_noexpand G R a1 [la; aa] in
      let bf := a_fuse_noexpand G R b1 [ab; rb] in
      let la' := if is_nil la then [] else [0] in
      let aa' := if is_nil aa then [] else if is_nil la then [0] else [1] in
      let ab' := if is_nil ab then [] else [0] in
      let rb' := if is_nil rb then [] else if is_nil ab then [0] else [1] in
      let c := tdot_blockwise G R af bf la' aa' ab' rb' in
      let c1 := if Nat.ltb 1 (length rb) then unfuse_or_keep c (ndim G R c - 1) else c in
      if Nat.ltb 1 (length la) then unfuse_or_keep c1 0 else c1.

  Definition a_tensordot2 (a b : arr) (axes : nat + (list Z * list Z)) (mode : tmode) : option arr :=
    match parse_axes (ndim G R a) (ndim G R b) axes with
    | None => None
    | Some (aa, ab) =>
        let la := rest_axes (ndim G R a) aa in
        let rb := rest_axes (ndim G R b) ab in
        let m := match mode with MAuto => if is_nil aa then MBlockwise else MFused | m => m end in
        Some (match m with
              | MFused => tdot_fused2 a b la aa ab rb
              | _ => tdot_blockwise G R a b la aa ab rb
              end)
    end.

  (* tensordot_fermionic on top of it (same front end as Fermi.f_tensordot) *)
  Definition f_tensordot2 (a b : farray G R) (axes : nat + (list Z * list Z)) (mode : tmode) : option (farray G R) :=
    let na := ndim G R (fbase G R a) in
    let nb := ndim G R (fbase G R b) in
    match parse_axes na nb axes with
    | None => None
    | Some (aa, ab) =>
        let la := rest_axes na aa in
        let rb := rest_axes nb ab in
        let ncon := length aa in
        let a1 := f_transpose G R a (la ++ aa) true in
        let b1 := f_transpose G R b (ab ++ rb) true in
        let b2 := f_phase_transpose G R b1 (Some (rev (seq 0 ncon) ++ seq ncon (nb - ncon))) in
        let naa := seq (na - ncon) ncon in
        let nab := seq 0 ncon in
        let ixa := indices G R (fbase G R a1) in
        let ixb := indices G R (fbase G R b2) in
        let '(a2, b3) :=
          if Nat.leb (arr_size G R (fbase G R a1)) (arr_size G R (fbase G R b2))
          then (f_phase_flip G R a1 (filter (fun ax => negb (idual G (nth ax ixa (dflt_index G)))) naa), b2)
          else (a1, f_phase_flip G R b2 (filter (fun ax => idual G (nth ax ixb (dflt_index G))) nab)) in
        let a3 := f_phase_sync G R a2 in
        let b4 := f_phase_sync G R b3 in
        match a_tensordot2 (fbase G R a3) (fbase G R b4) (inr (map Z.of_nat naa, map Z.of_nat nab)) mode with
        | None => None
        | Some c => finish_contraction G R a3 b4 c
        end
    end.
End Fused.
