(* Model/ReshapeArray.v — hand model of AbelianArray.reshape (symmray/abelian_core.py)
   on the ARRAY level: compute `subsizes` from the indices, call the model
   `calc_reshape_args` of the plan computation (Model/ReshapeArgs.v), then run
   the three loops of the method:

       for ax in axs_unfuse:               x.unfuse(ax, inplace=True)
       for grouping in axs_fuse_groupings: x.fuse( *grouping, inplace=True)
       for ax in axs_expand:               x.expand_dims(ax, inplace=True)

   `find_full_reshape` (resolution of a `-1` entry) is left out: `newshape` is
   fully specified.  Definitions only.

   None = the Python call raises: the plan computation raises, `unfuse` of an
   axis without sub-index information, `fuse` of an axis that is out of range
   (IndexError) or listed twice (numpy.transpose: repeated axis), `expand_dims`
   beyond the end (IndexError on indices[axis - 1]). *)
From SV Require Import Base.Prelude Base.Sym Base.Tensor Model.Sectors Model.Array Model.ReshapeArgs.
Local Open Scope nat_scope.

Section ReshapeArray.
  Context (G : Symmetry) (R : Ring).
  Notation arr := (aarray G R).

  (* x.shape : the total size of every index *)
  Definition a_shape (x : arr) : list Z :=
    map (fun ix => Z.of_nat (size_total G ix)) (indices G R x).

  (* subsizes: None for a plain index, the total sizes of the sub-indices for a fused one *)
  Definition index_subsizes (ix : index G) : option (list Z) :=
    match isub G ix with
    | None => None
    | Some (subs, _) => Some (map (fun s => Z.of_nat (size_total G s)) subs)
    end.
  Definition a_subsizes (x : arr) : list (option (list Z)) := map index_subsizes (indices G R x).

  (* loop 1 *)
  Fixpoint unfuse_seq (axs : list nat) (x : arr) : option arr :=
    match axs with
    | [] => Some x
    | ax :: r => match a_unfuse G R x ax with Some y => unfuse_seq r y | None => None end
    end.

  (* one x.fuse( *grouping ) call; the grouping is a list of groups of axes *)
  Definition fuse_axes_ok (n : nat) (grouping : list (list nat)) : bool :=
    ReshapeArgs.nodupb (concat grouping) && forallb (fun ax => Nat.ltb ax n) (concat grouping).
  Definition fuse_step (x : arr) (grouping : list (list nat)) : option arr :=
    if fuse_axes_ok (ndim G R x) grouping then Some (a_fuse G R x grouping) else None.

  (* loop 2 *)
  Fixpoint fuse_seq (gs : list (list (list nat))) (x : arr) : option arr :=
    match gs with
    | [] => Some x
    | g :: r => match fuse_step x g with Some y => fuse_seq r y | None => None end
    end.

  Definition expand_step (x : arr) (ax : nat) : option arr :=
    if Nat.leb ax (ndim G R x) then Some (a_expand_dims G R x ax) else None.

  (* loop 3 *)
  Fixpoint expand_seq (axs : list nat) (x : arr) : option arr :=
    match axs with
    | [] => Some x
    | ax :: r => match expand_step x ax with Some y => expand_seq r y | None => None end
    end.

  (* the three loops on a given plan *)
  Definition a_exec_plan (p : plan) (x : arr) : option arr :=
    let '(us, fs, es) := p in
    match unfuse_seq us x with
    | None => None
    | Some x1 =>
      match fuse_seq fs x1 with
      | None => None
      | Some x2 => expand_seq es x2
      end
    end.

  (* AbelianArray.reshape(newshape) *)
  Definition a_reshape (x : arr) (newshape : list Z) : option arr :=
    match calc_reshape_args (a_shape x) newshape (a_subsizes x) with
    | Ok p => a_exec_plan p x
    | _ => None
    end.
End ReshapeArray.
