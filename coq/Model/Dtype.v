(* Model/Dtype.v — property C20: element type and precision.
   Every block carries a dtype tag; an array is the ORDERED dict sector -> tag
   (insertion order is observable: `get_any_array()` is the FIRST block).
   Part 1 is the assumed numpy-2 / autoray-0.11 result-type table of the kernels
   symmray calls (modelled, validated kernel by kernel in harness/c20.py, not
   verified).  Part 2 mirrors, operation by operation, where the code creates
   zero blocks and from which dtype source, and records every slice-assignment
   and concatenation as an event.  Structural data (which block goes where) is
   an explicit `plan` argument: the theorems hold for EVERY plan.
   Definitions only. *)
From SV Require Import Base.Prelude.

(* ------------------------------------------------------------------ *)
(* Part 1: numpy result types                                          *)
Inductive dtype := F32 | F64 | C64 | C128.
(* Python scalars are "weak" under NEP 50 (numpy >= 2): they adopt the array's precision *)
Inductive pyscalar := PyInt | PyFloat | PyComplex.

Definition dtype_eqb (a b : dtype) : bool :=
  match a, b with F32, F32 | F64, F64 | C64, C64 | C128, C128 => true | _, _ => false end.
Definition is_complex (d : dtype) : bool := match d with C64 | C128 => true | _ => false end.
Definition is_double (d : dtype) : bool := match d with F64 | C128 => true | _ => false end.
Definition mk (cplx dbl : bool) : dtype :=
  if cplx then (if dbl then C128 else C64) else (if dbl then F64 else F32).

(* np.result_type of two arrays / an array and a numpy (strong) scalar *)
Definition promote (a b : dtype) : dtype := mk (is_complex a || is_complex b) (is_double a || is_double b).
Definition real_of (d : dtype) : dtype := mk false (is_double d).
Definition to_complex (d : dtype) : dtype := mk true (is_double d).
(* array (op) Python scalar: int/float keep the array dtype, complex makes it complex of the same precision *)
Definition weak (d : dtype) (s : pyscalar) : dtype := match s with PyComplex => to_complex d | _ => d end.

(* zeros(shape, dtype=dt) ; without dtype numpy gives float64 *)
Definition k_zeros (dt : option dtype) : dtype := match dt with Some d => d | None => F64 end.
(* autoray.do("zeros", shape, like=x): autoray 0.11 injects dtype=x.dtype when x
   has one; `like` = the Python float 0.0 (get_any_array of an array with no
   blocks) has none -> float64 *)
Inductive like_src := LikeArr (d : dtype) | LikePy.
Definition k_zeros_like (l : like_src) : dtype := match l with LikeArr d => d | LikePy => F64 end.
(* np.concatenate((a0, a1, ...)) promotes over all pieces *)
Definition k_concat (d0 : dtype) (l : list dtype) : dtype := fold_left promote l d0.
(* target[sel] = src : the result is the TARGET; src is cast to it *)
Definition k_setitem (target src : dtype) : dtype := target.
Definition k_keep (d : dtype) : dtype := d.        (* transpose reshape getitem conj neg sqrt trace einsum sum max min *)
Definition k_abs (d : dtype) : dtype := real_of d.
Definition k_astype (target src : dtype) : dtype := target.
Definition k_binop (a b : dtype) : dtype := promote a b.   (* + - * / tensordot solve stack *)
Definition k_qr (d : dtype) : dtype * dtype := (d, d).
Definition k_svd (d : dtype) : dtype * dtype * dtype := (d, real_of d, d).
Definition k_eigh (d : dtype) : dtype * dtype := (real_of d, d).

(* a returned scalar: numpy scalar of a dtype, or a plain Python number *)
Inductive sres := SNp (d : dtype) | SPy (s : pyscalar).
(* Python `acc + block_scalar` *)
Definition sadd (acc : sres) (d : dtype) : sres :=
  match acc with SNp t => SNp (promote t d) | SPy s => SNp (weak d s) end.

(* every implicit conversion site is logged *)
Inductive event :=
| ESet (target src : dtype)               (* slice assignment: src is cast to target *)
| ECat (first : dtype) (rest : list dtype) (* concatenation: every piece is cast to the promoted type *).
Definition lossless (e : event) : bool :=
  match e with ESet t s => dtype_eqb t s | ECat d l => forallb (dtype_eqb d) l end.
Definition discards_imag (e : event) : bool :=
  match e with ESet t s => is_complex s && negb (is_complex t) | ECat _ _ => false end.
Definition narrows (e : event) : bool :=
  match e with ESet t s => is_double s && negb (is_double t) | ECat _ _ => false end.

(* ------------------------------------------------------------------ *)
(* Part 2: tagged arrays and the operations                            *)
Definition sector := list Z.
Definition seqb : sector -> sector -> bool := list_eqb Z.eqb.
Definition tarr := list (sector * dtype).
Definition alookup (k : sector) (x : tarr) : option dtype := lookup seqb k x.
Definition aset (k : sector) (d : dtype) (x : tarr) : tarr := dset seqb k d x.
Definition apop (k : sector) (x : tarr) : tarr := dpop seqb k x.
Definition tags (x : tarr) : list dtype := map snd x.
(* {k: v for ...} / successive d[k] = v *)
Definition from_items (l : list (sector * dtype)) : tarr :=
  fold_left (fun acc kb => aset (fst kb) (snd kb) acc) l [].

Definition bind {A B} (o : option A) (f : A -> option B) : option B :=
  match o with Some a => f a | None => None end.
Fixpoint mapM {A B} (f : A -> option B) (l : list A) : option (list B) :=
  match l with
  | [] => Some []
  | a :: l' => bind (f a) (fun b => bind (mapM f l') (fun r => Some (b :: r)))
  end.
Definition filter_sel {A} (sel : list bool) (x : list A) : list A := map snd (filter fst (combine sel x)).

(* BlockBase.get_any_array: next(iter(blocks.values()), 0.0) *)
Definition any_src (x : tarr) : like_src := match x with [] => LikePy | b :: _ => LikeArr (snd b) end.
(* _fuse_core: zeros_kwargs["dtype"] = _ex_array.dtype if it has one *)
Definition zeros_kwargs (x : tarr) : option dtype := match x with [] => None | b :: _ => Some (snd b) end.

(* --- blockwise unary kernels (apply_to_arrays / _map_blocks / transpose) *)
Inductive unop :=
| UKeep                   (* transpose conj dagger squeeze expand_dims neg sqrt copy phase_* (no data) *)
| UAbs
| UWeak (s : pyscalar)    (* x * s, x / s, s * x, x + s, x ** s with a Python scalar *)
| UStrong (d : dtype).    (* the same with a numpy scalar / 0-d array of dtype d *)
Definition kern (u : unop) (d : dtype) : dtype :=
  match u with UKeep => k_keep d | UAbs => k_abs d | UWeak s => weak d s | UStrong d' => k_binop d d' end.
Definition map_blocks (u : unop) (keys : list sector) (x : tarr) : tarr :=
  from_items (combine keys (map (kern u) (tags x))).
(* FermionicArray.phase_sync: `-block` on the sectors with a pending sign *)
Definition phase_sync (sel : list bool) (x : tarr) : tarr :=
  map (fun sb : bool * (sector * dtype) => (fst (snd sb), if fst sb then k_keep (snd (snd sb)) else snd (snd sb)))
      (combine sel x).

(* --- _fuse_blocks_via_insert: plan = new sector of each block, in order *)
Definition insert_step (zk : option dtype) (st : tarr * list event) (it : sector * dtype) : tarr * list event :=
  match alookup (fst it) (fst st) with
  | Some t => (aset (fst it) (k_setitem t (snd it)) (fst st), snd st ++ [ESet t (snd it)])
  | None => let t := k_zeros zk in
            (aset (fst it) (k_setitem t (snd it)) (fst st), snd st ++ [ESet t (snd it)])
  end.
Definition fuse_insert (plan : list sector) (x : tarr) : tarr * list event :=
  fold_left (insert_step (zeros_kwargs x)) (combine plan (tags x)) ([], []).

(* --- recursive concatenation (concat fuse, to_dense): leaves are looked up
   by the ORIGINAL sector; a missing leaf is a zero block of dtype `fill` *)
Inductive ctree := CLeaf (k : sector) | CNode (t : ctree) (ts : list ctree).
Fixpoint eval_tree (fill : dtype) (x : tarr) (t : ctree) : dtype * list event :=
  match t with
  | CLeaf k => (match alookup k x with Some d => d | None => fill end, [])
  | CNode t0 ts =>
      let r0 := eval_tree fill x t0 in
      let rs := map (eval_tree fill x) ts in
      (k_concat (fst r0) (map fst rs), snd r0 ++ concat (map snd rs) ++ [ECat (fst r0) (map fst rs)])
  end.
(* _fuse_blocks_via_concat: plan = (new sector, its concatenation tree) per fused block *)
Definition fuse_concat (plan : list (sector * ctree)) (x : tarr) : tarr * list event :=
  match x with
  | [] => ([], [])     (* the comprehension runs over the fused sectors of the stored blocks: none *)
  | _ =>
    let rs := map (fun p => (fst p, eval_tree (k_zeros (zeros_kwargs x)) x (snd p))) plan in
    (map (fun r => (fst r, fst (snd r))) rs, concat (map (fun r => snd (snd r)) rs))
  end.
(* AbelianArray.to_dense: filler = zeros(shape, like=get_any_array()) *)
Definition to_dense (t : ctree) (x : tarr) : dtype * list event := eval_tree (k_zeros_like (any_src x)) x t.
(* fill_missing_blocks: the example array is taken ONCE, before the loop *)
Definition fill_missing (valid : list sector) (x : tarr) : tarr :=
  let z := k_zeros_like (any_src x) in
  fold_left (fun acc s => match alookup s acc with Some _ => acc | None => aset s z acc end) valid x.

(* --- unfuse: plan = for each block the keys of its slices (slice + reshape keep the tag) *)
Definition unfuse (plan : list (list sector)) (x : tarr) : tarr :=
  from_items (concat (map (fun pb => map (fun k => (k, k_keep (snd (snd pb)))) (fst pb)) (combine plan x))).

(* --- BlockBase._binary_blockwise_op *)
Inductive lmode := LRaise | LKeep | LDrop.   (* what happens to a block present only on the left *)
Fixpoint bin_walk (lm : lmode) (xs other : tarr) : option (tarr * tarr) :=
  match xs with
  | [] => Some ([], other)
  | b :: xs' =>
      match alookup (fst b) other with
      | Some d' => bind (bin_walk lm xs' (apop (fst b) other))
                        (fun ro => Some ((fst b, k_binop (snd b) d') :: fst ro, snd ro))
      | None => match lm with
                | LRaise => None
                | LKeep => bind (bin_walk lm xs' other) (fun ro => Some (b :: fst ro, snd ro))
                | LDrop => bin_walk lm xs' other
                end
      end
  end.
(* missing=None (sub, truediv): 1:1 or raise *)
Definition bin_strict (x y : tarr) : option tarr :=
  bind (bin_walk LRaise x y) (fun ro => if is_nil (snd ro) then Some (fst ro) else None).
(* missing="outer" (add): left-only kept, right-only appended *)
Definition bin_outer (x y : tarr) : option tarr := bind (bin_walk LKeep x y) (fun ro => Some (fst ro ++ snd ro)).
(* missing="inner" (mul): one-sided blocks are dropped *)
Definition bin_inner (x y : tarr) : option tarr := bind (bin_walk LDrop x y) (fun ro => Some (fst ro)).

(* --- _tensordot_blockwise: plan = (new sector, aligned (i, j) pairs, non-empty) *)
Definition tag_at (x : tarr) (i : nat) : option dtype := option_map snd (nth_error x i).
Definition pair_tag (a b : tarr) (p : nat * nat) : option dtype :=
  bind (tag_at a (fst p)) (fun da => bind (tag_at b (snd p)) (fun db => Some (k_binop da db))).
Definition bwplan := list (sector * ((nat * nat) * list (nat * nat))).
Definition bw_block (a b : tarr) (p0 : nat * nat) (ps : list (nat * nat)) : option dtype :=
  bind (pair_tag a b p0) (fun t0 => bind (mapM (pair_tag a b) ps) (fun ts => Some (fold_left k_binop ts t0))).
Definition tdot_blockwise (plan : bwplan) (a b : tarr) : option tarr :=
  mapM (fun e => bind (bw_block a b (fst (snd e)) (snd (snd e))) (fun t => Some (fst e, t))) plan.

(* --- _tensordot_via_fused: drop misaligned, fuse both (mode auto = insert on numpy), blockwise, unfuse *)
Definition opt_fuse (p : option (list sector)) (x : tarr) : tarr * list event :=
  match p with Some pl => fuse_insert pl x | None => (x, []) end.
Definition tdot_fused (ka kb : list bool) (pa pb : option (list sector)) (pc : bwplan)
           (unf : list (list (list sector))) (a b : tarr) : option (tarr * list event) :=
  let a' := filter_sel ka a in
  let b' := filter_sel kb b in
  if is_nil a' || is_nil b' then Some ([], [])
  else
    let fa := opt_fuse pa a' in
    let fb := opt_fuse pb b' in
    bind (tdot_blockwise pc (fst fa) (fst fb))
         (fun cf => Some (fold_left (fun c u => unfuse u c) unf cf, snd fa ++ snd fb)).

(* --- multiply_diagonal: plan = the vector key of each block *)
Definition mul_diag (vkeys : list sector) (x v : tarr) : tarr :=
  concat (map (fun kb => match alookup (fst kb) v with
                         | Some dv => [(fst (snd kb), k_binop (snd (snd kb)) dv)]
                         | None => []
                         end) (combine vkeys x)).

(* --- einsum (single operand): plan = new sector of each block, None if off-diagonal *)
Definition einsum (plan : list (option sector)) (x : tarr) : tarr :=
  fold_left (fun acc pb => match fst pb with
                           | None => acc
                           | Some ns => match alookup ns acc with
                                        | Some t => aset ns (k_binop t (snd (snd pb))) acc
                                        | None => aset ns (k_keep (snd (snd pb))) acc
                                        end
                           end) (combine plan x) [].
(* trace: Python sum(...) starting from the int 0 over the diagonal blocks *)
Definition trace (diag : list bool) (x : tarr) : sres :=
  fold_left sadd (tags (filter_sel diag x)) (SPy PyInt).
(* _do_reduction("sum"/"max"/"min"): fn(stack(map fn blocks)); no blocks -> raises *)
Definition reduce_all (x : tarr) : option sres :=
  match tags x with [] => None | d :: l => Some (SNp (fold_left k_binop l d)) end.
(* norm: reduce(add, (sum(abs(b) ** 2) for b)) ** 0.5 *)
Definition norm (x : tarr) : option sres :=
  match map k_abs (tags x) with
  | [] => None
  | d :: l => Some (SNp (weak (fold_left k_binop (map (fun t => weak t PyInt) l) (weak d PyInt)) PyFloat))
  end.
(* a scalar shown as a register: numpy scalar = one block with the empty key; Python number = no block *)
Definition sres_arr (s : sres) : tarr := match s with SNp d => [([], d)] | SPy _ => [] end.

(* --- linalg: block by block *)
Definition qr_q (x : tarr) : tarr := map (fun b => (fst b, fst (k_qr (snd b)))) x.
Definition qr_r (rkeys : list sector) (x : tarr) : tarr :=
  from_items (combine rkeys (map (fun d => snd (k_qr d)) (tags x))).
Definition svd_u (x : tarr) : tarr := map (fun b => (fst b, fst (fst (k_svd (snd b))))) x.
Definition svd_s (skeys : list sector) (x : tarr) : tarr :=
  from_items (combine skeys (map (fun d => snd (fst (k_svd d))) (tags x))).
Definition svd_v (vkeys : list sector) (x : tarr) : tarr :=
  from_items (combine vkeys (map (fun d => snd (k_svd d)) (tags x))).
Definition eigh_w (wkeys : list sector) (x : tarr) : tarr :=
  from_items (combine wkeys (map (fun d => fst (k_eigh d)) (tags x))).
Definition eigh_v (x : tarr) : tarr := map (fun b => (fst b, snd (k_eigh (snd b)))) x.
(* solve: plan = per block of a, (key in b, key of x) or None when b lacks the block *)
Definition solve (plan : list (option (sector * sector))) (a b : tarr) : option tarr :=
  bind (mapM (fun pb => match fst pb with
                        | None => Some []
                        | Some kk => bind (alookup (fst kk) b)
                                          (fun db => Some [(snd kk, k_binop (snd (snd pb)) db)])
                        end) (combine plan a))
       (fun l => Some (from_items (concat l))).
(* svd_truncated: slicing keeps; absorb multiplies by s (or sqrt s) block by block, in step *)
Inductive absorb := AbsNone | AbsLeft | AbsRight | AbsBoth.
Definition scale_by (x s : tarr) : tarr :=
  map (fun bs => (fst (fst bs), k_binop (snd (fst bs)) (k_keep (snd (snd bs))))) (combine x s).
Definition svd_trunc (ab : absorb) (keep : list bool) (skeys vkeys : list sector) (x : tarr)
  : tarr * tarr * tarr :=
  let u := filter_sel keep (svd_u x) in
  let s := filter_sel keep (svd_s skeys x) in
  let v := filter_sel keep (svd_v vkeys x) in
  match ab with
  | AbsNone => (u, s, v)
  | AbsLeft => (scale_by u s, [], v)
  | AbsRight => (u, [], scale_by v s)
  | AbsBoth => (scale_by u s, [], scale_by v s)
  end.

(* --- constructors: the fill function / dense input produces dtype d *)
Definition ctor_fill (keys : list sector) (d : dtype) : tarr := map (fun k => (k, d)) keys.
(* utils.get_random_fill_fn: float64 (complex128 if "complex" in dtype) sample, then astype(dtype) *)
Definition ctor_random (keys : list sector) (d : dtype) : tarr :=
  map (fun k => (k, k_astype d (if is_complex d then promote F64 (weak F64 PyComplex) else F64))) keys.

(* ------------------------------------------------------------------ *)
(* Part 3: programs over a register file.  A register = (declared tag,
   blocks); the declared tag is what dense numpy would give for the same
   computation.  Results are appended. *)
Definition reg := (dtype * tarr)%type.
Inductive instr :=
| ICtorFill (keys : list sector) (d : dtype)
| ICtorRandom (keys : list sector) (d : dtype)
| IMap (u : unop) (r : nat) (keys : list sector)
| IPhaseSync (r : nat) (sel : list bool)
| IAdd (a b : nat) | ISub (a b : nat) | IMul (a b : nat) | IDiv (a b : nat)
| IFuseInsert (r : nat) (plan : list sector)
| IFuseConcat (r : nat) (plan : list (sector * ctree))
| IUnfuse (r : nat) (plan : list (list sector))
| IToDense (r : nat) (t : ctree)
| IFill (r : nat) (valid : list sector)
| ITdotBW (a b : nat) (plan : bwplan)
| ITdotFused (a b : nat) (ka kb : list bool) (pa pb : option (list sector)) (pc : bwplan)
             (unf : list (list (list sector)))
| IMulDiag (x v : nat) (vkeys : list sector)
| IEinsum (r : nat) (plan : list (option sector))
| ITrace (r : nat) (diag : list bool)
| IReduce (r : nat)
| INorm (r : nat)
| IQr (r : nat) (rkeys : list sector)
| ISvd (r : nat) (skeys vkeys : list sector)
| IEigh (r : nat) (wkeys : list sector)
| ISolve (a b : nat) (plan : list (option (sector * sector)))
| ISvdTrunc (r : nat) (ab : absorb) (keep : list bool) (skeys vkeys : list sector).

Definition getr (rs : list reg) (i : nat) : option reg := nth_error rs i.
Definition push1 (rs : list reg) (r : reg) (ev : list event) : option (list reg * list event) :=
  Some (rs ++ [r], ev).

Definition step (i : instr) (rs : list reg) : option (list reg * list event) :=
  match i with
  | ICtorFill keys d => push1 rs (d, ctor_fill keys d) []
  | ICtorRandom keys d => push1 rs (d, ctor_random keys d) []
  | IMap u r keys => bind (getr rs r) (fun x => push1 rs (kern u (fst x), map_blocks u keys (snd x)) [])
  | IPhaseSync r sel => bind (getr rs r) (fun x => push1 rs (fst x, phase_sync sel (snd x)) [])
  | IAdd a b => bind (getr rs a) (fun x => bind (getr rs b) (fun y =>
                  bind (bin_outer (snd x) (snd y)) (fun z => push1 rs (promote (fst x) (fst y), z) [])))
  | ISub a b | IDiv a b => bind (getr rs a) (fun x => bind (getr rs b) (fun y =>
                  bind (bin_strict (snd x) (snd y)) (fun z => push1 rs (promote (fst x) (fst y), z) [])))
  | IMul a b => bind (getr rs a) (fun x => bind (getr rs b) (fun y =>
                  bind (bin_inner (snd x) (snd y)) (fun z => push1 rs (promote (fst x) (fst y), z) [])))
  | IFuseInsert r plan => bind (getr rs r) (fun x =>
                  let f := fuse_insert plan (snd x) in push1 rs (fst x, fst f) (snd f))
  | IFuseConcat r plan => bind (getr rs r) (fun x =>
                  let f := fuse_concat plan (snd x) in push1 rs (fst x, fst f) (snd f))
  | IUnfuse r plan => bind (getr rs r) (fun x => push1 rs (fst x, unfuse plan (snd x)) [])
  | IToDense r t => bind (getr rs r) (fun x =>
                  let f := to_dense t (snd x) in push1 rs (fst x, [([], fst f)]) (snd f))
  | IFill r valid => bind (getr rs r) (fun x => push1 rs (fst x, fill_missing valid (snd x)) [])
  | ITdotBW a b plan => bind (getr rs a) (fun x => bind (getr rs b) (fun y =>
                  bind (tdot_blockwise plan (snd x) (snd y)) (fun z => push1 rs (promote (fst x) (fst y), z) [])))
  | ITdotFused a b ka kb pa pb pc unf => bind (getr rs a) (fun x => bind (getr rs b) (fun y =>
                  bind (tdot_fused ka kb pa pb pc unf (snd x) (snd y))
                       (fun z => push1 rs (promote (fst x) (fst y), fst z) (snd z))))
  | IMulDiag x v vkeys => bind (getr rs x) (fun a => bind (getr rs v) (fun b =>
                  push1 rs (promote (fst a) (fst b), mul_diag vkeys (snd a) (snd b)) []))
  | IEinsum r plan => bind (getr rs r) (fun x => push1 rs (fst x, einsum plan (snd x)) [])
  | ITrace r diag => bind (getr rs r) (fun x => push1 rs (fst x, sres_arr (trace diag (snd x))) [])
  | IReduce r => bind (getr rs r) (fun x => bind (reduce_all (snd x)) (fun s => push1 rs (fst x, sres_arr s) []))
  | INorm r => bind (getr rs r) (fun x => bind (norm (snd x)) (fun s => push1 rs (real_of (fst x), sres_arr s) []))
  | IQr r rkeys => bind (getr rs r) (fun x =>
                  Some (rs ++ [(fst x, qr_q (snd x)); (fst x, qr_r rkeys (snd x))], []))
  | ISvd r skeys vkeys => bind (getr rs r) (fun x =>
                  Some (rs ++ [(fst x, svd_u (snd x)); (real_of (fst x), svd_s skeys (snd x));
                               (fst x, svd_v vkeys (snd x))], []))
  | IEigh r wkeys => bind (getr rs r) (fun x =>
                  Some (rs ++ [(real_of (fst x), eigh_w wkeys (snd x)); (fst x, eigh_v (snd x))], []))
  | ISolve a b plan => bind (getr rs a) (fun x => bind (getr rs b) (fun y =>
                  bind (solve plan (snd x) (snd y)) (fun z => push1 rs (promote (fst x) (fst y), z) [])))
  | ISvdTrunc r ab keep skeys vkeys => bind (getr rs r) (fun x =>
                  let usv := svd_trunc ab keep skeys vkeys (snd x) in
                  Some (rs ++ [(fst x, fst (fst usv)); (real_of (fst x), snd (fst usv)); (fst x, snd usv)], []))
  end.

(* side conditions under which the tag is provably preserved *)
Definition reg_nonempty (rs : list reg) (r : nat) : bool :=
  match getr rs r with Some x => negb (is_nil (snd x)) | None => true end.
Definition same_decl (rs : list reg) (a b : nat) : bool :=
  match getr rs a, getr rs b with Some x, Some y => dtype_eqb (fst x) (fst y) | _, _ => true end.
Definition safe (i : instr) (rs : list reg) : bool :=
  match i with
  | IAdd a b => same_decl rs a b   (* one-sided blocks keep their own tag *)
  | IToDense r _ | IFill r _ => reg_nonempty rs r   (* no block -> the example "array" is the float 0.0 *)
  | _ => true
  end.

Fixpoint run (p : list instr) (rs : list reg) : option (list reg * list event) :=
  match p with
  | [] => Some (rs, [])
  | i :: p' => bind (step i rs) (fun re => bind (run p' (fst re)) (fun re' => Some (fst re', snd re ++ snd re')))
  end.
Fixpoint all_safe (p : list instr) (rs : list reg) : bool :=
  match p with
  | [] => true
  | i :: p' => safe i rs && match step i rs with Some re => all_safe p' (fst re) | None => true end
  end.

(* boolean mirrors used by the correspondence and the _refuted witnesses *)
Definition tarr_eqb (x y : tarr) : bool := list_eqb (pair_eqb seqb dtype_eqb) x y.
Definition homogb (d : dtype) (x : tarr) : bool := forallb (fun b => dtype_eqb (snd b) d) x.
Definition okb (r : reg) : bool := homogb (fst r) (snd r).
Definition sres_eqb (a b : sres) : bool :=
  match a, b with
  | SNp x, SNp y => dtype_eqb x y
  | SPy PyInt, SPy PyInt | SPy PyFloat, SPy PyFloat | SPy PyComplex, SPy PyComplex => true
  | _, _ => false
  end.
Definition osres_eqb (a b : option sres) : bool :=
  match a, b with Some x, Some y => sres_eqb x y | None, None => true | _, _ => false end.
Definition otarr_eqb (a b : option tarr) : bool :=
  match a, b with Some x, Some y => tarr_eqb x y | None, None => true | _, _ => false end.
