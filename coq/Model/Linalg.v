(* Model/Linalg.v — hand model of symmray.linalg: the BOOKKEEPING of qr / svd /
   eigh / solve (and their fermionic versions).  The per-block LAPACK routines
   are parameters of the Section (DESIGN 2.2): nothing is assumed about them
   here; Proofs/LinalgProofs.v states their contracts as Section hypotheses.
   Definitions only (all computable once the oracles are instantiated); tied to
   the implementation by the cases.v correspondence of harness/c11.py, which
   instantiates the oracles with the shape-only stand-ins at the end of the file. *)
From SV Require Import Base.Prelude Base.Sym Base.Tensor Gen.PhasePerm Model.Sectors Model.Array Model.Arith Model.Fermi.
Local Open Scope nat_scope.

Section Linalg.
  Context (G : Symmetry) (R : Ring).
  Context (qr_blk : tensor R -> tensor R * tensor R)                  (* m |-> (q, r)      *)
          (svd_blk : tensor R -> tensor R * tensor R * tensor R)      (* m |-> (u, s, vh)  *)
          (eigh_blk : tensor R -> tensor R * tensor R)                (* m |-> (w, v)      *)
          (solve_blk : tensor R -> tensor R -> tensor R).             (* m, b |-> x        *)
  Notation Ch := (C G).
  Notation sector := (list (C G)).
  Notation keq := (list_eqb (ceqb G)).
  Notation arr := (aarray G R).
  Notation farr := (farray G R).

  Definition row_charge (s : sector) : Ch := nth 0 s (ident G).
  Definition col_charge (s : sector) : Ch := nth 1 s (ident G).
  Definition ncols (t : tensor R) : nat := nth 1 (tshape t) 0.

  (* ---- the loop shared by `qr` and `svd`:  for sector, array in x.blocks.items():
            left, right = f(array)
            left_blocks[sector] = left
            new_chargemap[sector[1]] = shape(left)[1]
            right_blocks[(sector[1], sector[1])] = right
     The three dicts are written with Python's `d[k] = v` (Prelude.dset): a
     second block with the same column charge would OVERWRITE the first entry. *)
  Definition split_left (f : tensor R -> tensor R * tensor R) (bl : list (sector * tensor R)) : list (sector * tensor R) :=
    fold_left (fun acc sb => dset keq (fst sb) (fst (f (snd sb))) acc) bl [].
  Definition split_cm (f : tensor R -> tensor R * tensor R) (bl : list (sector * tensor R)) : list (Ch * nat) :=
    fold_left (fun cm sb => dset (ceqb G) (col_charge (fst sb)) (ncols (fst (f (snd sb)))) cm) bl [].
  Definition split_right (f : tensor R -> tensor R * tensor R) (bl : list (sector * tensor R)) : list (sector * tensor R) :=
    fold_left (fun acc sb => dset keq [col_charge (fst sb); col_charge (fst sb)] (snd (f (snd sb))) acc) bl [].

  Definition ix0 (x : arr) : index G := nth 0 (indices G R x) (dflt_index G).
  Definition ix1 (x : arr) : index G := nth 1 (indices G R x) (dflt_index G).

  (* BlockIndex(new_chargemap, dual=x.indices[1].dual) *)
  Definition bond_index (f : tensor R -> tensor R * tensor R) (x : arr) : index G :=
    mk_index G (split_cm f (blocks G R x)) (idual G (ix1 x)) None.

  (* left factor: x.copy_with(indices=(x.indices[0], bond), blocks=left_blocks)
     right factor: x.__class__(indices=(bond.conj(), x.indices[1]), charge=combine(), blocks=right_blocks) *)
  Definition a_split (f : tensor R -> tensor R * tensor R) (x : arr) : option (arr * arr) :=
    if Nat.eqb (ndim G R x) 2 then
      let bond := bond_index f x in
      Some (mkA G R [ix0 x; bond] (charge G R x) (split_left f (blocks G R x)),
            mkA G R [iconj G bond; ix1 x] (ident G) (split_right f (blocks G R x)))
    else None.

  Definition a_qr (x : arr) : option (arr * arr) := a_split qr_blk x.

  Definition svd_uv (m : tensor R) : tensor R * tensor R := let '(u, _, vh) := svd_blk m in (u, vh).
  Definition svd_s (m : tensor R) : tensor R := let '(_, s, _) := svd_blk m in s.
  (* s_store[sector[1]] = s *)
  Definition svd_store (bl : list (sector * tensor R)) : bvec G R :=
    fold_left (fun acc sb => dset (ceqb G) (col_charge (fst sb)) (svd_s (snd sb)) acc) bl [].
  Definition a_svd (x : arr) : option (arr * bvec G R * arr) :=
    match a_split svd_uv x with
    | Some (u, vh) => Some (u, svd_store (blocks G R x), vh)
    | None => None
    end.

  (* eigh: charge must be the identity; eigenvalues keyed by sector[1]; the
     eigenvector array keeps indices and charge *)
  Definition eigh_store (bl : list (sector * tensor R)) : bvec G R :=
    fold_left (fun acc sb => dset (ceqb G) (col_charge (fst sb)) (fst (eigh_blk (snd sb))) acc) bl [].
  Definition eigh_vecs (bl : list (sector * tensor R)) : list (sector * tensor R) :=
    fold_left (fun acc sb => dset keq (fst sb) (snd (eigh_blk (snd sb))) acc) bl [].
  Definition a_eigh (a : arr) : option (bvec G R * arr) :=
    if Nat.eqb (ndim G R a) 2 && ceqb G (charge G R a) (ident G) then
      Some (eigh_store (blocks G R a), with_blocks G R a (eigh_vecs (blocks G R a)))
    else None.

  (* solve(a, b): for every block of a whose row sector is stored in b,
     x[(sector[1],)] = solve(block, b[(sector[0],)]);
     charge = combine(b.charge, sign(a.charge)); index = a.indices[1].conj() *)
  Definition solve_blocks (bla blb : list (sector * tensor R)) : list (sector * tensor R) :=
    fold_left (fun acc sb =>
                 match lookup keq [row_charge (fst sb)] blb with
                 | Some bb => dset keq [col_charge (fst sb)] (solve_blk (snd sb) bb) acc
                 | None => acc
                 end) bla [].
  Definition a_solve (a b : arr) : option arr :=
    if Nat.eqb (ndim G R a) 2 && Nat.eqb (ndim G R b) 1 then
      Some (mkA G R [iconj G (ix1 a)] (combine G [charge G R b; sign G (charge G R a) true])
                (solve_blocks (blocks G R a) (blocks G R b)))
    else None.

  (* ---- fermionic versions ---- *)
  (* the left factor is x.copy_with(...): it keeps x's pending-sign table and labels;
     the right factor is a fresh array (no pending signs, no labels), flipped on
     axis 0 when that axis is dual ("inner index is like |x><x|") *)
  Definition flip0_if_dual (y : farr) : farr :=
    if idual G (nth 0 (indices G R (fbase G R y)) (dflt_index G)) then f_phase_flip G R y [0] else y.

  Definition f_split (f : tensor R -> tensor R * tensor R) (x : farr) : option (farr * farr) :=
    match a_split f (fbase G R x) with
    | Some (q, r) => Some (mkF G R q (fphases G R x) (foddpos G R x), flip0_if_dual (mkF G R r [] []))
    | None => None
    end.
  Definition f_qr (x : farr) : option (farr * farr) := f_split qr_blk x.
  Definition f_svd (x : farr) : option (farr * bvec G R * farr) :=
    match f_split svd_uv x with
    | Some (u, vh) => Some (u, svd_store (blocks G R (fbase G R x)), vh)
    | None => None
    end.

  (* eigh_fermionic: works on the phase-synced array (fix 539bade); eigenvalues of odd
     charges negated when the second index is not dual *)
  Definition f_eigh (a : farr) : option (bvec G R * farr) :=
    let a1 := f_phase_sync G R a in
    match a_eigh (fbase G R a1) with
    | Some (w, v) =>
        let w' := if negb (idual G (ix1 (fbase G R a1)))
                  then map (fun cw => if parity G (fst cw) then (fst cw, tneg R (snd cw)) else cw) w
                  else w in
        Some (w', mkF G R v [] (foddpos G R a))
    | None => None
    end.

  (* solve_fermionic: works on the phase-synced operands (fix 239d31d); x = b.copy_with(...) of the
     synced b: empty sign table, b's labels *)
  Definition f_solve (a b : farr) : option farr :=
    let a1 := f_phase_sync G R a in
    let b1 := f_phase_sync G R b in
    match a_solve (fbase G R a1) (fbase G R b1) with
    | Some x => Some (flip0_if_dual (mkF G R x [] (foddpos G R b)))
    | None => None
    end.
End Linalg.

(* ------------------------------------------------------------------ *)
(* Shape-only stand-ins for the LAPACK routines (numpy's reduced factorisations:
   inner dimension min(rows, columns)); used by the structure correspondence of
   harness/c11.py.  The eigenvalue stand-in is all ones so that the sign the
   fermionic eigh puts on odd charges is visible. *)
Section Stubs.
  Context (R : Ring).
  Definition sh0 (m : tensor R) : nat := nth 0 (tshape m) 0.
  Definition sh1 (m : tensor R) : nat := nth 1 (tshape m) 0.
  Definition tones (sh : list nat) : tensor R := build R sh (fun _ => r1 R).
  Definition qr_stub (m : tensor R) : tensor R * tensor R :=
    let k := Nat.min (sh0 m) (sh1 m) in (tzeros R [sh0 m; k], tzeros R [k; sh1 m]).
  Definition svd_stub (m : tensor R) : tensor R * tensor R * tensor R :=
    let k := Nat.min (sh0 m) (sh1 m) in (tzeros R [sh0 m; k], tzeros R [k], tzeros R [k; sh1 m]).
  Definition eigh_stub (m : tensor R) : tensor R * tensor R := (tones [sh1 m], tzeros R [sh0 m; sh1 m]).
  Definition solve_stub (m b : tensor R) : tensor R := tzeros R [sh1 m].
End Stubs.
