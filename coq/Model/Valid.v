(* Model/Valid.v — the validity predicate of property C01 exactly as the property
   states it (sub-sector ORDER inside a fused charge is an implementation
   invariant, not part of the property, so it is not demanded here; Wf.wf_array
   is the stronger invariant the theorems preserve).  Evaluated by vm_compute on
   every array the implementation returns in the C01 correspondence run. *)
From SV Require Import Base.Prelude Base.Sym Base.Tensor Model.Sectors Model.Array Model.Wf Model.Fermi.
Local Open Scope nat_scope.

Section Valid.
  Context (G : Symmetry) (R : Ring).
  Notation Ch := (C G).
  Notation sector := (list (C G)).
  Notation keq := (list_eqb (ceqb G)).

  Definition extent_valid (fdual : bool) (subs : list (index G)) (c : Ch) (d : nat) (e : list (sector * nat)) : bool :=
    Nat.eqb (nsum (map snd e)) d &&
    nodupb keq (map fst e) &&
    forallb (fun p =>
      let ss := fst p in
      Nat.eqb (length ss) (length subs) &&
      forallb (fun q => mem (ceqb G) (snd q) (icharges G (fst q))) (List.combine subs ss) &&
      Nat.eqb (snd p) (nprod (map (fun q => size_of G (fst q) (snd q)) (List.combine subs ss))) &&
      ceqb G (combine G (map (fun q => sign G (snd q) (negb (Bool.eqb fdual (idual G (fst q))))) (List.combine subs ss))) c) e.

  Fixpoint valid_index (ix : index G) : bool :=
    match ix with
    | Index _ cm d sub =>
        cm_ok G cm &&
        match sub with
        | None => true
        | Some (subs, ext) =>
            negb (is_nil subs) &&
            Bool.eqb d (match subs with s0 :: _ => idual G s0 | [] => d end) &&
            (fix all (l : list (index G)) : bool := match l with [] => true | s :: l' => valid_index s && all l' end) subs &&
            nodupb (ceqb G) (map fst ext) &&
            Nat.eqb (length ext) (length cm) &&
            forallb (fun p => match lookup (ceqb G) (fst p) ext with
                              | Some e => extent_valid d subs (fst p) (snd p) e
                              | None => false end) cm
        end
    end.

  Definition valid_array (x : aarray G R) : bool :=
    forallb valid_index (indices G R x) &&
    valid G (charge G R x) &&
    nodupb keq (sectors G R x) &&
    forallb (fun sb => sector_ok G (indices G R x) (charge G R x) (fst sb) &&
                       list_eqb Nat.eqb (tshape (snd sb)) (block_shape G (indices G R x) (fst sb)) &&
                       Nat.eqb (length (tdata (snd sb))) (shape_size (tshape (snd sb)))) (blocks G R x).

  (* fermionic: every key of the pending-sign table is a charge-conserving sector over the
     tables (keys listed in full, whatever their sign), no key twice, and the number of
     odd-position labels has the parity of the total charge *)
  Definition valid_farray (x : farray G R) (all_phase_keys : list sector) : bool :=
    valid_array (fbase G R x) &&
    nodupb keq all_phase_keys &&
    (* a key may name a sector whose block (and even whose charges) were dropped, e.g. after
       aligning two arrays: the property asks for charge conservation, not for presence *)
    forallb (fun s => Nat.eqb (length s) (length (indices G R (fbase G R x))) &&
                      is_valid_sector G (map (idual G) (indices G R (fbase G R x))) (charge G R (fbase G R x)) s) all_phase_keys &&
    Bool.eqb (Nat.odd (length (foddpos G R x))) (fparity G R x).
End Valid.
