(* Model/FuseConcat.v — hand model of the SECOND fusing strategy of
   symmray.abelian_core: `_fuse_blocks_via_concat` (mode="concat"), on top of the
   tables of Model/Array.v (fused_sector, fused_block_shape, fused_indices,
   group_subsector, is_singlet, fuse_perm).  Definitions only, all computable;
   tied to the implementation by harness/tie_concat.py (cases.v correspondence).

   Python (after fix e820e4b):

     new_blocks = {}
     for sector, array in blocks.items():
         new_shape, new_sector, subsectors = blockmap[sector]
         new_array = _reshape(_transpose(array, perm), new_shape)
         new_blocks.setdefault(new_sector, {})[subsectors] = new_array      (concat_collect)

     def _recurse_concat(new_sector, g=0, subkey=()):                       (recurse_concat)
         new_charge = new_sector[position + g]
         if g in group_singlets: next_subkeys = [( *subkey, (new_charge,))]
         else: next_subkeys = [( *subkey, ss) for ss in new_indices[position+g].subinfo.extents[new_charge]]
         if g == num_groups - 1:  arrays = [leaf or zeros(shape_before + shape_new + shape_after)]
         else:                    arrays = (_recurse_concat(new_sector, g + 1, k) for k in next_subkeys)
         return _concatenate(tuple(arrays), axis=position + g)

     return {new_sector: _recurse_concat(new_sector) for new_sector in new_blocks}

   The recursion is structural on the list of groups still to be processed; the
   leaf (all groups consumed) reads the collected sub-block or builds the zero
   filler, so for a non-empty list of groups the unfolding is exactly the Python
   one (the Python code is never called with an empty list of groups). *)
From SV Require Import Base.Prelude Base.Sym Base.Tensor Model.Sectors Model.Array.
Local Open Scope nat_scope.

Section FuseConcat.
  Context (G : Symmetry) (R : Ring).
  Notation sector := (list (C G)).
  Notation keq := (list_eqb (ceqb G)).
  Notation kkeq := (list_eqb (list_eqb (ceqb G))).
  Notation dflt := (dflt_index G).
  Notation idc := (ident G).

  (* blockmap[sector][2] = tuple(map(tuple, subsectors)): one sub-sector per group
     (for a single-axis group the 1-tuple of its charge) *)
  Definition subkey_of (groups : list (list nat)) (s : sector) : list sector :=
    map (group_subsector G s) groups.

  (* the transposed + reshaped sub-block of one stored block *)
  Definition fuse_piece (ixs : list (index G)) (groups : list (list nat)) (sb : sector * tensor R) : tensor R :=
    treshape R (ttranspose R (snd sb) (fuse_perm (length ixs) groups)) (fused_block_shape G ixs groups (fst sb)).

  (* first loop: new_blocks.setdefault(new_sector, {})[subsectors] = new_array *)
  Definition concat_collect (ixs : list (index G)) (groups : list (list nat)) (blks : list (sector * tensor R))
    : list (sector * list (list sector * tensor R)) :=
    fold_left (fun acc sb =>
      let ns := fused_sector G ixs groups (fst sb) in
      let inner := match lookup keq ns acc with Some d => d | None => [] end in
      dset keq ns (dset kkeq (subkey_of groups (fst sb)) (fuse_piece ixs groups sb) inner) acc) blks [].

  (* new_indices[k].subinfo.extents[c] : the sub-sectors of fused charge c with their
     sizes, in the (sorted) order of the table; [] stands for Python's KeyError /
     AttributeError (not reachable from the recursion below on fused tables) *)
  Definition extent_of (ix : index G) (c : C G) : list (sector * nat) :=
    match isub G ix with
    | Some (_, ext) => match lookup (ceqb G) c ext with Some e => e | None => [] end
    | None => []
    end.

  (* shape of the zero filler for a missing leaf:
       shape_before = old_indices[ax].size_of(new_sector[new_axes[ax]])          ax in axes_before  (new_axes[ax] = ax)
       shape_new    = size_of(new_sector[position+gg]) if gg is a singlet group
                      else extents[new_sector[position+gg]][ss]                    (gg, ss) in enumerate(new_subkey)
       shape_after  = old_indices[ax].size_of(new_sector[new_axes[ax]])          ax in axes_after
                                                   (new_axes[ax] = position + num_groups + its rank in axes_after) *)
  Definition concat_zero_shape (ixs nixs : list (index G)) (groups : list (list nat)) (ns : sector)
             (subkey : list sector) : list nat :=
    let n := length ixs in
    let pos := fuse_position groups in
    map (fun ax => size_of G (nth ax ixs dflt) (nth ax ns idc)) (axes_before n groups)
    ++ map (fun p =>
              let ix := nth (pos + fst p) nixs dflt in
              let c := nth (pos + fst p) ns idc in
              if is_singlet (nth (fst p) groups []) then size_of G ix c
              else match lookup keq (snd p) (extent_of ix c) with Some d => d | None => 0 end)
           (enumerate subkey)
    ++ map (fun p => size_of G (nth (snd p) ixs dflt) (nth (pos + length groups + fst p) ns idc))
           (enumerate (axes_after n groups)).

  (* _recurse_concat(new_sector, g, subkey); gs = the groups g, g+1, ... still to process *)
  Fixpoint recurse_concat (ixs nixs : list (index G)) (groups : list (list nat))
           (inner : list (list sector * tensor R)) (ns : sector)
           (gs : list (list nat)) (g : nat) (subkey : list sector) : tensor R :=
    match gs with
    | [] =>
        match lookup kkeq subkey inner with
        | Some a => a
        | None => tzeros R (concat_zero_shape ixs nixs groups ns subkey)
        end
    | grp :: gs' =>
        let pos := fuse_position groups in
        let c := nth (pos + g) ns idc in
        let next := if is_singlet grp then [[c]] else map fst (extent_of (nth (pos + g) nixs dflt) c) in
        tconcat R (map (fun ss => recurse_concat ixs nixs groups inner ns gs' (S g) (subkey ++ [ss])) next) (pos + g)
    end.

  Definition fuse_concat_blocks (ixs nixs : list (index G)) (groups : list (list nat)) (blks : list (sector * tensor R))
    : list (sector * tensor R) :=
    map (fun kv => (fst kv, recurse_concat ixs nixs groups (snd kv) (fst kv) groups 0 []))
        (concat_collect ixs groups blks).

  (* AbelianArray._fuse_core( *groups, mode="concat") *)
  Definition fuse_concat (x : aarray G R) (groups : list (list nat)) : aarray G R :=
    let ixs := indices G R x in
    let nixs := fused_indices G ixs (sectors G R x) groups in
    mkA G R nixs (charge G R x) (fuse_concat_blocks ixs nixs groups (blocks G R x)).

  (* fuse( *axes_groups, mode="concat") with empty groups expanded (as Array.a_fuse) *)
  Definition a_fuse_concat (x : aarray G R) (groups : list (list nat)) : aarray G R :=
    let ne := filter (fun g => negb (is_nil g)) groups in
    let xf := match ne with [] => x | _ => fuse_concat x ne end in
    let g0 := list_min (concat ne) in
    fold_left (fun acc p => if is_nil (snd p) then a_expand_dims G R acc (g0 + fst p) else acc) (enumerate groups) xf.
End FuseConcat.
