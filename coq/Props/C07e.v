(* Props/C07e.v — property C07, TRANSLATOR tie of the axis-matching routine:
   the Gallina function GENERATED on every run from the current source of
   symmray/abelian_core.py::calc_reshape_args (tr/gen_reshape.py ->
   Gen/ReshapeGen.v: `gen_calc_reshape_args fuel shape newshape subsizes`, every
   `while` a fuel-bounded Fixpoint translated statement by statement) equals the
   hand model Model/ReshapeArgs.v the theorems of C07.v / C07b.v / C07c.v speak
   about.  Statements only; proofs in Proofs/ReshapeGenProofs.v.  Everything here is
   UNBOUNDED (induction over the fuel of each loop; nothing is decided by enumeration).

   Representation: the generated routine has integer positions (Z) and the
   result type `gres` (GOk / GErrValue / GErrIndex / GErrUnbound / GErrKey /
   GErrType / GOutOfFuel); `plan_Z` maps the model's plan (nat positions) to
   integers, `res_conv` maps Ok / ErrValue / ErrIndex / ErrUnbound / OutOfFuel
   to the constructors of the same name (GErrKey / GErrType are never produced). *)
From SV Require Import Base.Prelude Base.PyList Model.ReshapeArgs Gen.ReshapeGen
  Proofs.ReshapeArgsProofs Proofs.ReshapeGenProofs.

(* UNBOUNDED — all shapes, all targets, all sub-size annotations (also malformed
   ones: negative sizes, sub-sizes shorter than the shape, ...), every fuel
   >= gen_fuel = 2 * (len shape + len newshape) + 3: the generated routine returns
   exactly what the model returns (the same plan, or the same exception class). *)
Theorem C07_gen_reshape_args_eq_model :
  forall (shape newshape : list Z) (subsizes : list (option (list Z))) (fuel : nat),
  (gen_fuel shape newshape <= fuel)%nat ->
  gen_calc_reshape_args fuel shape newshape subsizes
  = res_conv plan_Z (calc_reshape_args shape newshape subsizes).
Proof. exact gen_eq_model. Qed.

(* UNBOUNDED: neither runs out of fuel — the model never (its internal fuel
   S (len shape + len newshape) / S (len term) / 2 len term + 2 is enough for every
   input), the generated routine not with any fuel >= gen_fuel: every `while` of
   calc_reshape_args terminates *)
Theorem C07_reshape_args_model_never_out_of_fuel :
  forall (shape newshape : list Z) (subsizes : list (option (list Z))),
  calc_reshape_args shape newshape subsizes <> OutOfFuel.
Proof. exact model_no_oof. Qed.

Theorem C07_gen_reshape_args_never_out_of_fuel :
  forall (shape newshape : list Z) (subsizes : list (option (list Z))) (fuel : nat),
  (gen_fuel shape newshape <= fuel)%nat ->
  gen_calc_reshape_args fuel shape newshape subsizes <> GOutOfFuel.
Proof. exact gen_no_oof. Qed.

(* UNBOUNDED, the main matching loop alone (`while i < ndim_old and j < ndim_new`,
   with its inner `for` and `while`): started in any state related to a model
   state (positions i, j against the suffixes the model carries, dicts against
   value lists) it ends in the related state or raises the same exception;
   axs_squeeze, which the source writes but never reads, is projected away *)
Theorem C07_gen_matching_loop_eq_model :
  forall (shape newshape : list Z) (subsizes : list (option (list Z))) (fuel0 : nat),
  (length shape < fuel0)%nat ->
  forall fuel fuelg sh subs nw st ni nj j k u t i sq sg e f fd,
  (fuel <= fuelg)%nat ->
  skipn ni shape = sh -> skipn ni subsizes = subs -> skipn nj newshape = nw ->
  (ni <= length shape)%nat -> (nj <= length newshape)%nat ->
  j = Z.of_nat nj -> k = Z.of_nat (m_k st) -> u = udict (m_unf st) -> t = map lab_of (m_term st) ->
  i = Z.of_nat ni -> sg = m_sing st -> e = zs (m_exp st) -> f = gdict (m_fus st) -> fd = m_fused st ->
  match_raw fuel sh subs nw st <> OutOfFuel ->
  gmap drop_sq (gen_while_1 fuel0 fuelg shape newshape subsizes (Z.of_nat (length shape))
                            (Z.of_nat (length newshape)) j k u t i sq sg e f fd)
  = res_conv (conv_raw shape newshape) (match_raw fuel sh subs nw st).
Proof. exact while1_spec. Qed.

(* in particular on the FINITE DOMAIN over which C07_reshape_args_forward_partial /
   C07_reshape_args_roundtrip_partial (Props/C07.v) are stated — n <= 5 original axes
   of sizes in {1,2,3,4,6}, every merge/drop target, the call of the way there and
   the call of the way back: those theorems therefore speak about the routine
   generated from the source (an instance of the theorem above, nothing computed) *)
Theorem C07_gen_reshape_args_eq_model_domain :
  forall n ts nw, (n <= 5)%nat -> in_dom n ts nw ->
  gen_calc_reshape_args (gen_fuel (shape_of ts) nw) (shape_of ts) nw (subsizes_of ts)
    = res_conv plan_Z (calc_reshape_args (shape_of ts) nw (subsizes_of ts)) /\
  forall ts', reshape_trees ts nw = Some ts' ->
    gen_calc_reshape_args (gen_fuel (shape_of ts') (shape_of ts)) (shape_of ts') (shape_of ts) (subsizes_of ts')
    = res_conv plan_Z (calc_reshape_args (shape_of ts') (shape_of ts) (subsizes_of ts')).
Proof. exact gen_eq_model_on_domain. Qed.

(* carried over to the generated routine: UNBOUNDED same-shape identity *)
Theorem C07_gen_reshape_same_shape :
  forall sh subs fuel, no_match sh subs -> (gen_fuel sh sh <= fuel)%nat ->
  gen_calc_reshape_args fuel sh sh subs = GOk ([], [], []).
Proof. exact gen_reshape_same_shape. Qed.

(* the known findings F11 / F12a are properties of the code: the routine generated
   from the source reproduces them *)
Theorem C07_gen_reshape_args_refuted_scalar :
  forall fuel, (gen_fuel [1; 1; 1]%Z [] <= fuel)%nat ->
  gen_calc_reshape_args fuel [1; 1; 1]%Z [] [None; None; None] = GErrIndex.
Proof. exact gen_refuted_scalar. Qed.

Theorem C07_gen_reshape_args_refuted_identity :
  forall fuel, (gen_fuel [6; 1]%Z [6; 1]%Z <= fuel)%nat ->
  gen_calc_reshape_args fuel [6; 1]%Z [6; 1]%Z [Some [6; 1]%Z; None] = GOk ([0], [[[1; 2]]], [])%Z.
Proof. exact gen_refuted_identity. Qed.

Print Assumptions C07_gen_reshape_args_eq_model.
Print Assumptions C07_reshape_args_model_never_out_of_fuel.
Print Assumptions C07_gen_reshape_args_never_out_of_fuel.
Print Assumptions C07_gen_matching_loop_eq_model.
Print Assumptions C07_gen_reshape_args_eq_model_domain.
Print Assumptions C07_gen_reshape_same_shape.
Print Assumptions C07_gen_reshape_args_refuted_scalar.
Print Assumptions C07_gen_reshape_args_refuted_identity.
