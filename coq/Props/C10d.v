(* Props/C10d.v — property C10, the NETWORK clause for a CHAIN OF ANY LENGTH (continuation of
   Props/C10.v, C10b.v, C10c.v):
   "the same holds for a whole network conjugated tensor by tensor once the dangling legs that
    were bra-like are sign-flipped (none when all dangling legs are ket-like), along every
    contraction route."
   Statements only; proofs and the definitions below live in Proofs/NetworkNormProofs.v.

   A network is a first tensor t1 and a list of steps (t, aa, ab): the next tensor, the axes of the
   running result and the axes of t that are contracted.

     chain_contract y l   the ket: y_k = tensordot(y_{k-1}, t_k, (aa_k, ab_k)), block by block, left to right
     conj_chain c l       the conjugated network in the reversed order, started from c = conj t1:
                            c_k = transpose(tensordot(conj t_k, c_{k-1}, (ab_k, aa_k)))
                          every tensor conjugated with the default dual-leg option; the fermionic
                          transpose only moves the free legs of conj t_k behind those of c_{k-1}, so that
                          c_k lists its legs like y_k
     bra_flip c           c with its ket-like legs (the dangling legs that were bra-like) sign-flipped
     chain_norm t1 l      tensordot(bra_flip c_n, y_n) over all legs
     chain_ixs ixs l      the index tables of the free legs of the running result (tensordot itself
                          drops unused charges from the tables of its result)
     chain_labels l       the labels of all the tensors of l
     ix_pair_ok           C04b's `pair_ok`, which only reads the index tables (C10_pair_ok_tables)
     steps_ok ixs l       every tensor of l is valid and, at every step, the axes are duplicate-free,
                          in range, of equal number, the paired legs have opposite directions and equal
                          charge tables -- with respect to the tables chain_ixs of the running result
     bra_of Y C           C is the bra of Y: both valid, C has the conjugated tables and labels of Y and,
                          at every coordinate, the value of conj(Y)
     V, reindex, same_val, norm_sum_l, n_dual, distinct, labels_ket, ConjLaws      as in Props/C10c.v

   Hypotheses used at each step (and nothing else): validity of the next tensor (validity of the
   running result is preserved, C01), `pair_ok` between the running result with its full tables and
   the next tensor, and pairwise different labels of all tensors (the labels of the running result
   are a permutation of the labels absorbed so far).  For a single tensor (empty list of steps) its
   label list has to be sorted (the result of every contraction is). *)
From SV Require Import Base.Prelude Base.Sym Base.Tensor Model.Sectors Model.Array Model.Arith Model.Wf
  Model.Fermi Model.Oddpos Proofs.OrderProofs Proofs.OddposProofs Proofs.Tdot Proofs.WfProofs Proofs.FermiProofs
  Proofs.ConjProofs Proofs.NormProofs Proofs.RouteProofs Proofs.ConjNetProofs Proofs.NetworkNormProofs.
From Coq Require Import Permutation Sorted.
Local Open Scope nat_scope.

(* ---- 0. vocabulary ---- *)
Theorem C10_pair_ok_tables :
  forall (G : Symmetry) (R : Ring) (a b : farray G R) (aa ab : list nat),
  pair_ok G R a b aa ab <-> ix_pair_ok G (indices G R (fbase G R a)) (indices G R (fbase G R b)) aa ab.
Proof. exact pair_ok_ix. Qed.

(* the contraction only reads blocks, pending signs, labels, charge and leg directions: operands with
   other index tables (e.g. the pruned tables tensordot leaves) give the same blocks *)
Theorem C10_tensordot_same_blocks :
  forall (G : Symmetry), GroupLaws G -> forall (R : Ring), NegLaws R ->
  forall (a a' b b' : farray G R) (axes : nat + (list Z * list Z)) (aa ab : list nat) (y : farray G R),
  same_val G R a a' -> same_val G R b b' ->
  parse_axes (ndim G R (fbase G R a)) (ndim G R (fbase G R b)) axes = Some (aa, ab) ->
  NoDup (fsectors G R a) -> sectors_len G R a -> NoDup (fsectors G R b) -> sectors_len G R b ->
  NoDup aa -> (forall i, In i aa -> i < ndim G R (fbase G R a)) ->
  NoDup ab -> (forall i, In i ab -> i < ndim G R (fbase G R b)) ->
  opposite_dirs G R a b aa ab ->
  f_tensordot G R a b axes MBlockwise = Some y ->
  exists y', f_tensordot G R a' b' axes MBlockwise = Some y' /\ same_val G R y' y.
Proof. exact same_val_tdot_sv. Qed.

(* ---- 1. one step: conj(Y . t) = transpose(conj t . C) when C is the bra of Y ---- *)
Theorem C10_bra_of_conj :
  forall (G : Symmetry), GroupLaws G -> forall (R : Ring) (t : farray G R),
  wf_fermi G R t = true -> bra_of G R t (f_conj G R t true false).
Proof. exact bra_of_self. Qed.

Theorem C10_conj_chain_step :
  forall (G : Symmetry), GroupLaws G -> OrderLaws G ->
  forall (R : Ring), NegLaws R -> SumLaws R -> CommLaws R -> ConjLaws R ->
  forall (Y Cb t : farray G R) (aa ab : list nat),
  bra_of G R Y Cb -> wf_fermi G R t = true -> pair_ok G R Y t aa ab ->
  distinct (foddpos G R Y ++ foddpos G R t) ->
  exists y1 c2,
    f_tensordot G R Y t (naxes aa ab) MBlockwise = Some y1
    /\ f_tensordot G R (f_conj G R t true false) Cb (naxes ab aa) MBlockwise = Some c2
    /\ let ixs' := free_ixs G R Y t aa ab in
       let nl := ndim G R (fbase G R Y) - length aa in
       let nr := ndim G R (fbase G R t) - length ab in
       let c3 := f_transpose G R c2 (seq nr nl ++ seq 0 nr) true in
       bra_of G R (reindex G R y1 ixs') (reindex G R c3 (map (iconj G) ixs'))
       /\ same_val G R (reindex G R y1 ixs') y1
       /\ same_val G R (reindex G R c3 (map (iconj G) ixs')) c3
       /\ Permutation (foddpos G R y1) (foddpos G R Y ++ foddpos G R t)
       /\ StronglySorted lt_op (foddpos G R y1).
Proof. exact bra_step. Qed.

(* ---- 2. the norm of a chain of any length ---- *)
(* the ket y_n and the bra c_n exist; y_n with the full tables is valid; c_n is conj(y_n), labels
   and value at every coordinate; the closing contraction exists, leaves no label and is
   (-1)^(number of conjugated labels) * sum |y_n|^2 *)
Theorem C10_network_norm_chain :
  forall (G : Symmetry), GroupLaws G -> OrderLaws G ->
  forall (R : Ring), NegLaws R -> SumLaws R -> CommLaws R -> ConjLaws R ->
  forall (t1 : farray G R) (l : list (farray G R * list nat * list nat)),
  wf_fermi G R t1 = true -> steps_ok G R (indices G R (fbase G R t1)) l ->
  distinct (foddpos G R t1 ++ chain_labels G R l) ->
  (l = [] -> sorted_by fop_ltb (foddpos G R t1) = true) ->
  exists yn cn z,
    chain_contract G R t1 l = Some yn
    /\ conj_chain G R (f_conj G R t1 true false) l = Some cn
    /\ chain_norm G R t1 l = Some z
    /\ let ixn := chain_ixs G R (indices G R (fbase G R t1)) l in
       wf_fermi G R (reindex G R yn ixn) = true
       /\ map (idual G) ixn = map (idual G) (indices G R (fbase G R yn))
       /\ Permutation (foddpos G R yn) (foddpos G R t1 ++ chain_labels G R l)
       /\ foddpos G R cn = foddpos G R (f_conj G R yn true false)
       /\ (forall cs, coords_ok G ixn cs = true -> V G R cn cs = V G R (f_conj G R yn true false) cs)
       /\ foddpos G R z = []
       /\ a_scalar G R (f_value G R z)
          = rsgn R (n_dual (foddpos G R t1 ++ chain_labels G R l)) (norm_sum_l G R (reindex G R yn ixn)).
Proof. exact network_norm_chain. Qed.

(* the right-hand side as the executable squared norm of the stored blocks of y_n *)
Theorem C10_network_norm_chain_norm2 :
  forall (G : Symmetry), GroupLaws G -> OrderLaws G ->
  forall (R : Ring), NegLaws R -> SumLaws R -> CommLaws R -> ConjLaws R ->
  forall (t1 : farray G R) (l : list (farray G R * list nat * list nat)),
  wf_fermi G R t1 = true -> steps_ok G R (indices G R (fbase G R t1)) l ->
  distinct (foddpos G R t1 ++ chain_labels G R l) ->
  (l = [] -> sorted_by fop_ltb (foddpos G R t1) = true) ->
  exists yn z,
    chain_contract G R t1 l = Some yn /\ chain_norm G R t1 l = Some z
    /\ foddpos G R z = []
    /\ a_scalar G R (f_value G R z)
       = rsgn R (n_dual (foddpos G R t1 ++ chain_labels G R l)) (a_norm2 G R (f_value G R yn)).
Proof. exact network_norm_chain_norm2. Qed.

(* constructor labels (none conjugated): no sign *)
Theorem C10_network_norm_chain_ket :
  forall (G : Symmetry), GroupLaws G -> OrderLaws G ->
  forall (R : Ring), NegLaws R -> SumLaws R -> CommLaws R -> ConjLaws R ->
  forall (t1 : farray G R) (l : list (farray G R * list nat * list nat)),
  wf_fermi G R t1 = true -> steps_ok G R (indices G R (fbase G R t1)) l ->
  distinct (foddpos G R t1 ++ chain_labels G R l) -> labels_ket (foddpos G R t1 ++ chain_labels G R l) ->
  (l = [] -> sorted_by fop_ltb (foddpos G R t1) = true) ->
  exists yn z,
    chain_contract G R t1 l = Some yn /\ chain_norm G R t1 l = Some z
    /\ foddpos G R z = []
    /\ a_scalar G R (f_value G R z) = a_norm2 G R (f_value G R yn).
Proof. exact network_norm_chain_ket. Qed.

(* ---- 3. route independence of the norm for a 3-chain (with C04b's associativity) ---- *)
(* a - b - c in general position (C04_assoc_chain).  Route 1: ((a . b) . c) with the bra network
   conj c . (conj b . conj a); route 2: (a . (b . c)) with the bra conj (b . c) . conj a, where b . c
   enters with its full tables.  Both closing contractions exist, leave no label and give the same
   number, (-1)^(number of conjugated labels) * |[[a b c]]|^2. *)
Theorem C10_network_norm_route3 :
  forall (G : Symmetry), GroupLaws G -> OrderLaws G ->
  forall (R : Ring), NegLaws R -> SumLaws R -> CommLaws R -> ConjLaws R ->
  forall (a b c : farray G R) (aa ab bb cb : list nat),
  wf_fermi G R a = true -> wf_fermi G R b = true -> wf_fermi G R c = true ->
  pair_ok G R a b aa ab -> pair_ok G R b c bb cb ->
  (forall j, In j ab -> ~ In j bb) ->
  distinct (foddpos G R a ++ foddpos G R b ++ foddpos G R c) ->
  let nl := length (rest_axes (ndim G R (fbase G R a)) aa) in
  let bb1 := map (fun j => nl + index_of j (rest_axes (ndim G R (fbase G R b)) ab)) bb in
  let ab2 := map (fun j => index_of j (rest_axes (ndim G R (fbase G R b)) bb)) ab in
  exists y12 y2 z1 z2,
    chain_contract G R a [(b, aa, ab); (c, bb1, cb)] = Some y12
    /\ f_tensordot G R b c (naxes bb cb) MBlockwise = Some y2
    /\ chain_norm G R a [(b, aa, ab); (c, bb1, cb)] = Some z1
    /\ chain_norm G R a [(reindex G R y2 (free_ixs G R b c bb cb), aa, ab2)] = Some z2
    /\ foddpos G R z1 = [] /\ foddpos G R z2 = []
    /\ a_scalar G R (f_value G R z1) = a_scalar G R (f_value G R z2)
    /\ a_scalar G R (f_value G R z1)
       = rsgn R (n_dual (foddpos G R a ++ foddpos G R b ++ foddpos G R c)) (a_norm2 G R (f_value G R y12)).
Proof. exact network_norm_route3. Qed.

Print Assumptions C10_pair_ok_tables.
Print Assumptions C10_tensordot_same_blocks.
Print Assumptions C10_bra_of_conj.
Print Assumptions C10_conj_chain_step.
Print Assumptions C10_network_norm_chain.
Print Assumptions C10_network_norm_chain_norm2.
Print Assumptions C10_network_norm_chain_ket.
Print Assumptions C10_network_norm_route3.
