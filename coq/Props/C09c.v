(* Props/C09c.v — Property C09 (lazily tracked fermionic signs are unobservable),
   continuation: the REDUCTIONS, SCALAR CONVERSIONS and ELEMENTWISE FUNCTIONS that read
   blocks (Model/FermiReduce.v): item (float/complex/int/bool are built on it), sum, max,
   min, abs / clip / any elementwise function, norm^2.
   ONLY restatements of lemmas of Proofs/FermiReduceProofs.v.

   feq G R x y   (Proofs/LazyProofs.v)  x ~ y : same value (pending signs applied) and same
                 labels; in particular f_phase_sync x ~ x (C09_sync_equiv in Props/C09.v).
   f_item, f_sum, f_max leb, f_min leb : option (RT R)   None = the Python code raises (no stored
                 block; item: not exactly one block of one element).  `leb` is the order of the
                 element type (z_leb on integers, g_leb = numpy's lexicographic order on complex).
   f_unary fn    FermionicArray._do_unary_op / clip: synchronise, then map fn over every block;
                 f_abs = f_unary |.|, f_clip lo hi on integer data.
   f_norm2       BlockBase.norm squared, NOT overridden by FermionicArray: reads the raw blocks.
   f_*_raw       the inherited methods on the raw blocks = the code before fixes 539bade / 5ee262a.
   All statements hold for every rank, every index table, every symmetry; ring laws are explicit
   premises (|-a|^2 = |a|^2 for norm^2; rneg 0 = 0 and additivity of rneg for the closed form
   of sum; the three laws of Props/C09.v for the program theorems). *)
From SV Require Import Base.Prelude Base.Sym Base.Tensor Model.SymInst Model.Sectors Model.Array Model.Arith
  Model.Fermi Model.Ctor Model.FermiReduce Proofs.LazyProofs Proofs.FermiReduceProofs.
Local Open Scope nat_scope.

(* ---- 1. equivalent arrays give EQUAL results ---- *)
Theorem C09_item_congr :
  forall (G : Symmetry) (R : Ring) (x y : farray G R),
  feq G R x y -> f_item G R x = f_item G R y.
Proof. exact item_congr. Qed.

Theorem C09_sum_congr :
  forall (G : Symmetry) (R : Ring) (x y : farray G R),
  feq G R x y -> f_sum G R x = f_sum G R y.
Proof. exact sum_congr. Qed.

Theorem C09_max_congr :
  forall (G : Symmetry) (R : Ring) (leb : RT R -> RT R -> bool) (x y : farray G R),
  feq G R x y -> f_max G R leb x = f_max G R leb y.
Proof. exact max_congr. Qed.

Theorem C09_min_congr :
  forall (G : Symmetry) (R : Ring) (leb : RT R -> RT R -> bool) (x y : farray G R),
  feq G R x y -> f_min G R leb x = f_min G R leb y.
Proof. exact min_congr. Qed.

(* every elementwise function (abs, sqrt, isfinite, clip, ...): the results are EQUAL records *)
Theorem C09_unary_congr :
  forall (G : Symmetry) (R : Ring) (fn : RT R -> RT R) (x y : farray G R),
  feq G R x y -> f_unary G R fn x = f_unary G R fn y.
Proof. exact unary_congr. Qed.

Theorem C09_abs_congr :
  forall (G : Symmetry) (x y : farray G ZRing),
  feq G ZRing x y -> f_abs G x = f_abs G y.
Proof. exact abs_congr. Qed.

Theorem C09_abs_congr_equiv :
  forall (G : Symmetry) (x y : farray G ZRing),
  feq G ZRing x y -> feq G ZRing (f_abs G x) (f_abs G y).
Proof. exact abs_congr_feq. Qed.

Theorem C09_clip_congr :
  forall (G : Symmetry) (lo hi : Z) (x y : farray G ZRing),
  feq G ZRing x y -> f_clip G lo hi x = f_clip G lo hi y.
Proof. exact clip_congr. Qed.

Theorem C09_norm2_congr :
  forall (G : Symmetry) (R : Ring),
  (forall a : RT R, rmul R (rneg R a) (rconj R (rneg R a)) = rmul R a (rconj R a)) ->
  forall x y : farray G R,
  feq G R x y -> f_norm2 G R x = f_norm2 G R y.
Proof. exact norm2_congr. Qed.

Theorem C09_norm2_congr_ZRing :
  forall (G : Symmetry) (x y : farray G ZRing), feq G ZRing x y -> f_norm2 G ZRing x = f_norm2 G ZRing y.
Proof. exact norm2_congr_ZRing. Qed.

Theorem C09_norm2_congr_GRing :
  forall (G : Symmetry) (x y : farray G GRing), feq G GRing x y -> f_norm2 G GRing x = f_norm2 G GRing y.
Proof. exact norm2_congr_GRing. Qed.

(* ---- 2. an array and its sign-synchronised copy ---- *)
Theorem C09_item_sync :
  forall (G : Symmetry) (R : Ring) (x : farray G R), f_item G R x = f_item G R (f_phase_sync G R x).
Proof. exact item_sync. Qed.

Theorem C09_sum_sync :
  forall (G : Symmetry) (R : Ring) (x : farray G R), f_sum G R x = f_sum G R (f_phase_sync G R x).
Proof. exact sum_sync. Qed.

Theorem C09_max_sync :
  forall (G : Symmetry) (R : Ring) (leb : RT R -> RT R -> bool) (x : farray G R),
  f_max G R leb x = f_max G R leb (f_phase_sync G R x).
Proof. exact max_sync. Qed.

Theorem C09_min_sync :
  forall (G : Symmetry) (R : Ring) (leb : RT R -> RT R -> bool) (x : farray G R),
  f_min G R leb x = f_min G R leb (f_phase_sync G R x).
Proof. exact min_sync. Qed.

Theorem C09_unary_sync :
  forall (G : Symmetry) (R : Ring) (fn : RT R -> RT R) (x : farray G R),
  f_unary G R fn x = f_unary G R fn (f_phase_sync G R x).
Proof. exact unary_sync. Qed.

Theorem C09_abs_sync :
  forall (G : Symmetry) (x : farray G ZRing), f_abs G x = f_abs G (f_phase_sync G ZRing x).
Proof. exact abs_sync. Qed.

Theorem C09_clip_sync :
  forall (G : Symmetry) (lo hi : Z) (x : farray G ZRing),
  f_clip G lo hi x = f_clip G lo hi (f_phase_sync G ZRing x).
Proof. exact clip_sync. Qed.

Theorem C09_norm2_sync :
  forall (G : Symmetry) (R : Ring),
  (forall a : RT R, rmul R (rneg R a) (rconj R (rneg R a)) = rmul R a (rconj R a)) ->
  forall x : farray G R, f_norm2 G R x = f_norm2 G R (f_phase_sync G R x).
Proof. exact norm2_sync. Qed.

(* ---- 3. what is read: the pending sign is applied exactly once ---- *)
Theorem C09_item_spec :
  forall (G : Symmetry) (R : Ring) (x : farray G R) (v : RT R),
  f_item G R x = Some v <->
  exists s t, blocks G R (f_value G R x) = [(s, t)] /\ tdata t = [v].
Proof. exact item_spec. Qed.

(* in terms of the raw block and the sign table *)
Theorem C09_item_value :
  forall (G : Symmetry) (R : Ring) (x : farray G R) (s : list (C G)) (t : tensor R) (a : RT R),
  blocks G R (fbase G R x) = [(s, t)] -> tdata t = [a] ->
  f_item G R x = Some (rsgn R (ph_has G s (fphases G R x)) a).
Proof. exact item_value. Qed.

(* repaired item = inherited item with the sign of the single stored sector *)
Theorem C09_item_vs_raw :
  forall (G : Symmetry) (R : Ring) (x : farray G R),
  f_item G R x =
  match blocks G R (fbase G R x) with
  | [(s, _)] => option_map (rsgn R (ph_has G s (fphases G R x))) (f_item_raw G R x)
  | _ => None
  end.
Proof. exact item_vs_raw. Qed.

(* rank 0: item is the single entry of the dense value *)
Theorem C09_item_dense :
  forall (G : Symmetry) (R : Ring) (x : farray G R) (v : RT R),
  ndim G R (fbase G R x) = 0 ->
  Forall (fun s : list (C G) => length s = ndim G R (fbase G R x)) (fsectors G R x) ->
  f_item G R x = Some v ->
  exists d, f_to_dense G R x = Some d /\ tdata d = [v] /\ get R d [] = v.
Proof. exact item_dense. Qed.

Theorem C09_sum_value :
  forall (G : Symmetry) (R : Ring),
  rneg R (r0 R) = r0 R ->
  (forall a b : RT R, rneg R (radd R a b) = radd R (rneg R a) (rneg R b)) ->
  forall x : farray G R,
  f_sum G R x =
  match blocks G R (fbase G R x) with
  | [] => None
  | bs => Some (fold_left (fun acc sb => radd R acc (rsgn R (ph_has G (fst sb) (fphases G R x)) (tsum R (snd sb))))
                          bs (r0 R))
  end.
Proof. exact sum_value. Qed.

Theorem C09_unary_value :
  forall (G : Symmetry) (R : Ring) (fn : RT R -> RT R) (x : farray G R),
  f_value G R (f_unary G R fn x) = a_unary G R fn (f_value G R x).
Proof. exact unary_value. Qed.

Theorem C09_unary_phases_empty :
  forall (G : Symmetry) (R : Ring) (fn : RT R -> RT R) (x : farray G R),
  fphases G R (f_unary G R fn x) = [].
Proof. exact unary_phases. Qed.

(* an even function may read the raw blocks, provided the table is dropped *)
Theorem C09_unary_even :
  forall (G : Symmetry) (R : Ring) (fn : RT R -> RT R) (x : farray G R),
  (forall a : RT R, fn (rneg R a) = fn a) ->
  f_unary G R fn x = mkF G R (a_unary G R fn (fbase G R x)) [] (foddpos G R x).
Proof. exact unary_even. Qed.

Theorem C09_abs_vs_raw :
  forall (G : Symmetry) (x : farray G ZRing), f_abs G x = with_phases G ZRing (f_abs_raw G x) [].
Proof. exact abs_vs_raw. Qed.

(* on a synchronised array the inherited methods are right *)
Theorem C09_item_raw_sync :
  forall (G : Symmetry) (R : Ring) (x : farray G R), f_item_raw G R (f_phase_sync G R x) = f_item G R x.
Proof. exact item_raw_sync. Qed.

(* ---- 4. norm^2 reads the raw blocks and is sign-blind ---- *)
Theorem C09_norm2_sign_blind :
  forall (G : Symmetry) (R : Ring),
  (forall a : RT R, rmul R (rneg R a) (rconj R (rneg R a)) = rmul R a (rconj R a)) ->
  forall x : farray G R, f_norm2 G R (f_phase_sync G R x) = f_norm2 G R x.
Proof. exact norm2_sign_blind. Qed.

Theorem C09_norm2_value :
  forall (G : Symmetry) (R : Ring),
  (forall a : RT R, rmul R (rneg R a) (rconj R (rneg R a)) = rmul R a (rconj R a)) ->
  forall x : farray G R, f_norm2 G R x = a_norm2_opt G R (f_value G R x).
Proof. exact norm2_value. Qed.

Theorem C09_norm2_signmap :
  forall (G : Symmetry) (R : Ring),
  (forall a : RT R, rmul R (rneg R a) (rconj R (rneg R a)) = rmul R a (rconj R a)) ->
  forall (c : list (C G) -> bool) (b : aarray G R),
  a_norm2_opt G R (a_signmap G R c b) = a_norm2_opt G R b.
Proof. exact norm2_signmap. Qed.

Theorem C09_norm2_sign_blind_ZRing :
  forall (G : Symmetry) (x : farray G ZRing), f_norm2 G ZRing (f_phase_sync G ZRing x) = f_norm2 G ZRing x.
Proof. exact norm2_sign_blind_ZRing. Qed.

Theorem C09_norm2_sign_blind_GRing :
  forall (G : Symmetry) (x : farray G GRing), f_norm2 G GRing (f_phase_sync G GRing x) = f_norm2 G GRing x.
Proof. exact norm2_sign_blind_GRing. Qed.

Theorem C09_abs2_neg_of_laws :
  forall R : Ring,
  (forall a : RT R, rneg R (rneg R a) = a) ->
  (forall a b : RT R, rmul R (rneg R a) b = rneg R (rmul R a b)) ->
  (forall a b : RT R, rmul R a (rneg R b) = rneg R (rmul R a b)) ->
  (forall a : RT R, rconj R (rneg R a) = rneg R (rconj R a)) ->
  forall a : RT R, rmul R (rneg R a) (rconj R (rneg R a)) = rmul R a (rconj R a).
Proof. exact abs2_neg_of_laws. Qed.

(* ---- 5. no matter how many operations intervene ---- *)
Theorem C09_reductions_programs :
  forall (G : Symmetry) (R : Ring), GroupLaws G ->
  (forall a : RT R, rneg R (rneg R a) = a) ->
  rneg R (r0 R) = r0 R ->
  (forall a : RT R, rconj R (rneg R a) = rneg R (rconj R a)) ->
  forall (leb : RT R -> RT R -> bool) (fn : RT R -> RT R) (p : list (lop G)) (x : farray G R),
  lwf G R x -> prog_ok G (ndim G R (fbase G R x)) p ->
  let y := run_ops G R p x in
  let y' := run_ops G R p (f_phase_sync G R x) in
  f_item G R y = f_item G R y' /\ f_sum G R y = f_sum G R y' /\
  f_max G R leb y = f_max G R leb y' /\ f_min G R leb y = f_min G R leb y' /\
  f_unary G R fn y = f_unary G R fn y'.
Proof. exact reductions_programs. Qed.

Theorem C09_norm2_programs :
  forall (G : Symmetry) (R : Ring), GroupLaws G ->
  (forall a : RT R, rneg R (rneg R a) = a) ->
  rneg R (r0 R) = r0 R ->
  (forall a : RT R, rconj R (rneg R a) = rneg R (rconj R a)) ->
  (forall a : RT R, rmul R (rneg R a) (rconj R (rneg R a)) = rmul R a (rconj R a)) ->
  forall (p : list (lop G)) (x : farray G R),
  lwf G R x -> prog_ok G (ndim G R (fbase G R x)) p ->
  f_norm2 G R (run_ops G R p x) = f_norm2 G R (run_ops G R p (f_phase_sync G R x)).
Proof. exact norm2_programs. Qed.

(* ---- 6. why the synchronisation is needed: the inherited methods OBSERVE the pending signs
        (item before fix 5ee262a; sum / max / min / abs before fix 539bade) ---- *)
Theorem C09_item_raw_observes_sign :
  exists x : farray Z2 ZRing, f_item_raw Z2 ZRing x <> f_item_raw Z2 ZRing (f_phase_sync Z2 ZRing x).
Proof. exact ReduceExamples.item_raw_observes_sign. Qed.

Theorem C09_sum_raw_observes_sign :
  exists x : farray Z2 ZRing, f_sum_raw Z2 ZRing x <> f_sum_raw Z2 ZRing (f_phase_sync Z2 ZRing x).
Proof. exact ReduceExamples.sum_raw_observes_sign. Qed.

Theorem C09_max_raw_observes_sign :
  exists x : farray Z2 ZRing, f_max_raw Z2 ZRing z_leb x <> f_max_raw Z2 ZRing z_leb (f_phase_sync Z2 ZRing x).
Proof. exact ReduceExamples.max_raw_observes_sign. Qed.

Theorem C09_min_raw_observes_sign :
  exists x : farray Z2 ZRing, f_min_raw Z2 ZRing z_leb x <> f_min_raw Z2 ZRing z_leb (f_phase_sync Z2 ZRing x).
Proof. exact ReduceExamples.min_raw_observes_sign. Qed.

Theorem C09_abs_raw_observes_sign :
  exists x : farray Z2 ZRing,
    f_value Z2 ZRing (f_abs_raw Z2 x) <> f_value Z2 ZRing (f_abs_raw Z2 (f_phase_sync Z2 ZRing x)).
Proof. exact ReduceExamples.abs_raw_observes_sign. Qed.

Print Assumptions C09_item_congr.
Print Assumptions C09_sum_congr.
Print Assumptions C09_max_congr.
Print Assumptions C09_min_congr.
Print Assumptions C09_unary_congr.
Print Assumptions C09_abs_congr.
Print Assumptions C09_abs_congr_equiv.
Print Assumptions C09_clip_congr.
Print Assumptions C09_norm2_congr.
Print Assumptions C09_norm2_congr_ZRing.
Print Assumptions C09_norm2_congr_GRing.
Print Assumptions C09_item_sync.
Print Assumptions C09_sum_sync.
Print Assumptions C09_max_sync.
Print Assumptions C09_min_sync.
Print Assumptions C09_unary_sync.
Print Assumptions C09_abs_sync.
Print Assumptions C09_clip_sync.
Print Assumptions C09_norm2_sync.
Print Assumptions C09_item_spec.
Print Assumptions C09_item_value.
Print Assumptions C09_item_vs_raw.
Print Assumptions C09_item_dense.
Print Assumptions C09_sum_value.
Print Assumptions C09_unary_value.
Print Assumptions C09_unary_phases_empty.
Print Assumptions C09_unary_even.
Print Assumptions C09_abs_vs_raw.
Print Assumptions C09_item_raw_sync.
Print Assumptions C09_norm2_sign_blind.
Print Assumptions C09_norm2_value.
Print Assumptions C09_norm2_signmap.
Print Assumptions C09_norm2_sign_blind_ZRing.
Print Assumptions C09_norm2_sign_blind_GRing.
Print Assumptions C09_abs2_neg_of_laws.
Print Assumptions C09_reductions_programs.
Print Assumptions C09_norm2_programs.
Print Assumptions C09_item_raw_observes_sign.
Print Assumptions C09_sum_raw_observes_sign.
Print Assumptions C09_max_raw_observes_sign.
Print Assumptions C09_min_raw_observes_sign.
Print Assumptions C09_abs_raw_observes_sign.
