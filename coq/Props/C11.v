(* Props/C11.v — property C11: decompositions reconstruct the input from properly
   structured factors.  ONLY restatements of lemmas of Proofs/LinalgProofs.v.

   Shape of every theorem: ORACLE CONTRACT (per-block LAPACK routine, a function
   parameter with explicit hypotheses: shapes of the factors, factor product = block)
   => BLOCK-SPARSE CONTRACT of Model/Linalg.v (the bookkeeping of symmray.linalg).
   `cltb_*` = the order on charge labels is a strict total order (true for the five
   built-in symmetries: TdotInst.builtin_cltb_irrefl/_trans, LinalgProofs.builtin_cltb_total).

   Reading adopted for "R blocks ... with non-negative real diagonal when stabilised":
   the STORED factor blocks are exactly the blocks the per-block routine returned
   (`ss_blocks_r` below: blocks r = [(c,c) |-> snd (qr_blk m)]), so orthonormality /
   triangularity / sign of the diagonal of each stored block are inherited verbatim from
   LAPACK.  For fermionic inputs whose second index is ket-like R additionally carries a
   PENDING sign on odd sectors (Model.Linalg.flip0_if_dual); its VALUE then has a negative
   diagonal there, and the contraction q @ r removes that sign again:
   C11_fermionic_flips_cancel / C11_fermionic_reconstruct below.

   Not proved in Coq (checked on the implementation by harness/c11.py with a tolerance):
   eigh reconstruction v.diag(w).v^H = x and the sign put into odd eigenvalues by the fermionic
   eigh; the fermionic u.diag(s).vh product (the q.r form is proved for any per-block
   factorisation, C11_fermionic_reconstruct); numerical properties of LAPACK itself (assumed). *)
From SV Require Import Base.Prelude Base.Sym Base.Tensor Gen.PhasePerm Model.Sectors Model.Array Model.Arith Model.Wf Model.Fermi Model.Linalg
  Proofs.Tdot Proofs.LinalgProofs.
From Coq Require Import Permutation.
Local Open Scope nat_scope.

(* no dict entry is overwritten: in a valid matrix the column charge determines the row charge *)
Theorem C11_column_charge_determines_block :
  forall (G : Symmetry) (HG : GroupLaws G) (R : Ring) (x : aarray G R),
    wf_array G R x = true -> ndim G R x = 2 ->
    NoDup (map (fun sb : list (C G) * tensor R => col_charge G (fst sb)) (blocks G R x)).
Proof. exact cols_nodup_wf. Qed.

Theorem C11_qr_structure :
  forall (G : Symmetry) (HG : GroupLaws G) (R : Ring)
    (cltb_trans : forall a b c : C G, cltb G a b = true -> cltb G b c = true -> cltb G a c = true)
    (cltb_total : forall a b : C G, a <> b -> cltb G a b = true \/ cltb G b a = true)
    (qr_blk : tensor R -> tensor R * tensor R) (qr_shapes : split_shapes R qr_blk) (x : aarray G R),
    wf_array G R x = true -> ndim G R x = 2 ->
    exists q r, a_qr G R qr_blk x = Some (q, r) /\ split_spec G R qr_blk x q r.
Proof. exact qr_structure. Qed.

Theorem C11_qr_reconstruct :
  forall (G : Symmetry) (HG : GroupLaws G) (R : Ring) (RL : SumLaws R)
    (cltb_irrefl : forall c : C G, cltb G c c = false)
    (cltb_trans : forall a b c : C G, cltb G a b = true -> cltb G b c = true -> cltb G a c = true)
    (cltb_total : forall a b : C G, a <> b -> cltb G a b = true \/ cltb G b a = true)
    (qr_blk : tensor R -> tensor R * tensor R) (qr_shapes : split_shapes R qr_blk) (x q r : aarray G R),
    wf_array G R x = true -> ndim G R x = 2 ->
    (forall s m, In (s, m) (blocks G R x) -> split_product R qr_blk m) ->
    a_qr G R qr_blk x = Some (q, r) ->
    forall l rr, coords_ok G [ix0 G R x] [l] = true -> coords_ok G [ix1 G R x] [rr] = true ->
    exists res, a_matmul G R q r = Some res /\ sem G R res [l; rr] = sem G R x [l; rr].
Proof. exact qr_reconstruct. Qed.

Theorem C11_svd_structure :
  forall (G : Symmetry) (HG : GroupLaws G) (R : Ring)
    (cltb_trans : forall a b c : C G, cltb G a b = true -> cltb G b c = true -> cltb G a c = true)
    (cltb_total : forall a b : C G, a <> b -> cltb G a b = true \/ cltb G b a = true)
    (svd_blk : tensor R -> tensor R * tensor R * tensor R) (Hshapes : svd_shapes R svd_blk) (x : aarray G R),
    wf_array G R x = true -> ndim G R x = 2 ->
    exists u s vh, a_svd G R svd_blk x = Some (u, s, vh) /\ split_spec G R (svd_uv R svd_blk) x u vh /\
      s = map (fun sb => (col_charge G (fst sb), svd_s R svd_blk (snd sb))) (blocks G R x) /\
      NoDup (map fst s).
Proof. exact svd_structure. Qed.

Theorem C11_svd_reconstruct :
  forall (G : Symmetry) (HG : GroupLaws G) (R : Ring) (RL : SumLaws R)
    (cltb_irrefl : forall c : C G, cltb G c c = false)
    (cltb_trans : forall a b c : C G, cltb G a b = true -> cltb G b c = true -> cltb G a c = true)
    (cltb_total : forall a b : C G, a <> b -> cltb G a b = true \/ cltb G b a = true)
    (svd_blk : tensor R -> tensor R * tensor R * tensor R) (Hshapes : svd_shapes R svd_blk)
    (x u : aarray G R) (s : bvec G R) (vh : aarray G R),
    wf_array G R x = true -> ndim G R x = 2 ->
    (forall sec m, In (sec, m) (blocks G R x) -> svd_product R svd_blk m) ->
    a_svd G R svd_blk x = Some (u, s, vh) ->
    forall l rr, coords_ok G [ix0 G R x] [l] = true -> coords_ok G [ix1 G R x] [rr] = true ->
    exists res, a_matmul G R (a_multiply_diagonal G R u s 1) vh = Some res /\
                sem G R res [l; rr] = sem G R x [l; rr].
Proof. exact svd_reconstruct. Qed.

Theorem C11_eigh_structure :
  forall (G : Symmetry) (HG : GroupLaws G) (R : Ring) (eigh_blk : tensor R -> tensor R * tensor R) (a : aarray G R),
    wf_array G R a = true -> ndim G R a = 2 -> charge G R a = ident G ->
    (forall s m, In (s, m) (blocks G R a) -> nth 0 (tshape m) 0 = nth 1 (tshape m) 0) ->
    eigh_shapes R eigh_blk ->
    exists w v, a_eigh G R eigh_blk a = Some (w, v) /\
      indices G R v = indices G R a /\ charge G R v = charge G R a /\ sectors G R v = sectors G R a /\
      blocks G R v = map (fun sb => (fst sb, snd (eigh_blk (snd sb)))) (blocks G R a) /\
      w = map (fun sb => (col_charge G (fst sb), fst (eigh_blk (snd sb)))) (blocks G R a) /\ NoDup (map fst w) /\
      (forall s m, In (s, m) (blocks G R a) -> tshape (fst (eigh_blk m)) = [size_of G (ix1 G R a) (col_charge G s)]) /\
      wf_array G R v = true.
Proof. exact eigh_structure. Qed.

(* solve: right charge, valid, and the system is satisfied on the stored sectors *)
Theorem C11_solve_spec :
  forall (G : Symmetry) (HG : GroupLaws G) (R : Ring) (RL : SumLaws R)
    (cltb_irrefl : forall c : C G, cltb G c c = false)
    (cltb_trans : forall a b c : C G, cltb G a b = true -> cltb G b c = true -> cltb G a c = true)
    (solve_blk : tensor R -> tensor R -> tensor R) (a b : aarray G R) (i0 i1 ib : index G),
    wf_array G R a = true -> mat_ok G R a i0 i1 -> vec_ok G R b ib ->
    chargemap G ib = chargemap G i0 -> idual G ib = idual G i0 ->
    (forall s m, In (s, m) (blocks G R a) -> nth 0 (tshape m) 0 = nth 1 (tshape m) 0) ->
    solve_shapes R solve_blk -> wf_index G (iconj G i1) = true ->
    (forall c0 c1 m bb, In ([c0; c1], m) (blocks G R a) -> In ([c0], bb) (blocks G R b) -> solve_product R solve_blk m bb) ->
    a_solve G R solve_blk a b = Some (solve_arr G R solve_blk a b i1) /\
    charge G R (solve_arr G R solve_blk a b i1) = combine G [charge G R b; sign G (charge G R a) true] /\
    indices G R (solve_arr G R solve_blk a b i1) = [iconj G i1] /\
    wf_array G R (solve_arr G R solve_blk a b i1) = true /\
    forall l, coords_ok G [i0] [l] = true ->
      (exists c1 m, In ([fst l; c1], m) (blocks G R a)) \/ lookup (list_eqb (ceqb G)) [fst l] (blocks G R b) = None ->
      exists res, a_matmul G R a (solve_arr G R solve_blk a b i1) = Some res /\
                  charge G R res = combine G [charge G R a; charge G R (solve_arr G R solve_blk a b i1)] /\
                  sem G R res [l] = sem G R b [l].
Proof. exact solve_spec. Qed.

(* fermionic qr / svd.  The phase_flip(0) on R / Vh is exactly the sign the fermionic matrix
   product puts on a right operand whose first index is dual: the two cancel ... *)
Theorem C11_fermionic_flips_cancel :
  forall (G : Symmetry) (HG : GroupLaws G) (R : Ring)
    (rneg_invol : forall a : RT R, rneg R (rneg R a) = a) (r0 : aarray G R),
    NoDup (sectors G R r0) ->
    f_value G R (matmul_right_view G R (flip0_if_dual G R (mkF G R r0 [] []))) = r0.
Proof. exact flips_cancel. Qed.

(* ... so q @ r (the model of FermionicArray.__matmul__) has the labels and, at value level
   (pending signs of x applied), the entries of x.  f_qr = f_split qr_blk; `resolve_oddpos ...`
   holds whenever x carries at most one label (C11_labels_resolved). *)
Theorem C11_fermionic_reconstruct :
  forall (G : Symmetry) (HG : GroupLaws G) (R : Ring) (RL : SumLaws R)
    (cltb_irrefl : forall c : C G, cltb G c c = false)
    (cltb_trans : forall a b c : C G, cltb G a b = true -> cltb G b c = true -> cltb G a c = true)
    (cltb_total : forall a b : C G, a <> b -> cltb G a b = true \/ cltb G b a = true)
    (rneg_invol : forall a : RT R, rneg R (rneg R a) = a)
    (rneg_zero : rneg R (r0 R) = r0 R)
    (rneg_add : forall a b : RT R, rneg R (radd R a b) = radd R (rneg R a) (rneg R b))
    (rmul_neg_l : forall a b : RT R, rmul R (rneg R a) b = rneg R (rmul R a b))
    (f : tensor R -> tensor R * tensor R) (x q r : farray G R) (l rr : coord G),
    wf_array G R (fbase G R x) = true -> ndim G R (fbase G R x) = 2 -> split_shapes R f ->
    (forall s m, In (s, m) (blocks G R (fbase G R x)) -> split_product R f m) ->
    f_split G R f x = Some (q, r) ->
    resolve_oddpos (fparity G R x) (foddpos G R x) [] = Some (false, foddpos G R x) ->
    coords_ok G [ix0 G R (fbase G R x)] [l] = true -> coords_ok G [ix1 G R (fbase G R x)] [rr] = true ->
    exists y, f_matmul G R q r = Some y /\ foddpos G R y = foddpos G R x /\
              sem G R (f_value G R y) [l; rr] = sem G R (f_value G R x) [l; rr].
Proof. exact f_split_matmul. Qed.

Theorem C11_labels_resolved :
  forall (p : bool) (l : list fop), (length l <= 1)%nat -> resolve_oddpos p l [] = Some (false, l).
Proof. exact resolve_at_most_one. Qed.

(* what wf_array gives for the hypotheses mat_ok / vec_ok above *)
Theorem C11_wf_gives_mat_ok :
  forall (G : Symmetry) (HG : GroupLaws G) (R : Ring) (x : aarray G R),
    wf_array G R x = true -> ndim G R x = 2 -> mat_ok G R x (ix0 G R x) (ix1 G R x).
Proof. exact wf_mat. Qed.

Theorem C11_wf_gives_vec_ok :
  forall (G : Symmetry) (HG : GroupLaws G) (R : Ring) (b : aarray G R),
    wf_array G R b = true -> ndim G R b = 1 -> vec_ok G R b (nth 0 (indices G R b) (dflt_index G)).
Proof. exact wf_vec. Qed.

Print Assumptions C11_column_charge_determines_block.
Print Assumptions C11_qr_structure.
Print Assumptions C11_qr_reconstruct.
Print Assumptions C11_svd_structure.
Print Assumptions C11_svd_reconstruct.
Print Assumptions C11_eigh_structure.
Print Assumptions C11_solve_spec.
Print Assumptions C11_fermionic_flips_cancel.
Print Assumptions C11_fermionic_reconstruct.
Print Assumptions C11_labels_resolved.
Print Assumptions C11_wf_gives_mat_ok.
Print Assumptions C11_wf_gives_vec_ok.
