(* Props/C06.v — under construction *)
From SV Require Import Base.Prelude.
