(* Props/C06.v — property C06: contraction commutes with fusing, and all
   contraction strategies agree.  Statements only; proofs live in
   Proofs/FusedProofs.v (on top of Proofs/Tdot.v for C02 and Proofs/FuseProofs.v
   for C05).  The fused strategy is `Model/Fused.v` tdot_fused2: align the
   operands' sectors, fuse both operands into matrices, blockwise product of the
   fused pair, unfuse exactly the legs fused here.

   Proved here, for every symmetry G with GroupLaws G (and OrderLaws G where the
   sorted sub-sector order is used), every ring, all ranks, all tables:

   1. ALIGNMENT ("operands whose present sectors differ").  Dropping the blocks
      whose contracted sub-sector the partner lacks (drop_misaligned) does not
      change the list of block pairs of the blockwise contraction, hence not its
      accumulated blocks, charge or pruned index tables: full record equality.
      Alignment is idempotent, so BOTH strategies factor through the aligned pair.
   2. SAME LAYOUT.  After alignment both operands see the same set of contracted
      sub-sectors; the sorted (sub-sector, fused charge, size) lists of the two
      fused contracted legs coincide, so the two fused legs have the same chargemap
      and the same extents (same sub-sectors, same order, same sizes under the
      same fused charge), the same sub-sector ranges, and opposite directions.
      The fused CHARGES are equal (not inverse): each side signs its sub-charges
      relative to the direction of its own first contracted leg, and those first
      legs are mutually opposite.  Consequently the two fused operands handed to
      the matrix product (one leg per group) are again a contractible pair.
   3. FUSED vs BLOCKWISE.  Same total charge always; when an aligned operand has
      no block left the two strategies return the same record (no blocks).
   4. MODES.  `auto` is blockwise when no axis is contracted and fused otherwise.

   NOT proved (see C06_fused_eq_blockwise_full at the end): the value-level
   agreement of the two strategies when blocks remain.  That needs the value
   semantics of fuse_core for TWO groups at once ([free axes; contracted axes]),
   which C05 proves for one group only.  Full record equality is false in
   general: with two or more free legs on both sides the fused strategy stores
   additional all-zero blocks (Proofs/FusedProofs.v, ExC06.extra_zero_blocks). *)
From SV Require Import Base.Prelude Base.Sym Base.Tensor Model.Sectors Model.Array Model.Wf Model.Fused
  Model.SymInst Proofs.SymLaws Proofs.Tdot Proofs.OrderProofs Proofs.FuseProofs Proofs.FusedProofs.
Local Open Scope nat_scope.

(* ---- 1: alignment ---- *)
(* al_a / al_b are the two components of drop_misaligned *)
Theorem C06_aligned_pair :
  forall (G : Symmetry) (R : Ring) (a b : aarray G R) (aa ab : list nat),
  drop_misaligned G R a b aa ab = (al_a G R a b aa ab, al_b G R a b aa ab).
Proof. exact drop_misaligned_pair. Qed.

Theorem C06_drop_misaligned_pairs :
  forall (G : Symmetry) (R : Ring), (forall x y : C G, ceqb G x y = true <-> x = y) ->
  forall (a b : aarray G R) (la aa ab rb : list nat),
  tdot_pairs G R (al_a G R a b aa ab) (al_b G R a b aa ab) la aa ab rb = tdot_pairs G R a b la aa ab rb.
Proof. exact drop_misaligned_pairs. Qed.

Theorem C06_drop_misaligned_blockwise :
  forall (G : Symmetry) (R : Ring), (forall x y : C G, ceqb G x y = true <-> x = y) ->
  forall (a b : aarray G R) (la aa ab rb : list nat),
  la = rest_axes (ndim G R a) aa -> rb = rest_axes (ndim G R b) ab ->
  tdot_blockwise G R (al_a G R a b aa ab) (al_b G R a b aa ab) la aa ab rb = tdot_blockwise G R a b la aa ab rb.
Proof. exact drop_misaligned_blockwise. Qed.

Theorem C06_drop_misaligned_idempotent :
  forall (G : Symmetry) (R : Ring), GroupLaws G ->
  forall (a b : aarray G R) (aa ab : list nat),
  drop_misaligned G R (al_a G R a b aa ab) (al_b G R a b aa ab) aa ab = (al_a G R a b aa ab, al_b G R a b aa ab).
Proof. exact drop_misaligned_idem. Qed.

Theorem C06_strategies_factor_through_aligned :
  forall (G : Symmetry) (R : Ring), GroupLaws G ->
  forall (a b : aarray G R) (la aa ab rb : list nat),
  la = rest_axes (ndim G R a) aa -> rb = rest_axes (ndim G R b) ab ->
  tdot_fused2 G R a b la aa ab rb = tdot_fused2 G R (al_a G R a b aa ab) (al_b G R a b aa ab) la aa ab rb /\
  tdot_blockwise G R a b la aa ab rb = tdot_blockwise G R (al_a G R a b aa ab) (al_b G R a b aa ab) la aa ab rb.
Proof. exact strategies_factor_through_aligned. Qed.

(* ---- 2: both operands build the same fused contracted leg ---- *)
Theorem C06_aligned_same_subsectors :
  forall (G : Symmetry) (R : Ring), GroupLaws G ->
  forall (a b : aarray G R) (aa ab : list nat) (s : list (C G)),
  In s (map (fun k => take_axes (ident G) k aa) (sectors G R (al_a G R a b aa ab))) <->
  In s (map (fun k => take_axes (ident G) k ab) (sectors G R (al_b G R a b aa ab))).
Proof. exact aligned_same_subsectors. Qed.

Theorem C06_aligned_subsectors_are_common :
  forall (G : Symmetry) (R : Ring), GroupLaws G ->
  forall (a b : aarray G R) (aa ab : list nat) (s : list (C G)),
  In s (map (fun k => take_axes (ident G) k aa) (sectors G R (al_a G R a b aa ab))) <->
  In s (map (fun k => take_axes (ident G) k aa) (sectors G R a)) /\
  In s (map (fun k => take_axes (ident G) k ab) (sectors G R b)).
Proof. exact con_subs_al_a. Qed.

Theorem C06_aligned_has_partner :
  forall (G : Symmetry) (R : Ring), GroupLaws G ->
  forall (a b : aarray G R) (aa ab : list nat) (sa : list (C G) * tensor R),
  In sa (blocks G R (al_a G R a b aa ab)) ->
  exists sb, In sb (blocks G R (al_b G R a b aa ab)) /\
             take_axes (ident G) (fst sa) aa = take_axes (ident G) (fst sb) ab.
Proof. exact aligned_has_partner. Qed.

(* table level, any two operands: same sub-sector sets, same relative directions and
   same sizes on the charges that occur give the same sorted sub-sector list *)
Theorem C06_subinfos_agree :
  forall G : Symmetry, GroupLaws G -> OrderLaws G ->
  forall (ixa ixb : list (index G)) (secsA secsB : list (list (C G))) (aa ab : list nat),
  length aa = length ab ->
  (forall ss, In ss (map (fun s => take_axes (ident G) s aa) secsA) <->
              In ss (map (fun s => take_axes (ident G) s ab) secsB)) ->
  (forall k, k < length aa ->
     Bool.eqb (idual G (leg G ixa aa 0)) (idual G (leg G ixa aa k)) =
     Bool.eqb (idual G (leg G ixb ab 0)) (idual G (leg G ixb ab k))) ->
  (forall k ss, k < length aa -> In ss (map (fun s => take_axes (ident G) s aa) secsA) ->
     size_of G (leg G ixa aa k) (nth k ss (ident G)) = size_of G (leg G ixb ab k) (nth k ss (ident G))) ->
  group_subinfos G ixa secsA aa = group_subinfos G ixb secsB ab.
Proof. exact subinfos_agree. Qed.

Theorem C06_fused_tables_agree :
  forall G : Symmetry, GroupLaws G -> OrderLaws G ->
  forall (ixa ixb : list (index G)) (secsA secsB : list (list (C G))) (aa ab : list nat),
  length aa = length ab ->
  (forall ss, In ss (map (fun s => take_axes (ident G) s aa) secsA) <->
              In ss (map (fun s => take_axes (ident G) s ab) secsB)) ->
  (forall k, k < length aa ->
     Bool.eqb (idual G (leg G ixa aa 0)) (idual G (leg G ixa aa k)) =
     Bool.eqb (idual G (leg G ixb ab 0)) (idual G (leg G ixb ab k))) ->
  (forall k ss, k < length aa -> In ss (map (fun s => take_axes (ident G) s aa) secsA) ->
     size_of G (leg G ixa aa k) (nth k ss (ident G)) = size_of G (leg G ixb ab k) (nth k ss (ident G))) ->
  is_singlet aa = false ->
  let fa := fused_index G ixa secsA aa in
  let fb := fused_index G ixb secsB ab in
  chargemap G fa = chargemap G fb /\
  (exists ext, isub G fa = Some (map (fun ax => nth ax ixa (dflt_index G)) aa, ext) /\
               isub G fb = Some (map (fun ax => nth ax ixb (dflt_index G)) ab, ext)) /\
  idual G fa = idual G (leg G ixa aa 0) /\ idual G fb = idual G (leg G ixb ab 0) /\
  (forall c, size_of G fa c = size_of G fb c) /\
  (forall c ss, sub_range G fa c ss = sub_range G fb c ss).
Proof. exact fused_tables_agree. Qed.

(* the operands of a contraction: contracted legs with the same table and opposite
   directions (legs_match); sectors may differ arbitrarily *)
Theorem C06_aligned_fused_tables :
  forall (G : Symmetry) (R : Ring), GroupLaws G -> OrderLaws G ->
  forall (a b : aarray G R) (aa ab : list nat),
  legs_match G R a b aa ab -> 2 <= length aa ->
  let a1 := al_a G R a b aa ab in
  let b1 := al_b G R a b aa ab in
  let fa := fused_index G (indices G R a1) (sectors G R a1) aa in
  let fb := fused_index G (indices G R b1) (sectors G R b1) ab in
  chargemap G fa = chargemap G fb /\
  (exists ext, isub G fa = Some (map (fun ax => nth ax (indices G R a1) (dflt_index G)) aa, ext) /\
               isub G fb = Some (map (fun ax => nth ax (indices G R b1) (dflt_index G)) ab, ext)) /\
  idual G fa = negb (idual G fb) /\
  idual G fa = idual G (leg G (indices G R a) aa 0) /\
  (forall c, size_of G fa c = size_of G fb c) /\
  (forall c ss, sub_range G fa c ss = sub_range G fb c ss) /\
  (forall sa sb, In sa (sectors G R a1) -> take_axes (ident G) sa aa = take_axes (ident G) sb ab ->
     group_charge G (indices G R a1) sa aa = group_charge G (indices G R b1) sb ab /\
     group_size G (indices G R a1) sa aa = group_size G (indices G R b1) sb ab).
Proof. exact aligned_fused_tables. Qed.

(* the fused operands handed to the matrix product: one leg per group, and their
   contracted legs match again (same chargemap, opposite directions) *)
Theorem C06_fuse_all_axes_indices :
  forall (G : Symmetry) (R : Ring) (x : aarray G R) (groups : list (list nat)),
  (forall ax, ax < ndim G R x -> In ax (concat groups)) ->
  Forall (fun ax => ax < ndim G R x) (concat groups) ->
  filter (fun g => negb (is_nil g)) groups <> [] ->
  indices G R (a_fuse_noexpand G R x groups) =
  map (fused_index G (indices G R x) (sectors G R x)) (filter (fun g => negb (is_nil g)) groups).
Proof. exact fuse_all_axes_indices. Qed.

Theorem C06_fused_pair_legs_match :
  forall (G : Symmetry) (R : Ring), GroupLaws G -> OrderLaws G ->
  forall (a b : aarray G R) (la aa ab rb : list nat),
  legs_match G R a b aa ab -> 2 <= length aa ->
  la = rest_axes (ndim G R a) aa -> rb = rest_axes (ndim G R b) ab ->
  let af := a_fuse_noexpand G R (al_a G R a b aa ab) [la; aa] in
  let bf := a_fuse_noexpand G R (al_b G R a b aa ab) [ab; rb] in
  legs_match G R af bf (if is_nil la then [0] else [1]) [0] /\
  ndim G R af = (if is_nil la then 1 else 2) /\ ndim G R bf = (if is_nil rb then 1 else 2).
Proof. exact fused_pair_legs_match. Qed.

(* ---- 3: fused against blockwise ---- *)
Theorem C06_fused_charge :
  forall (G : Symmetry) (R : Ring) (a b : aarray G R) (la aa ab rb : list nat),
  charge G R (tdot_fused2 G R a b la aa ab rb) = charge G R (tdot_blockwise G R a b la aa ab rb).
Proof. exact fused_charge. Qed.

Theorem C06_fused_eq_blockwise_empty_partial :
  forall (G : Symmetry) (R : Ring), GroupLaws G ->
  forall (a b : aarray G R) (la aa ab rb : list nat),
  la = rest_axes (ndim G R a) aa -> rb = rest_axes (ndim G R b) ab ->
  is_nil (blocks G R (al_a G R a b aa ab)) || is_nil (blocks G R (al_b G R a b aa ab)) = true ->
  tdot_fused2 G R a b la aa ab rb = tdot_blockwise G R a b la aa ab rb /\
  blocks G R (tdot_blockwise G R a b la aa ab rb) = [].
Proof. exact fused_eq_blockwise_empty. Qed.

(* ---- 4: modes ---- *)
Theorem C06_tensordot_modes :
  forall (G : Symmetry) (R : Ring) (a b : aarray G R) (axes : nat + (list Z * list Z)) (aa ab : list nat),
  parse_axes (ndim G R a) (ndim G R b) axes = Some (aa, ab) ->
  let la := rest_axes (ndim G R a) aa in
  let rb := rest_axes (ndim G R b) ab in
  a_tensordot2 G R a b axes MBlockwise = Some (tdot_blockwise G R a b la aa ab rb) /\
  a_tensordot2 G R a b axes MFused = Some (tdot_fused2 G R a b la aa ab rb) /\
  a_tensordot2 G R a b axes MAuto =
    (if is_nil aa then a_tensordot2 G R a b axes MBlockwise else a_tensordot2 G R a b axes MFused).
Proof. exact tensordot2_modes. Qed.

Theorem C06_tensordot_bad_axes :
  forall (G : Symmetry) (R : Ring) (a b : aarray G R) (axes : nat + (list Z * list Z)) (m : tmode),
  parse_axes (ndim G R a) (ndim G R b) axes = None -> a_tensordot2 G R a b axes m = None.
Proof. exact tensordot2_none. Qed.

(* ---- full statement, NOT proved ----
   Missing relative to the theorems above: for operands that keep blocks after the
   alignment, that the fused strategy returns the same values as the blockwise one.
   By C06_strategies_factor_through_aligned it suffices to show it for the aligned
   pair, whose fused contracted legs have identical layouts by
   C06_aligned_fused_tables.  What is still needed: (a) drop_misaligned preserves
   wf_array; (b) the layout / value semantics of fuse_core for the two groups
   [free axes; contracted axes] at once (C05 covers one group); (c) the product of
   the fused matrices summed over each fused charge's range = the sum over its
   sub-sectors of the original block products; (d) unfuse of the product's free
   legs (C05 round trip).  The statement compares values, rank, charge and index
   tables; the stored sector SETS differ in general (extra all-zero blocks in the
   fused result, ExC06.extra_zero_blocks). *)
Definition C06_fused_eq_blockwise_full : Prop :=
  forall (G : Symmetry) (R : Ring), GroupLaws G -> OrderLaws G -> SumLaws R ->
  forall (a b : aarray G R) (la aa ab rb : list nat),
  wf_array G R a = true -> wf_array G R b = true ->
  axes_ok (ndim G R a) aa = true -> axes_ok (ndim G R b) ab = true ->
  legs_match G R a b aa ab ->
  la = rest_axes (ndim G R a) aa -> rb = rest_axes (ndim G R b) ab ->
  let f := tdot_fused2 G R a b la aa ab rb in
  let w := tdot_blockwise G R a b la aa ab rb in
  charge G R f = charge G R w /\
  indices G R f = indices G R w /\
  forall cs, sem G R f cs = sem G R w cs.

Definition C06_all_modes_agree_full : Prop :=
  forall (G : Symmetry) (R : Ring), GroupLaws G -> OrderLaws G -> SumLaws R ->
  forall (a b : aarray G R) (axes : nat + (list Z * list Z)) (aa ab : list nat) (m1 m2 : tmode),
  parse_axes (ndim G R a) (ndim G R b) axes = Some (aa, ab) ->
  wf_array G R a = true -> wf_array G R b = true ->
  axes_ok (ndim G R a) aa = true -> axes_ok (ndim G R b) ab = true ->
  legs_match G R a b aa ab ->
  exists r1 r2, a_tensordot2 G R a b axes m1 = Some r1 /\ a_tensordot2 G R a b axes m2 = Some r2 /\
    charge G R r1 = charge G R r2 /\ indices G R r1 = indices G R r2 /\
    forall cs, sem G R r1 cs = sem G R r2 cs.

Definition C06_alignment_preserves_wf_full : Prop :=
  forall (G : Symmetry) (R : Ring), GroupLaws G -> OrderLaws G ->
  forall (a b : aarray G R) (aa ab : list nat),
  wf_array G R a = true -> wf_array G R b = true ->
  wf_array G R (al_a G R a b aa ab) = true /\ wf_array G R (al_b G R a b aa ab) = true.

Print Assumptions C06_aligned_pair.
Print Assumptions C06_drop_misaligned_pairs.
Print Assumptions C06_drop_misaligned_blockwise.
Print Assumptions C06_drop_misaligned_idempotent.
Print Assumptions C06_strategies_factor_through_aligned.
Print Assumptions C06_aligned_same_subsectors.
Print Assumptions C06_aligned_subsectors_are_common.
Print Assumptions C06_aligned_has_partner.
Print Assumptions C06_subinfos_agree.
Print Assumptions C06_fused_tables_agree.
Print Assumptions C06_aligned_fused_tables.
Print Assumptions C06_fuse_all_axes_indices.
Print Assumptions C06_fused_pair_legs_match.
Print Assumptions C06_fused_charge.
Print Assumptions C06_fused_eq_blockwise_empty_partial.
Print Assumptions C06_tensordot_modes.
Print Assumptions C06_tensordot_bad_axes.
