(* Props/C04d.v — property C04, continuation: the two statements that Props/C04c.v
   keeps as unproved Definitions are theorems.  Statements only; proofs live in
   Proofs/OneByOneProofs.v (on top of Props/C04b.v / C04c.v for the routes, C03b.v
   for the element formula in all modes, C06b.v for fused = blockwise, C02.v for
   the abelian einsum).

   Vocabulary as in Props/C04b.v and Props/C04c.v (wf_fermi, V, pair_ok, naxes,
   distinct, CommLaws, free_ixs, second_pair, trace_lhs, trace_rhs), plus
     trace_perm ixs pa pb   the order in which the fermionic einsum lists the axes of
                            a one-pair trace: the traced pair first, its bra leg before
                            its ket leg, then the other axes in their order
     wsg par w              the sign of the word w of axes: parity of the number of
                            inversions between odd axes (Proofs/RouteProofs.v)
     legs_compat a b aa ab  the contracted legs have opposite directions and give the
                            same size to every charge BOTH tables list (one table may
                            be the other with unused charges dropped); legs_match
                            (equal tables, C06) is the special case
     tabs_compat            the same on fermionic arrays (sizes only).

   A. SEVERAL INDICES AT ONCE, OR ONE AFTER ANOTHER.  C04_one_by_one (= the
      Definition C04_one_by_one_full of Props/C04c.v, C04_one_by_one_full_proved):
      contracting a and b over the pairs (i1, j1), (i2, j2) in one call, in any mode,
      equals contracting over (i1, j1), in any mode, and tracing the pair (i2, j2) of
      the result with the fermionic einsum: same labels, same value at every
      coordinate of the free legs.  Ingredients:
        C04_einsum_order_trace    the einsum's axis order for "..x..x..->....";
        C04_einsum_trace_element  the value of that einsum: the sum over the traced
          coordinate of the values of the operand, each with the sign of the
          fermionic transposition that brings the pair to the front as (bra, ket);
        the sign identity (OneByOneProofs.ob_sign): this sign is the difference of the
          contraction signs of the one-call and the one-pair route, for ALL coordinates.
      The intermediate result carries pruned tables and, in fused mode, additional
      all-zero blocks; the proof reads it over the un-pruned tables (C04_unprune_wf).

   B. ASSOCIATIVITY, ANY MODES.  C04_assoc_chain_all_modes (= the Definition
      C04_assoc_chain_all_modes_full of Props/C04c.v,
      C04_assoc_chain_all_modes_full_proved): each of the four contractions of the
      chain a - b - c in its own mode.  The two ingredients named missing there:
        (i)  C04_fused_eq_blockwise_compat / C04_all_modes_agree_compat /
             C04_modes_agree_compat: the fused strategy agrees with the blockwise one
             (charge, tables, value at EVERY coordinate) as soon as the contracted
             legs' tables are compatible: after the alignment both tables are pruned to
             the common charges and coincide (C04_aligned_legs_match);
        (ii) C04_contract_observational: operands that are observationally equal to
             given ones (`lifted`: same labels, charge, tables, values; valid; their
             tables sub-tables of tables over which both are valid) contract, in any
             mode, to the same labels and the same values as the given ones blockwise.
   Both computed on Z2 and U1 instances, values compared at every coordinate
   (OneByOneProofs.OneByOneEx). *)
From SV Require Import Base.Prelude Base.Sym Base.Tensor Gen.OpOrder Model.Sectors Model.Array Model.Arith
  Model.Fermi Model.Fused Model.Graded Model.Oddpos Model.Wf Proofs.OrderProofs Proofs.OddposProofs Proofs.Tdot
  Proofs.WfProofs Proofs.FermiProofs Proofs.FusedProofs Proofs.RouteProofs Proofs.ModesProofs Proofs.OneByOneProofs Props.C04c.
From Coq Require Import Permutation.
Local Open Scope nat_scope.

(* ---- A. one pair after the other ---- *)
Theorem C04_einsum_order_trace :
  forall (n pa pb : nat), pa < pb -> pb < n ->
  forall (G : Symmetry) (ixs : list (index G)), length ixs = n ->
  idual G (nth pa ixs (dflt_index G)) = negb (idual G (nth pb ixs (dflt_index G))) ->
  isort (ekey_ltb G (trace_lhs n pa pb) (trace_rhs n) ixs) (seq 0 n)
  = (if idual G (nth pa ixs (dflt_index G)) then [pa; pb] else [pb; pa]) ++ rest_axes n [pa; pb].
Proof. exact einsum_order_trace. Qed.

Theorem C04_einsum_trace_element :
  forall (G : Symmetry), GroupLaws G -> OrderLaws G -> forall (R : Ring), NegLaws R -> SumLaws R ->
  forall (x : farray G R) (pa pb : nat),
  wf_array G R (fbase G R x) = true ->
  let ixs := indices G R (fbase G R x) in
  let n := ndim G R (fbase G R x) in
  pa < pb -> pb < n ->
  idual G (nth pa ixs (dflt_index G)) = negb (idual G (nth pb ixs (dflt_index G))) ->
  chargemap G (nth pa ixs (dflt_index G)) = chargemap G (nth pb ixs (dflt_index G)) ->
  exists e, f_einsum G R x (trace_lhs n pa pb) (trace_rhs n) = Some e /\
    forall co, coords_ok G (without_axes ixs [pa; pb]) co = true ->
      sem G R e co
      = rsum R (map (fun c => rsgn R (wsg (odd_at G (map fst (merge G n [pa; pb] co [c; c]))) (trace_perm G ixs pa pb))
                                     (V G R x (merge G n [pa; pb] co [c; c])))
                    (index_coords G (nth pa ixs (dflt_index G)))).
Proof. exact einsum_trace_element. Qed.

Theorem C04_unprune_wf :
  forall (G : Symmetry), GroupLaws G -> forall (R : Ring) (x : aarray G R) (ixs : list (index G)) (secs : list (list (C G))),
  IxsOK G ixs -> indices G R x = prune_indices G ixs secs -> wf_array G R x = true ->
  wf_array G R (mkA G R ixs (charge G R x) (blocks G R x)) = true.
Proof. exact unprune_wf. Qed.

Theorem C04_one_by_one :
  forall (G : Symmetry) (R : Ring) (m m1 : tmode),
  GroupLaws G -> OrderLaws G -> NegLaws R -> SumLaws R -> CommLaws R ->
  forall (a b : farray G R) (i1 i2 j1 j2 : nat),
  wf_fermi G R a = true -> wf_fermi G R b = true -> pair_ok G R a b [i1; i2] [j1; j2] ->
  distinct (foddpos G R a ++ foddpos G R b) ->
  let '(n1, pa, pb) := second_pair G R a b i1 i2 j1 j2 in
  exists y y1 e,
    f_tensordot2 G R a b (naxes [i1; i2] [j1; j2]) m = Some y
    /\ f_tensordot2 G R a b (naxes [i1] [j1]) m1 = Some y1
    /\ f_einsum G R y1 (trace_lhs n1 pa pb) (trace_rhs n1) = Some e
    /\ foddpos G R y1 = foddpos G R y
    /\ forall cl cr,
         coords_ok G (without_axes (indices G R (fbase G R a)) [i1; i2]) cl = true ->
         coords_ok G (without_axes (indices G R (fbase G R b)) [j1; j2]) cr = true ->
         sem G R e (cl ++ cr) = V G R y (cl ++ cr).
Proof. exact one_by_one_all. Qed.

Theorem C04_one_by_one_full_proved : C04_one_by_one_full.
Proof. exact one_by_one_all. Qed.

(* ---- B (i). compatible tables on the contracted legs ---- *)
Theorem C04_aligned_legs_match :
  forall (G : Symmetry), GroupLaws G -> OrderLaws G -> forall (R : Ring) (a b : aarray G R) (aa ab : list nat),
  wf_array G R a = true -> wf_array G R b = true -> legs_compat G R a b aa ab ->
  legs_match G R (al_a G R a b aa ab) (al_b G R a b aa ab) aa ab.
Proof. exact aligned_legs_match. Qed.

Theorem C04_fused_eq_blockwise_compat :
  forall (G : Symmetry), GroupLaws G -> OrderLaws G -> forall (R : Ring), SumLaws R ->
  forall (a b : aarray G R) (la aa ab rb : list nat),
  wf_array G R a = true -> wf_array G R b = true ->
  axes_ok (ndim G R a) aa = true -> axes_ok (ndim G R b) ab = true ->
  legs_compat G R a b aa ab ->
  la = rest_axes (ndim G R a) aa -> rb = rest_axes (ndim G R b) ab ->
  let f := tdot_fused2 G R a b la aa ab rb in
  let w := tdot_blockwise G R a b la aa ab rb in
  charge G R f = charge G R w /\ indices G R f = indices G R w /\ forall cs, sem G R f cs = sem G R w cs.
Proof. exact fused_eq_blockwise_compat. Qed.

Theorem C04_all_modes_agree_compat :
  forall (G : Symmetry), GroupLaws G -> OrderLaws G -> forall (R : Ring), SumLaws R ->
  forall (a b : aarray G R) (axes : nat + (list Z * list Z)) (aa ab : list nat) (m1 m2 : tmode),
  parse_axes (ndim G R a) (ndim G R b) axes = Some (aa, ab) ->
  wf_array G R a = true -> wf_array G R b = true ->
  axes_ok (ndim G R a) aa = true -> axes_ok (ndim G R b) ab = true ->
  legs_compat G R a b aa ab ->
  exists r1 r2, a_tensordot2 G R a b axes m1 = Some r1 /\ a_tensordot2 G R a b axes m2 = Some r2 /\
    charge G R r1 = charge G R r2 /\ indices G R r1 = indices G R r2 /\
    forall cs, sem G R r1 cs = sem G R r2 cs.
Proof. exact all_modes_agree_compat. Qed.

Theorem C04_modes_agree_compat :
  forall (G : Symmetry), GroupLaws G -> OrderLaws G -> forall (R : Ring), NegLaws R -> SumLaws R ->
  forall (a b : farray G R) (axes : nat + (list Z * list Z)) (aa ab : list nat) (m : tmode),
  wf_array G R (fbase G R a) = true -> wf_array G R (fbase G R b) = true ->
  parse_axes (ndim G R (fbase G R a)) (ndim G R (fbase G R b)) axes = Some (aa, ab) ->
  NoDup aa -> (forall i, In i aa -> i < ndim G R (fbase G R a)) ->
  NoDup ab -> (forall i, In i ab -> i < ndim G R (fbase G R b)) ->
  opposite_dirs G R a b aa ab -> tabs_compat G R a b aa ab ->
  forall y, f_tensordot G R a b axes MBlockwise = Some y ->
  exists y', f_tensordot2 G R a b axes m = Some y' /\ same_result G R y' y /\ wf_array G R (fbase G R y') = true
             /\ (wf_fermi G R y = true -> wf_fermi G R y' = true).
Proof. exact modes_agree_compat. Qed.

(* ---- B (ii). contraction of observationally equal operands, any mode ---- *)
Theorem C04_lifted_mode :
  forall (G : Symmetry), GroupLaws G -> OrderLaws G -> forall (R : Ring), NegLaws R -> SumLaws R ->
  forall (a b : farray G R) (aa ab : list nat) (m : tmode) (y : farray G R),
  wf_fermi G R a = true -> wf_fermi G R b = true -> pair_ok G R a b aa ab ->
  distinct (foddpos G R a ++ foddpos G R b) ->
  f_tensordot G R a b (naxes aa ab) MBlockwise = Some y ->
  exists y', f_tensordot2 G R a b (naxes aa ab) m = Some y' /\ lifted G R y' y (free_ixs G R a b aa ab).
Proof. exact lifted_mode. Qed.

Theorem C04_contract_observational :
  forall (G : Symmetry), GroupLaws G -> OrderLaws G -> forall (R : Ring), NegLaws R -> SumLaws R ->
  forall (x x' z z' : farray G R) (fx fz : list (index G)) (xx zz : list nat) (m : tmode),
  lifted G R x' x fx -> lifted G R z' z fz ->
  pair_ok G R (reindex G R x fx) (reindex G R z fz) xx zz ->
  forall y, f_tensordot G R x z (naxes xx zz) MBlockwise = Some y ->
  exists y', f_tensordot2 G R x' z' (naxes xx zz) m = Some y'
    /\ foddpos G R y' = foddpos G R y
    /\ forall cl cr, coords_ok G (without_axes fx xx) cl = true -> coords_ok G (without_axes fz zz) cr = true ->
         V G R y' (cl ++ cr) = V G R y (cl ++ cr).
Proof. exact contract_obs. Qed.

(* ---- B. associativity, each contraction in its own mode ---- *)
Theorem C04_assoc_chain_all_modes :
  forall (G : Symmetry), GroupLaws G -> OrderLaws G ->
  forall (R : Ring), NegLaws R -> SumLaws R -> CommLaws R ->
  forall (m1 m12 m2 m21 : tmode) (a b c : farray G R) (aa ab bb cb : list nat),
  wf_fermi G R a = true -> wf_fermi G R b = true -> wf_fermi G R c = true ->
  pair_ok G R a b aa ab -> pair_ok G R b c bb cb ->
  (forall j, In j ab -> ~ In j bb) ->
  distinct (foddpos G R a ++ foddpos G R b ++ foddpos G R c) ->
  let nl := length (rest_axes (ndim G R (fbase G R a)) aa) in
  let bb1 := map (fun j => nl + index_of j (rest_axes (ndim G R (fbase G R b)) ab)) bb in
  let ab2 := map (fun j => index_of j (rest_axes (ndim G R (fbase G R b)) bb)) ab in
  exists y1 y12 y2 y21,
    f_tensordot2 G R a b (naxes aa ab) m1 = Some y1
    /\ f_tensordot2 G R y1 c (naxes bb1 cb) m12 = Some y12
    /\ f_tensordot2 G R b c (naxes bb cb) m2 = Some y2
    /\ f_tensordot2 G R a y2 (naxes aa ab2) m21 = Some y21
    /\ foddpos G R y12 = foddpos G R y21
    /\ forall cl cm cr,
         coords_ok G (without_axes (indices G R (fbase G R a)) aa) cl = true ->
         coords_ok G (without_axes (indices G R (fbase G R b)) (ab ++ bb)) cm = true ->
         coords_ok G (without_axes (indices G R (fbase G R c)) cb) cr = true ->
         V G R y12 (cl ++ cm ++ cr) = V G R y21 (cl ++ cm ++ cr).
Proof. exact assoc_chain_all_modes. Qed.

Theorem C04_assoc_chain_all_modes_full_proved : C04_assoc_chain_all_modes_full.
Proof. exact assoc_chain_all_modes. Qed.

Print Assumptions C04_einsum_order_trace.
Print Assumptions C04_einsum_trace_element.
Print Assumptions C04_unprune_wf.
Print Assumptions C04_one_by_one.
Print Assumptions C04_one_by_one_full_proved.
Print Assumptions C04_aligned_legs_match.
Print Assumptions C04_fused_eq_blockwise_compat.
Print Assumptions C04_all_modes_agree_compat.
Print Assumptions C04_modes_agree_compat.
Print Assumptions C04_lifted_mode.
Print Assumptions C04_contract_observational.
Print Assumptions C04_assoc_chain_all_modes.
Print Assumptions C04_assoc_chain_all_modes_full_proved.
