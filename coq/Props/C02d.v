(* Props/C02d.v — property C02, TRANSLATOR tie of the block-pairing logic.
   `gen_tensordot_blockwise` and `gen_drop_misaligned_sectors` (Gen/BlockwiseGen.v) are
   regenerated on every run by tr/gen_blockwise.py from the current source of
   `symmray.abelian_core._tensordot_blockwise` / `drop_misaligned_sectors`; the theorems below
   say that they ARE the hand model (`tdot_blockwise`, `drop_misaligned` of Model/Array.v)
   that Props/C02*.v and Props/C06*.v speak about — Leibniz equality of the result records:
   index tables, charge, and the association list of blocks including its order and the
   order in which products are accumulated — and restate the main theorem of C02 for the
   translated function.  Statements only; proofs in Proofs/BlockwiseGenProofs.v.
   The dense per-block product is the abstract `ttensordot` of Base/Tensor.v; `drop_charges`,
   `without_axes` and the record accessors are the hand-modelled callees. *)
From SV Require Import Base.Prelude Base.Sym Base.Tensor Model.Sectors Model.Array Model.Wf
  Model.SymInst Proofs.Tdot Gen.BlockwiseGen Proofs.BlockwiseGenProofs.
Local Open Scope nat_scope.

(* The translated `_tensordot_blockwise` equals the hand model whenever the result sectors
   (left part + right part) are at least as long as the list of free legs; nothing else is
   asked of the operands, the axes or the ring. *)
Theorem C02_gen_tensordot_blockwise_eq :
  forall (G : Symmetry) (R : Ring),
  (forall x y : C G, ceqb G x y = true <-> x = y) ->
  forall (a b : aarray G R) (la aa ab rb : list nat),
  length (without_axes (indices G R a) aa ++ without_axes (indices G R b) ab) <= length la + length rb ->
  gen_tensordot_blockwise G R a b la aa ab rb = tdot_blockwise G R a b la aa ab rb.
Proof. exact gen_tensordot_blockwise_eq. Qed.

(* As `tensordot` calls it (left_axes / right_axes = the axes that are not contracted): for
   ALL operands and axes. *)
Theorem C02_gen_tensordot_blockwise_eq_rest :
  forall (G : Symmetry) (R : Ring),
  (forall x y : C G, ceqb G x y = true <-> x = y) ->
  forall (a b : aarray G R) (aa ab : list nat),
  gen_tensordot_blockwise G R a b (rest_axes (ndim G R a) aa) aa ab (rest_axes (ndim G R b) ab) =
  tdot_blockwise G R a b (rest_axes (ndim G R a) aa) aa ab (rest_axes (ndim G R b) ab).
Proof. exact gen_tensordot_blockwise_eq_rest. Qed.

(* The translated `drop_misaligned_sectors` equals the hand model when the stored sectors
   of each operand are pairwise distinct (keys of a dict) and none is shorter than the
   array has indices. *)
Theorem C02_gen_drop_misaligned_eq :
  forall (G : Symmetry) (R : Ring),
  (forall x y : C G, ceqb G x y = true <-> x = y) ->
  forall (a b : aarray G R) (aa ab : list nat),
  nodupb (list_eqb (ceqb G)) (sectors G R a) = true -> nodupb (list_eqb (ceqb G)) (sectors G R b) = true ->
  (forall s, In s (sectors G R a) -> length (indices G R a) <= length s) ->
  (forall s, In s (sectors G R b) -> length (indices G R b) <= length s) ->
  gen_drop_misaligned_sectors G R a b aa ab = drop_misaligned G R a b aa ab.
Proof. exact gen_drop_misaligned_eq. Qed.

Theorem C02_gen_drop_misaligned_eq_wf :
  forall (G : Symmetry) (R : Ring),
  (forall x y : C G, ceqb G x y = true <-> x = y) ->
  forall (a b : aarray G R) (aa ab : list nat),
  wf_array G R a = true -> wf_array G R b = true ->
  gen_drop_misaligned_sectors G R a b aa ab = drop_misaligned G R a b aa ab.
Proof. exact gen_drop_misaligned_eq_wf. Qed.

(* The main theorem of C02 (C02_blockwise_sem) for the translated function: element for
   element, in (charge, offset) coordinates, its result is the dense contraction. *)
Theorem C02_gen_blockwise_sem :
  forall (G : Symmetry) (R : Ring), SumLaws R ->
  (forall x y : C G, ceqb G x y = true <-> x = y) ->
  forall (a b : aarray G R) (la aa ab rb : list nat) (cl cr : list (coord G)),
  wf_array G R a = true -> wf_array G R b = true ->
  axes_ok (ndim G R a) aa = true -> axes_ok (ndim G R b) ab = true -> length aa = length ab ->
  la = rest_axes (ndim G R a) aa -> rb = rest_axes (ndim G R b) ab ->
  charges_nodup G (take_axes (dflt_index G) (indices G R a) aa) = true ->
  coords_ok G (without_axes (indices G R a) aa) cl = true ->
  coords_ok G (without_axes (indices G R b) ab) cr = true ->
  sem G R (gen_tensordot_blockwise G R a b la aa ab rb) (cl ++ cr) =
  rsum R (map (fun kc => rmul R (sem G R a (merge G (ndim G R a) aa cl kc))
                                (sem G R b (merge G (ndim G R b) ab cr kc)))
              (all_coords G (take_axes (dflt_index G) (indices G R a) aa))).
Proof. exact gen_blockwise_sem. Qed.

(* Total charge and index tables of the translated function's result. *)
Theorem C02_gen_blockwise_charge_indices :
  forall (G : Symmetry) (R : Ring),
  (forall x y : C G, ceqb G x y = true <-> x = y) ->
  forall (a b : aarray G R) (aa ab : list nat),
  let res := gen_tensordot_blockwise G R a b (rest_axes (ndim G R a) aa) aa ab (rest_axes (ndim G R b) ab) in
  charge G R res = combine G [charge G R a; charge G R b] /\
  indices G R res = prune_indices G (without_axes (indices G R a) aa ++ without_axes (indices G R b) ab) (sectors G R res).
Proof. exact gen_blockwise_charge_indices. Qed.

Print Assumptions C02_gen_tensordot_blockwise_eq.
Print Assumptions C02_gen_tensordot_blockwise_eq_rest.
Print Assumptions C02_gen_drop_misaligned_eq.
Print Assumptions C02_gen_drop_misaligned_eq_wf.
Print Assumptions C02_gen_blockwise_sem.
Print Assumptions C02_gen_blockwise_charge_indices.
