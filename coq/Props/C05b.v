(* Props/C05b.v — property C05, continuation: SEVERAL GROUPS AT ONCE.
   Statements only; proofs live in Proofs/FuseGroups.v and Proofs/FuseGroupsWf.v
   (on top of Proofs/FuseProofs.v, FuseTensor.v, OrderProofs.v, WfProofs.v).

   Setting, for every symmetry G with GroupLaws G and OrderLaws G, every ring,
   all ranks, all tables: x a wf_array, `groups` an ARBITRARY list of non-empty,
   pairwise disjoint groups of distinct in-range axes — singlet groups included
   (a singlet group just moves its axis), groups in any order, axes of a group in
   any order and non-adjacent; fuse_position = the minimal grouped axis.

   Every position of the fused array is a "slot" (FuseGroups.slots): [ax] for an
   untouched axis before / after the fused block, the group itself for a fused
   position; fuse_perm is the concatenation of the slots and all tables of
   fuse_core are maps over the slots (C05_fuse_tables_by_slot).

   1. C05_fuse_layout_groups: the stored sectors of fuse_core x groups are exactly
      the images of the stored sectors under fused_sector, without repetition
      (sectors with the same image are merged into one block); each fused block
      has the shape its index tables give; CUT AT THE BOX fuse_selector assigns to
      a stored sector (the product of the per-group sub_ranges, the full range on
      untouched axes and singlet groups) it is
      treshape (ttranspose b fuse_perm) (fused_block_shape s), and it is zero at
      every position that lies in no stored sector's box.
   2. C05_fused_indices_wf: every index of the fused array is wf_index and the
      fused array is wf_array (fused sectors conserve the charge over the fused
      tables); C05_fused_indices_wf_full_proved is the `_full` statement of
      Props/C05.v (through a_fuse); C05_a_fuse_wf allows empty groups as well
      (a_expand_dims).
   3. C05_unfuse_fuse_groups: unfusing the fused (non-singlet) groups one after
      another, from the last group to the first (a_unfuse at position + g), returns
      y with indices y = indices x permuted by fuse_perm, the same charge, every
      stored block of x bit for bit (as ttranspose b perm), every other block
      all-zero, and sem y (permuted cs perm) = sem x cs.
      C05_unfuse_fuse_full_proved is the `_full` statement of Props/C05.v.
   4. C05_fuse_pair: the call of the fused contraction, a_fuse_noexpand x [g1; g2]
      with the two groups together containing every axis once ([free; contracted]
      or [contracted; free], one of them possibly empty): it is fuse_core on the
      non-empty groups, to which 1-3 apply; the result has one leg per non-empty
      group (a matrix, or a vector), fuse_perm = g1 ++ g2, position 0.

   5. C05_fuse_core_sem: the coordinate semantics: sem (fuse_core x groups) at the
      fused coordinates of cs = sem x cs.

   Not covered: arrays that already carry fused axes and are unfused deeper by
   a_unfuse_all; the concat strategy and fermionic signs (not in Model/Array.v). *)
From SV Require Import Base.Prelude Base.Sym Base.Tensor Model.Sectors Model.Array Model.Wf
  Model.SymInst Proofs.OrderProofs Proofs.FuseTensor Proofs.FuseProofs Proofs.FuseGroups Proofs.FuseGroupsWf
  Props.C05.
From Coq Require Import Permutation Sorting.
Local Open Scope nat_scope.

(* ---- the slot view of the tables ---- *)
Theorem C05_fuse_tables_by_slot :
  forall (G : Symmetry) (ixs : list (index G)) (secs : list (list (C G))) (groups : list (list nat)) (s : list (C G)),
  let SL := slots (length ixs) groups in
  concat SL = fuse_perm (length ixs) groups /\
  fused_sector G ixs groups s = map (group_charge G ixs s) SL /\
  fused_indices G ixs secs groups = map (fused_index G ixs secs) SL /\
  fused_block_shape G ixs groups s = map (group_size G ixs s) SL /\
  fuse_selector G ixs (fused_indices G ixs secs groups) groups s = map (slot_range G ixs secs s) SL.
Proof. exact fuse_tables_by_slot. Qed.

(* ---- 1: layout ---- *)
Theorem C05_fuse_layout_groups : forall (G : Symmetry) (R : Ring), GroupLaws G -> OrderLaws G ->
  forall (x : aarray G R) (groups : list (list nat)),
  wf_array G R x = true ->
  Forall (fun g => g <> []) groups -> NoDup (concat groups) ->
  Forall (fun ax => ax < length (indices G R x)) (concat groups) ->
  let ixs := indices G R x in
  let xf := fuse_core G R x groups in
  let nixs := fused_indices G ixs (sectors G R x) groups in
  let perm := fuse_perm (length ixs) groups in
  indices G R xf = nixs /\ charge G R xf = charge G R x /\
  NoDup (sectors G R xf) /\
  (forall k, In k (sectors G R xf) <-> exists s, In s (sectors G R x) /\ fused_sector G ixs groups s = k) /\
  (forall k T, lookup (list_eqb (ceqb G)) k (blocks G R xf) = Some T ->
     tshape T = block_shape G nixs k /\ length (tdata T) = shape_size (tshape T)) /\
  (forall s b, In (s, b) (blocks G R x) ->
     exists T, lookup (list_eqb (ceqb G)) (fused_sector G ixs groups s) (blocks G R xf) = Some T /\
       tbox R T (fuse_selector G ixs nixs groups s) =
       treshape R (ttranspose R b perm) (fused_block_shape G ixs groups s)) /\
  (forall k T idx, lookup (list_eqb (ceqb G)) k (blocks G R xf) = Some T -> inb (tshape T) idx = true ->
     (forall s, In s (sectors G R x) -> fused_sector G ixs groups s = k ->
        in_range (fuse_selector G ixs nixs groups s) idx = false) ->
     get R T idx = r0 R).
Proof. exact fuse_layout_groups_thm. Qed.

(* ---- 2: validity ---- *)
Theorem C05_fused_indices_wf : forall (G : Symmetry), GroupLaws G -> OrderLaws G -> forall (R : Ring)
  (x : aarray G R) (groups : list (list nat)),
  wf_array G R x = true ->
  Forall (fun g => g <> []) groups -> NoDup (concat groups) ->
  Forall (fun ax => ax < ndim G R x) (concat groups) ->
  Forall (fun ix => wf_index G ix = true) (fused_indices G (indices G R x) (sectors G R x) groups) /\
  wf_array G R (fuse_core G R x groups) = true.
Proof. exact fuse_groups_wf. Qed.

Theorem C05_a_fuse_wf : forall (G : Symmetry) (R : Ring), GroupLaws G -> OrderLaws G ->
  forall (x : aarray G R) (groups : list (list nat)),
  wf_array G R x = true ->
  NoDup (concat groups) -> Forall (fun ax => ax < ndim G R x) (concat groups) ->
  wf_array G R (a_fuse G R x groups) = true.
Proof. exact a_fuse_wf. Qed.

Theorem C05_fused_indices_wf_full_proved : C05_fused_indices_wf_full.
Proof. exact fused_wf_full_stmt. Qed.

(* ---- 3: round trip ---- *)
Theorem C05_unfuse_fuse_groups : forall (G : Symmetry) (R : Ring), GroupLaws G -> OrderLaws G ->
  forall (x : aarray G R) (groups : list (list nat)),
  wf_array G R x = true ->
  Forall (fun g => g <> []) groups -> NoDup (concat groups) ->
  Forall (fun ax => ax < length (indices G R x)) (concat groups) ->
  let perm := fuse_perm (length (indices G R x)) groups in
  exists y,
    unfuse_groups G R (fuse_core G R x groups) (fuse_position groups) groups = Some y /\
    indices G R y = permuted (dflt_index G) (indices G R x) perm /\
    charge G R y = charge G R x /\
    (forall s b, In (s, b) (blocks G R x) ->
       lookup (list_eqb (ceqb G)) (permuted (ident G) s perm) (blocks G R y) = Some (ttranspose R b perm)) /\
    (forall k t, In (k, t) (blocks G R y) ->
       (exists s b, In (s, b) (blocks G R x) /\ k = permuted (ident G) s perm /\ t = ttranspose R b perm) \/
       Forall (fun v => v = r0 R) (tdata t)) /\
    (forall cs, coords_ok G (indices G R x) cs = true ->
       sem G R y (permuted (ident G, 0) cs perm) = sem G R x cs).
Proof. exact unfuse_fuse_groups_thm. Qed.

(* with no singlet group the iteration is the plain fold over the fused positions *)
Theorem C05_unfuse_groups_is_fold : forall (G : Symmetry) (R : Ring) (y : aarray G R) (pos : nat) (gs : list (list nat)),
  Forall (fun g => is_singlet g = false) gs ->
  unfuse_groups G R y pos gs =
  fold_right (fun ax acc => match acc with Some z => a_unfuse G R z ax | None => None end)
             (Some y) (seq pos (length gs)).
Proof. exact unfuse_groups_axes. Qed.

Theorem C05_unfuse_fuse_full_proved : C05_unfuse_fuse_full.
Proof. exact unfuse_fuse_full_stmt. Qed.

(* ---- front ends ---- *)
Theorem C05_a_fuse_nonempty_groups : forall (G : Symmetry) (R : Ring) (x : aarray G R) (groups : list (list nat)),
  Forall (fun g => g <> []) groups -> groups <> [] ->
  a_fuse G R x groups = fuse_core G R x groups /\ a_fuse_noexpand G R x groups = fuse_core G R x groups.
Proof. exact a_fuse_nonempty_groups. Qed.

(* ---- 4: the two-group call of the fused contraction ---- *)
Theorem C05_fuse_pair : forall (G : Symmetry) (R : Ring) (x : aarray G R) (g1 g2 : list nat),
  wf_array G R x = true -> NoDup (g1 ++ g2) -> (forall ax, In ax (g1 ++ g2) <-> ax < ndim G R x) -> g1 ++ g2 <> [] ->
  let gs := filter (fun g : list nat => negb (is_nil g)) [g1; g2] in
  Forall (fun g => g <> []) gs /\ NoDup (concat gs) /\ Forall (fun ax => ax < ndim G R x) (concat gs) /\
  a_fuse_noexpand G R x [g1; g2] = fuse_core G R x gs /\
  fuse_perm (ndim G R x) gs = g1 ++ g2 /\ fuse_position gs = 0 /\
  indices G R (fuse_core G R x gs) = map (fused_index G (indices G R x) (sectors G R x)) gs /\
  ndim G R (fuse_core G R x gs) = length gs.
Proof. exact fuse_pair_thm. Qed.

Theorem C05_rest_axes_pair : forall (n : nat) (aa : list nat), NoDup aa -> Forall (fun ax => ax < n) aa ->
  NoDup (rest_axes n aa ++ aa) /\ NoDup (aa ++ rest_axes n aa) /\
  (forall ax, In ax (rest_axes n aa ++ aa) <-> ax < n) /\ (forall ax, In ax (aa ++ rest_axes n aa) <-> ax < n).
Proof. exact rest_axes_pair. Qed.


(* ---- 5: coordinate semantics of the fused array ----
   fcoords maps a coordinate list of x to the coordinate list of the fused array:
   per slot the fused charge and  start-of-sub-range + row-major offset of the
   sub-offsets.  A sector is `recorded` when its sub-sector on every fused
   (non-singlet) group is the sub-sector of some stored sector, so that the ranges
   exist; stored sectors are recorded.  For a recorded sector that is NOT stored
   both sides are zero: the fused block is zero outside the boxes of the stored sectors. *)
Theorem C05_fuse_core_sem : forall (G : Symmetry) (R : Ring), GroupLaws G -> OrderLaws G ->
  forall (x : aarray G R) (groups : list (list nat)),
  wf_array G R x = true ->
  Forall (fun g => g <> []) groups -> NoDup (concat groups) ->
  Forall (fun ax => ax < length (indices G R x)) (concat groups) ->
  forall cs, coords_ok G (indices G R x) cs = true -> recorded G R x groups (map fst cs) ->
  sem G R (fuse_core G R x groups) (fcoords G R x groups cs) = sem G R x cs.
Proof. exact fuse_core_sem. Qed.

Theorem C05_stored_sectors_are_recorded : forall (G : Symmetry) (R : Ring) (x : aarray G R) (groups : list (list nat)) s,
  In s (sectors G R x) -> recorded G R x groups s.
Proof. exact stored_recorded. Qed.

Print Assumptions C05_fuse_tables_by_slot.
Print Assumptions C05_fuse_layout_groups.
Print Assumptions C05_fused_indices_wf.
Print Assumptions C05_a_fuse_wf.
Print Assumptions C05_fused_indices_wf_full_proved.
Print Assumptions C05_unfuse_fuse_groups.
Print Assumptions C05_unfuse_groups_is_fold.
Print Assumptions C05_unfuse_fuse_full_proved.
Print Assumptions C05_a_fuse_nonempty_groups.
Print Assumptions C05_fuse_pair.
Print Assumptions C05_rest_axes_pair.
Print Assumptions C05_fuse_core_sem.
Print Assumptions C05_stored_sectors_are_recorded.
