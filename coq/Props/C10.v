(* Props/C10.v — under construction *)
From SV Require Import Base.Prelude.
(* Property C10, algebraic part: conjugation and adjoint of fermionic arrays
   (Model/Fermi.v: f_conj x pp pd, f_dagger x pd; pd = the dual-leg option).
   Statements only; proofs and the definitions below live in Proofs/ConjProofs.v.

     value x s        the block stored for sector s with the pending sign applied
                      (lookup in `f_value x`)
     feq x y          `f_value x = f_value y` (same index tables, charge, sectors in the
                      same order, same block data) and the same odd-position labels
     feq_sign m x y   the same with every block of y negated when m = true
     conj_sign x pp pd s   the sign conj puts on sector s: reversal sign (pp), number of odd
                      charges on bra legs (pd), and the odd global sign
     axes_where d ixs the axes whose index satisfies d (the list f_conj / f_dagger build)

   What is TRUE for the dual-leg option (determined by evaluation first, then proved):
   conj and dagger are involutions for pd = false; for pd = true the double conjugate and
   the double adjoint are (-1)^{parity x} x — NOT x when the array is odd
   (ConjProofs.ex_eval_1 exhibits odd Z2 / U1 arrays with result -x); with mixed options the
   sign flip of the legs the option acted on remains.  "adjoint = conjugate followed by the
   fermionic reversal of the axes" holds for BOTH values of pd.
   The norm statements (contracting x with its conjugate) are not in this file.

   All theorems: every rank, every index table, every symmetry with GroupLaws, every ring
   with the listed ring laws (ZRing and GRing have them: the ZRing_ / GRing_ lemmas of ConjProofs).
   `wf_array` is the executable validity predicate of C01 (Model/Wf.v). *)
From SV Require Import Base.Sym Base.Tensor Gen.PhasePerm Model.Sectors Model.Array Model.Arith Model.Wf
  Model.Fermi Proofs.ConjProofs.

Theorem C10_oddpos_dag_involutive :
  forall l : list fop, oddpos_dag (oddpos_dag l) = l.
Proof. exact oddpos_dag_involutive. Qed.

(* the generated Koszul sign: perm = None is the sign of the full reversal *)
Theorem C10_phase_none_is_reversal :
  forall par : list Z, Forall (fun p => p = 0 \/ p = 1) par ->
  calc_phase_permutation par None =
  calc_phase_permutation par (Some (rev (zrange (Z.of_nat (length par))))).
Proof. exact phase_none_eq_reversal. Qed.

Theorem C10_perm_minus_reversal :
  forall (G : Symmetry), GroupLaws G -> forall s : list (C G),
  Forall (fun c => valid G c = true) s ->
  perm_minus G s (Some (rev_axes (length s))) = perm_minus G s None.
Proof. exact perm_minus_rev. Qed.

(* feq / feq_sign are statements about the stored values *)
Theorem C10_feq_value :
  forall (G : Symmetry) (R : Ring) (x y : farray G R),
  feq G R x y -> forall s, value G R x s = value G R y s.
Proof. exact feq_value. Qed.

Theorem C10_feq_sign_value :
  forall (G : Symmetry) (R : Ring) (minus : bool) (x y : farray G R),
  feq_sign G R minus x y ->
  forall s, value G R x s = option_map (fun t => if minus then tneg R t else t) (value G R y s).
Proof. exact feq_sign_value. Qed.

(* conjugating twice returns the original (default dual-leg option, either pp) *)
Theorem C10_conj_conj :
  forall (G : Symmetry), GroupLaws G -> forall (R : Ring),
  (forall a, rconj R (rconj R a) = a) ->
  forall (x : farray G R) (pp : bool),
  valid G (charge G R (fbase G R x)) = true -> NoDup (fsectors G R x) ->
  feq G R (f_conj G R (f_conj G R x pp false) pp false) x.
Proof. exact conj_conj. Qed.

(* with the dual-leg option: exactly the parity sign *)
Theorem C10_conj_conj_dual_option :
  forall (G : Symmetry), GroupLaws G -> forall (R : Ring),
  (forall a, rconj R (rconj R a) = a) -> (forall a, rneg R (rneg R a) = a) ->
  forall (x : farray G R) (pp : bool),
  wf_array G R (fbase G R x) = true ->
  feq_sign G R (fparity G R x) (f_conj G R (f_conj G R x pp true) pp true) x.
Proof. exact conj_conj_pd_wf. Qed.

Theorem C10_conj_conj_mixed_tf :
  forall (G : Symmetry), GroupLaws G -> forall (R : Ring),
  (forall a, rconj R (rconj R a) = a) ->
  forall (x : farray G R) (pp : bool),
  valid G (charge G R (fbase G R x)) = true -> NoDup (fsectors G R x) ->
  feq G R (f_conj G R (f_conj G R x pp true) pp false)
          (f_phase_flip G R x (axes_where G (idual G) (indices G R (fbase G R x)))).
Proof. exact conj_conj_mixed_tf. Qed.

Theorem C10_conj_conj_mixed_ft :
  forall (G : Symmetry), GroupLaws G -> forall (R : Ring),
  (forall a, rconj R (rconj R a) = a) ->
  forall (x : farray G R) (pp : bool),
  valid G (charge G R (fbase G R x)) = true -> NoDup (fsectors G R x) ->
  feq G R (f_conj G R (f_conj G R x pp false) pp true)
          (f_phase_flip G R x (axes_where G (fun ix => negb (idual G ix)) (indices G R (fbase G R x)))).
Proof. exact conj_conj_mixed_ft. Qed.

(* the adjoint equals the conjugate followed by the fermionic reversal of axes, for every
   setting of the dual-leg option *)
Theorem C10_dagger_eq_conj_transpose :
  forall (G : Symmetry), GroupLaws G -> forall (R : Ring) (x : farray G R) (pd : bool),
  wf_array G R (fbase G R x) = true ->
  feq G R (f_dagger G R x pd)
          (f_transpose G R (f_conj G R x true pd) (rev_axes (ndim G R (fbase G R x))) true).
Proof. exact dagger_eq_conj_transpose_wf. Qed.

(* taking the adjoint twice returns the original *)
Theorem C10_dagger_dagger :
  forall (G : Symmetry), GroupLaws G -> forall (R : Ring),
  (forall a, rconj R (rconj R a) = a) -> rconj R (r0 R) = r0 R ->
  forall (x : farray G R),
  wf_array G R (fbase G R x) = true ->
  feq G R (f_dagger G R (f_dagger G R x false) false) x.
Proof. exact dagger_dagger_wf. Qed.

Theorem C10_dagger_dagger_dual_option :
  forall (G : Symmetry), GroupLaws G -> forall (R : Ring),
  (forall a, rconj R (rconj R a) = a) -> (forall a, rneg R (rneg R a) = a) -> rconj R (r0 R) = r0 R ->
  forall (x : farray G R),
  wf_array G R (fbase G R x) = true ->
  feq_sign G R (fparity G R x) (f_dagger G R (f_dagger G R x true) true) x.
Proof. exact dagger_dagger_pd_wf. Qed.

(* the blocks of the conjugate *)
Theorem C10_conj_value :
  forall (G : Symmetry), GroupLaws G -> forall (R : Ring),
  (forall a, rneg R (rneg R a) = a) -> (forall a, rconj R (rneg R a) = rneg R (rconj R a)) ->
  forall (x : farray G R) (pp pd : bool) (s : list (C G)),
  valid G (charge G R (fbase G R x)) = true -> NoDup (fsectors G R x) ->
  value G R (f_conj G R x pp pd) s =
  option_map (fun t => if conj_sign G R x pp pd s then tneg R (tconj R t) else tconj R t) (value G R x s).
Proof. exact conj_value. Qed.

(* bookkeeping used by the norm statements *)
Theorem C10_conj_bookkeeping :
  forall (G : Symmetry), GroupLaws G -> forall (R : Ring) (x : farray G R) (pp pd : bool),
  valid G (charge G R (fbase G R x)) = true ->
  duals G R (fbase G R (f_conj G R x pp pd)) = map negb (duals G R (fbase G R x)) /\
  indices G R (fbase G R (f_conj G R x pp pd)) = map (iconj G) (indices G R (fbase G R x)) /\
  charge G R (fbase G R (f_conj G R x pp pd)) = sign G (charge G R (fbase G R x)) true /\
  fparity G R (f_conj G R x pp pd) = fparity G R x /\
  foddpos G R (f_conj G R x pp pd) = rev (map fop_dag (foddpos G R x)) /\
  fsectors G R (f_conj G R x pp pd) = fsectors G R x.
Proof. exact conj_bookkeeping. Qed.

Theorem C10_dagger_bookkeeping :
  forall (G : Symmetry), GroupLaws G -> forall (R : Ring) (x : farray G R) (pd : bool),
  wf_array G R (fbase G R x) = true ->
  indices G R (fbase G R (f_dagger G R x pd)) = rev (map (iconj G) (indices G R (fbase G R x))) /\
  charge G R (fbase G R (f_dagger G R x pd)) = sign G (charge G R (fbase G R x)) true /\
  fparity G R (f_dagger G R x pd) = fparity G R x /\
  foddpos G R (f_dagger G R x pd) = rev (map fop_dag (foddpos G R x)) /\
  fsectors G R (f_dagger G R x pd) = map (@rev _) (fsectors G R x).
Proof. exact dagger_bookkeeping. Qed.

Print Assumptions C10_oddpos_dag_involutive.
Print Assumptions C10_phase_none_is_reversal.
Print Assumptions C10_perm_minus_reversal.
Print Assumptions C10_feq_value.
Print Assumptions C10_feq_sign_value.
Print Assumptions C10_conj_conj.
Print Assumptions C10_conj_conj_dual_option.
Print Assumptions C10_conj_conj_mixed_tf.
Print Assumptions C10_conj_conj_mixed_ft.
Print Assumptions C10_dagger_eq_conj_transpose.
Print Assumptions C10_dagger_dagger.
Print Assumptions C10_dagger_dagger_dual_option.
Print Assumptions C10_conj_value.
Print Assumptions C10_conj_bookkeeping.
Print Assumptions C10_dagger_bookkeeping.
