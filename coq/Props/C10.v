(* Props/C10.v — under construction *)
From SV Require Import Base.Prelude.
