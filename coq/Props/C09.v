(* Props/C09.v — under construction *)
From SV Require Import Base.Prelude.
