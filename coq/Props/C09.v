(* Props/C09.v — Property C09: lazily tracked fermionic signs are unobservable.

   Model: Model/Fermi.v.  A fermionic array `x : farray G R` is an abelian array
   `fbase x` of raw blocks, a table `fphases x` of the sectors carrying a pending
   factor -1, and odd-position labels `foddpos x`.  `f_phase_sync x` multiplies
   the pending signs into the blocks and clears the table; `f_value x` is the
   abelian array of blocks with the signs multiplied in.

   Vocabulary (defined in Proofs/LazyProofs.v):
     feq G R x y        x ~ y : f_value x = f_value y /\ foddpos x = foddpos y
                        (C09_equiv_spec: same indices, charge, labels, sector
                        list and signed blocks; C09_equiv_iff_sync: the
                        synchronised copies are EQUAL)
     a_signmap G R c v  multiply the block of every stored sector s with c s = true by -1
     v_transpose, v_conj, v_dagger, vop   what each instruction does to the VALUE
     lop G              the instruction set: LFlip, LPhaseTranspose, LSector, LGlobal,
                        LSync, LTranspose, LConj, LDagger;  run_op / run_ops execute it
                        on the lazy representation, vrun on (value, labels)
     lop_ok n op        side condition: transposition axes are a permutation of
                        0..n-1, an explicitly named sector has length n
     lwf G R x          the dict invariant: stored sectors are pairwise distinct and
                        they and the table's keys have the array's rank
     tdot_inj, einsum_perm   the axis permutations used by tensordot / einsum are
                        injective on the stored sectors (implied by lwf and valid axes:
                        C09_tensordot_sync_lwf)
   Ring laws appear as explicit premises: rneg (rneg a) = a, rneg 0 = 0,
   rconj (rneg a) = rneg (rconj a); ZRing and GRing satisfy them
   (C09_*_ZRing / C09_*_GRing).  All statements hold for every rank, every index
   table, every symmetry with the group laws. *)
From SV Require Import Base.Prelude.
From SV Require Import Base.Sym Base.Tensor Model.Sectors Model.Array Model.Arith Model.Fermi
  Proofs.LazyProofs.
From Coq Require Import Permutation.
Local Open Scope nat_scope.

(* ---- 1. synchronising ---- *)
Theorem C09_sync_value :
  forall (G : Symmetry) (R : Ring) (x : farray G R),
  f_value G R (f_phase_sync G R x) = f_value G R x.
Proof. exact sync_value. Qed.

Theorem C09_sync_phases_empty :
  forall (G : Symmetry) (R : Ring) (x : farray G R),
  fphases G R (f_phase_sync G R x) = [].
Proof. exact sync_phases_empty. Qed.

Theorem C09_sync_idem :
  forall (G : Symmetry) (R : Ring) (x : farray G R),
  f_phase_sync G R (f_phase_sync G R x) = f_phase_sync G R x.
Proof. exact sync_idem. Qed.

(* ---- 2. the equivalence and the key lemma on sign tables ---- *)
Theorem C09_equiv_spec :
  forall (G : Symmetry) (R : Ring) (x y : farray G R),
  feq G R x y <->
  indices G R (fbase G R x) = indices G R (fbase G R y) /\
  charge G R (fbase G R x) = charge G R (fbase G R y) /\
  foddpos G R x = foddpos G R y /\
  fsectors G R x = fsectors G R y /\
  signed_blocks G R x = signed_blocks G R y.
Proof. exact feq_spec. Qed.

Theorem C09_equiv_iff_sync :
  forall (G : Symmetry) (R : Ring) (x y : farray G R),
  feq G R x y <-> f_phase_sync G R x = f_phase_sync G R y.
Proof. exact feq_iff_sync. Qed.

Theorem C09_sync_equiv :
  forall (G : Symmetry) (R : Ring) (x : farray G R), feq G R (f_phase_sync G R x) x.
Proof. exact sync_feq. Qed.

Theorem C09_toggle_stored :
  forall G : Symmetry, GroupLaws G ->
  forall (c : list (C G) -> bool) (l ph0 : list (list (C G))) (s : list (C G)),
  NoDup l -> In s l ->
  ph_has G s (fold_left (fun ph a => if c a then ph_toggle G ph a else ph) l ph0)
  = xorb (ph_has G s ph0) (c s).
Proof. exact fold_toggle_stored. Qed.

Theorem C09_toggle_not_stored :
  forall G : Symmetry, GroupLaws G ->
  forall (c : list (C G) -> bool) (l ph0 : list (list (C G))) (s : list (C G)),
  NoDup l -> ~ In s l ->
  ph_has G s (fold_left (fun ph a => if c a then ph_toggle G ph a else ph) l ph0)
  = ph_has G s ph0.
Proof. exact fold_toggle_not_stored. Qed.

(* ---- 3. what each operation does at value level ---- *)
Theorem C09_value_phase_flip :
  forall (G : Symmetry) (R : Ring), GroupLaws G ->
  (forall a : RT R, rneg R (rneg R a) = a) ->
  forall (x : farray G R) (axs : list nat),
  NoDup (fsectors G R x) ->
  f_value G R (f_phase_flip G R x axs)
  = a_signmap G R (fun s => count_odd G s axs) (f_value G R x).
Proof. exact value_phase_flip. Qed.

Theorem C09_value_phase_transpose :
  forall (G : Symmetry) (R : Ring), GroupLaws G ->
  (forall a : RT R, rneg R (rneg R a) = a) ->
  forall (x : farray G R) (perm : option (list nat)),
  NoDup (fsectors G R x) ->
  f_value G R (f_phase_transpose G R x perm)
  = a_signmap G R (fun s => perm_minus G s perm) (f_value G R x).
Proof. exact value_phase_transpose. Qed.

Theorem C09_value_phase_sector :
  forall (G : Symmetry) (R : Ring), GroupLaws G ->
  (forall a : RT R, rneg R (rneg R a) = a) ->
  forall (x : farray G R) (s0 : list (C G)),
  f_value G R (f_phase_sector G R x s0)
  = a_signmap G R (fun s => list_eqb (ceqb G) s s0) (f_value G R x).
Proof. exact value_phase_sector. Qed.

Theorem C09_value_phase_global :
  forall (G : Symmetry) (R : Ring), GroupLaws G ->
  (forall a : RT R, rneg R (rneg R a) = a) ->
  forall x : farray G R,
  NoDup (fsectors G R x) ->
  f_value G R (f_phase_global G R x) = a_neg G R (f_value G R x).
Proof. exact value_phase_global. Qed.

Theorem C09_value_transpose :
  forall (G : Symmetry) (R : Ring), GroupLaws G ->
  (forall a : RT R, rneg R (rneg R a) = a) ->
  rneg R (r0 R) = r0 R ->
  forall (x : farray G R) (axes : list nat) (phase : bool),
  inj_on (fun s : list (C G) => permuted (ident G) s axes)
    (fsectors G R x ++ (if phase then [] else fphases G R x)) ->
  f_value G R (f_transpose G R x axes phase)
  = a_transpose G R
      (if phase then a_signmap G R (fun s => perm_minus G s (Some axes)) (f_value G R x)
       else f_value G R x) axes.
Proof. exact value_transpose. Qed.

Theorem C09_value_conj :
  forall (G : Symmetry) (R : Ring), GroupLaws G ->
  (forall a : RT R, rneg R (rneg R a) = a) ->
  (forall a : RT R, rconj R (rneg R a) = rneg R (rconj R a)) ->
  forall (x : farray G R) (pp pd : bool),
  NoDup (fsectors G R x) ->
  f_value G R (f_conj G R x pp pd)
  = let v := f_value G R x in
    let y := a_conj G R
               (a_signmap G R
                  (fun s => xorb (pp && perm_minus G s None)
                                 (pd && count_odd G s (conj_axes G (indices G R v)))) v) in
    if pp && parity G (charge G R y) && Nat.odd (length (oddpos_dag (foddpos G R x)))
    then a_neg G R y else y.
Proof. exact value_conj. Qed.

Theorem C09_value_dagger :
  forall (G : Symmetry) (R : Ring), GroupLaws G ->
  (forall a : RT R, rneg R (rneg R a) = a) ->
  rneg R (r0 R) = r0 R ->
  (forall a : RT R, rconj R (rneg R a) = rneg R (rconj R a)) ->
  forall (x : farray G R) (pd : bool),
  NoDup (fsectors G R x) ->
  Forall (fun s : list (C G) => length s = ndim G R (fbase G R x)) (fsectors G R x) ->
  f_value G R (f_dagger G R x pd)
  = let y := a_dagger G R (f_value G R x) in
    let y := if parity G (charge G R y) && Nat.odd (length (oddpos_dag (foddpos G R x)))
             then a_neg G R y else y in
    if pd then a_signmap G R (fun s => count_odd G s (nondual_axes G (indices G R y))) y else y.
Proof. exact value_dagger. Qed.

Theorem C09_run_op_value :
  forall (G : Symmetry) (R : Ring), GroupLaws G ->
  (forall a : RT R, rneg R (rneg R a) = a) ->
  rneg R (r0 R) = r0 R ->
  (forall a : RT R, rconj R (rneg R a) = rneg R (rconj R a)) ->
  forall (op : lop G) (x : farray G R),
  lwf G R x -> lop_ok G (ndim G R (fbase G R x)) op ->
  f_value G R (run_op G R op x) = vop G R op (f_value G R x) (foddpos G R x).
Proof. exact run_op_value. Qed.

Theorem C09_run_op_lwf :
  forall (G : Symmetry) (R : Ring) (op : lop G) (x : farray G R),
  lwf G R x -> lop_ok G (ndim G R (fbase G R x)) op ->
  lwf G R (run_op G R op x) /\ ndim G R (fbase G R (run_op G R op x)) = ndim G R (fbase G R x).
Proof. exact run_op_lwf. Qed.

Theorem C09_op_congr :
  forall (G : Symmetry) (R : Ring), GroupLaws G ->
  (forall a : RT R, rneg R (rneg R a) = a) ->
  rneg R (r0 R) = r0 R ->
  (forall a : RT R, rconj R (rneg R a) = rneg R (rconj R a)) ->
  forall (op : lop G) (x y : farray G R),
  lwf G R x -> lwf G R y -> lop_ok G (ndim G R (fbase G R x)) op ->
  feq G R x y -> feq G R (run_op G R op x) (run_op G R op y).
Proof. exact op_congr. Qed.

Theorem C09_op_sync_congr :
  forall (G : Symmetry) (R : Ring), GroupLaws G ->
  (forall a : RT R, rneg R (rneg R a) = a) ->
  rneg R (r0 R) = r0 R ->
  (forall a : RT R, rconj R (rneg R a) = rneg R (rconj R a)) ->
  forall (op : lop G) (x : farray G R),
  lwf G R x -> lop_ok G (ndim G R (fbase G R x)) op ->
  feq G R (run_op G R op x) (run_op G R op (f_phase_sync G R x)).
Proof. exact op_sync_congr. Qed.

(* ---- 4. arbitrary finite programs ---- *)
Theorem C09_run_ops_value :
  forall (G : Symmetry) (R : Ring), GroupLaws G ->
  (forall a : RT R, rneg R (rneg R a) = a) ->
  rneg R (r0 R) = r0 R ->
  (forall a : RT R, rconj R (rneg R a) = rneg R (rconj R a)) ->
  forall (p : list (lop G)) (x : farray G R),
  lwf G R x -> prog_ok G (ndim G R (fbase G R x)) p ->
  (f_value G R (run_ops G R p x), foddpos G R (run_ops G R p x))
  = vrun G R p (f_value G R x) (foddpos G R x).
Proof. exact run_ops_value. Qed.

Theorem C09_programs_congr_gen :
  forall (G : Symmetry) (R : Ring), GroupLaws G ->
  (forall a : RT R, rneg R (rneg R a) = a) ->
  rneg R (r0 R) = r0 R ->
  (forall a : RT R, rconj R (rneg R a) = rneg R (rconj R a)) ->
  forall (p : list (lop G)) (x y : farray G R),
  lwf G R x -> lwf G R y -> prog_ok G (ndim G R (fbase G R x)) p ->
  feq G R x y -> feq G R (run_ops G R p x) (run_ops G R p y).
Proof. exact programs_congr_gen. Qed.

Theorem C09_programs_congr :
  forall (G : Symmetry) (R : Ring), GroupLaws G ->
  (forall a : RT R, rneg R (rneg R a) = a) ->
  rneg R (r0 R) = r0 R ->
  (forall a : RT R, rconj R (rneg R a) = rneg R (rconj R a)) ->
  forall (p : list (lop G)) (x : farray G R),
  lwf G R x -> prog_ok G (ndim G R (fbase G R x)) p ->
  feq G R (run_ops G R p x) (run_ops G R p (f_phase_sync G R x)).
Proof. exact programs_congr. Qed.

Theorem C09_programs_sync_anywhere :
  forall (G : Symmetry) (R : Ring), GroupLaws G ->
  (forall a : RT R, rneg R (rneg R a) = a) ->
  rneg R (r0 R) = r0 R ->
  (forall a : RT R, rconj R (rneg R a) = rneg R (rconj R a)) ->
  forall (p q : list (lop G)) (x : farray G R),
  lwf G R x -> prog_ok G (ndim G R (fbase G R x)) (p ++ q) ->
  feq G R (run_ops G R (p ++ q) x) (run_ops G R (p ++ LSync G :: q) x).
Proof. exact programs_sync_anywhere. Qed.

Theorem C09_programs_congr_ZRing :
  forall (G : Symmetry), GroupLaws G ->
  forall (p : list (lop G)) (x : farray G ZRing),
  lwf G ZRing x -> prog_ok G (ndim G ZRing (fbase G ZRing x)) p ->
  feq G ZRing (run_ops G ZRing p x) (run_ops G ZRing p (f_phase_sync G ZRing x)).
Proof. exact programs_congr_ZRing. Qed.

Theorem C09_programs_congr_GRing :
  forall (G : Symmetry), GroupLaws G ->
  forall (p : list (lop G)) (x : farray G GRing),
  lwf G GRing x -> prog_ok G (ndim G GRing (fbase G GRing x)) p ->
  feq G GRing (run_ops G GRing p x) (run_ops G GRing p (f_phase_sync G GRing x)).
Proof. exact programs_congr_GRing. Qed.

(* ---- 5. operations that read blocks return EQUAL results on equivalent operands ---- *)
Theorem C09_eqb_congr :
  forall (G : Symmetry) (R : Ring) (x x' y y' : farray G R),
  feq G R x x' -> feq G R y y' -> farray_eqb G R x y = farray_eqb G R x' y'.
Proof. exact farray_eqb_feq. Qed.

Theorem C09_tensordot_congr :
  forall (G : Symmetry) (R : Ring), GroupLaws G ->
  (forall a : RT R, rneg R (rneg R a) = a) ->
  rneg R (r0 R) = r0 R ->
  forall (a a' b b' : farray G R) (axes : nat + list Z * list Z) (mode : tmode),
  NoDup (fsectors G R a) -> NoDup (fsectors G R b) -> tdot_inj G R a b axes ->
  feq G R a a' -> feq G R b b' ->
  f_tensordot G R a b axes mode = f_tensordot G R a' b' axes mode.
Proof. exact tensordot_congr. Qed.

Theorem C09_tensordot_sync_lwf :
  forall (G : Symmetry) (R : Ring), GroupLaws G ->
  (forall a : RT R, rneg R (rneg R a) = a) ->
  rneg R (r0 R) = r0 R ->
  forall (a b : farray G R) (axes : nat + list Z * list Z) (mode : tmode),
  lwf G R a -> lwf G R b ->
  (forall aa ab, parse_axes (ndim G R (fbase G R a)) (ndim G R (fbase G R b)) axes = Some (aa, ab) ->
     NoDup aa /\ Forall (fun i => i < ndim G R (fbase G R a)) aa /\
     NoDup ab /\ Forall (fun i => i < ndim G R (fbase G R b)) ab) ->
  f_tensordot G R a b axes mode
  = f_tensordot G R (f_phase_sync G R a) (f_phase_sync G R b) axes mode.
Proof. exact tensordot_sync_lwf. Qed.

Theorem C09_matmul_congr :
  forall (G : Symmetry) (R : Ring), GroupLaws G ->
  (forall a : RT R, rneg R (rneg R a) = a) ->
  forall a a' b b' : farray G R,
  NoDup (fsectors G R b) -> feq G R a a' -> feq G R b b' ->
  f_matmul G R a b = f_matmul G R a' b'.
Proof. exact matmul_congr. Qed.

Theorem C09_trace_congr :
  forall (G : Symmetry) (R : Ring), GroupLaws G ->
  (forall a : RT R, rneg R (rneg R a) = a) ->
  forall x y : farray G R,
  NoDup (fsectors G R x) -> feq G R x y -> f_trace G R x = f_trace G R y.
Proof. exact trace_congr. Qed.

Theorem C09_fuse_congr :
  forall (G : Symmetry) (R : Ring), GroupLaws G ->
  (forall a : RT R, rneg R (rneg R a) = a) ->
  rneg R (r0 R) = r0 R ->
  forall (x y : farray G R) (groups : list (list nat)),
  lwf G R x ->
  Permutation (fuse_perm (ndim G R (fbase G R x)) groups) (seq 0 (ndim G R (fbase G R x))) ->
  feq G R x y -> f_fuse G R x groups = f_fuse G R y groups.
Proof. exact fuse_congr_lwf. Qed.

Theorem C09_unfuse_congr :
  forall (G : Symmetry) (R : Ring) (x y : farray G R) (axis : nat),
  feq G R x y -> f_unfuse G R x axis = f_unfuse G R y axis.
Proof. exact unfuse_congr. Qed.

Theorem C09_einsum_congr :
  forall (G : Symmetry) (R : Ring), GroupLaws G ->
  (forall a : RT R, rneg R (rneg R a) = a) ->
  rneg R (r0 R) = r0 R ->
  forall (x y : farray G R) (lhs rhs : list nat),
  lwf G R x -> feq G R x y -> f_einsum G R x lhs rhs = f_einsum G R y lhs rhs.
Proof. exact einsum_congr_lwf. Qed.

Print Assumptions C09_sync_value.
Print Assumptions C09_sync_phases_empty.
Print Assumptions C09_sync_idem.
Print Assumptions C09_equiv_spec.
Print Assumptions C09_equiv_iff_sync.
Print Assumptions C09_sync_equiv.
Print Assumptions C09_toggle_stored.
Print Assumptions C09_toggle_not_stored.
Print Assumptions C09_value_phase_flip.
Print Assumptions C09_value_phase_transpose.
Print Assumptions C09_value_phase_sector.
Print Assumptions C09_value_phase_global.
Print Assumptions C09_value_transpose.
Print Assumptions C09_value_conj.
Print Assumptions C09_value_dagger.
Print Assumptions C09_run_op_value.
Print Assumptions C09_run_op_lwf.
Print Assumptions C09_op_congr.
Print Assumptions C09_op_sync_congr.
Print Assumptions C09_run_ops_value.
Print Assumptions C09_programs_congr_gen.
Print Assumptions C09_programs_congr.
Print Assumptions C09_programs_sync_anywhere.
Print Assumptions C09_programs_congr_ZRing.
Print Assumptions C09_programs_congr_GRing.
Print Assumptions C09_eqb_congr.
Print Assumptions C09_tensordot_congr.
Print Assumptions C09_tensordot_sync_lwf.
Print Assumptions C09_matmul_congr.
Print Assumptions C09_trace_congr.
Print Assumptions C09_fuse_congr.
Print Assumptions C09_unfuse_congr.
Print Assumptions C09_einsum_congr.
