(* Props/C03.v — property C03: fermionic operations follow graded (Grassmann)
   tensor semantics.  Statements only; proofs live in Proofs/GradedProofs.v and
   Proofs/FermiProofs.v.

   Vocabulary (Proofs/FermiProofs.v):
     vblock x s          the block of `f_value x` (pending signs multiplied in) stored at sector s
     sgn b t / osgn b o  multiply a block / an optional block by (-1)^b;  rsgn b v the same for a scalar
     inv_parity par p    parity of the number of odd-odd inversions of the arrangement p
     signed_transpose X p sg   the abelian array X transposed by p, the block of sector s multiplied by (-1)^(sg s)
     ketbra_a a aa s     parity of the number of contracted positions k with odd charge s[aa_k] whose a-leg is NOT dual
                         ("meets as ket-then-bra"); ketbra_b b ab s: the same counted on b's dual legs
     tdot_opA / tdot_opB the two operands that reach the abelian contraction
     fermi_finish        global sign and odd-position labels from `resolve_oddpos`
   Ring laws are explicit: NegLaws R (negation is an involutive additive map
   compatible with multiplication), SumLaws R (C02). *)
From SV Require Import Base.Prelude Base.Sym Base.Tensor Gen.PhasePerm Model.Sectors Model.Array Model.Arith
  Model.Fermi Model.Graded Model.Wf Proofs.GradedProofs Proofs.Tdot Proofs.FermiProofs.
From Coq Require Import Permutation.
Local Open Scope nat_scope.

(* ---- 1. the generated Koszul-sign routine ---- *)
(* For EVERY parity list and EVERY permutation of 0..n-1 the translated
   `calc_phase_permutation` returns -1 exactly when the number of odd-odd
   inversions is odd. *)
Theorem C03_phase_perm_is_koszul :
  forall (par perm : list Z) (n : Z), Permutation perm (zrange n) ->
  calc_phase_permutation par (Some perm) = phase_of (inv_parity par perm).
Proof. exact phase_perm_is_koszul. Qed.

(* `perm=None` is the full reversal. *)
Theorem C03_phase_perm_none_is_reversal :
  forall par : list Z, (forall p, In p par -> p = 0 \/ p = 1)%Z ->
  calc_phase_permutation par None
  = calc_phase_permutation par (Some (rev (zrange (Z.of_nat (length par))))).
Proof. exact phase_perm_none_is_reversal. Qed.

(* The inversion parity is the Koszul sign K between the permuted and the
   identity arrangement, and it composes: arranging by q and then re-arranging
   the result by r costs the product of the two signs. *)
Theorem C03_inv_parity_is_K :
  forall (par perm : list Z) (n : Z), Permutation perm (zrange n) ->
  inv_parity par perm = K Z.eqb (oddZ par) perm (zrange n).
Proof. exact inv_parity_is_K. Qed.

Theorem C03_inv_parity_comp :
  forall (par q r : list Z) (N : nat),
  Permutation q (zrange (Z.of_nat N)) -> Permutation r (zrange (Z.of_nat N)) ->
  inv_parity par (map (nthZ q) r) = xorb (inv_parity par q) (inv_parity (map (nthZ par) q) r).
Proof. exact inv_parity_comp. Qed.

Theorem C03_ZRing_neg_laws : NegLaws ZRing.
Proof. exact ZRing_neg_laws. Qed.

Theorem C03_GRing_neg_laws : NegLaws GRing.
Proof. exact GRing_neg_laws. Qed.

(* ---- 2. transpose and the phase operations ---- *)
Theorem C03_transpose_sectors :
  forall (G : Symmetry) (R : Ring) (x : farray G R) (axes : list nat) (ph : bool),
  fsectors G R (f_transpose G R x axes ph) = map (fun s => permuted (ident G) s axes) (fsectors G R x).
Proof. exact transpose_sectors. Qed.

(* Transposing multiplies each block (hence each element) by the sign of the
   permutation restricted to its odd indices. *)
Theorem C03_transpose_value :
  forall (G : Symmetry) (R : Ring), NegLaws R ->
  (forall a b : C G, ceqb G a b = true <-> a = b) ->
  forall (x : farray G R) (axes : list nat) (s : list (C G)),
  NoDup (fsectors G R x) -> sectors_len G R x ->
  Permutation axes (seq 0 (ndim G R (fbase G R x))) -> length s = ndim G R (fbase G R x) ->
  vblock G R (f_transpose G R x axes true) (permuted (ident G) s axes)
  = option_map (fun t => sgn R (inv_parity (par_of G s) (map Z.of_nat axes)) (ttranspose R t axes)) (vblock G R x s).
Proof. exact transpose_value. Qed.

Theorem C03_transpose_nophase_value :
  forall (G : Symmetry) (R : Ring), NegLaws R ->
  (forall a b : C G, ceqb G a b = true <-> a = b) ->
  forall (x : farray G R) (axes : list nat) (s : list (C G)),
  sectors_len G R x -> (forall t, In t (fphases G R x) -> length t = ndim G R (fbase G R x)) ->
  Permutation axes (seq 0 (ndim G R (fbase G R x))) -> length s = ndim G R (fbase G R x) ->
  vblock G R (f_transpose G R x axes false) (permuted (ident G) s axes)
  = option_map (fun t => ttranspose R t axes) (vblock G R x s).
Proof. exact transpose_nophase_value. Qed.

Theorem C03_phase_flip_value :
  forall (G : Symmetry) (R : Ring), NegLaws R ->
  (forall a b : C G, ceqb G a b = true <-> a = b) ->
  forall (x : farray G R) (axs : list nat) (s : list (C G)),
  NoDup (fsectors G R x) ->
  vblock G R (f_phase_flip G R x axs) s = osgn R (count_odd G s axs) (vblock G R x s).
Proof. exact phase_flip_value. Qed.

Theorem C03_phase_transpose_value :
  forall (G : Symmetry) (R : Ring), NegLaws R ->
  (forall a b : C G, ceqb G a b = true <-> a = b) ->
  forall (x : farray G R) (p : list nat) (n : nat) (s : list (C G)),
  NoDup (fsectors G R x) -> Permutation p (seq 0 n) ->
  vblock G R (f_phase_transpose G R x (Some p)) s
  = osgn R (inv_parity (par_of G s) (map Z.of_nat p)) (vblock G R x s).
Proof. exact phase_transpose_value. Qed.

(* ---- 3. contraction ---- *)
(* All modes, both branches of `a.size <= b.size`: the fermionic contraction is
   the ABELIAN contraction of two sign-adjusted transposed operands, followed by
   the global sign / label resolution.  `tdot_spec` is
     fermi_finish a b (a_tensordot (tdot_opA fl a la aa) (tdot_opB (negb fl) b ab rb) (last ncon, first ncon) mode)
   with fl = `tdot_flip_a a b aa ab` the size test. *)
Theorem C03_tensordot_sign_formula :
  forall (G : Symmetry) (R : Ring), NegLaws R ->
  (forall a b : C G, ceqb G a b = true <-> a = b) ->
  forall (a b : farray G R) (axes : nat + (list Z * list Z)) (mode : tmode) (aa ab : list nat),
  parse_axes (ndim G R (fbase G R a)) (ndim G R (fbase G R b)) axes = Some (aa, ab) ->
  NoDup (fsectors G R a) -> sectors_len G R a -> NoDup (fsectors G R b) -> sectors_len G R b ->
  NoDup aa -> (forall i, In i aa -> i < ndim G R (fbase G R a)) ->
  NoDup ab -> (forall i, In i ab -> i < ndim G R (fbase G R b)) ->
  f_tensordot G R a b axes mode = tdot_spec G R a b aa ab mode.
Proof. exact tensordot_sign_formula. Qed.

(* The blocks of the two operands: the graded transposition of a to
   (free ++ contracted), of b to (REVERSED contracted ++ free), and — on the
   operand chosen by the size test — one sign per odd contracted index that
   meets as ket-then-bra. *)
Theorem C03_tdot_opA_block :
  forall (G : Symmetry) (R : Ring),
  (forall a b : C G, ceqb G a b = true <-> a = b) ->
  forall (fl : bool) (a : farray G R) (aa : list nat) (s : list (C G)),
  let na := ndim G R (fbase G R a) in
  let la := rest_axes na aa in
  sectors_len G R a -> NoDup aa -> (forall i, In i aa -> i < na) -> length s = na ->
  lookup (list_eqb (ceqb G)) (permuted (ident G) s (la ++ aa)) (blocks G R (tdot_opA G R fl a la aa))
  = option_map (fun t => sgn R (xorb (inv_parity (par_of G s) (map Z.of_nat (la ++ aa))) (fl && ketbra_a G R a aa s))
                             (ttranspose R t (la ++ aa))) (vblock G R a s).
Proof. exact tdot_opA_block. Qed.

Theorem C03_tdot_opB_block :
  forall (G : Symmetry) (R : Ring),
  (forall a b : C G, ceqb G a b = true <-> a = b) ->
  forall (fl : bool) (b : farray G R) (ab : list nat) (s : list (C G)),
  let nb := ndim G R (fbase G R b) in
  let rb := rest_axes nb ab in
  sectors_len G R b -> NoDup ab -> (forall i, In i ab -> i < nb) -> length s = nb ->
  lookup (list_eqb (ceqb G)) (permuted (ident G) s (ab ++ rb)) (blocks G R (tdot_opB G R fl b ab rb))
  = option_map (fun t => sgn R (xorb (inv_parity (par_of G s) (map Z.of_nat (rev ab ++ rb))) (fl && ketbra_b G R b ab s))
                             (ttranspose R t (ab ++ rb))) (vblock G R b s).
Proof. exact tdot_opB_block. Qed.

(* Branch independence: when contracted legs have opposite directions, the list
   of contributing (sector, block product) pairs — only ALIGNED sectors
   contribute — is literally the same whichever operand carries the ket-bra signs. *)
Theorem C03_tensordot_branch_independent :
  forall (G : Symmetry) (R : Ring), NegLaws R ->
  (forall a b : C G, ceqb G a b = true <-> a = b) ->
  forall (a b : farray G R) (la aa ab rb la' rb' : list nat),
  opposite_dirs G R a b aa ab ->
  tdot_pairs G R (tdot_opA G R true a la aa) (tdot_opB G R false b ab rb) la' (seq (length la) (length aa)) (seq 0 (length ab)) rb'
  = tdot_pairs G R (tdot_opA G R false a la aa) (tdot_opB G R true b ab rb) la' (seq (length la) (length aa)) (seq 0 (length ab)) rb'.
Proof. exact tensordot_branch_independent. Qed.

(* Hence with the block-by-block strategy the result never depends on the size
   test: it is the abelian contraction of A' (ket-bra signs on a) and B'. *)
Theorem C03_tensordot_blockwise_value :
  forall (G : Symmetry) (R : Ring), NegLaws R ->
  (forall a b : C G, ceqb G a b = true <-> a = b) ->
  forall (a b : farray G R) (axes : nat + (list Z * list Z)) (aa ab : list nat),
  parse_axes (ndim G R (fbase G R a)) (ndim G R (fbase G R b)) axes = Some (aa, ab) ->
  NoDup (fsectors G R a) -> sectors_len G R a -> NoDup (fsectors G R b) -> sectors_len G R b ->
  NoDup aa -> (forall i, In i aa -> i < ndim G R (fbase G R a)) ->
  NoDup ab -> (forall i, In i ab -> i < ndim G R (fbase G R b)) ->
  opposite_dirs G R a b aa ab ->
  let na := ndim G R (fbase G R a) in
  let nb := ndim G R (fbase G R b) in
  let la := rest_axes na aa in
  let rb := rest_axes nb ab in
  let ncon := length aa in
  f_tensordot G R a b axes MBlockwise
  = fermi_finish G R a b
      (Some (tdot_blockwise G R (tdot_opA G R true a la aa) (tdot_opB G R false b ab rb)
               (rest_axes na (seq (na - ncon) ncon)) (seq (na - ncon) ncon)
               (seq 0 ncon) (rest_axes nb (seq 0 ncon)))).
Proof. exact tensordot_blockwise_value. Qed.

(* Element for element (with C02's dense-contraction theorem): in (charge,
   offset) coordinates the result is
     (-1)^minus * sum over the contracted coordinates kc of
        (-1)^(sigma_a) a[cl, kc] * (-1)^(sigma_b) b[kc, cr]
   sigma_a = odd-odd inversions of (free ++ contracted) xor #odd ket-then-bra
   contracted positions, sigma_b = odd-odd inversions of (rev contracted ++ free),
   minus / labels from `resolve_oddpos` on the operands' odd-position lists.
   The full statement quantifies over all three modes. *)
Definition C03_tensordot_element_full : Prop :=
  forall (G : Symmetry) (R : Ring), NegLaws R ->
  (forall a b : C G, ceqb G a b = true <-> a = b) -> SumLaws R ->
  forall (mode : tmode) (a b : farray G R) (axes : nat + (list Z * list Z)) (aa ab : list nat) (minus : bool) (odd : list fop),
  let na := ndim G R (fbase G R a) in
  let nb := ndim G R (fbase G R b) in
  let cixs := take_axes (dflt_index G) (indices G R (fbase G R a)) aa in
  parse_axes na nb axes = Some (aa, ab) ->
  blocks_ok G R (fbase G R a) -> blocks_ok G R (fbase G R b) ->
  NoDup aa -> (forall i, In i aa -> i < na) -> NoDup ab -> (forall i, In i ab -> i < nb) ->
  opposite_dirs G R a b aa ab ->
  Forall (fun ix => NoDup (icharges G ix)) cixs ->
  map (chargemap G) cixs = map (chargemap G) (take_axes (dflt_index G) (indices G R (fbase G R b)) ab) ->
  resolve_oddpos (fparity G R a) (foddpos G R a) (foddpos G R b) = Some (minus, odd) ->
  exists y, f_tensordot G R a b axes mode = Some y /\ foddpos G R y = odd /\
    forall cl cr,
      coords_ok G (without_axes (indices G R (fbase G R a)) aa) cl = true ->
      coords_ok G (without_axes (indices G R (fbase G R b)) ab) cr = true ->
      sem G R (f_value G R y) (cl ++ cr)
      = rsgn R minus (rsum R (map (fun kc =>
          rmul R (rsgn R (sigma_a G R a aa (map fst (merge G na aa cl kc))) (sem G R (f_value G R a) (merge G na aa cl kc)))
                 (rsgn R (sigma_b G R b ab (map fst (merge G nb ab cr kc))) (sem G R (f_value G R b) (merge G nb ab cr kc))))
          (all_coords G cixs))).

(* PROVED for mode = MBlockwise.  Missing for MFused / MAuto: that the fused
   abelian strategy `tdot_fused` agrees element for element with
   `tdot_blockwise` (property C06); with that equality the statement for the
   other modes follows from C03_tensordot_sign_formula, which covers all modes. *)
Theorem C03_tensordot_element_partial :
  forall (G : Symmetry) (R : Ring), NegLaws R ->
  (forall a b : C G, ceqb G a b = true <-> a = b) -> SumLaws R ->
  forall (a b : farray G R) (axes : nat + (list Z * list Z)) (aa ab : list nat) (minus : bool) (odd : list fop),
  let na := ndim G R (fbase G R a) in
  let nb := ndim G R (fbase G R b) in
  let cixs := take_axes (dflt_index G) (indices G R (fbase G R a)) aa in
  parse_axes na nb axes = Some (aa, ab) ->
  blocks_ok G R (fbase G R a) -> blocks_ok G R (fbase G R b) ->
  NoDup aa -> (forall i, In i aa -> i < na) -> NoDup ab -> (forall i, In i ab -> i < nb) ->
  opposite_dirs G R a b aa ab ->
  Forall (fun ix => NoDup (icharges G ix)) cixs ->
  map (chargemap G) cixs = map (chargemap G) (take_axes (dflt_index G) (indices G R (fbase G R b)) ab) ->
  resolve_oddpos (fparity G R a) (foddpos G R a) (foddpos G R b) = Some (minus, odd) ->
  exists y, f_tensordot G R a b axes MBlockwise = Some y /\ foddpos G R y = odd /\
    forall cl cr,
      coords_ok G (without_axes (indices G R (fbase G R a)) aa) cl = true ->
      coords_ok G (without_axes (indices G R (fbase G R b)) ab) cr = true ->
      sem G R (f_value G R y) (cl ++ cr)
      = rsgn R minus (rsum R (map (fun kc =>
          rmul R (rsgn R (sigma_a G R a aa (map fst (merge G na aa cl kc))) (sem G R (f_value G R a) (merge G na aa cl kc)))
                 (rsgn R (sigma_b G R b ab (map fst (merge G nb ab cr kc))) (sem G R (f_value G R b) (merge G nb ab cr kc))))
          (all_coords G cixs))).
Proof. exact tensordot_blockwise_element. Qed.

(* `wf_array` operands satisfy `blocks_ok` (C02). *)
Theorem C03_wf_blocks_ok :
  forall (G : Symmetry) (R : Ring), (forall a b : C G, ceqb G a b = true <-> a = b) ->
  forall x : aarray G R, wf_array G R x = true -> blocks_ok G R x.
Proof. exact wf_blocks_ok. Qed.

(* ---- 4. special cases ---- *)
(* a @ b : the abelian product of value(a) with b, b's first leg sign-flipped on
   odd charges exactly when it is dual (a's last leg is then a ket). *)
Theorem C03_matmul_value :
  forall (G : Symmetry) (R : Ring) (a b : farray G R),
  f_matmul G R a b = fermi_finish G R a b (a_matmul G R (f_value G R a) (matmul_opB G R b)).
Proof. exact matmul_value. Qed.

Theorem C03_matmul_opB_block :
  forall (G : Symmetry) (R : Ring), NegLaws R ->
  (forall a b : C G, ceqb G a b = true <-> a = b) ->
  forall (b : farray G R) (s : list (C G)), NoDup (fsectors G R b) ->
  lookup (list_eqb (ceqb G)) s (blocks G R (matmul_opB G R b))
  = osgn R (idual G (nth 0 (indices G R (fbase G R b)) (dflt_index G)) && odd_at G s 0) (vblock G R b s).
Proof. exact matmul_opB_block. Qed.

(* trace of a (bra, ket) matrix: the plain trace of the value *)
Theorem C03_trace_value_braket :
  forall (G : Symmetry) (R : Ring) (x : farray G R) (il ir : index G),
  indices G R (fbase G R x) = [il; ir] -> idual G il = true -> idual G ir = false ->
  f_trace G R x = a_trace G R (f_value G R x).
Proof. exact trace_value_braket. Qed.

(* trace of a (ket, bra) matrix: each diagonal block enters with (-1)^{parity of its charge} *)
Theorem C03_trace_value_ketbra :
  forall (G : Symmetry) (R : Ring), NegLaws R ->
  (forall a b : C G, ceqb G a b = true <-> a = b) ->
  forall (x : farray G R) (il ir : index G),
  indices G R (fbase G R x) = [il; ir] -> idual G il = false -> idual G ir = true ->
  NoDup (fsectors G R x) ->
  f_trace G R x
  = Some (fold_left (fun acc sb =>
            if ceqb G (nth 0 (fst sb) (ident G)) (nth 1 (fst sb) (ident G))
            then radd R acc (rsgn R (odd_at G (fst sb) 0) (ttrace R (snd sb))) else acc)
          (blocks G R (f_value G R x)) (r0 R)).
Proof. exact trace_value_ketbra. Qed.

(* single-array einsum: graded transposition by the sorting permutation, then
   the abelian einsum *)
Theorem C03_einsum_value :
  forall (G : Symmetry) (R : Ring), NegLaws R ->
  (forall a b : C G, ceqb G a b = true <-> a = b) ->
  forall (x : farray G R) (lhs rhs : list nat),
  NoDup (fsectors G R x) -> sectors_len G R x ->
  let perm := einsum_perm G R x lhs rhs in
  Permutation perm (seq 0 (ndim G R (fbase G R x))) /\
  f_einsum G R x lhs rhs
  = a_einsum G R (signed_transpose G R (f_value G R x) perm (fun s => inv_parity (par_of G s) (map Z.of_nat perm)))
      (map (fun i => nth i lhs 0) perm) rhs.
Proof. exact einsum_value. Qed.

(* NOTE (later round): `C03_tensordot_element_full` above, as literally stated for the PRE-REPAIR model
   `Fermi.f_tensordot` (which unfuses every fused leg, the library's behaviour before fix 704f29b), is false for
   operands with an already-fused free leg (`C03_tensordot_element_full_is_false` in Props/C03b.v). The statement is
   PROVED for the current-code model `Fused.f_tensordot2` in all three modes without restriction
   (`C03_tensordot2_element_all_modes`) and for `Fermi.f_tensordot` on operands whose free legs are not fused
   (`C03_tensordot_element_all_modes`); `C03_f_tensordot_eq_tensordot2` relates the two models. *)

Print Assumptions C03_phase_perm_is_koszul.
Print Assumptions C03_phase_perm_none_is_reversal.
Print Assumptions C03_inv_parity_is_K.
Print Assumptions C03_inv_parity_comp.
Print Assumptions C03_ZRing_neg_laws.
Print Assumptions C03_GRing_neg_laws.
Print Assumptions C03_transpose_sectors.
Print Assumptions C03_transpose_value.
Print Assumptions C03_transpose_nophase_value.
Print Assumptions C03_phase_flip_value.
Print Assumptions C03_phase_transpose_value.
Print Assumptions C03_tensordot_sign_formula.
Print Assumptions C03_tdot_opA_block.
Print Assumptions C03_tdot_opB_block.
Print Assumptions C03_tensordot_branch_independent.
Print Assumptions C03_tensordot_blockwise_value.
Print Assumptions C03_tensordot_element_partial.
Print Assumptions C03_wf_blocks_ok.
Print Assumptions C03_matmul_value.
Print Assumptions C03_matmul_opB_block.
Print Assumptions C03_trace_value_braket.
Print Assumptions C03_trace_value_ketbra.
Print Assumptions C03_einsum_value.
