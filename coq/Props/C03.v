(* Props/C03.v — under construction *)
From SV Require Import Base.Prelude.
