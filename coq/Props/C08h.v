(* Props/C08h.v — property C08, continuation: TRANSLATOR tie of the block-level arithmetic.
   Gen/BinopGen.v is regenerated on every check (tr/gen_binop.py) from the current source of
   BlockBase._binary_blockwise_op, BlockBase.apply_to_arrays and the arithmetic dunder methods
   of BlockBase / BlockVector in symmray/block_core.py.  Statements only; proofs and the
   definitions model_dunder_* / a_dunder_gen / v_dunder_gen / a_apply_gen / block_op live in
   Proofs/BinopGenProofs.v.

   Block maps are insertion-ordered association lists (Python dicts).  All equalities below
   are Leibniz equalities of such lists: the hand model of Model/Arith.v fixes the order of the
   result's blocks (left operand's order, then the right-only blocks in the right operand's
   order), so sector lists AND block order of the generated function and the model agree.
   The hypothesis is that keys are duplicate-free (true of every Python dict; for arrays it is
   part of wf_array).  `None` = the Python method raises. *)
From SV Require Import Base.Prelude Base.Sym Base.Tensor Model.Sectors Model.Array Model.Arith Model.Wf
  Gen.BinopGen Proofs.StructProofs Proofs.BinopGenProofs.
From Coq Require Import String.

(* ---- 1. the compiled _binary_blockwise_op IS the hand model, policy by policy ---- *)
Theorem C08_binop_gen_strict_is_model :
  forall (R : Ring) (K : Type) (ke : K -> K -> bool), (forall a b, ke a b = true <-> a = b) ->
  forall (fn : tensor R -> tensor R -> tensor R) (bx bo : list (K * tensor R)),
  NoDup (keys bx) -> NoDup (keys bo) ->
  binary_blockwise_op_gen ke fn None bx bo = bin_strict R ke fn bx bo.
Proof. exact binop_gen_strict. Qed.

Theorem C08_binop_gen_outer_is_model :
  forall (R : Ring) (K : Type) (ke : K -> K -> bool), (forall a b, ke a b = true <-> a = b) ->
  forall (fn : tensor R -> tensor R -> tensor R) (bx bo : list (K * tensor R)),
  NoDup (keys bx) -> NoDup (keys bo) ->
  binary_blockwise_op_gen ke fn (Some "outer"%string) bx bo = Some (bin_outer R ke fn bx bo).
Proof. exact binop_gen_outer. Qed.

(* fix 1908b1e: left-only blocks are dropped; the right operand may be any association list *)
Theorem C08_binop_gen_inner_is_model :
  forall (R : Ring) (K : Type) (ke : K -> K -> bool), (forall a b, ke a b = true <-> a = b) ->
  forall (fn : tensor R -> tensor R -> tensor R) (bx bo : list (K * tensor R)),
  NoDup (keys bx) ->
  binary_blockwise_op_gen ke fn (Some "inner"%string) bx bo = Some (bin_inner R ke fn bx bo).
Proof. exact binop_gen_inner. Qed.

(* a policy string other than "outer" / "inner" falls through every branch: the left operand comes back *)
Theorem C08_binop_gen_other_policy :
  forall (K V : Type) (ke : K -> K -> bool) (fn : V -> V -> V) (s : string) (bx bo : list (K * V)),
  s <> "outer"%string -> s <> "inner"%string ->
  binary_blockwise_op_gen ke fn (Some s) bx bo = Some bx.
Proof. exact @gen_other_policy. Qed.

(* the compiled apply_to_arrays (scalar * and /, unary -) is the model's dict_map *)
Theorem C08_apply_gen_is_model :
  forall (R : Ring) (K : Type) (ke : K -> K -> bool), (forall a b, ke a b = true <-> a = b) ->
  forall (fn : tensor R -> tensor R) (bx : list (K * tensor R)),
  NoDup (keys bx) -> apply_to_arrays_gen ke fn bx = Some (dict_map R fn bx).
Proof. exact apply_gen_dict_map. Qed.

(* ---- 2. the tables read off the dunder methods are the ones the model assumes ---- *)
Theorem C08_dunder_table_is_model : dunder_table = model_dunder_table.
Proof. exact dunder_table_is_model. Qed.

Theorem C08_dunder_table_vector_is_model : dunder_table_vector = model_dunder_table_vector.
Proof. exact dunder_table_vector_is_model. Qed.

Theorem C08_dunder_policy_is_model : dunder_policy = model_dunder_policy.
Proof. exact dunder_policy_is_model. Qed.

Theorem C08_dunder_policy_vector_is_model : dunder_policy_vector = model_dunder_policy_vector.
Proof. exact dunder_policy_vector_is_model. Qed.

Theorem C08_dunder_policy_from_table :
  dunder_policy = policy_of_table dunder_table /\ dunder_policy_vector = policy_of_table dunder_table_vector.
Proof. exact dunder_policy_from_table. Qed.

Theorem C08_binop_overrides_is_model : binop_overrides = model_overrides.
Proof. exact binop_overrides_is_model. Qed.

Theorem C08_binop_defaults_are_model :
  binop_default_missing = None /\ binop_default_inplace = false /\
  (forall inplace, binary_blockwise_op_result_is_self inplace = inplace).
Proof. exact binop_defaults_are_model. Qed.

(* ---- 3. arrays: each method, evaluated through the generated table and the generated function,
        is the operation of Model/Arith.v the C08 theorems speak about ---- *)
Theorem C08_dunder_add_gen_is_model :
  forall (G : Symmetry), GroupLaws G -> forall (R : Ring) (x y : aarray G R),
  NoDup (sectors G R x) -> NoDup (sectors G R y) ->
  a_dunder_gen G R "__add__" x y = Some (a_add G R x y) /\ a_dunder_gen G R "__iadd__" x y = Some (a_add G R x y).
Proof. exact dunder_add_gen. Qed.

Theorem C08_dunder_sub_gen_is_model :
  forall (G : Symmetry), GroupLaws G -> forall (R : Ring) (x y : aarray G R),
  NoDup (sectors G R x) -> NoDup (sectors G R y) ->
  a_dunder_gen G R "__sub__" x y = a_sub G R x y /\ a_dunder_gen G R "__isub__" x y = a_sub G R x y.
Proof. exact dunder_sub_gen. Qed.

Theorem C08_dunder_mul_gen_is_model :
  forall (G : Symmetry), GroupLaws G -> forall (R : Ring) (x y : aarray G R),
  NoDup (sectors G R x) ->
  a_dunder_gen G R "__mul__" x y = Some (a_mul G R x y) /\ a_dunder_gen G R "__imul__" x y = Some (a_mul G R x y).
Proof. exact dunder_mul_gen. Qed.

Theorem C08_vector_dunder_gen_is_model :
  forall (G : Symmetry), GroupLaws G -> forall (R : Ring) (x y : bvec G R),
  NoDup (keys x) -> NoDup (keys y) ->
  v_dunder_gen G R "__add__" x y = Some (v_add G R x y) /\ v_dunder_gen G R "__iadd__" x y = Some (v_add G R x y) /\
  v_dunder_gen G R "__sub__" x y = v_sub G R x y /\ v_dunder_gen G R "__isub__" x y = v_sub G R x y /\
  v_dunder_gen G R "__mul__" x y = Some (v_mul G R x y) /\ v_dunder_gen G R "__imul__" x y = Some (v_mul G R x y).
Proof. exact vdunder_gen. Qed.

Theorem C08_apply_gen_scale_neg_is_model :
  forall (G : Symmetry), GroupLaws G -> forall (R : Ring) (x : aarray G R) (s : RT R),
  NoDup (sectors G R x) ->
  a_apply_gen G R (tscale R s) x = Some (a_scale G R x s) /\ a_apply_gen G R (tneg R) x = Some (a_neg G R x).
Proof. exact apply_gen_scale_neg. Qed.

(* ---- 4. the main value theorems of C08, restated through the generated table + function ---- *)
(* x + y and x += y commute with densification; the operands may store different sector sets *)
Theorem C08_add_gen_sem :
  forall (G : Symmetry), GroupLaws G -> forall (R : Ring),
  (forall a, radd R (r0 R) a = a) -> (forall a, radd R a (r0 R) = a) ->
  forall (name : string) (x y z : aarray G R) (cs : list (coord G)),
  name = "__add__"%string \/ name = "__iadd__"%string ->
  wf_array G R x = true -> NoDup (sectors G R y) -> coords_ok G (indices G R x) cs = true ->
  a_dunder_gen G R name x y = Some z ->
  sem G R z cs = radd R (sem G R x cs) (sem G R y cs).
Proof. exact add_gen_sem. Qed.

(* x * y and x *= y: exactly the shared sectors survive, and the product commutes with densification *)
Theorem C08_mul_gen_sem :
  forall (G : Symmetry), GroupLaws G -> forall (R : Ring),
  (forall a, rmul R (r0 R) a = r0 R) -> (forall a, rmul R a (r0 R) = r0 R) ->
  forall (name : string) (x y z : aarray G R) (cs : list (coord G)),
  name = "__mul__"%string \/ name = "__imul__"%string ->
  wf_array G R x = true -> coords_ok G (indices G R x) cs = true ->
  a_dunder_gen G R name x y = Some z ->
  sem G R z cs = rmul R (sem G R x cs) (sem G R y cs) /\
  (forall s, In s (sectors G R z) <-> In s (sectors G R x) /\ In s (sectors G R y)).
Proof. exact mul_gen_sem. Qed.

(* x - y and x -= y: raises exactly when the stored sector sets differ, else commutes with densification *)
Theorem C08_sub_gen_sem :
  forall (G : Symmetry), GroupLaws G -> forall (R : Ring),
  (forall a, radd R (r0 R) a = a) -> rneg R (r0 R) = r0 R ->
  forall (name : string) (x y : aarray G R),
  name = "__sub__"%string \/ name = "__isub__"%string ->
  wf_array G R x = true -> NoDup (sectors G R y) ->
  (a_dunder_gen G R name x y = None <-> ~ (forall s, In s (sectors G R x) <-> In s (sectors G R y))) /\
  forall z cs, coords_ok G (indices G R x) cs = true -> a_dunder_gen G R name x y = Some z ->
    sem G R z cs = radd R (sem G R x cs) (rneg R (sem G R y cs)).
Proof. exact sub_gen_sem. Qed.

Print Assumptions C08_binop_gen_strict_is_model.
Print Assumptions C08_binop_gen_outer_is_model.
Print Assumptions C08_binop_gen_inner_is_model.
Print Assumptions C08_binop_gen_other_policy.
Print Assumptions C08_apply_gen_is_model.
Print Assumptions C08_dunder_table_is_model.
Print Assumptions C08_dunder_table_vector_is_model.
Print Assumptions C08_dunder_policy_is_model.
Print Assumptions C08_dunder_policy_vector_is_model.
Print Assumptions C08_dunder_policy_from_table.
Print Assumptions C08_binop_overrides_is_model.
Print Assumptions C08_binop_defaults_are_model.
Print Assumptions C08_dunder_add_gen_is_model.
Print Assumptions C08_dunder_sub_gen_is_model.
Print Assumptions C08_dunder_mul_gen_is_model.
Print Assumptions C08_vector_dunder_gen_is_model.
Print Assumptions C08_apply_gen_scale_neg_is_model.
Print Assumptions C08_add_gen_sem.
Print Assumptions C08_mul_gen_sem.
Print Assumptions C08_sub_gen_sem.
