(* Props/C09d.v — translator tie of the sign bookkeeping of FermionicArray (C09, and through it the
   sign-table parts of C03 and C10).

   Gen/PhasesGen.v is REGENERATED on every run by tr/gen_phases.py from the current source of
   FermionicArray.{phase_global, phase_flip, phase_transpose, phase_sector, phase_sync, transpose, conj,
   dagger} (symmray/fermionic_core.py).  `<method>_gen G B .. indices charge blocks phases oddpos args`
   is the state of the array after the call: index directions, charge, the dict of blocks (block type B
   abstract), the pending-sign dict `phases : list (sector * Z)` (insertion ordered, values +-1) and the
   odd-position labels; st_phases / st_blocks / st_oddpos / st_charge / st_indices project it.

   The hand model (Model/Fermi.v) keeps the list `fphases x` of the sectors carrying -1; `tbl_of ph` is
   the dict holding -1 for every sector of ph, in order.  Part 1 says: on the state of any array x, each
   generated function returns EXACTLY the table (equality of association lists, insertion order
   included) of the hand model's operation.  Well-formedness needed: the dict invariant NoDup (no key
   twice) for the table — and for the stored sectors where the operation re-keys or reads blocks —,
   `bits_ok` (the parity of every charge in a stored sector is 0 or 1: holds for valid charges,
   C09_gen_bits_of_valid) where parities are SUMMED by the code (phase_flip, conj with phase_dual), and
   `parity_ok` (the identity charge is even: holds under the group laws, C09_gen_parity_ok_of_laws).
   Part 2: the hand-level arrays rebuilt from the generated state (`*_via_gen`) are the hand model's
   operations.  Part 3: one representative theorem of each of C09, C03, C10 restated through the
   generated functions.

   dagger: translated (dagger_gen) and tied at run time by harness/c09.py (generated function against the
   implementation, whole state, strict), its equality with the hand model f_dagger is proved in
   Proofs/DaggerGenProofs.v and stated in Props/C10e.v (C10_gen_dagger). *)
From SV Require Import Base.Prelude Base.PyList Base.Sym Base.Tensor Gen.PhasePerm Gen.OpOrder Gen.PhasesGen
  Model.Sectors Model.Array Model.Arith Model.Fermi Model.Graded Proofs.FermiProofs Proofs.LazyProofs Proofs.ConjProofs
  Proofs.PhasesGenProofs.
From Coq Require Import Permutation.
Local Open Scope Z_scope.

(* ---- 1. generated sign-table function = hand model's table ---- *)
Theorem C09_gen_phase_global :
  forall (G : Symmetry) (R : Ring), (forall a b : C G, ceqb G a b = true <-> a = b) ->
  forall (x : farray G R) (ix : list gindex) (ch : C G) (odd : list op),
  NoDup (fphases G R x) ->
  st_phases (phase_global_gen G (tensor R) ix ch (blocks G R (fbase G R x)) (tbl_of (fphases G R x)) odd)
  = tbl_of (fphases G R (f_phase_global G R x)).
Proof. exact phases_phase_global. Qed.

Theorem C09_gen_phase_flip :
  forall (G : Symmetry) (R : Ring), (forall a b : C G, ceqb G a b = true <-> a = b) -> parity_ok G ->
  forall (x : farray G R) (ix : list gindex) (ch : C G) (odd : list op) (axs : list nat),
  NoDup (fphases G R x) -> bits_ok G (fsectors G R x) ->
  st_phases (phase_flip_gen G (tensor R) ix ch (blocks G R (fbase G R x)) (tbl_of (fphases G R x)) odd (map Z.of_nat axs))
  = tbl_of (fphases G R (f_phase_flip G R x axs)).
Proof. exact phases_phase_flip. Qed.

Theorem C09_gen_phase_transpose :
  forall (G : Symmetry) (R : Ring), (forall a b : C G, ceqb G a b = true <-> a = b) ->
  forall (x : farray G R) (ix : list gindex) (ch : C G) (odd : list op) (perm : option (list nat)),
  NoDup (fphases G R x) ->
  st_phases (phase_transpose_gen G (tensor R) ix ch (blocks G R (fbase G R x)) (tbl_of (fphases G R x)) odd (zperm perm))
  = tbl_of (fphases G R (f_phase_transpose G R x perm)).
Proof. exact phases_phase_transpose. Qed.

Theorem C09_gen_phase_sector :
  forall (G : Symmetry) (R : Ring), (forall a b : C G, ceqb G a b = true <-> a = b) ->
  forall (x : farray G R) (ix : list gindex) (ch : C G) (odd : list op) (s : list (C G)),
  NoDup (fphases G R x) ->
  st_phases (phase_sector_gen G (tensor R) ix ch (blocks G R (fbase G R x)) (tbl_of (fphases G R x)) odd s)
  = tbl_of (fphases G R (f_phase_sector G R x s)).
Proof. exact phases_phase_sector. Qed.

(* phase_sync: which blocks are negated, and the emptied table; for ANY block type and negation *)
Theorem C09_gen_phase_sync_blocks :
  forall (G : Symmetry), (forall a b : C G, ceqb G a b = true <-> a = b) ->
  forall (ix : list gindex) (ch : C G) (B : Type) (bneg : B -> B) (bl : list (list (C G) * B)) (odd : list op)
         (ph : list (list (C G))),
  NoDup ph -> NoDup (keys bl) ->
  phase_sync_gen G B bneg ix ch bl (tbl_of ph) odd
  = (ix, ch, map (fun sb => if ph_has G (fst sb) ph then (fst sb, bneg (snd sb)) else sb) bl, [], odd).
Proof. exact gen_phase_sync. Qed.

Theorem C09_gen_phase_sync :
  forall (G : Symmetry) (R : Ring), (forall a b : C G, ceqb G a b = true <-> a = b) ->
  forall (x : farray G R) (ix : list gindex) (ch : C G) (odd : list op),
  NoDup (fphases G R x) -> NoDup (fsectors G R x) ->
  let st := phase_sync_gen G (tensor R) (tneg R) ix ch (blocks G R (fbase G R x)) (tbl_of (fphases G R x)) odd in
  st_blocks st = blocks G R (fbase G R (f_phase_sync G R x)) /\
  st_phases st = tbl_of (fphases G R (f_phase_sync G R x)).
Proof. exact blocks_phase_sync. Qed.

(* transpose (both settings of `phase`); the block movement AbelianArray.transpose is any function mv *)
Theorem C09_gen_transpose :
  forall (G : Symmetry) (R : Ring), (forall a b : C G, ceqb G a b = true <-> a = b) ->
  forall (x : farray G R) (B : Type)
         (mv : list gindex -> list (list (C G) * B) -> list Z -> list gindex * list (list (C G) * B))
         (ix : list gindex) (ch : C G) (bl : list (list (C G) * B)) (odd : list op) (axes : list nat) (phase : bool),
  keys bl = fsectors G R x ->
  NoDup (map (fun s => permuted (ident G) s axes) (if phase then fsectors G R x else fphases G R x)) ->
  st_phases (transpose_gen G B mv ix ch bl (tbl_of (fphases G R x)) odd (Some (map Z.of_nat axes)) phase)
  = tbl_of (fphases G R (f_transpose G R x axes phase)).
Proof. exact phases_transpose. Qed.

(* axes=None is the reversal of all axes *)
Theorem C09_gen_transpose_default_axes :
  forall (G : Symmetry) (B : Type)
         (mv : list gindex -> list (list (C G) * B) -> list Z -> list gindex * list (list (C G) * B))
         (ix : list gindex) (ch : C G) (bl : list (list (C G) * B)) (ph : list (list (C G) * Z)) (odd : list op) (phase : bool),
  transpose_gen G B mv ix ch bl ph odd None phase
  = transpose_gen G B mv ix ch bl ph odd (Some (map Z.of_nat (rev_axes (length ix)))) phase.
Proof. exact gen_transpose_none. Qed.

(* conj, every setting of phase_permutation / phase_dual: table, labels, charge, index directions *)
Theorem C09_gen_conj :
  forall (G : Symmetry) (R : Ring), (forall a b : C G, ceqb G a b = true <-> a = b) -> parity_ok G ->
  forall (x : farray G R) (B : Type) (bconj : B -> B) (bl : list (list (C G) * B)) (pp pd : bool),
  keys bl = fsectors G R x -> NoDup (fphases G R x) -> bits_ok G (fsectors G R x) ->
  let st := conj_gen G B bconj (duals G R (fbase G R x)) (charge G R (fbase G R x)) bl (tbl_of (fphases G R x))
                     (foddpos G R x) pp pd in
  st_phases st = tbl_of (fphases G R (f_conj G R x pp pd)) /\
  st_oddpos st = foddpos G R (f_conj G R x pp pd) /\
  st_charge st = charge G R (fbase G R (f_conj G R x pp pd)) /\
  st_indices st = duals G R (fbase G R (f_conj G R x pp pd)).
Proof. exact phases_conj. Qed.

Theorem C09_gen_parity_ok_of_laws : forall G : Symmetry, GroupLaws G -> parity_ok G.
Proof. exact parity_ok_of_laws. Qed.

Theorem C09_gen_bits_of_valid :
  forall (G : Symmetry) (secs : list (list (C G))), GroupLaws G ->
  (forall s c, In s secs -> In c s -> valid G c = true) -> bits_ok G secs.
Proof. exact bits_ok_of_valid. Qed.

(* ---- 2. the arrays rebuilt from the generated state are the hand model's operations ---- *)
Theorem C09_via_gen_phase_ops :
  forall (G : Symmetry) (R : Ring), (forall a b : C G, ceqb G a b = true <-> a = b) -> parity_ok G ->
  forall x : farray G R, NoDup (fphases G R x) ->
  global_via_gen G R x = f_phase_global G R x /\
  (forall perm, ptranspose_via_gen G R x perm = f_phase_transpose G R x perm) /\
  (forall s, sector_via_gen G R x s = f_phase_sector G R x s) /\
  (bits_ok G (fsectors G R x) -> forall axs, flip_via_gen G R x axs = f_phase_flip G R x axs) /\
  (bits_ok G (fsectors G R x) -> forall pp pd, conj_via_gen G R x pp pd = f_conj G R x pp pd) /\
  (NoDup (fsectors G R x) -> sync_via_gen G R x = f_phase_sync G R x).
Proof.
  exact (fun G R H PO x Hn =>
    conj (global_via_gen_eq G R H x Hn)
   (conj (fun perm => ptranspose_via_gen_eq G R H x perm Hn)
   (conj (fun s => sector_via_gen_eq G R H x s Hn)
   (conj (fun Hb axs => flip_via_gen_eq G R H PO x axs Hn Hb)
   (conj (fun Hb pp pd => conj_via_gen_eq G R H PO x pp pd Hn Hb)
         (fun Hs => sync_via_gen_eq G R H x Hn Hs)))))).
Qed.

Theorem C09_via_gen_transpose :
  forall (G : Symmetry) (R : Ring), (forall a b : C G, ceqb G a b = true <-> a = b) ->
  forall (x : farray G R) (axes : list nat) (phase : bool),
  NoDup (map (fun s => permuted (ident G) s axes) (if phase then fsectors G R x else fphases G R x)) ->
  transpose_via_gen G R x axes phase = f_transpose G R x axes phase.
Proof. exact transpose_via_gen_eq. Qed.

(* ---- 3. one theorem per property through the generated functions ---- *)
(* C09 (C09_sync_value): the blocks the generated phase_sync negates and the table it leaves have the value of x *)
Theorem C09_gen_sync_value :
  forall (G : Symmetry) (R : Ring), (forall a b : C G, ceqb G a b = true <-> a = b) ->
  forall x : farray G R, NoDup (fphases G R x) -> NoDup (fsectors G R x) ->
  f_value G R (sync_via_gen G R x) = f_value G R x /\ fphases G R (sync_via_gen G R x) = [].
Proof. exact sync_via_gen_value. Qed.

(* C03 (C03_transpose_value): with the table the generated transpose computes, each block carries the
   sign of the permutation restricted to its odd indices *)
Theorem C03_gen_transpose_value :
  forall (G : Symmetry) (R : Ring), (forall a b : C G, ceqb G a b = true <-> a = b) -> NegLaws R ->
  forall (x : farray G R) (axes : list nat) (s : list (C G)),
  NoDup (fsectors G R x) -> sectors_len G R x ->
  Permutation axes (seq 0 (ndim G R (fbase G R x))) -> length s = ndim G R (fbase G R x) ->
  vblock G R (transpose_via_gen G R x axes true) (permuted (ident G) s axes)
  = option_map (fun t => FermiProofs.sgn R (inv_parity (par_of G s) (map Z.of_nat axes)) (ttranspose R t axes)) (vblock G R x s).
Proof. exact transpose_via_gen_value. Qed.

(* C10 (C10_conj_conj): conjugating twice, tables and labels as the generated conj computes them *)
Theorem C10_gen_conj_conj :
  forall (G : Symmetry), GroupLaws G -> forall (R : Ring),
  (forall a, rconj R (rconj R a) = a) ->
  forall (x : farray G R) (pp : bool),
  valid G (charge G R (fbase G R x)) = true -> NoDup (fsectors G R x) ->
  NoDup (fphases G R x) -> bits_ok G (fsectors G R x) ->
  feq G R (conj_via_gen G R (conj_via_gen G R x pp false) pp false) x.
Proof. exact conj_via_gen_conj. Qed.

Print Assumptions C09_gen_phase_global.
Print Assumptions C09_gen_phase_flip.
Print Assumptions C09_gen_phase_transpose.
Print Assumptions C09_gen_phase_sector.
Print Assumptions C09_gen_phase_sync_blocks.
Print Assumptions C09_gen_phase_sync.
Print Assumptions C09_gen_transpose.
Print Assumptions C09_gen_transpose_default_axes.
Print Assumptions C09_gen_conj.
Print Assumptions C09_gen_parity_ok_of_laws.
Print Assumptions C09_gen_bits_of_valid.
Print Assumptions C09_via_gen_phase_ops.
Print Assumptions C09_via_gen_transpose.
Print Assumptions C09_gen_sync_value.
Print Assumptions C03_gen_transpose_value.
Print Assumptions C10_gen_conj_conj.
