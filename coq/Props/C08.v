(* Props/C08.v — under construction *)
From SV Require Import Base.Prelude.
(* Property C08: structural, elementwise and arithmetic operations commute with
   densification.  `sem x cs` is the dense entry of x at the coordinate list cs
   (one (charge, offset) pair per axis, zero where no sector is stored);
   `vsem v (c, o)` the same for block vectors.  Statements only; the proofs and
   the definitions vsem / vinb / mask_keep / removes / selected / squeezable /
   unit_index / tables_nodup / RingLaws live in Proofs/StructProofs.v.  Every
   theorem holds for every rank, every index table, every symmetry with the
   group laws and every ring with the listed laws (ZRing and GRing have them). *)
From SV Require Import Base.Sym Base.Tensor Model.Sectors Model.Array Model.Arith Model.Wf
  Proofs.StructProofs.
From Coq Require Import Permutation.

Theorem C08_transpose_sem :
  forall (G : Symmetry), GroupLaws G -> forall (R : Ring) (x : aarray G R) (perm : list nat) (cs : list (coord G)),
  wf_array G R x = true ->
  Permutation perm (seq 0 (ndim G R x)) ->
  coords_ok G (indices G R x) cs = true ->
  sem G R (a_transpose G R x perm) (permuted (ident G, 0%nat) cs perm) = sem G R x cs /\
  indices G R (a_transpose G R x perm) = permuted (dflt_index G) (indices G R x) perm /\
  charge G R (a_transpose G R x perm) = charge G R x /\
  coords_ok G (indices G R (a_transpose G R x perm)) (permuted (ident G, 0%nat) cs perm) = true.
Proof. exact transpose_sem. Qed.

Theorem C08_conj_sem :
  forall (G : Symmetry) (R : Ring), rconj R (r0 R) = r0 R ->
  forall (x : aarray G R) (cs : list (coord G)),
  sem G R (a_conj G R x) cs = rconj R (sem G R x cs) /\
  indices G R (a_conj G R x) = map (iconj G) (indices G R x) /\
  charge G R (a_conj G R x) = sign G (charge G R x) true /\
  coords_ok G (indices G R (a_conj G R x)) cs = coords_ok G (indices G R x) cs.
Proof. exact conj_sem. Qed.

Theorem C08_iconj_spec :
  forall (G : Symmetry) (ix : index G),
  idual G (iconj G ix) = negb (idual G ix) /\ chargemap G (iconj G ix) = chargemap G ix /\
  iconj G (iconj G ix) = ix.
Proof. exact iconj_spec. Qed.

Theorem C08_dagger_sem :
  forall (G : Symmetry), GroupLaws G -> forall (R : Ring), rconj R (r0 R) = r0 R ->
  forall (x : aarray G R) (cs : list (coord G)),
  wf_array G R x = true -> coords_ok G (indices G R x) cs = true ->
  sem G R (a_dagger G R x) (rev cs) = rconj R (sem G R x cs) /\
  indices G R (a_dagger G R x) = rev (map (iconj G) (indices G R x)) /\
  charge G R (a_dagger G R x) = sign G (charge G R x) true.
Proof. exact dagger_sem. Qed.

Theorem C08_scale_sem :
  forall (G : Symmetry) (R : Ring), (forall a, rmul R (r0 R) a = r0 R) ->
  forall (x : aarray G R) (s : RT R) (cs : list (coord G)),
  sem G R (a_scale G R x s) cs = rmul R (sem G R x cs) s.
Proof. exact scale_sem. Qed.

Theorem C08_neg_sem :
  forall (G : Symmetry) (R : Ring), rneg R (r0 R) = r0 R ->
  forall (x : aarray G R) (cs : list (coord G)), sem G R (a_neg G R x) cs = rneg R (sem G R x cs).
Proof. exact neg_sem. Qed.

(* x and y may store different sector sets; only x needs to be well formed, because
   the model's blockwise addition tabulates over the left block's shape. *)
Theorem C08_add_sem :
  forall (G : Symmetry), GroupLaws G -> forall (R : Ring),
  (forall a, radd R (r0 R) a = a) -> (forall a, radd R a (r0 R) = a) ->
  forall (x y : aarray G R) (cs : list (coord G)),
  wf_array G R x = true -> coords_ok G (indices G R x) cs = true ->
  sem G R (a_add G R x y) cs = radd R (sem G R x cs) (sem G R y cs).
Proof. exact add_sem. Qed.

Theorem C08_sub_sem :
  forall (G : Symmetry), GroupLaws G -> forall (R : Ring),
  (forall a, radd R (r0 R) a = a) -> rneg R (r0 R) = r0 R ->
  forall (x y z : aarray G R) (cs : list (coord G)),
  wf_array G R x = true -> coords_ok G (indices G R x) cs = true ->
  a_sub G R x y = Some z ->
  sem G R z cs = radd R (sem G R x cs) (rneg R (sem G R y cs)).
Proof. exact sub_sem. Qed.

Theorem C08_sub_none :
  forall (G : Symmetry), GroupLaws G -> forall (R : Ring) (x y : aarray G R),
  a_sub G R x y = None <-> ~ (forall s, In s (sectors G R x) <-> In s (sectors G R y)).
Proof. exact sub_none. Qed.

Theorem C08_mul_sem :
  forall (G : Symmetry), GroupLaws G -> forall (R : Ring),
  (forall a, rmul R (r0 R) a = r0 R) -> (forall a, rmul R a (r0 R) = r0 R) ->
  forall (x y : aarray G R) (cs : list (coord G)),
  wf_array G R x = true -> coords_ok G (indices G R x) cs = true ->
  sem G R (a_mul G R x y) cs = rmul R (sem G R x cs) (sem G R y cs).
Proof. exact mul_sem. Qed.

Theorem C08_multiply_diagonal_sem :
  forall (G : Symmetry), GroupLaws G -> forall (R : Ring),
  (forall a, rmul R (r0 R) a = r0 R) -> (forall a, rmul R a (r0 R) = r0 R) ->
  forall (x : aarray G R) (v : bvec G R) (axis : nat) (cs : list (coord G)),
  wf_array G R x = true -> coords_ok G (indices G R x) cs = true ->
  sem G R (a_multiply_diagonal G R x v axis) cs =
  rmul R (sem G R x cs) (vsem G R v (nth axis cs (ident G, 0%nat))).
Proof. exact multiply_diagonal_sem. Qed.

Theorem C08_expand_dims_sem :
  forall (G : Symmetry), GroupLaws G -> forall (R : Ring) (x : aarray G R) (axis : nat) (cs : list (coord G)),
  wf_array G R x = true -> coords_ok G (indices G R x) cs = true ->
  sem G R (a_expand_dims G R x axis) (insert_nth cs axis (ident G, 0%nat)) = sem G R x cs /\
  (exists d : bool, indices G R (a_expand_dims G R x axis) = insert_nth (indices G R x) axis (unit_index G d)) /\
  charge G R (a_expand_dims G R x axis) = charge G R x /\
  coords_ok G (indices G R (a_expand_dims G R x axis)) (insert_nth cs axis (ident G, 0%nat)) = true.
Proof. exact expand_dims_sem. Qed.

Theorem C08_squeeze_sem :
  forall (G : Symmetry), GroupLaws G ->
  forall (R : Ring) (x : aarray G R) (axes : option (list nat)) (y : aarray G R) (cs : list (coord G)),
  wf_array G R x = true -> coords_ok G (indices G R x) cs = true ->
  a_squeeze G R x axes = Some y ->
  sem G R y (mask_keep (removes G R x axes) cs) = sem G R x cs /\
  indices G R y = mask_keep (removes G R x axes) (indices G R x) /\
  charge G R y = charge G R x.
Proof. exact squeeze_sem. Qed.

Theorem C08_removes_spec :
  forall (G : Symmetry) (R : Ring) (x : aarray G R) (axes : option (list nat)) (i : nat),
  (i < ndim G R x)%nat ->
  (nth i (removes G R x axes) false = true <-> selected G axes i (nth i (indices G R x) (dflt_index G))).
Proof. exact removes_spec. Qed.

Theorem C08_squeeze_none :
  forall (G : Symmetry), GroupLaws G -> forall (R : Ring) (x : aarray G R) (axes : option (list nat)),
  a_squeeze G R x axes = None <->
  (exists i : nat, (i < ndim G R x)%nat /\
     selected G axes i (nth i (indices G R x) (dflt_index G)) /\
     ~ squeezable G (nth i (indices G R x) (dflt_index G))).
Proof. exact squeeze_none. Qed.

Theorem C08_v_add_sem :
  forall (G : Symmetry), GroupLaws G -> forall (R : Ring),
  (forall a, radd R (r0 R) a = a) -> (forall a, radd R a (r0 R) = a) ->
  forall (x y : bvec G R) (co : coord G), vinb G R x co ->
  vsem G R (v_add G R x y) co = radd R (vsem G R x co) (vsem G R y co).
Proof. exact v_add_sem. Qed.

Theorem C08_v_sub_sem :
  forall (G : Symmetry), GroupLaws G -> forall (R : Ring),
  (forall a, radd R (r0 R) a = a) -> rneg R (r0 R) = r0 R ->
  forall (x y z : bvec G R) (co : coord G), vinb G R x co ->
  v_sub G R x y = Some z ->
  vsem G R z co = radd R (vsem G R x co) (rneg R (vsem G R y co)).
Proof. exact v_sub_sem. Qed.

Theorem C08_v_sub_none :
  forall (G : Symmetry), GroupLaws G -> forall (R : Ring) (x y : bvec G R),
  v_sub G R x y = None <-> ~ (forall c, In c (keys x) <-> In c (keys y)).
Proof. exact v_sub_none. Qed.

Theorem C08_v_mul_sem :
  forall (G : Symmetry), GroupLaws G -> forall (R : Ring),
  (forall a, rmul R (r0 R) a = r0 R) -> (forall a, rmul R a (r0 R) = r0 R) ->
  forall (x y : bvec G R) (co : coord G), vinb G R x co ->
  vsem G R (v_mul G R x y) co = rmul R (vsem G R x co) (vsem G R y co).
Proof. exact v_mul_sem. Qed.

Theorem C08_v_scale_sem :
  forall (G : Symmetry) (R : Ring), (forall a, rmul R (r0 R) a = r0 R) ->
  forall (x : bvec G R) (s : RT R) (co : coord G),
  vsem G R (v_scale G R x s) co = rmul R (vsem G R x co) s.
Proof. exact v_scale_sem. Qed.

Theorem C08_v_neg_sem :
  forall (G : Symmetry) (R : Ring), rneg R (r0 R) = r0 R ->
  forall (x : bvec G R) (co : coord G), vsem G R (v_neg G R x) co = rneg R (vsem G R x co).
Proof. exact v_neg_sem. Qed.

(* x.sum() is the sum of ALL dense entries (all_coords enumerates every coordinate
   of the index tables); tables_nodup = no charge listed twice in a table. *)
Theorem C08_sum_sem :
  forall (G : Symmetry), GroupLaws G -> forall (R : Ring),
  (forall a, radd R (r0 R) a = a) -> (forall a b, radd R a b = radd R b a) ->
  (forall a b c, radd R a (radd R b c) = radd R (radd R a b) c) ->
  forall (x : aarray G R), wf_array G R x = true -> tables_nodup G R x = true ->
  a_sum G R x = rsum R (map (sem G R x) (all_coords G (indices G R x))).
Proof. exact sum_sem. Qed.

Theorem C08_norm2_sem :
  forall (G : Symmetry), GroupLaws G -> forall (R : Ring),
  (forall a, radd R (r0 R) a = a) -> (forall a b, radd R a b = radd R b a) ->
  (forall a b c, radd R a (radd R b c) = radd R (radd R a b) c) ->
  (forall a, rmul R (r0 R) a = r0 R) ->
  forall (x : aarray G R), wf_array G R x = true -> tables_nodup G R x = true ->
  a_norm2 G R x = rsum R (map (fun cs => rmul R (sem G R x cs) (rconj R (sem G R x cs)))
                              (all_coords G (indices G R x))).
Proof. exact norm2_sem. Qed.

(* the extra premise of the two reductions follows from wf_array whenever the charge
   order is a strict order (true for Z.ltb and pair_ltb, i.e. all built-in symmetries) *)
Theorem C08_wf_tables_nodup :
  forall (G : Symmetry), GroupLaws G -> forall (R : Ring),
  (forall a, cltb G a a = false) ->
  (forall a b c, cltb G a b = true -> cltb G b c = true -> cltb G a c = true) ->
  forall (x : aarray G R), wf_array G R x = true -> tables_nodup G R x = true.
Proof. exact wf_tables_nodup. Qed.

Theorem C08_ZRing_laws : RingLaws ZRing.
Proof. exact ZRing_laws. Qed.

Theorem C08_GRing_laws : RingLaws GRing.
Proof. exact GRing_laws. Qed.

Print Assumptions C08_transpose_sem.
Print Assumptions C08_conj_sem.
Print Assumptions C08_iconj_spec.
Print Assumptions C08_dagger_sem.
Print Assumptions C08_scale_sem.
Print Assumptions C08_neg_sem.
Print Assumptions C08_add_sem.
Print Assumptions C08_sub_sem.
Print Assumptions C08_sub_none.
Print Assumptions C08_mul_sem.
Print Assumptions C08_multiply_diagonal_sem.
Print Assumptions C08_expand_dims_sem.
Print Assumptions C08_squeeze_sem.
Print Assumptions C08_removes_spec.
Print Assumptions C08_squeeze_none.
Print Assumptions C08_v_add_sem.
Print Assumptions C08_v_sub_sem.
Print Assumptions C08_v_sub_none.
Print Assumptions C08_v_mul_sem.
Print Assumptions C08_v_scale_sem.
Print Assumptions C08_v_neg_sem.
Print Assumptions C08_sum_sem.
Print Assumptions C08_norm2_sem.
Print Assumptions C08_wf_tables_nodup.
Print Assumptions C08_ZRing_laws.
Print Assumptions C08_GRing_laws.
