(* Props/C08.v — under construction *)
From SV Require Import Base.Prelude.
