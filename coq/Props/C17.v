(* Props/C17.v — property C17: charges form an abelian group with parity;
   sector enumeration is exact.  Statements only; proofs live in Proofs/. *)
From SV Require Import Base.Prelude Base.Sym Gen.Symmetries Model.SymInst Model.Sectors
  Proofs.SymLaws Proofs.SectorsProofs.

(* The laws are stated for the definitions GENERATED from symmray/symmetries.py:
   all integers for U1/U1U1 (stronger than the property's box [-6,6]) and all
   valid charges for the finite groups. *)
Theorem C17_Z2_group_laws : GroupLaws Z2.     Proof. exact Z2_laws. Qed.
Theorem C17_Z4_group_laws : GroupLaws Z4.     Proof. exact Z4_laws. Qed.
Theorem C17_U1_group_laws : GroupLaws U1.     Proof. exact U1_laws. Qed.
Theorem C17_Z2Z2_group_laws : GroupLaws Z2Z2. Proof. exact Z2Z2_laws. Qed.
Theorem C17_U1U1_group_laws : GroupLaws U1U1. Proof. exact U1U1_laws. Qed.

Print Assumptions C17_Z2_group_laws.
Print Assumptions C17_Z4_group_laws.
Print Assumptions C17_U1_group_laws.
Print Assumptions C17_Z2Z2_group_laws.
Print Assumptions C17_U1U1_group_laws.

(* ---- second half: the sector enumeration is exact -------------------------
   For every symmetry G satisfying the group laws, every list of charge tables
   with valid entries, one dual flag per table and a valid total charge q, the
   list gen_valid_sectors G charges duals q contains exactly the tuples s that
   pick one charge from each table and whose signed combination equals q
   (none missing, none extra), and it contains none of them twice. *)
Theorem C17_gen_valid_sectors_exact :
  forall (G : Symmetry), GroupLaws G ->
  forall (charges : list (list (C G))) (duals : list bool) (q : C G) (s : list (C G)),
    Forall (fun t => Forall (fun c => valid G c = true) t) charges ->
    length duals = length charges ->
    valid G q = true ->
    (In s (gen_valid_sectors G charges duals q)
     <-> Forall2 (fun c cs => In c cs) s charges /\ is_valid_sector G duals q s = true).
Proof. exact gen_valid_sectors_exact. Qed.

(* no repetition: holds for every G, every duals and q, with no further premise *)
Theorem C17_gen_valid_sectors_nodup :
  forall (G : Symmetry) (charges : list (list (C G))) (duals : list bool) (q : C G),
    Forall (@NoDup (C G)) charges -> NoDup (gen_valid_sectors G charges duals q).
Proof. exact gen_valid_sectors_nodup. Qed.

(* rank 0: the empty sector, present iff the total charge is the identity *)
Theorem C17_gen_valid_sectors_rank0 :
  forall (G : Symmetry), GroupLaws G ->
  forall (duals : list bool) (q : C G) (s : list (C G)),
    In s (gen_valid_sectors G [] duals q) <-> s = [] /\ q = ident G.
Proof. exact gen_valid_sectors_rank0. Qed.

(* exactness + no repetition pin the enumeration down up to order *)
Theorem C17_gen_valid_sectors_complete_perm :
  forall (G : Symmetry), GroupLaws G ->
  forall (charges : list (list (C G))) (duals : list bool) (q : C G) (l : list (list (C G))),
    Forall (fun t => Forall (fun c => valid G c = true) t) charges ->
    Forall (@NoDup (C G)) charges ->
    length duals = length charges ->
    valid G q = true ->
    NoDup l ->
    (forall s, In s l <-> Forall2 (fun c cs => In c cs) s charges
                          /\ is_valid_sector G duals q s = true) ->
    Permutation.Permutation l (gen_valid_sectors G charges duals q).
Proof. exact gen_valid_sectors_complete_perm. Qed.

(* the five built-in symmetries (for U1 and U1U1 every label is valid, so the
   validity premises disappear) *)
Theorem C17_Z2_gen_valid_sectors_exact :
  forall charges duals q s,
    tables_valid Z2 charges -> length duals = length charges -> valid Z2 q = true ->
    (In s (gen_valid_sectors Z2 charges duals q)
     <-> Forall2 (fun c cs => In c cs) s charges /\ is_valid_sector Z2 duals q s = true).
Proof. exact Z2_gen_valid_sectors_exact. Qed.
Theorem C17_Z4_gen_valid_sectors_exact :
  forall charges duals q s,
    tables_valid Z4 charges -> length duals = length charges -> valid Z4 q = true ->
    (In s (gen_valid_sectors Z4 charges duals q)
     <-> Forall2 (fun c cs => In c cs) s charges /\ is_valid_sector Z4 duals q s = true).
Proof. exact Z4_gen_valid_sectors_exact. Qed.
Theorem C17_U1_gen_valid_sectors_exact :
  forall charges duals q s,
    length duals = length charges ->
    (In s (gen_valid_sectors U1 charges duals q)
     <-> Forall2 (fun c cs => In c cs) s charges /\ is_valid_sector U1 duals q s = true).
Proof. exact U1_gen_valid_sectors_exact. Qed.
Theorem C17_Z2Z2_gen_valid_sectors_exact :
  forall charges duals q s,
    tables_valid Z2Z2 charges -> length duals = length charges -> valid Z2Z2 q = true ->
    (In s (gen_valid_sectors Z2Z2 charges duals q)
     <-> Forall2 (fun c cs => In c cs) s charges /\ is_valid_sector Z2Z2 duals q s = true).
Proof. exact Z2Z2_gen_valid_sectors_exact. Qed.
Theorem C17_U1U1_gen_valid_sectors_exact :
  forall charges duals q s,
    length duals = length charges ->
    (In s (gen_valid_sectors U1U1 charges duals q)
     <-> Forall2 (fun c cs => In c cs) s charges /\ is_valid_sector U1U1 duals q s = true).
Proof. exact U1U1_gen_valid_sectors_exact. Qed.

Theorem C17_Z2_gen_valid_sectors_nodup : forall charges duals q,
  Forall (@NoDup Z) charges -> NoDup (gen_valid_sectors Z2 charges duals q).
Proof. exact (gen_valid_sectors_nodup Z2). Qed.
Theorem C17_Z4_gen_valid_sectors_nodup : forall charges duals q,
  Forall (@NoDup Z) charges -> NoDup (gen_valid_sectors Z4 charges duals q).
Proof. exact (gen_valid_sectors_nodup Z4). Qed.
Theorem C17_U1_gen_valid_sectors_nodup : forall charges duals q,
  Forall (@NoDup Z) charges -> NoDup (gen_valid_sectors U1 charges duals q).
Proof. exact (gen_valid_sectors_nodup U1). Qed.
Theorem C17_Z2Z2_gen_valid_sectors_nodup : forall charges duals q,
  Forall (@NoDup (Z * Z)) charges -> NoDup (gen_valid_sectors Z2Z2 charges duals q).
Proof. exact (gen_valid_sectors_nodup Z2Z2). Qed.
Theorem C17_U1U1_gen_valid_sectors_nodup : forall charges duals q,
  Forall (@NoDup (Z * Z)) charges -> NoDup (gen_valid_sectors U1U1 charges duals q).
Proof. exact (gen_valid_sectors_nodup U1U1). Qed.

Print Assumptions C17_gen_valid_sectors_exact.
Print Assumptions C17_gen_valid_sectors_nodup.
Print Assumptions C17_gen_valid_sectors_rank0.
Print Assumptions C17_gen_valid_sectors_complete_perm.
Print Assumptions C17_Z2_gen_valid_sectors_exact.
Print Assumptions C17_Z4_gen_valid_sectors_exact.
Print Assumptions C17_U1_gen_valid_sectors_exact.
Print Assumptions C17_Z2Z2_gen_valid_sectors_exact.
Print Assumptions C17_U1U1_gen_valid_sectors_exact.
Print Assumptions C17_Z2_gen_valid_sectors_nodup.
Print Assumptions C17_Z4_gen_valid_sectors_nodup.
Print Assumptions C17_U1_gen_valid_sectors_nodup.
Print Assumptions C17_Z2Z2_gen_valid_sectors_nodup.
Print Assumptions C17_U1U1_gen_valid_sectors_nodup.
