(* Props/C17.v — property C17: charges form an abelian group with parity;
   sector enumeration is exact.  Statements only; proofs live in Proofs/. *)
From SV Require Import Base.Prelude Base.Sym Gen.Symmetries Model.SymInst Proofs.SymLaws.

(* The laws are stated for the definitions GENERATED from symmray/symmetries.py:
   all integers for U1/U1U1 (stronger than the property's box [-6,6]) and all
   valid charges for the finite groups. *)
Theorem C17_Z2_group_laws : GroupLaws Z2.     Proof. exact Z2_laws. Qed.
Theorem C17_Z4_group_laws : GroupLaws Z4.     Proof. exact Z4_laws. Qed.
Theorem C17_U1_group_laws : GroupLaws U1.     Proof. exact U1_laws. Qed.
Theorem C17_Z2Z2_group_laws : GroupLaws Z2Z2. Proof. exact Z2Z2_laws. Qed.
Theorem C17_U1U1_group_laws : GroupLaws U1U1. Proof. exact U1U1_laws. Qed.

Print Assumptions C17_Z2_group_laws.
Print Assumptions C17_Z4_group_laws.
Print Assumptions C17_U1_group_laws.
Print Assumptions C17_Z2Z2_group_laws.
Print Assumptions C17_U1U1_group_laws.
