(* Props/C18b.v — property C18, continuation: the PRODUCT half at element level.
   ONLY restatements of lemmas of Proofs/LocalOpsProductProofs.v.

   Props/C18.v states  C18_full := C18_elements_statement /\ C18_product_statement  and proves
   the first conjunct.  Here the second conjunct is proved, in the Fock-space reference semantics
   of Model/LocalOps.v (`vev`, `ref_element`), unbounded: any number of sites, any complete bases
   (every occupation pattern of a site's modes exactly once, operators inside a state in any
   order, sites on disjoint modes: `complete_bases`, which holds for the five documented builders,
   C18_documented_bases_complete), any term lists, any labels.

     M(T1.T2)[il, ir] = sum_k sigma(k) M(T1)[il, k] M(T2)[k, ir],
     sigma(k) = (-1)^(sum_{i<j} p_i(k) p_j(k))   (`cross_parity (site_parities bases k)`)

   sigma is the sign between the library's bra convention (per-site dagger, sites NOT reversed)
   and the true adjoint of ket(k): C18_bra_ket_sign.  The proof is a resolution of the identity
   over the complete basis, C18_resolution_of_identity.  Only `terms_within t2 bases` is used
   (B = t2 ++ ket(ir) must stay inside the span of the basis); il, ir need not be in range.
   Counter-instances in LocalOpsProductProofs.ProductExamples: without sigma, or with an
   incomplete basis, the formula is false.

   NOT covered here: the lift of this element-level identity to the
   symmray arrays through the fermionic `tensordot` (C03) and `from_dense` (C16); that half is
   checked on the real arrays by harness/c18.py. *)
From SV Require Import Base.Prelude Model.LocalOps Proofs.LocalOpsProofs Proofs.LocalOpsProductProofs Props.C18.
Open Scope Z_scope.

(* states are occupation lists up to empty tails; the Fock action respects that *)
Theorem C18_action_respects_tails : forall (ops : list op) (s t : state),
  seq_st s t -> req (apply_ops ops s) (apply_ops ops t).
Proof. exact apply_ops_ext. Qed.

(* strings compose: (X ++ Y)|s> = X (Y|s>) *)
Theorem C18_action_compose : forall (X Y : list op) (s : state),
  apply_ops (X ++ Y) s = bind_res (apply_ops Y s) (apply_ops X).
Proof. exact apply_ops_app. Qed.

(* two blocks of operators on disjoint modes commute up to (-1)^(|X||Y|), inside any string, on any state *)
Theorem C18_block_swap : forall (X Y pre post : list op) (s : state),
  (forall m, In m (labels X) -> ~ In m (labels Y)) ->
  apply_ops (pre ++ X ++ Y ++ post) s
  = scale_res (Nat.odd (length X) && Nat.odd (length Y)) (apply_ops (pre ++ Y ++ X ++ post) s).
Proof. exact block_swap. Qed.

(* <0| bra(k) ket(k) |0> = sigma(k): per-site dagger versus the full dagger *)
Theorem C18_bra_ket_sign : forall (bases : list site_basis) (k : list nat),
  complete_bases bases = true ->
  vev (bra_ops bases k ++ ket_ops bases k) = phase_z (cross_parity (site_parities bases k)).
Proof. exact bra_ket_sign. Qed.

(* what `complete_bases` means: every subset S of the modes is the label set of exactly one index *)
Theorem C18_complete_exists : forall bases, complete_bases bases = true -> forall S : nat -> bool,
  exists k0, In k0 (cart (map (@length _) bases)) /\
    forall m, In m (labels (ket_ops bases k0)) <-> (S m = true /\ In m (all_modes bases)).
Proof. exact complete_exists. Qed.

Theorem C18_complete_unique : forall bases, complete_bases bases = true ->
  forall k k', In k (cart (map (@length _) bases)) -> In k' (cart (map (@length _) bases)) ->
  (forall m, In m (labels (ket_ops bases k)) <-> In m (labels (ket_ops bases k'))) -> k = k'.
Proof. exact complete_unique. Qed.

(* resolution of the identity between two operator strings *)
Theorem C18_resolution_of_identity : forall (bases : list site_basis) (A B : list op),
  complete_bases bases = true -> incl (labels B) (all_modes bases) ->
  vev (A ++ B) = zsum (map (fun k => phase_z (cross_parity (site_parities bases k)) *
                                     vev (A ++ ket_ops bases k) * vev (bra_ops bases k ++ B))
                           (cart (map (@length _) bases))).
Proof. exact string_resolution. Qed.

(* MAIN: the product formula for the reference elements *)
Theorem C18_product_formula : forall (t1 t2 : list term) (bases : list site_basis) (il ir : list nat),
  complete_bases bases = true -> terms_within t2 bases = true ->
  ref_element (term_product t1 t2) bases il ir =
  zsum (map (fun k => phase_z (cross_parity (site_parities bases k)) *
                      ref_element t1 bases il k * ref_element t2 bases k ir) (cart (map (@length _) bases))).
Proof. exact product_formula. Qed.

(* ... for the values the library's algorithm returns *)
Theorem C18_product_formula_elements :
  forall (fuel : nat) (t1 t2 : list term) (bases : list site_basis) (il ir : list nat) (v : Z) (f1 f2 : list nat -> Z),
  complete_bases bases = true -> terms_within t2 bases = true ->
  element fuel (term_product t1 t2) bases il ir = Some v ->
  (forall k, In k (cart (map (@length _) bases)) ->
     element fuel t1 bases il k = Some (f1 k) /\ element fuel t2 bases k ir = Some (f2 k)) ->
  v = zsum (map (fun k => phase_z (cross_parity (site_parities bases k)) * f1 k * f2 k) (cart (map (@length _) bases))).
Proof. exact product_formula_elements. Qed.

(* the statement left open in Props/C18.v, and with it C18_full *)
Theorem C18_product_spec : C18_product_statement.
Proof. exact product_statement. Qed.

Theorem C18_full_proved : C18_full.
Proof. exact full_statement. Qed.

Print Assumptions C18_action_respects_tails.
Print Assumptions C18_action_compose.
Print Assumptions C18_block_swap.
Print Assumptions C18_bra_ket_sign.
Print Assumptions C18_complete_exists.
Print Assumptions C18_complete_unique.
Print Assumptions C18_resolution_of_identity.
Print Assumptions C18_product_formula.
Print Assumptions C18_product_formula_elements.
Print Assumptions C18_product_spec.
Print Assumptions C18_full_proved.
