(* Props/C13.v — property C13: truncated SVD keeps exactly what its cutoff and
   bond limit prescribe.  Statements only; proofs live in Proofs/TruncProofs.v.

   Model/Trunc.v is the selection logic of symmray.linalg.svd_truncated and
   calc_sub_max_bonds over exact values (tied to the code by the correspondence
   run of harness/c13.py).  `thr_cut_impl` is the threshold exactly as the code
   computes it (including `sall[-0] = sall[0]`), `thr_cut_spec` the repaired
   rule (cumulative cutoff above the total weight keeps nothing, like modes 1, 2).
   A cutoff is the rational p/q; `within_total` says the cumulative cutoff does
   not exceed the total weight.

   All theorems are unbounded: any number of sectors, any values.  Hypotheses:
   each block's values are non-increasing (`sectors_desc`, LAPACK's contract)
   and non-negative (`sectors_nonneg`).  Examples showing they are satisfiable
   on a non-trivial instance: TruncProofs.ex_shapes, ex_within, ex_bond_tie,
   ex_no_cutoff.

   NOT covered by a theorem (checked on the implementation by the oracle of
   harness/c13.py only): equality of the three absorb variants, the
   squared-error identity, validity of the factors beyond their bond table.
   These need the tensor / LAPACK-oracle layer (Tensor.v, Linalg.v). *)
From SV Require Import Base.Prelude Model.Trunc Proofs.TruncProofs.

(* every kept value is (strictly) above every discarded one, across all charges;
   holds for the code as written and for the repaired rule *)
Theorem C13_kept_ge_discarded :
  forall thr m p q mb secs counts,
    0 < q -> 0 < p -> sectors_desc secs ->
    sub_max_bonds thr m p q mb secs = Some counts ->
    forall k d, In k (concat (kept_of secs counts)) -> In d (concat (disc_of secs counts)) -> d < k.
Proof. exact kept_ge_discarded. Qed.

(* kept = values passing the final threshold, discarded = values failing it *)
Theorem C13_kept_is_threshold_set :
  forall thr m p q mb secs, 0 < q -> sectors_desc secs ->
    let a := final_threshold thr m p q mb secs in
    let counts := sub_counts_cut thr m p q mb secs in
    (forall k, In k (concat (kept_of secs counts)) -> a <= q * k) /\
    (forall d, In d (concat (disc_of secs counts)) -> q * d < a).
Proof. exact cut_kept_discarded. Qed.

(* "intersected with the bond limit" *)
Theorem C13_final_is_intersection :
  forall q mb sall a s, 0 < q -> 0 < mb < Z.of_nat (length sall) ->
    (fold_bond q mb sall a <= q * s <-> a <= q * s /\ bond_value mb sall <= s).
Proof. exact final_is_intersection. Qed.

(* cumulative rules: the discarded set {s : q*s < a} has weight below the cutoff
   and contains every lower set {s < t} of weight below the cutoff — it is the
   largest such set (the longest ascending prefix when the boundary is not tied) *)
Theorem C13_cutoff_maximal :
  forall m p q sall,
    cumulative m = true -> 0 < q -> asc sall -> nonneg sall -> sall <> [] ->
    let rhs := rhs_of m p sall in
    let a := thr_cut_spec m p q sall in
    (0 < rhs -> q * weight m (filter (fun s => q * s <? a) sall) < rhs) /\
    (forall t, q * weight m (filter (fun s => s <? t) sall) < rhs ->
               forall s, In s sall -> s < t -> q * s < a).
Proof. exact cutoff_maximal_spec. Qed.

Theorem C13_cutoff_maximal_impl_within_total :
  forall m p q sall,
    cumulative m = true -> 0 < q -> asc sall -> nonneg sall -> sall <> [] ->
    within_total m p q sall ->
    let rhs := rhs_of m p sall in
    let a := thr_cut_impl m p q sall in
    (0 < rhs -> q * weight m (filter (fun s => q * s <? a) sall) < rhs) /\
    (forall t, q * weight m (filter (fun s => s <? t) sall) < rhs ->
               forall s, In s sall -> s < t -> q * s < a).
Proof. exact cutoff_maximal_impl. Qed.

(* a larger cutoff never keeps more, in any sector *)
Theorem C13_cutoff_monotone :
  forall m p p' q mb secs counts counts',
    0 < q -> 0 < p -> p <= p' -> sectors_nonneg secs -> all_values secs <> [] ->
    sub_max_bonds thr_cut_spec m p q mb secs = Some counts ->
    sub_max_bonds thr_cut_spec m p' q mb secs = Some counts' ->
    Forall2 le counts' counts.
Proof. exact cutoff_monotone_spec. Qed.

Theorem C13_cutoff_monotone_impl_within_total :
  forall m p p' q mb secs counts counts',
    0 < q -> 0 < p -> p <= p' -> sectors_nonneg secs -> all_values secs <> [] ->
    within_total m p' q (sort_asc (all_values secs)) ->
    sub_max_bonds thr_cut_impl m p q mb secs = Some counts ->
    sub_max_bonds thr_cut_impl m p' q mb secs = Some counts' ->
    Forall2 le counts' counts.
Proof. exact cutoff_monotone_impl. Qed.

(* bond limit, ties characterised exactly: with v the max_bond-th largest value,
   kept <= #{s >= v}, and #{s > v} < max_bond <= #{s >= v}; without a tie at the
   boundary at most max_bond values are kept *)
Theorem C13_bond_limit :
  forall thr m p q mb secs counts,
    0 < q -> 0 < p -> 0 < mb ->
    sub_max_bonds thr m p q mb secs = Some counts ->
    let sall := sort_asc (all_values secs) in
    (Z.of_nat (length sall) <= mb -> Z.of_nat (total_kept counts) <= mb) /\
    (mb < Z.of_nat (length sall) ->
       let v := bond_value mb sall in
       (total_kept counts <= count_true (fun s => (v <=? s)%Z) sall)%nat /\
       (count_true (fun s => (v <? s)%Z) sall < Z.to_nat mb <= count_true (fun s => (v <=? s)%Z) sall)%nat /\
       (no_tie_at_bond mb sall -> Z.of_nat (total_kept counts) <= mb)).
Proof. exact bond_limit. Qed.

(* no cutoff: calc_sub_max_bonds over exact rationals *)
Theorem C13_no_cutoff_total :
  forall sizes mb res,
    positive_sizes sizes ->
    calc_sub_max_bonds sizes mb = Some res ->
    length res = length sizes /\
    (mb < 0 -> res = sizes) /\
    (0 <= mb -> zsum res = Z.min mb (zsum sizes)) /\
    (forall j, (j < length sizes)%nat -> 0 <= nth j res 0 <= nth j sizes 0) /\
    (0 <= mb < zsum sizes -> forall j, (j < length sizes)%nat ->
        mb * nth j sizes 0 / zsum sizes <= nth j res 0 <= mb * nth j sizes 0 / zsum sizes + 1).
Proof. exact no_cutoff_total. Qed.

(* the remainder distribution for ANY floor list (covers Python's float floor) *)
Theorem C13_distribute_contract :
  forall base mb,
    0 <= mb - zsum base <= Z.of_nat (length base) ->
    length (distribute base mb) = length base /\
    zsum (distribute base mb) = mb /\
    (forall j, nth j base 0 <= nth j (distribute base mb) 0 <= nth j base 0 + 1).
Proof. exact distribute_contract. Qed.

Theorem C13_no_cutoff_bond_dimension :
  forall thr m p q mb secs counts,
    p <= 0 -> (forall cs, In cs secs -> snd cs <> []) ->
    sub_max_bonds thr m p q mb secs = Some counts ->
    let rank := Z.of_nat (length (all_values secs)) in
    length counts = length secs /\
    Z.of_nat (total_kept counts) = (if mb <? 0 then rank else Z.min mb rank) /\
    (forall j, (j < length secs)%nat -> (nth j counts 0 <= length (snd (nth j secs (0%Z, []))))%nat).
Proof. exact no_cutoff_bond_dimension. Qed.

(* slicing keeps the largest values within each charge (both branches) *)
Theorem C13_largest_within_each_charge :
  forall secs counts j,
    sectors_desc secs -> length counts = length secs -> (j < length secs)%nat ->
    forall k d, In k (nth j (kept_of secs counts) []) -> In d (nth j (disc_of secs counts) []) -> d <= k.
Proof. exact largest_within_each_charge. Qed.

(* ---- F7: what the code does when a cumulative cutoff exceeds the total weight *)
Theorem C13_impl_above_total_keeps_all :
  forall m p q sall,
    cumulative m = true -> 0 < q -> asc sall -> nonneg sall -> sall <> [] ->
    q * weight m sall < rhs_of m p sall ->
    forall s, In s sall -> thr_cut_impl m p q sall <= q * s.
Proof. exact impl_above_total_keeps_all. Qed.

Theorem C13_spec_above_total_keeps_none :
  forall m p q sall,
    cumulative m = true -> 0 < q -> asc sall -> nonneg sall -> sall <> [] ->
    q * weight m sall < rhs_of m p sall ->
    forall s, In s sall -> q * s < thr_cut_spec m p q sall.
Proof. exact spec_above_total_keeps_none. Qed.

(* the property's monotonicity clause, unrestricted, for the code as written *)
Definition C13_monotone_full : Prop := monotone_unrestricted.

Theorem C13_monotone_full_refuted : ~ C13_monotone_full.
Proof. exact monotone_unrestricted_refuted. Qed.

Theorem C13_impl_above_total_refuted :
  exists m p p' q mb secs counts counts',
    0 < q /\ 0 < p /\ p <= p' /\ sectors_desc secs /\ sectors_nonneg secs /\ all_values secs <> [] /\
    sub_max_bonds thr_cut_impl m p q mb secs = Some counts /\
    sub_max_bonds thr_cut_impl m p' q mb secs = Some counts' /\
    (total_kept counts < total_kept counts')%nat /\
    sub_max_bonds thr_cut_spec m p' q mb secs = Some [0; 0]%nat /\
    sub_max_bonds thr_cut_impl MAbs p' q mb secs = Some [0; 0]%nat.
Proof. exact impl_above_total_refuted. Qed.

Theorem C13_impl_not_maximal_refuted :
  exists m p q sall,
    cumulative m = true /\ 0 < q /\ asc sall /\ nonneg sall /\ sall <> [] /\
    ~ (forall t, q * weight m (filter (fun s => s <? t) sall) < rhs_of m p sall ->
                 forall s, In s sall -> s < t -> q * s < thr_cut_impl m p q sall).
Proof. exact impl_not_maximal_refuted. Qed.

Print Assumptions C13_kept_ge_discarded.
Print Assumptions C13_kept_is_threshold_set.
Print Assumptions C13_final_is_intersection.
Print Assumptions C13_cutoff_maximal.
Print Assumptions C13_cutoff_maximal_impl_within_total.
Print Assumptions C13_cutoff_monotone.
Print Assumptions C13_cutoff_monotone_impl_within_total.
Print Assumptions C13_bond_limit.
Print Assumptions C13_no_cutoff_total.
Print Assumptions C13_distribute_contract.
Print Assumptions C13_no_cutoff_bond_dimension.
Print Assumptions C13_largest_within_each_charge.
Print Assumptions C13_impl_above_total_keeps_all.
Print Assumptions C13_spec_above_total_keeps_none.
Print Assumptions C13_monotone_full_refuted.
Print Assumptions C13_impl_above_total_refuted.
Print Assumptions C13_impl_not_maximal_refuted.
