(* Props/C13.v — property C13: truncated SVD keeps exactly what its cutoff and
   bond limit prescribe.  Statements only; proofs live in Proofs/TruncProofs.v.

   Model/Trunc.v is the selection logic of symmray.linalg.svd_truncated and
   calc_sub_max_bonds over exact values; `trunc` / `thr_cut` is the model of the
   CURRENT code and is what the correspondence run of harness/c13.py ties to
   the implementation.  When a cumulative cutoff exceeds the total weight the
   code sets abs_cutoff = +inf (guard `n_chi_all == 0`); +inf is represented by
   a numerator above every value (see `C13_inf_standin`).
   A cutoff is the rational p/q.

   All theorems are unbounded: any number of sectors, any values.  Hypotheses:
   each block's values are non-increasing (`sectors_desc`, LAPACK's contract)
   and non-negative (`sectors_nonneg`).  Examples showing they are satisfiable
   on a non-trivial instance: TruncProofs.ex_shapes, ex_within (incl. a cutoff
   above the total weight), ex_bond_tie, ex_no_cutoff.

   NOT covered by a theorem (checked on the implementation by the oracle of
   harness/c13.py only): equality of the three absorb variants, the
   squared-error identity, validity of the factors beyond their bond table.
   These need the tensor / LAPACK-oracle layer (Tensor.v, Linalg.v). *)
From SV Require Import Base.Prelude Model.Trunc Proofs.TruncProofs.

(* every kept value is (strictly) above every discarded one, across all charges;
   stated for any threshold rule `thr`, in particular `thr_cut` *)
Theorem C13_kept_ge_discarded :
  forall thr m p q mb secs counts,
    0 < q -> 0 < p -> sectors_desc secs ->
    sub_max_bonds thr m p q mb secs = Some counts ->
    forall k d, In k (concat (kept_of secs counts)) -> In d (concat (disc_of secs counts)) -> d < k.
Proof. exact kept_ge_discarded. Qed.

(* kept = values passing the final threshold, discarded = values failing it *)
Theorem C13_kept_is_threshold_set :
  forall thr m p q mb secs, 0 < q -> sectors_desc secs ->
    let a := final_threshold thr m p q mb secs in
    let counts := sub_counts_cut thr m p q mb secs in
    (forall k, In k (concat (kept_of secs counts)) -> a <= q * k) /\
    (forall d, In d (concat (disc_of secs counts)) -> q * d < a).
Proof. exact cut_kept_discarded. Qed.

(* "intersected with the bond limit" *)
Theorem C13_final_is_intersection :
  forall q mb sall a s, 0 < q -> 0 < mb < Z.of_nat (length sall) ->
    (fold_bond q mb sall a <= q * s <-> a <= q * s /\ bond_value mb sall <= s).
Proof. exact final_is_intersection. Qed.

(* cumulative rules: the discarded set {s : q*s < a} has weight below the cutoff
   and contains every lower set {s < t} of weight below the cutoff — it is the
   largest such set (the longest ascending prefix when the boundary is not tied) *)
Theorem C13_cutoff_maximal :
  forall m p q sall,
    cumulative m = true -> 0 < q -> asc sall -> nonneg sall -> sall <> [] ->
    let rhs := rhs_of m p sall in
    let a := thr_cut m p q sall in
    (0 < rhs -> q * weight m (filter (fun s => q * s <? a) sall) < rhs) /\
    (forall t, q * weight m (filter (fun s => s <? t) sall) < rhs ->
               forall s, In s sall -> s < t -> q * s < a).
Proof. exact cutoff_maximal. Qed.

(* a larger cutoff never keeps more, in any sector *)
Theorem C13_cutoff_monotone :
  forall m p p' q mb secs counts counts',
    0 < q -> 0 < p -> p <= p' -> sectors_nonneg secs -> all_values secs <> [] ->
    sub_max_bonds thr_cut m p q mb secs = Some counts ->
    sub_max_bonds thr_cut m p' q mb secs = Some counts' ->
    Forall2 le counts' counts.
Proof. exact cutoff_monotone. Qed.

(* bond limit, ties characterised exactly: with v the max_bond-th largest value,
   kept <= #{s >= v}, and #{s > v} < max_bond <= #{s >= v}; without a tie at the
   boundary at most max_bond values are kept *)
Theorem C13_bond_limit :
  forall thr m p q mb secs counts,
    0 < q -> 0 < p -> 0 < mb ->
    sub_max_bonds thr m p q mb secs = Some counts ->
    let sall := sort_asc (all_values secs) in
    (Z.of_nat (length sall) <= mb -> Z.of_nat (total_kept counts) <= mb) /\
    (mb < Z.of_nat (length sall) ->
       let v := bond_value mb sall in
       (total_kept counts <= count_true (fun s => (v <=? s)%Z) sall)%nat /\
       (count_true (fun s => (v <? s)%Z) sall < Z.to_nat mb <= count_true (fun s => (v <=? s)%Z) sall)%nat /\
       (no_tie_at_bond mb sall -> Z.of_nat (total_kept counts) <= mb)).
Proof. exact bond_limit. Qed.

(* no cutoff: calc_sub_max_bonds over exact rationals *)
Theorem C13_no_cutoff_total :
  forall sizes mb res,
    positive_sizes sizes ->
    calc_sub_max_bonds sizes mb = Some res ->
    length res = length sizes /\
    (mb < 0 -> res = sizes) /\
    (0 <= mb -> zsum res = Z.min mb (zsum sizes)) /\
    (forall j, (j < length sizes)%nat -> 0 <= nth j res 0 <= nth j sizes 0) /\
    (0 <= mb < zsum sizes -> forall j, (j < length sizes)%nat ->
        mb * nth j sizes 0 / zsum sizes <= nth j res 0 <= mb * nth j sizes 0 / zsum sizes + 1).
Proof. exact no_cutoff_total. Qed.

(* the remainder distribution for ANY floor list (covers Python's float floor) *)
Theorem C13_distribute_contract :
  forall base mb,
    0 <= mb - zsum base <= Z.of_nat (length base) ->
    length (distribute base mb) = length base /\
    zsum (distribute base mb) = mb /\
    (forall j, nth j base 0 <= nth j (distribute base mb) 0 <= nth j base 0 + 1).
Proof. exact distribute_contract. Qed.

Theorem C13_no_cutoff_bond_dimension :
  forall thr m p q mb secs counts,
    p <= 0 -> (forall cs, In cs secs -> snd cs <> []) ->
    sub_max_bonds thr m p q mb secs = Some counts ->
    let rank := Z.of_nat (length (all_values secs)) in
    length counts = length secs /\
    Z.of_nat (total_kept counts) = (if mb <? 0 then rank else Z.min mb rank) /\
    (forall j, (j < length secs)%nat -> (nth j counts 0 <= length (snd (nth j secs (0%Z, []))))%nat).
Proof. exact no_cutoff_bond_dimension. Qed.

(* slicing keeps the largest values within each charge (both branches) *)
Theorem C13_largest_within_each_charge :
  forall secs counts j,
    sectors_desc secs -> length counts = length secs -> (j < length secs)%nat ->
    forall k d, In k (nth j (kept_of secs counts) []) -> In d (nth j (disc_of secs counts) []) -> d <= k.
Proof. exact largest_within_each_charge. Qed.

(* ---- a cumulative cutoff above the total weight keeps nothing (guard n_chi_all == 0;
   before fix d8706ac the code kept everything here, see notes/C13.md) *)
Theorem C13_above_total_keeps_none :
  forall m p q sall,
    cumulative m = true -> 0 < q -> asc sall -> nonneg sall -> sall <> [] ->
    q * weight m sall < rhs_of m p sall ->
    forall s, In s sall -> q * s < thr_cut m p q sall.
Proof. exact above_total_keeps_none. Qed.

Theorem C13_above_total_nothing_kept :
  forall m p q mb secs,
    cumulative m = true -> 0 < q -> 0 < p -> sectors_nonneg secs -> all_values secs <> [] ->
    q * weight m (sort_asc (all_values secs)) < rhs_of m p (sort_asc (all_values secs)) ->
    sub_max_bonds thr_cut m p q mb secs = Some (map (fun _ => 0%nat) secs) /\
    new_chargemap secs (map (fun _ => 0%nat) secs) = [].
Proof. exact above_total_nothing_kept. Qed.

(* +inf stand-in: ANY numerator above every value is unchanged by the bond fold
   and passed by no value, as float("inf") is *)
Theorem C13_inf_standin :
  forall q mb sall a, (forall s, In s sall -> q * s < a) ->
    fold_bond q mb sall a = a /\ (forall ss, (forall s, In s ss -> In s sall) -> keep_count q a ss = 0%nat).
Proof. exact inf_standin. Qed.

Print Assumptions C13_kept_ge_discarded.
Print Assumptions C13_kept_is_threshold_set.
Print Assumptions C13_final_is_intersection.
Print Assumptions C13_cutoff_maximal.
Print Assumptions C13_cutoff_monotone.
Print Assumptions C13_bond_limit.
Print Assumptions C13_no_cutoff_total.
Print Assumptions C13_distribute_contract.
Print Assumptions C13_no_cutoff_bond_dimension.
Print Assumptions C13_largest_within_each_charge.
Print Assumptions C13_above_total_keeps_none.
Print Assumptions C13_above_total_nothing_kept.
Print Assumptions C13_inf_standin.
