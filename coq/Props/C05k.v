(* Props/C05k.v — continuation of Props/C05.v (audited together with it): the GENERATED second fusing strategy.
   Statements only; proofs in Proofs/ConcatGenProofs.v.

   tr/gen_concat.py -> Gen/ConcatGen.v: `_fuse_blocks_via_concat` of symmray/abelian_core.py is TRANSLATED from the
   current source on every run: the loop that groups the transposed + reshaped sub-blocks by fused sector and by the
   tuple of their sub-sectors (`new_blocks.setdefault(new_sector, {})[subsectors] = ..`), the nested recursive helper
   `_recurse_concat` (closure-converted into the Fixpoint `gen_recurse_concat` on explicit fuel: which sub-sectors of
   which group are enumerated and in which order — the one charge of a single-axis group, the keys of
   `new_indices[position + g].subinfo.extents[new_charge]` otherwise —, at the last group the stored sub-block or, on
   KeyError, the zero filler of shape shape_before + shape_new + shape_after, otherwise the recursive calls; the
   concatenation along axis `position + g`) and the dict comprehension that is returned.

   C05k_gen_concat_is_model: applied to the tables of the GENERATED calc_fuse_block_info (Gen/FuseGen.v, C05i) exactly
   as `_fuse_core` applies it, the generated function returns the block dict of the hand model
   Model/FuseConcat.fuse_concat — Leibniz equality of the association list: insertion order and every tensor —
   for EVERY fuel >= the number of groups (so the out-of-fuel default is never reached; the recursion depth is the
   number of groups).  Hypotheses: `ceqb G` decides equality of charges, groups_ok, and `groups <> []` (with no group
   at all Python's `min(())` in calc_fuse_group_info raises before this function is reached).  The array is
   arbitrary.  C05k_gen_concat_core_is_model: hence the array `_fuse_core(mode="concat")` builds IS
   `fuse_concat x groups`, the object of Props/C05c.v.  C05k_gen_strategies_agree: with C05_concat_eq_insert (C05c)
   and C05i_gen_insert_is_model, the two GENERATED strategies return the same dict on every wf_array. *)
From SV Require Import Base.Prelude Base.Sym Base.Tensor Model.Sectors Model.Array Model.Wf Model.FuseConcat
  Proofs.OrderProofs Proofs.HelpersProofs.
From SV Require Base.PyList Gen.Helpers Gen.FuseGen Gen.ConcatGen.
From SV Require Import Proofs.ConcatGenProofs.
Local Open Scope nat_scope.

Theorem C05k_gen_concat_is_model : forall (G : Symmetry) (R : Ring), eqb_spec_on (ceqb G) ->
  forall (x : aarray G R) (groups : list (list nat)), groups_ok (ndim G R x) groups -> groups <> [] ->
  forall fuel : nat, length groups <= fuel ->
  ConcatGen.gen_fuse_blocks_via_concat G R fuel (indices G R x) (blocks G R x)
    (FuseGen.cfbi_num_groups G R x (zg groups)) (FuseGen.cfbi_group_singlets G R x (zg groups))
    (FuseGen.cfbi_perm G R x (zg groups)) (FuseGen.cfbi_position G R x (zg groups))
    (FuseGen.cfbi_axes_before G R x (zg groups)) (FuseGen.cfbi_axes_after G R x (zg groups))
    (FuseGen.cfbi_new_axes G R x (zg groups)) (FuseGen.cfbi_new_indices G R x (zg groups))
    (FuseGen.cfbi_blockmap G R x (zg groups)) =
  blocks G R (fuse_concat G R x groups).
Proof. exact gen_concat_eq_model. Qed.

Theorem C05k_gen_concat_core_is_model : forall (G : Symmetry) (R : Ring), GroupLaws G ->
  forall (x : aarray G R) (groups : list (list nat)), groups_ok (ndim G R x) groups -> groups <> [] ->
  forall fuel : nat, length groups <= fuel ->
  mkA G R (FuseGen.cfbi_new_indices G R x (zg groups)) (charge G R x)
    (ConcatGen.gen_fuse_blocks_via_concat G R fuel (indices G R x) (blocks G R x)
       (FuseGen.cfbi_num_groups G R x (zg groups)) (FuseGen.cfbi_group_singlets G R x (zg groups))
       (FuseGen.cfbi_perm G R x (zg groups)) (FuseGen.cfbi_position G R x (zg groups))
       (FuseGen.cfbi_axes_before G R x (zg groups)) (FuseGen.cfbi_axes_after G R x (zg groups))
       (FuseGen.cfbi_new_axes G R x (zg groups)) (FuseGen.cfbi_new_indices G R x (zg groups))
       (FuseGen.cfbi_blockmap G R x (zg groups))) =
  fuse_concat G R x groups.
Proof. exact gen_concat_core_eq_model. Qed.

Theorem C05k_gen_strategies_agree : forall (G : Symmetry) (R : Ring), GroupLaws G -> OrderLaws G ->
  forall (x : aarray G R) (groups : list (list nat)),
  wf_array G R x = true -> groups_ok (ndim G R x) groups -> groups <> [] ->
  forall fuel : nat, length groups <= fuel ->
  ConcatGen.gen_fuse_blocks_via_concat G R fuel (indices G R x) (blocks G R x)
    (FuseGen.cfbi_num_groups G R x (zg groups)) (FuseGen.cfbi_group_singlets G R x (zg groups))
    (FuseGen.cfbi_perm G R x (zg groups)) (FuseGen.cfbi_position G R x (zg groups))
    (FuseGen.cfbi_axes_before G R x (zg groups)) (FuseGen.cfbi_axes_after G R x (zg groups))
    (FuseGen.cfbi_new_axes G R x (zg groups)) (FuseGen.cfbi_new_indices G R x (zg groups))
    (FuseGen.cfbi_blockmap G R x (zg groups)) =
  FuseGen.gen_fuse_blocks_via_insert G R (blocks G R x)
    (FuseGen.cfbi_num_groups G R x (zg groups)) (FuseGen.cfbi_group_singlets G R x (zg groups))
    (FuseGen.cfbi_perm G R x (zg groups)) (FuseGen.cfbi_position G R x (zg groups))
    (FuseGen.cfbi_new_indices G R x (zg groups)) (FuseGen.cfbi_blockmap G R x (zg groups)).
Proof. exact gen_strategies_agree. Qed.

Print Assumptions C05k_gen_concat_is_model.
Print Assumptions C05k_gen_concat_core_is_model.
Print Assumptions C05k_gen_strategies_agree.
