(* Props/C17b.v — property C17, continuation: the sector-enumeration clause for
   the functions GENERATED (tr/gen_sectors.py -> Gen/SectorsGen.v) from the
   current source of AbelianArray.is_valid_sector / AbelianArray.gen_valid_sectors.
   Statements only; proofs live in Proofs/SectorsGenProofs.v.

   An array is (indices, charge) over a symmetry G; an index is the pair
   (its charges in dict order, its dual flag).  gen_valid_sectors_gen returns
   an option: None would mean that the Python generator raised. *)
From SV Require Import Base.Prelude Base.Sym Gen.Symmetries Model.SymInst Model.Sectors Gen.SectorsGen
  Proofs.SymLaws Proofs.SectorsProofs Proofs.SectorsGenProofs.

(* ---- the generated functions ARE the model the theorems of Props/C17.v speak about:
   for every symmetry record (no law needed), all indices, every charge, rank 0 included;
   in particular the generator never raises *)
Theorem C17_gen_valid_sectors_is_model :
  forall (G : Symmetry) (indices : list (list (C G) * bool)) (charge : C G),
    gen_valid_sectors_gen G indices charge
    = Some (gen_valid_sectors G (map fst indices) (map snd indices) charge).
Proof. exact gen_valid_sectors_gen_model. Qed.

Theorem C17_is_valid_sector_is_model :
  forall (G : Symmetry) (indices : list (list (C G) * bool)) (charge : C G) (sector : list (C G)),
    is_valid_sector_gen G indices charge sector = is_valid_sector G (map snd indices) charge sector.
Proof. exact is_valid_sector_gen_model. Qed.

(* the same over separate tables of charges and dual flags, the form of Props/C17.v *)
Theorem C17_gen_valid_sectors_is_model_tables :
  forall (G : Symmetry) (charges : list (list (C G))) (duals : list bool) (charge : C G),
    length duals = length charges ->
    gen_valid_sectors_gen G (List.combine charges duals) charge
    = Some (gen_valid_sectors G charges duals charge).
Proof. exact gen_valid_sectors_gen_model_tables. Qed.

Theorem C17_is_valid_sector_is_model_tables :
  forall (G : Symmetry) (charges : list (list (C G))) (duals : list bool) (charge : C G) (sector : list (C G)),
    length duals = length charges ->
    is_valid_sector_gen G (List.combine charges duals) charge sector = is_valid_sector G duals charge sector.
Proof. exact is_valid_sector_gen_model_tables. Qed.

(* ---- the enumeration is exact, stated for the generated functions alone:
   for every G with the group laws, indices whose charges are valid and a valid total
   charge q, the generator terminates without raising and yields exactly the tuples that
   pick one charge from each index and that the generated is_valid_sector accepts *)
Theorem C17_gen_sectors_exact :
  forall (G : Symmetry), GroupLaws G ->
  forall (indices : list (list (C G) * bool)) (q : C G),
    Forall (fun ix => Forall (fun c => valid G c = true) (fst ix)) indices ->
    valid G q = true ->
    exists l, gen_valid_sectors_gen G indices q = Some l /\
      forall s, In s l <-> Forall2 (fun c ix => In c (fst ix)) s indices
                           /\ is_valid_sector_gen G indices q s = true.
Proof. exact gen_sectors_exact. Qed.

(* none twice: for every G, with no law and no validity premise *)
Theorem C17_gen_sectors_nodup :
  forall (G : Symmetry) (indices : list (list (C G) * bool)) (q : C G),
    Forall (fun ix => NoDup (fst ix)) indices ->
    exists l, gen_valid_sectors_gen G indices q = Some l /\ NoDup l.
Proof. exact gen_sectors_nodup. Qed.

(* rank 0: the empty sector, present iff the total charge is the identity *)
Theorem C17_gen_sectors_rank0 :
  forall (G : Symmetry), GroupLaws G -> forall (q : C G),
    exists l, gen_valid_sectors_gen G [] q = Some l /\ forall s, In s l <-> s = [] /\ q = ident G.
Proof. exact gen_sectors_rank0. Qed.

(* exactness + no repetition pin the enumeration down up to order *)
Theorem C17_gen_sectors_complete_perm :
  forall (G : Symmetry), GroupLaws G ->
  forall (indices : list (list (C G) * bool)) (q : C G) (l : list (list (C G))),
    Forall (fun ix => Forall (fun c => valid G c = true) (fst ix)) indices ->
    Forall (fun ix => NoDup (fst ix)) indices ->
    valid G q = true ->
    NoDup l ->
    (forall s, In s l <-> Forall2 (fun c ix => In c (fst ix)) s indices
                          /\ is_valid_sector_gen G indices q s = true) ->
    exists l', gen_valid_sectors_gen G indices q = Some l' /\ Permutation.Permutation l l'.
Proof. exact gen_sectors_complete_perm. Qed.

(* the five built-in symmetries, group operations generated from symmetries.py *)
Theorem C17_Z2_gen_sectors_exact :
  forall indices q, indices_valid Z2 indices -> valid Z2 q = true ->
    exists l, gen_valid_sectors_gen Z2 indices q = Some l /\
      forall s, In s l <-> picks Z2 s indices /\ is_valid_sector_gen Z2 indices q s = true.
Proof. exact Z2_gen_sectors_exact. Qed.
Theorem C17_Z4_gen_sectors_exact :
  forall indices q, indices_valid Z4 indices -> valid Z4 q = true ->
    exists l, gen_valid_sectors_gen Z4 indices q = Some l /\
      forall s, In s l <-> picks Z4 s indices /\ is_valid_sector_gen Z4 indices q s = true.
Proof. exact Z4_gen_sectors_exact. Qed.
Theorem C17_Z2Z2_gen_sectors_exact :
  forall indices q, indices_valid Z2Z2 indices -> valid Z2Z2 q = true ->
    exists l, gen_valid_sectors_gen Z2Z2 indices q = Some l /\
      forall s, In s l <-> picks Z2Z2 s indices /\ is_valid_sector_gen Z2Z2 indices q s = true.
Proof. exact Z2Z2_gen_sectors_exact. Qed.
(* for U1 and U1U1 every label is valid: no premise at all *)
Theorem C17_U1_gen_sectors_exact :
  forall indices q,
    exists l, gen_valid_sectors_gen U1 indices q = Some l /\
      forall s, In s l <-> picks U1 s indices /\ is_valid_sector_gen U1 indices q s = true.
Proof. exact U1_gen_sectors_exact. Qed.
Theorem C17_U1U1_gen_sectors_exact :
  forall indices q,
    exists l, gen_valid_sectors_gen U1U1 indices q = Some l /\
      forall s, In s l <-> picks U1U1 s indices /\ is_valid_sector_gen U1U1 indices q s = true.
Proof. exact U1U1_gen_sectors_exact. Qed.

Print Assumptions C17_gen_valid_sectors_is_model.
Print Assumptions C17_is_valid_sector_is_model.
Print Assumptions C17_gen_valid_sectors_is_model_tables.
Print Assumptions C17_is_valid_sector_is_model_tables.
Print Assumptions C17_gen_sectors_exact.
Print Assumptions C17_gen_sectors_nodup.
Print Assumptions C17_gen_sectors_rank0.
Print Assumptions C17_gen_sectors_complete_perm.
Print Assumptions C17_Z2_gen_sectors_exact.
Print Assumptions C17_Z4_gen_sectors_exact.
Print Assumptions C17_Z2Z2_gen_sectors_exact.
Print Assumptions C17_U1_gen_sectors_exact.
Print Assumptions C17_U1U1_gen_sectors_exact.
