(* Props/C08g.v — continuation of Props/C08.v (audited together with it):
   the functions of symmray/interface.py are plain forwarders (generated data,
   Gen/Interface.v).  Statements only; proofs in Proofs/InterfaceProofs.v. *)
From Coq Require Import List.
Import ListNotations.

(* ------------------------------------------------------------------------------------
   C08, interface tie: the module-level functions of symmray/interface.py (conj,
   squeeze, transpose, multiply_diagonal, ...) are plain forwarders to the method of the
   same name on their array argument, so the method-level theorems of C08 are also
   statements (Props/C08.v) about symmray.<name>(x, ...).  Gen/Interface.v is regenerated from the
   current source by tr/gen_interface.py (one `ientry` per public top-level def,
   classified by the exact syntactic shape of its body; anything unrecognised becomes
   IOther / AOther and falsifies the theorems); proofs are in Proofs/InterfaceProofs.v.
   `interface` is the finite list the source itself defines, hence the theorems are
   decided by computation and lifted to `forall e, In e interface`.
   ------------------------------------------------------------------------------------ *)
From Coq Require Import Strings.String.
From SV Require Import Gen.Interface Proofs.InterfaceProofs.

(* Every public function except tensordot (singledispatch stub) and abs/sqrt/log/log2/log10
   (try x.f() / except AttributeError: ar.do("f", x)) has the body
   `return r.<own name>(args)`, where r is the def's first parameter and args are exactly
   the remaining parameters in order, each forwarded as p, *p or **p according to how it
   is declared; for einsum(eq, x) the receiver is the last parameter. *)
Theorem C08_forwarders :
  forall e : ientry, In e interface ->
  ~ In (iname e) ["tensordot"%string] ->
  ~ In (iname e) ["abs"%string; "sqrt"%string; "log"%string; "log2"%string; "log10"%string] ->
  exists (r : String.string) (args : list iarg),
    ikind_of e = IForward (iname e) r args /\
    forallb known_arg args = true /\
    (~ In (iname e) ["einsum"%string] -> iparams e = APos r :: args) /\
    (In (iname e) ["einsum"%string] -> iparams e = (args ++ [APos r])%list).
Proof. exact forwarders. Qed.

Theorem C08_try_forwarders :
  forall e : ientry, In e interface ->
  In (iname e) ["abs"%string; "sqrt"%string; "log"%string; "log2"%string; "log10"%string] ->
  exists (r : String.string) (args : list iarg),
    ikind_of e = ITryForward (iname e) r args (iname e) /\
    forallb known_arg args = true /\
    iparams e = APos r :: args.
Proof. exact try_forwarders. Qed.

Theorem C08_dispatchers :
  forall e : ientry, In e interface -> In (iname e) ["tensordot"%string] ->
  exists body : String.string, ikind_of e = IDispatch body.
Proof. exact dispatchers. Qed.

(* the public functions, in source order, without repetition *)
Theorem C08_interface_names :
  map iname interface =
  ["conj"; "max"; "min"; "sum"; "all"; "any"; "isfinite";
   "abs"; "sqrt"; "log"; "log2"; "log10";
   "clip"; "squeeze"; "expand_dims"; "reshape"; "tensordot"; "einsum"; "transpose"; "trace";
   "multiply_diagonal"; "align_axes"; "fuse"]%string /\
  NoDup (map iname interface).
Proof. exact (conj expected_names names_nodup). Qed.

(* every autoray registration binds a public function under its own name, and the module
   has no other top-level statement (no rebinding of a name after its def) *)
Theorem C08_interface_registrations :
  (forall lib n f : String.string, In (lib, n, f) registrations ->
     lib = "symmray"%string /\ f = n /\ In n (map iname interface)) /\
  map (fun r : String.string * String.string * String.string => snd (fst r)) registrations =
    ["multiply_diagonal"; "align_axes"; "fuse"]%string /\
  other_toplevel = [].
Proof. exact registrations_ok. Qed.

Print Assumptions C08_forwarders.
Print Assumptions C08_try_forwarders.
Print Assumptions C08_dispatchers.
Print Assumptions C08_interface_names.
Print Assumptions C08_interface_registrations.
