(* Props/C16.v — property C16: all ways of building an array agree, and dense conversion
   round-trips.  Statements only; definitions in Model/Ctor.v (hand model of __init__,
   from_fill_fn, from_blocks, from_dense, to_dense) and Gen/Ctor.v (REGENERATED from the
   Python AST: parameter lists with tagged defaults, the get_class_symmetry bodies, how
   symmetry/charge are handed on); proofs in Proofs/Ctor*.v.

   `sem x cs` is the dense entry of x at the coordinate list cs (one (charge, offset) pair per
   axis; zero where no sector is stored), `coords_of ixs pos` / `pos_of ixs cs` the bijection
   between dense positions and coordinates of the sorted tables.  Every theorem holds for every
   rank, every index table, every symmetry with the group laws (and a strict total order on its
   charge labels), every ring. *)
From Coq Require Import Permutation String.
From SV Require Import Base.Prelude Base.Sym Base.Tensor Model.Sectors Model.Array Model.Arith
  Model.Wf Model.Fermi Model.Ctor Model.SymInst Proofs.OrderProofs Proofs.CtorSpec Proofs.CtorProofs
  Proofs.CtorDense Proofs.CtorRound Proofs.CtorFinal Proofs.CtorGenProofs.
From SV Require Gen.Ctor.
Local Open Scope nat_scope.

(* ------------------------------------------------------------------ constructors *)

(* from_fill_fn stores exactly gen_valid_sectors (in that order), each with the block the fill
   function returns for its shape; by C17 these are exactly the charge-conserving sectors over
   the tables, none repeated.  (`ceqb` must decide equality; without any law on it the
   statement is false: Proofs.CtorProofs.fill_sectors_needs_ceqb.) *)
Theorem C16_fill_sectors :
  forall (G : Symmetry) (R : Ring), (forall a b, ceqb G a b = true <-> a = b) ->
  forall (fill : list nat -> tensor R) (ixs : list (index G)) (q : option (C G)),
    Forall (fun ix => NoDup (icharges G ix)) ixs ->
    let x := from_fill_fn G R fill ixs q in
    sectors G R x = gen_valid_sectors G (map (icharges G) ixs) (map (idual G) ixs) (charge_or_ident G q)
    /\ indices G R x = ixs
    /\ charge G R x = charge_or_ident G q
    /\ NoDup (sectors G R x)
    /\ (forall s, In s (sectors G R x) ->
          lookup (list_eqb (ceqb G)) s (blocks G R x) = Some (fill (block_shape G ixs s)))
    /\ (GroupLaws G ->
        Forall (fun ix => Forall (fun c => valid G c = true) (icharges G ix)) ixs ->
        valid G (charge_or_ident G q) = true ->
        forall s, In s (sectors G R x) <->
                  (Forall2 (fun c cs => In c cs) s (map (icharges G) ixs)
                   /\ is_valid_sector G (map (idual G) ixs) (charge_or_ident G q) s = true)).
Proof. exact fill_sectors_partial. Qed.

(* __init__ with the charge omitted: identity when nothing is stored, otherwise the SIGNED
   combination of the first stored sector (fix 28a1fb2) — for EVERY dualness pattern the first
   sector conserves the inferred charge, and when the block set conserves some charge q the
   inferred charge is q, so every stored sector is conserving *)
Theorem C16_init_infers_charge :
  forall (G : Symmetry) (R : Ring) (ixs : list (index G)) (blks : list (list (C G) * tensor R)),
    indices G R (init_array G R ixs None blks) = ixs
    /\ blocks G R (init_array G R ixs None blks) = blks
    /\ (blks = [] -> charge G R (init_array G R ixs None blks) = ident G)
    /\ (forall s b rest, blks = (s, b) :: rest ->
          charge G R (init_array G R ixs None blks)
          = combine G (signed_sector G false s (map (idual G) ixs))
          /\ (GroupLaws G ->
              is_valid_sector G (map (idual G) ixs) (charge G R (init_array G R ixs None blks)) s = true)
          /\ (GroupLaws G -> forall q,
              Forall (fun sb => is_valid_sector G (map (idual G) ixs) q (fst sb) = true) blks ->
              charge G R (init_array G R ixs None blks) = q
              /\ Forall (fun sb => is_valid_sector G (map (idual G) ixs)
                                      (charge G R (init_array G R ixs None blks)) (fst sb) = true) blks))
    /\ (forall c, charge G R (init_array G R ixs (Some c) blks) = c).
Proof. exact init_infers_charge. Qed.

(* direct construction with the charge omitted gives a valid array back from its indices and
   blocks, and agrees with from_blocks GIVEN that charge; from_blocks with the charge omitted
   takes the identity (as documented), so it agrees with the direct route exactly when the
   charge of the blocks is the identity — otherwise its result has charge identity and none of
   its sectors conserves it *)
Theorem C16_direct_vs_from_blocks :
  forall (G : Symmetry) (R : Ring), GroupLaws G -> OrderLaws G ->
  forall (x : aarray G R), wf_array G R x = true -> blocks G R x <> [] ->
    init_array G R (indices G R x) None (blocks G R x) = x
    /\ (exists y1, from_blocks G R (blocks G R x) (duals G R x)
                               (Some (charge G R (init_array G R (indices G R x) None (blocks G R x)))) = Some y1
                   /\ charge G R y1 = charge G R x /\ blocks G R y1 = blocks G R x
                   /\ duals G R y1 = duals G R x)
    /\ (exists y0, from_blocks G R (blocks G R x) (duals G R x) None = Some y0
                   /\ charge G R y0 = ident G /\ blocks G R y0 = blocks G R x
                   /\ (charge G R y0 = charge G R x <-> charge G R x = ident G)
                   /\ (charge G R x <> ident G ->
                       forall s, In s (sectors G R y0) ->
                                 is_valid_sector G (duals G R y0) (charge G R y0) s = false)).
Proof. exact direct_vs_from_blocks. Qed.

(* from_blocks (blocks x) (duals x) q: charge q (identity if omitted), the same blocks and
   sem; tables = the charges occurring in stored sectors, equal to the tables of x when every
   table charge occurs in a stored sector *)
Theorem C16_from_blocks_eq :
  forall (G : Symmetry) (R : Ring), GroupLaws G -> OrderLaws G ->
  forall (x : aarray G R) (q : option (C G)), wf_array G R x = true -> blocks G R x <> [] ->
    exists y, from_blocks G R (blocks G R x) (duals G R x) q = Some y
      /\ charge G R y = charge_or_ident G q
      /\ blocks G R y = blocks G R x
      /\ (forall cs, sem G R y cs = sem G R x cs)
      /\ duals G R y = duals G R x
      /\ Forall (fun ix => isub G ix = None) (indices G R y)
      /\ map (chargemap G) (indices G R y)
         = map (chargemap G) (prune_indices G (indices G R x) (sectors G R x))
      /\ (every_charge_stored G R x -> map (chargemap G) (indices G R y) = map (chargemap G) (indices G R x)).
Proof. exact from_blocks_eq. Qed.

(* ------------------------------------------------------------------ densification *)

(* the bridge: to_dense succeeds on a valid array whose tables are non-empty, has the shape of
   the total sizes, and its entry at a position is sem at the position's coordinates (and
   conversely) — this turns every `sem` theorem of C02/C08 into a statement about to_dense *)
Theorem C16_to_dense_sem :
  forall (G : Symmetry) (R : Ring), GroupLaws G -> OrderLaws G ->
  forall (x : aarray G R), wf_array G R x = true ->
    Forall (fun ix => chargemap G ix <> []) (indices G R x) ->
    exists t, to_dense G R x = Some t
      /\ tshape t = map (size_total G) (indices G R x)
      /\ length (tdata t) = shape_size (tshape t)
      /\ (forall pos, inb (map (size_total G) (indices G R x)) pos = true ->
            coords_ok G (indices G R x) (coords_of G (indices G R x) pos) = true
            /\ pos_of G (indices G R x) (coords_of G (indices G R x) pos) = pos
            /\ get R t pos = sem G R x (coords_of G (indices G R x) pos))
      /\ (forall cs, coords_ok G (indices G R x) cs = true ->
            inb (map (size_total G) (indices G R x)) (pos_of G (indices G R x) cs) = true
            /\ coords_of G (indices G R x) (pos_of G (indices G R x) cs) = cs
            /\ get R t (pos_of G (indices G R x) cs) = sem G R x cs).
Proof. exact to_dense_sem. Qed.

(* fermionic to_dense: the same with the pending signs applied (f_value = blocks after phase_sync) *)
Theorem C16_f_to_dense_sem :
  forall (G : Symmetry) (R : Ring), GroupLaws G -> OrderLaws G ->
  forall (x : farray G R),
    wf_array G R (f_value G R x) = true ->
    Forall (fun ix => chargemap G ix <> []) (indices G R (f_value G R x)) ->
    exists t, f_to_dense G R x = Some t
      /\ tshape t = map (size_total G) (indices G R (f_value G R x))
      /\ (forall pos, inb (map (size_total G) (indices G R (f_value G R x))) pos = true ->
            get R t pos = sem G R (f_value G R x) (coords_of G (indices G R (f_value G R x)) pos))
      /\ (forall cs, coords_ok G (indices G R (f_value G R x)) cs = true ->
            get R t (pos_of G (indices G R (f_value G R x)) cs) = sem G R (f_value G R x) cs).
Proof. exact f_to_dense_sem. Qed.

(* ------------------------------------------------------------------ round trips *)

(* dense -> blocks -> dense: from_dense yields a VALID array (sorted tables, exactly the
   charge-conserving sectors over the labels), and densifying it gives the projection of d onto
   the charge-conserving sectors with the positions of every axis reordered by a STABLE sort on
   the charge label — for arbitrary (unsorted, interleaved) labelings, duals and total charge *)
Theorem C16_to_dense_from_dense :
  forall (G : Symmetry) (R : Ring), GroupLaws G -> OrderLaws G ->
  forall (d : tensor R) (maps : list (list (C G))) (dls : list bool) (q : C G),
    length dls = length (tshape d) ->
    map (@length (C G)) maps = tshape d ->
    Forall (fun m => Forall (fun c => valid G c = true) m) maps ->
    valid G q = true ->
    exists y, from_dense G R d maps dls (Some q) = Some y
      /\ wf_array G R y = true
      /\ charge G R y = q
      /\ duals G R y = dls
      /\ (forall s, In s (sectors G R y) <->
            (Forall2 (fun c m => In c m) s maps /\ is_valid_sector G dls q s = true))
      /\ (forall t, to_dense G R y = Some t ->
            tshape t = tshape d
            /\ exists sps, Forall2 (stable_sorted_positions G) maps sps
                 /\ forall pos, inb (tshape d) pos = true ->
                      let src := map (fun p => nth (snd p) (fst p) 0) (List.combine sps pos) in
                      let sec := map (fun p => nth (snd p) (fst p) (ident G)) (List.combine maps src) in
                      inb (tshape d) src = true
                      /\ get R t pos = if is_valid_sector G dls q sec then get R d src else r0 R).
Proof. exact to_dense_from_dense. Qed.

(* what "reordered by a stable sort on the label" means *)
Theorem C16_stable_sorted_positions_def :
  forall (G : Symmetry) (labels : list (C G)) (sp : list nat),
    stable_sorted_positions G labels sp <->
    (Permutation sp (seq 0 (length labels)) /\
     forall i j, i < j -> j < length labels ->
       let a := nth i sp 0 in let b := nth j sp 0 in
       cltb G (nth b labels (ident G)) (nth a labels (ident G)) = false
       /\ (nth a labels (ident G) = nth b labels (ident G) -> a < b)).
Proof. intros G labels sp. unfold stable_sorted_positions. reflexivity. Qed.

(* blocks -> dense -> blocks with the matching labels is the identity: same charge, tables and
   duals, same sem; the rebuilt array stores EVERY charge-conserving sector (the ones x lacks
   are all zero: absent block = zero block) *)
Theorem C16_from_dense_to_dense :
  forall (G : Symmetry) (R : Ring), GroupLaws G -> OrderLaws G ->
  forall (x : aarray G R) (t : tensor R), wf_array G R x = true -> to_dense G R x = Some t ->
    exists y, from_dense G R t (labels_of G (indices G R x)) (duals G R x) (Some (charge G R x)) = Some y
      /\ charge G R y = charge G R x
      /\ map (chargemap G) (indices G R y) = map (chargemap G) (indices G R x)
      /\ duals G R y = duals G R x
      /\ Forall (fun ix => isub G ix = None) (indices G R y)
      /\ (forall s, In s (sectors G R y) <->
            (Forall2 (fun c cs => In c cs) s (map (icharges G) (indices G R x))
             /\ is_valid_sector G (duals G R x) (charge G R x) s = true))
      /\ (forall cs, coords_ok G (indices G R x) cs = true -> sem G R y cs = sem G R x cs).
Proof. exact from_dense_to_dense. Qed.


(* the hypotheses hold for the five built-in symmetries (C17) *)
Theorem C16_builtin_symmetries_have_laws :
  (GroupLaws Z2 /\ OrderLaws Z2) /\ (GroupLaws Z4 /\ OrderLaws Z4) /\ (GroupLaws U1 /\ OrderLaws U1)
  /\ (GroupLaws Z2Z2 /\ OrderLaws Z2Z2) /\ (GroupLaws U1U1 /\ OrderLaws U1U1).
Proof. exact builtin_symmetries_have_laws. Qed.

(* ------------------------------------------------------------------ generated facts *)
Local Open Scope string_scope.

(* every `symmetry` and `charge` parameter of every constructor defaults to None *)
Theorem C16_ctor_defaults :
  forall c ps p d, In (c, ps) Gen.Ctor.ctor_params -> In (p, d) ps ->
                   (p = "symmetry" \/ p = "charge") -> d = Gen.Ctor.DNone.
Proof. exact ctor_defaults. Qed.

Theorem C16_ctor_have_symmetry_and_charge :
  map fst Gen.Ctor.ctor_params
  = ["AbelianArray.__init__"; "AbelianArray.from_fill_fn"; "AbelianArray.random";
     "AbelianArray.from_blocks"; "AbelianArray.from_dense"; "FermionicArray.__init__"]
  /\ forallb (fun c => has_param "symmetry" (snd c) && has_param "charge" (snd c)) Gen.Ctor.ctor_params = true.
Proof. exact ctor_have_symmetry_and_charge. Qed.

(* static class + None -> its own symmetry, + the same -> ok, + another -> raises;
   generic class + None -> raises, + a name -> that symmetry *)
Theorem C16_class_symmetry :
  Gen.Ctor.class_table = expected_class_table /\
  forall cls ferm k, In (cls, (ferm, k)) Gen.Ctor.class_table ->
    match k with
    | Gen.Ctor.CSGeneric =>
        (cls = "AbelianArray" \/ cls = "FermionicArray")
        /\ Gen.Ctor.resolve_cs k None = None /\ forall s, Gen.Ctor.resolve_cs k (Some s) = Some s
    | Gen.Ctor.CSStatic n =>
        (cls = n ++ "Array" \/ cls = n ++ "FermionicArray")
        /\ Gen.Ctor.resolve_cs k None = Some n /\ Gen.Ctor.resolve_cs k (Some n) = Some n
        /\ forall s, s <> n -> Gen.Ctor.resolve_cs k (Some s) = None
    end.
Proof. exact class_symmetry. Qed.

(* every constructor hands `symmetry` to get_class_symmetry unchanged, charge=None is the
   identity in the classmethods and "first sector, signed by the index directions" in __init__, and the classmethods
   hand charge/symmetry/indices on to cls(...) *)
Theorem C16_ctor_passes_symmetry_and_charge :
  Gen.Ctor.symmetry_calls
  = [("AbelianArray.__init__", Gen.Ctor.SCPass); ("AbelianArray.from_fill_fn", Gen.Ctor.SCPass);
     ("AbelianArray.from_blocks", Gen.Ctor.SCPass); ("AbelianArray.from_dense", Gen.Ctor.SCPass)]
  /\ Gen.Ctor.charge_defaults
     = [("AbelianArray.__init__", Gen.Ctor.CDFirstSectorSigned); ("AbelianArray.from_fill_fn", Gen.Ctor.CDIdentity);
        ("AbelianArray.from_blocks", Gen.Ctor.CDIdentity); ("AbelianArray.from_dense", Gen.Ctor.CDIdentity);
        ("FermionicArray.__init__", Gen.Ctor.CDForwarded); ("AbelianArray.random", Gen.Ctor.CDForwarded)]
  /\ map fst Gen.Ctor.cls_calls
     = ["AbelianArray.from_fill_fn"; "AbelianArray.from_blocks"; "AbelianArray.from_dense"; "FermionicArray.__init__"]
  /\ forallb (fun c => kw_passes "symmetry" (snd c) && kw_passes "charge" (snd c) && kw_passes "indices" (snd c))
             Gen.Ctor.cls_calls = true
  /\ Gen.Ctor.random_forward
     = [("#0", "fill_fn"); ("#1", "indices"); ("#2", "charge"); ("symmetry", "symmetry"); ("**", "kwargs")].
Proof. exact ctor_passes_symmetry_and_charge. Qed.

Theorem C16_utils_from_dense_dispatch :
  dispatch_okb = true
  /\ map fst Gen.Ctor.utils_from_dense_table
     = [("Z2", false); ("Z2Z2", false); ("U1", false); ("U1U1", false);
        ("Z2", true); ("Z2Z2", true); ("U1", true); ("U1U1", true)]
  /\ Gen.Ctor.utils_from_dense_forward = [("#0", "array"); ("#1", "index_maps"); ("duals", "duals"); ("charge", "charge")]
  /\ Gen.Ctor.utils_from_dense_params
     = [("array", Gen.Ctor.DRequired); ("symmetry", Gen.Ctor.DRequired); ("index_maps", Gen.Ctor.DRequired);
        ("duals", Gen.Ctor.DNone); ("fermionic", Gen.Ctor.DConst "False"); ("charge", Gen.Ctor.DNone)].
Proof. exact utils_from_dense_dispatch. Qed.

Print Assumptions C16_fill_sectors.
Print Assumptions C16_init_infers_charge.
Print Assumptions C16_direct_vs_from_blocks.
Print Assumptions C16_from_blocks_eq.
Print Assumptions C16_to_dense_sem.
Print Assumptions C16_f_to_dense_sem.
Print Assumptions C16_to_dense_from_dense.
Print Assumptions C16_stable_sorted_positions_def.
Print Assumptions C16_from_dense_to_dense.
Print Assumptions C16_builtin_symmetries_have_laws.
Print Assumptions C16_ctor_defaults.
Print Assumptions C16_ctor_have_symmetry_and_charge.
Print Assumptions C16_class_symmetry.
Print Assumptions C16_ctor_passes_symmetry_and_charge.
Print Assumptions C16_utils_from_dense_dispatch.
