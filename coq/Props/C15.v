(* Props/C15.v — property C15: results do not depend on call history, caches or
   threads.  Statements only; proofs live in Proofs/CacheProofs.v. *)
From Coq Require Import String.
From SV Require Import Base.Prelude Model.Cache Gen.CacheKey Gen.ModeCtx Proofs.CacheProofs.

(* ---- the LRU memo machine refines the memoised function: every history, every
   cache size (0, 1, negative, ...), every eviction policy, every consistent
   starting cache; keys given by a function ... *)
Theorem C15_memo_refines :
  forall (A K V : Type) (keqb : K -> K -> bool), (forall x y, keqb x y = true <-> x = y) ->
  forall (key : A -> K) (f : A -> V), (forall a b, key a = key b -> f a = f b) ->
  forall p bypass maxsize (d : @cache K V) (h : list A),
    consistent f (fun a k => key a = k) d ->
    snd (run keqb key f p bypass maxsize d h) = map f h /\
    consistent f (fun a k => key a = k) (fst (run keqb key f p bypass maxsize d h)).
Proof. exact (@memo_refines). Qed.

(* ... or by a relation (the real key of an array depends on which `_hashkey`
   memo slots happen to be filled, i.e. on the history) *)
Theorem C15_memo_refines_rel :
  forall (A K V : Type) (keqb : K -> K -> bool), (forall x y, keqb x y = true <-> x = y) ->
  forall (f : A -> V) (keyrel : A -> K -> Prop), (forall a b k, keyrel a k -> keyrel b k -> f a = f b) ->
  forall p bypass maxsize (h : list (K * A)) (d : @cache K V),
    consistent f keyrel d -> Forall (fun ka => keyrel (snd ka) (fst ka)) h ->
    snd (runk keqb p f bypass maxsize d h) = map (fun ka => f (snd ka)) h /\
    consistent f keyrel (fst (runk keqb p f bypass maxsize d h)).
Proof. exact (@memo_refines_rel). Qed.

(* the dict never holds a key twice and (maxsize > 0) never more than maxsize entries *)
Theorem C15_memo_shape :
  forall (A K V : Type) (keqb : K -> K -> bool), (forall x y, keqb x y = true <-> x = y) ->
  forall (f : A -> V) p bypass maxsize (h : list (K * A)) (d : @cache K V),
    shape_ok maxsize d -> shape_ok maxsize (fst (runk keqb p f bypass maxsize d h)).
Proof. exact (@memo_shape). Qed.

(* ---- the key GENERATED from cached_fuse_block_info / BlockIndex.hashkey /
   SubIndexInfo.hashkey determines every argument calc_fuse_block_info reads,
   given that sha1 o pickle is collision free *)
Theorem C15_fuse_key_sound :
  forall (C hash : Type) (H : ser C hash -> hash), (forall x y, H x = H y -> x = y) ->
  forall (x y : fuse_arg C hash) k, gen_fuse_keyrel H x k -> gen_fuse_keyrel H y k -> erase_arg x = erase_arg y.
Proof. exact (@fuse_key_sound_generated). Qed.

Theorem C15_fuse_key_is_legit :
  forall (C hash : Type) (H : ser C hash -> hash) (x : fuse_arg C hash),
    Forall (well_memoed H index_key_components subinfo_key_components) (fa_indices x) ->
    gen_fuse_keyrel H x (gen_fuse_key H x).
Proof. intros C hash H. exact (fuse_key_is_legit H index_key_components subinfo_key_components fuse_key_components). Qed.

Theorem C15_fuse_reads_hashed : forall c, In c fuse_reads -> In c fuse_key_components.
Proof. exact fuse_reads_hashed. Qed.

(* cached_fuse_block_info = calc_fuse_block_info, with the generated key and policy *)
Theorem C15_fuse_cache_transparent :
  forall (C hash : Type) (H : ser C hash -> hash), (forall x y, H x = H y -> x = y) ->
  forall (R : Type) (calc : fuse_arg C hash -> R), (forall x y, erase_arg x = erase_arg y -> calc x = calc y) ->
  forall (heqb : hash -> hash -> bool), (forall x y, heqb x y = true <-> x = y) ->
  forall bypass maxsize (h : list (hash * fuse_arg C hash)) (d : @cache hash R),
    consistent calc (gen_fuse_keyrel H) d ->
    Forall (fun ka => gen_fuse_keyrel H (snd ka) (fst ka)) h ->
    snd (runk heqb fuse_cache_policy calc bypass maxsize d h) = map (fun ka => calc (snd ka)) h /\
    consistent calc (gen_fuse_keyrel H) (fst (runk heqb fuse_cache_policy calc bypass maxsize d h)).
Proof. exact (@fuse_cache_transparent_generated). Qed.

(* ---- generated facts about the source text *)
Theorem C15_hashkey_fresh : forall s, In s attr_sites ->
    (s_attr s <> A_hashkey ->
       exists s', In s' attr_sites /\ s_func s' = s_func s /\ s_obj s' = s_obj s /\ s_attr s' = A_hashkey /\ s_rhs s' = RNone) /\
    (s_attr s = A_hashkey -> s_rhs s <> ROther).
Proof. exact hashkey_fresh. Qed.

Theorem C15_index_tables_never_mutated : table_mutations = [].
Proof. exact index_tables_never_mutated. Qed.

Theorem C15_lru_helpers_pure : forall h, In h lru_helpers -> h_global_writes h = [] /\ h_arg_mutations h = [].
Proof. exact lru_helpers_pure. Qed.

(* ---- the context manager (GENERATED term): for every body, raising or not,
   itself changing the mode or not, at any nesting depth *)
Theorem C15_mode_restored : forall (body : env -> env * bool) (m : val) (g : env) (v : val),
  mode_of g = Some v ->
  mode_of (fst (with_block default_tensordot_mode_def m body g)) = Some v /\
  snd (with_block default_tensordot_mode_def m body g) = snd (body (dset String.eqb mode_global m g)).
Proof. exact mode_restored. Qed.

Theorem C15_mode_restored_nested : forall (ms : list val) (body : env -> env * bool) (g : env) (v : val),
  ms <> [] -> mode_of g = Some v ->
  mode_of (fst (nested default_tensordot_mode_def ms body g)) = Some v.
Proof. exact mode_restored_nested. Qed.

Theorem C15_set_default_none_noop : forall g, call_with set_default_tensordot_mode_def [VNone] no_body g = (g, Normal).
Proof. exact set_default_none_noop. Qed.

Theorem C15_set_default_some : forall g m,
  call_with set_default_tensordot_mode_def [VMode m] no_body g = (dset String.eqb mode_global (VMode m) g, Normal).
Proof. exact set_default_some. Qed.

(* ---- threads, one atomic dict operation at a time *)
Theorem C15_concurrent_value_correct : concurrent_value_correct_stmt.
Proof. exact concurrent_value_correct. Qed.

(* the repaired script (eviction tolerates an empty cache) *)
Theorem C15_concurrent_total_correct : concurrent_total_correct_stmt.
Proof. exact concurrent_total_correct. Qed.

(* the script as it stands on the pinned tree: "no call raises" is FALSE (finding F9);
   witness: Proofs.CacheProofs.f9_schedule, replayed on the real code by harness/c15.py *)
Theorem C15_concurrent_no_exception_refuted : ~ concurrent_no_exception_stmt false.
Proof. exact concurrent_no_exception_refuted. Qed.

(* whichever of the two applies to the current source (Gen.CacheKey.eviction_tolerant) *)
Theorem C15_concurrent_current : concurrency_statement eviction_tolerant.
Proof. exact concurrent_current. Qed.

Print Assumptions C15_memo_refines.
Print Assumptions C15_memo_refines_rel.
Print Assumptions C15_memo_shape.
Print Assumptions C15_fuse_key_sound.
Print Assumptions C15_fuse_key_is_legit.
Print Assumptions C15_fuse_reads_hashed.
Print Assumptions C15_fuse_cache_transparent.
Print Assumptions C15_hashkey_fresh.
Print Assumptions C15_index_tables_never_mutated.
Print Assumptions C15_lru_helpers_pure.
Print Assumptions C15_mode_restored.
Print Assumptions C15_mode_restored_nested.
Print Assumptions C15_set_default_none_noop.
Print Assumptions C15_set_default_some.
Print Assumptions C15_concurrent_value_correct.
Print Assumptions C15_concurrent_total_correct.
Print Assumptions C15_concurrent_no_exception_refuted.
Print Assumptions C15_concurrent_current.
