(* Props/C12.v — property C12: spectra and solutions equal those of the dense matrix.
   ONLY restatements of lemmas of Proofs/LinalgProofs.v (and of C08's norm2_sem).

   PARTIAL, and named so.  Proved: the block-sparse norm is the dense Frobenius norm; the
   triple returned by svd densifies to A decomposition  sum_k u[i,k] s[k] vh[k,j] = x[i,j]
   of the dense matrix at every coordinate, with the singular values being exactly the
   per-block LAPACK values gathered per column charge (one block per input block, none
   dropped, none counted twice: `NoDup (map fst s)`); the solution of a linear system
   satisfies the DENSE system A.x = b at every coordinate when a stores every row sector b
   stores.
   NOT formalised (`C12_full` below states it): that the multiset of singular values /
   eigenvalues of a real or complex matrix is UNIQUE (so that "a" decomposition yields
   "the" spectrum), and orthonormality ACROSS charges of the dense factors.  These are
   theorems of linear algebra over the real / complex field, not of the bookkeeping; the
   harness oracle compares with numpy.linalg.svd / eigvalsh / solve of the own dense
   embedding instead (tolerance). *)
From SV Require Import Base.Prelude Base.Sym Base.Tensor Model.Sectors Model.Array Model.Arith Model.Wf Model.Linalg
  Proofs.Tdot Proofs.StructProofs Proofs.LinalgProofs.
From Coq Require Import Permutation.
Local Open Scope nat_scope.

Theorem C12_norm_dense :
  forall (G : Symmetry) (HG : GroupLaws G) (R : Ring) (RL : SumLaws R)
    (cltb_irrefl : forall c : C G, cltb G c c = false)
    (cltb_trans : forall a b c : C G, cltb G a b = true -> cltb G b c = true -> cltb G a c = true)
    (x : aarray G R),
    wf_array G R x = true ->
    a_norm2 G R x = rsum R (map (fun cs => rmul R (sem G R x cs) (rconj R (sem G R x cs))) (all_coords G (indices G R x))).
Proof. exact norm_dense. Qed.

Theorem C12_dense_is_svd_partial :
  forall (G : Symmetry) (HG : GroupLaws G) (R : Ring) (RL : SumLaws R)
    (cltb_irrefl : forall c : C G, cltb G c c = false)
    (cltb_trans : forall a b c : C G, cltb G a b = true -> cltb G b c = true -> cltb G a c = true)
    (cltb_total : forall a b : C G, a <> b -> cltb G a b = true \/ cltb G b a = true)
    (svd_blk : tensor R -> tensor R * tensor R * tensor R) (Hshapes : svd_shapes R svd_blk)
    (x u : aarray G R) (s : bvec G R) (vh : aarray G R),
    wf_array G R x = true -> ndim G R x = 2 ->
    (forall sec m, In (sec, m) (blocks G R x) -> svd_product R svd_blk m) ->
    a_svd G R svd_blk x = Some (u, s, vh) ->
    (forall l rr, coords_ok G [ix0 G R x] [l] = true -> coords_ok G [ix1 G R x] [rr] = true ->
       rsum R (map (fun k => rmul R (rmul R (sem G R u [l; k]) (vsem G R s k)) (sem G R vh [k; rr]))
                   (index_coords G (ix1 G R u))) = sem G R x [l; rr]) /\
    s = map (fun sb => (col_charge G (fst sb), svd_s R svd_blk (snd sb))) (blocks G R x) /\
    NoDup (map fst s).
Proof. exact dense_is_svd_partial. Qed.

Theorem C12_solve_dense :
  forall (G : Symmetry) (HG : GroupLaws G) (R : Ring) (RL : SumLaws R)
    (cltb_irrefl : forall c : C G, cltb G c c = false)
    (cltb_trans : forall a b c : C G, cltb G a b = true -> cltb G b c = true -> cltb G a c = true)
    (solve_blk : tensor R -> tensor R -> tensor R) (a b : aarray G R) (i0 i1 ib : index G),
    wf_array G R a = true -> mat_ok G R a i0 i1 -> vec_ok G R b ib ->
    chargemap G ib = chargemap G i0 -> idual G ib = idual G i0 ->
    (forall s m, In (s, m) (blocks G R a) -> nth 0 (tshape m) 0 = nth 1 (tshape m) 0) ->
    solve_shapes R solve_blk -> wf_index G (iconj G i1) = true ->
    (forall c0 c1 m bb, In ([c0; c1], m) (blocks G R a) -> In ([c0], bb) (blocks G R b) -> solve_product R solve_blk m bb) ->
    (forall c bb, In ([c], bb) (blocks G R b) -> exists c1 m, In ([c; c1], m) (blocks G R a)) ->
    exists x, a_solve G R solve_blk a b = Some x /\
      charge G R x = combine G [charge G R b; sign G (charge G R a) true] /\
      wf_array G R x = true /\
      forall l, coords_ok G [i0] [l] = true ->
        exists res, a_matmul G R a x = Some res /\ sem G R res [l] = sem G R b [l].
Proof. exact solve_dense. Qed.

(* the eigenvalues returned by eigh are the per-block LAPACK values, one block per input
   block keyed by the column charge (none dropped, none counted twice) *)
Theorem C12_eigh_values_partial :
  forall (G : Symmetry) (HG : GroupLaws G) (R : Ring) (eigh_blk : tensor R -> tensor R * tensor R) (a : aarray G R),
    wf_array G R a = true -> ndim G R a = 2 -> charge G R a = ident G ->
    (forall s m, In (s, m) (blocks G R a) -> nth 0 (tshape m) 0 = nth 1 (tshape m) 0) ->
    eigh_shapes R eigh_blk ->
    exists w v, a_eigh G R eigh_blk a = Some (w, v) /\
      w = map (fun sb => (col_charge G (fst sb), fst (eigh_blk (snd sb)))) (blocks G R a) /\ NoDup (map fst w).
Proof. exact eigh_values. Qed.

(* the full property, NOT proved (see the header): uniqueness of the spectrum *)
Definition C12_full : Prop := LinalgProofs.C12_full.

Print Assumptions C12_norm_dense.
Print Assumptions C12_dense_is_svd_partial.
Print Assumptions C12_solve_dense.
Print Assumptions C12_eigh_values_partial.
