(* Props/C03c.v — property C03, TRANSLATOR tie of the contraction FRONT END.

   Gen/FtdotGen.v is REGENERATED on every run by tr/gen_ftdot.py from the current source of
   symmray/fermionic_core.py::tensordot_fermionic and FermionicArray.__matmul__: the parsing of `axes`, the
   axis lists of the two transposes and of the virtual reversal of b's contracted legs, the test
   `a.size <= b.size`, WHICH operand is phase-flipped in which branch and on which legs (`not dual` on a,
   `dual` on b), the two phase_sync, the order sync -> abelian contraction -> resolve_combined_oddpos, the
   scalar return path; for `@`: the rank test, `other.indices[0].dual`, the flip of axis 0 of the RIGHT
   operand, the syncs, the resolution, the scalar path.  The generated functions COMPOSE the functions
   generated from the sign-bookkeeping methods (Gen/PhasesGen.v: transpose_gen, phase_transpose_gen,
   phase_flip_gen, phase_sync_gen, phase_global_gen), from resolve_combined_oddpos (Gen/OddposGen.v) and the
   helper `without` (Gen/Helpers.v).  Not translated (Section variables of Gen/FtdotGen.v): the abelian
   contraction / abelian matrix product on (indices, charge, blocks), and the block movement of
   AbelianArray.transpose.

   Vocabulary (Proofs/FtdotGenProofs.v):
     st_of x      the state (indices, charge, blocks, sign table as a dict holding -1 per sector of fphases x,
                  labels) of the hand-model array x;  farr_of the inverse
     td_gen td    the generated tensordot_fermionic on hand-model records: index = index G with its dual flag and
                  size_total, block = tensor R with its negation, AbelianArray.transpose = a_transpose, abelian
                  contraction = td;   td_old mode / td_new mode = a_tensordot / a_tensordot2 in that convention
                  (the contraction of the two hand models Fermi.f_tensordot and Fused.f_tensordot2)
     mm_gen       the generated __matmul__ with the abelian product a_matmul
     zaxes        the `axes` argument (int or pair of lists) with the int as a Python int
     opnd_ok x    dict invariants of x (no sector twice among the blocks, none twice in the sign table), stored
                  sectors have the rank of x, their charges have parity 0 or 1
     ft_out p r   what the front end returns for the hand model's result r: FtRaise for None; for Some c the
                  array state, or — rank 0 and not preserve_array — the block of the empty sector of the VALUE of
                  c (pending signs multiplied in) as FtScalar, FtZero when none is stored
   The equalities are equalities of whole states: index tables, charge, the association list of blocks in
   order, the sign table as an association list in order, the labels.  Statements only. *)
From SV Require Import Base.Prelude Base.Sym Base.Tensor Gen.PhasePerm Gen.OpOrder Gen.PhasesGen Gen.OddposGen Gen.FtdotGen
  Model.Sectors Model.Array Model.Arith Model.Fermi Model.Fused Model.Graded Model.Wf
  Proofs.Tdot Proofs.FermiProofs Proofs.PhasesGenProofs Proofs.FtdotGenProofs.
From Coq Require Import Permutation.
Local Open Scope nat_scope.

(* ---- 1. generated front end = hand model ---- *)
(* tensordot_fermionic (preserve_array=True), every mode, both branches of the size test: the generated
   composition returns exactly the state of Fermi.f_tensordot's result, and raises when it does *)
Theorem C03_gen_tensordot_is_model :
  forall (G : Symmetry) (R : Ring), (forall a b : C G, ceqb G a b = true <-> a = b) -> parity_ok G ->
  forall (a b : farray G R) (axes : nat + (list Z * list Z)) (mode : tmode) (aa ab : list nat),
  opnd_ok G R a -> opnd_ok G R b ->
  parse_axes (ndim G R (fbase G R a)) (ndim G R (fbase G R b)) axes = Some (aa, ab) ->
  NoDup aa -> (forall i, In i aa -> i < ndim G R (fbase G R a)) ->
  NoDup ab -> (forall i, In i ab -> i < ndim G R (fbase G R b)) ->
  td_gen G R (td_old G R mode) (st_of G R a) (st_of G R b) (zaxes axes) true
  = match f_tensordot G R a b axes mode with Some c => FtArray (st_of G R c) | None => FtRaise end.
Proof. exact gen_tensordot_is_model. Qed.

(* the same for the model of the CURRENT fused routine (Fused.f_tensordot2, what C06 ties to) *)
Theorem C03_gen_tensordot_is_model2 :
  forall (G : Symmetry) (R : Ring), (forall a b : C G, ceqb G a b = true <-> a = b) -> parity_ok G ->
  forall (a b : farray G R) (axes : nat + (list Z * list Z)) (mode : tmode) (aa ab : list nat),
  opnd_ok G R a -> opnd_ok G R b ->
  parse_axes (ndim G R (fbase G R a)) (ndim G R (fbase G R b)) axes = Some (aa, ab) ->
  NoDup aa -> (forall i, In i aa -> i < ndim G R (fbase G R a)) ->
  NoDup ab -> (forall i, In i ab -> i < ndim G R (fbase G R b)) ->
  td_gen G R (td_new G R mode) (st_of G R a) (st_of G R b) (zaxes axes) true
  = match f_tensordot2 G R a b axes mode with Some c => FtArray (st_of G R c) | None => FtRaise end.
Proof. exact gen_tensordot_is_model2. Qed.

(* for ANY abelian contraction td and both settings of preserve_array: the generated function is the hand
   front end `f_front td` (Fermi.f_tensordot with td in place of a_tensordot), the scalar return path included;
   the scalar path needs the result of td to have no sector twice *)
Theorem C03_gen_tensordot_any_contraction :
  forall (G : Symmetry) (R : Ring), (forall a b : C G, ceqb G a b = true <-> a = b) -> parity_ok G ->
  forall (td : aarray G R -> aarray G R -> list Z -> list Z -> option (aarray G R))
         (a b : farray G R) (axes : nat + (list Z * list Z)) (aa ab : list nat) (pres : bool),
  opnd_ok G R a -> opnd_ok G R b ->
  parse_axes (ndim G R (fbase G R a)) (ndim G R (fbase G R b)) axes = Some (aa, ab) ->
  NoDup aa -> (forall i, In i aa -> i < ndim G R (fbase G R a)) ->
  NoDup ab -> (forall i, In i ab -> i < ndim G R (fbase G R b)) ->
  (pres = false -> forall x y xa xb c, td x y xa xb = Some c -> NoDup (sectors G R c)) ->
  td_gen G R td (st_of G R a) (st_of G R b) (zaxes axes) pres = ft_out G R pres (f_front G R td a b axes).
Proof. exact gen_tensordot_any_contraction. Qed.

Theorem C03_f_tensordot_is_front :
  forall (G : Symmetry) (R : Ring) (a b : farray G R) (axes : nat + (list Z * list Z)) (mode : tmode),
  f_tensordot G R a b axes mode = f_front G R (td_old G R mode) a b axes /\
  f_tensordot2 G R a b axes mode = f_front G R (td_new G R mode) a b axes.
Proof. exact (fun G R a b axes mode => conj (f_tensordot_is_front G R a b axes mode) (f_tensordot2_is_front G R a b axes mode)). Qed.

(* the scalar return path (preserve_array=False) with the block-by-block contraction: phase_sync, then the
   block of the empty sector, 0.0 when there is none *)
Theorem C03_gen_tensordot_scalar_blockwise :
  forall (G : Symmetry) (R : Ring), (forall a b : C G, ceqb G a b = true <-> a = b) -> parity_ok G ->
  forall (a b : farray G R) (axes : nat + (list Z * list Z)) (aa ab : list nat),
  opnd_ok G R a -> opnd_ok G R b ->
  parse_axes (ndim G R (fbase G R a)) (ndim G R (fbase G R b)) axes = Some (aa, ab) ->
  NoDup aa -> (forall i, In i aa -> i < ndim G R (fbase G R a)) ->
  NoDup ab -> (forall i, In i ab -> i < ndim G R (fbase G R b)) ->
  td_gen G R (td_old G R MBlockwise) (st_of G R a) (st_of G R b) (zaxes axes) false
  = ft_out G R false (f_tensordot G R a b axes MBlockwise).
Proof. exact gen_tensordot_scalar_blockwise. Qed.

(* a @ b: the generated __matmul__ is Fermi.f_matmul (which operand is flipped on which axis under which test,
   the syncs, the resolution, ranks above 2 refused), with the scalar path for two vectors *)
Theorem C03_gen_matmul_is_model :
  forall (G : Symmetry) (R : Ring), (forall a b : C G, ceqb G a b = true <-> a = b) -> parity_ok G ->
  forall a b : farray G R,
  NoDup (fsectors G R a) -> NoDup (fphases G R a) ->
  NoDup (fsectors G R b) -> NoDup (fphases G R b) -> bits_ok G (fsectors G R b) ->
  mm_gen G R (st_of G R a) (st_of G R b) = ft_out G R false (f_matmul G R a b).
Proof. exact gen_matmul_is_model. Qed.

(* states and arrays correspond one to one *)
Theorem C03_gen_state_roundtrip :
  forall (G : Symmetry) (R : Ring) (x : farray G R), farr_of G R (st_of G R x) = x.
Proof. exact farr_of_st. Qed.

(* ---- 2. the contraction theorems of Props/C03.v through the generated front end ---- *)
(* C03_tensordot_sign_formula: what the generated tensordot_fermionic returns is the ABELIAN contraction of the
   two sign-adjusted transposed operands (one sign per odd contracted index that meets as ket-then-bra, on the
   operand chosen by the size test), followed by the global sign / label resolution *)
Theorem C03_gen_tensordot_sign_formula :
  forall (G : Symmetry) (R : Ring), NegLaws R -> (forall a b : C G, ceqb G a b = true <-> a = b) -> parity_ok G ->
  forall (a b : farray G R) (axes : nat + (list Z * list Z)) (mode : tmode) (aa ab : list nat),
  opnd_ok G R a -> opnd_ok G R b ->
  parse_axes (ndim G R (fbase G R a)) (ndim G R (fbase G R b)) axes = Some (aa, ab) ->
  NoDup aa -> (forall i, In i aa -> i < ndim G R (fbase G R a)) ->
  NoDup ab -> (forall i, In i ab -> i < ndim G R (fbase G R b)) ->
  td_gen G R (td_old G R mode) (st_of G R a) (st_of G R b) (zaxes axes) true
  = match tdot_spec G R a b aa ab mode with Some c => FtArray (st_of G R c) | None => FtRaise end.
Proof. exact gen_tensordot_sign_formula. Qed.

(* C03_tensordot_element_partial: element for element the array the generated front end returns (block-by-block
   strategy) is the signed dense contraction *)
Theorem C03_gen_tensordot_element :
  forall (G : Symmetry) (R : Ring), NegLaws R -> (forall a b : C G, ceqb G a b = true <-> a = b) -> SumLaws R -> parity_ok G ->
  forall (a b : farray G R) (axes : nat + (list Z * list Z)) (aa ab : list nat) (minus : bool) (odd : list fop),
  let na := ndim G R (fbase G R a) in
  let nb := ndim G R (fbase G R b) in
  let cixs := take_axes (dflt_index G) (indices G R (fbase G R a)) aa in
  parse_axes na nb axes = Some (aa, ab) ->
  blocks_ok G R (fbase G R a) -> blocks_ok G R (fbase G R b) ->
  NoDup (fphases G R a) -> NoDup (fphases G R b) -> bits_ok G (fsectors G R a) -> bits_ok G (fsectors G R b) ->
  NoDup aa -> (forall i, In i aa -> i < na) -> NoDup ab -> (forall i, In i ab -> i < nb) ->
  opposite_dirs G R a b aa ab ->
  Forall (fun ix => NoDup (icharges G ix)) cixs ->
  map (chargemap G) cixs = map (chargemap G) (take_axes (dflt_index G) (indices G R (fbase G R b)) ab) ->
  resolve_oddpos (fparity G R a) (foddpos G R a) (foddpos G R b) = Some (minus, odd) ->
  exists y, td_gen G R (td_old G R MBlockwise) (st_of G R a) (st_of G R b) (zaxes axes) true = FtArray (st_of G R y) /\
    foddpos G R y = odd /\
    forall cl cr,
      coords_ok G (without_axes (indices G R (fbase G R a)) aa) cl = true ->
      coords_ok G (without_axes (indices G R (fbase G R b)) ab) cr = true ->
      sem G R (f_value G R y) (cl ++ cr)
      = rsgn R minus (rsum R (map (fun kc =>
          rmul R (rsgn R (sigma_a G R a aa (map fst (merge G na aa cl kc))) (sem G R (f_value G R a) (merge G na aa cl kc)))
                 (rsgn R (sigma_b G R b ab (map fst (merge G nb ab cr kc))) (sem G R (f_value G R b) (merge G nb ab cr kc))))
          (all_coords G cixs))).
Proof. exact gen_tensordot_element. Qed.

Print Assumptions C03_gen_tensordot_is_model.
Print Assumptions C03_gen_tensordot_is_model2.
Print Assumptions C03_gen_tensordot_any_contraction.
Print Assumptions C03_f_tensordot_is_front.
Print Assumptions C03_gen_tensordot_scalar_blockwise.
Print Assumptions C03_gen_matmul_is_model.
Print Assumptions C03_gen_state_roundtrip.
Print Assumptions C03_gen_tensordot_sign_formula.
Print Assumptions C03_gen_tensordot_element.
