(* Props/C16b.v — property C16, continuation: the constructor ALGORITHMS as GENERATED
   (tr/gen_ctor2.py -> Gen/CtorAlgGen.v) from the current source of BlockIndex.__init__,
   AbelianArray.__init__, from_fill_fn, from_blocks, from_dense and to_dense.  Statements only;
   proofs in Proofs/CtorAlgGenProofs.v.

   A generated function returns `cres`: COk v (it returns v), CRaise (it raises), CFuel (the
   translation of a recursive closure ran out of fuel); `c_of_opt` turns the hand model's option
   (None = raises) into it.  Each generated function is equal to the hand model of Model/Ctor.v the
   theorems of Props/C16.v are about, on every input the model accepts (the predicate is stated);
   then `C16_init_infers_charge` and both dense round trips are restated through the generated
   functions alone. *)
From SV Require Import Proofs.OrderProofs Proofs.CtorSpec.
From SV Require Import Base.Prelude Base.Sym Base.Tensor Model.Sectors Model.Array Model.Arith
  Model.Wf Model.Fermi Model.Ctor Gen.CtorAlgGen Proofs.CtorAlgGenProofs.
Local Open Scope nat_scope.

(* ------------------------------------------------------------------ generated = model *)

(* BlockIndex.__init__: `dict(sorted(chargemap.items()))` is the table sorted by charge — for a
   chargemap that is a dict (distinct keys) over a symmetry whose `==` on charges is sound *)
Theorem C16b_block_index_init_gen_is_model :
  forall (G : Symmetry) (cm : list (C G * nat)) (d : bool) sub,
    (forall a b, ceqb G a b = true -> a = b) -> NoDup (map fst cm) ->
    block_index_init_gen G cm d sub = mk_index G cm d sub.
Proof. exact block_index_init_gen_model. Qed.

(* AbelianArray.__init__ (charge inference: first stored sector, signed by the index directions):
   every symmetry record, every input; it never raises *)
Theorem C16b_array_init_gen_is_model :
  forall (G : Symmetry) (R : Ring) (ixs : list (index G)) (q : option (C G)) (blks : list (list (C G) * tensor R)),
    array_init_gen G R ixs q blks = COk (init_array G R ixs q blks).
Proof. exact array_init_gen_model. Qed.

(* from_fill_fn (calls the generated gen_valid_sectors of Gen/SectorsGen.v): every input *)
Theorem C16b_from_fill_fn_gen_is_model :
  forall (G : Symmetry) (R : Ring) (fill : list nat -> tensor R) (ixs : list (index G)) (q : option (C G)),
    from_fill_fn_gen G R fill ixs q = COk (from_fill_fn G R fill ixs q).
Proof. exact from_fill_fn_gen_model. Qed.

(* to_dense (charges of every axis in sorted order, zero fill, concatenate(()) raises): every
   array, every fuel above the rank *)
Theorem C16b_to_dense_gen_is_model :
  forall (G : Symmetry) (R : Ring) (x : aarray G R) (fuel : nat), ndim G R x < fuel ->
    to_dense_gen G R fuel x = c_of_opt (to_dense G R x).
Proof. exact to_dense_gen_model. Qed.

(* from_blocks (tables collected block by block, sizes checked, sorted by BlockIndex): EVERY input,
   the four ways of raising included (no block, a sector longer than the first, inconsistent
   sizes, wrong number of duals) *)
Theorem C16b_from_blocks_gen_is_model :
  forall (G : Symmetry) (R : Ring), (forall a b, ceqb G a b = true <-> a = b) ->
  forall (blks : list (list (C G) * tensor R)) (dls : list bool) (q : option (C G)),
    from_blocks_gen G R blks dls q = c_of_opt (from_blocks G R blks dls q).
Proof. exact from_blocks_gen_model. Qed.

(* from_dense (positions grouped by label in first-seen order, one axis sliced after the other,
   only charge-conserving sectors kept): inputs whose label lists and duals fit the shape of a
   well-shaped dense array, every fuel above the rank *)
Theorem C16b_from_dense_gen_is_model :
  forall (G : Symmetry), GroupLaws G -> forall (R : Ring)
         (d : tensor R) (maps : list (list (C G))) (dls : list bool) (q : option (C G)) (fuel : nat),
    length (tdata d) = shape_size (tshape d) ->
    length dls = length (tshape d) -> map (@length (C G)) maps = tshape d -> length (tshape d) < fuel ->
    from_dense_gen G R fuel d maps dls q = c_of_opt (from_dense G R d maps dls q).
Proof. exact from_dense_gen_model. Qed.

(* ------------------------------------------------------------------ C16 through the generated functions *)

(* C16_init_infers_charge for the generated __init__ *)
Theorem C16b_gen_init_infers_charge :
  forall (G : Symmetry) (R : Ring) (ixs : list (index G)) (blks : list (list (C G) * tensor R)),
    exists y, array_init_gen G R ixs None blks = COk y
      /\ indices G R y = ixs
      /\ blocks G R y = blks
      /\ (blks = [] -> charge G R y = ident G)
      /\ (forall s b rest, blks = (s, b) :: rest ->
            charge G R y = combine G (signed_sector G false s (map (idual G) ixs))
            /\ (GroupLaws G -> is_valid_sector G (map (idual G) ixs) (charge G R y) s = true)
            /\ (GroupLaws G -> forall q,
                Forall (fun sb => is_valid_sector G (map (idual G) ixs) q (fst sb) = true) blks ->
                charge G R y = q
                /\ Forall (fun sb => is_valid_sector G (map (idual G) ixs) (charge G R y) (fst sb) = true) blks))
      /\ (forall c, array_init_gen G R ixs (Some c) blks = COk (mkA G R ixs c blks)).
Proof. exact gen_init_infers_charge. Qed.

(* blocks -> dense -> blocks (C16_from_dense_to_dense) with the generated to_dense and from_dense *)
Theorem C16b_gen_from_dense_to_dense :
  forall (G : Symmetry) (R : Ring), GroupLaws G -> OrderLaws G ->
  forall (x : aarray G R) (t : tensor R) (fuel fuel' : nat),
    wf_array G R x = true -> ndim G R x < fuel -> ndim G R x < fuel' ->
    to_dense_gen G R fuel x = COk t ->
    exists y, from_dense_gen G R fuel' t (labels_of G (indices G R x)) (duals G R x) (Some (charge G R x)) = COk y
      /\ charge G R y = charge G R x
      /\ map (chargemap G) (indices G R y) = map (chargemap G) (indices G R x)
      /\ duals G R y = duals G R x
      /\ Forall (fun ix => isub G ix = None) (indices G R y)
      /\ (forall s, In s (sectors G R y) <->
            (Forall2 (fun c cs => In c cs) s (map (icharges G) (indices G R x))
             /\ is_valid_sector G (duals G R x) (charge G R x) s = true))
      /\ (forall cs, coords_ok G (indices G R x) cs = true -> sem G R y cs = sem G R x cs).
Proof. exact gen_from_dense_to_dense. Qed.

(* dense -> blocks -> dense (C16_to_dense_from_dense) with the generated from_dense and to_dense *)
Theorem C16b_gen_to_dense_from_dense :
  forall (G : Symmetry) (R : Ring), GroupLaws G -> OrderLaws G ->
  forall (d : tensor R) (maps : list (list (C G))) (dls : list bool) (q : C G) (fuel : nat),
    length (tdata d) = shape_size (tshape d) ->
    length dls = length (tshape d) ->
    map (@length (C G)) maps = tshape d ->
    Forall (fun m => Forall (fun c => valid G c = true) m) maps ->
    valid G q = true ->
    length (tshape d) < fuel ->
    exists y, from_dense_gen G R fuel d maps dls (Some q) = COk y
      /\ wf_array G R y = true
      /\ charge G R y = q
      /\ duals G R y = dls
      /\ (forall s, In s (sectors G R y) <->
            (Forall2 (fun c m => In c m) s maps /\ is_valid_sector G dls q s = true))
      /\ (forall t fuel', ndim G R y < fuel' -> to_dense_gen G R fuel' y = COk t ->
            tshape t = tshape d
            /\ exists sps, Forall2 (stable_sorted_positions G) maps sps
                 /\ forall pos, inb (tshape d) pos = true ->
                      let src := map (fun p => nth (snd p) (fst p) 0) (List.combine sps pos) in
                      let sec := map (fun p => nth (snd p) (fst p) (ident G)) (List.combine maps src) in
                      inb (tshape d) src = true
                      /\ get R t pos = if is_valid_sector G dls q sec then get R d src else r0 R).
Proof. exact gen_to_dense_from_dense. Qed.

Print Assumptions C16b_block_index_init_gen_is_model.
Print Assumptions C16b_array_init_gen_is_model.
Print Assumptions C16b_from_fill_fn_gen_is_model.
Print Assumptions C16b_to_dense_gen_is_model.
Print Assumptions C16b_from_blocks_gen_is_model.
Print Assumptions C16b_from_dense_gen_is_model.
Print Assumptions C16b_gen_init_infers_charge.
Print Assumptions C16b_gen_from_dense_to_dense.
Print Assumptions C16b_gen_to_dense_from_dense.
