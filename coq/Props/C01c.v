(* Props/C01c.v — property C01, continuation of Props/C01b.v: the DECOMPOSITIONS
   (qr, svd, eigh, solve, svd_truncated) as instructions of arbitrary programs.
   Statements only; proofs live in Proofs/WfProofs3.v.

   C01b.v closes validity under arbitrary programs over `instr2`; the
   decompositions were not instructions (their structure theorems are in
   Props/C11.v, C13b.v).  Here the instruction set `instr3` = `instr2` (`I2`) +
     IQr r | ISvd r | IEigh r | ISolve ra rb | ITruncSvd r counts mode |
     IMulDiagV r v axis   (multiply_diagonal by a block-vector REGISTER) |
     FQr r | FSvd r | FEigh r | FSolve ra rb   (fermionic register file)
   is interpreted by `run3` over a state with THREE register files: abelian
   arrays, fermionic arrays (`WfProofs.regfile`) and block vectors (`Arith.bvec`:
   what svd / eigh / svd_truncated(absorb=None) return besides arrays).  As in
   `run2`, an instruction appends its results (qr: q, r; svd: u, vh and the vector
   s; eigh: v and the vector w; svd_truncated: U', VH' and for absorb=None the kept
   values) and `run3` returns None when the model of the operation returns None
   (it raises) or an executable side condition fails.  The executable models are
   those of Model/Linalg.v and Model/Truncate.v (tied to symmray.linalg by the
   correspondence of harness/c11.py and c13.py).

   ORACLES.  The dense per-block routines (LAPACK qr / svd / eigh / solve, and the
   elementwise square root used by absorb="both") are FUNCTION ARGUMENTS of
   `run3`; what is assumed of them is `lapack_shapes` = exactly the shape
   contracts of the C11 / C13b structure theorems (`split_shapes`: a x b |-> a x k,
   k x b with k > 0; `svd_shapes`; `eigh_shapes`: n x n |-> n, n x n;
   `solve_shapes`), nothing about values, nothing about the square root.  They are
   satisfiable over every ring: `C01_lapack_shapes_satisfiable` (the shape-only
   stand-ins of Model/Linalg.v).

   Side conditions built into `results3` (all executable):
     IEigh     every block square (LAPACK raises otherwise); charge = identity and
               rank 2 are tested by the model itself
     ISolve    `solve_ok`: b lives on a's first index (same table, same direction),
               a's blocks square
     ITruncSvd `counts_okb`: one count per stored block, none above the block's
               number of singular values — what every outcome of the selection logic
               satisfies (C13_no_cutoff_bond_dimension / keep_count <= length)
     FQr, FSvd `phases_stored`: every pending sign sits on a STORED sector.  The left
               factor keeps x's pending-sign table; a key on a valid but unstored
               sector has a column charge that is not in the pruned bond table, so the
               INVARIANT `wf_fermi` (keys inside the tables) is lost —
               `C01_fermi_decomp_full_refuted` — although the AUDITED predicate
               `Valid.valid_farray` (keys charge-conserving, right rank) still holds:
               `C01_fermi_split_valid_partial` (one step, no side condition).
     FSolve    the matrix is even (`fparity a = false`).  For an odd matrix the
               solution keeps b's labels although its charge parity changed: this is
               known finding F16 (C11); `WfProofs3.f_solve_odd_matrix_invalid`.

   PARTIAL (fermionic decompositions inside programs): `C01_programs_fermi_decomp_full`
   is the unguarded statement; it is FALSE for `wf_fermi`.  What is missing for an
   unguarded program theorem is an inductive invariant in which pending-sign keys
   are only charge-conserving (as in `Valid`), preserved by EVERY instruction — i.e.
   the fermionic lemmas of WfProofs.v / WfProofs2.v redone for that weaker `PhOK`
   (contraction and fuse use that keys lie in the tables).  Abelian decompositions:
   nothing is partial.

   Examples (Proofs/WfProofs3.v §5, U1, integer data, exact per-block routines and the
   zero stand-ins): `ex_prog3` — transpose, fuse to a sparse matrix, qr, q@r, svd,
   u.diag(s), two truncations (one drops a sector), eigh of x^dagger x, solve, and
   the same on fermionic registers with pending signs; `ex_prog3_runs` (every array
   `wf` and `Valid` by vm_compute), `programs_wf3_inst`, `programs_valid3_inst`. *)
From SV Require Import Base.Prelude Base.Sym Base.Tensor Model.Sectors Model.Array Model.Arith
  Model.Fermi Model.Wf Model.Valid Model.SymInst Model.Linalg Model.Truncate
  Proofs.OrderProofs Proofs.TdotInst Proofs.WfProofs Proofs.WfProofs2 Proofs.LinalgProofs Proofs.LinalgProofs2 Proofs.WfProofs3.
Local Open Scope nat_scope.

(* ---- the program theorems ---- *)
(* every register (abelian array, fermionic array, block vector) of every state reached by
   any finite program over `instr3`, from any valid state, is valid *)
Theorem C01_programs_wf3 :
  forall G : Symmetry, GroupLaws G ->
  forall (R : Ring) (qr_blk : tensor R -> tensor R * tensor R)
    (svd_blk : tensor R -> tensor R * tensor R * tensor R) (eigh_blk : tensor R -> tensor R * tensor R)
    (solve_blk : tensor R -> tensor R -> tensor R) (sqrt_blk : tensor R -> tensor R),
  OrderLaws G -> lapack_shapes R qr_blk svd_blk eigh_blk solve_blk ->
  forall (prog : list (instr3 G R)) (st st' : state3 G R),
  wf_state3 G R st ->
  run3 G R qr_blk svd_blk eigh_blk solve_blk sqrt_blk prog st = Some st' -> wf_state3 G R st'.
Proof. exact programs_wf3. Qed.

(* ... and passes the audited predicate of Model/Valid.v (what harness/c01.py judges the
   implementation's results by) *)
Theorem C01_programs_valid3 :
  forall G : Symmetry, GroupLaws G ->
  forall (R : Ring) (qr_blk : tensor R -> tensor R * tensor R)
    (svd_blk : tensor R -> tensor R * tensor R * tensor R) (eigh_blk : tensor R -> tensor R * tensor R)
    (solve_blk : tensor R -> tensor R -> tensor R) (sqrt_blk : tensor R -> tensor R),
  OrderLaws G -> lapack_shapes R qr_blk svd_blk eigh_blk solve_blk ->
  forall (prog : list (instr3 G R)) (st st' : state3 G R),
  wf_state3 G R st ->
  run3 G R qr_blk svd_blk eigh_blk solve_blk sqrt_blk prog st = Some st' -> valid_state3 G R st'.
Proof. exact programs_valid3. Qed.

(* every INTERMEDIATE state too (whether or not the program runs to its end) *)
Theorem C01_programs_trace_wf3 :
  forall G : Symmetry, GroupLaws G ->
  forall (R : Ring) (qr_blk : tensor R -> tensor R * tensor R)
    (svd_blk : tensor R -> tensor R * tensor R * tensor R) (eigh_blk : tensor R -> tensor R * tensor R)
    (solve_blk : tensor R -> tensor R -> tensor R) (sqrt_blk : tensor R -> tensor R),
  OrderLaws G -> lapack_shapes R qr_blk svd_blk eigh_blk solve_blk ->
  forall (prog : list (instr3 G R)) (st : state3 G R),
  wf_state3 G R st ->
  Forall (wf_state3 G R) (trace3 G R qr_blk svd_blk eigh_blk solve_blk sqrt_blk prog st).
Proof. exact programs_trace_wf3. Qed.

(* the five built-in symmetries: nothing assumed but the shape contracts and validity of the
   initial registers *)
Theorem C01_programs_wf3_builtin :
  forall (G : Symmetry) (R : Ring) (qr_blk : tensor R -> tensor R * tensor R)
    (svd_blk : tensor R -> tensor R * tensor R * tensor R) (eigh_blk : tensor R -> tensor R * tensor R)
    (solve_blk : tensor R -> tensor R -> tensor R) (sqrt_blk : tensor R -> tensor R)
    (prog : list (instr3 G R)) (st st' : state3 G R),
  builtin_sym G -> lapack_shapes R qr_blk svd_blk eigh_blk solve_blk -> wf_state3 G R st ->
  run3 G R qr_blk svd_blk eigh_blk solve_blk sqrt_blk prog st = Some st' -> wf_state3 G R st'.
Proof. exact programs_wf3_builtin. Qed.

Theorem C01_programs_valid3_builtin :
  forall (G : Symmetry) (R : Ring) (qr_blk : tensor R -> tensor R * tensor R)
    (svd_blk : tensor R -> tensor R * tensor R * tensor R) (eigh_blk : tensor R -> tensor R * tensor R)
    (solve_blk : tensor R -> tensor R -> tensor R) (sqrt_blk : tensor R -> tensor R)
    (prog : list (instr3 G R)) (st st' : state3 G R),
  builtin_sym G -> lapack_shapes R qr_blk svd_blk eigh_blk solve_blk -> wf_state3 G R st ->
  run3 G R qr_blk svd_blk eigh_blk solve_blk sqrt_blk prog st = Some st' -> valid_state3 G R st'.
Proof. exact programs_valid3_builtin. Qed.

(* the programs of C01b.v are the programs over `I2` (the vector registers are untouched) *)
Theorem C01_run3_extends_run2 :
  forall (G : Symmetry) (R : Ring) (qr_blk : tensor R -> tensor R * tensor R)
    (svd_blk : tensor R -> tensor R * tensor R * tensor R) (eigh_blk : tensor R -> tensor R * tensor R)
    (solve_blk : tensor R -> tensor R -> tensor R) (sqrt_blk : tensor R -> tensor R)
    (prog : list (instr2 G R)) (rg : regfile G R) (rv : list (bvec G R)),
  run3 G R qr_blk svd_blk eigh_blk solve_blk sqrt_blk (map (I2 G R) prog) (rg, rv) =
  match run2 G R prog rg with Some rg' => Some (rg', rv) | None => None end.
Proof. exact run3_old. Qed.

(* the contracts are satisfiable over every ring *)
Theorem C01_lapack_shapes_satisfiable :
  forall R : Ring, lapack_shapes R (qr_stub R) (svd_stub R) (eigh_stub R) (solve_stub R).
Proof. exact stubs_lapack_shapes. Qed.

(* the conclusion is not vacuous: qr and svd of ANY valid rank-2 register run *)
Theorem C01_step3_qr_runs :
  forall G : Symmetry, GroupLaws G ->
  forall (R : Ring) (qr_blk : tensor R -> tensor R * tensor R)
    (svd_blk : tensor R -> tensor R * tensor R * tensor R) (eigh_blk : tensor R -> tensor R * tensor R)
    (solve_blk : tensor R -> tensor R -> tensor R) (sqrt_blk : tensor R -> tensor R),
  OrderLaws G -> lapack_shapes R qr_blk svd_blk eigh_blk solve_blk ->
  forall (st : state3 G R) (r : nat) (x : aarray G R),
  wf_state3 G R st -> nth_error (fst (fst st)) r = Some x -> ndim G R x = 2 ->
  exists q rr, step3 G R qr_blk svd_blk eigh_blk solve_blk sqrt_blk st (IQr G R r)
               = Some ((fst (fst st) ++ [q; rr], snd (fst st) ++ []), snd st ++ []).
Proof. exact step3_qr_runs. Qed.

Theorem C01_step3_svd_runs :
  forall G : Symmetry, GroupLaws G ->
  forall (R : Ring) (qr_blk : tensor R -> tensor R * tensor R)
    (svd_blk : tensor R -> tensor R * tensor R * tensor R) (eigh_blk : tensor R -> tensor R * tensor R)
    (solve_blk : tensor R -> tensor R -> tensor R) (sqrt_blk : tensor R -> tensor R),
  OrderLaws G -> lapack_shapes R qr_blk svd_blk eigh_blk solve_blk ->
  forall (st : state3 G R) (r : nat) (x : aarray G R),
  wf_state3 G R st -> nth_error (fst (fst st)) r = Some x -> ndim G R x = 2 ->
  exists u s vh, step3 G R qr_blk svd_blk eigh_blk solve_blk sqrt_blk st (ISvd G R r)
                 = Some ((fst (fst st) ++ [u; vh], snd (fst st) ++ []), snd st ++ [s]).
Proof. exact step3_svd_runs. Qed.

(* ---- one theorem per decomposition (what `results3_wf` is made of) ---- *)
Theorem C01_qr_wf :
  forall G : Symmetry, GroupLaws G ->
  forall (R : Ring) (qr_blk : tensor R -> tensor R * tensor R), OrderLaws G ->
  forall x q r : aarray G R,
  split_shapes R qr_blk -> wf_array G R x = true -> a_qr G R qr_blk x = Some (q, r) ->
  wf_array G R q = true /\ wf_array G R r = true.
Proof. exact qr_wf. Qed.

(* the singular values form a block vector ON the bond: one block per bond charge, block
   length = bond size *)
Theorem C01_svd_wf :
  forall G : Symmetry, GroupLaws G ->
  forall (R : Ring) (svd_blk : tensor R -> tensor R * tensor R * tensor R), OrderLaws G ->
  forall (x u : aarray G R) (s : bvec G R) (vh : aarray G R),
  svd_shapes R svd_blk -> wf_array G R x = true -> a_svd G R svd_blk x = Some (u, s, vh) ->
  wf_array G R u = true /\ wf_array G R vh = true /\ wf_bvec G R s = true /\ bvec_on G R (ix1 G R u) s.
Proof. exact svd_wf. Qed.

Theorem C01_eigh_wf :
  forall G : Symmetry, GroupLaws G ->
  forall (R : Ring) (eigh_blk : tensor R -> tensor R * tensor R) (x : aarray G R) (w : bvec G R) (v : aarray G R),
  eigh_shapes R eigh_blk -> wf_array G R x = true -> square_blocks G R x = true ->
  a_eigh G R eigh_blk x = Some (w, v) ->
  wf_array G R v = true /\ wf_bvec G R w = true /\
  (forall (c : C G) (t : tensor R),
     In (c, t) w -> In c (icharges G (ix1 G R x)) /\ tshape t = [size_of G (ix1 G R x) c]).
Proof. exact eigh_wf. Qed.

Theorem C01_solve_wf :
  forall G : Symmetry, GroupLaws G ->
  forall (R : Ring) (solve_blk : tensor R -> tensor R -> tensor R) (a b x : aarray G R),
  solve_shapes R solve_blk -> wf_array G R a = true -> wf_array G R b = true -> solve_ok G R a b = true ->
  a_solve G R solve_blk a b = Some x ->
  wf_array G R x = true /\ charge G R x = combine G [charge G R b; sign G (charge G R a) true].
Proof. exact solve_wf3. Qed.

(* svd_truncated, every absorb mode; with absorb=None the kept values are a block vector on
   the rebuilt bond *)
Theorem C01_svd_truncated_wf :
  forall G : Symmetry, GroupLaws G ->
  forall (R : Ring) (svd_blk : tensor R -> tensor R * tensor R * tensor R) (sqrt_blk : tensor R -> tensor R),
  OrderLaws G ->
  forall (x : aarray G R) (counts : list nat) (mode : option absorb_mode) (u : aarray G R)
    (os : option (bvec G R)) (vh : aarray G R),
  svd_shapes R svd_blk -> wf_array G R x = true -> counts_okb G R svd_blk x counts = true ->
  a_svd_truncated G R svd_blk sqrt_blk x counts mode = Some (u, os, vh) ->
  wf_array G R u = true /\ wf_array G R vh = true /\
  match os with
  | Some s => mode = None /\ wf_bvec G R s = true /\ bvec_on G R (ix1 G R u) s
  | None => mode <> None
  end.
Proof. exact trunc_wf. Qed.

(* ---- fermionic decompositions ---- *)
Theorem C01_f_qr_wf :
  forall G : Symmetry, GroupLaws G ->
  forall (R : Ring) (qr_blk : tensor R -> tensor R * tensor R), OrderLaws G ->
  forall x q r : farray G R,
  split_shapes R qr_blk -> wf_fermi G R x = true -> phases_stored G R x = true ->
  f_qr G R qr_blk x = Some (q, r) -> wf_fermi G R q = true /\ wf_fermi G R r = true.
Proof. exact f_qr_wf. Qed.

Theorem C01_f_svd_wf :
  forall G : Symmetry, GroupLaws G ->
  forall (R : Ring) (svd_blk : tensor R -> tensor R * tensor R * tensor R), OrderLaws G ->
  forall (x u : farray G R) (s : bvec G R) (vh : farray G R),
  svd_shapes R svd_blk -> wf_fermi G R x = true -> phases_stored G R x = true ->
  f_svd G R svd_blk x = Some (u, s, vh) ->
  wf_fermi G R u = true /\ wf_fermi G R vh = true /\ wf_bvec G R s = true /\
  bvec_on G R (ix1 G R (fbase G R u)) s.
Proof. exact f_svd_wf. Qed.

Theorem C01_f_eigh_wf :
  forall G : Symmetry, GroupLaws G ->
  forall (R : Ring) (eigh_blk : tensor R -> tensor R * tensor R) (x : farray G R) (w : bvec G R) (v : farray G R),
  eigh_shapes R eigh_blk -> wf_fermi G R x = true ->
  square_blocks G R (fbase G R (f_phase_sync G R x)) = true ->
  f_eigh G R eigh_blk x = Some (w, v) -> wf_fermi G R v = true /\ wf_bvec G R w = true.
Proof. exact f_eigh_wf. Qed.

Theorem C01_f_solve_wf :
  forall G : Symmetry, GroupLaws G ->
  forall (R : Ring) (solve_blk : tensor R -> tensor R -> tensor R) (a b x : farray G R),
  solve_shapes R solve_blk -> wf_fermi G R a = true -> wf_fermi G R b = true ->
  solve_ok G R (fbase G R (f_phase_sync G R a)) (fbase G R (f_phase_sync G R b)) = true ->
  fparity G R a = false -> f_solve G R solve_blk a b = Some x -> wf_fermi G R x = true.
Proof. exact f_solve_wf. Qed.

(* the unguarded fermionic statement (no `phases_stored`), at the level of the invariant:
   false; at the level of the audited predicate: true, one step *)
Definition C01_programs_fermi_decomp_full : Prop := fermi_decomp_full_stmt.

Theorem C01_fermi_decomp_full_refuted : ~ C01_programs_fermi_decomp_full.
Proof. exact fermi_decomp_full_false. Qed.

Theorem C01_fermi_split_valid_partial :
  forall G : Symmetry, GroupLaws G -> forall R : Ring, OrderLaws G ->
  forall (f : tensor R -> tensor R * tensor R) (x q r : farray G R),
  split_shapes R f -> wf_fermi G R x = true -> f_split G R f x = Some (q, r) ->
  valid_farray G R q (fphases G R q) = true /\ wf_fermi G R r = true.
Proof. exact f_split_valid. Qed.

Print Assumptions C01_programs_wf3.
Print Assumptions C01_programs_valid3.
Print Assumptions C01_programs_trace_wf3.
Print Assumptions C01_programs_wf3_builtin.
Print Assumptions C01_programs_valid3_builtin.
Print Assumptions C01_run3_extends_run2.
Print Assumptions C01_lapack_shapes_satisfiable.
Print Assumptions C01_step3_qr_runs.
Print Assumptions C01_step3_svd_runs.
Print Assumptions C01_qr_wf.
Print Assumptions C01_svd_wf.
Print Assumptions C01_eigh_wf.
Print Assumptions C01_solve_wf.
Print Assumptions C01_svd_truncated_wf.
Print Assumptions C01_f_qr_wf.
Print Assumptions C01_f_svd_wf.
Print Assumptions C01_f_eigh_wf.
Print Assumptions C01_f_solve_wf.
Print Assumptions C01_fermi_decomp_full_refuted.
Print Assumptions C01_fermi_split_valid_partial.
