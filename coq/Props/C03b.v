(* Props/C03b.v — property C03, continuation: the element formula of the fermionic
   contraction in ALL THREE MODES.  Statements only; proofs live in
   Proofs/ModesProofs.v (on top of Props/C03.v: sign formula and blockwise element
   theorem, and Props/C06b.v: the fused strategy agrees with the blockwise one).

   Two models of the fused strategy exist:  Array.tdot_fused (the library before
   repair 704f29b: EVERY leg of the product of the fused pair that carries
   sub-index information is unfused), used by Fermi.f_tensordot, and
   Fused.tdot_fused2 (the current code: only the legs fused by the routine are
   unfused), used by Fused.f_tensordot2.

   1. C03_old_new_general / C03_unfuse_all_is_every_axis: both routines align the
      operands, return the same empty record when nothing is left, and otherwise
      post-process the SAME blockwise product of the fused pair: the old one with
      `unfuse_or_keep` at every axis (last first), the new one at the axes of the
      free groups with two or more members.
      C03_tdot_fused_eq_fused2: they coincide when a free group with ONE member is
      not itself a leg with sub-index information; hence a_tensordot = a_tensordot2
      and f_tensordot = f_tensordot2 there (`free_unfused x free`: if `free` has
      exactly one member, that leg of x has isub = None).  The restriction is
      needed: ModesProofs.ModesEx.old_new_differ (rank 3 against rank 2).
   2. C03_tensordot2_wf, C03_tensordot2_sign_formula: validity and sign formula for
      the current-code front end.
   3. C03_all_modes_agree: for valid operands with matching contracted legs, every
      mode of f_tensordot2 returns the labels, charge and index tables of the
      blockwise result and the same value at EVERY coordinate list.
   4. C03_tensordot2_element_all_modes: the statement C03_tensordot_element_full
      of Props/C03.v for the current-code model, all three modes, NO restriction on
      the free legs; C03_tensordot_element_all_modes: the same for Fermi.f_tensordot
      (as C03_tensordot_element_full is literally stated) for un-fused free legs.
      Relative to C03_tensordot_element_full the hypotheses GroupLaws / OrderLaws
      and wf_array (instead of blocks_ok) are added (C06 needs valid operands), and,
      for the old model, free_unfused.  Without free_unfused the full statement is
      FALSE for mode = fused (the result of the old routine has one leg more than
      the coordinates cl ++ cr: old_new_differ). *)
From SV Require Import Base.Prelude Base.Sym Base.Tensor Gen.PhasePerm Model.Sectors Model.Array Model.Arith
  Model.Fermi Model.Fused Model.Graded Model.Wf Proofs.OrderProofs Proofs.GradedProofs Proofs.Tdot Proofs.WfProofs
  Proofs.FermiProofs Proofs.FusedProofs Proofs.RouteProofs Proofs.ModesProofs Props.C03.
From Coq Require Import Permutation.
Local Open Scope nat_scope.

(* ---- 1. old against new fused routine ---- *)
Theorem C03_unfuse_all_is_every_axis :
  forall (G : Symmetry) (R : Ring) (x : aarray G R),
  a_unfuse_all G R x = fold_left (unfuse_or_keep G R) (rev (seq 0 (ndim G R x))) x.
Proof. exact unfuse_all_is_every_axis. Qed.

Theorem C03_old_new_general :
  forall (G : Symmetry) (R : Ring) (a b : aarray G R) (la aa ab rb : list nat),
  let a1 := al_a G R a b aa ab in
  let b1 := al_b G R a b aa ab in
  let empty := mkA G R (without_axes (indices G R a1) aa ++ without_axes (indices G R b1) ab)
                   (combine G [charge G R a; charge G R b]) [] in
  let c := fused_product G R a1 b1 la aa ab rb in
  tdot_fused G R a b la aa ab rb
  = (if is_nil (blocks G R a1) || is_nil (blocks G R b1) then empty
     else fold_left (unfuse_or_keep G R) (rev (seq 0 (ndim G R c))) c) /\
  tdot_fused2 G R a b la aa ab rb
  = (if is_nil (blocks G R a1) || is_nil (blocks G R b1) then empty
     else let c1 := if Nat.ltb 1 (length rb) then unfuse_or_keep G R c (ndim G R c - 1) else c in
          if Nat.ltb 1 (length la) then unfuse_or_keep G R c1 0 else c1).
Proof. exact tdot_fused_general. Qed.

Theorem C03_tdot_fused_eq_fused2 :
  forall (G : Symmetry) (R : Ring) (a b : aarray G R) (la aa ab rb : list nat),
  Permutation (la ++ aa) (seq 0 (ndim G R a)) -> Permutation (ab ++ rb) (seq 0 (ndim G R b)) ->
  (forall ax, la = [ax] -> isub G (nth ax (indices G R a) (dflt_index G)) = None) ->
  (forall ax, rb = [ax] -> isub G (nth ax (indices G R b) (dflt_index G)) = None) ->
  tdot_fused G R a b la aa ab rb = tdot_fused2 G R a b la aa ab rb.
Proof. exact tdot_fused_eq_fused2. Qed.

Theorem C03_a_tensordot_eq_tensordot2 :
  forall (G : Symmetry) (R : Ring) (a b : aarray G R) (axes : nat + (list Z * list Z)) (mode : tmode) (aa ab : list nat),
  parse_axes (ndim G R a) (ndim G R b) axes = Some (aa, ab) ->
  NoDup aa -> (forall i, In i aa -> i < ndim G R a) -> NoDup ab -> (forall i, In i ab -> i < ndim G R b) ->
  free_unfused G R a (rest_axes (ndim G R a) aa) -> free_unfused G R b (rest_axes (ndim G R b) ab) ->
  a_tensordot G R a b axes mode = a_tensordot2 G R a b axes mode.
Proof. exact a_tensordot_eq_tensordot2. Qed.

Theorem C03_f_tensordot_eq_tensordot2 :
  forall (G : Symmetry), GroupLaws G -> forall (R : Ring), NegLaws R ->
  forall (a b : farray G R) (axes : nat + (list Z * list Z)) (mode : tmode) (aa ab : list nat),
  parse_axes (ndim G R (fbase G R a)) (ndim G R (fbase G R b)) axes = Some (aa, ab) ->
  NoDup (fsectors G R a) -> sectors_len G R a -> NoDup (fsectors G R b) -> sectors_len G R b ->
  NoDup aa -> (forall i, In i aa -> i < ndim G R (fbase G R a)) ->
  NoDup ab -> (forall i, In i ab -> i < ndim G R (fbase G R b)) ->
  free_unfused G R (fbase G R a) (rest_axes (ndim G R (fbase G R a)) aa) ->
  free_unfused G R (fbase G R b) (rest_axes (ndim G R (fbase G R b)) ab) ->
  f_tensordot G R a b axes mode = f_tensordot2 G R a b axes mode.
Proof. exact f_tensordot_eq_tensordot2. Qed.

(* ---- 2. the current-code front end: validity, sign formula ---- *)
Theorem C03_tdot_fused2_wf :
  forall (G : Symmetry), GroupLaws G -> OrderLaws G -> forall (R : Ring) (a b : aarray G R) (aa ab : list nat),
  wf_array G R a = true -> wf_array G R b = true ->
  NoDup aa -> (forall i, In i aa -> i < ndim G R a) ->
  NoDup ab -> (forall i, In i ab -> i < ndim G R b) ->
  length aa = length ab ->
  (forall k, k < length aa ->
     idual G (nth (nth k aa 0) (indices G R a) (dflt_index G)) = negb (idual G (nth (nth k ab 0) (indices G R b) (dflt_index G)))) ->
  wf_array G R (tdot_fused2 G R a b (rest_axes (ndim G R a) aa) aa ab (rest_axes (ndim G R b) ab)) = true.
Proof. exact tdot_fused2_wf. Qed.

Theorem C03_tensordot2_wf :
  forall (G : Symmetry), GroupLaws G -> OrderLaws G ->
  forall (R : Ring) (A B c : aarray G R) (axes : nat + (list Z * list Z)) (mode : tmode) (aa ab : list nat),
  wf_array G R A = true -> wf_array G R B = true ->
  parse_axes (ndim G R A) (ndim G R B) axes = Some (aa, ab) -> contract_ok G R A B aa ab = true ->
  a_tensordot2 G R A B axes mode = Some c -> wf_array G R c = true.
Proof. exact tensordot2_wf. Qed.

(* `tdot_spec2` is fermi_finish a b (a_tensordot2 (tdot_opA fl a la aa) (tdot_opB (negb fl) b ab rb)
   (last ncon, first ncon) mode), fl = `tdot_flip_a a b aa ab` the size test *)
Theorem C03_tensordot2_sign_formula :
  forall (G : Symmetry), GroupLaws G -> forall (R : Ring), NegLaws R ->
  forall (a b : farray G R) (axes : nat + (list Z * list Z)) (mode : tmode) (aa ab : list nat),
  parse_axes (ndim G R (fbase G R a)) (ndim G R (fbase G R b)) axes = Some (aa, ab) ->
  NoDup (fsectors G R a) -> sectors_len G R a -> NoDup (fsectors G R b) -> sectors_len G R b ->
  NoDup aa -> (forall i, In i aa -> i < ndim G R (fbase G R a)) ->
  NoDup ab -> (forall i, In i ab -> i < ndim G R (fbase G R b)) ->
  f_tensordot2 G R a b axes mode = tdot_spec2 G R a b aa ab mode.
Proof. exact tensordot2_sign_formula. Qed.

(* ---- 3. all modes agree ---- *)
Theorem C03_all_modes_agree :
  forall (G : Symmetry), GroupLaws G -> OrderLaws G -> forall (R : Ring), NegLaws R -> SumLaws R ->
  forall (a b : farray G R) (axes : nat + (list Z * list Z)) (aa ab : list nat) (m : tmode),
  wf_array G R (fbase G R a) = true -> wf_array G R (fbase G R b) = true ->
  parse_axes (ndim G R (fbase G R a)) (ndim G R (fbase G R b)) axes = Some (aa, ab) ->
  NoDup aa -> (forall i, In i aa -> i < ndim G R (fbase G R a)) ->
  NoDup ab -> (forall i, In i ab -> i < ndim G R (fbase G R b)) ->
  opposite_dirs G R a b aa ab ->
  map (chargemap G) (take_axes (dflt_index G) (indices G R (fbase G R a)) aa)
    = map (chargemap G) (take_axes (dflt_index G) (indices G R (fbase G R b)) ab) ->
  forall y, f_tensordot G R a b axes MBlockwise = Some y ->
  exists y', f_tensordot2 G R a b axes m = Some y'
    /\ foddpos G R y' = foddpos G R y
    /\ charge G R (fbase G R y') = charge G R (fbase G R y)
    /\ indices G R (fbase G R y') = indices G R (fbase G R y)
    /\ wf_array G R (fbase G R y') = true
    /\ forall cs, sem G R (f_value G R y') cs = sem G R (f_value G R y) cs.
Proof. exact modes_agree_stmt. Qed.

(* ---- 4. the element formula, all three modes ---- *)
(* the current code *)
Theorem C03_tensordot2_element_all_modes :
  forall (G : Symmetry), GroupLaws G -> OrderLaws G -> forall (R : Ring), NegLaws R -> SumLaws R ->
  forall (mode : tmode) (a b : farray G R) (axes : nat + (list Z * list Z)) (aa ab : list nat) (minus : bool) (odd : list fop),
  let na := ndim G R (fbase G R a) in
  let nb := ndim G R (fbase G R b) in
  let cixs := take_axes (dflt_index G) (indices G R (fbase G R a)) aa in
  parse_axes na nb axes = Some (aa, ab) ->
  wf_array G R (fbase G R a) = true -> wf_array G R (fbase G R b) = true ->
  NoDup aa -> (forall i, In i aa -> i < na) -> NoDup ab -> (forall i, In i ab -> i < nb) ->
  opposite_dirs G R a b aa ab ->
  map (chargemap G) cixs = map (chargemap G) (take_axes (dflt_index G) (indices G R (fbase G R b)) ab) ->
  resolve_oddpos (fparity G R a) (foddpos G R a) (foddpos G R b) = Some (minus, odd) ->
  exists y, f_tensordot2 G R a b axes mode = Some y /\ foddpos G R y = odd /\
    forall cl cr,
      coords_ok G (without_axes (indices G R (fbase G R a)) aa) cl = true ->
      coords_ok G (without_axes (indices G R (fbase G R b)) ab) cr = true ->
      sem G R (f_value G R y) (cl ++ cr)
      = rsgn R minus (rsum R (map (fun kc =>
          rmul R (rsgn R (sigma_a G R a aa (map fst (merge G na aa cl kc))) (sem G R (f_value G R a) (merge G na aa cl kc)))
                 (rsgn R (sigma_b G R b ab (map fst (merge G nb ab cr kc))) (sem G R (f_value G R b) (merge G nb ab cr kc))))
          (all_coords G cixs))).
Proof. exact tensordot2_element_all_modes. Qed.

(* the model of Props/C03.v (code before the repair), un-fused free legs *)
Theorem C03_tensordot_element_all_modes :
  forall (G : Symmetry), GroupLaws G -> OrderLaws G -> forall (R : Ring), NegLaws R -> SumLaws R ->
  forall (mode : tmode) (a b : farray G R) (axes : nat + (list Z * list Z)) (aa ab : list nat) (minus : bool) (odd : list fop),
  let na := ndim G R (fbase G R a) in
  let nb := ndim G R (fbase G R b) in
  let cixs := take_axes (dflt_index G) (indices G R (fbase G R a)) aa in
  parse_axes na nb axes = Some (aa, ab) ->
  wf_array G R (fbase G R a) = true -> wf_array G R (fbase G R b) = true ->
  NoDup aa -> (forall i, In i aa -> i < na) -> NoDup ab -> (forall i, In i ab -> i < nb) ->
  opposite_dirs G R a b aa ab ->
  map (chargemap G) cixs = map (chargemap G) (take_axes (dflt_index G) (indices G R (fbase G R b)) ab) ->
  resolve_oddpos (fparity G R a) (foddpos G R a) (foddpos G R b) = Some (minus, odd) ->
  free_unfused G R (fbase G R a) (rest_axes na aa) -> free_unfused G R (fbase G R b) (rest_axes nb ab) ->
  exists y, f_tensordot G R a b axes mode = Some y /\ foddpos G R y = odd /\
    forall cl cr,
      coords_ok G (without_axes (indices G R (fbase G R a)) aa) cl = true ->
      coords_ok G (without_axes (indices G R (fbase G R b)) ab) cr = true ->
      sem G R (f_value G R y) (cl ++ cr)
      = rsgn R minus (rsum R (map (fun kc =>
          rmul R (rsgn R (sigma_a G R a aa (map fst (merge G na aa cl kc))) (sem G R (f_value G R a) (merge G na aa cl kc)))
                 (rsgn R (sigma_b G R b ab (map fst (merge G nb ab cr kc))) (sem G R (f_value G R b) (merge G nb ab cr kc))))
          (all_coords G cixs))).
Proof. exact tensordot_element_all_modes. Qed.

(* ---- 5. the full statement of Props/C03.v, as literally stated, is false ---- *)
(* Counterexample (ModesProofs.ModesEx): Z2, xD with its legs 0 and 3 fused into one
   leg, contracted with xB over ([2; 1], [0; 2]) in fused mode; all hypotheses of
   C03_tensordot_element_full hold; at cl = [(0, 0)], cr = [(0, 0)] the formula gives
   1580 and the old model's rank-3 result reads 0.  (The current-code model
   satisfies the formula there: C03_tensordot2_element_all_modes.) *)
Theorem C03_tensordot_element_full_is_false : ~ C03_tensordot_element_full.
Proof. exact ModesEx.element_full_false. Qed.

Print Assumptions C03_unfuse_all_is_every_axis.
Print Assumptions C03_old_new_general.
Print Assumptions C03_tdot_fused_eq_fused2.
Print Assumptions C03_a_tensordot_eq_tensordot2.
Print Assumptions C03_f_tensordot_eq_tensordot2.
Print Assumptions C03_tdot_fused2_wf.
Print Assumptions C03_tensordot2_wf.
Print Assumptions C03_tensordot2_sign_formula.
Print Assumptions C03_all_modes_agree.
Print Assumptions C03_tensordot2_element_all_modes.
Print Assumptions C03_tensordot_element_all_modes.
Print Assumptions C03_tensordot_element_full_is_false.
