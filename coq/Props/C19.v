(* Props/C19.v — property C19: edge-wise Hamiltonians add up to the lattice
   Hamiltonian, each term once.  Statements only; proofs live in Proofs/HamProofs.v.

   Everything is stated for the definitions GENERATED from
   symmray/hamiltonians.py, fermionic_local_operators.py and networks.py
   (Gen/Ham.v), for ANY site type with a correct boolean equality, ANY edge
   list (unbounded number of sites / edges) and ANY rational coefficients.
   `poly_equiv p q` : p and q give the same value against every test function
   on operator words, hence (C19_*_edge_sum_coeff) the same coefficient for
   every word.

   Hypotheses: `NoDup edges` (no edge listed twice in the SAME orientation) is
   what the sums need — the result is a dict keyed by the edge, see
   `dup_edge_undercounts`; "once per bond" additionally needs a simple graph
   (no self loop, no bond listed in both orientations), `simple_graph`. *)
From SV Require Import Base.Prelude Model.HamBase Gen.Ham Model.Ham Proofs.HamProofs.
Open Scope Z_scope.

Definition eqb_correct {S : Type} (seqb : S -> S -> bool) : Prop := forall a b, seqb a b = true <-> a = b.

(* the counting loop of each builder returns, for every site, the number of
   edge ends at it (the degree; nothing for sites in no edge) *)
Theorem C19_coordination_is_degree :
  forall (S : Type) (seqb : S -> S -> bool), eqb_correct seqb ->
  forall edges : list (S * S),
    degree_table seqb (ham_fermi_hubbard_from_edges_coordinations seqb edges) edges /\
    degree_table seqb (ham_fermi_hubbard_spinless_from_edges_coordinations seqb edges) edges /\
    degree_table seqb (ham_tfim_from_edges_coordinations seqb edges) edges.
Proof. exact @coordination_is_degree. Qed.

Theorem C19_degree_counts_incident_edges :
  forall (S : Type) (seqb : S -> S -> bool), eqb_correct seqb ->
  forall (edges : list (S * S)) (v : S),
    (forall a b, In (a, b) edges -> a <> b) ->
    deg seqb v edges = Z.of_nat (length (filter (incident seqb v) edges)).
Proof. exact @deg_no_loops. Qed.

Theorem C19_edge_factory_spec :
  forall (S : Type) (seqb : S -> S -> bool) (t : edge_coef S) (a b : S),
    make_edge_factory seqb t a b =
    match t with
    | EDict d => match lookup (pair_eqb seqb seqb) (a, b) d with
                 | Some q => Some q
                 | None => lookup (pair_eqb seqb seqb) (b, a) d
                 end
    | EFun f => Some (f a b)
    | EScalar c => Some c
    end.
Proof. exact @edge_factory_spec. Qed.

Theorem C19_node_factory_spec :
  forall (S : Type) (seqb : S -> S -> bool) (u : node_coef S) (v : S),
    make_node_factory seqb u v =
    match u with NDict d => lookup seqb v d | NFun f => Some (f v) | NScalar c => Some c end.
Proof. exact @node_factory_spec. Qed.

(* a bond whose coefficient is given in one orientation only is found from both *)
Theorem C19_bond_either_orientation :
  forall (S : Type) (seqb : S -> S -> bool) (d : list ((S * S) * Q)) (a b : S) (q : Q),
    lookup (pair_eqb seqb seqb) (a, b) d = Some q -> lookup (pair_eqb seqb seqb) (b, a) d = None ->
    make_edge_factory seqb (EDict d) a b = Some q /\ make_edge_factory seqb (EDict d) b a = Some q.
Proof. exact @edge_dict_either_orientation. Qed.

(* the shares c/coordination(v) passed by the edges touching v add up to c *)
Theorem C19_onsite_total :
  forall (S : Type) (seqb : S -> S -> bool), eqb_correct seqb ->
  forall (edges : list (S * S)) (c : Q) (v : S),
    0 < deg seqb v edges ->
    let coord := getZ seqb v (ham_fermi_hubbard_from_edges_coordinations seqb edges) in
    (qsum (map (fun e => (if seqb (fst e) v then c / inject_Z coord else 0)
                         + (if seqb (snd e) v then c / inject_Z coord else 0)) edges) == c)%Q.
Proof. exact @onsite_total. Qed.

Theorem C19_hubbard_edge_sum :
  forall (S : Type) (seqb : S -> S -> bool), eqb_correct seqb ->
  forall (edges : list (S * S)) (t : edge_coef S) (U mu : node_coef S) d,
    NoDup edges ->
    ham_fermi_hubbard_from_edges seqb edges t U mu = Some d ->
    poly_equiv (hubbard_lattice_poly d)
               (H_hubbard edges (sites_of seqb edges) (edge_val seqb t) (node_val seqb U) (node_val seqb mu)).
Proof. exact @hubbard_edge_sum. Qed.

Theorem C19_spinless_edge_sum :
  forall (S : Type) (seqb : S -> S -> bool), eqb_correct seqb ->
  forall (edges : list (S * S)) (t V : edge_coef S) (mu : node_coef S) d,
    NoDup edges ->
    ham_fermi_hubbard_spinless_from_edges seqb edges t V mu = Some d ->
    poly_equiv (spinless_lattice_poly d)
               (H_spinless edges (sites_of seqb edges) (edge_val seqb t) (edge_val seqb V) (node_val seqb mu)).
Proof. exact @spinless_edge_sum. Qed.

(* quimb is not installed, so ham_tfim_from_edges cannot be run here: this is
   tied to the source by the translator only *)
Theorem C19_tfim_edge_sum :
  forall (S : Type) (seqb : S -> S -> bool), eqb_correct seqb ->
  forall (edges : list (S * S)) (jx : edge_coef S) (hz : node_coef S) d,
    NoDup edges ->
    ham_tfim_from_edges seqb edges jx hz = Some d ->
    poly_equiv (tfim_lattice_poly d)
               (H_tfim edges (sites_of seqb edges) (edge_val seqb jx) (node_val seqb hz)).
Proof. exact @tfim_edge_sum. Qed.

Theorem C19_hubbard_edge_sum_coeff :
  forall (S : Type) (seqb : S -> S -> bool), eqb_correct seqb ->
  forall (edges : list (S * S)) (t : edge_coef S) (U mu : node_coef S) d,
    NoDup edges -> ham_fermi_hubbard_from_edges seqb edges t U mu = Some d ->
    forall w, (coeff (word_eqb seqb) (hubbard_lattice_poly d) w ==
               coeff (word_eqb seqb) (H_hubbard edges (sites_of seqb edges) (edge_val seqb t) (node_val seqb U) (node_val seqb mu)) w)%Q.
Proof. exact @hubbard_edge_sum_coeff. Qed.

Theorem C19_spinless_edge_sum_coeff :
  forall (S : Type) (seqb : S -> S -> bool), eqb_correct seqb ->
  forall (edges : list (S * S)) (t V : edge_coef S) (mu : node_coef S) d,
    NoDup edges -> ham_fermi_hubbard_spinless_from_edges seqb edges t V mu = Some d ->
    forall w, (coeff (word_eqb seqb) (spinless_lattice_poly d) w ==
               coeff (word_eqb seqb) (H_spinless edges (sites_of seqb edges) (edge_val seqb t) (edge_val seqb V) (node_val seqb mu)) w)%Q.
Proof. exact @spinless_edge_sum_coeff. Qed.

Theorem C19_heisenberg_each_edge_once :
  forall (S : Type) (seqb : S -> S -> bool), eqb_correct seqb ->
  forall (HT : Type) (h2 : HT) (edges : list (S * S)),
    NoDup edges -> ham_heisenberg_from_edges seqb h2 edges = map (fun e => (e, h2)) edges.
Proof. exact @heisenberg_keys. Qed.

(* ---- site info (parse_edges_to_site_info) ----
   PARTIAL.  Proved: the loop skeleton translated from the source is the
   expected one (below).  The model `site_info` interprets exactly this
   skeleton and is tied to the implementation by correspondence; the full
   statement about the model is kept as a Definition and is NOT proved here
   (missing: the invariant of the fold over the sorted edge list). *)
Theorem C19_site_info_skeleton_partial :
  site_info_sorted = true /\ site_info_swap = SwapIfGt /\ site_info_name_ab = true /\
  site_info_create = [EndA; EndB] /\
  site_info_body = [(EndA, FInds, VInd); (EndB, FInds, VInd);
                    (EndA, FDuals, VConst 0); (EndB, FDuals, VConst 1);
                    (EndA, FShape, VBondDim); (EndB, FShape, VBondDim)] /\
  site_info_coordination_before_phys = true /\
  site_info_phys = [(FInds, VPhysInd); (FDuals, VConst 0); (FShape, VPhysDim)].
Proof. exact site_info_skeleton. Qed.

Definition strict_total {S : Type} (seqb sltb : S -> S -> bool) : Prop :=
  (forall a, sltb a a = false) /\
  (forall a b c, sltb a b = true -> sltb b c = true -> sltb a c = true) /\
  (forall a b, sltb a b = true \/ seqb a b = true \/ sltb b a = true).

Definition C19_site_info_full : Prop :=
  forall (S Nm : Type) (seqb sltb : S -> S -> bool) (bond_name : S -> S -> Nm) (phys_name : S -> Nm),
    eqb_correct seqb -> strict_total seqb sltb ->
    (* the name format is injective on ordered pairs (false for "b{}-{}" on strings containing '-') *)
    (forall a b c d, bond_name a b = bond_name c d -> a = c /\ b = d) ->
    forall (edges : list (S * S)) (bd : Z) (pd : option Z),
      simple_graph edges ->
      let info := site_info seqb sltb bond_name phys_name edges bd pd in
      (forall v, 0 < deg seqb v edges ->
                 exists i, lookup seqb v info = Some i /\ si_coord i = Some (deg seqb v edges)) /\
      (forall a b, In (a, b) edges ->
         let lo := if sltb b a then b else a in
         let hi := if sltb b a then a else b in
         exists ilo ihi,
           lookup seqb lo info = Some ilo /\ lookup seqb hi info = Some ihi /\
           In (bond_name lo hi, 0) (combine (si_inds ilo) (si_duals ilo)) /\
           In (bond_name lo hi, 1) (combine (si_inds ihi) (si_duals ihi)) /\
           (forall v iv, lookup seqb v info = Some iv -> In (bond_name lo hi) (si_inds iv) -> v = lo \/ v = hi)).

(* NOTE (later round): `C19_site_info_full` above is superseded — as written it is false (no constraint
   relating bond names and physical names: `C19_site_info_full_v1_refuted` in Props/C19b.v); the corrected
   full statement is proved there as `C19_site_info_full_fixed`, together with bond_ends / bond_unique /
   sites_coordination and the F15 name-collision refutation. *)

Print Assumptions C19_coordination_is_degree.
Print Assumptions C19_degree_counts_incident_edges.
Print Assumptions C19_edge_factory_spec.
Print Assumptions C19_node_factory_spec.
Print Assumptions C19_bond_either_orientation.
Print Assumptions C19_onsite_total.
Print Assumptions C19_hubbard_edge_sum.
Print Assumptions C19_spinless_edge_sum.
Print Assumptions C19_tfim_edge_sum.
Print Assumptions C19_hubbard_edge_sum_coeff.
Print Assumptions C19_spinless_edge_sum_coeff.
Print Assumptions C19_heisenberg_each_edge_once.
Print Assumptions C19_site_info_skeleton_partial.
