(* Props/C01b.v — property C01, continuation of Props/C01.v: every result is a
   valid symmetric array, for the operations that C01.v left open.
   Statements only; proofs live in Proofs/WfProofs2.v.

   `wf_array` / `wf_fermi` are the invariants of C01.v (Model/Wf.v,
   Proofs/WfProofs.v).  Every theorem is for EVERY symmetry `G` with
   `GroupLaws G` (plus `OrderLaws G` where an index table is filtered or
   built), every rank, every table, every sparsity pattern and every
   coefficient ring `R`.

   Proved here, each `op_wf`:
     unfuse of one axis, unfuse_all                       (no side condition)
     einsum of one array (traces + permutation)           (output labels distinct and
         each once on the left; the two legs of a summed label point in opposite
         directions: `labels_ok`, `traced_duals_ok`, both executable)
     fuse of ANY number of groups at once, empty groups expanded (distinct axes
         in range), `fuse_core`, the non-expanding fuse
     matmul; tensordot in EVERY mode (blockwise, fused, auto) through the front
         end (axes parsing, negative axes)                (contracted legs opposite)
     fermionic matmul, tensordot in every mode, unfuse, fuse of any non-empty
         groups, einsum of a fermionic array: the base array is valid, the
         pending-sign table of a contraction result is empty or the set of
         result sectors, and the number of odd-position labels has the parity of
         the total charge (labels are removed in pairs by `resolve_oddpos`)
   closure under ARBITRARY finite programs over the extended instruction set
   `instr2` (= every instruction of C01.v embedded by `IOld` + the new ones),
   with the bridge to the audited predicate of Model/Valid.v; and
   `C01_full2_proved`: the statements `C01_full` (Props/C01.v) asked for, with
   the side conditions that are necessary, as one theorem.

   The side conditions cannot be dropped: `C01_einsum_needs_directions`,
   `C01_f_tensordot_needs_directions` and `C01_f_fuse_needs_nonempty_groups`
   refute the three clauses of `C01_full` that were written without them, on
   concrete U1 arrays (so `C01_full` itself is not provable as stated).
   What is STILL missing: see the comment at `C01_full2` at the end. *)
From SV Require Import Base.Prelude Base.Sym Base.Tensor Model.Sectors Model.Array Model.Arith
  Model.Fermi Model.Wf Model.Valid Model.SymInst Proofs.OrderProofs Proofs.Tdot Proofs.TdotInst
  Proofs.TraceEinsumProofs Proofs.WfProofs Proofs.WfProofs2.
From Coq Require Import Permutation.
Local Open Scope nat_scope.

(* ---- unfuse ---- *)
Theorem C01_unfuse_wf :
  forall G : Symmetry, GroupLaws G ->
  forall (R : Ring) (x y : aarray G R) (axis : nat),
  wf_array G R x = true -> a_unfuse G R x axis = Some y -> wf_array G R y = true.
Proof. exact unfuse_wf. Qed.

Theorem C01_unfuse_all_wf :
  forall G : Symmetry, GroupLaws G ->
  forall (R : Ring) (x : aarray G R),
  wf_array G R x = true -> wf_array G R (a_unfuse_all G R x) = true.
Proof. exact unfuse_all_wf. Qed.

(* one stored sector: replacing the fused charge at position |i1| by a recorded
   sub-sector keeps it inside the tables and keeps the charge conserved *)
Theorem C01_unfuse_sector_ok :
  forall G : Symmetry, GroupLaws G ->
  forall (i1 : list (index G)) (ix : index G) (i2 : list (index G)) (q : C G)
         (s1 : list (C G)) (c : C G) (s2 : list (C G)) (subs : list (index G)) (ss : list (C G)),
  IxsOK G (i1 ++ ix :: i2) -> IxsOK G subs -> length s1 = length i1 ->
  SecOK G (i1 ++ ix :: i2) q (s1 ++ c :: s2) ->
  TabOK G subs ss ->
  combine G (map (fun p => sign G (snd p) (negb (Bool.eqb (idual G ix) (idual G (fst p))))) (List.combine subs ss)) = c ->
  SecOK G (i1 ++ subs ++ i2) q (s1 ++ ss ++ s2).
Proof. exact SecOK_unfuse. Qed.

(* ---- einsum (one array: traces + permutation) ---- *)
Theorem C01_einsum_wf :
  forall G : Symmetry, GroupLaws G ->
  forall (R : Ring) (x y : aarray G R) (lhs rhs : list nat),
  wf_array G R x = true -> a_einsum G R x lhs rhs = Some y ->
  labels_ok lhs rhs = true -> traced_duals_ok G (indices G R x) lhs rhs = true ->
  wf_array G R y = true.
Proof. exact einsum_wf. Qed.

(* the positions of `lhs` = the positions of the output labels + the two
   positions of every summed label *)
Theorem C01_einsum_positions :
  forall lhs rhs : list nat, labels_ok lhs rhs = true ->
  Permutation (eperm lhs rhs ++ flat_map (fun q => positions q lhs) (traced_of lhs rhs)) (seq 0 (length lhs)).
Proof. exact einsum_positions_perm. Qed.

(* without the direction condition the statement is false (this is the einsum
   clause of `C01_full` in Props/C01.v) *)
Theorem C01_einsum_needs_directions :
  ~ (forall G : Symmetry, GroupLaws G -> OrderLaws G -> forall R : Ring,
     forall (x y : aarray G R) lhs rhs, wf_array G R x = true -> a_einsum G R x lhs rhs = Some y ->
     wf_array G R y = true).
Proof. exact einsum_unconditional_false. Qed.

(* ---- matmul, tensordot front end ---- *)
Theorem C01_matmul_wf :
  forall G : Symmetry, GroupLaws G -> forall R : Ring, OrderLaws G ->
  forall a b c : aarray G R,
  wf_array G R a = true -> wf_array G R b = true -> matmul_ok G R a b = true ->
  a_matmul G R a b = Some c -> wf_array G R c = true.
Proof. exact matmul_wf. Qed.

Theorem C01_tensordot_blockwise_front_wf :
  forall G : Symmetry, GroupLaws G -> forall R : Ring, OrderLaws G ->
  forall (a b c : aarray G R) (axes : nat + (list Z * list Z)) (aa ab : list nat),
  wf_array G R a = true -> wf_array G R b = true ->
  parse_axes (ndim G R a) (ndim G R b) axes = Some (aa, ab) -> contract_ok G R a b aa ab = true ->
  a_tensordot G R a b axes MBlockwise = Some c -> wf_array G R c = true.
Proof. exact tensordot_blockwise_front_wf. Qed.

Theorem C01_tensordot_auto_outer_wf :
  forall G : Symmetry, GroupLaws G -> forall R : Ring, OrderLaws G ->
  forall (a b c : aarray G R) (axes : nat + (list Z * list Z)) (ab : list nat),
  wf_array G R a = true -> wf_array G R b = true ->
  parse_axes (ndim G R a) (ndim G R b) axes = Some ([], ab) -> contract_ok G R a b [] ab = true ->
  a_tensordot G R a b axes MAuto = Some c -> wf_array G R c = true.
Proof. exact tensordot_auto_outer_wf. Qed.

(* ---- fuse of several groups at once ---- *)
(* the axis permutation of a fuse is a permutation *)
Theorem C01_fuse_perm_is_perm :
  forall (n : nat) (groups : list (list nat)),
  NoDup (concat groups) -> (forall i, In i (concat groups) -> i < n) -> concat groups <> [] ->
  Permutation (fuse_perm n groups) (seq 0 n).
Proof. exact fuse_perm_perm. Qed.

(* `fuse_core` = what `fuse` does after argument handling: groups non-empty,
   axes distinct and in range (a group of one axis just moves it) *)
Theorem C01_fuse_core_wf :
  forall G : Symmetry, GroupLaws G -> forall R : Ring, OrderLaws G ->
  forall (x : aarray G R) (groups : list (list nat)),
  wf_array G R x = true -> groups_ok (ndim G R x) groups -> wf_array G R (fuse_core G R x groups) = true.
Proof. exact fuse_core_wf. Qed.

(* fuse( *axes_groups ), empty groups expanded into unit legs *)
Theorem C01_fuse_wf :
  forall G : Symmetry, GroupLaws G -> forall R : Ring, OrderLaws G ->
  forall (x : aarray G R) (groups : list (list nat)),
  wf_array G R x = true -> NoDup (concat groups) -> (forall i, In i (concat groups) -> i < ndim G R x) ->
  wf_array G R (a_fuse G R x groups) = true.
Proof. exact fuse_wf. Qed.

Theorem C01_fuse_noexpand_wf :
  forall G : Symmetry, GroupLaws G -> forall R : Ring, OrderLaws G ->
  forall (x : aarray G R) (groups : list (list nat)),
  wf_array G R x = true -> NoDup (concat groups) -> (forall i, In i (concat groups) -> i < ndim G R x) ->
  wf_array G R (a_fuse_noexpand G R x groups) = true.
Proof. exact fuse_noexpand_wf. Qed.

(* ---- contraction in fused mode; tensordot in every mode ---- *)
Theorem C01_tdot_fused_wf :
  forall G : Symmetry, GroupLaws G -> forall R : Ring, OrderLaws G ->
  forall (a b : aarray G R) (aa ab : list nat),
  wf_array G R a = true -> wf_array G R b = true ->
  NoDup aa -> (forall i : nat, In i aa -> i < ndim G R a) ->
  NoDup ab -> (forall i : nat, In i ab -> i < ndim G R b) ->
  length aa = length ab ->
  (forall k : nat, k < length aa ->
     idual G (nth (nth k aa 0) (indices G R a) (dflt_index G)) =
     negb (idual G (nth (nth k ab 0) (indices G R b) (dflt_index G)))) ->
  wf_array G R (tdot_fused G R a b (rest_axes (ndim G R a) aa) aa ab (rest_axes (ndim G R b) ab)) = true.
Proof. exact tdot_fused_wf. Qed.

Theorem C01_tensordot_wf :
  forall G : Symmetry, GroupLaws G -> forall R : Ring, OrderLaws G ->
  forall (a b c : aarray G R) (axes : nat + (list Z * list Z)) (mode : tmode) (aa ab : list nat),
  wf_array G R a = true -> wf_array G R b = true ->
  parse_axes (ndim G R a) (ndim G R b) axes = Some (aa, ab) -> contract_ok G R a b aa ab = true ->
  a_tensordot G R a b axes mode = Some c -> wf_array G R c = true.
Proof. exact tensordot_wf. Qed.

(* the total charge of a contraction result *)
Theorem C01_tensordot_charge :
  forall (G : Symmetry) (R : Ring) (a b c : aarray G R) (axes : nat + (list Z * list Z)) (mode : tmode),
  a_tensordot G R a b axes mode = Some c -> charge G R c = combine G [charge G R a; charge G R b].
Proof. exact tensordot_charge. Qed.

(* ---- fermionic ---- *)
(* labels leave `resolve_oddpos` in pairs *)
Theorem C01_resolve_oddpos_parity :
  forall (p : bool) (lo ro : list fop) (m : bool) (odd : list fop),
  resolve_oddpos p lo ro = Some (m, odd) ->
  Nat.odd (length odd) = xorb (Nat.odd (length lo)) (Nat.odd (length ro)).
Proof. exact resolve_oddpos_parity. Qed.

Theorem C01_finish_contraction_wf :
  forall G : Symmetry, GroupLaws G ->
  forall (R : Ring) (a' b' y : farray G R) (c : aarray G R),
  wf_fermi G R a' = true -> wf_fermi G R b' = true -> wf_array G R c = true ->
  charge G R c = combine G [charge G R (fbase G R a'); charge G R (fbase G R b')] ->
  finish_contraction G R a' b' c = Some y -> wf_fermi G R y = true.
Proof. exact finish_contraction_wf. Qed.

Theorem C01_finish_contraction_phases :
  forall G : Symmetry, GroupLaws G ->
  forall (R : Ring) (a' b' y : farray G R) (c : aarray G R),
  wf_array G R c = true -> finish_contraction G R a' b' c = Some y ->
  fbase G R y = c /\ (fphases G R y = [] \/ fphases G R y = sectors G R c).
Proof. exact finish_contraction_phases. Qed.

Theorem C01_f_matmul_wf :
  forall G : Symmetry, GroupLaws G -> forall R : Ring, OrderLaws G ->
  forall a b y : farray G R,
  wf_fermi G R a = true -> wf_fermi G R b = true ->
  matmul_ok G R (fbase G R a) (fbase G R b) = true ->
  f_matmul G R a b = Some y -> wf_fermi G R y = true.
Proof. exact f_matmul_wf. Qed.

Theorem C01_f_tensordot_wf :
  forall G : Symmetry, GroupLaws G -> forall R : Ring, OrderLaws G ->
  forall (a b y : farray G R) (axes : nat + (list Z * list Z)) (aa ab : list nat),
  wf_fermi G R a = true -> wf_fermi G R b = true ->
  parse_axes (ndim G R (fbase G R a)) (ndim G R (fbase G R b)) axes = Some (aa, ab) ->
  contract_ok G R (fbase G R a) (fbase G R b) aa ab = true ->
  f_tensordot G R a b axes MBlockwise = Some y -> wf_fermi G R y = true.
Proof. exact f_tensordot_wf. Qed.

(* without "contracted legs opposite" the statement is false (this is the
   fermionic tensordot clause of `C01_full` in Props/C01.v) *)
Theorem C01_f_tensordot_needs_directions :
  ~ (forall G : Symmetry, GroupLaws G -> OrderLaws G -> forall R : Ring,
     forall (a b c : farray G R) axes mode, wf_fermi G R a = true -> wf_fermi G R b = true ->
     f_tensordot G R a b axes mode = Some c -> wf_fermi G R c = true).
Proof. exact f_tensordot_unconditional_false. Qed.

Theorem C01_f_unfuse_wf :
  forall G : Symmetry, GroupLaws G ->
  forall (R : Ring) (x y : farray G R) (axis : nat),
  wf_fermi G R x = true -> f_unfuse G R x axis = Some y -> wf_fermi G R y = true.
Proof. exact f_unfuse_wf. Qed.

Theorem C01_f_fuse_wf :
  forall G : Symmetry, GroupLaws G -> forall R : Ring, OrderLaws G ->
  forall (x : farray G R) (g : list nat),
  wf_fermi G R x = true -> NoDup g -> Forall (fun ax => ax < ndim G R (fbase G R x)) g -> 2 <= length g ->
  wf_fermi G R (f_fuse G R x [g]) = true.
Proof. exact f_fuse_wf. Qed.

Theorem C01_f_fuse_all_wf :
  forall G : Symmetry, GroupLaws G -> forall R : Ring, OrderLaws G ->
  forall (x : farray G R) (groups : list (list nat)),
  wf_fermi G R x = true -> groups_ok (ndim G R (fbase G R x)) groups ->
  wf_fermi G R (f_fuse G R x groups) = true.
Proof. exact f_fuse_all_wf. Qed.

(* an empty group is outside what `f_fuse` (Model/Fermi.v) models: the clause
   of `C01_full` for arbitrary groups is false *)
Theorem C01_f_fuse_needs_nonempty_groups :
  ~ (forall G : Symmetry, GroupLaws G -> OrderLaws G -> forall R : Ring,
     forall (x : farray G R) groups, wf_fermi G R x = true ->
     (NoDup (concat groups) /\ forall i, In i (concat groups) -> i < ndim G R (fbase G R x)) ->
     wf_fermi G R (f_fuse G R x groups) = true).
Proof. exact f_fuse_unconditional_false. Qed.

Theorem C01_f_tensordot_all_wf :
  forall G : Symmetry, GroupLaws G -> forall R : Ring, OrderLaws G ->
  forall (a b y : farray G R) (axes : nat + (list Z * list Z)) (mode : tmode) (aa ab : list nat),
  wf_fermi G R a = true -> wf_fermi G R b = true ->
  parse_axes (ndim G R (fbase G R a)) (ndim G R (fbase G R b)) axes = Some (aa, ab) ->
  contract_ok G R (fbase G R a) (fbase G R b) aa ab = true ->
  f_tensordot G R a b axes mode = Some y -> wf_fermi G R y = true.
Proof. exact f_tensordot_all_wf. Qed.

Theorem C01_f_einsum_wf :
  forall G : Symmetry, GroupLaws G ->
  forall (R : Ring) (x : farray G R) (y : aarray G R) (lhs rhs : list nat),
  wf_fermi G R x = true -> f_einsum G R x lhs rhs = Some y ->
  labels_ok (map (fun i => nth i lhs 0) (f_einsum_perm G R x lhs rhs)) rhs = true ->
  traced_duals_ok G (permuted (dflt_index G) (indices G R (fbase G R x)) (f_einsum_perm G R x lhs rhs))
                  (map (fun i => nth i lhs 0) (f_einsum_perm G R x lhs rhs)) rhs = true ->
  wf_array G R y = true.
Proof. exact f_einsum_wf. Qed.

(* ---- programs over the extended instruction set ----
   `instr2 G R` (Proofs/WfProofs2.v) = `IOld i` for every instruction `i` of
   C01.v + unfuse, unfuse_all, einsum, matmul, tensordot (front end, every
   mode), fuse of any groups, and on the fermionic register file matmul,
   tensordot (every mode), unfuse, fuse of non-empty groups, einsum.  `run2` executes a
   program over the two register files, appending each result; `None` = some
   operation raises or its executable side condition fails.  For every finite
   program: all registers valid before => all registers valid after. *)
Theorem C01_programs_wf2_partial :
  forall G : Symmetry, GroupLaws G -> forall R : Ring, OrderLaws G ->
  forall (prog : list (instr2 G R)) (st st' : regfile G R),
  wf_regs G R st -> run2 G R prog st = Some st' -> wf_regs G R st'.
Proof. exact programs_wf2. Qed.

Theorem C01_programs_wf2_builtin_partial :
  forall (G : Symmetry) (R : Ring) (prog : list (instr2 G R)) (st st' : regfile G R),
  builtin_sym G -> wf_regs G R st -> run2 G R prog st = Some st' -> wf_regs G R st'.
Proof. exact programs_wf2_builtin. Qed.

(* the programs of C01.v are the programs over `IOld` *)
Theorem C01_run2_extends_run :
  forall (G : Symmetry) (R : Ring) (prog : list (instr G R)) (st : regfile G R),
  run2 G R (map (IOld G R) prog) st = run G R prog st.
Proof. exact run2_old. Qed.

(* bridge to the audited predicate (Model/Valid.v) *)
Theorem C01_programs_valid2_partial :
  forall G : Symmetry, GroupLaws G -> forall R : Ring, OrderLaws G ->
  forall (prog : list (instr2 G R)) (st st' : regfile G R),
  wf_regs G R st -> run2 G R prog st = Some st' -> valid_regs G R st'.
Proof. exact programs_valid2. Qed.

Theorem C01_programs_valid2_builtin_partial :
  forall (G : Symmetry) (R : Ring) (prog : list (instr2 G R)) (st st' : regfile G R),
  builtin_sym G -> wf_regs G R st -> run2 G R prog st = Some st' -> valid_regs G R st'.
Proof. exact programs_valid2_builtin. Qed.

(* ---- the full statement ----
   `C01_full2` = the `op_wf` statements that `C01_full` (Props/C01.v) listed as
   missing, with the side conditions shown necessary above — and it is PROVED
   (`C01_full2_proved`).  What is STILL missing for the property as a whole:
   * the decompositions (qr, svd, eigh, solve, svd_truncated): Model/ has no
     array-level definition of them, so no statement can be written here;
   * fermionic fuse with EMPTY groups: `f_fuse` (Model/Fermi.v) does not model
     the separate handling of empty groups of FermionicArray.fuse
     (`C01_f_fuse_needs_nonempty_groups`); abelian fuse with empty groups is
     covered (`C01_fuse_wf`);
   * trace / fermionic trace return scalars, not arrays (nothing to validate). *)
Definition C01_full2 : Prop :=
  forall G : Symmetry, GroupLaws G -> OrderLaws G -> forall R : Ring,
  (* fuse, any number of groups, empty groups expanded *)
  (forall (x : aarray G R) groups, wf_array G R x = true ->
     NoDup (concat groups) -> (forall i, In i (concat groups) -> i < ndim G R x) ->
     wf_array G R (a_fuse G R x groups) = true) /\
  (* unfuse one axis / all axes *)
  (forall (x y : aarray G R) axis, wf_array G R x = true -> a_unfuse G R x axis = Some y ->
     wf_array G R y = true) /\
  (forall x : aarray G R, wf_array G R x = true -> wf_array G R (a_unfuse_all G R x) = true) /\
  (* tensordot front end in every mode, matmul, einsum *)
  (forall (a b c : aarray G R) axes mode aa ab, wf_array G R a = true -> wf_array G R b = true ->
     parse_axes (ndim G R a) (ndim G R b) axes = Some (aa, ab) -> contract_ok G R a b aa ab = true ->
     a_tensordot G R a b axes mode = Some c -> wf_array G R c = true) /\
  (forall a b c : aarray G R, wf_array G R a = true -> wf_array G R b = true -> matmul_ok G R a b = true ->
     a_matmul G R a b = Some c -> wf_array G R c = true) /\
  (forall (x y : aarray G R) lhs rhs, wf_array G R x = true -> a_einsum G R x lhs rhs = Some y ->
     labels_ok lhs rhs = true -> traced_duals_ok G (indices G R x) lhs rhs = true ->
     wf_array G R y = true) /\
  (* fermionic fuse (non-empty groups) / unfuse / contraction in every mode / matmul *)
  (forall (x : farray G R) groups, wf_fermi G R x = true ->
     groups_ok (ndim G R (fbase G R x)) groups -> wf_fermi G R (f_fuse G R x groups) = true) /\
  (forall (x y : farray G R) axis, wf_fermi G R x = true -> f_unfuse G R x axis = Some y ->
     wf_fermi G R y = true) /\
  (forall (a b c : farray G R) axes mode aa ab, wf_fermi G R a = true -> wf_fermi G R b = true ->
     parse_axes (ndim G R (fbase G R a)) (ndim G R (fbase G R b)) axes = Some (aa, ab) ->
     contract_ok G R (fbase G R a) (fbase G R b) aa ab = true ->
     f_tensordot G R a b axes mode = Some c -> wf_fermi G R c = true) /\
  (forall a b c : farray G R, wf_fermi G R a = true -> wf_fermi G R b = true ->
     matmul_ok G R (fbase G R a) (fbase G R b) = true ->
     f_matmul G R a b = Some c -> wf_fermi G R c = true).

Theorem C01_full2_proved : C01_full2.
Proof. exact full2_holds. Qed.

Print Assumptions C01_unfuse_wf.
Print Assumptions C01_unfuse_all_wf.
Print Assumptions C01_unfuse_sector_ok.
Print Assumptions C01_einsum_wf.
Print Assumptions C01_einsum_positions.
Print Assumptions C01_einsum_needs_directions.
Print Assumptions C01_matmul_wf.
Print Assumptions C01_tensordot_blockwise_front_wf.
Print Assumptions C01_tensordot_auto_outer_wf.
Print Assumptions C01_fuse_perm_is_perm.
Print Assumptions C01_fuse_core_wf.
Print Assumptions C01_fuse_wf.
Print Assumptions C01_fuse_noexpand_wf.
Print Assumptions C01_tdot_fused_wf.
Print Assumptions C01_tensordot_wf.
Print Assumptions C01_tensordot_charge.
Print Assumptions C01_resolve_oddpos_parity.
Print Assumptions C01_finish_contraction_wf.
Print Assumptions C01_finish_contraction_phases.
Print Assumptions C01_f_matmul_wf.
Print Assumptions C01_f_tensordot_wf.
Print Assumptions C01_f_tensordot_needs_directions.
Print Assumptions C01_f_unfuse_wf.
Print Assumptions C01_f_fuse_wf.
Print Assumptions C01_f_fuse_all_wf.
Print Assumptions C01_f_fuse_needs_nonempty_groups.
Print Assumptions C01_f_tensordot_all_wf.
Print Assumptions C01_f_einsum_wf.
Print Assumptions C01_programs_wf2_partial.
Print Assumptions C01_programs_wf2_builtin_partial.
Print Assumptions C01_run2_extends_run.
Print Assumptions C01_programs_valid2_partial.
Print Assumptions C01_programs_valid2_builtin_partial.
Print Assumptions C01_full2_proved.
