(* Props/C05j.v — continuation of Props/C05.v (audited together with it): the GENERATED `AbelianArray.unfuse`
   and `unfuse_all` equal the hand models `Array.a_unfuse`, `Array.a_unfuse_all`.  Statements only; proofs in Proofs/UnfuseGenProofs.v.

   tr/gen_unfuse.py -> Gen/UnfuseGen.v: the method `AbelianArray.unfuse(self, axis, inplace=False)` of
   symmray/abelian_core.py is TRANSLATED from the current source on every run, statement by statement (the
   dict comprehension that builds the slice table with `accum_for_split` over the extents of the fused index's
   SubIndexInfo; per stored block the pieces `array[( *selector, slc)]` cut out along the fused axis; per piece
   the new sector `replace_with_seq(sector, axis, subsector)`, the new shape from `ix.size_of(c)` over the
   sub-indices, the reshaped piece stored under the new sector; the new index list; the returned record), and
   proved EQUAL to `a_unfuse`, the object of C05_unfuse_fuse_groups / C05_unfuse_fuse_full_proved (C05b), of the
   fermionic round trip (C05h) and of C06/C07.  Equality is LEIBNIZ equality of the optional record: index
   list, charge, the blocks as an insertion-ordered association list with every tensor.  No up-to relation.

   `gen_unfuse x axis inplace` returns `None` exactly where Python raises AttributeError (the index at `axis`
   carries no sub-index information) and that is exactly where the model returns `None`
   (C05j_gen_unfuse_none_iff, no hypothesis at all).  `inplace` is a parameter of the generated function: both
   branches (`self.modify(..)` / `self.copy_with(..)`) return the same record (what `modify` does to `self` is
   the heap model of C14).

   Hypotheses of C05j_gen_unfuse_is_model (nothing else): `ceqb G` decides equality of charges (part of
   GroupLaws), and the `extents` table of the index being unfused has pairwise distinct keys
   (`ext_keys_distinct`: it is a Python dict; the model's association list could repeat a key, and then the
   dict comprehension of the code — last entry wins — and the model's lookup — first entry — would differ).
   Every `wf_array` has it (C05j_gen_unfuse_is_model_wf).  Axes are Python ints (Z) on the generated side and
   nat in the model; nothing else about the array, its sectors or its blocks is assumed (a stored sector whose
   charge has no entry in the extents has no pieces on both sides).

   Then the round-trip theorem C05_unfuse_fuse_groups (Props/C05b.v) is restated through BOTH generated
   functions: `gen_fuse_core` is the array `_fuse_core` builds from the GENERATED calc_fuse_block_info and the
   GENERATED _fuse_blocks_via_insert (C05i_gen_fuse_core_is_model), `gen_unfuse_groups` unfuses the fused
   (non-singlet) groups from the last to the first with the GENERATED unfuse — the loop of harness/c05.py and of
   `unfuse_all` on such an array.  Every original block comes back bit for bit (transposed to the fused axis
   order), every extra block is all-zero, the coordinate semantics is that of x.

   The same generator translates `AbelianArray.unfuse_all(self, inplace=False)` (`new = self if inplace else
   self.copy()`, the loop `for ax in reversed(range(self.ndim))`, the test `new.indices[ax].subinfo is not None`,
   the in-place call `new.unfuse(ax, inplace=True)` = the GENERATED unfuse) and C05j_gen_unfuse_all_is_model
   proves it equal to `Array.a_unfuse_all` on every `wf_array` (well-formedness is carried through the
   iteration by Proofs/WfProofs2.unfuse_wf; it supplies the distinct-keys hypothesis at every step).

   Hand-modelled as before: `_fuse_blocks_via_concat` (Model/FuseConcat.v, C05c: = fuse_core) and the public
   `fuse` wrapper (Array.a_fuse: empty groups, mode choice, call of `_fuse_core`). *)
From SV Require Import Base.Prelude Base.Sym Base.Tensor Model.Sectors Model.Array Model.Wf
  Proofs.OrderProofs Proofs.FuseProofs Proofs.FuseGroups Proofs.HelpersProofs.
From SV Require Base.PyList Gen.Helpers Gen.FuseGen Gen.UnfuseGen.
From SV Require Import Proofs.UnfuseGenProofs.
Local Open Scope nat_scope.

(* generated unfuse = a_unfuse: any array, any axis, both values of `inplace` *)
Theorem C05j_gen_unfuse_is_model : forall (G : Symmetry) (R : Ring), eqb_spec_on (ceqb G) ->
  forall (x : aarray G R) (axis : nat) (inplace : bool),
  ext_keys_distinct G R x axis ->
  UnfuseGen.gen_unfuse G R x (Z.of_nat axis) inplace = a_unfuse G R x axis.
Proof. exact gen_unfuse_eq_model. Qed.

(* no sub-index information <-> None, on both sides, without any hypothesis *)
Theorem C05j_gen_unfuse_none_iff : forall (G : Symmetry) (R : Ring) (x : aarray G R) (axis : nat) (inplace : bool),
  UnfuseGen.gen_unfuse G R x (Z.of_nat axis) inplace = None <-> a_unfuse G R x axis = None.
Proof. exact gen_unfuse_none_iff. Qed.

(* the key hypothesis is part of well-formedness *)
Theorem C05j_wf_array_keys_distinct : forall (G : Symmetry) (R : Ring), eqb_spec_on (ceqb G) ->
  forall (x : aarray G R) (axis : nat), wf_array G R x = true -> ext_keys_distinct G R x axis.
Proof. exact wf_array_keys. Qed.

Theorem C05j_gen_unfuse_is_model_wf : forall (G : Symmetry) (R : Ring), eqb_spec_on (ceqb G) ->
  forall (x : aarray G R) (axis : nat) (inplace : bool),
  wf_array G R x = true ->
  UnfuseGen.gen_unfuse G R x (Z.of_nat axis) inplace = a_unfuse G R x axis.
Proof. exact gen_unfuse_eq_model_wf. Qed.

(* the iteration over the fused groups with the generated unfuse = unfuse_groups (C05b) *)
Theorem C05j_gen_unfuse_groups_is_model : forall (G : Symmetry) (R : Ring), GroupLaws G ->
  forall (y : aarray G R) (pos : nat) (gs : list (list nat)),
  wf_array G R y = true ->
  gen_unfuse_groups G R y pos gs = unfuse_groups G R y pos gs.
Proof. exact gen_unfuse_groups_eq. Qed.

(* round trip: GENERATED unfuse after GENERATED fuse restores every block *)
Theorem C05j_gen_unfuse_gen_fuse_groups : forall (G : Symmetry) (R : Ring), GroupLaws G -> OrderLaws G ->
  forall (x : aarray G R) (groups : list (list nat)),
  wf_array G R x = true -> groups_ok (ndim G R x) groups ->
  let perm := fuse_perm (length (indices G R x)) groups in
  exists y,
    gen_unfuse_groups G R (gen_fuse_core G R x groups) (fuse_position groups) groups = Some y /\
    indices G R y = Tensor.permuted (dflt_index G) (indices G R x) perm /\
    charge G R y = charge G R x /\
    (forall s b, In (s, b) (blocks G R x) ->
       lookup (list_eqb (ceqb G)) (Tensor.permuted (ident G) s perm) (blocks G R y) = Some (ttranspose R b perm)) /\
    (forall k t, In (k, t) (blocks G R y) ->
       (exists s b, In (s, b) (blocks G R x) /\ k = Tensor.permuted (ident G) s perm /\ t = ttranspose R b perm) \/
       Forall (fun v => v = r0 R) (tdata t)) /\
    (forall cs, coords_ok G (indices G R x) cs = true ->
       sem G R y (Tensor.permuted (ident G, 0) cs perm) = sem G R x cs).
Proof. exact gen_unfuse_gen_fuse_groups. Qed.

(* generated unfuse_all (built on the generated unfuse) = a_unfuse_all, both values of `inplace` *)
Theorem C05j_gen_unfuse_all_is_model : forall (G : Symmetry) (R : Ring), GroupLaws G ->
  forall (x : aarray G R) (inplace : bool),
  wf_array G R x = true ->
  UnfuseGen.gen_unfuse_all G R x inplace = a_unfuse_all G R x.
Proof. exact gen_unfuse_all_eq_model. Qed.

Print Assumptions C05j_gen_unfuse_is_model.
Print Assumptions C05j_gen_unfuse_none_iff.
Print Assumptions C05j_wf_array_keys_distinct.
Print Assumptions C05j_gen_unfuse_is_model_wf.
Print Assumptions C05j_gen_unfuse_groups_is_model.
Print Assumptions C05j_gen_unfuse_gen_fuse_groups.
Print Assumptions C05j_gen_unfuse_all_is_model.
