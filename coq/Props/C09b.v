(* Props/C09b.v — Property C09 (lazily tracked fermionic signs are unobservable),
   continuation: the DECOMPOSITIONS of Model/Linalg.v (f_qr, f_svd, f_eigh, f_solve; the
   per-block LAPACK routines are function parameters, contracts are explicit premises).
   ONLY restatements of lemmas of Proofs/LinalgLazyProofs.v.

   feq G R x y   (Proofs/LazyProofs.v)  x ~ y : same value (pending signs applied) and same labels;
                 in particular  f_phase_sync x ~ x  (C09_equiv_sync in Props/C09.v).

   eigh / solve synchronise their operands (fixes 539bade / 239d31d): equivalent inputs give
   EQUAL results, for every per-block routine.

   qr / svd read the RAW blocks and copy the pending-sign table onto Q / U.  Hence:
     left_odd f       f (-m) = (-(fst (f m)), snd (f m))     (stabilised qr; svd_left_odd likewise,
                      svd_s_even: the singular values of -m are those of m)
       => the factors of the synchronised copy are (synchronised Q, the same R) — C09_qr_sync —
          and equivalent inputs give equivalent Q / U, EQUAL R / Vh / s — C09_qr_congr, C09_svd_congr;
     no sign contract: the factor values can differ (LinalgLazyProofs.LinalgLazyEx.
       right_odd_values_differ), but under the reconstruction contract of C11 the product
       q @ r (resp. u.diag(s) @ vh) has the same labels and entries — C09_qr_product_congr,
       C09_svd_product_congr; singular values need only svd_s_even — C09_svd_values_congr.
   `f_mul_diag u s` = u with its raw blocks scaled along axis 1 (sign table and labels kept):
   the inherited AbelianArray.multiply_diagonal; defined in LinalgLazyProofs. *)
From SV Require Import Base.Prelude Base.Sym Base.Tensor Gen.PhasePerm Model.Sectors Model.Array Model.Arith Model.Wf
  Model.Fermi Model.Linalg Proofs.Tdot Proofs.LazyProofs Proofs.LinalgProofs Proofs.LinalgLazyProofs.
Local Open Scope nat_scope.

(* ---- eigh, solve: equal results ---- *)
Theorem C09_eigh_congr :
  forall (G : Symmetry) (R : Ring) (eigh_blk : tensor R -> tensor R * tensor R) (x y : farray G R),
    feq G R x y -> f_eigh G R eigh_blk x = f_eigh G R eigh_blk y.
Proof. exact eigh_congr. Qed.

Theorem C09_eigh_sync :
  forall (G : Symmetry) (R : Ring) (eigh_blk : tensor R -> tensor R * tensor R) (x : farray G R),
    f_eigh G R eigh_blk (f_phase_sync G R x) = f_eigh G R eigh_blk x.
Proof. exact eigh_sync. Qed.

Theorem C09_solve_congr :
  forall (G : Symmetry) (R : Ring) (solve_blk : tensor R -> tensor R -> tensor R) (a a' b b' : farray G R),
    feq G R a a' -> feq G R b b' -> f_solve G R solve_blk a b = f_solve G R solve_blk a' b'.
Proof. exact solve_congr. Qed.

Theorem C09_solve_sync :
  forall (G : Symmetry) (R : Ring) (solve_blk : tensor R -> tensor R -> tensor R) (a b : farray G R),
    f_solve G R solve_blk (f_phase_sync G R a) (f_phase_sync G R b) = f_solve G R solve_blk a b /\
    f_solve G R solve_blk (f_phase_sync G R a) b = f_solve G R solve_blk a b /\
    f_solve G R solve_blk a (f_phase_sync G R b) = f_solve G R solve_blk a b.
Proof. exact solve_sync. Qed.

(* ---- qr, svd with a left-odd per-block routine ---- *)
Theorem C09_qr_sync :
  forall (G : Symmetry) (HG : GroupLaws G) (R : Ring)
    (qr_blk : tensor R -> tensor R * tensor R), left_odd R qr_blk -> forall x : farray G R,
    f_qr G R qr_blk (f_phase_sync G R x)
    = match f_qr G R qr_blk x with Some (q, r) => Some (f_phase_sync G R q, r) | None => None end.
Proof. exact qr_sync. Qed.

Theorem C09_qr_congr :
  forall (G : Symmetry) (HG : GroupLaws G) (R : Ring)
    (qr_blk : tensor R -> tensor R * tensor R), left_odd R qr_blk -> forall x y q r : farray G R,
    feq G R x y -> f_qr G R qr_blk x = Some (q, r) ->
    exists q', f_qr G R qr_blk y = Some (q', r) /\ feq G R q q'.
Proof. exact qr_congr. Qed.

(* the loop shared by qr and svd, any left-odd block routine: values of the left factors and the
   whole right factors agree *)
Theorem C09_split_value_congr :
  forall (G : Symmetry) (HG : GroupLaws G) (R : Ring)
    (f : tensor R -> tensor R * tensor R), left_odd R f -> forall x y q r q' r' : farray G R,
    feq G R x y -> f_split G R f x = Some (q, r) -> f_split G R f y = Some (q', r') ->
    f_value G R q = f_value G R q' /\ foddpos G R q = foddpos G R q' /\ r = r'.
Proof. exact split_value_congr. Qed.

Theorem C09_svd_sync :
  forall (G : Symmetry) (HG : GroupLaws G) (R : Ring)
    (svd_blk : tensor R -> tensor R * tensor R * tensor R), svd_left_odd R svd_blk -> forall x : farray G R,
    f_svd G R svd_blk (f_phase_sync G R x)
    = match f_svd G R svd_blk x with Some (u, s, vh) => Some (f_phase_sync G R u, s, vh) | None => None end.
Proof. exact svd_sync. Qed.

Theorem C09_svd_congr :
  forall (G : Symmetry) (HG : GroupLaws G) (R : Ring)
    (svd_blk : tensor R -> tensor R * tensor R * tensor R), svd_left_odd R svd_blk ->
    forall (x y u vh : farray G R) (s : bvec G R),
    feq G R x y -> f_svd G R svd_blk x = Some (u, s, vh) ->
    exists u', f_svd G R svd_blk y = Some (u', s, vh) /\ feq G R u u'.
Proof. exact svd_congr. Qed.

(* ---- singular values: only "s(-m) = s(m)" is needed ---- *)
Theorem C09_svd_values_congr :
  forall (G : Symmetry) (R : Ring)
    (svd_blk : tensor R -> tensor R * tensor R * tensor R), svd_s_even R svd_blk ->
    forall (x y u vh u' vh' : farray G R) (s s' : bvec G R),
    feq G R x y -> f_svd G R svd_blk x = Some (u, s, vh) -> f_svd G R svd_blk y = Some (u', s', vh') -> s = s'.
Proof. exact svd_values_congr. Qed.

(* ---- no sign contract: the products agree (reconstruction contract of C11) ---- *)
Theorem C09_qr_product_congr :
  forall (G : Symmetry) (HG : GroupLaws G) (R : Ring) (RL : SumLaws R)
    (cltb_irrefl : forall c : C G, cltb G c c = false)
    (cltb_trans : forall a b c : C G, cltb G a b = true -> cltb G b c = true -> cltb G a c = true)
    (cltb_total : forall a b : C G, a <> b -> cltb G a b = true \/ cltb G b a = true)
    (rneg_invol : forall a : RT R, rneg R (rneg R a) = a)
    (rneg_zero : rneg R (r0 R) = r0 R)
    (rneg_add : forall a b : RT R, rneg R (radd R a b) = radd R (rneg R a) (rneg R b))
    (rmul_neg_l : forall a b : RT R, rmul R (rneg R a) b = rneg R (rmul R a b))
    (f : tensor R -> tensor R * tensor R) (x y qx rx qy ry : farray G R) (l rr : coord G),
    feq G R x y ->
    wf_array G R (fbase G R x) = true -> wf_array G R (fbase G R y) = true -> ndim G R (fbase G R x) = 2 ->
    split_shapes R f ->
    (forall s m, In (s, m) (blocks G R (fbase G R x)) -> split_product R f m) ->
    (forall s m, In (s, m) (blocks G R (fbase G R y)) -> split_product R f m) ->
    f_split G R f x = Some (qx, rx) -> f_split G R f y = Some (qy, ry) ->
    resolve_oddpos (fparity G R x) (foddpos G R x) [] = Some (false, foddpos G R x) ->
    coords_ok G [ix0 G R (fbase G R x)] [l] = true -> coords_ok G [ix1 G R (fbase G R x)] [rr] = true ->
    exists px py, f_matmul G R qx rx = Some px /\ f_matmul G R qy ry = Some py /\
      foddpos G R px = foddpos G R py /\
      sem G R (f_value G R px) [l; rr] = sem G R (f_value G R py) [l; rr].
Proof. exact split_product_congr. Qed.

(* the case the property names: a lazy array and its synchronised copy *)
Theorem C09_qr_product_sync :
  forall (G : Symmetry) (HG : GroupLaws G) (R : Ring) (RL : SumLaws R)
    (cltb_irrefl : forall c : C G, cltb G c c = false)
    (cltb_trans : forall a b c : C G, cltb G a b = true -> cltb G b c = true -> cltb G a c = true)
    (cltb_total : forall a b : C G, a <> b -> cltb G a b = true \/ cltb G b a = true)
    (rneg_invol : forall a : RT R, rneg R (rneg R a) = a)
    (rneg_zero : rneg R (r0 R) = r0 R)
    (rneg_add : forall a b : RT R, rneg R (radd R a b) = radd R (rneg R a) (rneg R b))
    (rmul_neg_l : forall a b : RT R, rmul R (rneg R a) b = rneg R (rmul R a b))
    (f : tensor R -> tensor R * tensor R) (x qx rx qy ry : farray G R) (l rr : coord G),
    wf_array G R (fbase G R x) = true -> ndim G R (fbase G R x) = 2 ->
    split_shapes R f ->
    (forall s m, In (s, m) (blocks G R (fbase G R x)) -> split_product R f m /\ split_product R f (tneg R m)) ->
    f_split G R f x = Some (qx, rx) -> f_split G R f (f_phase_sync G R x) = Some (qy, ry) ->
    resolve_oddpos (fparity G R x) (foddpos G R x) [] = Some (false, foddpos G R x) ->
    coords_ok G [ix0 G R (fbase G R x)] [l] = true -> coords_ok G [ix1 G R (fbase G R x)] [rr] = true ->
    exists px py, f_matmul G R qx rx = Some px /\ f_matmul G R qy ry = Some py /\
      foddpos G R px = foddpos G R py /\
      sem G R (f_value G R px) [l; rr] = sem G R (f_value G R py) [l; rr].
Proof. exact split_product_sync. Qed.

Theorem C09_svd_product_congr :
  forall (G : Symmetry) (HG : GroupLaws G) (R : Ring) (RL : SumLaws R)
    (cltb_irrefl : forall c : C G, cltb G c c = false)
    (cltb_trans : forall a b c : C G, cltb G a b = true -> cltb G b c = true -> cltb G a c = true)
    (cltb_total : forall a b : C G, a <> b -> cltb G a b = true \/ cltb G b a = true)
    (rneg_invol : forall a : RT R, rneg R (rneg R a) = a)
    (rneg_zero : rneg R (r0 R) = r0 R)
    (rneg_add : forall a b : RT R, rneg R (radd R a b) = radd R (rneg R a) (rneg R b))
    (rmul_neg_l : forall a b : RT R, rmul R (rneg R a) b = rneg R (rmul R a b))
    (svd_blk : tensor R -> tensor R * tensor R * tensor R) (Hshapes : svd_shapes R svd_blk)
    (x y ux vx uy vy : farray G R) (sx sy : bvec G R) (l rr : coord G),
    feq G R x y ->
    wf_array G R (fbase G R x) = true -> wf_array G R (fbase G R y) = true -> ndim G R (fbase G R x) = 2 ->
    (forall s m, In (s, m) (blocks G R (fbase G R x)) -> svd_product R svd_blk m) ->
    (forall s m, In (s, m) (blocks G R (fbase G R y)) -> svd_product R svd_blk m) ->
    f_svd G R svd_blk x = Some (ux, sx, vx) -> f_svd G R svd_blk y = Some (uy, sy, vy) ->
    resolve_oddpos (fparity G R x) (foddpos G R x) [] = Some (false, foddpos G R x) ->
    coords_ok G [ix0 G R (fbase G R x)] [l] = true -> coords_ok G [ix1 G R (fbase G R x)] [rr] = true ->
    exists px py, f_matmul G R (f_mul_diag G R ux sx) vx = Some px /\ f_matmul G R (f_mul_diag G R uy sy) vy = Some py /\
      foddpos G R px = foddpos G R py /\
      sem G R (f_value G R px) [l; rr] = sem G R (f_value G R py) [l; rr].
Proof. exact svd_product_congr. Qed.

(* u.diag(s) @ vh of a lazy fermionic array reconstructs its VALUE (the svd form of
   C11_fermionic_reconstruct) *)
Theorem C09_svd_reconstruct_lazy :
  forall (G : Symmetry) (HG : GroupLaws G) (R : Ring) (RL : SumLaws R)
    (cltb_irrefl : forall c : C G, cltb G c c = false)
    (cltb_trans : forall a b c : C G, cltb G a b = true -> cltb G b c = true -> cltb G a c = true)
    (cltb_total : forall a b : C G, a <> b -> cltb G a b = true \/ cltb G b a = true)
    (rneg_invol : forall a : RT R, rneg R (rneg R a) = a)
    (rneg_zero : rneg R (r0 R) = r0 R)
    (rneg_add : forall a b : RT R, rneg R (radd R a b) = radd R (rneg R a) (rneg R b))
    (rmul_neg_l : forall a b : RT R, rmul R (rneg R a) b = rneg R (rmul R a b))
    (svd_blk : tensor R -> tensor R * tensor R * tensor R) (Hshapes : svd_shapes R svd_blk)
    (x u vh : farray G R) (s : bvec G R) (l rr : coord G),
    wf_array G R (fbase G R x) = true -> ndim G R (fbase G R x) = 2 ->
    (forall sec m, In (sec, m) (blocks G R (fbase G R x)) -> svd_product R svd_blk m) ->
    f_svd G R svd_blk x = Some (u, s, vh) ->
    resolve_oddpos (fparity G R x) (foddpos G R x) [] = Some (false, foddpos G R x) ->
    coords_ok G [ix0 G R (fbase G R x)] [l] = true -> coords_ok G [ix1 G R (fbase G R x)] [rr] = true ->
    exists p, f_matmul G R (f_mul_diag G R u s) vh = Some p /\ foddpos G R p = foddpos G R x /\
              sem G R (f_value G R p) [l; rr] = sem G R (f_value G R x) [l; rr].
Proof. exact f_svd_reconstruct. Qed.

Print Assumptions C09_eigh_congr.
Print Assumptions C09_eigh_sync.
Print Assumptions C09_solve_congr.
Print Assumptions C09_solve_sync.
Print Assumptions C09_qr_sync.
Print Assumptions C09_qr_congr.
Print Assumptions C09_split_value_congr.
Print Assumptions C09_svd_sync.
Print Assumptions C09_svd_congr.
Print Assumptions C09_svd_values_congr.
Print Assumptions C09_qr_product_congr.
Print Assumptions C09_qr_product_sync.
Print Assumptions C09_svd_product_congr.
Print Assumptions C09_svd_reconstruct_lazy.
