(* Props/C14b.v — continuation of Props/C14.v (audited together with it):
   inplace_eq, FULL.  Statements only; proofs in Proofs/InplaceProofs.v.

   `Sim rd ro nd no cd co A s1 s2` (Proofs/InplaceProofs.v) is the
   store-isomorphism relation between two runs: injective renamings rd / ro of
   dict / object references (the shift by cd / co above the fork sizes nd / no,
   so fresh allocations extend it), equal buffers, equal key and buffer locals,
   equal contents and key order of related dicts, related fields of related
   objects, related values of the live dict / object locals A.  `live c A` is
   the syntactic check "c reads a dict / object local only after it was
   written, given the live locals A at entry". *)
From SV Require Import Base.Prelude Model.Heap Model.HeapOps
                       Proofs.HeapProofs Proofs.HeapOpsProofs Proofs.InplaceProofs.
Open Scope nat_scope.

(* The heap language respects store isomorphism: EVERY command (loops included)
   accepted by `live` maps Sim-related states to Sim-related states; the live
   set only grows.  All keys K, all renamings with the stated properties. *)
Theorem C14_exec_respects_iso :
  forall (K : Type) (keqb : K -> K -> bool) (rd ro : nat -> nat) (nd no cd co : nat),
    (forall a b, rd a = rd b -> a = b) -> (forall a b, ro a = ro b -> a = b) ->
    (forall r, nd <= r -> rd r = r + cd) -> (forall r, r < nd -> rd r < nd + cd) ->
    (forall x, no <= x -> ro x = x + co) -> (forall x, x < no -> ro x < no + co) ->
    forall (c : @cmd K) (A A' : lv) (s1 s2 : @st K),
      live c A = Some A' -> Sim rd ro nd no cd co A s1 s2 ->
      Sim rd ro nd no cd co A' (exec keqb c s1) (exec keqb c s2) /\ sub A A'.
Proof. exact @sim_exec. Qed.

(* related objects have the same observable state *)
Theorem C14_iso_obs :
  forall (K : Type) (rd ro : nat -> nat) (nd no cd co : nat) (A : lv) (s1 s2 : @st K) (v : nat),
    Sim rd ro nd no cd co A s1 s2 -> has (lo A) v = true ->
    obs (sh s2) (ov s2 v) = obs (sh s1) (ov s1 v).
Proof. exact @sim_obs. Qed.

(* `new = self` and `new = self.copy()` produce iso-related states (new <-> the
   copy; other <-> other), for every store satisfying the ownership invariant *)
Theorem C14_copy_start_iso :
  forall (K : Type) (keqb : K -> K -> bool) (s : @st K) (two : bool),
    Own (sh s) -> ov s 0 < length (ho (sh s)) ->
    (two = true -> ov s 1 < length (ho (sh s)) /\ ov s 1 <> ov s 0) ->
    let self := ov s 0 in
    let db := oblocks (obj_at (sh s) self) in
    let dp := ophases (obj_at (sh s) self) in
    let n := length (hd (sh s)) in
    let m := length (ho (sh s)) in
    Sim (rd_copy db dp n) (ro_copy self m) n m 2 1 (start_live two)
        (exec keqb (OAssign 2 0) s) (exec keqb (B_copy 2 0) s).
Proof. exact @sim_copy_start. Qed.

(* inplace_eq for every operation whose scripts are `new = self` /
   `new = self.copy()` + one common body (all flag-offering operations but three) *)
Theorem C14_inplace_eq_copy_shaped :
  forall (K : Type) (keqb : K -> K -> bool) (P : @params K) (o ot of_ : op) (s : @st K),
    copy_shaped o = true ->
    with_flag o true = Some ot -> with_flag o false = Some of_ ->
    Own (sh s) -> ov s 0 < length (ho (sh s)) ->
    (nargs o = 2 -> ov s 1 < length (ho (sh s)) /\ ov s 1 <> ov s 0) ->
    obs (sh (exec keqb (script P ot) s)) (ov (exec keqb (script P ot) s) 2) =
    obs (sh (exec keqb (script P of_) s)) (ov (exec keqb (script P of_) s) 2).
Proof. exact @inplace_eq_copy_shaped. Qed.

(* inplace_eq, FULL: for EVERY operation offering an in-place flag (the three
   rebinding ones — abelian fuse core, abelian unfuse, drop_misaligned_sectors —
   included), every returned array of the in-place call (`rets`: the receiver;
   both arguments for drop_misaligned_sectors) is observably equal to the
   corresponding array returned by the out-of-place call.  Hypotheses: the
   ownership invariant, the arguments are existing objects, and the second
   argument (two-argument operations) is not the receiver itself. *)
Theorem C14_inplace_eq :
  forall (K : Type) (keqb : K -> K -> bool) (P : @params K) (o ot of_ : op) (s : @st K),
    with_flag o true = Some ot -> with_flag o false = Some of_ ->
    Own (sh s) -> ov s 0 < length (ho (sh s)) ->
    (nargs o = 2 -> ov s 1 < length (ho (sh s)) /\ ov s 1 <> ov s 0) ->
    let s1 := exec keqb (script P ot) s in
    let s2 := exec keqb (script P of_) s in
    length (rets ot) = length (rets of_) /\
    forall j, j < length (rets ot) ->
      obs (sh s1) (ov s1 (nth j (rets ot) 0)) = obs (sh s2) (ov s2 (nth j (rets of_) 0)).
Proof. exact @inplace_eq_all. Qed.

(* `C14_inplace_eq_full` of Props/C14.v AS WRITTEN THERE (inplace_eq_full_v1 is
   a verbatim copy) is false: it lacks "the second argument is an existing
   object" (with ov s 1 = length (ho (sh s)) the out-of-place run meets the copy
   of self there) and it reads result local 2 for drop_misaligned_sectors. *)
Theorem C14_inplace_eq_full_v1_refuted : ~ inplace_eq_full_v1 Nat.eqb.
Proof. exact Refute.inplace_eq_full_v1_refuted. Qed.

Print Assumptions C14_exec_respects_iso.
Print Assumptions C14_iso_obs.
Print Assumptions C14_copy_start_iso.
Print Assumptions C14_inplace_eq_copy_shaped.
Print Assumptions C14_inplace_eq.
Print Assumptions C14_inplace_eq_full_v1_refuted.
