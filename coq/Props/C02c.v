(* Props/C02c.v — property C02, continuation: block-sparse contraction "gives exactly the array
   one obtains by contracting the dense forms", stated LITERALLY on the dense forms:
   `to_dense` (Model/Ctor.v) of the block-sparse result = numpy.tensordot (Base/Tensor.v
   `ttensordot`) of the `to_dense` of the operands, as an equality of tensors (shape + row-major
   data).  Obtained from the coordinate-level theorems of Props/C02.v and the bridge
   C16_to_dense_sem; proofs in Proofs/DenseProofs.v.

   The block-sparse result's own index tables have LOST the charges that occur in none of its
   sectors (prune_indices), so its own dense form is smaller than numpy's.  Two formulations:
   (1) `a_reindex res (free_tables a b aa ab)` = the same blocks laid out over the UNPRUNED free
       tables of the operands; its dense form IS numpy's result (C02_tensordot_dense);
   (2) the dense form of `res` itself sits inside numpy's result at the positions of the
       surviving charges, and numpy's result is 0 everywhere else (C02_tensordot_dense_pruned).
   `legs_match` = the contracted legs of a and b carry the same tables, so that their dense
   positions correspond.  Every theorem: every symmetry with the group laws and a strict total
   order on its charge labels, every rank / table / sparsity pattern / axes, every ring that is
   a commutative additive monoid with annihilating zero (SumLaws). *)
From SV Require Import Base.Prelude Base.Sym Base.Tensor Model.Sectors Model.Array Model.Arith Model.Wf
  Model.Ctor Proofs.OrderProofs Proofs.Tdot Proofs.TraceEinsumProofs Proofs.DenseProofs.
Local Open Scope nat_scope.

Theorem C02_reindex_spec :
  forall (G : Symmetry) (R : Ring) (x : aarray G R) (ixs : list (index G)),
  indices G R (a_reindex G R x ixs) = ixs /\ charge G R (a_reindex G R x ixs) = charge G R x /\
  blocks G R (a_reindex G R x ixs) = blocks G R x /\
  forall cs, sem G R (a_reindex G R x ixs) cs = sem G R x cs.
Proof. exact reindex_spec. Qed.

Theorem C02_free_tables_def :
  forall (G : Symmetry) (R : Ring) (a b : aarray G R) (aa ab : list nat),
  free_tables G R a b aa ab = without_axes (indices G R a) aa ++ without_axes (indices G R b) ab.
Proof. exact free_tables_def. Qed.

Theorem C02_legs_match_def :
  forall (G : Symmetry) (R : Ring) (a b : aarray G R) (aa ab : list nat),
  legs_match G R a b aa ab <->
  map (chargemap G) (take_axes (dflt_index G) (indices G R a) aa)
  = map (chargemap G) (take_axes (dflt_index G) (indices G R b) ab).
Proof. exact legs_match_def. Qed.

(* (1) the block-sparse result, laid out over the free tables of the operands, densifies to
   numpy.tensordot of the dense operands *)
Theorem C02_tensordot_dense :
  forall (G : Symmetry) (R : Ring), GroupLaws G -> OrderLaws G -> SumLaws R ->
  forall (a b : aarray G R) (la aa ab rb : list nat) (ta tb : tensor R),
  wf_array G R a = true -> wf_array G R b = true ->
  axes_ok (ndim G R a) aa = true -> axes_ok (ndim G R b) ab = true -> length aa = length ab ->
  la = rest_axes (ndim G R a) aa -> rb = rest_axes (ndim G R b) ab ->
  legs_match G R a b aa ab ->
  to_dense G R a = Some ta -> to_dense G R b = Some tb ->
  to_dense G R (a_reindex G R (tdot_blockwise G R a b la aa ab rb) (free_tables G R a b aa ab))
  = Some (ttensordot R ta tb aa ab).
Proof. exact tensordot_dense. Qed.

(* the public entry point tensordot(a, b, axes, mode="blockwise") *)
Theorem C02_a_tensordot_dense :
  forall (G : Symmetry) (R : Ring), GroupLaws G -> OrderLaws G -> SumLaws R ->
  forall (a b : aarray G R) (axes : nat + (list Z * list Z)) (aa ab : list nat) (ta tb : tensor R),
  parse_axes (ndim G R a) (ndim G R b) axes = Some (aa, ab) ->
  wf_array G R a = true -> wf_array G R b = true ->
  axes_ok (ndim G R a) aa = true -> axes_ok (ndim G R b) ab = true -> length aa = length ab ->
  legs_match G R a b aa ab ->
  to_dense G R a = Some ta -> to_dense G R b = Some tb ->
  exists res, a_tensordot G R a b axes MBlockwise = Some res /\
    to_dense G R (a_reindex G R res (free_tables G R a b aa ab)) = Some (ttensordot R ta tb aa ab).
Proof. exact a_tensordot_dense. Qed.

(* entry by entry: numpy's result at a dense position of the free tables is the block-sparse
   result read at that position's (charge, offset) coordinates (0 where no sector is stored) *)
Theorem C02_tensordot_dense_entry :
  forall (G : Symmetry) (R : Ring), GroupLaws G -> OrderLaws G -> SumLaws R ->
  forall (a b : aarray G R) (la aa ab rb : list nat) (ta tb : tensor R) (pos : list nat),
  wf_array G R a = true -> wf_array G R b = true ->
  axes_ok (ndim G R a) aa = true -> axes_ok (ndim G R b) ab = true -> length aa = length ab ->
  la = rest_axes (ndim G R a) aa -> rb = rest_axes (ndim G R b) ab ->
  legs_match G R a b aa ab ->
  to_dense G R a = Some ta -> to_dense G R b = Some tb ->
  inb (map (size_total G) (free_tables G R a b aa ab)) pos = true ->
  get R (ttensordot R ta tb aa ab) pos
  = sem G R (tdot_blockwise G R a b la aa ab rb) (coords_of G (free_tables G R a b aa ab) pos).
Proof. exact tensordot_dense_entry. Qed.

(* (2) the result's OWN dense form (pruned tables; contracted legs of opposite direction so that
   the result is a valid array; at least one result block, else its tables are empty and
   to_dense raises): every entry is numpy's entry at the corresponding position of the free
   tables, and numpy's result vanishes at every position one of whose charges was pruned *)
Theorem C02_tensordot_dense_pruned :
  forall (G : Symmetry) (R : Ring), GroupLaws G -> OrderLaws G -> SumLaws R ->
  forall (a b : aarray G R) (aa ab : list nat) (ta tb : tensor R),
  wf_array G R a = true -> wf_array G R b = true ->
  axes_ok (ndim G R a) aa = true -> axes_ok (ndim G R b) ab = true -> length aa = length ab ->
  legs_match G R a b aa ab ->
  (forall k, k < length aa ->
     idual G (nth (nth k aa 0) (indices G R a) (dflt_index G))
     = negb (idual G (nth (nth k ab 0) (indices G R b) (dflt_index G)))) ->
  to_dense G R a = Some ta -> to_dense G R b = Some tb ->
  let res := tdot_blockwise G R a b (rest_axes (ndim G R a) aa) aa ab (rest_axes (ndim G R b) ab) in
  let free := free_tables G R a b aa ab in
  blocks G R res <> [] ->
  exists tr, to_dense G R res = Some tr /\
    tshape tr = map (size_total G) (indices G R res) /\
    (forall pos, inb (tshape tr) pos = true ->
       inb (map (size_total G) free) (pos_of G free (coords_of G (indices G R res) pos)) = true /\
       get R tr pos = get R (ttensordot R ta tb aa ab) (pos_of G free (coords_of G (indices G R res) pos))) /\
    (forall pos, inb (map (size_total G) free) pos = true ->
       (exists i, i < length free /\
          ~ In (fst (nth i (coords_of G free pos) (ident G, 0)))
               (icharges G (nth i (indices G R res) (dflt_index G)))) ->
       get R (ttensordot R ta tb aa ab) pos = r0 R).
Proof. exact tensordot_dense_pruned_core. Qed.

(* a @ b for operands of rank 1 or 2 (the four cases of __matmul__): numpy.tensordot over the
   last axis of a and the first of b *)
Theorem C02_matmul_dense :
  forall (G : Symmetry) (R : Ring), GroupLaws G -> OrderLaws G -> SumLaws R ->
  forall (a b res : aarray G R) (ta tb : tensor R),
  wf_array G R a = true -> wf_array G R b = true ->
  a_matmul G R a b = Some res ->
  chargemap G (nth (ndim G R a - 1) (indices G R a) (dflt_index G))
  = chargemap G (nth 0 (indices G R b) (dflt_index G)) ->
  to_dense G R a = Some ta -> to_dense G R b = Some tb ->
  to_dense G R (a_reindex G R res (free_tables G R a b [ndim G R a - 1] [0]))
  = Some (ttensordot R ta tb [ndim G R a - 1] [0]).
Proof. exact matmul_dense. Qed.

(* full contraction: the returned scalar is the single entry of the rank-0 dense contraction *)
Theorem C02_scalar_dense :
  forall (G : Symmetry) (R : Ring), GroupLaws G -> OrderLaws G -> SumLaws R ->
  forall (a b : aarray G R) (aa ab : list nat) (ta tb : tensor R),
  wf_array G R a = true -> wf_array G R b = true ->
  axes_ok (ndim G R a) aa = true -> axes_ok (ndim G R b) ab = true ->
  length aa = ndim G R a -> length ab = ndim G R b -> length aa = length ab ->
  legs_match G R a b aa ab ->
  to_dense G R a = Some ta -> to_dense G R b = Some tb ->
  tshape (ttensordot R ta tb aa ab) = [] /\
  a_scalar G R (tdot_blockwise G R a b [] aa ab []) = get R (ttensordot R ta tb aa ab) [].
Proof. exact scalar_dense. Qed.

(* trace(x) = numpy.trace of the dense form *)
Theorem C02_trace_dense :
  forall (G : Symmetry) (R : Ring), GroupLaws G -> OrderLaws G -> SumLaws R ->
  forall (x : aarray G R) (t : tensor R),
  wf_array G R x = true -> ndim G R x = 2 ->
  chargemap G (nth 0 (indices G R x) (dflt_index G)) = chargemap G (nth 1 (indices G R x) (dflt_index G)) ->
  to_dense G R x = Some t ->
  a_trace G R x = Some (ttrace R t).
Proof. exact trace_dense. Qed.

(* single-array einsum "lhs->rhs" (labels as numbers; any number of traced pairs, any output
   permutation — in particular the one-pair case "abcb->ca" and the pure permutation): the
   dense form of the result is `teinsum` (the dense einsum of Model/Array.v: output entry =
   sum over the traced labels of the input entries) of the dense form of x.  `labels_ok`: the
   output labels are distinct and occur once in lhs; `traced_tables_ok`: the two positions of
   every summed label carry the same table (so that their dense positions correspond) *)
Theorem C02_einsum_dense :
  forall (G : Symmetry) (R : Ring), GroupLaws G -> OrderLaws G -> SumLaws R ->
  forall (x y : aarray G R) (lhs rhs : list nat) (t : tensor R),
  a_einsum G R x lhs rhs = Some y ->
  wf_array G R x = true -> labels_ok lhs rhs = true ->
  traced_tables_ok G (indices G R x) lhs rhs = true ->
  to_dense G R x = Some t ->
  to_dense G R y = Some (teinsum R t lhs rhs).
Proof. exact einsum_dense_core. Qed.

(* what the dense einsum computes, entry by entry *)
Theorem C02_teinsum_entry :
  forall (R : Ring) (t : tensor R) (lhs rhs o : list nat),
  inb (tshape (teinsum R t lhs rhs)) o = true ->
  get R (teinsum R t lhs rhs) o =
  rsum R (map (fun k => get R t (place 0 lhs rhs o k))
              (all_idx (take_axes 0 (tshape t) (etperm lhs rhs)))).
Proof. exact get_teinsum. Qed.

Print Assumptions C02_reindex_spec.
Print Assumptions C02_free_tables_def.
Print Assumptions C02_legs_match_def.
Print Assumptions C02_tensordot_dense.
Print Assumptions C02_a_tensordot_dense.
Print Assumptions C02_tensordot_dense_entry.
Print Assumptions C02_tensordot_dense_pruned.
Print Assumptions C02_matmul_dense.
Print Assumptions C02_scalar_dense.
Print Assumptions C02_trace_dense.
Print Assumptions C02_einsum_dense.
Print Assumptions C02_teinsum_entry.
