(* Props/C06c.v — property C06, continuation: "FUSING UNCONTRACTED INDICES BEFORE
   OR AFTER CONTRACTION IS LIKEWISE EQUIVALENT".  Statements only; proofs live in
   Proofs/FuseCommuteProofs.v (on top of Proofs/Tdot.v for C02, Proofs/FuseGroups.v
   for C05 and Proofs/FusedSem*.v for the strategies of C06).

   Setting, for every symmetry G with GroupLaws / OrderLaws, every ring with
   SumLaws, all ranks, tables, blocks: valid operands a b, contracted axes aa / ab
   (distinct, in range, any number incl. none, any order) whose legs match (same
   chargemap, opposite direction: legs_match, the contractibility predicate of
   Props/C06.v); stored sectors of the two operands arbitrary (they may differ); g
   a group of distinct FREE axes of one operand, in any order, adjacent or not.

     route 1   fuse the group first, contract over the re-numbered axes
               aa' = map (slot_pos (slots n [g])) aa  (slot_pos = the position, in the
               fused array, of the slot holding the axis; C06_renumbered_axes);
     route 2   contract first, fuse the group's legs of the product
               g' = the positions of those legs among the product's legs.

   Both routes in ANY mode (auto / fused / blockwise: tdot_mode, which is what
   a_tensordot2 computes on natural in-range axes, C06_tensordot2_on_natural_axes).

   The two fused results are DIFFERENT arrays in general: the fused leg of route 1
   carries the sub-index table built from the sectors of the operand, pruned by the
   contraction; the one of route 2 is built from the sectors of the product, so a
   sub-sector that does not survive the contraction is absent from it and the
   offsets inside a fused charge differ (ExC06c.a4b4_values: the same entry sits at
   offset 1 on route 1 and at offset 0 on route 2; ExC06c.a3b2_tables_differ).
   Hence the comparison AFTER UNFUSING the fused leg, at every coordinate of the
   operands' free tables (the dense shape of the result):

   C06_fuse_free_then_contract (group in the first operand) and
   C06_fuse_free_then_contract_b (group in the second operand), for >= 2 axes:
     both results have the fused leg at the same position p, a_unfuse succeeds on
     both, same charge, same rank, and for EVERY coordinate cs of the free tables
        sem (unfused route 1) (cs permuted by fuse_perm) = sem (plain contraction) cs
        sem (unfused route 2) (cs permuted by fuse_perm) = sem (plain contraction) cs.
   C06_prefused_leg_stays_fused: in every mode the result of route 1 carries, at p,
     the fused index of the operand with unused charges dropped (its sub-index
     table included) -- "a free leg that was fused beforehand stays fused".
   C06_fuse_free_*_public: the same through a_fuse and a_tensordot2.
   C06_fuse_free_single_axis(_b): a group of ONE axis (nothing is fused, the tables
     are unchanged, aa' = aa): both routes equal the plain contraction directly.

   NOT proved: the fermionic version (C06_fermi_fuse_free_commutes_full below). *)
From SV Require Import Base.Prelude Base.Sym Base.Tensor Model.Sectors Model.Array Model.Arith Model.Fermi
  Model.Wf Model.Fused Model.SymInst
  Proofs.SymLaws Proofs.Tdot Proofs.OrderProofs Proofs.WfProofs Proofs.FermiProofs Proofs.FuseProofs Proofs.FuseGroups Proofs.FusedProofs
  Proofs.FuseCommuteProofs Props.C06.
Local Open Scope nat_scope.

(* ---- the re-numbering used in the statements ---- *)
Theorem C06_tensordot2_on_natural_axes :
  forall (G : Symmetry) (R : Ring) (m : tmode) (a b : aarray G R) (aa ab : list nat),
  length aa = length ab -> (forall i, In i aa -> i < ndim G R a) -> (forall i, In i ab -> i < ndim G R b) ->
  a_tensordot2 G R a b (inr (map Z.of_nat aa, map Z.of_nat ab)) m = Some (tdot_mode G R m a b aa ab).
Proof. exact tensordot2_nat. Qed.

Theorem C06_renumbered_axes :
  forall (G : Symmetry) (R : Ring) (a : aarray G R) (aa g : list nat),
  axes_ok (ndim G R a) aa = true -> g <> [] -> (forall ax, In ax g -> ax < ndim G R a /\ ~ In ax aa) ->
  let aa' := map (slot_pos (slots (ndim G R a) [g])) aa in
  axes_ok (ndim G R (fuse_core G R a [g])) aa' = true /\
  take_axes (dflt_index G) (indices G R (fuse_core G R a [g])) aa' = take_axes (dflt_index G) (indices G R a) aa /\
  map (fun k => nth k (slots (ndim G R a) [g]) []) aa' = map (fun ax => [ax]) aa /\
  forall ax, In ax g -> nth (index_of ax (rest_axes (ndim G R a) aa)) (rest_axes (ndim G R a) aa) 0 = ax.
Proof. exact renumbered_axes_a. Qed.

(* ---- the group in the first operand ---- *)
Theorem C06_fuse_free_then_contract :
  forall (G : Symmetry) (R : Ring), GroupLaws G -> OrderLaws G -> SumLaws R ->
  forall (a b : aarray G R) (aa ab g : list nat) (m1 m2 : tmode),
  wf_array G R a = true -> wf_array G R b = true ->
  axes_ok (ndim G R a) aa = true -> axes_ok (ndim G R b) ab = true -> legs_match G R a b aa ab ->
  2 <= length g -> NoDup g -> (forall ax, In ax g -> ax < ndim G R a /\ ~ In ax aa) ->
  let la := rest_axes (ndim G R a) aa in
  let rb := rest_axes (ndim G R b) ab in
  let W := tdot_blockwise G R a b la aa ab rb in
  let aa' := map (slot_pos (slots (ndim G R a) [g])) aa in
  let g' := map (fun ax => index_of ax la) g in
  let L := tdot_mode G R m1 (fuse_core G R a [g]) b aa' ab in
  let Rr := fuse_core G R (tdot_mode G R m2 a b aa ab) [g'] in
  let p := fuse_position [g'] in
  let perm := fuse_perm (ndim G R W) [g'] in
  exists UL UR,
    a_unfuse G R L p = Some UL /\ a_unfuse G R Rr p = Some UR /\
    charge G R L = charge G R Rr /\ ndim G R L = ndim G R Rr /\
    forall cs, coords_ok G (without_axes (indices G R a) aa ++ without_axes (indices G R b) ab) cs = true ->
      sem G R UL (permuted (ident G, 0) cs perm) = sem G R W cs /\
      sem G R UR (permuted (ident G, 0) cs perm) = sem G R W cs.
Proof. exact fuse_free_a. Qed.

Theorem C06_prefused_leg_stays_fused :
  forall (G : Symmetry) (R : Ring), GroupLaws G -> OrderLaws G -> SumLaws R ->
  forall (a b : aarray G R) (aa ab g : list nat) (m1 : tmode),
  wf_array G R a = true -> wf_array G R b = true ->
  axes_ok (ndim G R a) aa = true -> axes_ok (ndim G R b) ab = true -> legs_match G R a b aa ab ->
  2 <= length g -> NoDup g -> (forall ax, In ax g -> ax < ndim G R a /\ ~ In ax aa) ->
  let aa' := map (slot_pos (slots (ndim G R a) [g])) aa in
  let g' := map (fun ax => index_of ax (rest_axes (ndim G R a) aa)) g in
  let L := tdot_mode G R m1 (fuse_core G R a [g]) b aa' ab in
  exists dropped,
    nth (fuse_position [g']) (indices G R L) (dflt_index G) =
    drop_charges G (fused_index G (indices G R a) (sectors G R a) g) dropped /\
    forall K T, In (K, T) (blocks G R L) -> ~ In (nth (fuse_position [g']) K (ident G)) dropped.
Proof. exact prefused_leg_stays_fused_a. Qed.

(* ---- the group in the second operand ---- *)
Theorem C06_fuse_free_then_contract_b :
  forall (G : Symmetry) (R : Ring), GroupLaws G -> OrderLaws G -> SumLaws R ->
  forall (a b : aarray G R) (aa ab g : list nat) (m1 m2 : tmode),
  wf_array G R a = true -> wf_array G R b = true ->
  axes_ok (ndim G R a) aa = true -> axes_ok (ndim G R b) ab = true -> legs_match G R a b aa ab ->
  2 <= length g -> NoDup g -> (forall ax, In ax g -> ax < ndim G R b /\ ~ In ax ab) ->
  let la := rest_axes (ndim G R a) aa in
  let rb := rest_axes (ndim G R b) ab in
  let W := tdot_blockwise G R a b la aa ab rb in
  let ab' := map (slot_pos (slots (ndim G R b) [g])) ab in
  let g' := map (fun ax => length la + index_of ax rb) g in
  let L := tdot_mode G R m1 a (fuse_core G R b [g]) aa ab' in
  let Rr := fuse_core G R (tdot_mode G R m2 a b aa ab) [g'] in
  let p := fuse_position [g'] in
  let perm := fuse_perm (ndim G R W) [g'] in
  exists UL UR,
    a_unfuse G R L p = Some UL /\ a_unfuse G R Rr p = Some UR /\
    charge G R L = charge G R Rr /\ ndim G R L = ndim G R Rr /\
    forall cs, coords_ok G (without_axes (indices G R a) aa ++ without_axes (indices G R b) ab) cs = true ->
      sem G R UL (permuted (ident G, 0) cs perm) = sem G R W cs /\
      sem G R UR (permuted (ident G, 0) cs perm) = sem G R W cs.
Proof. exact fuse_free_b. Qed.

(* ---- through the public front ends a_fuse / a_tensordot2 ---- *)
Theorem C06_fuse_free_then_contract_public :
  forall (G : Symmetry) (R : Ring), GroupLaws G -> OrderLaws G -> SumLaws R ->
  forall (a b : aarray G R) (aa ab g : list nat) (m1 m2 : tmode),
  wf_array G R a = true -> wf_array G R b = true ->
  axes_ok (ndim G R a) aa = true -> axes_ok (ndim G R b) ab = true -> legs_match G R a b aa ab ->
  2 <= length g -> NoDup g -> (forall ax, In ax g -> ax < ndim G R a /\ ~ In ax aa) ->
  let la := rest_axes (ndim G R a) aa in
  let rb := rest_axes (ndim G R b) ab in
  let W := tdot_blockwise G R a b la aa ab rb in
  let aa' := map (slot_pos (slots (ndim G R a) [g])) aa in
  let g' := map (fun ax => index_of ax la) g in
  let p := fuse_position [g'] in
  let perm := fuse_perm (ndim G R W) [g'] in
  exists L Wm UL UR,
    a_tensordot2 G R (a_fuse G R a [g]) b (inr (map Z.of_nat aa', map Z.of_nat ab)) m1 = Some L /\
    a_tensordot2 G R a b (inr (map Z.of_nat aa, map Z.of_nat ab)) m2 = Some Wm /\
    a_unfuse G R L p = Some UL /\ a_unfuse G R (a_fuse G R Wm [g']) p = Some UR /\
    charge G R L = charge G R (a_fuse G R Wm [g']) /\ ndim G R L = ndim G R (a_fuse G R Wm [g']) /\
    forall cs, coords_ok G (without_axes (indices G R a) aa ++ without_axes (indices G R b) ab) cs = true ->
      sem G R UL (permuted (ident G, 0) cs perm) = sem G R W cs /\
      sem G R UR (permuted (ident G, 0) cs perm) = sem G R W cs.
Proof. exact fuse_free_a_public. Qed.

Theorem C06_fuse_free_then_contract_b_public :
  forall (G : Symmetry) (R : Ring), GroupLaws G -> OrderLaws G -> SumLaws R ->
  forall (a b : aarray G R) (aa ab g : list nat) (m1 m2 : tmode),
  wf_array G R a = true -> wf_array G R b = true ->
  axes_ok (ndim G R a) aa = true -> axes_ok (ndim G R b) ab = true -> legs_match G R a b aa ab ->
  2 <= length g -> NoDup g -> (forall ax, In ax g -> ax < ndim G R b /\ ~ In ax ab) ->
  let la := rest_axes (ndim G R a) aa in
  let rb := rest_axes (ndim G R b) ab in
  let W := tdot_blockwise G R a b la aa ab rb in
  let ab' := map (slot_pos (slots (ndim G R b) [g])) ab in
  let g' := map (fun ax => length la + index_of ax rb) g in
  let p := fuse_position [g'] in
  let perm := fuse_perm (ndim G R W) [g'] in
  exists L Wm UL UR,
    a_tensordot2 G R a (a_fuse G R b [g]) (inr (map Z.of_nat aa, map Z.of_nat ab')) m1 = Some L /\
    a_tensordot2 G R a b (inr (map Z.of_nat aa, map Z.of_nat ab)) m2 = Some Wm /\
    a_unfuse G R L p = Some UL /\ a_unfuse G R (a_fuse G R Wm [g']) p = Some UR /\
    charge G R L = charge G R (a_fuse G R Wm [g']) /\ ndim G R L = ndim G R (a_fuse G R Wm [g']) /\
    forall cs, coords_ok G (without_axes (indices G R a) aa ++ without_axes (indices G R b) ab) cs = true ->
      sem G R UL (permuted (ident G, 0) cs perm) = sem G R W cs /\
      sem G R UR (permuted (ident G, 0) cs perm) = sem G R W cs.
Proof. exact fuse_free_b_public. Qed.

(* ---- a group of one axis: nothing to unfuse ---- *)
Theorem C06_fuse_free_single_axis :
  forall (G : Symmetry) (R : Ring), GroupLaws G -> OrderLaws G -> SumLaws R ->
  forall (a b : aarray G R) (aa ab : list nat) (ax : nat) (m1 m2 : tmode),
  wf_array G R a = true -> wf_array G R b = true ->
  axes_ok (ndim G R a) aa = true -> axes_ok (ndim G R b) ab = true -> legs_match G R a b aa ab ->
  ax < ndim G R a -> ~ In ax aa ->
  let la := rest_axes (ndim G R a) aa in
  let rb := rest_axes (ndim G R b) ab in
  let W := tdot_blockwise G R a b la aa ab rb in
  let aa' := map (slot_pos (slots (ndim G R a) [[ax]])) aa in
  let L := tdot_mode G R m1 (fuse_core G R a [[ax]]) b aa' ab in
  let Rr := fuse_core G R (tdot_mode G R m2 a b aa ab) [[index_of ax la]] in
  aa' = aa /\ charge G R L = charge G R Rr /\ indices G R Rr = indices G R W /\ ndim G R L = ndim G R Rr /\
  forall cs, coords_ok G (without_axes (indices G R a) aa ++ without_axes (indices G R b) ab) cs = true ->
    sem G R L cs = sem G R W cs /\ sem G R Rr cs = sem G R W cs.
Proof. exact fuse_free_singlet_a. Qed.

Theorem C06_fuse_free_single_axis_b :
  forall (G : Symmetry) (R : Ring), GroupLaws G -> OrderLaws G -> SumLaws R ->
  forall (a b : aarray G R) (aa ab : list nat) (ax : nat) (m1 m2 : tmode),
  wf_array G R a = true -> wf_array G R b = true ->
  axes_ok (ndim G R a) aa = true -> axes_ok (ndim G R b) ab = true -> legs_match G R a b aa ab ->
  ax < ndim G R b -> ~ In ax ab ->
  let la := rest_axes (ndim G R a) aa in
  let rb := rest_axes (ndim G R b) ab in
  let W := tdot_blockwise G R a b la aa ab rb in
  let ab' := map (slot_pos (slots (ndim G R b) [[ax]])) ab in
  let L := tdot_mode G R m1 a (fuse_core G R b [[ax]]) aa ab' in
  let Rr := fuse_core G R (tdot_mode G R m2 a b aa ab) [[length la + index_of ax rb]] in
  ab' = ab /\ charge G R L = charge G R Rr /\ indices G R Rr = indices G R W /\ ndim G R L = ndim G R Rr /\
  forall cs, coords_ok G (without_axes (indices G R a) aa ++ without_axes (indices G R b) ab) cs = true ->
    sem G R L cs = sem G R W cs /\ sem G R Rr cs = sem G R W cs.
Proof. exact fuse_free_singlet_b. Qed.

(* ---- full statement, NOT proved: the fermionic version ----
   f_fuse on a free group then f_tensordot2, against f_tensordot2 then f_fuse, any
   modes, compared after f_unfuse at value level (f_value = the blocks with the
   pending signs multiplied in) with the fermionic transpose of the plain
   contraction by fuse_perm, and equal odd-position labels.  The statement was
   evaluated by vm_compute on odd-parity Z2 operands with pending signs and labels
   (FuseCommuteProofs.ExC06cF.fermi_routes_agree: FermiProofs.Ex.xA / xB, group in either
   operand, groups [0;1] [1;0] [1;2] [2;1], modes blockwise / fused on either route):
   it holds there.
   Missing for a proof: (i) route 2 is the fermionic round trip of Props/C05h.v
   applied to the product (available, given wf_fermi of the product); (ii) route 1
   needs the per-sector sign identity
       sign(f_fuse a [g]) * sign(f_tensordot2 of the fused operand) * sign(f_unfuse window)
     = sign(f_tensordot2 a b) * sign(f_transpose by fuse_perm)
   i.e. the composition of C05_fermi_fuse_sign / C05_fermi_unfuse_sign (window
   signs gsw) with the contraction sign formula C03_tensordot_sign_formula on a
   fused leg whose parity is the sum of the parities of its sub-legs, and (iii) the
   abelian theorem above for the sign-stripped base arrays (f_tensordot2 transposes
   its operands to (free, contracted) order first, so the free group meets the
   theorem after a further re-numbering).  (ii) is not done. *)
Definition C06_fermi_fuse_free_commutes_full : Prop :=
  forall (G : Symmetry) (R : Ring), GroupLaws G -> OrderLaws G -> SumLaws R -> NegLaws R ->
  forall (a b : farray G R) (aa ab g : list nat) (m1 m2 : tmode) (Wm : farray G R),
  wf_fermi G R a = true -> wf_fermi G R b = true ->
  axes_ok (ndim G R (fbase G R a)) aa = true -> axes_ok (ndim G R (fbase G R b)) ab = true ->
  legs_match G R (fbase G R a) (fbase G R b) aa ab ->
  2 <= length g -> NoDup g -> (forall ax, In ax g -> ax < ndim G R (fbase G R a) /\ ~ In ax aa) ->
  let la := rest_axes (ndim G R (fbase G R a)) aa in
  let aa' := map (slot_pos (slots (ndim G R (fbase G R a)) [g])) aa in
  let g' := map (fun ax => index_of ax la) g in
  let p := fuse_position [g'] in
  let perm := fuse_perm (ndim G R (fbase G R Wm)) [g'] in
  f_tensordot2 G R a b (inr (map Z.of_nat aa, map Z.of_nat ab)) m2 = Some Wm ->
  exists L UL UR,
    f_tensordot2 G R (f_fuse G R a [g]) b (inr (map Z.of_nat aa', map Z.of_nat ab)) m1 = Some L /\
    f_unfuse G R L p = Some UL /\ f_unfuse G R (f_fuse G R Wm [g']) p = Some UR /\
    foddpos G R UL = foddpos G R UR /\
    forall cs,
      coords_ok G (permuted (dflt_index G)
                     (without_axes (indices G R (fbase G R a)) aa ++ without_axes (indices G R (fbase G R b)) ab) perm) cs = true ->
      sem G R (f_value G R UL) cs = sem G R (f_value G R (f_transpose G R Wm perm true)) cs /\
      sem G R (f_value G R UR) cs = sem G R (f_value G R (f_transpose G R Wm perm true)) cs.

Print Assumptions C06_tensordot2_on_natural_axes.
Print Assumptions C06_renumbered_axes.
Print Assumptions C06_fuse_free_then_contract.
Print Assumptions C06_prefused_leg_stays_fused.
Print Assumptions C06_fuse_free_then_contract_b.
Print Assumptions C06_fuse_free_then_contract_public.
Print Assumptions C06_fuse_free_then_contract_b_public.
Print Assumptions C06_fuse_free_single_axis.
Print Assumptions C06_fuse_free_single_axis_b.
