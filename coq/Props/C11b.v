(* Props/C11b.v — property C11, continuation: eigh reconstruction (abelian and fermionic sign
   rule) and the fermionic svd product.  ONLY restatements of lemmas of Proofs/LinalgProofs2.v.

   Shape of every theorem (as in Props/C11.v): ORACLE CONTRACT of the per-block LAPACK routine
   (function parameter; explicit hypotheses `eigh_shapes`, `eigh_product`: v . diag(w) . v^H = m
   entry by entry; `svd_shapes`, `svd_product`) => block-sparse contract of Model/Linalg.v.
   The coefficient ring is any commutative ring with conjugation (`CRingLaws`; instances
   C11b_ring_Z / C11b_ring_Gauss).  `herm_structured x`: x lives on (i, conj i) — same table,
   opposite directions; with total charge = identity only diagonal sectors (c, c) occur.

   Fermionic eigh, formulation determined on Z2 examples (EighEx.f_eigh_values / f_eigh_instance)
   and then proved: with ev.H = dagger(phase_dual=False),
       multiply_diagonal(ev, el, 1) @ ev.H  ==  a      at value level, in BOTH direction patterns;
   the negation of the odd-charge eigenvalues for a ket-like second index cancels exactly the
   sign `FermionicArray.__matmul__` puts on a right operand whose first index is dual.  (With
   phase_dual=True the product has the wrong sign on the odd sectors.)  The contract of the
   per-block routine is on the phase-synced blocks, which are what the code decomposes.
   `resolve_oddpos ... = Some (false, odd')` holds for an array without labels (C11b_no_labels),
   which is every even-parity array built by the constructors. *)
From SV Require Import Base.Prelude Base.Sym Base.Tensor Gen.PhasePerm Model.Sectors Model.Array Model.Arith Model.Wf Model.Fermi Model.Linalg
  Proofs.Tdot Proofs.StructProofs Proofs.LinalgProofs Proofs.LinalgProofs2.
Local Open Scope nat_scope.

Theorem C11b_ring_Z : CRingLaws ZRing.
Proof. exact ZRing_cring. Qed.

Theorem C11b_ring_Gauss : CRingLaws GRing.
Proof. exact GRing_cring. Qed.

(* v . diag(w) . v^H densifies to x: as a sum over the bond coordinates, and through the
   model's own multiply_diagonal / dagger / matmul *)
Theorem C11b_eigh_reconstruct :
  forall (G : Symmetry) (HG : GroupLaws G) (R : Ring) (CL : CRingLaws R)
    (cltb_irrefl : forall c : C G, cltb G c c = false)
    (cltb_trans : forall a b c : C G, cltb G a b = true -> cltb G b c = true -> cltb G a c = true)
    (eigh_blk : tensor R -> tensor R * tensor R) (x : aarray G R) (w : bvec G R) (v : aarray G R),
    wf_array G R x = true -> ndim G R x = 2 -> charge G R x = ident G -> herm_structured G R x ->
    eigh_shapes R eigh_blk ->
    (forall s m, In (s, m) (blocks G R x) -> eigh_product R eigh_blk m) ->
    a_eigh G R eigh_blk x = Some (w, v) ->
    forall l rr, coords_ok G [ix0 G R x] [l] = true -> coords_ok G [ix1 G R x] [rr] = true ->
      rsum R (map (fun k => rmul R (rmul R (sem G R v [l; k]) (vsem G R w k)) (rconj R (sem G R v [rr; k])))
                  (index_coords G (ix1 G R x)))
      = sem G R x [l; rr] /\
      exists res, a_matmul G R (a_multiply_diagonal G R v w 1) (a_dagger G R v) = Some res /\
                  sem G R res [l; rr] = sem G R x [l; rr].
Proof. exact eigh_reconstruct. Qed.

(* Hermitian structure forces diagonal sectors and square blocks (so eigh's per-block calls make sense) *)
Theorem C11b_herm_diagonal_sectors :
  forall (G : Symmetry) (HG : GroupLaws G) (R : Ring) (x : aarray G R),
    wf_array G R x = true -> ndim G R x = 2 -> charge G R x = ident G -> herm_structured G R x ->
    forall s m, In (s, m) (blocks G R x) ->
      exists c, s = [c; c] /\ tshape m = [size_of G (ix1 G R x) c; size_of G (ix1 G R x) c] /\
                length (tdata m) = shape_size (tshape m).
Proof. exact herm_diag. Qed.

(* the sign rule of eigh_fermionic *)
Theorem C11b_fermionic_eigh_reconstruct :
  forall (G : Symmetry) (HG : GroupLaws G) (R : Ring) (CL : CRingLaws R)
    (cltb_irrefl : forall c : C G, cltb G c c = false)
    (cltb_trans : forall a b c : C G, cltb G a b = true -> cltb G b c = true -> cltb G a c = true)
    (eigh_blk : tensor R -> tensor R * tensor R)
    (a : farray G R) (w : bvec G R) (ev : farray G R) (odd' : list fop) (l rr : coord G),
    wf_array G R (fbase G R a) = true -> ndim G R (fbase G R a) = 2 ->
    charge G R (fbase G R a) = ident G -> herm_structured G R (fbase G R a) ->
    eigh_shapes R eigh_blk ->
    (forall s m, In (s, m) (blocks G R (f_value G R a)) -> eigh_product R eigh_blk m) ->
    f_eigh G R eigh_blk a = Some (w, ev) ->
    resolve_oddpos false (foddpos G R a) (oddpos_dag (foddpos G R a)) = Some (false, odd') ->
    coords_ok G [ix0 G R (fbase G R a)] [l] = true -> coords_ok G [ix1 G R (fbase G R a)] [rr] = true ->
    (exists w0 v0, a_eigh G R eigh_blk (f_value G R a) = Some (w0, v0) /\ ev = mkF G R v0 [] (foddpos G R a) /\
                   w = if negb (idual G (ix1 G R (fbase G R a))) then flip_odd G R w0 else w0) /\
    exists y, f_matmul G R (f_mul_diag G R ev w 1) (f_dagger G R ev false) = Some y /\
              foddpos G R y = odd' /\
              sem G R (f_value G R y) [l; rr] = sem G R (f_value G R a) [l; rr].
Proof. exact f_eigh_reconstruct. Qed.

Theorem C11b_no_labels : forall p : bool, resolve_oddpos p [] (oddpos_dag []) = Some (false, []).
Proof. exact resolve_nil. Qed.

(* fermionic svd: (u . diag(s)) @ vh == x at value level, pending signs of the input included;
   f_mul_diag = the inherited block-wise multiply_diagonal (signs and labels untouched) *)
Theorem C11b_fermionic_svd_reconstruct :
  forall (G : Symmetry) (HG : GroupLaws G) (R : Ring) (CL : CRingLaws R)
    (cltb_irrefl : forall c : C G, cltb G c c = false)
    (cltb_trans : forall a b c : C G, cltb G a b = true -> cltb G b c = true -> cltb G a c = true)
    (cltb_total : forall a b : C G, a <> b -> cltb G a b = true \/ cltb G b a = true)
    (svd_blk : tensor R -> tensor R * tensor R * tensor R) (Hshapes : svd_shapes R svd_blk)
    (x u : farray G R) (s : bvec G R) (vh : farray G R) (l rr : coord G),
    wf_array G R (fbase G R x) = true -> ndim G R (fbase G R x) = 2 ->
    (forall sec m, In (sec, m) (blocks G R (fbase G R x)) -> svd_product R svd_blk m) ->
    f_svd G R svd_blk x = Some (u, s, vh) ->
    resolve_oddpos (fparity G R x) (foddpos G R x) [] = Some (false, foddpos G R x) ->
    coords_ok G [ix0 G R (fbase G R x)] [l] = true -> coords_ok G [ix1 G R (fbase G R x)] [rr] = true ->
    exists y, f_matmul G R (f_mul_diag G R u s 1) vh = Some y /\ foddpos G R y = foddpos G R x /\
              sem G R (f_value G R y) [l; rr] = sem G R (f_value G R x) [l; rr].
Proof. exact fermionic_svd_reconstruct. Qed.

Print Assumptions C11b_ring_Z.
Print Assumptions C11b_ring_Gauss.
Print Assumptions C11b_eigh_reconstruct.
Print Assumptions C11b_herm_diagonal_sectors.
Print Assumptions C11b_fermionic_eigh_reconstruct.
Print Assumptions C11b_no_labels.
Print Assumptions C11b_fermionic_svd_reconstruct.
