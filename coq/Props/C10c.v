(* Props/C10c.v — property C10, the NETWORK clause (continuation of Props/C10.v, C10b.v):
   "the same holds for a whole network conjugated tensor by tensor once the dangling legs that
    were bra-like are sign-flipped (none when all dangling legs are ket-like), along every
    contraction route."
   Statements only; proofs and the definitions below live in Proofs/ConjNetProofs.v
   (and Proofs/RouteProofs.v, Proofs/NormProofs.v for the vocabulary of C04b / C10b).

     f_conj x true pd     x.conj(phase_permutation=True, phase_dual=pd)   (pd = the dual-leg option)
     V x cs               the value of x at the (charge, offset) coordinate cs, pending signs applied
     pair_ok a b aa ab    aa / ab are duplicate-free in-range axes of a / b of equal number, the paired
                          legs have opposite directions and equal charge tables (C04b)
     naxes aa ab          the axes argument (aa, ab) of tensordot
     distinct l           the odd-position labels in l are pairwise different
     axes_where d ixs     the axes whose index satisfies d
     reindex y ixs        y with the index tables ixs (tensordot drops unused charges from the tables
                          of its result; the values do not depend on the tables)
     free_ixs a b aa ab   the tables of the free legs of a, then of b
     norm_sum_l x         sum over all coordinates cs of conj(v) * v, v = V x cs  (C10b; = a_norm2)
     n_dual l             parity of the number of conjugated labels in l
     ConjLaws R           conj 0 = 0, conj(-a) = -conj a, conj(a+b) = conj a + conj b, conj(ab) = conj a conj b

   What is TRUE (determined by evaluation on Z2 / U1 instances first — ConjNetProofs.ConjNetEx —
   then proved for every symmetry with GroupLaws, every rank and table, every ring with the laws):
   * conjugation with the default option is an exact ANTI-HOMOMORPHISM of the contraction:
       conj(a . b) = transpose(conj b . conj a)
     (the transpose only restores the leg order: a's free legs, then b's), odd and even operands,
     pending signs, labels (the label list of the right-hand side is the conjugate of the sorted
     list of a . b) — no sign is needed on the bonds;
   * the dual-leg option applied to the CONTRACTED network is the sign flip of exactly the
     dangling legs that are bra-like:  conj(a . b, option) = flip_{bra-like dangling}(transpose(conj b . conj a));
     with no flip, or the flip of the ket-like legs instead, the equality fails as soon as the
     result is odd (ConjNetEx.conj_tensordot_values);
   * hence the bra network (conj b . conj a with its originally bra-like dangling legs flipped)
     contracted with the ket network a . b over all dangling pairs gives sum |[[a.b]]|^2, times
     (-1)^(number of conjugated labels) — no sign for constructor labels. *)
From SV Require Import Base.Prelude Base.Sym Base.Tensor Model.Sectors Model.Array Model.Arith Model.Wf
  Model.Fermi Proofs.OrderProofs Proofs.OddposProofs Proofs.Tdot Proofs.WfProofs Proofs.FermiProofs
  Proofs.ConjProofs Proofs.NormProofs Proofs.RouteProofs Proofs.ConjNetProofs.
Local Open Scope nat_scope.

Theorem C10_ZRing_conj_laws : ConjLaws ZRing.
Proof. exact ZRing_conj_laws. Qed.

Theorem C10_GRing_conj_laws : ConjLaws GRing.
Proof. exact GRing_conj_laws. Qed.

(* ---- labels: conjugating both lists and exchanging them ---- *)
Theorem C10_resolve_conj :
  forall (oa ob : list fop) (pa pb m1 m2 : bool) (w1 w2 : list fop),
  distinct (oa ++ ob) ->
  resolve_oddpos pa oa ob = Some (m1, w1) ->
  resolve_oddpos pb (Fermi.oddpos_dag ob) (Fermi.oddpos_dag oa) = Some (m2, w2) ->
  w2 = Fermi.oddpos_dag w1
  /\ xorb m1 m2 = xorb (pa && Nat.odd (length ob)) (pb && Nat.odd (length oa)).
Proof. exact resolve_oddpos_conj. Qed.

(* ---- 1. conjugation is an anti-homomorphism of the contraction ---- *)
Theorem C10_conj_tensordot :
  forall (G : Symmetry), GroupLaws G -> OrderLaws G ->
  forall (R : Ring), NegLaws R -> SumLaws R -> CommLaws R -> ConjLaws R ->
  forall (a b : farray G R) (aa ab : list nat),
  wf_fermi G R a = true -> wf_fermi G R b = true -> pair_ok G R a b aa ab ->
  distinct (foddpos G R a ++ foddpos G R b) ->
  exists y1 y2,
    f_tensordot G R a b (naxes aa ab) MBlockwise = Some y1
    /\ f_tensordot G R (f_conj G R b true false) (f_conj G R a true false) (naxes ab aa) MBlockwise = Some y2
    /\ let nl := ndim G R (fbase G R a) - length aa in
       let nr := ndim G R (fbase G R b) - length ab in
       let t := f_transpose G R y2 (seq nr nl ++ seq 0 nr) true in
       foddpos G R (f_conj G R y1 true false) = foddpos G R t
       /\ forall cl cr,
            coords_ok G (without_axes (indices G R (fbase G R a)) aa) cl = true ->
            coords_ok G (without_axes (indices G R (fbase G R b)) ab) cr = true ->
            V G R (f_conj G R y1 true false) (cl ++ cr) = V G R t (cl ++ cr).
Proof. exact conj_tensordot. Qed.

(* ---- 2. the dual-leg option on the contracted network = flip of the bra-like dangling legs ---- *)
Theorem C10_conj_tensordot_dual_option :
  forall (G : Symmetry), GroupLaws G -> OrderLaws G ->
  forall (R : Ring), NegLaws R -> SumLaws R -> CommLaws R -> ConjLaws R ->
  forall (a b : farray G R) (aa ab : list nat),
  wf_fermi G R a = true -> wf_fermi G R b = true -> pair_ok G R a b aa ab ->
  distinct (foddpos G R a ++ foddpos G R b) ->
  exists y1 y2,
    f_tensordot G R a b (naxes aa ab) MBlockwise = Some y1
    /\ f_tensordot G R (f_conj G R b true false) (f_conj G R a true false) (naxes ab aa) MBlockwise = Some y2
    /\ let nl := ndim G R (fbase G R a) - length aa in
       let nr := ndim G R (fbase G R b) - length ab in
       let t := f_phase_flip G R (f_transpose G R y2 (seq nr nl ++ seq 0 nr) true)
                  (axes_where G (idual G) (indices G R (fbase G R y1))) in
       foddpos G R (f_conj G R y1 true true) = foddpos G R t
       /\ forall cl cr,
            coords_ok G (without_axes (indices G R (fbase G R a)) aa) cl = true ->
            coords_ok G (without_axes (indices G R (fbase G R b)) ab) cr = true ->
            V G R (f_conj G R y1 true true) (cl ++ cr) = V G R t (cl ++ cr).
Proof. exact conj_tensordot_dual. Qed.

(* ---- 3. the norm of a two-tensor network ---- *)
(* c = conj b . conj a, its dangling legs that were bra-like (now ket-like) sign-flipped; its legs
   are (b's free legs, a's free legs), contracted with the matching legs of a . b *)
Theorem C10_network_norm_two :
  forall (G : Symmetry), GroupLaws G -> OrderLaws G ->
  forall (R : Ring), NegLaws R -> SumLaws R -> CommLaws R -> ConjLaws R ->
  forall (a b : farray G R) (aa ab : list nat),
  wf_fermi G R a = true -> wf_fermi G R b = true -> pair_ok G R a b aa ab ->
  distinct (foddpos G R a ++ foddpos G R b) ->
  exists y1 y2 z,
    f_tensordot G R a b (naxes aa ab) MBlockwise = Some y1
    /\ f_tensordot G R (f_conj G R b true false) (f_conj G R a true false) (naxes ab aa) MBlockwise = Some y2
    /\ let nl := ndim G R (fbase G R a) - length aa in
       let nr := ndim G R (fbase G R b) - length ab in
       let c := f_phase_flip G R y2 (axes_where G (fun ix => negb (idual G ix)) (indices G R (fbase G R y2))) in
       f_tensordot G R c y1 (naxes (seq nr nl ++ seq 0 nr) (seq 0 (nl + nr))) MBlockwise = Some z
       /\ foddpos G R z = []
       /\ a_scalar G R (f_value G R z)
          = rsgn R (n_dual (foddpos G R a ++ foddpos G R b))
                 (norm_sum_l G R (reindex G R y1 (free_ixs G R a b aa ab))).
Proof. exact network_norm_two. Qed.

Theorem C10_network_norm_two_ket :
  forall (G : Symmetry), GroupLaws G -> OrderLaws G ->
  forall (R : Ring), NegLaws R -> SumLaws R -> CommLaws R -> ConjLaws R ->
  forall (a b : farray G R) (aa ab : list nat),
  wf_fermi G R a = true -> wf_fermi G R b = true -> pair_ok G R a b aa ab ->
  distinct (foddpos G R a ++ foddpos G R b) -> labels_ket (foddpos G R a ++ foddpos G R b) ->
  exists y1 y2 z,
    f_tensordot G R a b (naxes aa ab) MBlockwise = Some y1
    /\ f_tensordot G R (f_conj G R b true false) (f_conj G R a true false) (naxes ab aa) MBlockwise = Some y2
    /\ let nl := ndim G R (fbase G R a) - length aa in
       let nr := ndim G R (fbase G R b) - length ab in
       let c := f_phase_flip G R y2 (axes_where G (fun ix => negb (idual G ix)) (indices G R (fbase G R y2))) in
       f_tensordot G R c y1 (naxes (seq nr nl ++ seq 0 nr) (seq 0 (nl + nr))) MBlockwise = Some z
       /\ foddpos G R z = []
       /\ a_scalar G R (f_value G R z) = norm_sum_l G R (reindex G R y1 (free_ixs G R a b aa ab)).
Proof. exact network_norm_two_ket. Qed.

(* ---- 4. the flips applied tensor by tensor ---- *)
(* sign flips of free legs commute with the contraction (fa / fb: free legs of a / b; they sit in
   the result at their positions among the free legs of a, resp. behind them for b) *)
Theorem C10_tdot_flip_free :
  forall (G : Symmetry), GroupLaws G -> OrderLaws G ->
  forall (R : Ring), NegLaws R -> SumLaws R ->
  forall (a b : farray G R) (aa ab fa fb : list nat),
  wf_fermi G R a = true -> wf_fermi G R b = true -> pair_ok G R a b aa ab ->
  distinct (foddpos G R a ++ foddpos G R b) ->
  (forall j, In j fa -> In j (rest_axes (ndim G R (fbase G R a)) aa)) ->
  (forall j, In j fb -> In j (rest_axes (ndim G R (fbase G R b)) ab)) ->
  exists y y',
    f_tensordot G R a b (naxes aa ab) MBlockwise = Some y
    /\ f_tensordot G R (f_phase_flip G R a fa) (f_phase_flip G R b fb) (naxes aa ab) MBlockwise = Some y'
    /\ foddpos G R y' = foddpos G R y
    /\ wf_fermi G R (reindex G R y' (free_ixs G R a b aa ab)) = true
    /\ map (idual G) (free_ixs G R a b aa ab) = map (idual G) (indices G R (fbase G R y'))
    /\ forall cl cr,
         coords_ok G (without_axes (indices G R (fbase G R a)) aa) cl = true ->
         coords_ok G (without_axes (indices G R (fbase G R b)) ab) cr = true ->
         V G R y' (cl ++ cr)
         = rsgn R (xorb (count_odd G (map fst cl) (map (fun j => index_of j (rest_axes (ndim G R (fbase G R a)) aa)) fa))
                        (count_odd G (map fst cr) (map (fun j => index_of j (rest_axes (ndim G R (fbase G R b)) ab)) fb)))
                (V G R y (cl ++ cr)).
Proof. exact tdot_flip_free. Qed.

(* conj a with a's bra-like dangling legs flipped, conj b likewise, contracted with each other and
   then with a . b: the squared norm.  la / rb = the dangling legs of a / b. *)
Theorem C10_network_norm_two_local :
  forall (G : Symmetry), GroupLaws G -> OrderLaws G ->
  forall (R : Ring), NegLaws R -> SumLaws R -> CommLaws R -> ConjLaws R ->
  forall (a b : farray G R) (aa ab : list nat),
  wf_fermi G R a = true -> wf_fermi G R b = true -> pair_ok G R a b aa ab ->
  distinct (foddpos G R a ++ foddpos G R b) ->
  let la := rest_axes (ndim G R (fbase G R a)) aa in
  let rb := rest_axes (ndim G R (fbase G R b)) ab in
  let fa := filter (fun j => idual G (nth j (indices G R (fbase G R a)) (dflt_index G))) la in
  let fb := filter (fun j => idual G (nth j (indices G R (fbase G R b)) (dflt_index G))) rb in
  exists y1 c z,
    f_tensordot G R a b (naxes aa ab) MBlockwise = Some y1
    /\ f_tensordot G R (f_phase_flip G R (f_conj G R b true false) fb) (f_phase_flip G R (f_conj G R a true false) fa)
         (naxes ab aa) MBlockwise = Some c
    /\ f_tensordot G R c y1 (naxes (seq (length rb) (length la) ++ seq 0 (length rb)) (seq 0 (length la + length rb))) MBlockwise = Some z
    /\ foddpos G R z = []
    /\ a_scalar G R (f_value G R z)
       = rsgn R (n_dual (foddpos G R a ++ foddpos G R b))
              (norm_sum_l G R (reindex G R y1 (free_ixs G R a b aa ab))).
Proof. exact network_norm_two_local. Qed.

(* ---- 5. the contraction only sees the values of its operands ---- *)
(* (used to exchange the bra network for any array with the same values; the outcome of the label
   resolution is a premise, so conjugate label pairs are covered) *)
Theorem C10_tdot_congr :
  forall (G : Symmetry), GroupLaws G -> OrderLaws G ->
  forall (R : Ring), NegLaws R -> SumLaws R ->
  forall (X X' Y Y' : farray G R) (aa ab : list nat) (m : bool) (w : list fop),
  wf_fermi G R X = true -> wf_fermi G R X' = true -> wf_fermi G R Y = true -> wf_fermi G R Y' = true ->
  pair_ok G R X Y aa ab ->
  indices G R (fbase G R X') = indices G R (fbase G R X) -> indices G R (fbase G R Y') = indices G R (fbase G R Y) ->
  foddpos G R X' = foddpos G R X -> foddpos G R Y' = foddpos G R Y ->
  (forall cs, coords_ok G (indices G R (fbase G R X)) cs = true -> V G R X' cs = V G R X cs) ->
  (forall cs, coords_ok G (indices G R (fbase G R Y)) cs = true -> V G R Y' cs = V G R Y cs) ->
  resolve_oddpos (fparity G R X) (foddpos G R X) (foddpos G R Y) = Some (m, w) ->
  exists z z',
    f_tensordot G R X Y (naxes aa ab) MBlockwise = Some z
    /\ f_tensordot G R X' Y' (naxes aa ab) MBlockwise = Some z'
    /\ foddpos G R z = w /\ foddpos G R z' = w
    /\ forall cl cr,
         coords_ok G (without_axes (indices G R (fbase G R X)) aa) cl = true ->
         coords_ok G (without_axes (indices G R (fbase G R Y)) ab) cr = true ->
         V G R z' (cl ++ cr) = V G R z (cl ++ cr).
Proof. exact tdot_congr. Qed.

(* ---- 6. another route (C04b's associativity): the bra network absorbs a, then b ---- *)
(* b without dangling legs (the network bra(b) - bra(a) - a - b is a chain), a and b without labels
   (C04b's route theorems need pairwise different labels).  B = the bra network of theorem 3 with
   the unpruned tables.  ((B . a) . b) is the norm, like B . (a . b). *)
Theorem C10_network_norm_chain_route :
  forall (G : Symmetry), GroupLaws G -> OrderLaws G ->
  forall (R : Ring), NegLaws R -> SumLaws R -> CommLaws R -> ConjLaws R ->
  forall (a b : farray G R) (aa ab : list nat),
  wf_fermi G R a = true -> wf_fermi G R b = true -> pair_ok G R a b aa ab ->
  foddpos G R a = [] -> foddpos G R b = [] -> rest_axes (ndim G R (fbase G R b)) ab = [] ->
  let la := rest_axes (ndim G R (fbase G R a)) aa in
  exists y1 y2 u v,
    f_tensordot G R a b (naxes aa ab) MBlockwise = Some y1
    /\ f_tensordot G R (f_conj G R b true false) (f_conj G R a true false) (naxes ab aa) MBlockwise = Some y2
    /\ let B := reindex G R (f_phase_flip G R y2 (axes_where G (fun ix => negb (idual G ix)) (indices G R (fbase G R y2))))
                  (map (iconj G) (without_axes (indices G R (fbase G R a)) aa)) in
       f_tensordot G R B a (naxes (seq 0 (length la)) la) MBlockwise = Some u
       /\ f_tensordot G R u b
            (naxes (map (fun j => index_of j (rest_axes (ndim G R (fbase G R a)) la)) aa) ab) MBlockwise = Some v
       /\ foddpos G R v = []
       /\ a_scalar G R (f_value G R v) = norm_sum_l G R (reindex G R y1 (free_ixs G R a b aa ab)).
Proof. exact network_norm_chain_route. Qed.

(* ---- 7. the other operand order of the closing contraction: (a . b) . bra ---- *)
(* v * conj(v) summed (norm_sum_r; C10b identifies both sums with a_norm2); labels by C10b's
   `resolve_conj_right`; the ket-like / bra-like counts of a stored sector add up to its parity *)
Theorem C10_network_norm_two_rev :
  forall (G : Symmetry), GroupLaws G -> OrderLaws G ->
  forall (R : Ring), NegLaws R -> SumLaws R -> CommLaws R -> ConjLaws R ->
  forall (a b : farray G R) (aa ab : list nat),
  wf_fermi G R a = true -> wf_fermi G R b = true -> pair_ok G R a b aa ab ->
  distinct (foddpos G R a ++ foddpos G R b) ->
  exists y1 y2 z,
    f_tensordot G R a b (naxes aa ab) MBlockwise = Some y1
    /\ f_tensordot G R (f_conj G R b true false) (f_conj G R a true false) (naxes ab aa) MBlockwise = Some y2
    /\ let nl := ndim G R (fbase G R a) - length aa in
       let nr := ndim G R (fbase G R b) - length ab in
       let c := f_phase_flip G R y2 (axes_where G (fun ix => negb (idual G ix)) (indices G R (fbase G R y2))) in
       f_tensordot G R y1 c (naxes (seq 0 (nl + nr)) (seq nr nl ++ seq 0 nr)) MBlockwise = Some z
       /\ foddpos G R z = []
       /\ a_scalar G R (f_value G R z)
          = rsgn R (n_dual (foddpos G R a ++ foddpos G R b))
                 (norm_sum_r G R (reindex G R y1 (free_ixs G R a b aa ab))).
Proof. exact network_norm_two_rev. Qed.

(* ---- what is NOT proved here ---- *)
(* NOT formalised: three tensors in a chain a - b - c.  The tools are here: theorem 1 applied to
   (a . b, c) and to (a, b), theorem 5 to exchange conj(a . b) for transpose(conj b . conj a) inside
   the contraction with conj c, C04_pre_transpose_second / C04_assoc_chain for the leg order and
   the route, and the closing lemma `ConjNetProofs.closing` (which only asks for the value relation
   between the bra and the ket network).  Routes through a network that carries conjugate label
   pairs (odd tensors together with their conjugates) other than the ones of theorems 3, 4, 6 and 7
   are not covered by C04b (its theorems assume pairwise different labels); they are exercised
   by the correspondence oracle of C10 (random routes). *)

Print Assumptions C10_ZRing_conj_laws.
Print Assumptions C10_GRing_conj_laws.
Print Assumptions C10_resolve_conj.
Print Assumptions C10_conj_tensordot.
Print Assumptions C10_conj_tensordot_dual_option.
Print Assumptions C10_network_norm_two.
Print Assumptions C10_network_norm_two_ket.
Print Assumptions C10_tdot_flip_free.
Print Assumptions C10_network_norm_two_local.
Print Assumptions C10_tdot_congr.
Print Assumptions C10_network_norm_chain_route.
Print Assumptions C10_network_norm_two_rev.
