(* Props/C06d.v — continuation of Props/C06.v (audited together with it): TRANSLATOR tie of the
   FUSED contraction path and of the contraction FRONT END.
   tr/gen_fusedtdot.py -> Gen/FusedTdotGen.v regenerates on every run, from the current source of
   symmray/abelian_core.py,
     gen_fuse                 = AbelianArray.fuse(.., expand_empty=False)  (which groups reach _fuse_core)
     gen_tensordot_via_fused  = _tensordot_via_fused  (alignment, the two fuses and their group order,
                                the renumbered axes of the two matrices, the blockwise product, which
                                result legs are unfused under which condition and in which order)
     gen_tensordot_abelian    = tensordot_abelian     (axes parsing, left / right axes, mode=None ->
                                module default, the "auto" rule, the dispatch on the mode string, the
                                scalar return path), gen_default_tensordot_mode = the module default,
   composed from the generated `gen_drop_misaligned_sectors` / `gen_tensordot_blockwise`
   (Gen/BlockwiseGen.v, Props/C02d.v) and the hand model's `fuse_core` (= the generated
   calc_fuse_block_info + _fuse_blocks_via_insert, Props/C05i.v) and `a_unfuse`.
   The theorems say that these generated functions ARE the hand model that Props/C06.v, C06b.v,
   C06c.v speak about (`a_fuse_noexpand`, `Fused.tdot_fused2`, `Fused.a_tensordot2`) — LEIBNIZ
   equality of the whole result record (index tables with sub-index information, charge, the
   association list of blocks including its order) — and restate C06_fused_eq_blockwise and
   C06_all_modes_agree for the generated functions.  Statements only; proofs in
   Proofs/FusedTdotGenProofs.v.
   Predicates: the operands are `wf_array`, the contracted axes `axes_ok` (in range, pairwise
   distinct), left / right axes are the remaining axes in order (what the front end computes);
   `ceqb G` decides equality.  For int axes k the model (and the generated text, which uses
   truncated subtraction on naturals) needs k <= ndim a: implied by `axes_ok` of the parsed axes.
   Hand-modelled as before: `_fuse_core` (tied by C05i), `unfuse` (Array.a_unfuse; a leg without
   sub-index info: unchanged where Python raises), the guard for a non-array second operand. *)
From Coq Require Import String.
From SV Require Import Base.Prelude Base.Sym Base.Tensor Model.Sectors Model.Array Model.Wf Model.Fused
  Model.SymInst Proofs.SymLaws Proofs.Tdot Proofs.OrderProofs Proofs.FusedProofs
  Gen.BlockwiseGen Gen.FusedTdotGen Proofs.FusedTdotGenProofs.
Local Open Scope nat_scope.

(* fuse(.., expand_empty=False): every array, every list of groups *)
Theorem C06_gen_fuse_is_model :
  forall (G : Symmetry) (R : Ring) (x : aarray G R) (groups : list (list nat)),
  gen_fuse G R x groups = a_fuse_noexpand G R x groups.
Proof. exact gen_fuse_eq. Qed.

(* _tensordot_via_fused as the front end calls it *)
Theorem C06_gen_tensordot_via_fused_is_model :
  forall (G : Symmetry) (R : Ring),
  (forall x y : C G, ceqb G x y = true <-> x = y) ->
  forall (a b : aarray G R) (la aa ab rb : list nat),
  wf_array G R a = true -> wf_array G R b = true ->
  axes_ok (ndim G R a) aa = true -> axes_ok (ndim G R b) ab = true ->
  la = rest_axes (ndim G R a) aa -> rb = rest_axes (ndim G R b) ab ->
  gen_tensordot_via_fused G R a b la aa ab rb = tdot_fused2 G R a b la aa ab rb.
Proof. exact gen_tensordot_via_fused_eq. Qed.

(* tensordot_abelian: every mode, both values of preserve_array, any module default *)
Theorem C06_gen_tensordot_abelian_is_model :
  forall (G : Symmetry) (R : Ring),
  (forall x y : C G, ceqb G x y = true <-> x = y) ->
  forall (a b : aarray G R) (axes : nat + (list Z * list Z)) (m : tmode)
         (preserve_array : bool) (dm : string) (aa ab : list nat),
  wf_array G R a = true -> wf_array G R b = true ->
  parse_axes (ndim G R a) (ndim G R b) axes = Some (aa, ab) ->
  axes_ok (ndim G R a) aa = true -> axes_ok (ndim G R b) ab = true ->
  gen_tensordot_abelian G R a b axes (Some (mode_name m)) preserve_array dm =
  option_map (fun c => if Nat.eqb (ndim G R c) 0 && negb preserve_array
                       then match lookup (list_eqb (ceqb G)) [] (blocks G R c) with Some t => TdScalar t | None => TdZero end
                       else TdArray c)
             (a_tensordot2 G R a b axes m).
Proof. exact gen_tensordot_abelian_eq. Qed.

Theorem C06_gen_tensordot_abelian_mode_none :
  forall (G : Symmetry) (R : Ring) (a b : aarray G R) (axes : nat + (list Z * list Z)) (p : bool) (dm : string),
  gen_tensordot_abelian G R a b axes None p dm = gen_tensordot_abelian G R a b axes (Some dm) p dm.
Proof. exact gen_tensordot_abelian_none. Qed.

Theorem C06_gen_tensordot_abelian_bad_axes :
  forall (G : Symmetry) (R : Ring) (a b : aarray G R) (axes : nat + (list Z * list Z)) (mode : option string) (p : bool) (dm : string),
  parse_axes (ndim G R a) (ndim G R b) axes = None ->
  gen_tensordot_abelian G R a b axes mode p dm = None.
Proof. exact gen_tensordot_abelian_bad_axes. Qed.

Theorem C06_gen_tensordot_abelian_bad_mode :
  forall (G : Symmetry) (R : Ring) (a b : aarray G R) (axes : nat + (list Z * list Z)) (s : string) (p : bool) (dm : string),
  String.eqb s "auto" = false -> String.eqb s "fused" = false -> String.eqb s "blockwise" = false ->
  gen_tensordot_abelian G R a b axes (Some s) p dm = None.
Proof. exact gen_tensordot_abelian_bad_mode. Qed.

Theorem C06_gen_defaults :
  forall (G : Symmetry) (R : Ring),
  gen_default_tensordot_mode = mode_name MAuto /\ gen_tensordot_default_axes = 2 /\
  gen_tensordot_default_mode = Some (mode_name MAuto) /\ gen_tensordot_default_preserve_array = false.
Proof. intros G R. exact gen_defaults. Qed.

(* C06_fused_eq_blockwise for the two GENERATED strategies *)
Theorem C06_gen_fused_eq_blockwise :
  forall (G : Symmetry) (R : Ring), GroupLaws G -> OrderLaws G -> SumLaws R ->
  forall (a b : aarray G R) (la aa ab rb : list nat),
  wf_array G R a = true -> wf_array G R b = true ->
  axes_ok (ndim G R a) aa = true -> axes_ok (ndim G R b) ab = true ->
  legs_match G R a b aa ab ->
  la = rest_axes (ndim G R a) aa -> rb = rest_axes (ndim G R b) ab ->
  let f := gen_tensordot_via_fused G R a b la aa ab rb in
  let w := gen_tensordot_blockwise G R a b la aa ab rb in
  charge G R f = charge G R w /\
  indices G R f = indices G R w /\
  forall cs, sem G R f cs = sem G R w cs.
Proof. exact gen_fused_eq_gen_blockwise. Qed.

(* C06_all_modes_agree for the GENERATED front end *)
Theorem C06_gen_all_modes_agree :
  forall (G : Symmetry) (R : Ring), GroupLaws G -> OrderLaws G -> SumLaws R ->
  forall (a b : aarray G R) (axes : nat + (list Z * list Z)) (aa ab : list nat) (m1 m2 : tmode) (dm : string),
  parse_axes (ndim G R a) (ndim G R b) axes = Some (aa, ab) ->
  wf_array G R a = true -> wf_array G R b = true ->
  axes_ok (ndim G R a) aa = true -> axes_ok (ndim G R b) ab = true ->
  legs_match G R a b aa ab ->
  exists r1 r2,
    gen_tensordot_abelian G R a b axes (Some (mode_name m1)) true dm = Some (TdArray r1) /\
    gen_tensordot_abelian G R a b axes (Some (mode_name m2)) true dm = Some (TdArray r2) /\
    charge G R r1 = charge G R r2 /\ indices G R r1 = indices G R r2 /\
    forall cs, sem G R r1 cs = sem G R r2 cs.
Proof. exact gen_all_modes_agree. Qed.

Print Assumptions C06_gen_fuse_is_model.
Print Assumptions C06_gen_tensordot_via_fused_is_model.
Print Assumptions C06_gen_tensordot_abelian_is_model.
Print Assumptions C06_gen_tensordot_abelian_mode_none.
Print Assumptions C06_gen_tensordot_abelian_bad_axes.
Print Assumptions C06_gen_tensordot_abelian_bad_mode.
Print Assumptions C06_gen_defaults.
Print Assumptions C06_gen_fused_eq_blockwise.
Print Assumptions C06_gen_all_modes_agree.
