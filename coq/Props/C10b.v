(* Props/C10b.v — property C10, the NORM clause (continuation of Props/C10.v):
   "Contracting a fermionic array with its conjugate over all indices gives its squared norm
    whenever every index is ket-like or the dual-leg sign option is used, for even and odd
    parity, in either operand order."
   Statements only; proofs and the definitions below live in Proofs/NormProofs.v.

     full_axes n        the axes argument (0..n-1, 0..n-1): contract every index, in order
     f_conj x true pd   x.conj(phase_permutation=True, phase_dual=pd)   (pd = the dual-leg option)
     labels_ok l        the odd-position list is strictly sorted in FermionicOperator order and no
                        label occurs twice (what a constructor label or a finished contraction leaves)
     labels_ket l       no label of l is conjugated (dual)
     all_ket x          every index of x is non-dual
     dual_cond x pd     pd = true, or all_ket x
     n_dual l / n_nondual l   parity of the number of conjugated / non-conjugated labels
     norm_sum_l x       sum over all (charge, offset) coordinates cs of  conj(v) * v,  v = sem (f_value x) cs
     norm_sum_r x       the same with  v * conj(v);  both are `a_norm2 (f_value x)` (the last two theorems)
     rsgn b v           (-1)^b v

   Results (mode = block by block; C03 has the element formula for that strategy):
   * the contraction returns a rank-0 array without labels whose scalar is the squared norm, for
     even and odd parity, any pending signs, any rank / tables / symmetry, in both operand orders,
     for all-ket arrays under EITHER setting of the option and for any dualness pattern under
     pd = true;
   * the per-sector sign bookkeeping: the two reversal signs (conj's, and the one tensordot puts
     on its second operand) cancel, the ket-then-bra count cancels against the option's sign on
     bra legs, conj's odd global sign cancels against the label sign of `resolve_oddpos`;
   * labels: for a sorted, repetition-free list l, `oddpos_dag l ++ l` and `l ++ oddpos_dag l`
     are removed completely, a pair costing a sign exactly when it stands as (x-, x+);
   * found by evaluation first, then proved (`C10_norm_signed*`): an operand that itself carries
     CONJUGATED labels contracts to (-1)^(number of conjugated labels) times the norm — so the
     premise `labels_ket` is needed (NormProofs.NormEx.dual_label_values: -91 for norm 91), as is
     `dual_cond` (NormEx.x1_values: 154 instead of 294 for mixed directions with pd = false).
   Ring laws are explicit: NegLaws / SumLaws (C03, C02), conj 0 = 0, conj (-a) = - conj a;
   commutativity of the product only to identify conj(v) * v with a_norm2.  ZRing and GRing
   have them (FermiProofs, Tdot, ConjProofs, NormProofs.ZRing_mul_comm / GRing_mul_comm). *)
From SV Require Import Base.Prelude Base.Sym Base.Tensor Model.Sectors Model.Array Model.Arith Model.Wf
  Model.Fermi Proofs.StructProofs Proofs.Tdot Proofs.FermiProofs Proofs.ConjProofs Proofs.NormProofs.
Local Open Scope nat_scope.

(* ---- labels ---- *)
Theorem C10_resolve_conj_left :
  forall (p : bool) (l : list fop), labels_ok l ->
  resolve_oddpos p (oddpos_dag l) l = Some (xorb (p && Nat.odd (length l)) (n_dual l), []).
Proof. exact resolve_dag_left. Qed.

Theorem C10_resolve_conj_right :
  forall (p : bool) (l : list fop), labels_ok l ->
  resolve_oddpos p l (oddpos_dag l) = Some (xorb (p && Nat.odd (length l)) (n_nondual l), []).
Proof. exact resolve_dag_right. Qed.

(* ---- 1. every index ket-like (either setting of the dual-leg option) ---- *)
Theorem C10_norm_all_ket :
  forall (G : Symmetry), GroupLaws G -> forall (R : Ring), NegLaws R -> SumLaws R ->
  rconj R (r0 R) = r0 R -> (forall a, rconj R (rneg R a) = rneg R (rconj R a)) ->
  forall (x : farray G R) (pd : bool),
  wf_array G R (fbase G R x) = true -> tables_nodup G R (fbase G R x) = true ->
  labels_ok (foddpos G R x) -> labels_ket (foddpos G R x) -> all_ket G R x ->
  exists y, f_tensordot G R (f_conj G R x true pd) x (full_axes (ndim G R (fbase G R x))) MBlockwise = Some y /\
    foddpos G R y = [] /\ a_scalar G R (f_value G R y) = norm_sum_l G R x.
Proof. exact norm_all_ket. Qed.

(* ---- 2. any dualness pattern with the dual-leg option ---- *)
Theorem C10_norm_dual_option :
  forall (G : Symmetry), GroupLaws G -> forall (R : Ring), NegLaws R -> SumLaws R ->
  rconj R (r0 R) = r0 R -> (forall a, rconj R (rneg R a) = rneg R (rconj R a)) ->
  forall (x : farray G R),
  wf_array G R (fbase G R x) = true -> tables_nodup G R (fbase G R x) = true ->
  labels_ok (foddpos G R x) -> labels_ket (foddpos G R x) ->
  exists y, f_tensordot G R (f_conj G R x true true) x (full_axes (ndim G R (fbase G R x))) MBlockwise = Some y /\
    foddpos G R y = [] /\ a_scalar G R (f_value G R y) = norm_sum_l G R x.
Proof. exact norm_dual_option. Qed.

(* ---- 3. the other operand order (uses the invariant: odd parity <-> odd number of labels) ---- *)
Theorem C10_norm_all_ket_rev :
  forall (G : Symmetry), GroupLaws G -> forall (R : Ring), NegLaws R -> SumLaws R ->
  rconj R (r0 R) = r0 R -> (forall a, rconj R (rneg R a) = rneg R (rconj R a)) ->
  forall (x : farray G R) (pd : bool),
  wf_array G R (fbase G R x) = true -> tables_nodup G R (fbase G R x) = true ->
  labels_ok (foddpos G R x) -> labels_ket (foddpos G R x) ->
  Nat.odd (length (foddpos G R x)) = fparity G R x -> all_ket G R x ->
  exists y, f_tensordot G R x (f_conj G R x true pd) (full_axes (ndim G R (fbase G R x))) MBlockwise = Some y /\
    foddpos G R y = [] /\ a_scalar G R (f_value G R y) = norm_sum_r G R x.
Proof. exact norm_all_ket_rev. Qed.

Theorem C10_norm_dual_option_rev :
  forall (G : Symmetry), GroupLaws G -> forall (R : Ring), NegLaws R -> SumLaws R ->
  rconj R (r0 R) = r0 R -> (forall a, rconj R (rneg R a) = rneg R (rconj R a)) ->
  forall (x : farray G R),
  wf_array G R (fbase G R x) = true -> tables_nodup G R (fbase G R x) = true ->
  labels_ok (foddpos G R x) -> labels_ket (foddpos G R x) ->
  Nat.odd (length (foddpos G R x)) = fparity G R x ->
  exists y, f_tensordot G R x (f_conj G R x true true) (full_axes (ndim G R (fbase G R x))) MBlockwise = Some y /\
    foddpos G R y = [] /\ a_scalar G R (f_value G R y) = norm_sum_r G R x.
Proof. exact norm_dual_option_rev. Qed.

(* ---- the general sorted label list: the sign is (-1)^(number of conjugated labels) ---- *)
Theorem C10_norm_signed :
  forall (G : Symmetry), GroupLaws G -> forall (R : Ring), NegLaws R -> SumLaws R ->
  rconj R (r0 R) = r0 R -> (forall a, rconj R (rneg R a) = rneg R (rconj R a)) ->
  forall (x : farray G R) (pd : bool),
  let n := ndim G R (fbase G R x) in
  wf_array G R (fbase G R x) = true -> tables_nodup G R (fbase G R x) = true ->
  labels_ok (foddpos G R x) -> dual_cond G R x pd ->
  exists y, f_tensordot G R (f_conj G R x true pd) x (full_axes n) MBlockwise = Some y /\
    foddpos G R y = [] /\
    a_scalar G R (f_value G R y) = rsgn R (n_dual (foddpos G R x)) (norm_sum_l G R x).
Proof. exact norm_left_signed. Qed.

Theorem C10_norm_signed_rev :
  forall (G : Symmetry), GroupLaws G -> forall (R : Ring), NegLaws R -> SumLaws R ->
  rconj R (r0 R) = r0 R -> (forall a, rconj R (rneg R a) = rneg R (rconj R a)) ->
  forall (x : farray G R) (pd : bool),
  wf_array G R (fbase G R x) = true -> tables_nodup G R (fbase G R x) = true ->
  labels_ok (foddpos G R x) -> Nat.odd (length (foddpos G R x)) = fparity G R x -> dual_cond G R x pd ->
  exists y, f_tensordot G R x (f_conj G R x true pd) (full_axes (ndim G R (fbase G R x))) MBlockwise = Some y /\
    foddpos G R y = [] /\
    a_scalar G R (f_value G R y) = rsgn R (n_dual (foddpos G R x)) (norm_sum_r G R x).
Proof. exact norm_right_signed_inv. Qed.

(* without the invariant the sign of the second order is parity xor #non-conjugated labels *)
Theorem C10_norm_signed_rev_noinv :
  forall (G : Symmetry), GroupLaws G -> forall (R : Ring), NegLaws R -> SumLaws R ->
  rconj R (r0 R) = r0 R -> (forall a, rconj R (rneg R a) = rneg R (rconj R a)) ->
  forall (x : farray G R) (pd : bool),
  let n := ndim G R (fbase G R x) in
  wf_array G R (fbase G R x) = true -> tables_nodup G R (fbase G R x) = true ->
  labels_ok (foddpos G R x) -> dual_cond G R x pd ->
  exists y, f_tensordot G R x (f_conj G R x true pd) (full_axes n) MBlockwise = Some y /\
    foddpos G R y = [] /\
    a_scalar G R (f_value G R y)
    = rsgn R (xorb (fparity G R x) (n_nondual (foddpos G R x))) (norm_sum_r G R x).
Proof. exact norm_right_signed. Qed.

(* ---- the two sums are the squared norm of the value (C08's reduction) ---- *)
Theorem C10_norm_sum_r_is_norm2 :
  forall (G : Symmetry), GroupLaws G -> forall (R : Ring), SumLaws R ->
  forall (x : farray G R),
  wf_array G R (fbase G R x) = true -> tables_nodup G R (fbase G R x) = true ->
  norm_sum_r G R x = a_norm2 G R (f_value G R x).
Proof. exact norm_sum_r_norm2. Qed.

Theorem C10_norm_sum_l_is_norm2 :
  forall (G : Symmetry), GroupLaws G -> forall (R : Ring), SumLaws R ->
  (forall a b, rmul R a b = rmul R b a) ->
  forall (x : farray G R),
  wf_array G R (fbase G R x) = true -> tables_nodup G R (fbase G R x) = true ->
  norm_sum_l G R x = a_norm2 G R (f_value G R x).
Proof. exact norm_sum_l_norm2. Qed.

Theorem C10_ZRing_mul_comm : forall a b : RT ZRing, rmul ZRing a b = rmul ZRing b a.
Proof. exact ZRing_mul_comm. Qed.

Theorem C10_GRing_mul_comm : forall a b : RT GRing, rmul GRing a b = rmul GRing b a.
Proof. exact GRing_mul_comm. Qed.

Print Assumptions C10_resolve_conj_left.
Print Assumptions C10_resolve_conj_right.
Print Assumptions C10_norm_all_ket.
Print Assumptions C10_norm_dual_option.
Print Assumptions C10_norm_all_ket_rev.
Print Assumptions C10_norm_dual_option_rev.
Print Assumptions C10_norm_signed.
Print Assumptions C10_norm_signed_rev.
Print Assumptions C10_norm_signed_rev_noinv.
Print Assumptions C10_norm_sum_r_is_norm2.
Print Assumptions C10_norm_sum_l_is_norm2.
Print Assumptions C10_ZRing_mul_comm.
Print Assumptions C10_GRing_mul_comm.
