(* Props/C01.v — property C01: every result is a valid symmetric array (charge
   conservation is closed).  Statements only; proofs live in Proofs/WfProofs.v.

   `wf_array` (Model/Wf.v) is the executable validity predicate that the Python
   harness evaluates on every array the implementation returns: every index
   table strictly sorted with valid charges and positive sizes, a fused index
   carries sub-index bookkeeping that partitions it exactly (recursively), the
   total charge is valid, stored sectors are distinct, each stored sector has one
   charge per index drawn from that index's table, its signed charges combine
   to the total charge, each block's shape is the sizes its indices assign to
   the sector's charges and its data has that many entries.
   `wf_fermi` (Proofs/WfProofs.v) adds the fermionic part: the base array is
   valid, the pending-sign table is duplicate-free and names only
   charge-conserving sectors over the tables (a listed sector carries the value
   -1, an unlisted one +1), and the number of odd-position labels has the
   parity of the total charge.

   Every theorem is for EVERY symmetry `G` with `GroupLaws G` (plus
   `OrderLaws G`, strict total order of the charge labels, where a table is
   filtered), every rank, every table, every sparsity pattern and every
   coefficient ring `R` (no ring law is needed).

   What is proved: `op_wf` for transpose, conj, dagger, scale, neg, add, sub,
   mul, multiply_diagonal, sync_charges / prune_indices, blockwise contraction
   (= tensordot in blockwise mode and matmul), drop_misaligned_sectors,
   expand_dims, squeeze, fuse of ONE group of >= 2 axes (on top of C05), the
   fermionic phase operations, fermionic transpose / conj / dagger; closure
   under ARBITRARY finite programs over exactly these instructions
   (`C01_programs_wf_partial`); and that the invariant implies the predicate
   the correspondence run audits, `Model.Valid.valid_array` / `valid_farray`
   (`C01_wf_valid_array`, `C01_wf_valid_farray`, `C01_programs_valid_partial`).
   What is missing (see `C01_full`): fuse of several groups / with empty
   groups, unfuse, contraction in fused mode, einsum, trace, the fermionic
   fuse / unfuse / tensordot, and the decompositions (qr / svd / eigh / solve /
   svd_truncated). *)
From SV Require Import Base.Prelude Base.Sym Base.Tensor Model.Sectors Model.Array Model.Arith
  Model.Fermi Model.Wf Model.Valid Model.SymInst Proofs.OrderProofs Proofs.TdotInst Proofs.WfProofs.
From Coq Require Import Permutation.
Local Open Scope nat_scope.

(* ---- structural ---- *)
Theorem C01_transpose_wf :
  forall G : Symmetry, GroupLaws G ->
  forall (R : Ring) (x : aarray G R) (axes : list nat),
  wf_array G R x = true -> Permutation axes (seq 0 (ndim G R x)) ->
  wf_array G R (a_transpose G R x axes) = true.
Proof. exact transpose_wf. Qed.

Theorem C01_conj_wf :
  forall G : Symmetry, GroupLaws G ->
  forall (R : Ring) (x : aarray G R), wf_array G R x = true -> wf_array G R (a_conj G R x) = true.
Proof. exact conj_wf. Qed.

Theorem C01_dagger_wf :
  forall G : Symmetry, GroupLaws G ->
  forall (R : Ring) (x : aarray G R), wf_array G R x = true -> wf_array G R (a_dagger G R x) = true.
Proof. exact dagger_wf. Qed.

(* conjugating an index (incl. a fused one: the fused direction and the sub
   directions flip together) keeps it valid *)
Theorem C01_index_conj_wf :
  forall (G : Symmetry) (ix : index G), wf_index G ix = true -> wf_index G (iconj G ix) = true.
Proof. exact wf_index_iconj. Qed.

(* ---- arithmetic ---- *)
Theorem C01_scale_wf :
  forall G : Symmetry, GroupLaws G ->
  forall (R : Ring) (x : aarray G R) (c : RT R),
  wf_array G R x = true -> wf_array G R (a_scale G R x c) = true.
Proof. exact scale_wf. Qed.

Theorem C01_neg_wf :
  forall G : Symmetry, GroupLaws G ->
  forall (R : Ring) (x : aarray G R), wf_array G R x = true -> wf_array G R (a_neg G R x) = true.
Proof. exact neg_wf. Qed.

Theorem C01_add_wf :
  forall G : Symmetry, GroupLaws G ->
  forall (R : Ring) (x y : aarray G R),
  wf_array G R x = true -> wf_array G R y = true ->
  indices G R x = indices G R y -> charge G R x = charge G R y ->
  wf_array G R (a_add G R x y) = true.
Proof. exact add_wf. Qed.

Theorem C01_sub_wf :
  forall G : Symmetry, GroupLaws G ->
  forall (R : Ring) (x y z : aarray G R),
  wf_array G R x = true -> a_sub G R x y = Some z -> wf_array G R z = true.
Proof. exact sub_wf. Qed.

Theorem C01_mul_wf :
  forall G : Symmetry, GroupLaws G ->
  forall (R : Ring) (x y : aarray G R), wf_array G R x = true -> wf_array G R (a_mul G R x y) = true.
Proof. exact mul_wf. Qed.

Theorem C01_multiply_diagonal_wf :
  forall G : Symmetry, GroupLaws G ->
  forall (R : Ring) (x : aarray G R) (v : bvec G R) (axis : nat),
  wf_array G R x = true -> wf_array G R (a_multiply_diagonal G R x v axis) = true.
Proof. exact multiply_diagonal_wf. Qed.

(* ---- dropping unused charges from the tables ---- *)
Theorem C01_index_drop_charges_wf :
  forall G : Symmetry, GroupLaws G -> OrderLaws G ->
  forall (ix : index G) (cs : list (C G)),
  wf_index G ix = true -> wf_index G (drop_charges G ix cs) = true.
Proof. exact wf_index_drop. Qed.

Theorem C01_sync_charges_wf :
  forall G : Symmetry, GroupLaws G -> forall R : Ring, OrderLaws G ->
  forall x : aarray G R, wf_array G R x = true -> wf_array G R (a_sync_charges G R x) = true.
Proof. exact sync_charges_wf. Qed.

(* ---- contraction, blockwise strategy ---- *)
Theorem C01_tdot_blockwise_wf :
  forall G : Symmetry, GroupLaws G -> forall R : Ring, OrderLaws G ->
  forall (a b : aarray G R) (aa ab : list nat),
  wf_array G R a = true -> wf_array G R b = true ->
  NoDup aa -> (forall i : nat, In i aa -> i < ndim G R a) ->
  NoDup ab -> (forall i : nat, In i ab -> i < ndim G R b) ->
  length aa = length ab ->
  (forall k : nat, k < length aa ->
     idual G (nth (nth k aa 0) (indices G R a) (dflt_index G)) =
     negb (idual G (nth (nth k ab 0) (indices G R b) (dflt_index G)))) ->
  wf_array G R (tdot_blockwise G R a b (rest_axes (ndim G R a) aa) aa ab (rest_axes (ndim G R b) ab)) = true.
Proof. exact tdot_blockwise_wf. Qed.

Theorem C01_drop_misaligned_wf :
  forall G : Symmetry, GroupLaws G -> forall R : Ring, OrderLaws G ->
  forall (a b : aarray G R) (aa ab : list nat),
  wf_array G R a = true -> wf_array G R b = true ->
  wf_array G R (fst (drop_misaligned G R a b aa ab)) = true /\
  wf_array G R (snd (drop_misaligned G R a b aa ab)) = true.
Proof. exact drop_misaligned_wf. Qed.

(* ---- expand_dims / squeeze ---- *)
Theorem C01_expand_dims_wf :
  forall G : Symmetry, GroupLaws G ->
  forall (R : Ring) (x : aarray G R) (axis : nat),
  wf_array G R x = true -> wf_array G R (a_expand_dims G R x axis) = true.
Proof. exact expand_dims_wf. Qed.

Theorem C01_squeeze_wf :
  forall G : Symmetry, GroupLaws G ->
  forall (R : Ring) (x y : aarray G R) (axes : option (list nat)),
  wf_array G R x = true -> a_squeeze G R x axes = Some y -> wf_array G R y = true.
Proof. exact squeeze_wf. Qed.

(* ---- fusing one group of axes (fuse_core = what `fuse` does after argument
   handling; the fused index, the extents and the re-keyed blocks are valid) ---- *)
Theorem C01_fuse_single_group_wf :
  forall G : Symmetry, GroupLaws G -> forall R : Ring, OrderLaws G ->
  forall (x : aarray G R) (g : list nat),
  wf_array G R x = true -> NoDup g -> Forall (fun ax => ax < ndim G R x) g -> 2 <= length g ->
  wf_array G R (fuse_core G R x [g]) = true.
Proof. exact fuse_single_group_wf. Qed.

Theorem C01_fuse_one_group_wf :
  forall G : Symmetry, GroupLaws G -> forall R : Ring, OrderLaws G ->
  forall (x : aarray G R) (g : list nat),
  wf_array G R x = true -> NoDup g -> Forall (fun ax => ax < ndim G R x) g -> 2 <= length g ->
  wf_array G R (a_fuse G R x [g]) = true.
Proof. exact fuse_one_group_wf. Qed.

(* ---- the fermionic invariant ---- *)
Theorem C01_f_phase_flip_wf :
  forall G : Symmetry, GroupLaws G ->
  forall (R : Ring) (x : farray G R) (axs : list nat),
  wf_fermi G R x = true -> wf_fermi G R (f_phase_flip G R x axs) = true.
Proof. exact f_phase_flip_wf. Qed.

Theorem C01_f_phase_transpose_wf :
  forall G : Symmetry, GroupLaws G ->
  forall (R : Ring) (x : farray G R) (perm : option (list nat)),
  wf_fermi G R x = true -> wf_fermi G R (f_phase_transpose G R x perm) = true.
Proof. exact f_phase_transpose_wf. Qed.

Theorem C01_f_phase_global_wf :
  forall G : Symmetry, GroupLaws G ->
  forall (R : Ring) (x : farray G R),
  wf_fermi G R x = true -> wf_fermi G R (f_phase_global G R x) = true.
Proof. exact f_phase_global_wf. Qed.

Theorem C01_f_phase_sector_wf :
  forall G : Symmetry, GroupLaws G ->
  forall (R : Ring) (x : farray G R) (s : list (C G)),
  wf_fermi G R x = true ->
  sector_ok G (indices G R (fbase G R x)) (charge G R (fbase G R x)) s = true ->
  wf_fermi G R (f_phase_sector G R x s) = true.
Proof. exact f_phase_sector_wf. Qed.

Theorem C01_f_phase_sync_wf :
  forall G : Symmetry, GroupLaws G ->
  forall (R : Ring) (x : farray G R), wf_fermi G R x = true -> wf_fermi G R (f_phase_sync G R x) = true.
Proof. exact f_phase_sync_wf. Qed.

Theorem C01_f_transpose_wf :
  forall G : Symmetry, GroupLaws G ->
  forall (R : Ring) (x : farray G R) (axes : list nat) (phase : bool),
  wf_fermi G R x = true -> Permutation axes (seq 0 (ndim G R (fbase G R x))) ->
  wf_fermi G R (f_transpose G R x axes phase) = true.
Proof. exact f_transpose_wf. Qed.

Theorem C01_f_conj_wf :
  forall G : Symmetry, GroupLaws G ->
  forall (R : Ring) (x : farray G R) (pp pd : bool),
  wf_fermi G R x = true -> wf_fermi G R (f_conj G R x pp pd) = true.
Proof. exact f_conj_wf. Qed.

Theorem C01_f_dagger_wf :
  forall G : Symmetry, GroupLaws G ->
  forall (R : Ring) (x : farray G R) (pd : bool),
  wf_fermi G R x = true -> wf_fermi G R (f_dagger G R x pd) = true.
Proof. exact f_dagger_wf. Qed.

(* ---- programs ----
   `instr G R` (Proofs/WfProofs.v) has one constructor per proved operation;
   `run prog (ra, rf)` executes a program over an abelian and a fermionic
   register file, appending each result; `None` = some operation raises (its
   executable side condition fails: axes not a permutation, operands of `+` on
   different indices / charge, contracted legs not opposite, `a_sub`/`a_squeeze`
   returning None, register out of range).  For every finite program: all
   registers valid before => all registers valid after. *)
Theorem C01_programs_wf_partial :
  forall G : Symmetry, GroupLaws G -> forall R : Ring, OrderLaws G ->
  forall (prog : list (instr G R)) (st st' : regfile G R),
  wf_regs G R st -> run G R prog st = Some st' -> wf_regs G R st'.
Proof. exact programs_wf. Qed.

(* the five built-in symmetries (generated definitions), any ring *)
Theorem C01_programs_wf_builtin_partial :
  forall (G : Symmetry) (R : Ring) (prog : list (instr G R)) (st st' : regfile G R),
  builtin_sym G -> wf_regs G R st -> run G R prog st = Some st' -> wf_regs G R st'.
Proof. exact programs_wf_builtin. Qed.

(* ---- the invariant implies the audited predicate (Model/Valid.v) ---- *)
Theorem C01_wf_valid_array :
  forall G : Symmetry, GroupLaws G -> forall R : Ring, OrderLaws G ->
  forall x : aarray G R, wf_array G R x = true -> valid_array G R x = true.
Proof. exact wf_valid_array. Qed.

Theorem C01_wf_valid_farray :
  forall G : Symmetry, GroupLaws G -> forall R : Ring, OrderLaws G ->
  forall x : farray G R, wf_fermi G R x = true -> valid_farray G R x (fphases G R x) = true.
Proof. exact wf_valid_farray. Qed.

Theorem C01_programs_valid_partial :
  forall G : Symmetry, GroupLaws G -> forall R : Ring, OrderLaws G ->
  forall (prog : list (instr G R)) (st st' : regfile G R),
  wf_regs G R st -> run G R prog st = Some st' -> valid_regs G R st'.
Proof. exact programs_valid. Qed.

Theorem C01_programs_valid_builtin_partial :
  forall (G : Symmetry) (R : Ring) (prog : list (instr G R)) (st st' : regfile G R),
  builtin_sym G -> wf_regs G R st -> run G R prog st = Some st' -> valid_regs G R st'.
Proof. exact programs_valid_builtin. Qed.

(* ---- the full statement: what is still missing ----
   `C01_full` = the `op_wf` statements of the model operations that are NOT yet
   instructions of `instr` (once proved they extend `instr`/`run` and the
   induction of `programs_wf` goes through unchanged).  Not proved here.  The
   decompositions (qr, svd, eigh, solve, svd_truncated) are not listed because
   Model/ has no definition of them yet. *)
Definition fuse_groups_ok (n : nat) (groups : list (list nat)) : Prop :=
  NoDup (concat groups) /\ forall i, In i (concat groups) -> i < n.

Definition C01_full : Prop :=
  forall G : Symmetry, GroupLaws G -> OrderLaws G -> forall R : Ring,
  (* fuse, any number of groups, empty groups expanded (one group of >= 2 axes: proved above) *)
  (forall (x : aarray G R) groups, wf_array G R x = true -> fuse_groups_ok (ndim G R x) groups ->
     wf_array G R (a_fuse G R x groups) = true) /\
  (* unfuse one axis / all axes *)
  (forall (x y : aarray G R) axis, wf_array G R x = true -> a_unfuse G R x axis = Some y ->
     wf_array G R y = true) /\
  (forall x : aarray G R, wf_array G R x = true -> wf_array G R (a_unfuse_all G R x) = true) /\
  (* tensordot front end in every mode, matmul, einsum *)
  (forall (a b c : aarray G R) axes mode aa ab, wf_array G R a = true -> wf_array G R b = true ->
     parse_axes (ndim G R a) (ndim G R b) axes = Some (aa, ab) -> contract_ok G R a b aa ab = true ->
     a_tensordot G R a b axes mode = Some c -> wf_array G R c = true) /\
  (forall (x y : aarray G R) lhs rhs, wf_array G R x = true -> a_einsum G R x lhs rhs = Some y ->
     wf_array G R y = true) /\
  (* fermionic fuse / unfuse / contraction *)
  (forall (x : farray G R) groups, wf_fermi G R x = true ->
     fuse_groups_ok (ndim G R (fbase G R x)) groups -> wf_fermi G R (f_fuse G R x groups) = true) /\
  (forall (x y : farray G R) axis, wf_fermi G R x = true -> f_unfuse G R x axis = Some y ->
     wf_fermi G R y = true) /\
  (forall (a b c : farray G R) axes mode, wf_fermi G R a = true -> wf_fermi G R b = true ->
     f_tensordot G R a b axes mode = Some c -> wf_fermi G R c = true).

(* NOTE (later round): `C01_full` above is superseded: three of its clauses lack side conditions and are
   refuted on concrete arrays in Props/C01b.v (einsum / f_tensordot need opposite directions on the paired
   legs, f_fuse needs non-empty groups); the corrected statement `C01_full2` is PROVED there
   (`C01_full2_proved`): unfuse, einsum, matmul, fuse with any groups, contraction in every mode, and the
   fermionic versions preserve validity, and so does every finite program over the extended instruction set. *)

Print Assumptions C01_transpose_wf.
Print Assumptions C01_conj_wf.
Print Assumptions C01_dagger_wf.
Print Assumptions C01_index_conj_wf.
Print Assumptions C01_scale_wf.
Print Assumptions C01_neg_wf.
Print Assumptions C01_add_wf.
Print Assumptions C01_sub_wf.
Print Assumptions C01_mul_wf.
Print Assumptions C01_multiply_diagonal_wf.
Print Assumptions C01_index_drop_charges_wf.
Print Assumptions C01_sync_charges_wf.
Print Assumptions C01_tdot_blockwise_wf.
Print Assumptions C01_drop_misaligned_wf.
Print Assumptions C01_expand_dims_wf.
Print Assumptions C01_squeeze_wf.
Print Assumptions C01_fuse_single_group_wf.
Print Assumptions C01_fuse_one_group_wf.
Print Assumptions C01_wf_valid_array.
Print Assumptions C01_wf_valid_farray.
Print Assumptions C01_programs_valid_partial.
Print Assumptions C01_programs_valid_builtin_partial.
Print Assumptions C01_f_phase_flip_wf.
Print Assumptions C01_f_phase_transpose_wf.
Print Assumptions C01_f_phase_global_wf.
Print Assumptions C01_f_phase_sector_wf.
Print Assumptions C01_f_phase_sync_wf.
Print Assumptions C01_f_transpose_wf.
Print Assumptions C01_f_conj_wf.
Print Assumptions C01_f_dagger_wf.
Print Assumptions C01_programs_wf_partial.
Print Assumptions C01_programs_wf_builtin_partial.
