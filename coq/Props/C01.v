(* Props/C01.v — under construction *)
From SV Require Import Base.Prelude.
