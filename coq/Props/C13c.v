(* Props/C13c.v — property C13, continuation: the TRANSLATOR tie of the selection logic.
   ONLY restatements of lemmas of Proofs/TruncGenProofs.v.

   Gen/TruncGen.v is generated on every run by tr/gen_trunc.py from the CURRENT source of
   symmray/linalg.py: `argsort`, `calc_sub_max_bonds` and the selection region of `svd_truncated`
   (from after `U, s, VH = svd(x)` to where the per-sector counts are known: the sort of all values,
   the six cutoff_mode branches incl. the guard `n_chi_all == 0`, the max_bond intersection, the counts
   `count_nonzero(ss >= abs_cutoff)`, and the no-cutoff branch through calc_sub_max_bonds).
   The theorems below say that these generated functions ARE the hand model Model/Trunc.v the other C13
   theorems are stated over — for every cutoff_mode (valid or not), every list of per-sector values,
   every cutoff p/q (q > 0), every max_bond — and restate the main C13 theorems for the generated function.

   Values: the generated code computes over exact rationals (Q; xq = Q + float("inf")).  A sector list of
   the hand model enters as `qblocks secs` (each integer value through inject_Z), the cutoff as
   `p # Z.to_pos q`; the generated counts are Z (Python ints), the hand model's are nat.
   Float rounding is not modelled (same convention as C13: the run-time tie of harness/c13.py uses dyadic
   values on which every float operation of the selection is exact; `int(frac * sz)` in
   calc_sub_max_bonds is truncation of the EXACT product — where Python's float floor differs, the
   implementation is compared through C13_distribute_contract).

   Hypotheses, exactly: `0 < q`; with a cutoff (`0 < p`) and at least one stored block, at least one
   singular value (`all_values secs <> []`: otherwise `sall[-1]` / `cum_spow[-1]` raise IndexError in modes
   2, 4, 6 where the hand model returns counts); for calc_sub_max_bonds the sizes are non-negative
   (`int()` truncates toward zero, the hand model floors).  No sortedness or sign hypothesis is needed for
   the equalities.  Satisfiable on a non-trivial instance: TruncGenProofs.ex_gen_select. *)
From Coq Require Import QArith.
From SV Require Import Base.Prelude Model.Trunc Gen.TruncGen Proofs.TruncProofs Proofs.TruncGenProofs.
Local Open Scope Z_scope.

(* argsort(seq) = sorted(range(len(seq)), key=seq.__getitem__): never raises, stable *)
Theorem C13c_gen_argsort :
  forall l, gen_argsort l = Some (map Z.of_nat (argsort l)).
Proof. exact gen_argsort_eq. Qed.

(* calc_sub_max_bonds: same result, and it raises (None: ZeroDivisionError) exactly when the model says so *)
Theorem C13c_gen_calc_sub_max_bonds :
  forall sizes mb, nonneg_sizes sizes -> gen_calc_sub_max_bonds sizes mb = calc_sub_max_bonds sizes mb.
Proof. exact gen_calc_sub_max_bonds_eq. Qed.

(* the selection region: per-sector counts, for all six modes, an unknown mode (KeyError), any values, cutoff, bond limit *)
Theorem C13c_gen_select :
  forall mz p q mb secs,
    0 < q -> (0 < p -> secs <> [] -> all_values secs <> []) ->
    gen_svd_truncated_select (qblocks secs) (p # Z.to_pos q) mz mb 0
    = option_map (map Z.of_nat) (sel_model mz p q mb secs).
Proof. exact gen_select_eq. Qed.

(* `if renorm: raise NotImplementedError` *)
Theorem C13c_gen_select_renorm :
  forall blocks cutoff mz mb renorm, renorm <> 0 ->
    gen_svd_truncated_select blocks cutoff mz mb renorm = None.
Proof. exact gen_select_renorm. Qed.

(* the bond table the correspondence of harness/c13.py compares (Trunc.trunc) is built from the generated counts *)
Theorem C13c_gen_select_is_trunc :
  forall mz p q mb secs,
    0 < q -> (0 < p -> secs <> [] -> all_values secs <> []) ->
    option_map (fun counts => new_chargemap secs (map Z.to_nat counts))
               (gen_svd_truncated_select (qblocks secs) (p # Z.to_pos q) mz mb 0)
    = trunc mz p q mb secs.
Proof. exact gen_select_is_trunc. Qed.

(* ---- the main C13 theorems, restated for the generated function *)
Theorem C13c_gen_kept_ge_discarded :
  forall mz p q mb secs counts,
    0 < q -> 0 < p -> all_values secs <> [] -> sectors_desc secs ->
    gen_svd_truncated_select (qblocks secs) (p # Z.to_pos q) mz mb 0 = Some counts ->
    forall k d, In k (concat (kept_of secs (map Z.to_nat counts))) ->
                In d (concat (disc_of secs (map Z.to_nat counts))) -> d < k.
Proof. exact gen_kept_ge_discarded. Qed.

Theorem C13c_gen_cutoff_monotone :
  forall mz p p' q mb secs counts counts',
    0 < q -> 0 < p -> p <= p' -> sectors_nonneg secs -> all_values secs <> [] ->
    gen_svd_truncated_select (qblocks secs) (p # Z.to_pos q) mz mb 0 = Some counts ->
    gen_svd_truncated_select (qblocks secs) (p' # Z.to_pos q) mz mb 0 = Some counts' ->
    Forall2 Z.le counts' counts.
Proof. exact gen_cutoff_monotone. Qed.

Theorem C13c_gen_bond_limit :
  forall mz p q mb secs counts,
    0 < q -> 0 < p -> 0 < mb -> all_values secs <> [] ->
    gen_svd_truncated_select (qblocks secs) (p # Z.to_pos q) mz mb 0 = Some counts ->
    let sall := sort_asc (all_values secs) in
    let kept := total_kept (map Z.to_nat counts) in
    (Z.of_nat (length sall) <= mb -> Z.of_nat kept <= mb) /\
    (mb < Z.of_nat (length sall) ->
       let v := bond_value mb sall in
       (kept <= count_true (fun s => (v <=? s)%Z) sall)%nat /\
       (count_true (fun s => (v <? s)%Z) sall < Z.to_nat mb <= count_true (fun s => (v <=? s)%Z) sall)%nat /\
       (no_tie_at_bond mb sall -> Z.of_nat kept <= mb)).
Proof. exact gen_bond_limit. Qed.

Theorem C13c_gen_no_cutoff_total :
  forall sizes mb res,
    positive_sizes sizes ->
    gen_calc_sub_max_bonds sizes mb = Some res ->
    length res = length sizes /\
    (mb < 0 -> res = sizes) /\
    (0 <= mb -> zsum res = Z.min mb (zsum sizes)) /\
    (forall j, (j < length sizes)%nat -> 0 <= nth j res 0 <= nth j sizes 0) /\
    (0 <= mb < zsum sizes -> forall j, (j < length sizes)%nat ->
        mb * nth j sizes 0 / zsum sizes <= nth j res 0 <= mb * nth j sizes 0 / zsum sizes + 1).
Proof. exact gen_no_cutoff_total. Qed.

Print Assumptions C13c_gen_argsort.
Print Assumptions C13c_gen_calc_sub_max_bonds.
Print Assumptions C13c_gen_select.
Print Assumptions C13c_gen_select_renorm.
Print Assumptions C13c_gen_select_is_trunc.
Print Assumptions C13c_gen_kept_ge_discarded.
Print Assumptions C13c_gen_cutoff_monotone.
Print Assumptions C13c_gen_bond_limit.
Print Assumptions C13c_gen_no_cutoff_total.
