(* Props/C11c.v — translator tie of the STRUCTURAL code of the decompositions (C11).

   Gen/LinalgGen.v is REGENERATED on every run by tr/gen_linalg.py from the current source of
   symmray/linalg.py: `qr`, `svd`, `eigh`, `solve` (compiled once for an AbelianArray receiver, `<f>_gen`,
   and once for a FermionicArray receiver, `<f>_fgen` = what `<f>.dispatch(AbelianArray)(x)` runs) and the
   wrappers `qr_fermionic`, `svd_fermionic`, `eigh_fermionic`, `solve_fermionic` (`<f>_fermionic_gen`).
   Which key each factor block / value vector is stored under, which shape entry sizes the bond, the
   directions of the bond on the two factors, the charges of the factors, the solve charge formula, the
   order sync -> decompose -> flip, what is flipped under which condition and the eigenvalue sign loop all
   come from the source text; the dense per-block routines are the same Section oracles as in
   Model/Linalg.v (nothing is assumed about them here).

   Part 1: each generated abelian function EQUALS the hand model (Leibniz equality of the returned option
   of records / block vectors, dict order included) for EVERY input and EVERY oracle — no hypothesis.
   Part 2: the generated code run at a FermionicArray is the model's abelian function on the base array,
   re-wrapped as the model says (left factor keeps sign table and labels, right factor fresh).
   Part 3: each generated fermionic wrapper EQUALS the hand model (f_qr, f_svd, f_eigh, f_solve) for every
   array that satisfies the dict invariant (no key twice in the pending-sign table / the block dict) and
   whose stored charges have parity 0 / 1: the hypotheses under which the generated sign-table methods
   (Gen/PhasesGen.v, C09d) are the model's.  C11c_wf_gives_* : a well-formed array satisfies them.
   Part 4: C11_qr_structure, C11_qr_reconstruct, C11_svd_structure, C11_fermionic_reconstruct restated
   through the generated functions. *)
From SV Require Import Base.Prelude Base.PyList Base.Sym Base.Tensor Gen.PhasePerm Gen.OpOrder Gen.PhasesGen Gen.LinalgGen
  Model.Sectors Model.Array Model.Arith Model.Wf Model.Fermi Model.Linalg Proofs.PhasesGenProofs Proofs.Tdot Proofs.LinalgProofs
  Proofs.LinalgGenProofs.
From Coq Require Import Permutation.
Local Open Scope nat_scope.

(* ---- 1. generated abelian function = hand model, every input ---- *)
Theorem C11c_qr_gen_is_model :
  forall (G : Symmetry) (R : Ring) (qr_blk : tensor R -> tensor R * tensor R) (x : aarray G R),
  qr_gen G R qr_blk x = a_qr G R qr_blk x.
Proof. exact qr_gen_eq. Qed.

Theorem C11c_svd_gen_is_model :
  forall (G : Symmetry) (R : Ring) (svd_blk : tensor R -> tensor R * tensor R * tensor R) (x : aarray G R),
  svd_gen G R svd_blk x = a_svd G R svd_blk x.
Proof. exact svd_gen_eq. Qed.

Theorem C11c_eigh_gen_is_model :
  forall (G : Symmetry) (R : Ring) (eigh_blk : tensor R -> tensor R * tensor R) (a : aarray G R),
  eigh_gen G R eigh_blk a = a_eigh G R eigh_blk a.
Proof. exact eigh_gen_eq. Qed.

Theorem C11c_solve_gen_is_model :
  forall (G : Symmetry) (R : Ring) (solve_blk : tensor R -> tensor R -> tensor R) (a b : aarray G R),
  solve_gen G R solve_blk a b = a_solve G R solve_blk a b.
Proof. exact solve_gen_eq. Qed.

(* ---- 2. the same source run at a FermionicArray receiver ---- *)
Theorem C11c_qr_fgen_is_model :
  forall (G : Symmetry) (R : Ring) (qr_blk : tensor R -> tensor R * tensor R) (x : farray G R),
  qr_fgen G R qr_blk x = lift_split G R x (a_qr G R qr_blk (fbase G R x)).
Proof. exact qr_fgen_eq. Qed.

Theorem C11c_svd_fgen_is_model :
  forall (G : Symmetry) (R : Ring) (svd_blk : tensor R -> tensor R * tensor R * tensor R) (x : farray G R),
  svd_fgen G R svd_blk x = lift_svd G R x (a_svd G R svd_blk (fbase G R x)).
Proof. exact svd_fgen_eq. Qed.

Theorem C11c_eigh_fgen_is_model :
  forall (G : Symmetry) (R : Ring) (eigh_blk : tensor R -> tensor R * tensor R) (a : farray G R),
  eigh_fgen G R eigh_blk a = lift_eigh G R a (a_eigh G R eigh_blk (fbase G R a)).
Proof. exact eigh_fgen_eq. Qed.

Theorem C11c_solve_fgen_is_model :
  forall (G : Symmetry) (R : Ring) (solve_blk : tensor R -> tensor R -> tensor R) (a b : farray G R),
  solve_fgen G R solve_blk a b = lift_solve G R b (a_solve G R solve_blk (fbase G R a) (fbase G R b)).
Proof. exact solve_fgen_eq. Qed.

(* ---- 3. generated fermionic wrapper = hand model ---- *)
Theorem C11c_qr_fermionic_gen_is_model :
  forall (G : Symmetry) (R : Ring), (forall a b : C G, ceqb G a b = true <-> a = b) -> parity_ok G ->
  forall (qr_blk : tensor R -> tensor R * tensor R) (x : farray G R),
  bits_ok G (fsectors G R x) ->
  qr_fermionic_gen G R qr_blk x = f_qr G R qr_blk x.
Proof. exact qr_fermionic_gen_eq. Qed.

Theorem C11c_svd_fermionic_gen_is_model :
  forall (G : Symmetry) (R : Ring), (forall a b : C G, ceqb G a b = true <-> a = b) -> parity_ok G ->
  forall (svd_blk : tensor R -> tensor R * tensor R * tensor R) (x : farray G R),
  bits_ok G (fsectors G R x) ->
  svd_fermionic_gen G R svd_blk x = f_svd G R svd_blk x.
Proof. exact svd_fermionic_gen_eq. Qed.

Theorem C11c_eigh_fermionic_gen_is_model :
  forall (G : Symmetry) (R : Ring), (forall a b : C G, ceqb G a b = true <-> a = b) ->
  forall (eigh_blk : tensor R -> tensor R * tensor R) (a : farray G R),
  NoDup (fphases G R a) -> NoDup (fsectors G R a) ->
  eigh_fermionic_gen G R eigh_blk a = f_eigh G R eigh_blk a.
Proof. exact eigh_fermionic_gen_eq. Qed.

Theorem C11c_solve_fermionic_gen_is_model :
  forall (G : Symmetry) (R : Ring), (forall a b : C G, ceqb G a b = true <-> a = b) -> parity_ok G ->
  forall (solve_blk : tensor R -> tensor R -> tensor R) (a b : farray G R),
  NoDup (fphases G R a) -> NoDup (fsectors G R a) -> NoDup (fphases G R b) -> NoDup (fsectors G R b) ->
  bits_ok G (fsectors G R a) ->
  solve_fermionic_gen G R solve_blk a b = f_solve G R solve_blk a b.
Proof. exact solve_fermionic_gen_eq. Qed.

(* a well-formed array satisfies the dict / parity hypotheses (ceqb_spec = GroupLaws.ceqb_eq,
   parity_ok = C09_gen_parity_ok_of_laws) *)
Theorem C11c_wf_gives_nodup :
  forall (G : Symmetry), GroupLaws G -> forall (R : Ring) (x : aarray G R),
  wf_array G R x = true -> NoDup (sectors G R x).
Proof. exact wf_sectors_nodup. Qed.

Theorem C11c_wf_gives_bits :
  forall (G : Symmetry), GroupLaws G -> forall (R : Ring) (x : aarray G R),
  wf_array G R x = true -> bits_ok G (sectors G R x).
Proof. exact wf_sectors_bits. Qed.

(* ---- 4. C11 theorems through the generated functions ---- *)
Theorem C11c_qr_structure :
  forall (G : Symmetry) (HG : GroupLaws G) (R : Ring)
    (cltb_trans : forall a b c : C G, cltb G a b = true -> cltb G b c = true -> cltb G a c = true)
    (cltb_total : forall a b : C G, a <> b -> cltb G a b = true \/ cltb G b a = true)
    (qr_blk : tensor R -> tensor R * tensor R) (qr_shapes : split_shapes R qr_blk) (x : aarray G R),
    wf_array G R x = true -> ndim G R x = 2 ->
    exists q r, qr_gen G R qr_blk x = Some (q, r) /\ split_spec G R qr_blk x q r.
Proof. exact qr_gen_structure. Qed.

Theorem C11c_qr_reconstruct :
  forall (G : Symmetry) (HG : GroupLaws G) (R : Ring) (RL : SumLaws R)
    (cltb_irrefl : forall c : C G, cltb G c c = false)
    (cltb_trans : forall a b c : C G, cltb G a b = true -> cltb G b c = true -> cltb G a c = true)
    (cltb_total : forall a b : C G, a <> b -> cltb G a b = true \/ cltb G b a = true)
    (qr_blk : tensor R -> tensor R * tensor R) (qr_shapes : split_shapes R qr_blk) (x q r : aarray G R),
    wf_array G R x = true -> ndim G R x = 2 ->
    (forall s m, In (s, m) (blocks G R x) -> split_product R qr_blk m) ->
    qr_gen G R qr_blk x = Some (q, r) ->
    forall l rr, coords_ok G [ix0 G R x] [l] = true -> coords_ok G [ix1 G R x] [rr] = true ->
    exists res, a_matmul G R q r = Some res /\ sem G R res [l; rr] = sem G R x [l; rr].
Proof. exact qr_gen_reconstruct. Qed.

Theorem C11c_svd_structure :
  forall (G : Symmetry) (HG : GroupLaws G) (R : Ring)
    (cltb_trans : forall a b c : C G, cltb G a b = true -> cltb G b c = true -> cltb G a c = true)
    (cltb_total : forall a b : C G, a <> b -> cltb G a b = true \/ cltb G b a = true)
    (svd_blk : tensor R -> tensor R * tensor R * tensor R) (Hshapes : svd_shapes R svd_blk) (x : aarray G R),
    wf_array G R x = true -> ndim G R x = 2 ->
    exists u s vh, svd_gen G R svd_blk x = Some (u, s, vh) /\ split_spec G R (svd_uv R svd_blk) x u vh /\
      s = map (fun sb => (col_charge G (fst sb), svd_s R svd_blk (snd sb))) (blocks G R x) /\
      NoDup (map fst s).
Proof. exact svd_gen_structure. Qed.

Theorem C11c_fermionic_qr_reconstruct :
  forall (G : Symmetry) (HG : GroupLaws G) (R : Ring) (RL : SumLaws R)
    (cltb_irrefl : forall c : C G, cltb G c c = false)
    (cltb_trans : forall a b c : C G, cltb G a b = true -> cltb G b c = true -> cltb G a c = true)
    (cltb_total : forall a b : C G, a <> b -> cltb G a b = true \/ cltb G b a = true)
    (rneg_invol : forall a : RT R, rneg R (rneg R a) = a)
    (rneg_zero : rneg R (r0 R) = r0 R)
    (rneg_add : forall a b : RT R, rneg R (radd R a b) = radd R (rneg R a) (rneg R b))
    (rmul_neg_l : forall a b : RT R, rmul R (rneg R a) b = rneg R (rmul R a b))
    (f : tensor R -> tensor R * tensor R) (x q r : farray G R) (l rr : coord G),
    wf_array G R (fbase G R x) = true -> ndim G R (fbase G R x) = 2 -> split_shapes R f ->
    (forall s m, In (s, m) (blocks G R (fbase G R x)) -> split_product R f m) ->
    qr_fermionic_gen G R f x = Some (q, r) ->
    resolve_oddpos (fparity G R x) (foddpos G R x) [] = Some (false, foddpos G R x) ->
    coords_ok G [ix0 G R (fbase G R x)] [l] = true -> coords_ok G [ix1 G R (fbase G R x)] [rr] = true ->
    exists y, f_matmul G R q r = Some y /\ foddpos G R y = foddpos G R x /\
              sem G R (f_value G R y) [l; rr] = sem G R (f_value G R x) [l; rr].
Proof. exact qr_fermionic_gen_reconstruct. Qed.

Print Assumptions C11c_qr_gen_is_model.
Print Assumptions C11c_svd_gen_is_model.
Print Assumptions C11c_eigh_gen_is_model.
Print Assumptions C11c_solve_gen_is_model.
Print Assumptions C11c_qr_fgen_is_model.
Print Assumptions C11c_svd_fgen_is_model.
Print Assumptions C11c_eigh_fgen_is_model.
Print Assumptions C11c_solve_fgen_is_model.
Print Assumptions C11c_qr_fermionic_gen_is_model.
Print Assumptions C11c_svd_fermionic_gen_is_model.
Print Assumptions C11c_eigh_fermionic_gen_is_model.
Print Assumptions C11c_solve_fermionic_gen_is_model.
Print Assumptions C11c_wf_gives_nodup.
Print Assumptions C11c_wf_gives_bits.
Print Assumptions C11c_qr_structure.
Print Assumptions C11c_qr_reconstruct.
Print Assumptions C11c_svd_structure.
Print Assumptions C11c_fermionic_qr_reconstruct.
