(* Props/C18c.v — property C18, translator tie of the ALGORITHM.  Statements only.

   Gen/LocalAlgGen.v is regenerated on every run from the CURRENT source of
   `symmray/fermionic_local_operators.py::build_local_fermionic_elements` and of the
   helpers it calls (tr/gen_localalg.py, statement by statement: how the bra is built from
   the basis state, where the term stands, the bounds of the sort loop, the swap
   condition, how the phase is accumulated, the vanishing test, the `coeff == 0.0`
   skip, the accumulation into the dict).  Here:
     * the generated function is EQUAL to the hand model `Model.LocalOps.elements`
       on which Props/C18.v and Props/C18b.v are proved — for every fuel (number of
       passes of `while any_moves` allowed; `None` = fuel used up, on both sides),
       every term list, every tuple of bases;
     * the generated sort terminates within the bound the model uses;
     * hence `C18_elements_spec` holds for the generated function: every element of
       the index grid read from the generated dict (absent key = 0) is
       sum_t coeff_t <vac| bra(il) t ket(ir) |vac>.
   Labels: the model works on ranks (nat); the statements hold for every injective
   order embedding `enc` of the ranks into the `list Z` labels of Gen/OpOrder.v
   (`order_embedding`), e.g. `enc0 n = [n]` (`C18c_enc0_embedding`). *)
From SV Require Import Base.Prelude Base.PyList Gen.OpOrder Gen.LocalAlgGen.
From SV Require Import Model.LocalOps Proofs.LocalOpsProofs Proofs.LocalAlgGenProofs.
Open Scope Z_scope.

Theorem C18c_enc0_embedding : order_embedding enc0.
Proof. exact enc0_embedding. Qed.

(* the generated `for k in range(len(element) - 1)` pass is the model's `pass` *)
Theorem C18c_gen_pass_eq_model : forall (enc : nat -> list Z),
  (forall a b : nat, lex_ltb (enc a) (enc b) = (a <? b)%nat) ->
  forall (l : list LocalOps.op) (ph : Z) (mv : bool),
  blfe_while1_body (eops enc l, ph, mv) = let '(f, m, r) := pass l in (eops enc r, zflip f ph, m).
Proof. exact while_body_pass. Qed.

(* the generated `while any_moves` loop is the model's phased sort, with the SAME fuel convention *)
Theorem C18c_gen_sort_eq_model : forall enc : nat -> list Z, order_embedding enc ->
  forall (fuel : nat) (l : list LocalOps.op),
  la_while blfe_while1_cond blfe_while1_body fuel (eops enc l, 1, true)
  = match phased_sort fuel l with
    | None => None
    | Some (sg, r) => Some (eops enc r, phase_z sg, false)
    end.
Proof. exact gen_sort_eq_model. Qed.

(* the generated sort terminates within the model's bound: len^2 + 1 passes *)
Theorem C18c_gen_sort_terminates : forall enc : nat -> list Z, order_embedding enc ->
  forall (fuel : nat) (l : list LocalOps.op), (enough_fuel l <= fuel)%nat ->
  exists sg r, la_while blfe_while1_cond blfe_while1_body fuel (eops enc l, 1, true) = Some (eops enc r, phase_z sg, false)
               /\ phased_sort fuel l = Some (sg, r).
Proof. exact gen_sort_terminates. Qed.

(* the generated grouping + `all(...)` test is the model's pattern test *)
Theorem C18c_gen_vanishing_test_eq_model : forall enc : nat -> list Z,
  (forall a b : nat, list_eqb Z.eqb (enc a) (enc b) = (a =? b)%nat) ->
  forall ops : list LocalOps.op,
  forallb gen_pattern (map snd (fold_left blfe_for4_body (eops enc ops) [])) = nonvanishing ops.
Proof. exact groups_nonvanishing. Qed.

(* MAIN: generated algorithm = hand model *)
Theorem C18c_gen_elements_eq_model : forall enc : nat -> list Z, order_embedding enc ->
  forall (fuel : nat) (terms : list term) (bases : list site_basis),
  build_local_fermionic_elements_gen fuel (eterms enc terms) (ebases enc bases)
  = match elements fuel terms bases with
    | None => None
    | Some es => Some (map eentry es)
    end.
Proof. exact gen_elements_eq_model. Qed.

Theorem C18c_gen_elements_total : forall enc : nat -> list Z, order_embedding enc ->
  forall (fuel : nat) (terms : list term) (bases : list site_basis),
  grid_fuel fuel terms bases ->
  exists d, build_local_fermionic_elements_gen fuel (eterms enc terms) (ebases enc bases) = Some d.
Proof. exact gen_elements_total. Qed.

(* C18_elements_spec for the generated function *)
Theorem C18c_gen_elements_spec : forall enc : nat -> list Z, order_embedding enc ->
  forall (fuel : nat) (terms : list term) (bases : list site_basis) (d : list (list Z * Z)) (il ir : list nat),
  build_local_fermionic_elements_gen fuel (eterms enc terms) (ebases enc bases) = Some d ->
  In il (cart (map (@length _) bases)) -> In ir (cart (map (@length _) bases)) ->
  gen_dense d il ir = ref_element terms bases il ir.
Proof. exact gen_elements_spec. Qed.

Theorem C18c_gen_elements_spec_total : forall enc : nat -> list Z, order_embedding enc ->
  forall (fuel : nat) (terms : list term) (bases : list site_basis), grid_fuel fuel terms bases ->
  exists d, build_local_fermionic_elements_gen fuel (eterms enc terms) (ebases enc bases) = Some d /\
            forall il ir, In il (cart (map (@length _) bases)) -> In ir (cart (map (@length _) bases)) ->
            gen_dense d il ir = ref_element terms bases il ir.
Proof. exact gen_elements_spec_total. Qed.

Print Assumptions C18c_enc0_embedding.
Print Assumptions C18c_gen_pass_eq_model.
Print Assumptions C18c_gen_sort_eq_model.
Print Assumptions C18c_gen_sort_terminates.
Print Assumptions C18c_gen_vanishing_test_eq_model.
Print Assumptions C18c_gen_elements_eq_model.
Print Assumptions C18c_gen_elements_total.
Print Assumptions C18c_gen_elements_spec.
Print Assumptions C18c_gen_elements_spec_total.
