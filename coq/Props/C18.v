(* Props/C18.v — property C18: local fermionic operator arrays reproduce the
   second-quantised operator.  Statements only; proofs live in Proofs/.

   PROVED IN FULL GENERALITY (any terms, any bases, any labels, any operator
   order, repeated operators, any number of sites):
     the element the library's algorithm computes for an index
     (bubble sort with anticommutation signs, per-label pattern test,
     accumulation over terms)  =  sum_t coeff_t <vac| bra(il) t ket(ir) |vac>
     in the Jordan-Wigner Fock representation.
   NOT PROVED HERE (stated as C18_product_statement, checked on the real arrays
   by harness/c18.py): the array-level half — contraction of two operator
   arrays = array of the product operator on complete bases, which needs the
   graded tensordot theorem of C03 and a resolution of the identity. *)
From SV Require Import Base.Prelude Model.LocalOps Gen.LocalOpsData Proofs.LocalOpsProofs Proofs.LocalOpsGenProofs.
Open Scope Z_scope.

(* adjacent operators with different labels anticommute in the Fock action *)
Theorem C18_swap_anticommute : forall (a b : op) (s : state),
  label a <> label b -> apply_ops [a; b] s = scale_res true (apply_ops [b; a] s).
Proof. exact swap_anticommute. Qed.

Theorem C18_swap_in_context : forall (pre : list op) (a b : op) (post : list op) (s : state),
  label a <> label b ->
  apply_ops (pre ++ a :: b :: post) s = scale_res true (apply_ops (pre ++ b :: a :: post) s).
Proof. exact swap_in_context. Qed.

(* the signed VEV is invariant under one pass and under the whole phased sort *)
Theorem C18_vev_pass_invariant : forall (l r : list op) (f mv : bool),
  pass l = (f, mv, r) -> vev l = phase_z f * vev r.
Proof. exact vev_pass_invariant. Qed.

Theorem C18_vev_sort_invariant : forall (fuel : nat) (l r : list op) (sg : bool),
  phased_sort fuel l = Some (sg, r) -> vev l = phase_z sg * vev r.
Proof. exact vev_sort_invariant. Qed.

Theorem C18_sort_result_sorted : forall (fuel : nat) (l r : list op) (sg : bool),
  phased_sort fuel l = Some (sg, r) -> label_sorted r.
Proof. exact phased_sort_sorted. Qed.

(* the `while any_moves` loop ends within len^2 + 1 passes *)
Theorem C18_fuel_sufficient : forall (fuel : nat) (l : list op),
  (enough_fuel l <= fuel)%nat -> exists sg r, phased_sort fuel l = Some (sg, r).
Proof. exact fuel_sufficient. Qed.

(* VEV of a label-sorted string = product of per-label VEVs ... *)
Theorem C18_sorted_groups_factor : forall ops : list op,
  label_sorted ops -> vev ops = zprod (map (fun m => vev (group m ops)) (distinct_labels ops)).
Proof. exact sorted_groups_factor. Qed.

(* ... and a per-label VEV is 1 iff the (- + - + ... - +) test holds, else 0 *)
Theorem C18_group_vev_pattern : forall (m : nat) (g : list op),
  (forall o, In o g -> label o = m) -> vev g = if pattern g then 1 else 0.
Proof. exact group_vev_pattern. Qed.

Theorem C18_sorted_vev_pattern : forall ops : list op,
  label_sorted ops -> vev ops = if nonvanishing ops then 1 else 0.
Proof. exact sorted_vev_pattern. Qed.

(* MAIN *)
Definition C18_elements_statement : Prop :=
  forall (fuel : nat) (terms : list term) (bases : list site_basis) (il ir : list nat) (v : Z),
  element fuel terms bases il ir = Some v -> v = ref_element terms bases il ir.

Theorem C18_elements_spec : C18_elements_statement.
Proof. exact elements_spec. Qed.

Theorem C18_elements_total : forall (fuel : nat) (terms : list term) (bases : list site_basis) (il ir : list nat),
  (forall t, In t terms -> (enough_fuel (bra_ops bases il ++ snd t ++ ket_ops bases ir) <= fuel)%nat) ->
  element fuel terms bases il ir = Some (ref_element terms bases il ir).
Proof. exact elements_total. Qed.

(* the returned dict: every entry is right and every absent key is a zero element *)
Theorem C18_elements_dict_spec : forall (fuel : nat) (terms : list term) (bases : list site_basis) (d : list (list nat * Z)),
  elements fuel terms bases = Some d ->
  let grid := cart (map (@length _) bases) in
  (forall k v, In (k, v) d ->
     exists il ir, In il grid /\ In ir grid /\ k = il ++ ir /\ v = ref_element terms bases il ir) /\
  (forall il ir, In il grid -> In ir grid ->
     (exists v, In (il ++ ir, v) d /\ v = ref_element terms bases il ir) \/ ref_element terms bases il ir = 0).
Proof. exact elements_dict_spec. Qed.

(* ---------------------------------------------------------------- on the data regenerated from the five builders
   (Gen/LocalOpsData.v is re-derived from symmray/fermionic_local_operators.py on every run) *)
Theorem C18_hubbard_terms_hermitian : forall t V Ua Ub mua mub c0 c1 : Z,
  hermitian_terms (fermi_hubbard_terms t V Ua Ub mua mub c0 c1).
Proof. exact hubbard_terms_hermitian. Qed.

Theorem C18_hubbard_spinless_terms_hermitian : forall t V Ua Ub mua mub c0 c1 : Z,
  hermitian_terms (fermi_hubbard_spinless_terms t V Ua Ub mua mub c0 c1).
Proof. exact hubbard_spinless_terms_hermitian. Qed.

Theorem C18_number_spin_terms_hermitian : forall t V Ua Ub mua mub c0 c1 : Z,
  hermitian_terms (fermi_number_operator_spinless_terms t V Ua Ub mua mub c0 c1) /\
  hermitian_terms (fermi_number_operator_spinful_terms t V Ua Ub mua mub c0 c1) /\
  hermitian_terms (fermi_spin_operator_terms t V Ua Ub mua mub c0 c1).
Proof. exact number_spin_terms_hermitian. Qed.

(* parity(charge of a basis state) = number of operators in it mod 2, for every builder,
   symmetry and site (finite: exactly the maps the property names) *)
Theorem C18_charge_maps_parity_correct :
  forall mb, In mb all_builder_maps ->
  forall sm, In sm (fst mb) -> forall basis, In basis (snd mb) -> parity_okb (snd sm) basis = true.
Proof. exact charge_maps_parity_correct_each. Qed.

Theorem C18_documented_bases_complete :
  complete_bases fermi_hubbard_bases = true /\ complete_bases fermi_hubbard_spinless_bases = true /\
  complete_bases fermi_number_operator_spinless_bases = true /\
  complete_bases fermi_number_operator_spinful_bases = true /\ complete_bases fermi_spin_operator_bases = true.
Proof. exact documented_bases_complete. Qed.

(* ---------------------------------------------------------------- the part that is NOT proved
   On complete bases whose modes contain the terms' modes, the matrix of a
   product is the product of the matrices with the intermediate index weighted
   by the one fixed sign  sigma(k) = (-1)^(sum_{i<j} p_i(k) p_j(k))  (per-site
   dagger versus full dagger) — this sign is what the dual/non-dual contraction
   of the two FermionicArrays supplies (C03).  Hermiticity and the exact
   spectrum follow from the same resolution of the identity. *)
Definition C18_product_statement : Prop :=
  forall (t1 t2 : list term) (bases : list site_basis) (il ir : list nat),
  complete_bases bases = true -> terms_within t1 bases = true -> terms_within t2 bases = true ->
  let grid := cart (map (@length _) bases) in
  In il grid -> In ir grid ->
  ref_element (term_product t1 t2) bases il ir =
  zsum (map (fun k => phase_z (cross_parity (site_parities bases k)) *
                      ref_element t1 bases il k * ref_element t2 bases k ir) grid).

Definition C18_full : Prop := C18_elements_statement /\ C18_product_statement.

(* what is missing: C18_product_statement (and its lift through tensordot, C03) *)
Theorem C18_full_partial : C18_elements_statement.
Proof. exact elements_spec. Qed.

(* NOTE (later round): `C18_product_statement` (and hence `C18_full`) is now PROVED in Props/C18b.v
   (`C18_product_spec`, `C18_full_proved`, `C18_resolution_of_identity`, `C18_bra_ket_sign`). *)

Print Assumptions C18_swap_anticommute.
Print Assumptions C18_swap_in_context.
Print Assumptions C18_vev_pass_invariant.
Print Assumptions C18_vev_sort_invariant.
Print Assumptions C18_sort_result_sorted.
Print Assumptions C18_fuel_sufficient.
Print Assumptions C18_sorted_groups_factor.
Print Assumptions C18_group_vev_pattern.
Print Assumptions C18_sorted_vev_pattern.
Print Assumptions C18_elements_spec.
Print Assumptions C18_elements_total.
Print Assumptions C18_elements_dict_spec.
Print Assumptions C18_full_partial.
Print Assumptions C18_hubbard_terms_hermitian.
Print Assumptions C18_hubbard_spinless_terms_hermitian.
Print Assumptions C18_number_spin_terms_hermitian.
Print Assumptions C18_charge_maps_parity_correct.
Print Assumptions C18_documented_bases_complete.
