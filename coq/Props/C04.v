(* Props/C04.v — property C04: a fermionic network's value does not depend on
   how it is contracted.  Statements only; proofs live in Proofs/.

   These theorems are the ALGEBRAIC spine of route independence:
   the label order (translated from FermionicOperator), the phased
   sort/annihilation loop of resolve_combined_oddpos (hand model tied by
   correspondence), label-level associativity / operand exchange, and the
   Koszul-sign algebra with the generated calc_phase_permutation.

   C04_full (not stated formally here because it needs the block-level array
   model of C03, owned by another slice): for every network N and any two
   routes r1 r2 of pairwise contractions (any order, operand order, axis
   listing, prior fermionic transposes, one index at a time or several),
   run r1 N ~ run r2 N (equal indices, values with phases synced, and label
   tuples when N's labels are distinct).  Its label-and-global-sign part is
   C04_resolve_assoc / C04_resolve_swap below; its per-block part is
   pair_step_preserves of C03 on top of C04_K_trans / C04_star_assoc; the
   whole statement is checked on the implementation by the oracle of
   harness/c04.py.  Hence the suffix _partial on the headline theorem. *)
From SV Require Import Base.Prelude Gen.OpOrder Gen.PhasePerm Model.Graded Model.Oddpos
  Proofs.GradedProofs Proofs.OddposProofs.
From Coq Require Import Permutation Sorted.

(* the translated __lt__ / __eq__ / dag / oddpos_dag *)
Theorem C04_lt_strict_total :
  (forall a, op_lt a a = false)
  /\ (forall a b c, op_lt a b = true -> op_lt b c = true -> op_lt a c = true)
  /\ (forall a b, a <> b -> op_lt a b = true \/ op_lt b a = true)
  /\ (forall a b, op_eq a b = true <-> a = b)
  /\ (forall a b, op_eq a b = true -> op_lt a b = false /\ op_lt b a = false)
  /\ (forall a, op_dag (op_dag a) = a)
  /\ (forall a b, op_lt (op_dag b) (op_dag a) = op_lt a b)
  /\ (forall l, Sorted lt_op l -> Sorted lt_op (oddpos_dag l)).
Proof. exact lt_strict_total. Qed.

(* the fuel-exhausted branch of the model is unreachable, for every input *)
Theorem C04_resolve_terminates : forall l r p, resolve_raw l r p <> OutOfFuel.
Proof. exact resolve_terminates. Qed.

(* the literal index form of the loop (i, pop/pop, item assignment) is the zipper form *)
Theorem C04_resolve_idx_eq : forall l r p, resolve_raw_idx l r p = resolve_raw l r p.
Proof. exact resolve_raw_idx_eq. Qed.

(* resolve_sorted + resolve_sign: conjugate-free inputs *)
Theorem C04_resolve_sorted_sign : forall (l r : list op) (p : bool),
  distinct (l ++ r) ->
  exists w, resolve l r p = Some (xorb (p && Nat.odd (length r)) (Nat.odd (op_inv (l ++ r))), w)
            /\ Sorted lt_op w /\ Permutation w (l ++ r).
Proof. exact resolve_distinct. Qed.

(* every input: sorted result, congruent to the input under graded swaps and
   conjugate-pair removals (sign exactly for a pair standing as x- x+) *)
Theorem C04_resolve_spec : forall (l r : list op) (p : bool) s w,
  resolve l r p = Some (s, w) ->
  Sorted lt_op w /\ rws (p && Nat.odd (length r), l ++ r) (s, w).
Proof. exact resolve_spec. Qed.

(* route independence of labels and global sign: associativity *)
Theorem C04_resolve_assoc_partial : forall (a b c : list op) (pa pb : bool),
  distinct (a ++ b ++ c) ->
  exists s1 ab s2 t1 bc t2 abc,
    resolve a b pa = Some (s1, ab) /\ resolve ab c (xorb pa pb) = Some (s2, abc) /\
    resolve b c pb = Some (t1, bc) /\ resolve a bc pa = Some (t2, abc) /\
    xorb s1 s2 = xorb t1 t2 /\
    Sorted lt_op abc /\ Permutation abc (a ++ b ++ c).
Proof. exact resolve_assoc. Qed.

(* ... and operand exchange *)
Theorem C04_resolve_swap : forall (a b : list op) (pa pb : bool),
  distinct (a ++ b) ->
  exists s t w,
    resolve a b pa = Some (s, w) /\ resolve b a pb = Some (t, w) /\
    xorb s t = xorb (xorb (pa && Nat.odd (length b)) (pb && Nat.odd (length a)))
                    (Nat.odd (length a) && Nat.odd (length b)).
Proof. exact resolve_swap. Qed.

(* the generated Koszul routine is the odd-odd inversion parity *)
Theorem C04_phase_perm_is_koszul : forall par perm n,
  Permutation perm (zrange n) ->
  calc_phase_permutation par (Some perm) = phase_of (inv_parity par perm).
Proof. exact phase_perm_is_koszul. Qed.

Theorem C04_phase_perm_none_is_reversal : forall par,
  (forall p, In p par -> p = 0 \/ p = 1)%Z ->
  calc_phase_permutation par None
  = calc_phase_permutation par (Some (rev (zrange (Z.of_nat (length par))))).
Proof. exact phase_perm_none_is_reversal. Qed.

(* ---- the Koszul-sign algebra (DESIGN 2.3), over any leg type with decidable equality ---- *)
Section GradedAlgebra.
  Context {L : Type} (leqb : L -> L -> bool) (leqb_spec : forall x y, leqb x y = true <-> x = y)
          (par : L -> bool).

  (* multiplicativity of the Koszul sign *)
  Theorem C04_K_trans : forall w w' w'' : list L,
    NoDup w -> Permutation w w' -> Permutation w w'' ->
    K leqb par w w'' = xorb (K leqb par w w') (K leqb par w' w'').
  Proof. exact (K_trans leqb leqb_spec par). Qed.

  Theorem C04_K_refl_sym : forall w w' : list L,
    K leqb par w w = false /\ (Permutation w w' -> K leqb par w w' = K leqb par w' w).
  Proof. intros w w'. split; [exact (K_refl leqb par w) | exact (K_sym leqb par w w')]. Qed.

  (* moving a block past a block; reversing a word; one adjacent transposition *)
  Theorem C04_K_block_swap : forall p b1 b2 s : list L,
    NoDup (p ++ b1 ++ b2 ++ s) ->
    K leqb par (p ++ b1 ++ b2 ++ s) (p ++ b2 ++ b1 ++ s) = bpar par b1 && bpar par b2.
  Proof. exact (K_block_swap leqb leqb_spec par). Qed.

  Theorem C04_K_reverse : forall w : list L,
    NoDup w -> K leqb par w (rev w) = Nat.odd (nodd par w * (nodd par w - 1) / 2).
  Proof. exact (K_reverse leqb leqb_spec par). Qed.

  Theorem C04_K_adjacent_swap : forall (p : list L) x y (s : list L),
    NoDup (p ++ x :: y :: s) -> K leqb par (p ++ x :: y :: s) (p ++ y :: x :: s) = par x && par y.
  Proof. exact (K_adjacent_swap leqb leqb_spec par). Qed.

  (* K is the odd-odd inversion parity against the positions in the target word *)
  Theorem C04_K_winv : forall w w' : list L,
    NoDup w -> Permutation w w' -> K leqb par w w' = winv par (pos leqb w') w.
  Proof. exact (K_winv leqb leqb_spec par). Qed.

  (* twisted product: concatenation of words, associativity, graded commutativity *)
  Theorem C04_winv_app : forall (canon : L -> nat) (a b : list L),
    winv par canon (a ++ b) = xorb (xorb (winv par canon a) (winv par canon b)) (cross par canon a b).
  Proof. intros canon. exact (winv_app par canon). Qed.

  Theorem C04_star_assoc : forall (canon : L -> nat) (a b c : mono),
    star par canon (star par canon a b) c = star par canon a (star par canon b c).
  Proof. intros canon. exact (star_assoc par canon). Qed.

  Theorem C04_star_comm : forall (canon : L -> nat) (a b : mono),
    (forall x y, In x (snd a) -> In y (snd b) -> canon x <> canon y) ->
    fst (star par canon a b) = xorb (fst (star par canon b a)) (bpar par (snd a) && bpar par (snd b))
    /\ Permutation (snd (star par canon a b)) (snd (star par canon b a)).
  Proof. intros canon. exact (star_comm par canon). Qed.

  Theorem C04_star_comm_even : forall (canon : L -> nat) (a b : mono),
    (forall x y, In x (snd a) -> In y (snd b) -> canon x <> canon y) ->
    bpar par (snd a) = false \/ bpar par (snd b) = false ->
    fst (star par canon a b) = fst (star par canon b a)
    /\ Permutation (snd (star par canon a b)) (snd (star par canon b a)).
  Proof. intros canon. exact (star_comm_even par canon). Qed.
End GradedAlgebra.

Theorem C04_inv_parity_is_K : forall par perm n,
  Permutation perm (zrange n) ->
  inv_parity par perm = K Z.eqb (oddZ par) perm (zrange n).
Proof. exact inv_parity_is_K. Qed.

Print Assumptions C04_lt_strict_total.
Print Assumptions C04_resolve_terminates.
Print Assumptions C04_resolve_idx_eq.
Print Assumptions C04_resolve_sorted_sign.
Print Assumptions C04_resolve_spec.
Print Assumptions C04_resolve_assoc_partial.
Print Assumptions C04_resolve_swap.
Print Assumptions C04_phase_perm_is_koszul.
Print Assumptions C04_phase_perm_none_is_reversal.
Print Assumptions C04_K_trans.
Print Assumptions C04_K_refl_sym.
Print Assumptions C04_K_block_swap.
Print Assumptions C04_K_reverse.
Print Assumptions C04_K_adjacent_swap.
Print Assumptions C04_K_winv.
Print Assumptions C04_winv_app.
Print Assumptions C04_star_assoc.
Print Assumptions C04_star_comm.
Print Assumptions C04_star_comm_even.
Print Assumptions C04_inv_parity_is_K.
