(* Props/C07.v — property C07: reshape only regroups axes and is undone by
   reshaping back.  Statements only; proofs live in Proofs/ReshapeArgsProofs.v. *)
From SV Require Import Base.Prelude Model.ReshapeArgs Proofs.ReshapeArgsProofs Proofs.ReshapePlanProofs.
From Coq Require Import Permutation.

(* FINITE DOMAIN named by the property (decided by vm_compute, 334456 + 21268 +
   1354 + 87 + 6 + 1 cases): every array `ts` obtained from n <= 5 original axes
   with sizes in {1,2,3,4,6} by merging adjacent axes (merged axes carry their
   sub-sizes), every target `nw` obtained from the shape of `ts` by dropping
   size-one axes and merging adjacent axes.
   Excluded visibly, with refutations below:
     family A  scalar_of_ones: non-empty all-size-one array -> ()      (DESIGN F11)
     family B  spelled_clash : a fused axis ending in a size-one component,
               directly followed by a size-one axis, whose sub-sizes are spelled
               out by the shape it is reshaped to (on the way there or back). *)

(* the routine terminates within its fuel, returns a plan, the plan executes and
   the result has exactly the requested axes *)
Theorem C07_reshape_args_forward_partial :
  forall n ts nw, (n <= 5)%nat -> in_dom n ts nw -> scalar_of_ones ts nw = false ->
  forward_spec ts nw.
Proof. exact reshape_args_forward. Qed.

(* ... and the plan computed for the way back restores the original trees *)
Theorem C07_reshape_args_roundtrip_partial :
  forall n ts nw, (n <= 5)%nat -> in_dom n ts nw ->
  scalar_of_ones ts nw = false -> spelled_clash ts nw = false ->
  roundtrip_spec ts nw.
Proof. exact reshape_args_roundtrip. Qed.

(* the full statement over the finite domain, and its refutation on the pinned code *)
Definition C07_reshape_args_full : Prop := reshape_args_ok_full.

Theorem C07_reshape_args_full_refuted : ~ C07_reshape_args_full.
Proof. exact reshape_args_ok_full_refuted. Qed.

(* family A: every member raises IndexError; pinned witness (1,1,1) -> () *)
Theorem C07_scalar_of_ones_raises :
  forall n ts nw, (n <= 5)%nat -> in_dom n ts nw -> scalar_of_ones ts nw = true ->
  calc_reshape_args (shape_of ts) nw (subsizes_of ts) = ErrIndex.
Proof. exact reshape_args_scalar_of_ones_raises. Qed.

Theorem C07_reshape_args_refuted_scalar :
  in_dom 3 ones3 [] /\ calc_reshape_args [1; 1; 1]%Z [] [None; None; None] = ErrIndex.
Proof. exact reshape_args_refuted_scalar. Qed.

(* family B: pinned witness, reshaping [fused(6,1); 1] to its own shape (6,1) *)
Theorem C07_reshape_args_refuted_identity :
  in_dom 3 fused61 (shape_of fused61) /\
  calc_reshape_args [6; 1]%Z [6; 1]%Z [Some [6; 1]%Z; None] = Ok ([0%nat], [[[1%nat; 2%nat]]], []) /\
  reshape_trees fused61 (shape_of fused61) = Some [Leaf 0 6%Z; Fused [Leaf 1 1%Z; Leaf 2 1%Z]] /\
  ~ roundtrip_spec fused61 (shape_of fused61).
Proof. exact reshape_args_refuted_identity. Qed.

(* UNBOUNDED: reshaping to the current shape when no fused axis has its
   sub-sizes spelled out at its own position gives the empty plan (identity) *)
Theorem C07_reshape_same_shape :
  forall sh subs, no_match sh subs -> calc_reshape_args sh sh subs = Ok ([], [], []).
Proof. exact reshape_same_shape. Qed.

Theorem C07_reshape_same_shape_trees :
  forall ts, no_match (shape_of ts) (subsizes_of ts) -> reshape_trees ts (shape_of ts) = Some ts.
Proof. exact reshape_trees_same_shape. Qed.

(* UNBOUNDED (reshape_content on trees): whatever plan is executed — any list of
   unfuse positions, fuse groupings and expand positions for which the three
   loops of AbelianArray.reshape run through — the multiset of original axes
   and the product of the axis sizes are unchanged *)
Theorem C07_exec_plan_only_regroups :
  forall p ts ts', exec_plan p ts = Some ts' ->
  Permutation (all_leaves ts') (all_leaves ts) /\ size_prod ts' = size_prod ts.
Proof. exact exec_plan_keeps. Qed.

Print Assumptions C07_reshape_args_forward_partial.
Print Assumptions C07_reshape_args_roundtrip_partial.
Print Assumptions C07_reshape_args_full_refuted.
Print Assumptions C07_scalar_of_ones_raises.
Print Assumptions C07_reshape_args_refuted_scalar.
Print Assumptions C07_reshape_args_refuted_identity.
Print Assumptions C07_reshape_same_shape.
Print Assumptions C07_reshape_same_shape_trees.
Print Assumptions C07_exec_plan_only_regroups.
