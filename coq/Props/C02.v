(* Props/C02.v — property C02: abelian (block-sparse) contraction equals dense
   contraction.  Blockwise strategy.  Statements only; proofs live in
   Proofs/Tdot.v and Proofs/TdotInst.v. *)
From SV Require Import Base.Prelude Base.Sym Base.Tensor Model.Sectors Model.Array Model.Wf
  Model.SymInst Proofs.Tdot Proofs.TdotInst.
Local Open Scope nat_scope.

(* Element for element, in (charge, offset) coordinates, the result of
   `_tensordot_blockwise` is the dense contraction of the operands: for every
   symmetry whose `ceqb` decides equality, every coefficient ring that is a
   commutative additive monoid with annihilating zero (SumLaws), all ranks, all
   tables, all axes.  `merge n axes free con` puts the coordinates `con` at the
   positions `axes` and `free` at the remaining positions.  A sector absent from
   the result reads 0 on the left, and the sum on the right is then 0 too. *)
Theorem C02_blockwise_sem :
  forall (G : Symmetry) (R : Ring), SumLaws R ->
  (forall x y : C G, ceqb G x y = true <-> x = y) ->
  forall (a b : aarray G R) (la aa ab rb : list nat) (cl cr : list (coord G)),
  wf_array G R a = true -> wf_array G R b = true ->
  axes_ok (ndim G R a) aa = true -> axes_ok (ndim G R b) ab = true -> length aa = length ab ->
  la = rest_axes (ndim G R a) aa -> rb = rest_axes (ndim G R b) ab ->
  charges_nodup G (take_axes (dflt_index G) (indices G R a) aa) = true ->
  coords_ok G (without_axes (indices G R a) aa) cl = true ->
  coords_ok G (without_axes (indices G R b) ab) cr = true ->
  sem G R (tdot_blockwise G R a b la aa ab rb) (cl ++ cr) =
  rsum R (map (fun kc => rmul R (sem G R a (merge G (ndim G R a) aa cl kc))
                                (sem G R b (merge G (ndim G R b) ab cr kc)))
              (all_coords G (take_axes (dflt_index G) (indices G R a) aa))).
Proof. exact blockwise_sem. Qed.

(* The same with the duplicate-freeness of the contracted tables derived from
   `wf_array` (tables sorted by `cltb`) when `cltb` is a strict order. *)
Theorem C02_blockwise_sem_wf :
  forall (G : Symmetry) (R : Ring), SumLaws R ->
  (forall x y : C G, ceqb G x y = true <-> x = y) ->
  forall (a b : aarray G R) (la aa ab rb : list nat) (cl cr : list (coord G)),
  (forall c : C G, cltb G c c = false) ->
  (forall x y z : C G, cltb G x y = true -> cltb G y z = true -> cltb G x z = true) ->
  wf_array G R a = true -> wf_array G R b = true ->
  axes_ok (ndim G R a) aa = true -> axes_ok (ndim G R b) ab = true -> length aa = length ab ->
  la = rest_axes (ndim G R a) aa -> rb = rest_axes (ndim G R b) ab ->
  coords_ok G (without_axes (indices G R a) aa) cl = true ->
  coords_ok G (without_axes (indices G R b) ab) cr = true ->
  sem G R (tdot_blockwise G R a b la aa ab rb) (cl ++ cr) =
  rsum R (map (fun kc => rmul R (sem G R a (merge G (ndim G R a) aa cl kc))
                                (sem G R b (merge G (ndim G R b) ab cr kc)))
              (all_coords G (take_axes (dflt_index G) (indices G R a) aa))).
Proof. exact blockwise_sem_wf. Qed.

(* Instantiated: the five built-in symmetries (generated definitions) and the two
   exact rings Z and Z[i]; nothing is assumed but `wf_array` of the operands. *)
Theorem C02_blockwise_sem_builtin :
  forall (G : Symmetry) (R : Ring) (a b : aarray G R) (la aa ab rb : list nat) (cl cr : list (coord G)),
  builtin_sym G -> exact_ring R ->
  wf_array G R a = true -> wf_array G R b = true ->
  axes_ok (ndim G R a) aa = true -> axes_ok (ndim G R b) ab = true -> length aa = length ab ->
  la = rest_axes (ndim G R a) aa -> rb = rest_axes (ndim G R b) ab ->
  coords_ok G (without_axes (indices G R a) aa) cl = true ->
  coords_ok G (without_axes (indices G R b) ab) cr = true ->
  sem G R (tdot_blockwise G R a b la aa ab rb) (cl ++ cr) =
  rsum R (map (fun kc => rmul R (sem G R a (merge G (ndim G R a) aa cl kc))
                                (sem G R b (merge G (ndim G R b) ab cr kc)))
              (all_coords G (take_axes (dflt_index G) (indices G R a) aa))).
Proof. exact blockwise_sem_builtin. Qed.

Theorem C02_ZRing_laws : SumLaws ZRing.
Proof. exact ZRing_sum_laws. Qed.

Theorem C02_GRing_laws : SumLaws GRing.
Proof. exact GRing_sum_laws. Qed.

(* The result's total charge. *)
Theorem C02_blockwise_charge :
  forall (G : Symmetry) (R : Ring) (a b : aarray G R) (la aa ab rb : list nat),
  charge G R (tdot_blockwise G R a b la aa ab rb) = combine G [charge G R a; charge G R b].
Proof. exact blockwise_charge. Qed.

(* The result's index tables: the operands' free tables, each restricted to the
   charges that occur at that position in some result sector; directions unchanged. *)
Theorem C02_blockwise_indices :
  forall (G : Symmetry) (R : Ring),
  (forall x y : C G, ceqb G x y = true <-> x = y) ->
  forall (a b : aarray G R) (la aa ab rb : list nat),
  let res := tdot_blockwise G R a b la aa ab rb in
  let ixs := without_axes (indices G R a) aa ++ without_axes (indices G R b) ab in
  indices G R res = prune_indices G ixs (sectors G R res) /\
  length (indices G R res) = length ixs /\
  forall i, i < length ixs ->
    idual G (nth i (indices G R res) (dflt_index G)) = idual G (nth i ixs (dflt_index G)) /\
    chargemap G (nth i (indices G R res) (dflt_index G)) =
      filter (fun p => mem (ceqb G) (fst p) (map (fun s => nth i s (ident G)) (sectors G R res)))
             (chargemap G (nth i ixs (dflt_index G))).
Proof. exact blockwise_indices. Qed.

(* The public entry point `tensordot(a, b, axes, mode="blockwise")` (integer or
   explicit, possibly negative, axes as parsed by `parse_axes`). *)
Theorem C02_tensordot_blockwise_sem :
  forall (G : Symmetry) (R : Ring), SumLaws R ->
  (forall x y : C G, ceqb G x y = true <-> x = y) ->
  forall (a b : aarray G R) (axes : nat + (list Z * list Z)) (aa ab : list nat) (cl cr : list (coord G)),
  parse_axes (ndim G R a) (ndim G R b) axes = Some (aa, ab) ->
  wf_array G R a = true -> wf_array G R b = true ->
  axes_ok (ndim G R a) aa = true -> axes_ok (ndim G R b) ab = true -> length aa = length ab ->
  charges_nodup G (take_axes (dflt_index G) (indices G R a) aa) = true ->
  coords_ok G (without_axes (indices G R a) aa) cl = true ->
  coords_ok G (without_axes (indices G R b) ab) cr = true ->
  exists res, a_tensordot G R a b axes MBlockwise = Some res /\
    sem G R res (cl ++ cr) =
    rsum R (map (fun kc => rmul R (sem G R a (merge G (ndim G R a) aa cl kc))
                                  (sem G R b (merge G (ndim G R b) ab cr kc)))
                (all_coords G (take_axes (dflt_index G) (indices G R a) aa))).
Proof. exact tensordot_blockwise_sem. Qed.

(* `a @ b` for two matrices is the matrix product in (charge, offset) coordinates. *)
Theorem C02_matmul_sem :
  forall (G : Symmetry) (R : Ring), SumLaws R ->
  (forall x y : C G, ceqb G x y = true <-> x = y) ->
  forall (a b : aarray G R) (l r : coord G),
  ndim G R a = 2 -> ndim G R b = 2 ->
  wf_array G R a = true -> wf_array G R b = true ->
  charges_nodup G [nth 1 (indices G R a) (dflt_index G)] = true ->
  coords_ok G [nth 0 (indices G R a) (dflt_index G)] [l] = true ->
  coords_ok G [nth 1 (indices G R b) (dflt_index G)] [r] = true ->
  exists res, a_matmul G R a b = Some res /\
    sem G R res [l; r] =
    rsum R (map (fun k => rmul R (sem G R a [l; k]) (sem G R b [k; r]))
                (index_coords G (nth 1 (indices G R a) (dflt_index G)))).
Proof. exact matmul_sem. Qed.

Print Assumptions C02_blockwise_sem.
Print Assumptions C02_blockwise_sem_wf.
Print Assumptions C02_blockwise_sem_builtin.
Print Assumptions C02_ZRing_laws.
Print Assumptions C02_GRing_laws.
Print Assumptions C02_blockwise_charge.
Print Assumptions C02_blockwise_indices.
Print Assumptions C02_tensordot_blockwise_sem.
Print Assumptions C02_matmul_sem.
