(* Props/C02.v — property C02: abelian (block-sparse) contraction equals dense
   contraction.  Blockwise strategy; trace, scalar results, single-array einsum.
   Statements only; proofs live in Proofs/Tdot.v, Proofs/TdotInst.v and
   Proofs/TraceEinsumProofs.v. *)
From SV Require Import Base.Prelude Base.Sym Base.Tensor Model.Sectors Model.Array Model.Wf
  Model.SymInst Proofs.Tdot Proofs.TdotInst.
Local Open Scope nat_scope.

(* Element for element, in (charge, offset) coordinates, the result of
   `_tensordot_blockwise` is the dense contraction of the operands: for every
   symmetry whose `ceqb` decides equality, every coefficient ring that is a
   commutative additive monoid with annihilating zero (SumLaws), all ranks, all
   tables, all axes.  `merge n axes free con` puts the coordinates `con` at the
   positions `axes` and `free` at the remaining positions.  A sector absent from
   the result reads 0 on the left, and the sum on the right is then 0 too. *)
Theorem C02_blockwise_sem :
  forall (G : Symmetry) (R : Ring), SumLaws R ->
  (forall x y : C G, ceqb G x y = true <-> x = y) ->
  forall (a b : aarray G R) (la aa ab rb : list nat) (cl cr : list (coord G)),
  wf_array G R a = true -> wf_array G R b = true ->
  axes_ok (ndim G R a) aa = true -> axes_ok (ndim G R b) ab = true -> length aa = length ab ->
  la = rest_axes (ndim G R a) aa -> rb = rest_axes (ndim G R b) ab ->
  charges_nodup G (take_axes (dflt_index G) (indices G R a) aa) = true ->
  coords_ok G (without_axes (indices G R a) aa) cl = true ->
  coords_ok G (without_axes (indices G R b) ab) cr = true ->
  sem G R (tdot_blockwise G R a b la aa ab rb) (cl ++ cr) =
  rsum R (map (fun kc => rmul R (sem G R a (merge G (ndim G R a) aa cl kc))
                                (sem G R b (merge G (ndim G R b) ab cr kc)))
              (all_coords G (take_axes (dflt_index G) (indices G R a) aa))).
Proof. exact blockwise_sem. Qed.

(* The same with the duplicate-freeness of the contracted tables derived from
   `wf_array` (tables sorted by `cltb`) when `cltb` is a strict order. *)
Theorem C02_blockwise_sem_wf :
  forall (G : Symmetry) (R : Ring), SumLaws R ->
  (forall x y : C G, ceqb G x y = true <-> x = y) ->
  forall (a b : aarray G R) (la aa ab rb : list nat) (cl cr : list (coord G)),
  (forall c : C G, cltb G c c = false) ->
  (forall x y z : C G, cltb G x y = true -> cltb G y z = true -> cltb G x z = true) ->
  wf_array G R a = true -> wf_array G R b = true ->
  axes_ok (ndim G R a) aa = true -> axes_ok (ndim G R b) ab = true -> length aa = length ab ->
  la = rest_axes (ndim G R a) aa -> rb = rest_axes (ndim G R b) ab ->
  coords_ok G (without_axes (indices G R a) aa) cl = true ->
  coords_ok G (without_axes (indices G R b) ab) cr = true ->
  sem G R (tdot_blockwise G R a b la aa ab rb) (cl ++ cr) =
  rsum R (map (fun kc => rmul R (sem G R a (merge G (ndim G R a) aa cl kc))
                                (sem G R b (merge G (ndim G R b) ab cr kc)))
              (all_coords G (take_axes (dflt_index G) (indices G R a) aa))).
Proof. exact blockwise_sem_wf. Qed.

(* Instantiated: the five built-in symmetries (generated definitions) and the two
   exact rings Z and Z[i]; nothing is assumed but `wf_array` of the operands. *)
Theorem C02_blockwise_sem_builtin :
  forall (G : Symmetry) (R : Ring) (a b : aarray G R) (la aa ab rb : list nat) (cl cr : list (coord G)),
  builtin_sym G -> exact_ring R ->
  wf_array G R a = true -> wf_array G R b = true ->
  axes_ok (ndim G R a) aa = true -> axes_ok (ndim G R b) ab = true -> length aa = length ab ->
  la = rest_axes (ndim G R a) aa -> rb = rest_axes (ndim G R b) ab ->
  coords_ok G (without_axes (indices G R a) aa) cl = true ->
  coords_ok G (without_axes (indices G R b) ab) cr = true ->
  sem G R (tdot_blockwise G R a b la aa ab rb) (cl ++ cr) =
  rsum R (map (fun kc => rmul R (sem G R a (merge G (ndim G R a) aa cl kc))
                                (sem G R b (merge G (ndim G R b) ab cr kc)))
              (all_coords G (take_axes (dflt_index G) (indices G R a) aa))).
Proof. exact blockwise_sem_builtin. Qed.

Theorem C02_ZRing_laws : SumLaws ZRing.
Proof. exact ZRing_sum_laws. Qed.

Theorem C02_GRing_laws : SumLaws GRing.
Proof. exact GRing_sum_laws. Qed.

(* The result's total charge. *)
Theorem C02_blockwise_charge :
  forall (G : Symmetry) (R : Ring) (a b : aarray G R) (la aa ab rb : list nat),
  charge G R (tdot_blockwise G R a b la aa ab rb) = combine G [charge G R a; charge G R b].
Proof. exact blockwise_charge. Qed.

(* The result's index tables: the operands' free tables, each restricted to the
   charges that occur at that position in some result sector; directions unchanged. *)
Theorem C02_blockwise_indices :
  forall (G : Symmetry) (R : Ring),
  (forall x y : C G, ceqb G x y = true <-> x = y) ->
  forall (a b : aarray G R) (la aa ab rb : list nat),
  let res := tdot_blockwise G R a b la aa ab rb in
  let ixs := without_axes (indices G R a) aa ++ without_axes (indices G R b) ab in
  indices G R res = prune_indices G ixs (sectors G R res) /\
  length (indices G R res) = length ixs /\
  forall i, i < length ixs ->
    idual G (nth i (indices G R res) (dflt_index G)) = idual G (nth i ixs (dflt_index G)) /\
    chargemap G (nth i (indices G R res) (dflt_index G)) =
      filter (fun p => mem (ceqb G) (fst p) (map (fun s => nth i s (ident G)) (sectors G R res)))
             (chargemap G (nth i ixs (dflt_index G))).
Proof. exact blockwise_indices. Qed.

(* The public entry point `tensordot(a, b, axes, mode="blockwise")` (integer or
   explicit, possibly negative, axes as parsed by `parse_axes`). *)
Theorem C02_tensordot_blockwise_sem :
  forall (G : Symmetry) (R : Ring), SumLaws R ->
  (forall x y : C G, ceqb G x y = true <-> x = y) ->
  forall (a b : aarray G R) (axes : nat + (list Z * list Z)) (aa ab : list nat) (cl cr : list (coord G)),
  parse_axes (ndim G R a) (ndim G R b) axes = Some (aa, ab) ->
  wf_array G R a = true -> wf_array G R b = true ->
  axes_ok (ndim G R a) aa = true -> axes_ok (ndim G R b) ab = true -> length aa = length ab ->
  charges_nodup G (take_axes (dflt_index G) (indices G R a) aa) = true ->
  coords_ok G (without_axes (indices G R a) aa) cl = true ->
  coords_ok G (without_axes (indices G R b) ab) cr = true ->
  exists res, a_tensordot G R a b axes MBlockwise = Some res /\
    sem G R res (cl ++ cr) =
    rsum R (map (fun kc => rmul R (sem G R a (merge G (ndim G R a) aa cl kc))
                                  (sem G R b (merge G (ndim G R b) ab cr kc)))
                (all_coords G (take_axes (dflt_index G) (indices G R a) aa))).
Proof. exact tensordot_blockwise_sem. Qed.

(* `a @ b` for two matrices is the matrix product in (charge, offset) coordinates. *)
Theorem C02_matmul_sem :
  forall (G : Symmetry) (R : Ring), SumLaws R ->
  (forall x y : C G, ceqb G x y = true <-> x = y) ->
  forall (a b : aarray G R) (l r : coord G),
  ndim G R a = 2 -> ndim G R b = 2 ->
  wf_array G R a = true -> wf_array G R b = true ->
  charges_nodup G [nth 1 (indices G R a) (dflt_index G)] = true ->
  coords_ok G [nth 0 (indices G R a) (dflt_index G)] [l] = true ->
  coords_ok G [nth 1 (indices G R b) (dflt_index G)] [r] = true ->
  exists res, a_matmul G R a b = Some res /\
    sem G R res [l; r] =
    rsum R (map (fun k => rmul R (sem G R a [l; k]) (sem G R b [k; r]))
                (index_coords G (nth 1 (indices G R a) (dflt_index G)))).
Proof. exact matmul_sem. Qed.

(* ------------------------------------------------------------------ *)
(* Remaining clauses: trace, scalar results, no aligned blocks, single-array
   einsum.  Proofs in Proofs/TraceEinsumProofs.v. *)
From SV Require Import Proofs.TraceEinsumProofs.

(* The block-sparse trace is the dense trace: the sum of the diagonal entries
   over all (charge, offset) coordinates of the (common) table.  Blocks whose two
   charges differ never contribute; a missing diagonal block contributes 0. *)
Theorem C02_trace_sem :
  forall (G : Symmetry) (R : Ring), SumLaws R ->
  (forall x y : C G, ceqb G x y = true <-> x = y) ->
  forall x : aarray G R,
  wf_array G R x = true -> ndim G R x = 2 ->
  chargemap G (nth 0 (indices G R x) (dflt_index G)) = chargemap G (nth 1 (indices G R x) (dflt_index G)) ->
  charges_nodup G [nth 0 (indices G R x) (dflt_index G)] = true ->
  a_trace G R x =
  Some (rsum R (map (fun c => sem G R x [c; c]) (index_coords G (nth 0 (indices G R x) (dflt_index G))))).
Proof. exact trace_sem. Qed.

Theorem C02_trace_sem_builtin :
  forall (G : Symmetry) (R : Ring) (x : aarray G R),
  builtin_sym G -> exact_ring R ->
  wf_array G R x = true -> ndim G R x = 2 ->
  chargemap G (nth 0 (indices G R x) (dflt_index G)) = chargemap G (nth 1 (indices G R x) (dflt_index G)) ->
  a_trace G R x =
  Some (rsum R (map (fun c => sem G R x [c; c]) (index_coords G (nth 0 (indices G R x) (dflt_index G))))).
Proof. exact trace_sem_builtin. Qed.

Theorem C02_trace_none :
  forall (G : Symmetry) (R : Ring) (x : aarray G R), a_trace G R x = None <-> ndim G R x <> 2.
Proof. exact trace_none. Qed.

(* Full contraction (every axis of both operands contracted): the returned
   scalar is the dense sum over all contracted coordinates. *)
Theorem C02_scalar_result :
  forall (G : Symmetry) (R : Ring),
  (forall x y : C G, ceqb G x y = true <-> x = y) -> SumLaws R ->
  forall (a b : aarray G R) (aa ab : list nat),
  wf_array G R a = true -> wf_array G R b = true ->
  axes_ok (ndim G R a) aa = true -> axes_ok (ndim G R b) ab = true ->
  length aa = ndim G R a -> length ab = ndim G R b -> length aa = length ab ->
  charges_nodup G (take_axes (dflt_index G) (indices G R a) aa) = true ->
  a_scalar G R (tdot_blockwise G R a b [] aa ab []) =
  rsum R (map (fun kc => rmul R (sem G R a (merge G (ndim G R a) aa [] kc))
                                (sem G R b (merge G (ndim G R b) ab [] kc)))
              (all_coords G (take_axes (dflt_index G) (indices G R a) aa))).
Proof. exact scalar_result. Qed.

(* ... and both are 0 when no stored block of a aligns with a stored block of b. *)
Theorem C02_scalar_no_aligned :
  forall (G : Symmetry) (R : Ring),
  (forall x y : C G, ceqb G x y = true <-> x = y) -> SumLaws R ->
  forall (a b : aarray G R) (aa ab : list nat),
  wf_array G R a = true -> wf_array G R b = true ->
  axes_ok (ndim G R a) aa = true -> axes_ok (ndim G R b) ab = true ->
  length aa = ndim G R a -> length ab = ndim G R b -> length aa = length ab ->
  charges_nodup G (take_axes (dflt_index G) (indices G R a) aa) = true ->
  any_aligned G R a b aa ab = false ->
  a_scalar G R (tdot_blockwise G R a b [] aa ab []) = r0 R /\
  rsum R (map (fun kc => rmul R (sem G R a (merge G (ndim G R a) aa [] kc))
                                (sem G R b (merge G (ndim G R b) ab [] kc)))
              (all_coords G (take_axes (dflt_index G) (indices G R a) aa))) = r0 R.
Proof. exact scalar_no_aligned. Qed.

(* No aligned pair of blocks, any axes: the result stores no block, reads 0 at
   every coordinate and as a scalar, has the combined charge, the right rank,
   and every one of its tables is pruned to nothing. *)
Theorem C02_no_aligned_blocks :
  forall (G : Symmetry) (R : Ring),
  (forall x y : C G, ceqb G x y = true <-> x = y) ->
  forall (a b : aarray G R) (la aa ab rb : list nat),
  any_aligned G R a b aa ab = false ->
  let res := tdot_blockwise G R a b la aa ab rb in
  blocks G R res = [] /\
  (forall cs : list (coord G), sem G R res cs = r0 R) /\
  a_scalar G R res = r0 R /\
  charge G R res = combine G [charge G R a; charge G R b] /\
  length (indices G R res) = length (without_axes (indices G R a) aa ++ without_axes (indices G R b) ab) /\
  (forall ix : index G, In ix (indices G R res) -> chargemap G ix = []).
Proof. exact no_aligned_blocks. Qed.

(* ... and the dense contraction of the operands is then 0 as well, at every
   coordinate of the free tables. *)
Theorem C02_no_aligned_dense_zero :
  forall (G : Symmetry) (R : Ring),
  (forall x y : C G, ceqb G x y = true <-> x = y) -> SumLaws R ->
  forall (a b : aarray G R) (la aa ab rb : list nat) (cl cr : list (coord G)),
  wf_array G R a = true -> wf_array G R b = true ->
  axes_ok (ndim G R a) aa = true -> axes_ok (ndim G R b) ab = true -> length aa = length ab ->
  la = rest_axes (ndim G R a) aa -> rb = rest_axes (ndim G R b) ab ->
  charges_nodup G (take_axes (dflt_index G) (indices G R a) aa) = true ->
  coords_ok G (without_axes (indices G R a) aa) cl = true ->
  coords_ok G (without_axes (indices G R b) ab) cr = true ->
  any_aligned G R a b aa ab = false ->
  sem G R (tdot_blockwise G R a b la aa ab rb) (cl ++ cr) = r0 R /\
  rsum R (map (fun kc => rmul R (sem G R a (merge G (ndim G R a) aa cl kc))
                                (sem G R b (merge G (ndim G R b) ab cr kc)))
              (all_coords G (take_axes (dflt_index G) (indices G R a) aa))) = r0 R.
Proof. exact no_aligned_dense_zero. Qed.

(* Single-array einsum "lhs->rhs", labels as numbers.  `labels_ok`: the output
   labels are distinct and each occurs exactly once in lhs; `a_einsum = Some`
   makes every other label of lhs occur exactly twice.  `traced_of lhs rhs` are
   the summed labels in order of first occurrence, `etperm` their first
   positions, `eperm` the positions of the output labels.  `place d lhs rhs co tc`
   is the coordinate list of x that carries, at every position of lhs, the entry
   of `co` for an output label and the entry of `tc` for a summed label (the same
   one at both of its positions).  The value of the result at `co` is the sum,
   over one coordinate per summed label ranging over the table of its first
   position, of the values of x. *)
Theorem C02_einsum_sem :
  forall (G : Symmetry) (R : Ring), SumLaws R ->
  (forall x y : C G, ceqb G x y = true <-> x = y) ->
  forall (x : aarray G R) (lhs rhs : list nat) (y : aarray G R) (co : list (coord G)),
  a_einsum G R x lhs rhs = Some y ->
  wf_array G R x = true -> labels_ok lhs rhs = true ->
  charges_nodup G (take_axes (dflt_index G) (indices G R x) (etperm lhs rhs)) = true ->
  coords_ok G (indices G R y) co = true ->
  sem G R y co =
  rsum R (map (fun tc => sem G R x (place (ident G, 0) lhs rhs co tc))
              (all_coords G (take_axes (dflt_index G) (indices G R x) (etperm lhs rhs)))).
Proof. exact einsum_sem. Qed.

(* When the two positions of every summed label have the same table, each
   coordinate list read on the right-hand side above lies inside the tables of x. *)
Theorem C02_einsum_coords_ok :
  forall (G : Symmetry) (R : Ring),
  (forall x y : C G, ceqb G x y = true <-> x = y) ->
  forall (x : aarray G R) (lhs rhs : list nat) (y : aarray G R) (co : list (coord G)),
  a_einsum G R x lhs rhs = Some y ->
  labels_ok lhs rhs = true ->
  charges_nodup G (take_axes (dflt_index G) (indices G R x) (etperm lhs rhs)) = true ->
  traced_tables_ok G (indices G R x) lhs rhs = true ->
  coords_ok G (indices G R y) co = true ->
  forall tc : list (coord G),
  In tc (all_coords G (take_axes (dflt_index G) (indices G R x) (etperm lhs rhs))) ->
  coords_ok G (indices G R x) (place (ident G, 0) lhs rhs co tc) = true.
Proof. exact einsum_coords_ok. Qed.

(* The result's indices are the indices of x at the output labels' positions;
   the total charge is unchanged. *)
Theorem C02_einsum_indices :
  forall (G : Symmetry) (R : Ring) (x : aarray G R) (lhs rhs : list nat) (y : aarray G R),
  a_einsum G R x lhs rhs = Some y ->
  indices G R y = take_axes (dflt_index G) (indices G R x) (eperm lhs rhs) /\
  charge G R y = charge G R x.
Proof. exact einsum_indices. Qed.

(* `None` exactly for a wrong number of labels or a label that is not an output
   label and does not occur exactly twice. *)
Theorem C02_einsum_none :
  forall (G : Symmetry) (R : Ring) (x : aarray G R) (lhs rhs : list nat),
  a_einsum G R x lhs rhs = None <->
  length lhs <> ndim G R x \/ (exists q : nat, In q lhs /\ ~ In q rhs /\ count_nat q lhs <> 2).
Proof. exact einsum_none. Qed.

(* Special case: one summed pair, e.g. "abcb->ca". *)
Theorem C02_einsum_one_pair_sem :
  forall (G : Symmetry) (R : Ring), SumLaws R ->
  (forall x y : C G, ceqb G x y = true <-> x = y) ->
  forall (x : aarray G R) (lhs rhs : list nat) (q : nat) (y : aarray G R) (co : list (coord G)),
  a_einsum G R x lhs rhs = Some y ->
  wf_array G R x = true -> labels_ok lhs rhs = true ->
  traced_of lhs rhs = [q] ->
  charges_nodup G [nth (index_of q lhs) (indices G R x) (dflt_index G)] = true ->
  coords_ok G (indices G R y) co = true ->
  sem G R y co =
  rsum R (map (fun c => sem G R x (place (ident G, 0) lhs rhs co [c]))
              (index_coords G (nth (index_of q lhs) (indices G R x) (dflt_index G)))).
Proof. exact einsum_one_pair_sem. Qed.

(* Special case: no summed label, a pure permutation of the axes; same form as
   C08's transpose theorem ... *)
Theorem C02_einsum_perm_sem :
  forall (G : Symmetry) (R : Ring), SumLaws R ->
  (forall x y : C G, ceqb G x y = true <-> x = y) ->
  forall (x : aarray G R) (lhs rhs : list nat) (y : aarray G R) (cs : list (coord G)),
  a_einsum G R x lhs rhs = Some y ->
  wf_array G R x = true -> labels_ok lhs rhs = true ->
  traced_of lhs rhs = [] ->
  coords_ok G (indices G R x) cs = true ->
  sem G R y (permuted (ident G, 0) cs (eperm lhs rhs)) = sem G R x cs /\
  indices G R y = permuted (dflt_index G) (indices G R x) (eperm lhs rhs) /\
  charge G R y = charge G R x /\
  coords_ok G (indices G R y) (permuted (ident G, 0) cs (eperm lhs rhs)) = true.
Proof. exact einsum_perm_sem. Qed.

(* ... and it agrees with `transpose(x, eperm lhs rhs)`. *)
Theorem C02_einsum_perm_is_transpose :
  forall G : Symmetry, GroupLaws G -> forall R : Ring, SumLaws R ->
  forall (x : aarray G R) (lhs rhs : list nat) (y : aarray G R) (cs : list (coord G)),
  a_einsum G R x lhs rhs = Some y ->
  wf_array G R x = true -> labels_ok lhs rhs = true ->
  traced_of lhs rhs = [] ->
  coords_ok G (indices G R x) cs = true ->
  Permutation.Permutation (eperm lhs rhs) (seq 0 (ndim G R x)) /\
  sem G R y (permuted (ident G, 0) cs (eperm lhs rhs)) =
  sem G R (a_transpose G R x (eperm lhs rhs)) (permuted (ident G, 0) cs (eperm lhs rhs)) /\
  indices G R y = indices G R (a_transpose G R x (eperm lhs rhs)) /\
  charge G R y = charge G R (a_transpose G R x (eperm lhs rhs)).
Proof. exact einsum_perm_is_transpose. Qed.

(* Special case: no output label (e.g. "abab->"): the returned scalar. *)
Theorem C02_einsum_scalar :
  forall (G : Symmetry) (R : Ring), SumLaws R ->
  (forall x y : C G, ceqb G x y = true <-> x = y) ->
  forall (x : aarray G R) (lhs : list nat) (y : aarray G R),
  a_einsum G R x lhs [] = Some y -> wf_array G R x = true ->
  charges_nodup G (take_axes (dflt_index G) (indices G R x) (etperm lhs [])) = true ->
  a_scalar G R y =
  rsum R (map (fun tc => sem G R x (place (ident G, 0) lhs [] [] tc))
              (all_coords G (take_axes (dflt_index G) (indices G R x) (etperm lhs [])))).
Proof. exact einsum_scalar. Qed.

Print Assumptions C02_blockwise_sem.
Print Assumptions C02_blockwise_sem_wf.
Print Assumptions C02_blockwise_sem_builtin.
Print Assumptions C02_ZRing_laws.
Print Assumptions C02_GRing_laws.
Print Assumptions C02_blockwise_charge.
Print Assumptions C02_blockwise_indices.
Print Assumptions C02_tensordot_blockwise_sem.
Print Assumptions C02_matmul_sem.
Print Assumptions C02_trace_sem.
Print Assumptions C02_trace_sem_builtin.
Print Assumptions C02_trace_none.
Print Assumptions C02_scalar_result.
Print Assumptions C02_scalar_no_aligned.
Print Assumptions C02_no_aligned_blocks.
Print Assumptions C02_no_aligned_dense_zero.
Print Assumptions C02_einsum_sem.
Print Assumptions C02_einsum_coords_ok.
Print Assumptions C02_einsum_indices.
Print Assumptions C02_einsum_none.
Print Assumptions C02_einsum_one_pair_sem.
Print Assumptions C02_einsum_perm_sem.
Print Assumptions C02_einsum_perm_is_transpose.
Print Assumptions C02_einsum_scalar.
