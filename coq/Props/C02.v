(* Props/C02.v — under construction *)
From SV Require Import Base.Prelude.
