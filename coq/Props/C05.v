(* Props/C05.v — property C05: fusing is an exact, invertible re-indexing
   described by the fused index.  Statements only; proofs live in
   Proofs/FuseProofs.v (with Proofs/OrderProofs.v and Proofs/FuseTensor.v).

   What is proved here, for every symmetry G with GroupLaws G and OrderLaws G
   (cltb G is a strict total order; shown for the five built-in symmetries),
   every ring, all ranks, all tables:

   A. the tables of the fused index of one non-singlet group (calc_fuse_block_info):
      chargemap strictly sorted with valid charges and positive sizes (A1); extent
      keys = chargemap charges, no repetition (A2); for each fused charge the
      sub-sector sizes sum to the fused size, sub-sectors strictly sorted, each is
      the sub-sector of a stored sector, its size is the product of the sub-index
      sizes, its signed combination (relative to the direction of the group's
      first axis) is the fused charge (A3), every stored sector is recorded
      (A3_complete); fused direction = first axis (A4); wf_index of the result.
   B. starts_from / sub_range give pairwise disjoint ranges inside [0, total)
      that cover it: every offset lies in exactly one sub-sector range.
   C. one group of >= 2 distinct axes (any order, non-adjacent allowed) of a
      wf_array: where the elements land (layout), and unfuse (fuse x) = x with axes
      permuted by fuse_perm: every stored block bit for bit, every extra block
      exactly zero, equal coordinate semantics.

   Partial (see the _full definitions at the end): several groups at once,
   singlet / empty groups through a_fuse, nested (already fused) axes through
   a_unfuse_all, the concat strategy and the fermionic signs are not covered. *)
From SV Require Import Base.Prelude Base.Sym Base.Tensor Model.Sectors Model.Array Model.Wf
  Model.SymInst Proofs.OrderProofs Proofs.FuseTensor Proofs.FuseProofs.
From Coq Require Import Permutation Sorting.
Local Open Scope nat_scope.

(* the order axioms on charge labels hold for the five built-in symmetries *)
Theorem C05_Z2_order : OrderLaws Z2.     Proof. exact Z2_order. Qed.
Theorem C05_Z4_order : OrderLaws Z4.     Proof. exact Z4_order. Qed.
Theorem C05_U1_order : OrderLaws U1.     Proof. exact U1_order. Qed.
Theorem C05_Z2Z2_order : OrderLaws Z2Z2. Proof. exact Z2Z2_order. Qed.
Theorem C05_U1U1_order : OrderLaws U1U1. Proof. exact U1U1_order. Qed.

(* ---- A: table-level bookkeeping of the fused index ---- *)
Theorem C05_fused_chargemap_sorted : forall G : Symmetry, GroupLaws G -> OrderLaws G ->
  forall (ixs : list (index G)) (secs : list (list (C G))) (g : list nat),
  tables_ok G ixs -> secs_in_tables G ixs secs g -> is_singlet g = false ->
  StronglySorted (ltP (cltb G)) (icharges G (fused_index G ixs secs g)) /\
  Forall (fun p => valid G (fst p) = true /\ 0 < snd p) (chargemap G (fused_index G ixs secs g)).
Proof. exact stmt_A1. Qed.

Theorem C05_fused_extent_keys : forall G : Symmetry, GroupLaws G -> OrderLaws G ->
  forall (ixs : list (index G)) (secs : list (list (C G))) (g : list nat),
  is_singlet g = false ->
  exists ext, isub G (fused_index G ixs secs g) = Some (map (fun ax => nth ax ixs (dflt_index G)) g, ext) /\
              NoDup (map fst ext) /\ Permutation (map fst ext) (icharges G (fused_index G ixs secs g)).
Proof. exact stmt_A2. Qed.

Theorem C05_fused_extents_partition : forall G : Symmetry, GroupLaws G -> OrderLaws G ->
  forall (ixs : list (index G)) (secs : list (list (C G))) (g : list nat),
  tables_ok G ixs -> secs_in_tables G ixs secs g -> is_singlet g = false ->
  forall c d, In (c, d) (chargemap G (fused_index G ixs secs g)) ->
    size_of G (fused_index G ixs secs g) c = d /\
    exists subs ext e, isub G (fused_index G ixs secs g) = Some (subs, ext) /\
      lookup (ceqb G) c ext = Some e /\
      nsum (map snd e) = d /\
      StronglySorted (ltP (list_ltb (cltb G) (ceqb G))) (map fst e) /\ NoDup (map fst e) /\
      Forall (fun p => exists s, In s secs /\ fst p = group_subsector G s g /\
                                 snd p = subsizes_product G ixs g s /\
                                 signed_combination G ixs g s = c) e.
Proof. exact stmt_A3. Qed.

Theorem C05_fused_extents_complete : forall G : Symmetry, GroupLaws G -> OrderLaws G ->
  forall (ixs : list (index G)) (secs : list (list (C G))) (g : list nat),
  secs_in_tables G ixs secs g -> is_singlet g = false ->
  forall s, In s secs ->
    exists subs ext e, isub G (fused_index G ixs secs g) = Some (subs, ext) /\
      In (signed_combination G ixs g s) (icharges G (fused_index G ixs secs g)) /\
      lookup (ceqb G) (signed_combination G ixs g s) ext = Some e /\
      lookup (list_eqb (ceqb G)) (group_subsector G s g) e = Some (subsizes_product G ixs g s).
Proof. exact stmt_A3_complete. Qed.

Theorem C05_fused_dual : forall (G : Symmetry) (ixs : list (index G)) (secs : list (list (C G))) (g : list nat),
  idual G (fused_index G ixs secs g) = idual G (nth (hd 0 g) ixs (dflt_index G)).
Proof. exact stmt_A4. Qed.

Theorem C05_fused_index_wf : forall G : Symmetry, GroupLaws G -> OrderLaws G ->
  forall (ixs : list (index G)) (secs : list (list (C G))) (g : list nat),
  Forall (fun ix => wf_index G ix = true) ixs -> secs_in_tables G ixs secs g -> 2 <= length g ->
  wf_index G (fused_index G ixs secs g) = true.
Proof. exact stmt_wf2. Qed.

(* ---- B: the ranges of accum_for_split partition [0, total) ---- *)
Theorem C05_ranges_partition : forall (K : Type) (keqb : K -> K -> bool), eqb_spec_on keqb ->
  forall e : list (K * nat), NoDup (map fst e) ->
  let ranges := List.combine (map fst e) (List.combine (starts_from 0 (map snd e)) (map snd e)) in
  (forall k r, lookup keqb k ranges = Some r ->
     fst r + snd r <= nsum (map snd e) /\ lookup keqb k e = Some (snd r)) /\
  (forall k, lookup keqb k ranges = None <-> lookup keqb k e = None) /\
  (forall k1 k2 r1 r2, lookup keqb k1 ranges = Some r1 -> lookup keqb k2 ranges = Some r2 -> k1 <> k2 ->
     fst r1 + snd r1 <= fst r2 \/ fst r2 + snd r2 <= fst r1) /\
  (forall o, o < nsum (map snd e) ->
     exists k r, lookup keqb k ranges = Some r /\ fst r <= o < fst r + snd r) /\
  (forall o k1 k2 r1 r2, lookup keqb k1 ranges = Some r1 -> lookup keqb k2 ranges = Some r2 ->
     fst r1 <= o < fst r1 + snd r1 -> fst r2 <= o < fst r2 + snd r2 -> k1 = k2).
Proof. exact (@ranges_partition). Qed.

Theorem C05_fused_sub_ranges_partition : forall G : Symmetry, GroupLaws G -> OrderLaws G ->
  forall (ixs : list (index G)) (secs : list (list (C G))) (g : list nat),
  tables_ok G ixs -> secs_in_tables G ixs secs g -> is_singlet g = false ->
  forall c d, In (c, d) (chargemap G (fused_index G ixs secs g)) ->
    exists subs ext e, isub G (fused_index G ixs secs g) = Some (subs, ext) /\
      lookup (ceqb G) c ext = Some e /\
      (forall ss, In ss (map fst e) ->
         fst (sub_range G (fused_index G ixs secs g) c ss) + snd (sub_range G (fused_index G ixs secs g) c ss) <= d /\
         lookup (list_eqb (ceqb G)) ss e = Some (snd (sub_range G (fused_index G ixs secs g) c ss))) /\
      (forall ss ss', In ss (map fst e) -> In ss' (map fst e) -> ss <> ss' ->
         disj (sub_range G (fused_index G ixs secs g) c ss) (sub_range G (fused_index G ixs secs g) c ss')) /\
      (forall o, o < d -> exists ss, In ss (map fst e) /\
         fst (sub_range G (fused_index G ixs secs g) c ss) <= o <
         fst (sub_range G (fused_index G ixs secs g) c ss) + snd (sub_range G (fused_index G ixs secs g) c ss)).
Proof. exact stmt_B_fused. Qed.

(* ---- tensor level: assignment into zeros and slicing ---- *)
Theorem C05_get_tassign : forall (R : Ring) (t : tensor R) sel (src : tensor R) idx,
  inb (tshape t) idx = true ->
  get R (tassign R t sel src) idx =
  if in_range sel idx then get R src (map (fun p => snd p - fst (fst p)) (List.combine sel idx)) else get R t idx.
Proof. exact get_tassign. Qed.

Theorem C05_get_tslice : forall (R : Ring) (t : tensor R) axis start len idx,
  inb (set_nth (tshape t) axis len) idx = true ->
  get R (tslice R t axis start len) idx = get R t (set_nth idx axis (nth axis idx 0 + start)).
Proof. exact get_tslice. Qed.

Theorem C05_assign_into_zeros : forall (R : Ring) sh axis start len (src : tensor R) idx,
  inb sh idx = true -> axis < length sh ->
  get R (tassign R (tzeros R sh) (axis_sel sh axis start len) src) idx =
  if Nat.leb start (nth axis idx 0) && Nat.ltb (nth axis idx 0) (start + len)
  then get R src (set_nth idx axis (nth axis idx 0 - start)) else r0 R.
Proof. exact get_tassign_zeros. Qed.

Theorem C05_slice_of_assign_own : forall (R : Ring) (t : tensor R) axis start len (src : tensor R),
  axis < length (tshape t) -> start + len <= nth axis (tshape t) 0 ->
  tshape src = set_nth (tshape t) axis len -> length (tdata src) = shape_size (tshape src) ->
  tslice R (tassign R t (axis_sel (tshape t) axis start len) src) axis start len = src.
Proof. exact tslice_tassign_same. Qed.

Theorem C05_slice_of_assign_other : forall (R : Ring) (t : tensor R) axis start len start' len' (src : tensor R),
  axis < length (tshape t) -> start + len <= nth axis (tshape t) 0 ->
  (start + len <= start' \/ start' + len' <= start) ->
  tslice R (tassign R t (axis_sel (tshape t) axis start' len') src) axis start len = tslice R t axis start len.
Proof. exact tslice_tassign_disjoint. Qed.

(* ---- C: one group, value level ---- *)
Theorem C05_fuse_layout_single_group_partial : forall (G : Symmetry) (R : Ring), GroupLaws G -> OrderLaws G ->
  forall (x : aarray G R) (g : list nat),
    wf_array G R x = true -> NoDup g -> Forall (fun ax => ax < ndim G R x) g -> 2 <= length g ->
    let ixs := indices G R x in
    let xf := fuse_core G R x [g] in
    let pos := fuse_position [g] in
    let fi := fused_index G ixs (sectors G R x) g in
    NoDup (sectors G R xf) /\
    (forall k, In k (sectors G R xf) <-> exists s, In s (sectors G R x) /\ fused_sector G ixs [g] s = k) /\
    (forall k T, lookup (list_eqb (ceqb G)) k (blocks G R xf) = Some T -> tshape T = block_shape G (indices G R xf) k) /\
    (forall s b, In (s, b) (blocks G R x) ->
       exists T, lookup (list_eqb (ceqb G)) (fused_sector G ixs [g] s) (blocks G R xf) = Some T /\
         let r := sub_range G fi (group_charge G ixs s g) (group_subsector G s g) in
         tslice R T pos (fst r) (snd r) =
         treshape R (ttranspose R b (fuse_perm (ndim G R x) [g])) (fused_block_shape G ixs [g] s)) /\
    (forall k T st len, lookup (list_eqb (ceqb G)) k (blocks G R xf) = Some T ->
       st + len <= nth pos (block_shape G (indices G R xf) k) 0 ->
       (forall s, In s (sectors G R x) -> fused_sector G ixs [g] s = k ->
          disj (st, len) (sub_range G fi (group_charge G ixs s g) (group_subsector G s g))) ->
       tslice R T pos st len = tzeros R (set_nth (block_shape G (indices G R xf) k) pos len)).
Proof. exact stmt_layout. Qed.

Theorem C05_unfuse_fuse_single_group_partial : forall (G : Symmetry) (R : Ring), GroupLaws G -> OrderLaws G ->
  forall (x : aarray G R) (g : list nat),
    wf_array G R x = true -> NoDup g -> Forall (fun ax => ax < ndim G R x) g -> 2 <= length g ->
    let perm := fuse_perm (ndim G R x) [g] in
    exists y,
      a_unfuse G R (fuse_core G R x [g]) (fuse_position [g]) = Some y /\
      indices G R y = permuted (dflt_index G) (indices G R x) perm /\
      charge G R y = charge G R x /\
      (forall s b, In (s, b) (blocks G R x) ->
         lookup (list_eqb (ceqb G)) (permuted (ident G) s perm) (blocks G R y) = Some (ttranspose R b perm)) /\
      (forall k t, In (k, t) (blocks G R y) ->
         (exists s b, In (s, b) (blocks G R x) /\ k = permuted (ident G) s perm /\ t = ttranspose R b perm) \/
         Forall (fun v => v = r0 R) (tdata t)) /\
      (forall cs, coords_ok G (indices G R x) cs = true ->
         sem G R y (permuted (ident G, 0) cs perm) = sem G R x cs).
Proof. exact stmt_C. Qed.

Theorem C05_a_fuse_single_group_partial : forall (G : Symmetry) (R : Ring), GroupLaws G -> OrderLaws G ->
  forall (x : aarray G R) (g : list nat),
    wf_array G R x = true -> NoDup g -> Forall (fun ax => ax < ndim G R x) g -> 2 <= length g ->
    a_fuse G R x [g] = fuse_core G R x [g] /\ roundtrip_single_group G R x g.
Proof. exact stmt_C_a_fuse. Qed.

(* ---- full statements, NOT proved here ----
   Missing relative to the _partial theorems above: (1) several disjoint groups in
   one call (the fold of fuse_core then scatters along several axes at once and
   the unfuse has to be iterated); (2) singlet groups (kept as they are) and empty
   groups (expand_dims) through a_fuse; (3) arrays that already carry fused axes,
   unfused again by a_unfuse_all; (4) the concat strategy and the fermionic signs,
   which Model/Array.v does not model. *)
Definition unfuse_axes (G : Symmetry) (R : Ring) (x : aarray G R) (k : nat) (pos : nat) : option (aarray G R) :=
  (* unfuse the k consecutive fused axes starting at pos, last first *)
  fold_right (fun ax acc => match acc with Some y => a_unfuse G R y ax | None => None end)
             (Some x) (seq pos k).

Definition C05_unfuse_fuse_full : Prop :=
  forall (G : Symmetry) (R : Ring), GroupLaws G -> OrderLaws G ->
  forall (x : aarray G R) (groups : list (list nat)),
    wf_array G R x = true -> groups <> [] ->
    Forall (fun g => 2 <= length g) groups ->
    NoDup (concat groups) -> Forall (fun ax => ax < ndim G R x) (concat groups) ->
    let perm := fuse_perm (ndim G R x) groups in
    exists y,
      unfuse_axes G R (fuse_core G R x groups) (length groups) (fuse_position groups) = Some y /\
      indices G R y = permuted (dflt_index G) (indices G R x) perm /\
      (forall s b, In (s, b) (blocks G R x) ->
         lookup (list_eqb (ceqb G)) (permuted (ident G) s perm) (blocks G R y) = Some (ttranspose R b perm)) /\
      (forall k t, In (k, t) (blocks G R y) ->
         (exists s b, In (s, b) (blocks G R x) /\ k = permuted (ident G) s perm /\ t = ttranspose R b perm) \/
         Forall (fun v => v = r0 R) (tdata t)) /\
      (forall cs, coords_ok G (indices G R x) cs = true ->
         sem G R y (permuted (ident G, 0) cs perm) = sem G R x cs).

Definition C05_fused_indices_wf_full : Prop :=
  forall (G : Symmetry) (R : Ring), GroupLaws G -> OrderLaws G ->
  forall (x : aarray G R) (groups : list (list nat)),
    wf_array G R x = true -> Forall (fun g => g <> []) groups ->
    NoDup (concat groups) -> Forall (fun ax => ax < ndim G R x) (concat groups) ->
    wf_array G R (a_fuse G R x groups) = true.

Print Assumptions C05_Z2_order.
Print Assumptions C05_Z4_order.
Print Assumptions C05_U1_order.
Print Assumptions C05_Z2Z2_order.
Print Assumptions C05_U1U1_order.
Print Assumptions C05_fused_chargemap_sorted.
Print Assumptions C05_fused_extent_keys.
Print Assumptions C05_fused_extents_partition.
Print Assumptions C05_fused_extents_complete.
Print Assumptions C05_fused_dual.
Print Assumptions C05_fused_index_wf.
Print Assumptions C05_ranges_partition.
Print Assumptions C05_fused_sub_ranges_partition.
Print Assumptions C05_get_tassign.
Print Assumptions C05_get_tslice.
Print Assumptions C05_assign_into_zeros.
Print Assumptions C05_slice_of_assign_own.
Print Assumptions C05_slice_of_assign_other.
Print Assumptions C05_fuse_layout_single_group_partial.
Print Assumptions C05_unfuse_fuse_single_group_partial.
Print Assumptions C05_a_fuse_single_group_partial.
