(* Props/C05.v — under construction *)
From SV Require Import Base.Prelude.
