(* Props/C10e.v — translator tie of FermionicArray.dagger (C10: adjoint).

   Gen/PhasesGen.v is REGENERATED on every run by tr/gen_phases.py from the current source of
   symmray/fermionic_core.py; `dagger_gen G B bconj btranspose indices charge blocks phases oddpos phase_dual`
   is the state (index directions, charge, dict of blocks, pending-sign dict, odd-position labels) of the
   array FermionicArray.dagger returns; the block type B and the backend's conj / transpose are abstract.
   Props/C09d.v ties the other sign-table methods to the hand model (Model/Fermi.v); this file does it for
   dagger, whose source pops the old sign table while it re-keys blocks and signs under the reversed
   sectors (Proofs/DaggerGenProofs.v: dagger_loop is the loop invariant).

   `tbl_of ph` = the dict holding -1 for every sector of ph, in order.  Hypotheses, as for C09_gen_conj:
   no key twice in the sign table (NoDup (fphases x)) and among the stored sectors, `bits_ok` (parities of
   stored charges are 0/1: C09_gen_bits_of_valid), `parity_ok` (the identity is even:
   C09_gen_parity_ok_of_laws); and `lens_ok`: every stored sector has one charge per index — then the key
   `rev s` the source computes is the hand model's `permuted s (rev_axes n)`.  All of them follow from
   C01's wf_array (C10_gen_dagger_ok_of_wf) except NoDup of the table.

   C10_gen_dagger            whole state: table (association list, insertion order included), BLOCKS
                             (re-keyed, conjugated, transposed tensors), labels, charge, directions; both
                             settings of phase_dual
   C10_gen_dagger_state      the same for ANY block type / backend functions, as one equation
   C10_via_gen_dagger        the hand-level array rebuilt from the generated state is f_dagger x pd
   C10_gen_dagger_is_conj_then_reversal
                             C10_dagger_eq_conj_transpose through dagger_gen, conj_gen and transpose_gen
   C10_gen_dagger_dagger, C10_gen_dagger_dagger_dual_option
                             the double-adjoint laws through dagger_gen *)
From SV Require Import Base.Prelude Base.PyList Base.Sym Base.Tensor Gen.PhasePerm Gen.OpOrder Gen.PhasesGen
  Model.Sectors Model.Array Model.Arith Model.Wf Model.Fermi Proofs.ConjProofs Proofs.PhasesGenProofs
  Proofs.DaggerGenProofs.
Local Open Scope Z_scope.

(* ---- 1. generated dagger = hand model ---- *)
Theorem C10_gen_dagger :
  forall (G : Symmetry) (R : Ring), (forall a b : C G, ceqb G a b = true <-> a = b) -> parity_ok G ->
  forall (x : farray G R) (pd : bool),
  NoDup (fphases G R x) -> NoDup (fsectors G R x) -> bits_ok G (fsectors G R x) -> lens_ok G R (fbase G R x) ->
  let b := fbase G R x in
  let st := dagger_gen G (tensor R) (tconj R) (fun t => ttranspose R t (rev_axes (ndim G R b)))
                       (duals G R b) (charge G R b) (blocks G R b) (tbl_of (fphases G R x)) (foddpos G R x) pd in
  st_phases st = tbl_of (fphases G R (f_dagger G R x pd)) /\
  st_blocks st = blocks G R (fbase G R (f_dagger G R x pd)) /\
  st_oddpos st = foddpos G R (f_dagger G R x pd) /\
  st_charge st = charge G R (fbase G R (f_dagger G R x pd)) /\
  st_indices st = duals G R (fbase G R (f_dagger G R x pd)).
Proof. exact blocks_dagger. Qed.

(* any block type B and backend functions, blocks bl stored under the sectors of x *)
Theorem C10_gen_dagger_any_blocks :
  forall (G : Symmetry) (R : Ring), (forall a b : C G, ceqb G a b = true <-> a = b) -> parity_ok G ->
  forall (x : farray G R) (B : Type) (bconj btr : B -> B) (bl : list (list (C G) * B)) (pd : bool),
  keys bl = fsectors G R x ->
  NoDup (fphases G R x) -> NoDup (fsectors G R x) -> bits_ok G (fsectors G R x) -> lens_ok G R (fbase G R x) ->
  let st := dagger_gen G B bconj btr (duals G R (fbase G R x)) (charge G R (fbase G R x)) bl (tbl_of (fphases G R x))
                       (foddpos G R x) pd in
  st_phases st = tbl_of (fphases G R (f_dagger G R x pd)) /\
  st_oddpos st = foddpos G R (f_dagger G R x pd) /\
  st_charge st = charge G R (fbase G R (f_dagger G R x pd)) /\
  st_indices st = duals G R (fbase G R (f_dagger G R x pd)) /\
  keys (st_blocks st) = fsectors G R (f_dagger G R x pd) /\
  st_blocks st = map (rekey G (fun v => btr (bconj v))) bl.
Proof. exact phases_dagger. Qed.

(* the whole generated state as one equation, no array: directions reversed and flipped, charge negated,
   every block conjugated, transposed and stored under the reversed sector, the table `dagger_table`,
   labels reversed and daggered *)
Theorem C10_gen_dagger_state :
  forall (G : Symmetry), (forall a b : C G, ceqb G a b = true <-> a = b) -> parity_ok G ->
  forall (B : Type) (bconj btr : B -> B) (ix : list gindex) (ch : C G) (bl : list (list (C G) * B)) (odd : list op)
         (ph : list (list (C G))) (pd : bool),
  NoDup ph -> NoDup (keys bl) -> bits_ok G (keys bl) ->
  dagger_gen G B bconj btr ix ch bl (tbl_of ph) odd pd
  = (map negb (rev ix), sign G ch true, map (rekey G (fun v => btr (bconj v))) bl,
     tbl_of (dagger_table G ix ch (keys bl) odd ph pd), Fermi.oddpos_dag odd).
Proof. exact gen_dagger. Qed.

(* the table in that equation is the hand model's *)
Theorem C10_gen_dagger_table :
  forall (G : Symmetry) (R : Ring) (x : farray G R) (pd : bool), lens_ok G R (fbase G R x) ->
  dagger_table G (duals G R (fbase G R x)) (charge G R (fbase G R x)) (fsectors G R x) (foddpos G R x) (fphases G R x) pd
  = fphases G R (f_dagger G R x pd).
Proof. exact dagger_table_model. Qed.

(* ---- 2. the array rebuilt from the generated state is the hand model's adjoint ---- *)
Theorem C10_via_gen_dagger :
  forall (G : Symmetry) (R : Ring), (forall a b : C G, ceqb G a b = true <-> a = b) -> parity_ok G ->
  forall (x : farray G R) (pd : bool),
  dagger_ok G R x -> dagger_via_gen G R x pd = f_dagger G R x pd.
Proof. exact dagger_via_gen_eq. Qed.

Theorem C10_via_gen_dagger_directions :
  forall (G : Symmetry) (R : Ring), (forall a b : C G, ceqb G a b = true <-> a = b) -> parity_ok G ->
  forall (x : farray G R) (pd : bool),
  dagger_ok G R x -> st_indices (dagger_state G R x pd) = duals G R (fbase G R (dagger_via_gen G R x pd)).
Proof. exact dagger_via_gen_duals. Qed.

Theorem C10_gen_dagger_ok_of_wf :
  forall (G : Symmetry), GroupLaws G -> forall (R : Ring) (x : farray G R),
  wf_array G R (fbase G R x) = true -> NoDup (fphases G R x) -> dagger_ok G R x.
Proof. exact dagger_ok_of_wf. Qed.

Theorem C10_gen_dagger_ok_preserved :
  forall (G : Symmetry) (R : Ring), (forall a b : C G, ceqb G a b = true <-> a = b) ->
  forall (x : farray G R) (pd : bool), dagger_ok G R x -> dagger_ok G R (f_dagger G R x pd).
Proof. exact dagger_ok_dagger. Qed.

(* ---- 3. C10's laws of the adjoint through the generated functions ---- *)
(* C10_dagger_eq_conj_transpose: adjoint = conjugate followed by the fermionic reversal of the axes, for
   every setting of the dual-leg option — dagger_gen against transpose_gen (axes reversed, phase=True)
   run on the state conj_gen (phase_permutation=True) returns *)
Theorem C10_gen_dagger_is_conj_then_reversal :
  forall (G : Symmetry), GroupLaws G -> forall (R : Ring) (x : farray G R) (pd : bool),
  wf_array G R (fbase G R x) = true -> NoDup (fphases G R x) ->
  feq G R (dagger_via_gen G R x pd)
          (transpose_via_gen G R (conj_via_gen G R x true pd) (rev_axes (ndim G R (fbase G R x))) true).
Proof. exact dagger_via_gen_conj_transpose. Qed.

(* C10_dagger_dagger *)
Theorem C10_gen_dagger_dagger :
  forall (G : Symmetry), GroupLaws G -> forall (R : Ring),
  (forall a, rconj R (rconj R a) = a) -> rconj R (r0 R) = r0 R ->
  forall (x : farray G R),
  wf_array G R (fbase G R x) = true -> NoDup (fphases G R x) ->
  feq G R (dagger_via_gen G R (dagger_via_gen G R x false) false) x.
Proof. exact dagger_via_gen_dagger. Qed.

(* C10_dagger_dagger_dual_option: with the option the double adjoint is (-1)^{parity x} x *)
Theorem C10_gen_dagger_dagger_dual_option :
  forall (G : Symmetry), GroupLaws G -> forall (R : Ring),
  (forall a, rconj R (rconj R a) = a) -> (forall a, rneg R (rneg R a) = a) -> rconj R (r0 R) = r0 R ->
  forall (x : farray G R),
  wf_array G R (fbase G R x) = true -> NoDup (fphases G R x) ->
  feq_sign G R (fparity G R x) (dagger_via_gen G R (dagger_via_gen G R x true) true) x.
Proof. exact dagger_via_gen_dagger_pd. Qed.

Print Assumptions C10_gen_dagger.
Print Assumptions C10_gen_dagger_any_blocks.
Print Assumptions C10_gen_dagger_state.
Print Assumptions C10_gen_dagger_table.
Print Assumptions C10_via_gen_dagger.
Print Assumptions C10_via_gen_dagger_directions.
Print Assumptions C10_gen_dagger_ok_of_wf.
Print Assumptions C10_gen_dagger_ok_preserved.
Print Assumptions C10_gen_dagger_is_conj_then_reversal.
Print Assumptions C10_gen_dagger_dagger.
Print Assumptions C10_gen_dagger_dagger_dual_option.
