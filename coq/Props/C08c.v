(* Props/C08c.v — property C08, continuation: the operations commute with densification,
   stated LITERALLY on the dense forms: `to_dense (op x ...) = Some (numpy_op (to_dense x) ...)`
   as an equality of tensors (shape and row-major data), `to_dense` = Model/Ctor.v (hand model of
   AbelianArray.to_dense: concatenation over the sorted charges of every index, zero fill),
   numpy_op = the primitive of Base/Tensor.v.  Obtained from the coordinate-level theorems of
   Props/C08.v and the bridge C16_to_dense_sem; proofs in Proofs/DenseProofs.v.
   `to_dense x = Some t` (i.e. no index of x has an empty table: numpy.concatenate of nothing
   raises) is the only requirement beyond `wf_array x`.  Every theorem holds for every symmetry
   with the group laws and a strict total order on its charge labels, every rank, every table
   and sparsity pattern, and every ring with the laws listed in the statement. *)
From Coq Require Import Permutation.
From SV Require Import Base.Prelude Base.Sym Base.Tensor Model.Sectors Model.Array Model.Arith Model.Wf
  Model.Ctor Proofs.OrderProofs Proofs.StructProofs Proofs.DenseProofs.
Local Open Scope nat_scope.

(* a valid array whose tables are all non-empty has a dense form *)
Theorem C08_to_dense_defined :
  forall (G : Symmetry) (R : Ring), GroupLaws G -> OrderLaws G ->
  forall x : aarray G R, wf_array G R x = true ->
  Forall (fun ix => chargemap G ix <> []) (indices G R x) ->
  exists t, to_dense G R x = Some t.
Proof. exact dense_exists. Qed.

(* THE re-indexing lemma behind the reductions: the dense positions, in row-major order, are
   mapped by `coords_of` onto `all_coords` (the coordinates C08_sum_sem sums over), in order *)
Theorem C08_coords_of_all_idx :
  forall (G : Symmetry) (ixs : list (index G)),
  map (coords_of G ixs) (all_idx (map (size_total G) ixs)) = all_coords G ixs.
Proof. exact coords_of_all_idx. Qed.

Theorem C08_transpose_dense :
  forall (G : Symmetry) (R : Ring), GroupLaws G -> OrderLaws G ->
  forall (x : aarray G R) (perm : list nat) (t : tensor R),
  wf_array G R x = true -> Permutation perm (seq 0 (ndim G R x)) ->
  to_dense G R x = Some t ->
  to_dense G R (a_transpose G R x perm) = Some (ttranspose R t perm).
Proof. exact transpose_dense. Qed.

Theorem C08_conj_dense :
  forall (G : Symmetry) (R : Ring), GroupLaws G -> OrderLaws G ->
  forall (x : aarray G R) (t : tensor R),
  rconj R (r0 R) = r0 R ->
  wf_array G R x = true -> to_dense G R x = Some t ->
  to_dense G R (a_conj G R x) = Some (tconj R t).
Proof. exact conj_dense. Qed.

Theorem C08_dagger_dense :
  forall (G : Symmetry) (R : Ring), GroupLaws G -> OrderLaws G ->
  forall (x : aarray G R) (t : tensor R),
  rconj R (r0 R) = r0 R ->
  wf_array G R x = true -> to_dense G R x = Some t ->
  to_dense G R (a_dagger G R x) = Some (ttranspose R (tconj R t) (rev_axes (ndim G R x))).
Proof. exact dagger_dense. Qed.

Theorem C08_scale_dense :
  forall (G : Symmetry) (R : Ring), GroupLaws G -> OrderLaws G ->
  forall (x : aarray G R) (s : RT R) (t : tensor R),
  (forall a, rmul R (r0 R) a = r0 R) ->
  wf_array G R x = true -> to_dense G R x = Some t ->
  to_dense G R (a_scale G R x s) = Some (tscale R s t).
Proof. exact scale_dense. Qed.

Theorem C08_neg_dense :
  forall (G : Symmetry) (R : Ring), GroupLaws G -> OrderLaws G ->
  forall (x : aarray G R) (t : tensor R),
  rneg R (r0 R) = r0 R ->
  wf_array G R x = true -> to_dense G R x = Some t ->
  to_dense G R (a_neg G R x) = Some (tneg R t).
Proof. exact neg_dense. Qed.

(* operands over the same indices and with the same charge; they may store different sectors *)
Theorem C08_add_dense :
  forall (G : Symmetry) (R : Ring), GroupLaws G -> OrderLaws G ->
  forall (x y : aarray G R) (tx ty : tensor R),
  (forall a, radd R (r0 R) a = a) -> (forall a, radd R a (r0 R) = a) ->
  wf_array G R x = true -> wf_array G R y = true ->
  indices G R x = indices G R y -> charge G R x = charge G R y ->
  to_dense G R x = Some tx -> to_dense G R y = Some ty ->
  to_dense G R (a_add G R x y) = Some (tadd R tx ty).
Proof. exact add_dense. Qed.

(* dense subtraction is `tsub` = entrywise a + (-b) (the ring record has no separate minus) *)
Theorem C08_sub_dense :
  forall (G : Symmetry) (R : Ring), GroupLaws G -> OrderLaws G ->
  forall (x y z : aarray G R) (tx ty : tensor R),
  (forall a, radd R (r0 R) a = a) -> rneg R (r0 R) = r0 R ->
  wf_array G R x = true -> wf_array G R y = true ->
  indices G R x = indices G R y ->
  a_sub G R x y = Some z ->
  to_dense G R x = Some tx -> to_dense G R y = Some ty ->
  to_dense G R z = Some (tsub R tx ty).
Proof. exact sub_dense. Qed.

Theorem C08_mul_dense :
  forall (G : Symmetry) (R : Ring), GroupLaws G -> OrderLaws G ->
  forall (x y : aarray G R) (tx ty : tensor R),
  (forall a, rmul R (r0 R) a = r0 R) -> (forall a, rmul R a (r0 R) = r0 R) ->
  wf_array G R x = true -> wf_array G R y = true ->
  indices G R x = indices G R y ->
  to_dense G R x = Some tx -> to_dense G R y = Some ty ->
  to_dense G R (a_mul G R x y) = Some (tmul R tx ty).
Proof. exact mul_dense. Qed.

(* multiply_diagonal: `vec_dense ix v` is the dense form of the block vector v over the table of
   the index ix (concatenation over the table's sorted charges, zeros for the charges v lacks);
   `vec_ok` = the stored pieces are 1-d with the extents of the table; `tmul_diag t w axis` is the
   dense "ab..X..c,X->ab..X..c" *)
Theorem C08_vec_dense_def :
  forall (G : Symmetry) (R : Ring) (ix : index G) (v : bvec G R),
  vec_dense G R ix v =
  mkT [size_total G ix]
      (flat_map (fun p => match lookup (ceqb G) (fst p) v with
                          | Some b => tdata b
                          | None => repeat (r0 R) (snd p)
                          end) (chargemap G ix)).
Proof. exact vec_dense_def. Qed.

Theorem C08_vec_dense_entry :
  forall (G : Symmetry) (R : Ring) (ix : index G) (v : bvec G R) (p : nat),
  vec_ok G R ix v -> p < size_total G ix ->
  get R (vec_dense G R ix v) [p] = vsem G R v (coord_at G ix p).
Proof. exact vec_dense_get. Qed.

Theorem C08_multiply_diagonal_dense :
  forall (G : Symmetry) (R : Ring), GroupLaws G -> OrderLaws G ->
  forall (x : aarray G R) (v : bvec G R) (axis : nat) (t : tensor R),
  (forall a, rmul R (r0 R) a = r0 R) -> (forall a, rmul R a (r0 R) = r0 R) ->
  wf_array G R x = true -> axis < ndim G R x ->
  vec_ok G R (nth axis (indices G R x) (dflt_index G)) v ->
  to_dense G R x = Some t ->
  to_dense G R (a_multiply_diagonal G R x v axis)
  = Some (tmul_diag R t (vec_dense G R (nth axis (indices G R x) (dflt_index G)) v) axis).
Proof. exact multiply_diagonal_dense. Qed.

(* expand_dims = numpy reshape inserting a size-one axis *)
Theorem C08_expand_dims_dense :
  forall (G : Symmetry) (R : Ring), GroupLaws G -> OrderLaws G ->
  forall (x : aarray G R) (axis : nat) (t : tensor R),
  wf_array G R x = true -> to_dense G R x = Some t ->
  to_dense G R (a_expand_dims G R x axis) = Some (treshape R t (insert_nth (tshape t) axis 1)).
Proof. exact expand_dims_dense. Qed.

(* squeeze = numpy reshape dropping the removed (size-one, charge-zero) axes; `removes x axes`
   flags the axes squeeze is asked to remove (C08_removes_spec), mask_keep drops the flagged entries *)
Theorem C08_squeeze_dense :
  forall (G : Symmetry) (R : Ring), GroupLaws G -> OrderLaws G ->
  forall (x y : aarray G R) (axes : option (list nat)) (t : tensor R),
  wf_array G R x = true -> a_squeeze G R x axes = Some y -> to_dense G R x = Some t ->
  to_dense G R y = Some (treshape R t (mask_keep (removes G R x axes) (tshape t))).
Proof. exact squeeze_dense. Qed.

(* the reductions: x.sum() and the squared norm are numpy's on the dense form *)
Theorem C08_sum_dense :
  forall (G : Symmetry) (R : Ring), GroupLaws G -> OrderLaws G ->
  forall (x : aarray G R) (t : tensor R),
  (forall a, radd R (r0 R) a = a) -> (forall a b, radd R a b = radd R b a) ->
  (forall a b c, radd R a (radd R b c) = radd R (radd R a b) c) ->
  wf_array G R x = true -> to_dense G R x = Some t ->
  a_sum G R x = tsum R t.
Proof. exact sum_dense. Qed.

Theorem C08_norm2_dense :
  forall (G : Symmetry) (R : Ring), GroupLaws G -> OrderLaws G ->
  forall (x : aarray G R) (t : tensor R),
  (forall a, radd R (r0 R) a = a) -> (forall a b, radd R a b = radd R b a) ->
  (forall a b c, radd R a (radd R b c) = radd R (radd R a b) c) ->
  (forall a, rmul R (r0 R) a = r0 R) ->
  wf_array G R x = true -> to_dense G R x = Some t ->
  a_norm2 G R x = tnorm2 R t.
Proof. exact norm2_dense. Qed.

Print Assumptions C08_to_dense_defined.
Print Assumptions C08_coords_of_all_idx.
Print Assumptions C08_transpose_dense.
Print Assumptions C08_conj_dense.
Print Assumptions C08_dagger_dense.
Print Assumptions C08_scale_dense.
Print Assumptions C08_neg_dense.
Print Assumptions C08_add_dense.
Print Assumptions C08_sub_dense.
Print Assumptions C08_mul_dense.
Print Assumptions C08_vec_dense_def.
Print Assumptions C08_vec_dense_entry.
Print Assumptions C08_multiply_diagonal_dense.
Print Assumptions C08_expand_dims_dense.
Print Assumptions C08_squeeze_dense.
Print Assumptions C08_sum_dense.
Print Assumptions C08_norm2_dense.
