(* Props/C14.v — property C14: operations never modify their operands unless
   asked to.  Statements only; proofs live in Proofs/Heap*.v.

   Model: Model/Heap.v (store of dict objects, buffers, array objects; heap
   language; ownership analysis `safe`), Model/HeapOps.v (one script per public
   operation, `script P o`, mirroring the Python method statement by
   statement), Gen/HeapSites.v (mutation sites regenerated from the source),
   Model/HeapSitePolicy.v (which sites are acceptable). *)
From Coq Require Import String.
From SV Require Import Base.Prelude Model.Heap Model.HeapOps Model.HeapSitePolicy Gen.HeapSites
                       Proofs.HeapProofs Proofs.HeapOpsProofs Proofs.HeapSitesProofs.
Open Scope nat_scope.

Section C14.
  Context {K : Type} (keqb : K -> K -> bool) (k0 : K).

  (* The frame property of the script LANGUAGE: any script accepted by the
     syntactic "stores only into what this call owns" analysis, run with no
     in-place receiver, leaves every dict (contents and key order), every
     buffer and every object that existed before the call unchanged, hence the
     observable state of every array, and preserves the ownership invariant. *)
  Theorem C14_script_frame (c : @cmd K) (s : @st K) n a' :
    safe c (init_aenv n []) = Some a' -> Own (sh s) ->
    let h := sh s in let h' := sh (exec keqb c s) in
    Own h' /\
    (forall d, d < length (hd h) -> dict_at h' d = dict_at h d) /\
    (forall b, b < length (hb h) -> buf_at h' b = buf_at h b) /\
    (forall o, o < length (ho h) -> obj_at h' o = obj_at h o /\ shape h' o = shape h o /\
                                    (bufs_valid h o -> obs h' o = obs h o)).
  Proof. exact (op_frame keqb c s n a'). Qed.

  (* Every operation script passes the analysis with exactly the declared
     receivers (none when called without an in-place flag). *)
  Theorem C14_all_scripts_accepted (P : @params K) (o : op) (args dsts : list nat) :
    length args = nargs o -> instr_ok (instr_of P o args dsts) = true.
  Proof. exact (all_ops_ok P o args dsts). Qed.

  (* op_frame: every public operation called without an in-place flag. *)
  Theorem C14_op_frame (P : @params K) (o : op) (s : @st K) :
    recv o = [] -> Own (sh s) ->
    let h := sh s in let h' := sh (exec keqb (script P o) s) in
    Own h' /\
    (forall d, d < length (hd h) -> dict_at h' d = dict_at h d) /\
    (forall b, b < length (hb h) -> buf_at h' b = buf_at h b) /\
    (forall x, x < length (ho h) -> obj_at h' x = obj_at h x /\ shape h' x = shape h x /\
                                    (bufs_valid h x -> obs h' x = obs h x)).
  Proof. exact (op_frame_all keqb P o s). Qed.

  (* In-place calls / documented in-place methods: only the receivers change,
     no buffer that existed before is ever written, Own is preserved. *)
  Theorem C14_inplace_frame (P : @params K) (o : op) (s : @st K) :
    Own (sh s) -> (forall v, In v (recv o) -> ov s v < length (ho (sh s))) ->
    let h := sh s in let h' := sh (exec keqb (script P o) s) in
    Own h' /\
    (forall b, b < length (hb h) -> buf_at h' b = buf_at h b) /\
    (forall x, x < length (ho h) -> ~ In x (map (ov s) (recv o)) ->
        obj_at h' x = obj_at h x /\ shape h' x = shape h x /\ (bufs_valid h x -> obs h' x = obs h x)).
  Proof. exact (inplace_frame_all keqb P o s). Qed.

  (* programs_frame: any finite sequence of operations on a register file whose
     arrays may share buffers with earlier results; an array that is never the
     receiver of an in-place call keeps its observable state. *)
  Theorem C14_programs_frame (prog : list (@call K)) (p : @pstate K) (x : nat) :
    Forall call_wf prog -> Own (ph p) -> regs_ok p -> x < length (ho (ph p)) ->
    untouched keqb k0 x (map instr_of_call prog) p ->
    let p' := run keqb k0 (map instr_of_call prog) p in
    Own (ph p') /\
    obj_at (ph p') x = obj_at (ph p) x /\
    shape (ph p') x = shape (ph p) x /\
    (forall b, b < length (hb (ph p)) -> buf_at (ph p') b = buf_at (ph p) b) /\
    (bufs_valid (ph p) x -> obs (ph p') x = obs (ph p) x).
  Proof. exact (programs_frame_ops keqb k0 prog p x). Qed.

  (* inplace_eq.  FULL statement (not proved): for every operation offering the
     flag, the receiver after the in-place script is observably equal to the
     array returned by the out-of-place script. *)
  Definition C14_inplace_eq_full : Prop :=
    forall (P : @params K) (o ot of_ : op) (s : @st K),
      with_flag o true = Some ot -> with_flag o false = Some of_ ->
      Own (sh s) -> ov s 0 < length (ho (sh s)) -> ov s 1 <> ov s 0 ->
      bufs_valid (sh s) (ov s 0) ->
      obs (sh (exec keqb (script P ot) s)) (ov (exec keqb (script P ot) s) 2) =
      obs (sh (exec keqb (script P of_) s)) (ov (exec keqb (script P of_) s) 2).

  (* PARTIAL: (1) for every flag-offering operation except the three that
     rebind instead of copying (abelian fuse core, abelian unfuse,
     drop_misaligned_sectors), the two scripts are literally
     `new = self` / `new = self.copy()` followed by ONE common body that works
     on `new`; (2) `copy()` returns a new object with new dict objects and the
     same observable state.  Missing for the full statement: the congruence
     "the body's effect on `new` depends only on the observable state of
     `new`" (a store-isomorphism argument); it is checked on the
     implementation by the harness oracle (op(inplace=True) on a copy == op()). *)
  Theorem C14_inplace_eq_partial :
    (forall (P : @params K) (o : op), copy_shaped o = true ->
       exists body, forall ip o', with_flag o ip = Some o' -> script P o' = Seq (B_new ip) body) /\
    (forall (s : @st K) (dst src : nat),
       oblocks (obj_at (sh s) (ov s src)) < length (hd (sh s)) ->
       ophases (obj_at (sh s) (ov s src)) < length (hd (sh s)) ->
       let s' := exec keqb (B_copy dst src) s in
       ov s' dst = length (ho (sh s)) /\
       obj_at (sh s') (ov s' dst) = mkO (length (hd (sh s))) (S (length (hd (sh s)))) /\
       obs (sh s') (ov s' dst) = obs (sh s) (ov s src)).
  Proof. split; [exact (fun P o => inplace_shape P o) | exact (copy_obs keqb)]. Qed.
End C14.

(* Tie to the source (regenerated on every run by tr/gen_heap.py): no mutation
   site in block_core / abelian_core / fermionic_core / linalg stores through
   an operand or through `self` outside an in-place guard or a documented
   in-place method; no dict of another object is installed as a field; every
   function with an `inplace` parameter has a script. *)
Theorem C14_no_operand_site : bad_sites = nil.
Proof. exact no_operand_site. Qed.
Theorem C14_no_shared_dict_binding : bad_binds = nil.
Proof. exact no_shared_dict_binding. Qed.
Theorem C14_flag_functions_modelled : unmodelled_flags = nil.
Proof. exact flag_functions_modelled. Qed.

(* NOTE (later round): `C14_inplace_eq_full` above is superseded — as written it is false (it does not
   require the second operand to exist and compares the wrong result locals for drop_misaligned_sectors:
   `C14_inplace_eq_full_v1_refuted` in Props/C14b.v); the corrected full statement is proved there as
   `C14_inplace_eq` for EVERY flag-offering operation via a store-isomorphism simulation. *)

Print Assumptions C14_script_frame.
Print Assumptions C14_all_scripts_accepted.
Print Assumptions C14_op_frame.
Print Assumptions C14_inplace_frame.
Print Assumptions C14_programs_frame.
Print Assumptions C14_inplace_eq_partial.
Print Assumptions C14_no_operand_site.
Print Assumptions C14_no_shared_dict_binding.
Print Assumptions C14_flag_functions_modelled.
