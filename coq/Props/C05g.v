(* Props/C05g.v — continuation of Props/C05.v (audited together with it):
   the GENERATED index helpers equal the hand model.  Statements only; proofs in
   Proofs/HelpersProofs.v. *)
From SV Require Import Base.Prelude Base.Sym Base.Tensor Model.Sectors Model.Array.
Local Open Scope nat_scope.

(* tr/gen_helpers.py -> Gen/Helpers.v:
   The pure index helpers of symmray/abelian_core.py — permuted, without,
   replace_with_seq, accum_for_split, calc_fuse_group_info — are TRANSLATED from
   the current source on every run (Gen/Helpers.v; Python ints = Z) and proved
   equal to the hand-written definitions the theorems above are stated over
   (Base/Tensor.v, Model/Array.v; axes = nat).  Unbounded: every rank, every
   grouping.  A change to one of these helpers in the source regenerates
   Gen/Helpers.v and these obligations are re-checked against it.
   "well-formed groups" = non-empty groups of in-range, pairwise distinct axes. *)
From SV Require Base.PyList Gen.Helpers.
From SV Require Import Proofs.HelpersProofs.

Theorem C05_gen_permuted : forall (A : Type) (d : A) (l : list A) (perm : list nat),
  Helpers.permuted d l (map Z.of_nat perm) = Tensor.permuted d l perm.
Proof. exact (@gen_permuted). Qed.

Theorem C05_gen_without : forall (A : Type) (l : list A) (axes : list nat),
  Helpers.without l (map Z.of_nat axes) = without_axes l axes.
Proof. exact (@gen_without). Qed.

Theorem C05_gen_replace_with_seq : forall (A : Type) (l : list A) (i : nat) (s : list A),
  Helpers.replace_with_seq l (Z.of_nat i) s = Array.replace_with_seq l i s.
Proof. exact (@gen_replace_with_seq). Qed.

(* slice k of accum_for_split(sizes) is [start_k, start_k + size_k) with start = starts_from 0 *)
Theorem C05_gen_accum_for_split : forall sizes : list nat,
  Helpers.accum_for_split (map Z.of_nat sizes) =
    map (fun p => (Z.of_nat (fst p), Z.of_nat (fst p + snd p))) (List.combine (starts_from 0 sizes) sizes) /\
  map fst (Helpers.accum_for_split (map Z.of_nat sizes)) = map Z.of_nat (starts_from 0 sizes).
Proof. exact (fun sizes => conj (gen_accum_for_split sizes) (gen_accum_starts sizes)). Qed.

Theorem C05_gen_position : forall (groups : list (list nat)) (duals : list bool),
  Forall (fun g => g <> []) groups ->
  Helpers.cfgi_position (map (map Z.of_nat) groups) duals = Z.of_nat (fuse_position groups).
Proof. exact gen_cfgi_position. Qed.

Theorem C05_gen_axes_before : forall (groups : list (list nat)) (duals : list bool),
  Forall (fun g => g <> []) groups ->
  Helpers.cfgi_axes_before (map (map Z.of_nat) groups) duals = map Z.of_nat (axes_before (length duals) groups).
Proof. exact gen_cfgi_axes_before. Qed.

Theorem C05_gen_axes_after : forall (groups : list (list nat)) (duals : list bool),
  Forall (fun g => g <> []) groups ->
  Helpers.cfgi_axes_after (map (map Z.of_nat) groups) duals = map Z.of_nat (axes_after (length duals) groups).
Proof. exact gen_cfgi_axes_after. Qed.

Theorem C05_gen_perm : forall (groups : list (list nat)) (duals : list bool),
  Forall (fun g => g <> []) groups ->
  Helpers.cfgi_perm (map (map Z.of_nat) groups) duals = map Z.of_nat (fuse_perm (length duals) groups).
Proof. exact gen_cfgi_perm. Qed.

(* the fused direction of every group is that of its FIRST axis *)
Theorem C05_gen_group_duals : forall (G : Symmetry) (ixs : list (index G)) (groups : list (list nat)),
  Helpers.cfgi_group_duals (map (map Z.of_nat) groups) (map (idual G) ixs) = map (group_dual G ixs) groups.
Proof. exact gen_cfgi_group_duals. Qed.

Theorem C05_gen_group_singlets : forall (groups : list (list nat)) (duals : list bool),
  Helpers.cfgi_group_singlets (map (map Z.of_nat) groups) duals =
    map Z.of_nat (map fst (filter (fun p => is_singlet (snd p)) (enumerate groups))) /\
  (forall j, In (Z.of_nat j) (Helpers.cfgi_group_singlets (map (map Z.of_nat) groups) duals) <->
             j < length groups /\ is_singlet (nth j groups []) = true).
Proof. exact gen_cfgi_group_singlets. Qed.

Theorem C05_gen_num_groups : forall (groups : list (list nat)) (duals : list bool),
  Helpers.cfgi_num_groups (map (map Z.of_nat) groups) duals = Z.of_nat (length groups).
Proof. exact gen_cfgi_num_groups. Qed.

Theorem C05_gen_new_ndim : forall (groups : list (list nat)) (duals : list bool),
  Forall (fun g => g <> []) groups /\ Forall (fun ax => ax < length duals) (concat groups) /\ NoDup (concat groups) ->
  Helpers.cfgi_new_ndim (map (map Z.of_nat) groups) duals =
    Z.of_nat (length (axes_before (length duals) groups) + length groups + length (axes_after (length duals) groups)) /\
  Helpers.cfgi_new_ndim (map (map Z.of_nat) groups) duals =
    Z.of_nat (length duals - length (concat groups) + length groups).
Proof. exact gen_cfgi_new_ndim. Qed.

(* ax2group on range(ndim): number of the group containing the axis, None for a kept axis *)
Theorem C05_gen_ax2group : forall (groups : list (list nat)) (duals : list bool) (ax : nat),
  NoDup (concat groups) -> ax < length duals ->
  lookup Z.eqb (Z.of_nat ax) (Helpers.cfgi_ax2group (map (map Z.of_nat) groups) duals) =
    Some (option_map Z.of_nat (group_of groups ax)).
Proof. exact gen_cfgi_ax2group. Qed.

(* new_axes sends every axis to the number of the cell that contains it in the grouping
   [kept axes before | one cell per group | kept axes after] of perm *)
Theorem C05_gen_new_axes : forall (groups : list (list nat)) (duals : list bool),
  Forall (fun g => g <> []) groups /\ Forall (fun ax => ax < length duals) (concat groups) /\ NoDup (concat groups) ->
  let n := length duals in
  let cells := map (fun a => [a]) (axes_before n groups) ++ groups ++ map (fun a => [a]) (axes_after n groups) in
  concat cells = fuse_perm n groups /\
  forall ax, lookup Z.eqb (Z.of_nat ax) (Helpers.cfgi_new_axes (map (map Z.of_nat) groups) duals) =
             option_map Z.of_nat (group_of cells ax).
Proof. exact gen_cfgi_new_axes. Qed.

Print Assumptions C05_gen_permuted.
Print Assumptions C05_gen_without.
Print Assumptions C05_gen_replace_with_seq.
Print Assumptions C05_gen_accum_for_split.
Print Assumptions C05_gen_position.
Print Assumptions C05_gen_axes_before.
Print Assumptions C05_gen_axes_after.
Print Assumptions C05_gen_perm.
Print Assumptions C05_gen_group_duals.
Print Assumptions C05_gen_group_singlets.
Print Assumptions C05_gen_num_groups.
Print Assumptions C05_gen_new_ndim.
Print Assumptions C05_gen_ax2group.
Print Assumptions C05_gen_new_axes.
